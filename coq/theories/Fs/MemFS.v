(* Executable model of vfs/memfs (MemFS): node graph as a pointer heap, the
   path walk searchNode with symbolic links and permissions, and every
   namespace call, mirroring memfs.go / memfs_internal.go call by call -
   defects included (Deadlock / Panic outcomes are explicit).

   Pointers are indices into a list of nodes; allocation appends; a removed
   node stays in the heap, unreferenced, exactly as a Go object waiting for the
   collector.  Several views (Sub) share one heap. *)
From Avfs Require Import Base PathModel.
Set Implicit Arguments.

(* ---- bits of fs.FileMode that MemFS stores --------------------------- *)
Definition PERM_MASK : N := 511.                       (* fs.ModePerm 0o777 *)
Definition MODE_STICKY : N := 1048576.                 (* 1<<20 *)
Definition MODE_SETGID : N := 4194304.                 (* 1<<22 *)
Definition MODE_SETUID : N := 8388608.                 (* 1<<23 *)
Definition MODE_DIR : N := 2147483648.                 (* 1<<31 *)
Definition MODE_SYMLINK : N := 134217728.              (* 1<<27 *)
Definition FILE_MODE_MASK : N := 511 + 1048576 + 4194304 + 8388608.   (* avfs.FileModeMask *)

(* avfs.OpenMode *)
Definition OpenLookup : N := 1.
Definition OpenWrite : N := 2.
Definition OpenRead : N := 4.
Definition OpenAppend : N := 8.
Definition OpenCreate : N := 16.
Definition OpenCreateExcl : N := 32.
Definition OpenTruncate : N := 64.

(* os.O_* on Linux *)
Definition O_WRONLY : N := 1.
Definition O_RDWR : N := 2.
Definition O_CREATE : N := 64.
Definition O_EXCL : N := 128.
Definition O_TRUNC : N := 512.
Definition O_APPEND : N := 1024.

(* strings.HasPrefix *)
Fixpoint is_prefix (p s : str) : bool :=
  match p, s with
  | [], _ => true
  | x :: p', y :: s' => N.eqb x y && is_prefix p' s'
  | _ :: _, [] => false
  end.

Definition has (x bit : N) : bool := negb (N.eqb (N.land x bit) 0).

(* vfs.go ToOpenMode: the access mode comes from the two low bits of flag *)
Definition to_open_mode (flag : N) : N :=
  let acc := N.land flag 3 in
  let om0 := if N.eqb acc 0 then OpenRead else if N.eqb acc 1 then OpenWrite else N.lor OpenRead OpenWrite in
  let om1 := if has flag O_CREATE
             then N.lor om0 (if has flag O_EXCL then OpenCreate + OpenCreateExcl else OpenCreate) else om0 in
  let om2 := if has flag O_APPEND then N.lor om1 OpenAppend else om1 in
  if has flag O_TRUNC then N.lor om2 OpenTruncate else om2.

(* ---- errors ------------------------------------------------------------ *)
(* vfs.err.* fields (value depends on the emulated OS), hard-coded avfs
   constants, and Go-level errors. *)
Inductive ekind :=
| EBadFileDesc | EDirNotEmpty | EFileExists | EInvalidArgument | EIsADirectory
| ENoSuchDir | ENoSuchFile | ENotADirectory | EOpNotPermitted | EPermDenied | ETooManySymlinks
| EC_FileExists | EC_OpNotPermitted | EC_InvalidArgument | EC_NotADirectory | EC_IsADirectory | EC_BadFileDesc
| EW_DirNameInvalid | EW_AlreadyExists | EW_AccessDenied | EW_NotReparsePoint | EW_IncorrectFunc
| EW_InvalidHandle | EW_NotSupported
| EG_Closed | EG_Invalid | EG_EOF | EG_FileClosing | EG_NegativeOffset
| EG_WriteAtInAppendMode     (* avfs.ErrWriteAtInAppendMode, returned unwrapped by WriteAt *)
| EFuel.   (* model-only: the walk ran out of fuel; excluded by every theorem *)

(* ---- nodes ------------------------------------------------------------- *)
Record meta := { m_mode : N; m_uid : Z; m_gid : Z }.

Inductive node :=
| NDir (ch : list (str * nat)) (m : meta)
| NFile (data : list N) (nlink : Z) (id : N) (m : meta)
| NSym (link : str) (m : meta).

Definition node_meta (n : node) : meta :=
  match n with NDir _ m | NFile _ _ _ m | NSym _ m => m end.

Definition heap := list node.
Definition get (h : heap) (i : nat) : option node := nth_error h i.

Fixpoint upd (h : heap) (i : nat) (n : node) : heap :=
  match h, i with
  | [], _ => []
  | _ :: h', O => n :: h'
  | x :: h', S i' => x :: upd h' i' n
  end.

Record user := { us_uid : Z; us_gid : Z; us_admin : bool }.

(* A MemFS value: Sub copies the struct, so every field below is per view;
   the node graph, the id counter and the volume map are shared. *)
Record view := {
  v_root : nat;
  v_cwd : str;
  v_user : user;
  v_umask : N;
  v_os : ostype;
  v_idm : bool                   (* HasFeature(FeatIdentityMgr) *)
}.

Record fsys := {
  f_heap : heap;
  f_last_id : N;
  f_vols : list (str * nat)      (* Windows volumes: name -> root dir *)
}.

(* ---- permissions (memfs_internal.go:226) ------------------------------- *)
Definition check_permission (m : meta) (perm : N) (u : user) : bool :=
  if us_admin u then true
  else
    let mode16 := N.land (m_mode m) 65535 in
    let mode := if Z.eqb (m_uid m) (us_uid u) then N.shiftr mode16 6
                else if Z.eqb (m_gid m) (us_gid u) then N.shiftr mode16 3
                else mode16 in
    let p := N.land perm 7 in
    N.eqb (N.land mode p) p.

Definition set_mode_ok (m : meta) (u : user) : bool := Z.eqb (m_uid m) (us_uid u) || us_admin u.

Definition with_mode (m : meta) (mode : N) : meta :=
  {| m_mode := N.lor (N.ldiff (m_mode m) FILE_MODE_MASK) (N.land mode FILE_MODE_MASK);
     m_uid := m_uid m; m_gid := m_gid m |}.

(* setMode: a user who is not a member of the node's group cannot set the set-group-ID bit (chmod(2)) *)
Definition chmod_mode (m : meta) (u : user) (mode : N) : N :=
  if negb (us_admin u) && negb (Z.eqb (m_gid m) (us_gid u)) then N.ldiff mode MODE_SETGID else mode.

Definition with_owner (m : meta) (uid gid : Z) : meta :=
  {| m_mode := m_mode m;
     m_uid := if Z.eqb uid (-1) then m_uid m else uid;
     m_gid := if Z.eqb gid (-1) then m_gid m else gid |}.

(* baseNode.dropSetId (the kernel's setattr_should_drop_suidgid): the set-user-ID bit is cleared, the set-group-ID bit
   too when the group-execute bit is set or when the user is neither an administrator nor a member of the group *)
Definition drop_setid (u : user) (m : meta) : meta :=
  let a := N.ldiff (m_mode m) MODE_SETUID in
  {| m_mode := if has (m_mode m) 8 || (negb (us_admin u) && negb (Z.eqb (m_gid m) (us_gid u)))
               then N.ldiff a MODE_SETGID else a;
     m_uid := m_uid m; m_gid := m_gid m |}.

(* fileNode.removePrivs (file_remove_privs): a write or a truncation by a user who is not an administrator *)
Definition drop_privs (u : user) (m : meta) : meta := if us_admin u then m else drop_setid u m.

Definition set_meta (n : node) (m : meta) : node :=
  match n with
  | NDir ch _ => NDir ch m
  | NFile d k i _ => NFile d k i m
  | NSym l _ => NSym l m
  end.

(* baseNode.mayChown (chown_ok / chgrp_ok): an administrator; the owner of the node giving it its own or the node's
   group and leaving the owner; anybody leaving both as they are *)
Definition chown_ok (m : meta) (u : user) (uid gid : Z) : bool :=
  us_admin u
  || (Z.eqb uid (-1) && Z.eqb gid (-1))
  || (Z.eqb (m_uid m) (us_uid u)
      && (Z.eqb uid (-1) || Z.eqb uid (m_uid m))
      && (Z.eqb gid (-1) || Z.eqb gid (m_gid m) || Z.eqb gid (us_gid u))).

(* node.setOwner: the set-id bits of a node that is not a directory are cleared *)
Definition chown_meta (n : node) (u : user) (uid gid : Z) : meta :=
  match n with
  | NDir _ m => with_owner m uid gid
  | _ => with_owner (drop_setid u (node_meta n)) uid gid
  end.

(* ---- the path walk (memfs_internal.go:44 searchNode) ------------------- *)
Inductive slmode := SlLstat | SlStat | SlEval.
Definition slmode_eqb (a b : slmode) : bool :=
  match a, b with SlLstat, SlLstat | SlStat, SlStat | SlEval, SlEval => true | _, _ => false end.

Definition slCountMax : nat := 40.

Record sres := {
  sr_parent : option nat;     (* nil only when a Windows volume does not exist *)
  sr_child : option nat;
  sr_pi : piter;
  sr_err : ekind
}.

Definition children (h : heap) (d : nat) : list (str * nat) :=
  match get h d with Some (NDir ch _) => ch | _ => [] end.

Definition out_pi (pi : piter) (saved : option piter) : piter :=
  match saved with Some p => p | None => pi end.

Fixpoint search_loop (fuel : nat) (h : heap) (v : view) (slm : slmode) (vol parent : nat)
         (pi : piter) (slcount : nat) (saved : option piter) : sres :=
  match fuel with
  | O => {| sr_parent := Some parent; sr_child := None; sr_pi := pi; sr_err := EFuel |}
  | S f =>
      let '(ok, pi1) := pi_next (v_os v) pi in
      if negb ok then
        {| sr_parent := Some parent; sr_child := Some parent; sr_pi := out_pi pi1 saved; sr_err := EFileExists |}
      else
        let name := pi_part pi1 in
        let last := pi_is_last pi1 in
        if Nat.eqb parent vol && negb (match get h parent with
                                      | Some n => check_permission (node_meta n) OpenLookup (v_user v)
                                      | None => false end)
        then {| sr_parent := Some parent; sr_child := None; sr_pi := out_pi pi1 saved; sr_err := EPermDenied |}
        else
        match alookup str_eqb name (children h parent) with
        | None =>
            {| sr_parent := Some parent; sr_child := None; sr_pi := out_pi pi1 saved;
               sr_err := if last then ENoSuchFile else ENoSuchDir |}
        | Some c =>
            let ret e := {| sr_parent := Some parent; sr_child := Some c; sr_pi := out_pi pi1 saved; sr_err := e |} in
            match get h c with
            | None => ret EFuel    (* dangling pointer: not reachable from well-formed states *)
            | Some (NDir _ m) =>
                if last then ret EFileExists
                else if check_permission m OpenLookup (v_user v)
                     then search_loop f h v slm vol c pi1 slcount saved
                     else ret EPermDenied
            | Some (NFile _ _ _ _) =>
                (* vfs.err.NotADirectory and vfs.err.NoSuchDir are the SAME value on Windows (ErrWinPathNotFound,
                   errors.go Errors.SetOSType), and the callers compare error values (isNotExist) *)
                if last then ret EFileExists
                else ret (match v_os v with Windows => ENoSuchDir | Linux => ENotADirectory end)
            | Some (NSym link _) =>
                let slcount' := S slcount in
                if last && slmode_eqb slm SlLstat then ret EFileExists
                else if Nat.ltb slCountMax slcount' then ret ETooManySymlinks
                else
                  let saved' := match saved with
                                | None => if last && slmode_eqb slm SlStat then Some pi1 else None
                                | Some _ => saved
                                end in
                  let '(reset, pi2) := pi_replace_part (v_os v) pi1 link in
                  search_loop f h v slm vol (if reset then vol else parent) pi2 slcount' saved'
            end
        end
  end.

Definition SEARCH_FUEL : nat := 3000.

Definition search_node (s : fsys) (v : view) (path : str) (slm : slmode) : sres :=
  let abs_path := abs (v_os v) (v_cwd v) path in
  let pi := pi_new (v_os v) abs_path in
  if Nat.ltb 0 (pi_vnl pi) then
    match alookup str_eqb (pi_volume_name pi) (f_vols s) with
    | None => {| sr_parent := None; sr_child := None; sr_pi := pi; sr_err := ENoSuchDir |}
    | Some nd => search_loop SEARCH_FUEL (f_heap s) v slm nd nd pi 0 None
    end
  else search_loop SEARCH_FUEL (f_heap s) v slm (v_root v) (v_root v) pi 0 None.

Definition is_not_exist (e : ekind) : bool :=
  match e with ENoSuchDir | ENoSuchFile => true | _ => false end.
Definition is_file_exists (e : ekind) : bool :=
  match e with EFileExists => true | _ => false end.

(* ---- results ------------------------------------------------------------ *)
(* fs.FileInfo as MemInfo reports it *)
Record finfo := { fi_name : str; fi_size : Z; fi_mode : N; fi_uid : Z; fi_gid : Z; fi_nlink : Z; fi_id : N }.

Inductive res :=
| ROk
| RFail (e : ekind)
| RErrPath (e : ekind) (path : str)        (* error whose reported path is not the argument *)
| RInfo (i : finfo)
| RStr (s : str)
| RBytes (n : Z) (b : list N) (e : option ekind)   (* count, bytes, error (io.EOF ...) *)
| RInt (z : Z)
| RNames (l : list str) (e : option ekind)
| RInfos (l : list finfo) (e : option ekind)
| RHandle (h : nat)
| RView (v : nat)
| RPanic
| RDeadlock.

Definition fill_stat (n : node) (name : str) : finfo :=
  match n with
  | NDir ch m => {| fi_name := name; fi_size := Z.of_nat (length ch); fi_mode := m_mode m;
                    fi_uid := m_uid m; fi_gid := m_gid m; fi_nlink := 0; fi_id := 0 |}
  | NFile d k i m => {| fi_name := name; fi_size := Z.of_nat (length d); fi_mode := m_mode m;
                        fi_uid := m_uid m; fi_gid := m_gid m; fi_nlink := k; fi_id := i |}
  | NSym l m => {| fi_name := name; fi_size := Z.of_nat (length l); fi_mode := m_mode m;
                   fi_uid := m_uid m; fi_gid := m_gid m; fi_nlink := 0; fi_id := 0 |}
  end.

(* ---- mutators ----------------------------------------------------------- *)
Definition dir_mode (os : ostype) : N := match os with Linux => MODE_DIR | Windows => N.lor MODE_DIR 511 end.
Definition file_mode (os : ostype) : N := match os with Linux => 0%N | Windows => 438%N end.

(* the meta data of a node; used for the directory a node is created in (the callers have checked that it exists) *)
Definition meta_of (h : heap) (i : nat) : meta :=
  match get h i with Some n => node_meta n | None => {| m_mode := 0; m_uid := 0; m_gid := 0 |} end.

(* newGid: the group of the directory if its set-group-ID bit is set, else the group of the current user *)
Definition new_gid (v : view) (pm : meta) : Z :=
  if has (m_mode pm) MODE_SETGID then m_gid pm else us_gid (v_user v).

Definition new_meta (v : view) (pm : meta) (type_bits perm : N) : meta :=
  {| m_mode := N.lor type_bits (N.ldiff (N.land perm FILE_MODE_MASK) (v_umask v));
     m_uid := us_uid (v_user v); m_gid := new_gid v pm |}.

(* createDir: a new directory also inherits the set-group-ID bit of the directory it is created in *)
Definition new_dir_meta (v : view) (pm : meta) (perm : N) : meta :=
  let m := new_meta v pm (dir_mode (v_os v)) (N.land perm (511 + MODE_STICKY)) in
  {| m_mode := N.lor (m_mode m) (N.land (m_mode pm) MODE_SETGID); m_uid := m_uid m; m_gid := m_gid m |}.

(* parent.addChild(name, c) *)
Definition add_child (h : heap) (parent : nat) (name : str) (c : nat) : heap :=
  match get h parent with
  | Some (NDir ch m) => upd h parent (NDir (aset str_eqb name c ch) m)
  | _ => h
  end.

Definition remove_child (h : heap) (parent : nat) (name : str) : heap :=
  match get h parent with
  | Some (NDir ch m) => upd h parent (NDir (aremove str_eqb name ch) m)
  | _ => h
  end.

(* node.delete() *)
Definition delete_node (h : heap) (c : nat) : heap :=
  match get h c with
  | Some (NDir _ m) => upd h c (NDir [] m)
  | Some (NFile d k i m) =>
      (* the data stay for the handles still open on the node *)
      upd h c (NFile d (k - 1)%Z i m)
  | Some (NSym _ m) => upd h c (NSym [] m)
  | None => h
  end.

(* createDir / createFile / createSymlink: allocate at the end, link into parent *)
Definition create_dir (s : fsys) (v : view) (parent : nat) (name : str) (perm : N) : fsys * nat :=
  let c := length (f_heap s) in
  let h1 := f_heap s ++ [NDir [] (new_dir_meta v (meta_of (f_heap s) parent) perm)] in
  ({| f_heap := add_child h1 parent name c; f_last_id := f_last_id s; f_vols := f_vols s |}, c).

Definition create_file (s : fsys) (v : view) (parent : nat) (name : str) (perm : N) : fsys * nat :=
  let c := length (f_heap s) in
  let id := (f_last_id s + 1)%N in
  let h1 := f_heap s ++ [NFile [] 1 id (new_meta v (meta_of (f_heap s) parent) (file_mode (v_os v)) perm)] in
  ({| f_heap := add_child h1 parent name c; f_last_id := id; f_vols := f_vols s |}, c).

Definition create_symlink (s : fsys) (v : view) (parent : nat) (name link : str) : fsys :=
  let c := length (f_heap s) in
  let m := {| m_mode := N.lor MODE_SYMLINK 511; m_uid := us_uid (v_user v);
              m_gid := new_gid v (meta_of (f_heap s) parent) |} in
  let h1 := f_heap s ++ [NSym link m] in
  {| f_heap := add_child h1 parent name c; f_last_id := f_last_id s; f_vols := f_vols s |}.

Definition with_heap (s : fsys) (h : heap) : fsys :=
  {| f_heap := h; f_last_id := f_last_id s; f_vols := f_vols s |}.

(* fileNode.truncate *)
Definition truncate_data (d : list N) (size : Z) : list N :=
  if Z.eqb size 0 then []
  else
    let n := Z.to_nat size in
    if Nat.ltb (length d) n then d ++ repeat 0%N (n - length d) else firstn n d.

(* ---- open files (MemFile) ---------------------------------------------- *)
Record handle := {
  hd_node : option nat;        (* None once closed *)
  hd_view : nat;
  hd_name : str;
  hd_at : Z;
  hd_mode : N;                 (* avfs.OpenMode *)
  hd_dir_infos : option (list finfo);   (* f.dirEntries *)
  hd_dir_names : option (list str);     (* f.dirNames *)
  hd_dir_index : nat
}.

Record world := {
  w_fs : fsys;
  w_views : list view;
  w_handles : list handle
}.

Definition new_handle (nd view_ix : nat) (name : str) (at_ : Z) (om : N) : handle :=
  {| hd_node := Some nd; hd_view := view_ix; hd_name := name; hd_at := at_; hd_mode := om;
     hd_dir_infos := None; hd_dir_names := None; hd_dir_index := 0 |}.

(* ---- namespace calls ---------------------------------------------------- *)
Definition node_is_dir (h : heap) (i : nat) : bool :=
  match get h i with Some (NDir _ _) => true | _ => false end.

Definition perm_on (h : heap) (i : nat) (perm : N) (u : user) : bool :=
  match get h i with Some n => check_permission (node_meta n) perm u | None => false end.

Definition win (v : view) : bool := ostype_eqb (v_os v) Windows.

(* dirNode.stickyFor && !node.isOwner (the kernel's check_sticky): in a directory with the sticky bit only an
   administrator, the owner of the directory or the owner of the entry removes or renames an entry *)
Definition sticky_refuses (h : heap) (dirn victim : nat) (u : user) : bool :=
  has (m_mode (meta_of h dirn)) MODE_STICKY
  && negb (us_admin u)
  && negb (Z.eqb (m_uid (meta_of h dirn)) (us_uid u))
  && negb (Z.eqb (m_uid (meta_of h victim)) (us_uid u)).

(* Mkdir, memfs.go:414 *)
Definition mkdir (s : fsys) (v : view) (name : str) (perm : N) : fsys * res :=
  match name with
  | [] => (s, RFail ENoSuchDir)
  | _ =>
      let r := search_node s v name SlLstat in
      if negb (is_not_exist (sr_err r)) || negb (pi_is_last (sr_pi r)) then (s, RFail (sr_err r))
      else match sr_parent r with
           | None => (s, RFail (sr_err r))     (* the path is a volume that does not exist *)
           | Some parent =>
               if negb (perm_on (f_heap s) parent (N.lor OpenWrite OpenLookup) (v_user v)) then (s, RFail EPermDenied)
               else
                 let part := pi_part (sr_pi r) in
                 match alookup str_eqb part (children (f_heap s) parent) with
                 | Some _ => (s, RFail EFileExists)
                 | None => (fst (create_dir s v parent part perm), ROk)
                 end
           end
  end.

(* the creation loop of MkdirAll: for { part; if exists break; dn = createDir; if !pi.Next() break } *)
Fixpoint mkdir_all_loop (fuel : nat) (s : fsys) (v : view) (dn : nat) (pi : piter) (perm : N) : fsys :=
  match fuel with
  | O => s
  | S f =>
      let part := pi_part pi in
      match alookup str_eqb part (children (f_heap s) dn) with
      | Some _ => s
      | None =>
          let '(s1, c) := create_dir s v dn part perm in
          let '(ok, pi1) := pi_next (v_os v) pi in
          if ok then mkdir_all_loop f s1 v c pi1 perm else s1
      end
  end.

(* MkdirAll, memfs.go:450 *)
Definition mkdir_all (s : fsys) (v : view) (path : str) (perm : N) : fsys * res :=
  let r := search_node s v path SlEval in
  let h := f_heap s in
  match sr_child r with
  | Some c =>
      match get h c with
      | Some (NDir _ _) => if is_file_exists (sr_err r) then (s, ROk) else (s, RFail (sr_err r))
      | Some (NFile _ _ _ _) => (s, RErrPath ENotADirectory (pi_left_part (sr_pi r)))
      | _ => (* symlink child (loop budget exceeded): falls through to the creation loop *)
          match sr_parent r with
          | None => (s, RFail (sr_err r))     (* the volume does not exist *)
          | Some parent =>
              if negb (perm_on h parent (N.lor OpenWrite OpenLookup) (v_user v)) then (s, RFail EPermDenied)
              else (mkdir_all_loop (S (length (pi_path (sr_pi r)))) s v parent (sr_pi r) perm, ROk)
          end
      end
  | None =>
      match sr_parent r with
      | None => (s, RFail (sr_err r))     (* the volume does not exist *)
      | Some parent =>
          if negb (perm_on h parent (N.lor OpenWrite OpenLookup) (v_user v)) then (s, RFail EPermDenied)
          else (mkdir_all_loop (S (length (pi_path (sr_pi r)))) s v parent (sr_pi r) perm, ROk)
      end
  end.

(* OpenFile, memfs.go:515.  Returns the new node state and, on success, the handle fields. *)
Definition open_file (s : fsys) (v : view) (view_ix : nat) (name : str) (flag perm : N)
  : fsys * (res + handle) :=
  match name with [] => (s, inl (RFail ENoSuchFile)) | _ =>
  let om := to_open_mode flag in
  let r := search_node s v name (if has om OpenCreateExcl then SlLstat else SlEval) in
  let e := sr_err r in
  if (negb (is_file_exists e) && negb (is_not_exist e)) || negb (pi_is_last (sr_pi r)) then (s, inl (RFail e))
  else if is_file_exists e && has om OpenCreateExcl
          && match sr_child r with
             | Some c => match get (f_heap s) c with Some (NSym _ _) => true | _ => false end
             | None => false
             end
  then (s, inl (RFail e))
  else
    let h := f_heap s in
    let open_existing (c : nat) : fsys * (res + handle) :=
      match get h c with
      | Some (NFile d k i m) =>
          if negb (check_permission m (if has om OpenTruncate then N.lor om OpenWrite else om) (v_user v))
          then (s, inl (RFail EPermDenied))
          else if has om OpenCreateExcl then (s, inl (RFail EFileExists))
          else
            let d1 := if has om OpenTruncate then [] else d in
            let at_ := 0%Z in      (* every new handle starts at offset 0, O_APPEND or not (Write moves to the end) *)
            let m1 := if has om OpenTruncate then drop_privs (v_user v) m else m in
            (with_heap s (upd h c (NFile d1 k i m1)), inr (new_handle c view_ix name at_ om))
      | Some (NDir _ m) =>
          if has om OpenCreateExcl then (s, inl (RFail EFileExists))
          else if has om OpenWrite || has om OpenCreate || has om OpenTruncate then (s, inl (RFail EIsADirectory))
          else if negb (check_permission m om (v_user v)) then (s, inl (RFail EPermDenied))
          else (s, inr (new_handle c view_ix name 0 om))
      | _ => (s, inr (new_handle c view_ix name 0 om))
      end in
    if is_not_exist e then
      if negb (has om OpenCreate) then (s, inl (RFail e))
      else match sr_parent r with
           | None => (s, inl (RFail e))
           | Some parent =>
               if negb (perm_on h parent (N.lor OpenWrite OpenLookup) (v_user v))
               then (s, inl (RFail EPermDenied))
               else
                 let part := pi_part (sr_pi r) in
                 match alookup str_eqb part (children h parent) with
                 | None =>
                     let '(s1, c) := create_file s v parent part perm in
                     (s1, inr (new_handle c view_ix name 0 om))
                 | Some c => open_existing c
                 end
           end
    else match sr_child r with
         | Some c => open_existing c
         | None => (s, inl RPanic)
         end
  end.

(* Remove, memfs.go:654 *)
Definition remove (s : fsys) (v : view) (name : str) : fsys * res :=
  let r := search_node s v name SlLstat in
  match sr_child r, sr_parent r with
  | Some c, Some parent =>
      if negb (is_file_exists (sr_err r)) then (s, RFail (sr_err r))
      else
        let h := f_heap s in
        if Nat.eqb parent c then (s, RFail EInvalidArgument)     (* the root directory *)
        else if negb (perm_on h parent OpenWrite (v_user v)) then (s, RFail EPermDenied)
        else if sticky_refuses h parent c (v_user v) then (s, RFail EOpNotPermitted)
        else
          match get h c with
          | Some (NDir (_ :: _) _) => (s, RFail EDirNotEmpty)
          | _ =>
              let part := pi_part (sr_pi r) in
              match alookup str_eqb part (children h parent) with
              | None => (s, RFail ENoSuchDir)
              | Some _ => (with_heap s (delete_node (remove_child h parent part) c), ROk)
              end
          end
  | _, _ => (s, RFail (sr_err r))
  end.

(* removeAll (recursive), memfs.go:731.  Children are visited in the order of
   the model's association list; the Go map order is unspecified, which only
   matters when a permission failure interrupts the loop. *)
Fixpoint remove_all_rec (fuel : nat) (h : heap) (u : user) (d : nat) : heap * option ekind :=
  match fuel with
  | O => (h, Some EFuel)
  | S f =>
      if negb (perm_on h d OpenWrite u) then (h, Some EPermDenied)
      else
        (fix loop (chs : list (str * nat)) (h : heap) : heap * option ekind :=
           match chs with
           | [] => (h, None)
           | (nm, c) :: chs' =>
               if node_is_dir h c then
                 match remove_all_rec f h u c with
                 | (h1, Some e) => (h1, Some e)
                 | (h1, None) => loop chs' (delete_node (remove_child h1 d nm) c)
                 end
               else loop chs' (delete_node (remove_child h d nm) c)
           end) (children h d) h
  end.

(* RemoveAll, memfs.go:694 *)
Definition remove_all (s : fsys) (v : view) (path : str) : fsys * res :=
  match path with
  | [] => (s, ROk)
  | _ =>
      let r := search_node s v path SlLstat in
      if is_not_exist (sr_err r) then (s, ROk)
      else if negb (is_file_exists (sr_err r)) then (s, RFail (sr_err r))
      else match sr_child r, sr_parent r with
           | Some c, Some parent =>
               let h := f_heap s in
               let nonempty_dir := match get h c with Some (NDir (_ :: _) _) => true | _ => false end in
               if Nat.eqb parent c then (s, RFail EInvalidArgument)     (* the root directory *)
               else
                 let '(h1, e1) := if nonempty_dir then remove_all_rec (S (length h)) h (v_user v) c else (h, None) in
                 match e1 with
                 | Some e => (with_heap s h1, RFail e)
                 | None =>
                     if negb (perm_on h1 parent OpenWrite (v_user v)) then (with_heap s h1, RFail EPermDenied)
                     else (with_heap s (delete_node (remove_child h1 parent (pi_part (sr_pi r))) c), ROk)
                 end
           | _, _ => (s, RPanic)
           end
  end.

(* Rename, memfs.go:757 *)
Definition rename (s : fsys) (v : view) (oldpath newpath : str) : fsys * res :=
  let ro := search_node s v oldpath SlLstat in
  if negb (is_file_exists (sr_err ro)) then (s, RFail (sr_err ro))
  else
    let rn := search_node s v newpath SlLstat in
    if negb (is_file_exists (sr_err rn)) && negb (is_not_exist (sr_err rn)) then (s, RFail (sr_err rn))
    else if is_not_exist (sr_err rn) && negb (pi_is_last (sr_pi rn)) then (s, RFail (sr_err rn))
    else match sr_parent ro, sr_child ro, sr_parent rn with
         | Some op, Some oc, Some np =>
             let h := f_heap s in
             let same := str_eqb (pi_path (sr_pi ro)) (pi_path (sr_pi rn))
                         || match sr_child rn with Some nc => Nat.eqb nc oc | None => false end in
             let ndir := match sr_child rn with Some nc => node_is_dir h nc | None => false end in
             (* decided before any permission check: a directory onto a directory (as os.Rename), a directory into
                itself, a file or a symbolic link onto itself or onto another hard link of itself (as rename(2)) *)
             let early : option res :=
               match get h oc with
               | Some (NDir _ _) =>
                   if ndir && negb (is_not_exist (sr_err rn)) then
                     Some (if match sr_child rn with Some nc => Nat.eqb nc oc | None => false end
                              && negb (str_eqb oldpath newpath)
                           then ROk
                           else RFail (if win v then EW_AccessDenied else sr_err rn))
                   (* the root directory, or a directory moved into itself (as rename(2): before the permissions) *)
                   else if Nat.eqb oc op || Nat.eqb oc np
                           || is_prefix (pi_path (sr_pi ro) ++ [sepc (v_os v)]) (pi_path (sr_pi rn))
                   then Some (RFail EInvalidArgument)
                   else None
               | Some _ => if same then Some ROk else None
               | None => None
               end in
             match early with
             | Some r => (s, r)
             | None =>
             if negb (perm_on h op OpenWrite (v_user v)) then (s, RFail EPermDenied)
             else if sticky_refuses h op oc (v_user v) then (s, RFail EOpNotPermitted)
             else if negb (Nat.eqb np op) && negb (perm_on h np OpenWrite (v_user v)) then (s, RFail EPermDenied)
             else
               let move (h0 : heap) :=
                 (with_heap s (remove_child (add_child h0 np (pi_part (sr_pi rn)) oc) op (pi_part (sr_pi ro))), ROk) in
               match get h oc with
               | Some (NDir _ mo) =>
                   if negb (is_not_exist (sr_err rn))
                   then (s, RFail (if win v then EW_AccessDenied else ENotADirectory))
                   (* a directory moved to another directory: write permission on the directory itself *)
                   else if negb (Nat.eqb np op) && negb (us_admin (v_user v))
                           && negb (check_permission mo OpenWrite (v_user v))
                   then (s, RFail EPermDenied)
                   else move h
               | Some _ =>            (* file or symbolic link *)
                   match sr_child rn with
                   | None => move h
                   | Some nc =>
                       match get h nc with
                       | Some (NFile _ _ _ _) | Some (NSym _ _) =>
                           if sticky_refuses h np nc (v_user v) then (s, RFail EOpNotPermitted)
                           else move (delete_node h nc)
                       | _ => (s, RFail (if win v then EW_AccessDenied else EC_FileExists))
                       end
                   end
               | None => move h
               end
             end
         | Some _, Some _, None =>      (* newpath is a volume that does not exist *)
             (s, if is_not_exist (sr_err rn) then RFail (sr_err rn) else RPanic)
         | _, _, _ => (s, RPanic)
         end.

(* Link, memfs.go:320 *)
Definition link (s : fsys) (v : view) (oldname newname : str) : fsys * res :=
  let ro := search_node s v oldname SlLstat in
  match sr_child ro with
  | None => (s, RFail (sr_err ro))
  | Some oc =>
      if negb (is_file_exists (sr_err ro)) then (s, RFail (sr_err ro))
      else
        let rn := search_node s v newname SlLstat in
        if negb (is_not_exist (sr_err rn)) then (s, RFail (if win v then EW_AlreadyExists else sr_err rn))
        else if negb (pi_is_last (sr_pi rn)) then (s, RFail (sr_err rn))
        else match sr_parent rn with
             | None => (s, RFail (sr_err rn))
             | Some np =>
                 let h := f_heap s in
                 if negb (perm_on h np OpenWrite (v_user v)) then (s, RFail EPermDenied)
                 else match get h oc with
                      | Some (NFile d k i m) =>
                          let h1 := add_child h np (pi_part (sr_pi rn)) oc in
                          (with_heap s (upd h1 oc (NFile d (k + 1) i m)), ROk)
                      | _ => (s, RFail (if win v then EW_AccessDenied else EC_OpNotPermitted))
                      end
             end
  end.

(* Symlink, memfs.go:899 *)
Definition symlink (s : fsys) (v : view) (oldname newname : str) : fsys * res :=
  let r := search_node s v newname SlLstat in
  if negb (is_not_exist (sr_err r)) || negb (pi_is_last (sr_pi r)) then (s, RFail (sr_err r))
  else match sr_parent r with
       | None => (s, RFail (sr_err r))
       | Some parent =>
           if negb (perm_on (f_heap s) parent OpenWrite (v_user v)) then (s, RFail EPermDenied)
           else (create_symlink s v parent (pi_part (sr_pi r)) (clean (v_os v) oldname), ROk)
       end.

(* Readlink, memfs.go:619 *)
Definition readlink (s : fsys) (v : view) (name : str) : res :=
  let r := search_node s v name SlLstat in
  if negb (is_file_exists (sr_err r)) then RFail (sr_err r)
  else match sr_child r with
       | Some c => match get (f_heap s) c with
                   | Some (NSym l _) => RStr l
                   | _ => RFail (if win v then EW_NotReparsePoint else EC_InvalidArgument)
                   end
       | None => RFail (if win v then EW_NotReparsePoint else EC_InvalidArgument)
       end.

(* Truncate, memfs.go:949 *)
Definition truncate (s : fsys) (v : view) (name : str) (size : Z) : fsys * res :=
  if Z.ltb size 0 && negb (win v) then (s, RFail EInvalidArgument) else
  let r := search_node s v name SlEval in
  if negb (is_file_exists (sr_err r)) then (s, RFail (sr_err r))
  else match sr_child r with
       | Some c =>
           match get (f_heap s) c with
           | Some (NFile d k i m) =>
               if Z.ltb size 0 then (s, RFail EInvalidArgument)
               else if negb (check_permission m OpenWrite (v_user v)) then (s, RFail EPermDenied)
               else (with_heap s (upd (f_heap s) c (NFile (truncate_data d size) k i (drop_privs (v_user v) m))), ROk)
           | _ => (s, RFail EIsADirectory)
           end
       | None => (s, RFail EIsADirectory)
       end.

(* Chmod, memfs.go:103 *)
Definition chmod (s : fsys) (v : view) (name : str) (mode : N) : fsys * res :=
  let r := search_node s v name SlEval in
  match sr_child r with
  | None => (s, RFail (sr_err r))
  | Some c =>
      if negb (is_file_exists (sr_err r)) then (s, RFail (sr_err r))
      else match get (f_heap s) c with
           | Some (NSym _ _) | None => (s, RFail EOpNotPermitted)
           | Some n =>
               if set_mode_ok (node_meta n) (v_user v)
               then (with_heap s (upd (f_heap s) c (set_meta n (with_mode (node_meta n) (chmod_mode (node_meta n) (v_user v) mode)))), ROk)
               else (s, RFail EOpNotPermitted)
           end
  end.

(* Chown / Lchown, memfs.go:128, 299 *)
Definition chown_gen (slm : slmode) (s : fsys) (v : view) (name : str) (uid gid : Z) : fsys * res :=
  if win v then (s, RFail EOpNotPermitted)
  else
    let r := search_node s v name slm in
    match sr_child r with
    | None => (s, RFail (sr_err r))
    | Some c =>
        if negb (is_file_exists (sr_err r)) then (s, RFail (sr_err r))
        else match get (f_heap s) c with
             | Some n =>
                 if v_idm v && negb (chown_ok (node_meta n) (v_user v) uid gid) then (s, RFail EOpNotPermitted)
                 else (with_heap s (upd (f_heap s) c (set_meta n (chown_meta n (v_user v) uid gid))), ROk)
             | None => (s, RPanic)
             end
    end.

(* Chtimes, memfs.go:153 (the time itself is not modelled) *)
Definition chtimes (s : fsys) (v : view) (name : str) : res :=
  let r := search_node s v name SlEval in
  match sr_child r with
  | None => RFail (sr_err r)
  | Some c =>
      if negb (is_file_exists (sr_err r)) then RFail (sr_err r)
      else match get (f_heap s) c with
           | Some n => if set_mode_ok (node_meta n) (v_user v) then ROk else RFail EOpNotPermitted
           | None => RPanic
           end
  end.

(* Chdir, memfs.go:55: returns the new current directory on success *)
Definition chdir (s : fsys) (v : view) (dir : str) : res + str :=
  let r := search_node s v dir SlEval in
  if negb (is_file_exists (sr_err r)) then inl (RFail (sr_err r))
  else match sr_child r with
       | Some c =>
           match get (f_heap s) c with
           | Some (NDir _ m) =>
               if check_permission m OpenLookup (v_user v) then inr (pi_path (sr_pi r)) else inl (RFail EPermDenied)
           | _ => inl (RFail (if win v then EW_DirNameInvalid else ENotADirectory))
           end
       | None => inl (RFail (if win v then EW_DirNameInvalid else ENotADirectory))
       end.

(* Getwd: the working directory string; as os.Getwd (stat(".") first) it needs search permission on the directory the
   string names - when it still names one *)
Definition getwd (s : fsys) (v : view) : res :=
  let r := search_node s v (v_cwd v) SlLstat in
  match sr_child r with
  | Some c =>
      if is_file_exists (sr_err r) then
        match get (f_heap s) c with
        | Some (NDir _ m) => if check_permission m OpenLookup (v_user v) then RStr (v_cwd v) else RFail EPermDenied
        | _ => RStr (v_cwd v)
        end
      else RStr (v_cwd v)
  | None => RStr (v_cwd v)
  end.

(* Stat / Lstat, memfs.go:861, 367 *)
Definition stat_gen (slm : slmode) (s : fsys) (v : view) (path : str) : res :=
  let r := search_node s v path slm in
  match sr_child r with
  | None => RFail (sr_err r)
  | Some c =>
      if negb (is_file_exists (sr_err r)) then RFail (sr_err r)
      else match get (f_heap s) c with
           | Some n => RInfo (fill_stat n (base (v_os v) path))
           | None => RPanic
           end
  end.

(* EvalSymlinks, memfs.go:234 *)
Definition eval_symlinks (s : fsys) (v : view) (path : str) : res :=
  let r := search_node s v path SlEval in
  if negb (is_file_exists (sr_err r)) then RErrPath (sr_err r) (pi_left_part (sr_pi r))
  else RStr (pi_path (sr_pi r)).

(* Sub, memfs.go:878: the new view, or an error *)
Definition sub (s : fsys) (v : view) (dir : str) : res + view :=
  let r := search_node s v dir SlEval in
  match sr_child r with
  | None => inl (RFail (sr_err r))
  | Some c =>
      if negb (is_file_exists (sr_err r)) then inl (RFail (sr_err r))
      else if node_is_dir (f_heap s) c
           then inr {| v_root := c; v_cwd := v_cwd v; v_user := v_user v; v_umask := v_umask v;
                       v_os := v_os v; v_idm := v_idm v |}
           else inl (RFail ENotADirectory)
  end.
