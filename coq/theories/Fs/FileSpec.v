(* SPECIFICATION of open-file I/O: POSIX open file descriptions as Linux (tmpfs)
   implements them, seen through Go 1.23's os.File layer.

   Written from open(2), read(2), pread(2), write(2), pwrite(2), lseek(2),
   ftruncate(2), truncate(2), unlink(2), rename(2), link(2) and from
   $GOROOT/src/os/{file.go,file_posix.go,file_unix.go,dir.go,dir_unix.go} and
   internal/poll/fd_unix.go - NOT from the avfs sources: this file imports
   Base only.  Its agreement with the real os.File on tmpfs is tested on every
   run of the C02 check (correspondence B).

   The world is one flat directory: names bound to inodes, inodes holding bytes
   and attributes, and open file descriptions (bytes are reached through the
   inode, never through the name).  An inode is never freed: an unlinked file
   keeps its data for the descriptions still open on it. *)
From Avfs Require Import Base.
Set Implicit Arguments.

(* ---- flags of open(2) on Linux -------------------------------------------- *)
Definition FO_WRONLY : N := 1.
Definition FO_RDWR : N := 2.
Definition FO_CREATE : N := 64.
Definition FO_EXCL : N := 128.
Definition FO_TRUNC : N := 512.
Definition FO_APPEND : N := 1024.

Definition fbit (x bit : N) : bool := negb (N.eqb (N.land x bit) 0).

Inductive access := RDONLY | WRONLY | RDWR.

(* the access mode is flag & O_ACCMODE; the value 3 is not a valid mode *)
Definition access_of (flag : N) : option access :=
  match N.land flag 3 with
  | 0%N => Some RDONLY
  | 1%N => Some WRONLY
  | 2%N => Some RDWR
  | _ => None
  end.

Definition can_read (a : access) : bool := match a with WRONLY => false | _ => true end.
Definition can_write (a : access) : bool := match a with RDONLY => false | _ => true end.

(* error kinds: errno values and the Go-level errors of package os *)
Inductive serr :=
| X_EOF            (* io.EOF *)
| X_Closed         (* os.ErrClosed / poll.ErrFileClosing *)
| X_BADF | X_INVAL | X_ISDIR | X_NOTDIR | X_EXIST | X_NOENT
| X_NegOff         (* "negative offset" of ReadAt / WriteAt *)
| X_AppendWriteAt  (* os.errWriteAtInAppendMode *)
| X_Other.         (* any other error: never produced by this specification *)

Record inode := { i_bytes : list N; i_nlink : Z; i_perm : N; i_uid : Z; i_gid : Z }.

Record ofd := {
  o_ino : nat;          (* the inode, fixed at open time *)
  o_off : Z;            (* the file offset of the description *)
  o_acc : access;
  o_app : bool;         (* O_APPEND *)
  o_closed : bool
}.

Record fstate := {
  st_inodes : list inode;
  st_names : list (str * nat);
  st_fds : list ofd
}.

Inductive fop :=
| Open (name : str) (flag perm : N)
| Read (fd : nat) (n : Z)                       (* n = len(b) *)
| ReadAt (fd : nat) (n off : Z)
| Write (fd : nat) (b : list N)
| WriteString (fd : nat) (b : list N)
| WriteAt (fd : nat) (b : list N) (off : Z)
| Seek (fd : nat) (off whence : Z)
| Ftruncate (fd : nat) (size : Z)
| Fstat (fd : nat)
| Fsync (fd : nat)
| Fchmod (fd : nat) (perm : N)                  (* permission bits only, 0..0o777 *)
| Fchown (fd : nat) (uid gid : Z)               (* -1 leaves the id unchanged *)
| Fchdir (fd : nat)
| Close (fd : nat)
| PTruncate (name : str) (size : Z)
| PRename (old new : str)
| PLink (old new : str)
| PRemove (name : str)
| PReadFile (name : str)
| PStat (name : str).

Record sinfo := { si_size : Z; si_nlink : Z; si_perm : N; si_uid : Z; si_gid : Z }.

Inductive sres :=
| S_Ok
| S_Err (e : serr)
| S_Data (n : Z) (b : list N) (e : option serr)
| S_Int (z : Z)
| S_Info (i : sinfo)
| S_Fd (k : nat)
| S_BadIndex.        (* a descriptor number that was never returned: harness error *)

(* ---- bytes ------------------------------------------------------------------ *)
Definition zeros (n : nat) : list N := repeat 0%N n.

(* pwrite(2) of b at position pos: the gap between the old end and pos reads as zeros *)
Definition put_bytes (d : list N) (pos : nat) (b : list N) : list N :=
  firstn pos d ++ zeros (pos - length d) ++ b ++ skipn (pos + length b) d.

(* ftruncate(2): shorten, or extend with zeros *)
Definition resize (d : list N) (n : nat) : list N := firstn n d ++ zeros (n - length d).

(* pread(2): the bytes in [pos, pos+n) that exist *)
Definition get_bytes (d : list N) (pos n : nat) : list N := firstn n (skipn pos d).

Definition zlen {A} (l : list A) : Z := Z.of_nat (length l).

(* ---- state access ----------------------------------------------------------- *)
Fixpoint set_nth {A} (l : list A) (i : nat) (x : A) : list A :=
  match l, i with
  | [], _ => []
  | _ :: l', O => x :: l'
  | y :: l', S i' => y :: set_nth l' i' x
  end.

Definition lookup_name (st : fstate) (name : str) : option nat := alookup str_eqb name (st_names st).

Definition with_inode (st : fstate) (i : nat) (ino : inode) : fstate :=
  {| st_inodes := set_nth (st_inodes st) i ino; st_names := st_names st; st_fds := st_fds st |}.
Definition with_fd (st : fstate) (k : nat) (o : ofd) : fstate :=
  {| st_inodes := st_inodes st; st_names := st_names st; st_fds := set_nth (st_fds st) k o |}.
Definition with_names (st : fstate) (ns : list (str * nat)) : fstate :=
  {| st_inodes := st_inodes st; st_names := ns; st_fds := st_fds st |}.

Definition set_bytes (ino : inode) (d : list N) : inode :=
  {| i_bytes := d; i_nlink := i_nlink ino; i_perm := i_perm ino; i_uid := i_uid ino; i_gid := i_gid ino |}.
Definition add_nlink (ino : inode) (k : Z) : inode :=
  {| i_bytes := i_bytes ino; i_nlink := i_nlink ino + k; i_perm := i_perm ino; i_uid := i_uid ino; i_gid := i_gid ino |}.
Definition set_off (o : ofd) (off : Z) : ofd :=
  {| o_ino := o_ino o; o_off := off; o_acc := o_acc o; o_app := o_app o; o_closed := o_closed o |}.

Definition info_of (ino : inode) : sinfo :=
  {| si_size := zlen (i_bytes ino); si_nlink := i_nlink ino; si_perm := i_perm ino;
     si_uid := i_uid ino; si_gid := i_gid ino |}.

(* run k on an open description and its inode; a closed description answers os.ErrClosed *)
Definition on_fd (st : fstate) (fd : nat) (k : ofd -> inode -> fstate * sres) : fstate * sres :=
  match nth_error (st_fds st) fd with
  | None => (st, S_BadIndex)
  | Some o =>
      if o_closed o then (st, S_Err X_Closed)
      else match nth_error (st_inodes st) (o_ino o) with
           | Some ino => k o ino
           | None => (st, S_BadIndex)
           end
  end.

Definition fd_closed (st : fstate) (fd : nat) : bool :=
  match nth_error (st_fds st) fd with Some o => o_closed o | None => false end.

Definition UMASK : N := 18.     (* 0o022, the process umask of the oracle and of avfs *)

(* the change of link count of inode i *)
Definition bump (st : fstate) (i : nat) (k : Z) : fstate :=
  match nth_error (st_inodes st) i with
  | Some ino => with_inode st i (add_nlink ino k)
  | None => st
  end.

(* ---- one call ---------------------------------------------------------------- *)
Definition fspec_step (st : fstate) (op : fop) : fstate * sres :=
  match op with
  | Open name flag perm =>
      match access_of flag with
      | None => (st, S_Err X_INVAL)
      | Some acc =>
          let mk i := {| o_ino := i; o_off := 0; o_acc := acc; o_app := fbit flag FO_APPEND; o_closed := false |} in
          let k := length (st_fds st) in
          match lookup_name st name with
          | None =>
              if fbit flag FO_CREATE then
                let i := length (st_inodes st) in
                let ino := {| i_bytes := []; i_nlink := 1; i_perm := N.ldiff (N.land perm 511) UMASK;
                              i_uid := 0; i_gid := 0 |} in
                ({| st_inodes := st_inodes st ++ [ino]; st_names := st_names st ++ [(name, i)];
                    st_fds := st_fds st ++ [mk i] |}, S_Fd k)
              else (st, S_Err X_NOENT)
          | Some i =>
              if fbit flag FO_CREATE && fbit flag FO_EXCL then (st, S_Err X_EXIST)
              else
                match nth_error (st_inodes st) i with
                | None => (st, S_BadIndex)
                | Some ino =>
                    (* O_TRUNC truncates whatever the access mode (Linux; the caller is root) *)
                    let st1 := if fbit flag FO_TRUNC then with_inode st i (set_bytes ino []) else st in
                    ({| st_inodes := st_inodes st1; st_names := st_names st1; st_fds := st_fds st1 ++ [mk i] |}, S_Fd k)
                end
          end
      end

  (* os.File.Read: closed -> ErrClosed; an empty buffer returns (0, nil) without a system call;
     read(2): EBADF unless open for reading; 0 bytes at or after the end = io.EOF *)
  | Read fd n =>
      on_fd st fd (fun o ino =>
        if Z.leb n 0 then (st, S_Data 0 [] None)
        else if negb (can_read (o_acc o)) then (st, S_Err X_BADF)
        else
          let got := get_bytes (i_bytes ino) (Z.to_nat (o_off o)) (Z.to_nat n) in
          match got with
          | [] => (st, S_Data 0 [] (Some X_EOF))
          | _ => (with_fd st fd (set_off o (o_off o + zlen got)), S_Data (zlen got) got None)
          end)

  (* os.File.ReadAt: negative offset refused first; then "for len(b) > 0 { pread }":
     an empty buffer returns (0, nil) whatever the state of the file *)
  | ReadAt fd n off =>
      if Z.ltb off 0 then
        match nth_error (st_fds st) fd with None => (st, S_BadIndex) | Some _ => (st, S_Err X_NegOff) end
      else if Z.leb n 0 then
        match nth_error (st_fds st) fd with None => (st, S_BadIndex) | Some _ => (st, S_Data 0 [] None) end
      else
        on_fd st fd (fun o ino =>
          if negb (can_read (o_acc o)) then (st, S_Err X_BADF)
          else
            let got := get_bytes (i_bytes ino) (Z.to_nat off) (Z.to_nat n) in
            (st, S_Data (zlen got) got (if Z.ltb (zlen got) n then Some X_EOF else None)))

  (* write(2): EBADF unless open for writing; nothing happens for 0 bytes; with O_APPEND the
     offset is first set to the end of the file; a gap reads as zeros *)
  | Write fd b | WriteString fd b =>
      on_fd st fd (fun o ino =>
        if negb (can_write (o_acc o)) then (st, S_Err X_BADF)
        else match b with
             | [] => (st, S_Int 0)
             | _ =>
                 let pos := if o_app o then zlen (i_bytes ino) else o_off o in
                 let d' := put_bytes (i_bytes ino) (Z.to_nat pos) b in
                 (with_fd (with_inode st (o_ino o) (set_bytes ino d')) fd (set_off o (pos + zlen b)),
                  S_Int (zlen b))
             end)

  (* os.File.WriteAt: refused on an O_APPEND file, then negative offset, then "for len(b) > 0 { pwrite }" *)
  | WriteAt fd b off =>
      match nth_error (st_fds st) fd with
      | None => (st, S_BadIndex)
      | Some o0 =>
          if o_app o0 then (st, S_Err X_AppendWriteAt)
          else if Z.ltb off 0 then (st, S_Err X_NegOff)
          else match b with
               | [] => (st, S_Int 0)
               | _ =>
                   on_fd st fd (fun o ino =>
                     if negb (can_write (o_acc o)) then (st, S_Err X_BADF)
                     else (with_inode st (o_ino o) (set_bytes ino (put_bytes (i_bytes ino) (Z.to_nat off) b)),
                           S_Int (zlen b)))
               end
      end

  (* lseek(2): whence 0/1/2, EINVAL for another whence or a negative result *)
  | Seek fd off whence =>
      on_fd st fd (fun o ino =>
        let target := if Z.eqb whence 0 then Some off
                      else if Z.eqb whence 1 then Some (o_off o + off)%Z
                      else if Z.eqb whence 2 then Some (zlen (i_bytes ino) + off)%Z
                      else None in
        match target with
        | None => (st, S_Err X_INVAL)
        | Some t => if Z.ltb t 0 then (st, S_Err X_INVAL) else (with_fd st fd (set_off o t), S_Int t)
        end)

  (* ftruncate(2): EINVAL for a negative length or a description not open for writing *)
  | Ftruncate fd size =>
      on_fd st fd (fun o ino =>
        if Z.ltb size 0 || negb (can_write (o_acc o)) then (st, S_Err X_INVAL)
        else (with_inode st (o_ino o) (set_bytes ino (resize (i_bytes ino) (Z.to_nat size))), S_Ok))

  | Fstat fd => on_fd st fd (fun o ino => (st, S_Info (info_of ino)))
  | Fsync fd => on_fd st fd (fun o ino => (st, S_Ok))
  | Fchmod fd perm =>
      on_fd st fd (fun o ino =>
        (with_inode st (o_ino o) {| i_bytes := i_bytes ino; i_nlink := i_nlink ino; i_perm := N.land perm 511;
                                    i_uid := i_uid ino; i_gid := i_gid ino |}, S_Ok))
  | Fchown fd uid gid =>
      on_fd st fd (fun o ino =>
        (with_inode st (o_ino o) {| i_bytes := i_bytes ino; i_nlink := i_nlink ino; i_perm := i_perm ino;
                                    i_uid := if Z.eqb uid (-1) then i_uid ino else uid;
                                    i_gid := if Z.eqb gid (-1) then i_gid ino else gid |}, S_Ok))
  | Fchdir fd => on_fd st fd (fun o ino => (st, S_Err X_NOTDIR))
  | Close fd =>
      on_fd st fd (fun o ino =>
        (with_fd st fd {| o_ino := o_ino o; o_off := o_off o; o_acc := o_acc o; o_app := o_app o; o_closed := true |},
         S_Ok))

  (* truncate(2): a negative length is refused before the name is looked up *)
  | PTruncate name size =>
      if Z.ltb size 0 then (st, S_Err X_INVAL)
      else match lookup_name st name with
           | None => (st, S_Err X_NOENT)
           | Some i =>
               match nth_error (st_inodes st) i with
               | None => (st, S_BadIndex)
               | Some ino => (with_inode st i (set_bytes ino (resize (i_bytes ino) (Z.to_nat size))), S_Ok)
               end
           end

  (* rename(2): two names of the same inode -> nothing happens; an existing target is replaced *)
  | PRename old new =>
      match lookup_name st old with
      | None => (st, S_Err X_NOENT)
      | Some i =>
          match lookup_name st new with
          | Some j =>
              if Nat.eqb i j then (st, S_Ok)
              else
                let ns := aset str_eqb new i (aremove str_eqb old (st_names st)) in
                (bump (with_names st ns) j (-1), S_Ok)
          | None => (with_names st (aremove str_eqb old (st_names st) ++ [(new, i)]), S_Ok)
          end
      end

  | PLink old new =>
      match lookup_name st old with
      | None => (st, S_Err X_NOENT)
      | Some i =>
          match lookup_name st new with
          | Some _ => (st, S_Err X_EXIST)
          | None => (bump (with_names st (st_names st ++ [(new, i)])) i 1, S_Ok)
          end
      end

  | PRemove name =>
      match lookup_name st name with
      | None => (st, S_Err X_NOENT)
      | Some i => (bump (with_names st (aremove str_eqb name (st_names st))) i (-1), S_Ok)
      end

  | PReadFile name =>
      match lookup_name st name with
      | None => (st, S_Err X_NOENT)
      | Some i =>
          match nth_error (st_inodes st) i with
          | None => (st, S_BadIndex)
          | Some ino => (st, S_Data (zlen (i_bytes ino)) (i_bytes ino) None)
          end
      end

  | PStat name =>
      match lookup_name st name with
      | None => (st, S_Err X_NOENT)
      | Some i =>
          match nth_error (st_inodes st) i with
          | None => (st, S_BadIndex)
          | Some ino => (st, S_Info (info_of ino))
          end
      end
  end.

Fixpoint fspec_run (st : fstate) (ops : list fop) : fstate * list sres :=
  match ops with
  | [] => (st, [])
  | op :: ops' =>
      let '(st1, r) := fspec_step st op in
      let '(st2, rs) := fspec_run st1 ops' in
      (st2, r :: rs)
  end.

Definition empty_state : fstate := {| st_inodes := []; st_names := []; st_fds := [] |}.

(* what every description, every name and ReadFile see: the bytes of the inode *)
Definition view_fd (st : fstate) (fd : nat) : option sinfo :=
  match nth_error (st_fds st) fd with
  | Some o => if o_closed o then None
              else match nth_error (st_inodes st) (o_ino o) with Some ino => Some (info_of ino) | None => None end
  | None => None
  end.

(* ---- directory descriptions: ReadDir(n) / Readdirnames(n) --------------------- *)
(* A directory description has ONE cursor shared by ReadDir, Readdirnames and
   Readdir.  [listing] is the directory's content in the order the file system
   delivers it (unspecified; sorted for the implementation under test).  The
   directory is not changed while a description is being read. *)
Record dfd := { d_cursor : nat; d_closed : bool }.

Inductive dop :=
| DReadDir (n : Z)
| DReaddirnames (n : Z)
| DRewind               (* Seek(0, io.SeekStart) *)
| DRead (n : Z)
| DClose.

Inductive dres :=
| D_Batch (names : list str) (e : option serr)    (* ReadDir and Readdirnames deliver the same names *)
| D_Data (n : Z) (e : option serr)
| D_Int (z : Z)
| D_Ok
| D_Err (e : serr).

Definition dir_step (listing : list str) (d : dfd) (op : dop) : dfd * dres :=
  if d_closed d then (d, D_Err X_Closed)
  else
    match op with
    | DReadDir n | DReaddirnames n =>
        let rest := skipn (d_cursor d) listing in
        if Z.leb n 0 then
          (* all the remaining entries, nil error even when there is none *)
          ({| d_cursor := length listing; d_closed := false |}, D_Batch rest None)
        else
          match rest with
          | [] => (d, D_Batch [] (Some X_EOF))
          | _ =>
              let b := firstn (Z.to_nat n) rest in
              ({| d_cursor := d_cursor d + length b; d_closed := false |}, D_Batch b None)
          end
    | DRewind => ({| d_cursor := 0; d_closed := false |}, D_Int 0)
    | DRead n => if Z.leb n 0 then (d, D_Data 0 None) else (d, D_Err X_ISDIR)
    | DClose => ({| d_cursor := d_cursor d; d_closed := true |}, D_Ok)
    end.

Fixpoint dir_run (listing : list str) (d : dfd) (ops : list dop) : dfd * list dres :=
  match ops with
  | [] => (d, [])
  | op :: ops' =>
      let '(d1, r) := dir_step listing d op in
      let '(d2, rs) := dir_run listing d1 ops' in
      (d2, r :: rs)
  end.

(* ---- a directory that changes while descriptions are open on it --------------------------------- *)
(* A description reads the listing the directory has at its FIRST read after it was opened or rewound
   (Seek(0, io.SeekStart) drops it): entries created or removed before that read are seen, and a rewind makes
   the next read list the directory again.  What an already started listing shows of later changes is NOT
   specified by POSIX (readdir(3): "whether readdir returns an entry for that file is unspecified"); the
   snapshot below is what MemFile/OrefaFile do, and the oracle comparison with os.File is made only where the
   two cannot differ (no change between the first read and the next rewind). *)
Record ldfd := { l_d : dfd; l_snap : option (list str) }.

Definition ldfd0 : ldfd := {| l_d := {| d_cursor := 0; d_closed := false |}; l_snap := None |}.

(* cur: the content of the directory now, in the order the file system delivers it *)
Definition dir_step_live (cur : list str) (x : ldfd) (op : dop) : ldfd * dres :=
  if d_closed (l_d x) then (x, D_Err X_Closed)
  else
    match op with
    | DReadDir _ | DReaddirnames _ =>
        let snap := match l_snap x with Some l => l | None => cur end in
        let '(d', r) := dir_step snap (l_d x) op in
        ({| l_d := d'; l_snap := Some snap |}, r)
    | DRewind => (ldfd0, D_Int 0)
    | DRead _ | DClose =>
        let '(d', r) := dir_step [] (l_d x) op in
        ({| l_d := d'; l_snap := l_snap x |}, r)
    end.
