(* RemoveAll of a non-empty directory preserves the invariant: the recursive removeAll follows the
   children maps and deletes the keys built from the path strings; on a well-formed state the two
   agree, so exactly the keys at and below the target disappear and every node loses as many links
   as keys.  [R] relates an intermediate state of the recursion to the state the call started from. *)
From Avfs Require Import Base PathModel PathSpec PathProofs PathCleanProofs PathIterProofs MemFS MemFile World
  OrefaFS OrefaWorld OrefaLemmas OrefaInv.

Fixpoint iter_rm (k : nat) (n : onode) : onode :=
  match k with O => n | S k' => on_remove (iter_rm k' n) end.

Lemma iter_rm_dir k n : on_dir (iter_rm k n) = on_dir n.
Proof. induction k as [|k IH]; [reflexivity|]. cbn [iter_rm]. rewrite <- IH. reflexivity. Qed.

Lemma iter_rm_nlink k n : on_nlink (iter_rm k n) = (on_nlink n - Z.of_nat k)%Z.
Proof. induction k as [|k IH]; cbn [iter_rm]; [lia|]. cbn [on_remove on_nlink]. rewrite IH. lia. Qed.

Lemma iter_rm_ch k n : on_ch (iter_rm k n) = match k with O => on_ch n | S _ => [] end.
Proof. destruct k; reflexivity. Qed.

(* a sub-map has fewer keys per value *)
Lemma kcount_sub (ia idx : list (str * nat)) i :
  NoDup (map fst ia) -> NoDup (map fst idx) ->
  (forall k v, ikey ia k = Some v -> ikey idx k = Some v) -> kcount i ia <= kcount i idx.
Proof.
  revert idx. induction ia as [|[k v] ia IH]; intros idx Hna Hni Hsub; [unfold kcount, kcount_p; cbn; lia|].
  inversion Hna as [|? ? Hk Hna']; subst.
  assert (Hkv : ikey idx k = Some v) by (apply Hsub; unfold ikey; cbn [alookup]; rewrite str_eqb_refl; reflexivity).
  pose proof (kcount_aremove nat (fun x => Nat.eqb x i) k v idx Hni Hkv) as E. cbv beta in E.
  assert (IH' : kcount i ia <= kcount i (aremove str_eqb k idx)).
  { apply IH; [exact Hna'|apply nodup_aremove; exact Hni|].
    intros k' v' Hk'. assert (k' <> k).
    { intros ->. apply Hk. apply in_map_iff. exists (k, v'). split; [reflexivity|]. apply al_in. exact Hk'. }
    unfold ikey. rewrite al_aremove_neq by assumption. apply Hsub. unfold ikey. cbn [alookup].
    destruct (str_eqb_spec k' k); [congruence|exact Hk']. }
  assert (Hc : kcount i ((k, v) :: ia) = (if Nat.eqb v i then 1 else 0) + kcount i ia).
  { unfold kcount, kcount_p. cbn [filter snd]. destruct (Nat.eqb v i); reflexivity. }
  rewrite Hc. unfold kcount in *. destruct (Nat.eqb v i); lia.
Qed.

Lemma release_length_r h c : length (o_release h c) = length h.
Proof. unfold o_release. destruct (oget h c); [apply oupd_length|reflexivity]. Qed.

Section RmAll.
  Variables (idx : list (str * nat)) (h : oheap).
  Hypothesis Hinv : hinv idx h.

  Record R (ia : list (str * nat)) (ha : oheap) : Prop := {
    r_nodup : NoDup (map fst ia);
    r_sub : forall k v, ikey ia k = Some v -> ikey idx k = Some v;
    r_len : length ha = length h;
    r_node : forall i n, oget h i = Some n -> oget ha i = Some (iter_rm (kcount i idx - kcount i ia) n)
  }.

  (* the subtree at cs has not been touched yet *)
  Definition U (cs : list str) (ia : list (str * nat)) : Prop :=
    forall rest, gcs rest -> Fi ia (cs ++ rest) = Fi idx (cs ++ rest).

  Lemma R_init : R idx h.
  Proof.
    constructor; auto; [apply (hi_nodup _ _ Hinv)|]. intros i n Hn. rewrite Nat.sub_diag. exact Hn.
  Qed.

  (* removing the key of cs (bound to i) and releasing node i *)
  Lemma R_drop ia ha cs i : R ia ha -> gcs cs -> Fi ia cs = Some i ->
    R (aremove str_eqb (rpath cs) ia) (o_release ha i).
  Proof.
    intros HR Hcs HF.
    assert (Hle : forall j, kcount j ia <= kcount j idx)
      by (intros j; apply kcount_sub; [apply (r_nodup _ _ HR)|apply (hi_nodup _ _ Hinv)|apply (r_sub _ _ HR)]).
    assert (Hcnt : forall j, kcount j (aremove str_eqb (rpath cs) ia) + (if Nat.eqb i j then 1 else 0) = kcount j ia).
    { intros j. pose proof (kcount_aremove nat (fun x => Nat.eqb x j) _ _ _ (r_nodup _ _ HR) HF) as E. exact E. }
    destruct (hi_valid _ _ Hinv _ _ (r_sub _ _ HR _ _ HF)) as (n & Hn).
    pose proof (r_node _ _ HR i n Hn) as Hai.
    constructor.
    - apply nodup_aremove. apply (r_nodup _ _ HR).
    - intros k v Hk. unfold ikey in Hk. destruct (str_eqb_spec k (rpath cs)) as [->|Hne].
      + rewrite al_aremove_eq in Hk. discriminate.
      + rewrite al_aremove_neq in Hk by exact Hne. apply (r_sub _ _ HR). exact Hk.
    - rewrite release_length_r. apply (r_len _ _ HR).
    - intros j m Hm. unfold o_release. rewrite Hai. rewrite (oget_oupd _ _ _ _ _ Hai).
      pose proof (Hcnt j) as Hc. pose proof (Hle j) as Hl.
      destruct (Nat.eqb_spec i j) as [<-|Hij].
      + rewrite Hn in Hm. inversion Hm; subst m.
        replace (kcount i idx - kcount i (aremove str_eqb (rpath cs) ia)) with (S (kcount i idx - kcount i ia)) by lia.
        reflexivity.
      + rewrite Nat.add_0_r in Hc. rewrite Hc. apply (r_node _ _ HR). exact Hm.
  Qed.

  Lemma kcount_ge1 ia k i : NoDup (map fst ia) -> ikey ia k = Some i -> 1 <= kcount i ia.
  Proof.
    intros Hnd Hk. pose proof (kcount_aremove nat (fun x => Nat.eqb x i) _ _ _ Hnd Hk) as E. cbv beta in E.
    rewrite Nat.eqb_refl in E. unfold kcount. lia.
  Qed.

  Lemma pigeon (l : list nat) n : NoDup l -> (forall x, In x l -> x < n) -> length l <= n.
  Proof.
    intros Hnd Hlt. rewrite <- (seq_length n 0). apply NoDup_incl_length; [exact Hnd|].
    intros x Hx. apply in_seq. specialize (Hlt x Hx). lia.
  Qed.

  Definition anc_ok (cs : list str) (anc : list nat) : Prop :=
    forall a, In a anc -> exists p r, r <> [] /\ cs = p ++ r /\ gcs p /\ Fi idx p = Some a /\ is_dir_at h a.

  (* the file case and the last step of the directory case: the key of cs goes, nothing is left below it *)
  Lemma drop_spec ia ha cs i :
    R ia ha -> gcs cs -> cs <> [] -> Fi ia cs = Some i ->
    (forall c r, gcs (c :: r) -> Fi ia (cs ++ c :: r) = None) ->
    R (aremove str_eqb (rpath cs) ia) (o_release ha i)
    /\ (forall cs', gcs cs' -> Fi (aremove str_eqb (rpath cs) ia) cs' = match strip cs cs' with Some _ => None | None => Fi ia cs' end)
    /\ ikey (aremove str_eqb (rpath cs) ia) [SLASH] = ikey ia [SLASH].
  Proof.
    intros HR Hcs Hne HF Hbelow. split; [apply R_drop; assumption|]. split.
    - intros cs' Hcs'. destruct (strip cs cs') as [r|] eqn:E.
      + apply strip_some in E. subst cs'. destruct r as [|c r].
        * rewrite app_nil_r. apply Fi_aremove_eq.
        * assert (Hcr : gcs (c :: r)) by (apply Forall_app in Hcs'; apply Hcs').
          rewrite Fi_aremove_neq; [apply Hbelow; exact Hcr|exact Hcs'|exact Hcs|].
          intros E. apply (f_equal (@length str)) in E. rewrite app_length in E. cbn in E. lia.
      + apply Fi_aremove_neq; [exact Hcs'|exact Hcs|]. intros ->. rewrite <- (app_nil_r cs) in E at 2.
        rewrite strip_app in E. discriminate.
    - unfold ikey. apply al_aremove_neq. intros E. symmetry in E. revert E. apply rpath_not_slash. apply gcs_ok. exact Hcs.
  Qed.

  Lemma rm_all_spec : forall fuel ia ha cs i anc,
    R ia ha -> gcs cs -> cs <> [] -> Fi idx cs = Some i -> U cs ia ->
    NoDup (i :: anc) -> anc_ok cs anc -> length h <= fuel + length anc ->
    R (fst (o_rm_all fuel Linux (ia, ha) (rpath cs) i)) (snd (o_rm_all fuel Linux (ia, ha) (rpath cs) i))
    /\ (forall cs', gcs cs' -> Fi (fst (o_rm_all fuel Linux (ia, ha) (rpath cs) i)) cs'
                              = match strip cs cs' with Some _ => None | None => Fi ia cs' end)
    /\ ikey (fst (o_rm_all fuel Linux (ia, ha) (rpath cs) i)) [SLASH] = ikey ia [SLASH].
  Proof.
    induction fuel as [|f IH]; intros ia ha cs i anc HR Hcs Hne HFi HU Hnd Hanc Hfuel.
    - (* out of fuel: impossible, the nodes on the way down are pairwise different *)
      exfalso.
      assert (Hlt : forall x, In x (i :: anc) -> x < length h).
      { intros x [<-|Hx].
        - destruct (hi_valid _ _ Hinv _ _ HFi) as (n & Hn). eapply oget_some_lt. exact Hn.
        - destruct (Hanc x Hx) as (p & r & _ & _ & _ & _ & (n & Hn & _)). eapply oget_some_lt. exact Hn. }
      pose proof (pigeon (i :: anc) (length h) Hnd Hlt) as Hp. cbn [length] in Hp. lia.
    - destruct (hi_valid _ _ Hinv _ _ HFi) as (n & Hn).
      assert (HFia : Fi ia cs = Some i) by (specialize (HU [] (Forall_nil _)); rewrite app_nil_r in HU; congruence).
      assert (Hi0 : i <> 0) by (intros ->; apply Hne; apply (hi_rootkey _ _ Hinv _ Hcs HFi)).
      pose proof (r_node _ _ HR i n Hn) as Hai.
      cbn [o_rm_all snd fst]. rewrite Hai. rewrite iter_rm_dir.
      destruct (on_dir n) eqn:Ed.
      + (* a directory: its node is still as it was, the children are removed one after the other *)
        assert (Hd0 : kcount i idx - kcount i ia = 0).
        { pose proof (kcount_ge1 ia _ _ (r_nodup _ _ HR) HFia) as H1.
          pose proof (hi_nlink _ _ Hinv _ _ Hn Hi0) as H2. pose proof (hi_dirnlink _ _ Hinv _ _ Hn Ed) as H3. lia. }
        rewrite Hd0. cbn [iter_rm].
        assert (Hidir : is_dir_at h i) by (exists n; auto).
        set (step := fun (acc : list (str * nat) * oheap) (e : str * nat) =>
                       o_rm_all f Linux acc (rpath cs ++ [sepc Linux] ++ fst e) (snd e)).
        assert (Hfold : forall l ia1 ha1,
          R ia1 ha1 ->
          (forall c j, In (c, j) l -> good_comp c /\ Fi idx (cs ++ [c]) = Some j /\ U (cs ++ [c]) ia1) ->
          NoDup (map fst l) ->
          Fi ia1 cs = Some i ->
          (forall cs', gcs cs' -> strip cs cs' = None -> Fi ia1 cs' = Fi ia cs') ->
          ikey ia1 [SLASH] = ikey ia [SLASH] ->
          (forall c r, gcs (c :: r) -> Fi ia1 (cs ++ c :: r) <> None -> exists j, In (c, j) l) ->
          R (fst (fold_left step l (ia1, ha1))) (snd (fold_left step l (ia1, ha1)))
          /\ Fi (fst (fold_left step l (ia1, ha1))) cs = Some i
          /\ (forall cs', gcs cs' -> strip cs cs' = None -> Fi (fst (fold_left step l (ia1, ha1))) cs' = Fi ia cs')
          /\ ikey (fst (fold_left step l (ia1, ha1))) [SLASH] = ikey ia [SLASH]
          /\ (forall c r, gcs (c :: r) -> Fi (fst (fold_left step l (ia1, ha1))) (cs ++ c :: r) = None)).
        { induction l as [|[c1 j1] l IHl]; intros ia1 ha1 HR1 Hl Hndl HF1 Hout1 Hsl1 Hsurv; cbn [fold_left].
          - cbn [fst snd]. split; [exact HR1|]. split; [exact HF1|]. split; [exact Hout1|]. split; [exact Hsl1|].
            intros c r Hcr. destruct (Fi ia1 (cs ++ c :: r)) eqn:E; [|reflexivity].
            destruct (Hsurv c r Hcr) as (j & []). congruence.
          - destruct (Hl c1 j1 (or_introl eq_refl)) as (Hc1 & HFj1 & HU1).
            inversion Hndl as [|? ? Hc1l Hndl']; subst.
            assert (Hg1 : gcs (cs ++ [c1])) by (apply gcs_snoc; assumption).
            assert (Hne1 : cs ++ [c1] <> []) by (intros E; apply app_eq_nil in E; destruct E; discriminate).
            assert (Hj1 : ~ In j1 (i :: anc)).
            { intros [Hj|Hj].
              - subst j1. pose proof (dir_key_unique idx h Hinv _ _ i Hg1 Hcs HFj1 HFi Hidir) as E.
                apply (snoc_neq_self _ cs c1). symmetry. exact E.
              - destruct (Hanc j1 Hj) as (p & r & Hr & Ecs & Hp & HFp & Hpd).
                pose proof (dir_key_unique idx h Hinv _ _ j1 Hg1 Hp HFj1 HFp Hpd) as E.
                rewrite Ecs in E. apply (f_equal (@length str)) in E. rewrite !app_length in E. cbn [length] in E.
                destruct r; [congruence|]. cbn [length] in E. lia. }
            assert (Hanc1 : anc_ok (cs ++ [c1]) (i :: anc)).
            { intros a [<-|Ha].
              - exists cs, [c1]. repeat split; auto. discriminate.
              - destruct (Hanc a Ha) as (p & r & Hr & Ecs & Hp & HFp & Hpd).
                exists p, (r ++ [c1]). repeat split; auto.
                + intros E. apply app_eq_nil in E. destruct E; discriminate.
                + rewrite Ecs, app_assoc. reflexivity. }
            assert (Hfu1 : length h <= f + length (i :: anc)) by (cbn [length]; lia).
            assert (Hnd1 : NoDup (j1 :: i :: anc)) by (constructor; assumption).
            destruct (IH ia1 ha1 (cs ++ [c1]) j1 (i :: anc) HR1 Hg1 Hne1 HFj1 HU1 Hnd1 Hanc1 Hfu1) as (HR2 & HF2 & Hsl2).
            assert (Estep : step (ia1, ha1) (c1, j1) = o_rm_all f Linux (ia1, ha1) (rpath (cs ++ [c1])) j1).
            { unfold step. cbn [fst snd sepc app]. rewrite rpath_snoc. reflexivity. }
            rewrite Estep.
            destruct (o_rm_all f Linux (ia1, ha1) (rpath (cs ++ [c1])) j1) as [ia2 ha2] eqn:E2. cbn [fst snd] in HR2, HF2, Hsl2.
            apply IHl.
            + exact HR2.
            + intros c j Hin. destruct (Hl c j (or_intror Hin)) as (Hc & HFj & HUc). split; [exact Hc|]. split; [exact HFj|].
              intros rest Hrest. rewrite HF2 by (apply gcs_app; [apply gcs_snoc; assumption|exact Hrest]).
              assert (Hs : strip (cs ++ [c1]) ((cs ++ [c]) ++ rest) = None).
              { apply strip_none. intros r E. rewrite <- !app_assoc in E. apply app_inv_head in E. cbn [app] in E.
                inversion E; subst. apply Hc1l. apply in_map_iff. exists (c1, j). auto. }
              rewrite Hs. apply HUc. exact Hrest.
            + exact Hndl'.
            + rewrite HF2 by exact Hcs.
              assert (Hs : strip (cs ++ [c1]) cs = None).
              { apply strip_none. intros r E. apply (f_equal (@length str)) in E. rewrite !app_length in E. cbn in E. lia. }
              rewrite Hs. exact HF1.
            + intros cs' Hcs' Hs'. rewrite HF2 by exact Hcs'.
              assert (Hs : strip (cs ++ [c1]) cs' = None).
              { apply strip_none. intros r E. apply (proj1 (strip_none cs cs') Hs' ([c1] ++ r)). rewrite E, <- app_assoc. reflexivity. }
              rewrite Hs. apply Hout1; assumption.
            + rewrite Hsl2. exact Hsl1.
            + intros c r Hcr Hsome. rewrite HF2 in Hsome by (apply gcs_app; assumption).
              destruct (strip (cs ++ [c1]) (cs ++ c :: r)) eqn:Es; [congruence|].
              destruct (Hsurv c r Hcr Hsome) as (j & [Hj|Hj]); [|eauto].
              inversion Hj; subst. exfalso. apply (proj1 (strip_none _ _) Es r). rewrite <- app_assoc. reflexivity. }
        (* the children of the directory, as the children map lists them *)
        assert (Hch : forall c j, In (c, j) (on_ch n) -> good_comp c /\ Fi idx (cs ++ [c]) = Some j /\ U (cs ++ [c]) ia).
        { intros c j Hin. pose proof (hi_chgood _ _ Hinv _ _ _ _ Hn Hin) as Hc. split; [exact Hc|]. split.
          - apply (hi_edge _ _ Hinv cs c j Hcs Hc). exists i. split; [exact HFi|]. unfold Ch. rewrite Hn.
            apply in_al; [apply (hi_chnodup _ _ Hinv _ _ Hn)|exact Hin].
          - intros rest Hrest. rewrite <- app_assoc. apply HU. constructor; assumption. }
        assert (Hsurv0 : forall c r, gcs (c :: r) -> Fi ia (cs ++ c :: r) <> None -> exists j, In (c, j) (on_ch n)).
        { intros c r Hcr Hsome. rewrite (HU (c :: r) Hcr) in Hsome. inversion Hcr as [|? ? Hc Hr]; subst.
          assert (H1 : Fi idx ((cs ++ [c]) ++ r) <> None) by (rewrite <- app_assoc; exact Hsome).
          apply (Fi_prefix_closed idx h Hinv r (cs ++ [c]) (gcs_snoc _ _ Hcs Hc) Hr) in H1.
          destruct (Fi idx (cs ++ [c])) as [j|] eqn:E; [|congruence].
          apply (hi_edge _ _ Hinv cs c j Hcs Hc) in E. destruct E as (p & Hp & Hq). rewrite HFi in Hp. inversion Hp; subst p.
          unfold Ch in Hq. rewrite Hn in Hq. exists j. apply al_in. exact Hq. }
        destruct (Hfold (on_ch n) ia ha HR Hch (hi_chnodup _ _ Hinv _ _ Hn) HFia (fun _ _ _ => eq_refl) eq_refl Hsurv0)
          as (HR3 & HF3 & Hout3 & Hsl3 & Hgone3).
        destruct (fold_left step (on_ch n) (ia, ha)) as [ia3 ha3]. cbn [fst snd] in *.
        destruct (drop_spec ia3 ha3 cs i HR3 Hcs Hne HF3 Hgone3) as (HR4 & HF4 & Hsl4).
        split; [exact HR4|]. split; [|congruence].
        intros cs' Hcs'. rewrite (HF4 cs' Hcs'). destruct (strip cs cs') eqn:Es; [reflexivity|]. apply Hout3; assumption.
      + (* a file *)
        assert (Hleaf : forall c', Ch h i c' = None).
        { intros c'. unfold Ch. rewrite Hn, (hi_leaf _ _ Hinv _ _ Hn Ed). reflexivity. }
        apply drop_spec; try assumption.
        intros c r Hcr. rewrite (HU (c :: r) Hcr). apply (Fi_below_leaf idx h cs i c r Hinv Hcs Hcr HFi Hleaf).
  Qed.
End RmAll.

(* ---- the invariant after RemoveAll ------------------------------------------------------------------------ *)
Lemma kcount_sub_val (ia idx : list (str * nat)) i :
  NoDup (map fst ia) -> NoDup (map fst idx) ->
  (forall k, ikey ia k = Some i -> ikey idx k = Some i) -> kcount i ia <= kcount i idx.
Proof.
  revert idx. induction ia as [|[k v] ia IH]; intros idx Hna Hni Hsub; [unfold kcount, kcount_p; cbn; lia|].
  inversion Hna as [|? ? Hk Hna']; subst.
  assert (Hc : kcount i ((k, v) :: ia) = (if Nat.eqb v i then 1 else 0) + kcount i ia).
  { unfold kcount, kcount_p. cbn [filter snd]. destruct (Nat.eqb v i); reflexivity. }
  rewrite Hc.
  assert (Htail : forall k', ikey ia k' = Some i -> k' <> k /\ ikey ((k, v) :: ia) k' = Some i).
  { intros k' Hk'. assert (Hne : k' <> k).
    { intros ->. apply Hk. apply in_map_iff. exists (k, i). split; [reflexivity|]. apply al_in. exact Hk'. }
    split; [exact Hne|]. unfold ikey. cbn [alookup]. destruct (str_eqb_spec k' k); [congruence|exact Hk']. }
  destruct (Nat.eqb_spec v i) as [->|Hvi].
  - assert (Hkv : ikey idx k = Some i) by (apply Hsub; unfold ikey; cbn [alookup]; rewrite str_eqb_refl; reflexivity).
    pose proof (kcount_aremove nat (fun x => Nat.eqb x i) k i idx Hni Hkv) as E. cbv beta in E. rewrite Nat.eqb_refl in E.
    assert (IH' : kcount i ia <= kcount i (aremove str_eqb k idx)).
    { apply IH; [exact Hna'|apply nodup_aremove; exact Hni|]. intros k' Hk'. destruct (Htail k' Hk') as [Hne Hk2].
      unfold ikey. rewrite al_aremove_neq by exact Hne. apply Hsub. exact Hk2. }
    unfold kcount in *. lia.
  - assert (IH' : kcount i ia <= kcount i idx).
    { apply IH; [exact Hna'|exact Hni|]. intros k' Hk'. destruct (Htail k' Hk') as [_ Hk2]. apply Hsub. exact Hk2. }
    lia.
Qed.

Lemma iter_rm_in_ch k n c j : In (c, j) (on_ch (iter_rm k n)) -> In (c, j) (on_ch n).
Proof. rewrite iter_rm_ch. destruct k; [auto|intros []]. Qed.

Lemma iter_rm_ch_nodup k n : NoDup (map fst (on_ch n)) -> NoDup (map fst (on_ch (iter_rm k n))).
Proof. rewrite iter_rm_ch. destruct k; [auto|intros _; constructor]. Qed.

Lemma hinv_rm_all idx h ps c p pn t :
  hinv idx h -> gcs ps -> good_comp c ->
  Fi idx ps = Some p -> oget h p = Some pn -> Fi idx (ps ++ [c]) = Some t ->
  hinv (fst (o_rm_all (S (length h)) Linux (idx, h) (rpath (ps ++ [c])) t))
       (o_del_child (snd (o_rm_all (S (length h)) Linux (idx, h) (rpath (ps ++ [c])) t)) p c).
Proof.
  intros Hinv Hps Hc HFp Hp HFt.
  set (tgt := ps ++ [c]) in *.
  assert (Hgt : gcs tgt) by (apply gcs_snoc; assumption).
  assert (Htne : tgt <> []) by (unfold tgt; intros E; apply app_eq_nil in E; destruct E; discriminate).
  destruct (parent_is_dir idx h Hinv ps c t Hps Hc HFt) as (p' & pn' & HFp' & Hp' & Hpd & Hpc).
  rewrite HFp in HFp'. inversion HFp'; subst p'. rewrite Hp in Hp'. inversion Hp'; subst pn'. clear HFp' Hp'.
  assert (HU0 : U idx tgt idx) by (intros rest _; reflexivity).
  assert (Hnd0 : NoDup [t]) by (constructor; [intros []|constructor]).
  assert (Hanc0 : anc_ok idx h tgt []) by (intros a []).
  assert (Hfu0 : length h <= S (length h) + length (@nil nat)) by (cbn [length]; lia).
  destruct (rm_all_spec idx h Hinv (S (length h)) idx h tgt t [] (R_init idx h Hinv) Hgt Htne HFt HU0 Hnd0 Hanc0 Hfu0)
    as (HR & HF & Hsl).
  destruct (o_rm_all (S (length h)) Linux (idx, h) (rpath tgt) t) as [idx' h'] eqn:Erm. cbn [fst snd] in *.
  assert (Hle : forall j, kcount j idx' <= kcount j idx)
    by (intros j; apply kcount_sub; [apply (r_nodup _ _ _ _ HR)|apply (hi_nodup _ _ Hinv)|apply (r_sub _ _ _ _ HR)]).
  (* a directory whose path is kept keeps all its keys *)
  assert (Hdir_kept : forall q cs, is_dir_at h q -> gcs cs -> Fi idx cs = Some q -> Fi idx' cs = Some q ->
            kcount q idx - kcount q idx' = 0).
  { intros q cs Hqd Hcs Hq Hq'.
    assert (H : kcount q idx <= kcount q idx'); [|lia].
    apply kcount_sub_val; [apply (hi_nodup _ _ Hinv)|apply (r_nodup _ _ _ _ HR)|].
    intros k Hk. destruct (hi_keys _ _ Hinv k q Hk) as [[-> ->]|(cs0 & Hcs0 & ->)].
    - rewrite Hsl. exact Hk.
    - rewrite (dir_key_unique idx h Hinv cs0 cs q Hcs0 Hcs Hk Hq Hqd). exact Hq'. }
  assert (Hp' : oget h' p = Some (iter_rm (kcount p idx - kcount p idx') pn)) by (apply (r_node _ _ _ _ HR); exact Hp).
  assert (Hget : forall i x, oget (o_del_child h' p c) i = Some x ->
            exists n, oget h i = Some n
              /\ on_nlink x = on_nlink (iter_rm (kcount i idx - kcount i idx') n) /\ on_dir x = on_dir n
              /\ (forall c' j, In (c', j) (on_ch x) -> In (c', j) (on_ch n))
              /\ (on_dir n = false -> on_ch x = [])
              /\ NoDup (map fst (on_ch x))).
  { intros i x Hx. unfold o_del_child in Hx. rewrite Hp' in Hx. rewrite (oget_oupd _ _ _ _ _ Hp') in Hx.
    destruct (Nat.eqb_spec p i) as [<-|Hpi].
    - inversion Hx; subst x. exists pn. cbn [on_with_ch on_nlink on_ch]. split; [exact Hp|]. split; [reflexivity|]. split.
      { unfold on_dir. cbn [on_with_ch on_meta]. apply (iter_rm_dir _ pn). }
      split; [intros c' j Hin; apply in_aremove_in in Hin; apply iter_rm_in_ch in Hin; exact Hin|].
      split; [congruence|]. apply nodup_aremove. apply iter_rm_ch_nodup. apply (hi_chnodup _ _ Hinv _ _ Hp).
    - destruct (oget_lt_some h i) as (n & Hn); [rewrite <- (r_len _ _ _ _ HR); eapply oget_some_lt; exact Hx|].
      rewrite (r_node _ _ _ _ HR i n Hn) in Hx. inversion Hx; subst x.
      exists n. split; [exact Hn|]. split; [reflexivity|]. split; [apply iter_rm_dir|].
      split; [intros c' j; apply iter_rm_in_ch|]. split.
      + intros Hd. rewrite iter_rm_ch. destruct (kcount i idx - kcount i idx'); [apply (hi_leaf _ _ Hinv _ _ Hn Hd)|reflexivity].
      + apply iter_rm_ch_nodup. apply (hi_chnodup _ _ Hinv _ _ Hn). }
  assert (Hfwd : forall i n, oget h i = Some n -> exists x, oget (o_del_child h' p c) i = Some x /\ on_dir x = on_dir n).
  { intros i n Hn. destruct (oget_lt_some (o_del_child h' p c) i) as (x & Hx).
    { unfold o_del_child. rewrite Hp', oupd_length, (r_len _ _ _ _ HR). eapply oget_some_lt. exact Hn. }
    exists x. split; [exact Hx|]. destruct (Hget i x Hx) as (n' & Hn' & _ & Hd & _). congruence. }
  assert (HCh : forall q c' nq, oget h q = Some nq ->
            Ch (o_del_child h' p c) q c' =
              if Nat.eqb p q && str_eqb c' c then None
              else alookup str_eqb c' (on_ch (iter_rm (kcount q idx - kcount q idx') nq))).
  { intros q c' nq Hq. rewrite (Ch_del_child _ _ _ _ Hp'). destruct (Nat.eqb p q && str_eqb c' c); [reflexivity|].
    unfold Ch. rewrite (r_node _ _ _ _ HR q nq Hq). reflexivity. }
  constructor.
  - apply (r_nodup _ _ _ _ HR).
  - intros k i Hk. apply (hi_keys _ _ Hinv k i). apply (r_sub _ _ _ _ HR). exact Hk.
  - split.
    + change (ikey idx' []) with (Fi idx' []). rewrite (HF [] (Forall_nil _)).
      assert (Hs : strip tgt [] = None) by (apply strip_none; intros r E; destruct tgt; [congruence|discriminate]).
      rewrite Hs. apply (hi_root _ _ Hinv).
    + rewrite Hsl. apply (hi_root _ _ Hinv).
  - destruct (hi_rootdir _ _ Hinv) as (r & Hr & Hrd). destruct (Hfwd 0 r Hr) as (x & Hx & Hd). exists x. split; [exact Hx|congruence].
  - intros cs Hcs HFc. apply (hi_rootkey _ _ Hinv cs Hcs). apply (r_sub _ _ _ _ HR). exact HFc.
  - intros k i Hk. destruct (hi_valid _ _ Hinv _ _ (r_sub _ _ _ _ HR _ _ Hk)) as (n & Hn). destruct (Hfwd i n Hn) as (x & Hx & _). eauto.
  - intros cs c' i Hcs Hc'.
    rewrite (HF (cs ++ [c']) (gcs_snoc _ _ Hcs Hc')).
    destruct (strip tgt (cs ++ [c'])) as [r|] eqn:EA.
    + split; [discriminate|]. intros (q & Hq & Hqc). exfalso. rewrite (HF cs Hcs) in Hq.
      destruct (strip tgt cs) as [r2|] eqn:EB; [discriminate|].
      apply strip_some in EA. destruct (snoc_eq_app _ _ _ _ EA) as [[-> Et]|(r' & -> & Ecs)].
      * unfold tgt in Et. apply app_inj_tail in Et. destruct Et as [<- <-].
        rewrite HFp in Hq. inversion Hq; subst q. rewrite (HCh p c pn Hp), Nat.eqb_refl, str_eqb_refl in Hqc. discriminate.
      * apply (proj1 (strip_none tgt cs) EB r'). exact Ecs.
    + assert (EB : strip tgt cs = None).
      { apply strip_none. intros r E. apply (proj1 (strip_none tgt (cs ++ [c'])) EA (r ++ [c'])). rewrite E, <- app_assoc. reflexivity. }
      rewrite (hi_edge _ _ Hinv cs c' i Hcs Hc').
      assert (Hsame : forall q, Fi idx cs = Some q -> Ch (o_del_child h' p c) q c' = Ch h q c').
      { intros q Hq. destruct (hi_valid _ _ Hinv _ _ Hq) as (nq & Hnq). rewrite (HCh q c' nq Hnq).
        assert (Hq' : Fi idx' cs = Some q) by (rewrite (HF cs Hcs), EB; exact Hq).
        assert (Hpc' : Nat.eqb p q && str_eqb c' c = false).
        { destruct (Nat.eqb_spec p q) as [<-|_]; [|reflexivity]. destruct (str_eqb_spec c' c) as [->|_]; [|reflexivity].
          exfalso. apply (proj1 (strip_none tgt (cs ++ [c])) EA []). rewrite app_nil_r. unfold tgt.
          rewrite (dir_key_unique idx h Hinv cs ps p Hcs Hps Hq HFp); [reflexivity|]. exists pn. auto. }
        rewrite Hpc'. unfold Ch. rewrite Hnq.
        destruct (on_dir nq) eqn:Edq.
        - rewrite (Hdir_kept q cs (ex_intro _ nq (conj Hnq Edq)) Hcs Hq Hq'). reflexivity.
        - rewrite iter_rm_ch. rewrite (hi_leaf _ _ Hinv _ _ Hnq Edq). destruct (kcount q idx - kcount q idx'); reflexivity. }
      split; intros (q & Hq & Hqc); exists q.
      * split; [rewrite (HF cs Hcs), EB; exact Hq|]. rewrite (Hsame q Hq). exact Hqc.
      * rewrite (HF cs Hcs), EB in Hq. split; [exact Hq|]. rewrite <- (Hsame q Hq). exact Hqc.
  - intros i x Hx Hxd. destruct (Hget i x Hx) as (n & Hn & _ & Hd & _ & Hleaf & _). apply Hleaf. congruence.
  - intros i x Hx Hi0. destruct (Hget i x Hx) as (n & Hn & Hl & _). rewrite Hl, iter_rm_nlink.
    rewrite (hi_nlink _ _ Hinv _ _ Hn Hi0). pose proof (Hle i). lia.
  - intros i x Hx Hxd. destruct (Hget i x Hx) as (n & Hn & Hl & Hd & _). rewrite Hl, iter_rm_nlink.
    pose proof (hi_dirnlink _ _ Hinv _ _ Hn). rewrite Hd in Hxd. specialize (H Hxd). lia.
  - intros i x c' j Hx Hin. destruct (Hget i x Hx) as (n & Hn & _ & _ & Hch & _). apply (hi_chgood _ _ Hinv _ _ _ _ Hn (Hch _ _ Hin)).
  - intros i x Hx. destruct (Hget i x Hx) as (n & Hn & _ & _ & _ & _ & Hnd). exact Hnd.
Qed.

(* ---- RemoveAll, any target ---------------------------------------------------------------------------------------- *)
Lemma step_remove_all s path : orefa_inv s -> orefa_inv (fst (o_remove_all s path)).
Proof.
  intros Hinv. unfold o_remove_all. destruct path as [|x path']; [exact Hinv|]. set (path := x :: path') in *.
  destruct (oabs_shape s path Hinv) as (cs & Hcs & Eabs). rewrite Eabs, (inv_os _ Hinv).
  destruct (abs_path_split cs Hcs) as [(-> & E1 & E2)|(ps & c & -> & Hps & Hc & E1 & E2)]; rewrite E2.
  - destruct (ofind_root s (inv_h _ Hinv)) as (n & H1 & H2 & Hd). rewrite E1, H1, H2. rewrite Nat.eqb_refl. exact Hinv.
  - rewrite E1. destruct (ofind s (rpath (ps ++ [c]))) as [[ci cn]|] eqn:Ec; [|exact Hinv].
    destruct (ofind s (rpath ps)) as [[pi pn]|] eqn:Ep; [|exact Hinv].
    destruct (Nat.eqb ci pi); [exact Hinv|].
    apply ofind_some in Ec. destruct Ec as [Hci Hcn]. apply ofind_some in Ep. destruct Ep as [Hpi Hpn].
    pose proof (hinv_rm_all (o_index s) (o_heap s) ps c pi pn ci (inv_h _ Hinv) Hps Hc Hpi Hpn Hci) as H.
    destruct (o_rm_all (S (length (o_heap s))) Linux (o_index s, o_heap s) (rpath (ps ++ [c])) ci) as [idx1 h1].
    cbn [fst snd] in *. apply inv_with; [exact Hinv|exact H].
Qed.
