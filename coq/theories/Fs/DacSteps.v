(* Property C03, part 2: the step theorem call by call for ANY user (v_user arbitrary - owner, group member,
   other, administrator - and v_umask arbitrary): on states satisfying the heap hypotheses of the walk bridge,
   on Linux, for calls on clean absolute paths, outside the listed deviation classes (each one an explicit
   hypothesis of the call's theorem), the implementation model's answer (projected) and resulting file system
   equal the specification's (Posix.v: the kernel's discretionary access control).
   Generalises the administrator-only theorems of StepEq.v; built on WalkBridge / WalkSym / DacProofs. *)
From Avfs Require Import Base PathModel PathSpec PathProofs PathCleanProofs PathIterProofs.
From Avfs Require Import Inv.
From Avfs Require Import MemFS MemFile World Posix WalkBridge WalkSym WalkBudget WalkReadlink StepEq DacProofs.
From Avfs Require Import DacGetwd.

(* ---- the hypotheses of a step: no assumption on the user ------------------------------------------- *)
Record dac_hyps (s : fsys) (sv : sview) : Prop := {
  dh_os : v_os (sv_view sv) = Linux;
  dh_wf : walk_wf (f_heap s);
  dh_lc : links_clean (f_heap s);
  dh_root : node_is_dir (f_heap s) (v_root (sv_view sv)) = true
}.

Lemma step_hyps_dac (s : fsys) (sv : sview) : step_hyps s sv -> dac_hyps s sv.
Proof. intros [H1 _ H3 H4 H5]. split; assumption. Qed.

Lemma dresolve (s : fsys) (sv : sview) (slm : slmode) (cs : list str) :
  dac_hyps s sv -> path_ok s sv slm cs ->
  walk_rel (f_heap s) (v_user (sv_view sv)) (v_root (sv_view sv)) (precise_of slm)
    (search_node s (sv_view sv) (abs_path cs) slm) (klookup s sv false (follow_of slm) (abs_path cs)).
Proof.
  intros [Hos Hwf Hlc Hrd] (Hg & Hk1 & Hnf).
  exact (sym_bridge_lookup s sv slm cs Hos Hwf Hlc Hrd Hg Hk1 Hnf).
Qed.

Lemma dresolve_nosym (s : fsys) (sv : sview) (slm : slmode) (cs : list str) (c : nat) :
  dac_hyps s sv -> slmode_eqb slm SlLstat = false ->
  sr_err (search_node s (sv_view sv) (abs_path cs) slm) = EFileExists ->
  sr_child (search_node s (sv_view sv) (abs_path cs) slm) = Some c ->
  forall t m, get (f_heap s) c <> Some (NSym t m).
Proof.
  intros H Hslm He Hc. rewrite (search_node_linux s (sv_view sv) _ slm (dh_os _ _ H)) in He, Hc.
  exact (search_follow_nosym (f_heap s) (sv_view sv) slm Hslm SEARCH_FUEL _ _ _ 0 None _ c
           (dh_root _ _ H) (dh_root _ _ H) eq_refl He Hc).
Qed.

(* ---- Stat / Lstat: no permission on the object itself, search permission on the way -------------------- *)
Theorem dstep_stat (s : fsys) (sv : sview) (slm : slmode) (cs : list str) :
  dac_hyps s sv -> path_ok s sv slm cs ->
  stat_sim (proj_res Linux (stat_gen slm s (sv_view sv) (abs_path cs)))
           (k_stat (follow_of slm) s sv (abs_path cs)).
Proof.
  intros H Hp. pose proof (dresolve s sv slm cs H Hp) as R. destruct Hp as (_ & _ & Hnf).
  unfold stat_gen, k_stat.
  destruct (klookup s sv false (follow_of slm) (abs_path cs)) as [par kind name n|par name md| |e]; cbn [walk_rel] in R.
  - destruct R as (R1 & R2 & R3 & _). rewrite R2, R1. cbn [is_file_exists negb].
    destruct (get (f_heap s) n) as [nd|] eqn:Hg; [|congruence]. right. exists nd, (base (v_os (sv_view sv)) (abs_path cs)).
    split; [reflexivity|]. rewrite (k_info_spec _ _ _ _ Hg). reflexivity.
  - destruct R as (R1 & R2 & _). rewrite R2, R1. left. reflexivity.
  - destruct R.
  - destruct R as (R1 & _). destruct (werr_cases _ _ R1 Hnf) as (Hc & ->).
    left. destruct (sr_child _); destruct Hc as [->|[->|[->| ->]]]; reflexivity.
Qed.

(* ---- Readlink ---------------------------------------------------------------------------------------------- *)
Theorem dstep_readlink (s : fsys) (sv : sview) (cs : list str) :
  dac_hyps s sv -> path_ok s sv SlLstat cs ->
  proj_res Linux (readlink s (sv_view sv) (abs_path cs)) = k_readlink s sv (abs_path cs).
Proof.
  intros H Hp. pose proof (dresolve s sv SlLstat cs H Hp) as R. destruct Hp as (_ & _ & Hnf).
  unfold readlink, k_readlink. change (follow_of SlLstat) with false in R.
  unfold win. rewrite (dh_os _ _ H). cbn [ostype_eqb].
  destruct (klookup s sv false false (abs_path cs)) as [par kind name n|par name md| |e]; cbn [walk_rel] in R.
  - destruct R as (R1 & R2 & R3 & _). rewrite R2, R1. cbn [is_file_exists negb].
    destruct (get (f_heap s) n) as [[ch m|dt k i m|t m]|]; reflexivity.
  - destruct R as (R1 & R2 & _). rewrite R1. reflexivity.
  - destruct R.
  - destruct R as (R1 & _). destruct (werr_cases _ _ R1 Hnf) as (Hc & ->).
    destruct Hc as [->|[->|[->| ->]]]; reflexivity.
Qed.

(* ---- Chtimes: owner or administrator, EPERM otherwise ------------------------------------------------------- *)
Theorem dstep_chtimes (s : fsys) (sv : sview) (cs : list str) :
  dac_hyps s sv -> path_ok s sv SlEval cs ->
  proj_res Linux (chtimes s (sv_view sv) (abs_path cs)) = k_utimes s sv (abs_path cs).
Proof.
  intros H Hp. pose proof (dresolve s sv SlEval cs H Hp) as R. destruct Hp as (_ & _ & Hnf).
  unfold chtimes, k_utimes. change (follow_of SlEval) with true in R.
  destruct (klookup s sv false true (abs_path cs)) as [par kind name n|par name md| |e]; cbn [walk_rel] in R.
  - destruct R as (R1 & R2 & R3 & _). rewrite R2, R1. cbn [is_file_exists negb].
    unfold meta_of. destruct (get (f_heap s) n) as [nd|]; [|congruence].
    rewrite set_mode_ok_owner_or_root. destruct (owner_or_root (node_meta nd) (v_user (sv_view sv))); reflexivity.
  - destruct R as (R1 & R2 & _). rewrite R2, R1. reflexivity.
  - destruct R.
  - destruct R as (R1 & _). destruct (werr_cases _ _ R1 Hnf) as (Hc & ->).
    destruct (sr_child _); destruct Hc as [->|[->|[->| ->]]]; reflexivity.
Qed.

(* ---- Chmod: owner or administrator (EPERM); S_ISGID is dropped for an owner outside the object's group ------------- *)
(* (the rule was missing from MemFS when these proofs were first attempted: the proof did not close, the witness became
   the repository fix "Chmod by an owner who is not a member of the file's group clears the set-group-ID bit";
   [chmod_mode] is that rule, the same expression as in chmod(2) of Posix.v) *)
Lemma ldiff_has_false (x b : N) : has x b = false -> N.ldiff x b = x.
Proof.
  unfold has. intros H. apply negb_false_iff, N.eqb_eq in H. apply N.bits_inj. intros i.
  apply (f_equal (fun z => N.testbit z i)) in H. rewrite N.land_spec, N.bits_0 in H. rewrite N.ldiff_spec.
  destruct (N.testbit x i), (N.testbit b i); cbn in *; congruence.
Qed.

Theorem dstep_chmod (s : fsys) (sv : sview) (cs : list str) (mode : N) :
  dac_hyps s sv -> path_ok s sv SlEval cs ->
  (fst (chmod s (sv_view sv) (abs_path cs) mode), proj_res Linux (snd (chmod s (sv_view sv) (abs_path cs) mode)))
  = k_chmod s sv (abs_path cs) mode.
Proof.
  intros H Hp. pose proof (dresolve s sv SlEval cs H Hp) as R. destruct Hp as (_ & _ & Hnf).
  pose proof (dresolve_nosym s sv SlEval cs) as Hns.
  unfold chmod, k_chmod, chmod_mode. change (follow_of SlEval) with true in R.
  destruct (klookup s sv false true (abs_path cs)) as [par kind name n|par name md| |e]; cbn [walk_rel] in R.
  - destruct R as (R1 & R2 & R3 & _). specialize (Hns n H eq_refl R1 R2). rewrite R2, R1. cbn [is_file_exists negb].
    destruct (get (f_heap s) n) as [nd|] eqn:Hgn; [|congruence].
    rewrite set_mode_ok_owner_or_root.
    destruct nd as [ch m|dt k i m|t m]; [| |exfalso; exact (Hns t m eq_refl)]; cbn [node_meta];
      destruct (owner_or_root m (v_user (sv_view sv))); reflexivity.
  - destruct R as (R1 & R2 & _). rewrite R2, R1. reflexivity.
  - destruct R.
  - destruct R as (R1 & _). destruct (werr_cases _ _ R1 Hnf) as (Hc & ->).
    destruct (sr_child _); destruct Hc as [->|[->|[->| ->]]]; reflexivity.
Qed.

(* ---- Truncate: write permission on the file (EACCES) ---------------------------------------------------------- *)
(* both sides remove the set-id bits of a file a non-privileged user truncates ([drop_privs]) *)
Theorem dstep_truncate (s : fsys) (sv : sview) (cs : list str) (size : Z) :
  dac_hyps s sv -> path_ok s sv SlEval cs ->
  (fst (truncate s (sv_view sv) (abs_path cs) size), proj_res Linux (snd (truncate s (sv_view sv) (abs_path cs) size)))
  = k_truncate s sv (abs_path cs) size.
Proof.
  intros H Hp. pose proof (dresolve s sv SlEval cs H Hp) as R. destruct Hp as (_ & _ & Hnf).
  unfold truncate, k_truncate, win. rewrite (dh_os _ _ H). cbn [ostype_eqb negb]. rewrite andb_true_r.
  destruct (Z.ltb size 0) eqn:Hsz; [reflexivity|].
  change (follow_of SlEval) with true in R.
  destruct (klookup s sv false true (abs_path cs)) as [par kind name n|par name md| |e]; cbn [walk_rel] in R.
  - destruct R as (R1 & R2 & R3 & _). rewrite R2, R1. cbn [is_file_exists negb].
    destruct (get (f_heap s) n) as [[ch m|dt k i m|t m]|] eqn:Hg; [reflexivity| |reflexivity|reflexivity].
    rewrite (check_permission_node _ _ _ OpenWrite _ Hg). cbn [node_meta]. change (N.land OpenWrite 7) with 2%N.
    destruct (kperm (f_heap s) n 2 (v_user (sv_view sv))); reflexivity.
  - destruct R as (R1 & R2 & _). rewrite R1. reflexivity.
  - destruct R.
  - destruct R as (R1 & _). destruct (werr_cases _ _ R1 Hnf) as (Hc & ->).
    destruct Hc as [->|[->|[->| ->]]]; reflexivity.
Qed.

(* ---- Mkdir: write and search permission on the parent (EACCES); owner, group, mode of the new directory ------- *)
Theorem dstep_mkdir (s : fsys) (sv : sview) (w : list str) (cl : str) (perm : N) :
  dac_hyps s sv -> path_ok s sv SlLstat (w ++ [cl]) ->
  let p := abs_path (w ++ [cl]) in
  (fst (mkdir s (sv_view sv) p perm), proj_res Linux (snd (mkdir s (sv_view sv) p perm))) = k_mkdir s sv p perm.
Proof.
  intros H Hp p. pose proof (dresolve s sv SlLstat (w ++ [cl]) H Hp) as R.
  destruct Hp as (Hg & Hk1 & Hnf). change (follow_of SlLstat) with false in R, Hk1. change (precise_of SlLstat) with true in R.
  destruct (klookup_pm s sv false w cl Hg Hk1) as (Hkn & Hkg & Hpm).
  unfold p. rewrite (mkdir_nonempty s (sv_view sv) _ perm (abs_path_nonempty _)). cbv zeta.
  unfold k_mkdir. rewrite Hpm.
  pose proof (klookup_final s sv false (w ++ [cl]) Hg) as Hfin.
  destruct (klookup s sv false false (abs_path (w ++ [cl]))) as [par kind name n|par name md| |e] eqn:HK; cbn [walk_rel] in R.
  - destruct (Hkn _ _ _ _ eq_refl) as (-> & ->). destruct Hfin as (F1 & _). destruct R as (R1 & _).
    rewrite R1, F1. reflexivity.
  - pose proof (Hkg _ _ _ eq_refl) as ->. destruct Hfin as (F1 & F2 & _). destruct R as (R1 & R2 & R3 & R4).
    destruct (at_name_views _ _ _ _ _ _ (R4 eq_refl)) as (V1 & V2 & _).
    rewrite R1, V2, R3, V1, F1. cbn [is_not_exist negb orb].
    rewrite perm_on_write_lookup. destruct (kperm (f_heap s) par 3 (v_user (sv_view sv))); cbn [negb]; [|reflexivity].
    rewrite create_dir_alloc by exact (dh_os _ _ H). reflexivity.
  - destruct R.
  - destruct R as (R1 & R2). destruct (werr_cases _ _ R1 Hnf) as (Hc & ->).
    destruct Hc as [Hc|[Hc|[Hc|Hc]]]; rewrite Hc in *; try reflexivity.
    rewrite (R2 eq_refl eq_refl). reflexivity.
Qed.

(* ---- Symlink: write and search permission on the parent ------------------------------------------------------ *)
Theorem dstep_symlink (s : fsys) (sv : sview) (w : list str) (cl : str) (t : str) :
  dac_hyps s sv -> path_ok s sv SlLstat (w ++ [cl]) ->
  let p := abs_path (w ++ [cl]) in
  (fst (symlink s (sv_view sv) t p), proj_res Linux (snd (symlink s (sv_view sv) t p)))
  = k_symlink s sv (clean Linux t) p.
Proof.
  intros H Hp p. pose proof (dresolve s sv SlLstat (w ++ [cl]) H Hp) as R.
  destruct Hp as (Hg & Hk1 & Hnf). change (follow_of SlLstat) with false in R, Hk1. change (precise_of SlLstat) with true in R.
  destruct (klookup_pm s sv false w cl Hg Hk1) as (Hkn & Hkg & Hpm).
  unfold p, symlink, k_symlink. rewrite Hpm.
  pose proof (klookup_final s sv false (w ++ [cl]) Hg) as Hfin.
  destruct (clean Linux t) as [|t0 t'] eqn:Et; [exfalso; exact (clean_nonempty t Et)|]. rewrite <- Et. clear Et t0 t'.
  destruct (klookup s sv false false (abs_path (w ++ [cl]))) as [par kind name n|par name md| |e] eqn:HK; cbn [walk_rel] in R.
  - destruct (Hkn _ _ _ _ eq_refl) as (-> & ->). destruct Hfin as (F1 & _). destruct R as (R1 & _).
    rewrite R1, F1. reflexivity.
  - pose proof (Hkg _ _ _ eq_refl) as ->. destruct Hfin as (F1 & F2 & F3). destruct R as (R1 & R2 & R3 & R4).
    destruct (at_name_views _ _ _ _ _ _ (R4 eq_refl)) as (V1 & V2 & _).
    rewrite R1, V2, R3, V1, F1. cbn [is_not_exist negb orb].
    rewrite (perm_on_write_searchable _ _ _ F3). destruct (kperm (f_heap s) par 3 (v_user (sv_view sv))); cbn [negb]; [|reflexivity].
    rewrite create_symlink_alloc, (dh_os _ _ H). reflexivity.
  - destruct R.
  - destruct R as (R1 & R2). destruct (werr_cases _ _ R1 Hnf) as (Hc & ->).
    destruct Hc as [Hc|[Hc|[Hc|Hc]]]; rewrite Hc in *; try reflexivity.
    rewrite (R2 eq_refl eq_refl). reflexivity.
Qed.

(* ---- Remove: write and search permission on the parent, then the sticky rule (EPERM) ----------------------------- *)
Theorem dstep_remove (s : fsys) (sv : sview) (w : list str) (cl : str) :
  dac_hyps s sv -> path_ok s sv SlLstat (w ++ [cl]) -> sym_single (f_heap s) ->
  let p := abs_path (w ++ [cl]) in
  (fst (remove s (sv_view sv) p), proj_res Linux (snd (remove s (sv_view sv) p))) = go_remove s sv p.
Proof.
  intros H Hp Hss p. pose proof (dresolve s sv SlLstat (w ++ [cl]) H Hp) as R.
  destruct Hp as (Hg & Hk1 & Hnf). change (follow_of SlLstat) with false in R, Hk1. change (precise_of SlLstat) with true in R.
  destruct (klookup_pm s sv false w cl Hg Hk1) as (Hkn & Hkg & Hpm).
  unfold p, remove, go_remove, k_unlink, k_rmdir. rewrite Hpm.
  pose proof (klookup_final s sv false (w ++ [cl]) Hg) as Hfin.
  destruct (klookup s sv false false (abs_path (w ++ [cl]))) as [par kind name n|par name md| |e] eqn:HK; cbn [walk_rel] in R.
  - destruct (Hkn _ _ _ _ eq_refl) as (-> & ->). destruct Hfin as (F1 & F2 & F3).
    destruct R as (R1 & R2 & R3 & _ & _ & R4). destruct (R4 eq_refl) as (R5 & R6).
    destruct (at_name_views _ _ _ _ _ _ (R6 eq_refl)) as (V1 & _).
    assert (Hne : n <> par).
    { intros ->. apply (ww_acyclic _ (dh_wf _ _ H) par). exists par, cl. split; [constructor|].
      apply alookup_in. exact F1. }
    rewrite R2, R5, R1, V1, F1. cbn [is_file_exists negb].
    replace (Nat.eqb par n) with false by (symmetry; apply Nat.eqb_neq; congruence).
    rewrite (perm_on_write_searchable _ _ _ F3).
    unfold may_delete.
    destruct (kperm (f_heap s) par 3 (v_user (sv_view sv))); cbn [negb]; [|reflexivity].
    destruct (sticky_refuses (f_heap s) par n (v_user (sv_view sv))); [reflexivity|].
    destruct (get (f_heap s) n) as [[ch m|dt k i m|t m]|] eqn:Hgn; [| | |congruence].
    + assert (Hnd : node_is_dir (f_heap s) n = true) by (unfold node_is_dir; rewrite Hgn; reflexivity).
      rewrite Hnd. unfold dir_nonempty. rewrite Hgn. destruct ch; reflexivity.
    + assert (Hnd : node_is_dir (f_heap s) n = false) by (unfold node_is_dir; rewrite Hgn; reflexivity).
      rewrite Hnd. rewrite (release_single _ par cl n Hss (alookup_in _ _ _ _ F1) Hne). reflexivity.
    + assert (Hnd : node_is_dir (f_heap s) n = false) by (unfold node_is_dir; rewrite Hgn; reflexivity).
      rewrite Hnd. rewrite (release_single _ par cl n Hss (alookup_in _ _ _ _ F1) Hne). reflexivity.
  - pose proof (Hkg _ _ _ eq_refl) as ->. destruct Hfin as (F1 & _). destruct R as (R1 & R2 & _).
    rewrite R2, R1, F1. reflexivity.
  - destruct R.
  - destruct R as (R1 & _). destruct (werr_cases _ _ R1 Hnf) as (Hc & ->).
    set (r := search_node s (sv_view sv) (abs_path (w ++ [cl])) SlLstat) in *.
    destruct (sr_child r), (sr_parent r); destruct Hc as [Hc|[Hc|[Hc|Hc]]]; rewrite Hc; reflexivity.
Qed.

(* ---- Link: write and search permission on the new parent; fs.protected_hardlinks is a listed deviation ----------- *)
(* may_linkat: the caller owns the file, or is privileged, or the file is a regular file without set-id bits that
   the caller may read and write *)
Definition hardlink_safe (h : heap) (oc : nat) (u : user) : bool :=
  let m := meta_of h oc in
  let isreg := match get h oc with Some (NFile _ _ _ _) => true | _ => false end in
  us_admin u || Z.eqb (m_uid m) (us_uid u)
  || (isreg && negb (has (m_mode m) MODE_SETUID) && negb (has (m_mode m) MODE_SETGID && has (m_mode m) 8) && kperm h oc 6 u).

Definition link_permitted (phl : bool) (s : fsys) (sv : sview) (cs : list str) : Prop :=
  forall par kind name oc, klookup s sv false false (abs_path cs) = WNode par kind name oc ->
    phl && negb (hardlink_safe (f_heap s) oc (v_user (sv_view sv))) = false.

Theorem dstep_link (phl : bool) (s : fsys) (sv : sview) (co w : list str) (cl : str) :
  dac_hyps s sv -> path_ok s sv SlLstat co -> path_ok s sv SlLstat (w ++ [cl]) -> not_symlink s sv co ->
  link_permitted phl s sv co ->
  let o := abs_path co in
  let p := abs_path (w ++ [cl]) in
  (fst (link s (sv_view sv) o p), proj_res Linux (snd (link s (sv_view sv) o p))) = k_link phl s sv o p.
Proof.
  intros H Hpo Hp Hns Hph o p.
  pose proof (dresolve s sv SlLstat co H Hpo) as Ro. pose proof (dresolve s sv SlLstat (w ++ [cl]) H Hp) as R.
  destruct Hpo as (Hgo & _ & Hnfo). destruct Hp as (Hg & Hk1 & Hnf).
  change (follow_of SlLstat) with false in Ro, R, Hk1. change (precise_of SlLstat) with true in Ro, R.
  destruct (klookup_pm s sv false w cl Hg Hk1) as (Hkn & Hkg & Hpm).
  unfold o, p, link, k_link, win. rewrite (dh_os _ _ H). cbn [ostype_eqb]. unfold not_symlink in Hns. unfold link_permitted in Hph.
  pose proof (klookup_final s sv false (w ++ [cl]) Hg) as Hfin.
  set (ro := search_node s (sv_view sv) (abs_path co) SlLstat) in *.
  set (rn := search_node s (sv_view sv) (abs_path (w ++ [cl])) SlLstat) in *.
  destruct (klookup s sv false false (abs_path co)) as [opar okind oname oc|opar oname omd| |e] eqn:HKo; cbn [walk_rel] in Ro.
  - destruct Ro as (O1 & O2 & O3 & _). rewrite O2, O1. cbn [is_file_exists negb]. rewrite Hpm.
    pose proof (fun t m => Hns _ _ _ _ t m eq_refl) as Hns'. specialize (Hph _ _ _ _ eq_refl). unfold hardlink_safe in Hph.
    destruct (klookup s sv false false (abs_path (w ++ [cl]))) as [par kind name n|par name md| |e] eqn:HK; cbn [walk_rel] in R.
    + destruct (Hkn _ _ _ _ eq_refl) as (-> & ->). destruct Hfin as (F1 & _). destruct R as (R1 & _).
      rewrite R1, F1. reflexivity.
    + pose proof (Hkg _ _ _ eq_refl) as ->. destruct Hfin as (F1 & F2 & F3). destruct R as (R1 & R2 & R3 & R4).
      destruct (at_name_views _ _ _ _ _ _ (R4 eq_refl)) as (V1 & V2 & _).
      rewrite R1, V2, R3, V1, F1. cbn [is_not_exist negb].
      rewrite (perm_on_write_searchable _ _ _ F3). cbv zeta in Hph |- *. rewrite Hph.
      destruct (kperm (f_heap s) par 3 (v_user (sv_view sv))); cbn [negb]; [|reflexivity].
      unfold node_is_dir.
      destruct (get (f_heap s) oc) as [[ch m|dt k i m|t m]|] eqn:Hgoc; try reflexivity; [exfalso; exact (Hns' t m eq_refl)|congruence].
    + destruct R.
    + destruct R as (R1 & R2). destruct (werr_cases _ _ R1 Hnf) as (Hc & ->).
      destruct Hc as [Hc|[Hc|[Hc|Hc]]]; rewrite Hc in *; try reflexivity.
      rewrite (R2 eq_refl eq_refl). reflexivity.
  - destruct Ro as (O1 & O2 & _). rewrite O2, O1. reflexivity.
  - destruct Ro.
  - destruct Ro as (O1 & _). destruct (werr_cases _ _ O1 Hnfo) as (Hc & ->).
    destruct (sr_child ro); destruct Hc as [Hc|[Hc|[Hc|Hc]]]; rewrite Hc; reflexivity.
Qed.

(* ---- Chdir: search permission on the directory itself ---------------------------------------------------------- *)
(* the implementation keeps the working directory as a path string, the kernel as a node: on success the string
   is the link-free, searchable directory path of the node (when the walk ended on a proper name) *)
Definition cwd_denotes (h : heap) (u : user) (root : nat) (K : wres) (d : str) (c : nat) : Prop :=
  forall par name, K = WNode par LNorm name c ->
    exists done, d = abs_path (done ++ [name]) /\ dwalk h u root done = Some par
                 /\ alookup str_eqb name (children h par) = Some c.

Theorem dstep_chdir (s : fsys) (sv : sview) (cs : list str) :
  dac_hyps s sv -> path_ok s sv SlEval cs ->
  match chdir s (sv_view sv) (abs_path cs), k_chdir s sv (abs_path cs) with
  | inl r, inl e => proj_res Linux r = SErr e
  | inr d, inr c => cwd_denotes (f_heap s) (v_user (sv_view sv)) (v_root (sv_view sv))
                                (klookup s sv false true (abs_path cs)) d c
  | _, _ => False
  end.
Proof.
  intros H Hp. pose proof (dresolve s sv SlEval cs H Hp) as R. destruct Hp as (Hg & _ & Hnf).
  pose proof (klookup_final s sv true cs Hg) as Hfin.
  unfold chdir, k_chdir, win, cwd_denotes. rewrite (dh_os _ _ H). cbn [ostype_eqb].
  change (follow_of SlEval) with true in R. change (precise_of SlEval) with true in R.
  destruct (klookup s sv false true (abs_path cs)) as [par kind name n|par name md| |e]; cbn [walk_rel] in R.
  - destruct R as (R1 & R2 & R3 & _ & _ & R4). rewrite R2, R1. cbn [is_file_exists negb]. unfold node_is_dir.
    destruct (get (f_heap s) n) as [[ch m|dt k i m|t m]|] eqn:Hgn; [|reflexivity|reflexivity|congruence]. cbn [negb].
    rewrite <- (kperm_dir _ _ _ _ (v_user (sv_view sv)) Hgn).
    destruct (kperm (f_heap s) n 1 (v_user (sv_view sv))); cbn [negb]; [|reflexivity].
    intros par0 name0 [= -> -> ->]. destruct (R4 eq_refl) as (_ & R5). destruct Hfin as (F1 & _).
    destruct (at_name_views _ _ _ _ _ _ (R5 eq_refl)) as (_ & _ & done & V3 & V4 & _). exists done. auto.
  - destruct R as (R1 & R2 & _). rewrite R1. reflexivity.
  - destruct R.
  - destruct R as (R1 & _). destruct (werr_cases _ _ R1 Hnf) as (Hc & ->).
    destruct Hc as [->|[->|[->| ->]]]; reflexivity.
Qed.

(* ---- OpenFile: every flag combination ------------------------------------------------------------------------ *)
Lemma acc_cases (flag : N) :
  (N.land flag 3 = 0 \/ N.land flag 3 = 1 \/ N.land flag 3 = 2 \/ N.land flag 3 = 3)%N.
Proof.
  assert (Hb : (N.land flag 3 < 4)%N).
  { change 3%N with (N.ones 2). rewrite N.land_ones. apply N.mod_upper_bound. discriminate. }
  lia.
Qed.

(* every value of the two access-mode bits, the invalid mode 3 (O_WRONLY|O_RDWR) included: both sides ask for
   read and write there *)
Lemma om_facts (flag : N) :
  let om := to_open_mode flag in
  let acc := N.land flag 3 in
  N.land om 7 = acc_mask acc false /\
  N.land (N.lor om OpenWrite) 7 = acc_mask acc true /\
  has om OpenCreate = has flag O_CREATE /\
  has om OpenCreateExcl = has flag O_CREATE && has flag O_EXCL /\
  has om OpenTruncate = has flag O_TRUNC /\
  has om OpenAppend = has flag O_APPEND /\
  has om OpenWrite = (N.eqb acc 1 || N.eqb acc 2 || N.eqb acc 3).
Proof.
  unfold to_open_mode. cbv zeta.
  destruct (acc_cases flag) as [Ha|[Ha|[Ha|Ha]]]; rewrite Ha;
    destruct (has flag O_CREATE), (has flag O_EXCL), (has flag O_APPEND), (has flag O_TRUNC);
    vm_compute; repeat split; reflexivity.
Qed.

Lemma kwalk_pm_err : forall f h u root follow follow' cur (w : list str) (cl : str) cnt,
  good_comp cl ->
  (exists e, kwalk f h u root true follow cur (w ++ [cl]) cnt false = WErr e
             /\ kwalk f h u root false follow' cur (w ++ [cl]) cnt false = WErr e)
  \/ (exists par, kwalk f h u root true follow cur (w ++ [cl]) cnt false = WParent par LNorm cl false).
Proof.
  induction f as [|f IH]; intros h u root follow follow' cur w cl cnt Hcl; [left; exists EFUEL; split; reflexivity|].
  destruct (good_comp_kind _ Hcl) as (K1 & K2).
  rewrite !kwalk_S. destruct w as [|c w]; cbn [app].
  - destruct (node_is_dir h cur); cbn [negb]; [|left; eauto].
    destruct (kperm h cur 1 u); cbn [negb]; [|left; eauto].
    cbv zeta. cbn [is_nil andb]. rewrite K1, K2. right. eauto.
  - assert (Hnl : is_nil (w ++ [cl]) = false) by (destruct w; reflexivity).
    destruct (node_is_dir h cur); cbn [negb]; [|left; eauto].
    destruct (kperm h cur 1 u); cbn [negb]; [|left; eauto].
    cbv zeta. rewrite Hnl. cbn [andb negb orb].
    destruct (str_eqb c DOTS); [apply IH; exact Hcl|].
    destruct (str_eqb c DOTDOTS); [apply IH; exact Hcl|].
    destruct (alookup str_eqb c (children h cur)) as [n|]; [|left; eauto].
    destruct (get h n) as [[ch m|dt k i m|t m]|]; [| | |left; eauto].
    + apply IH; exact Hcl.
    + left; eauto.
    + destruct (Nat.leb MAXSYMLINKS cnt); [left; eauto|].
      destruct (is_nil t); [left; eauto|].
      rewrite app_assoc. apply IH; exact Hcl.
Qed.

Lemma klookup_pm_err (s : fsys) (sv : sview) (follow follow' : bool) (w : list str) (cl : str) :
  Forall good_comp (w ++ [cl]) ->
  (exists e, klookup s sv true follow (abs_path (w ++ [cl])) = WErr e
             /\ klookup s sv false follow' (abs_path (w ++ [cl])) = WErr e)
  \/ (exists par, klookup s sv true follow (abs_path (w ++ [cl])) = WParent par LNorm cl false).
Proof.
  intros Hg. rewrite !(klookup_abs_path s sv _ _ (w ++ [cl]) Hg).
  assert (E : match w ++ [cl] with [] => true | _ => false end = false) by (destruct w; reflexivity).
  rewrite E. apply kwalk_pm_err. apply Forall_app in Hg as (_ & Hg). inversion Hg; assumption.
Qed.

Definition open_sim (a : fsys * (res + handle)) (b : fsys * (N + nat)) : Prop :=
  fst a = fst b /\ match snd a, snd b with
                   | inl r, inl e => proj_res Linux r = SErr e
                   | inr f, inr c => hd_node f = Some c
                   | _, _ => False
                   end.

Lemma upd_same (h : heap) (c : nat) (n : node) : get h c = Some n -> upd h c n = h.
Proof.
  revert c. induction h as [|x h IH]; intros [|c] H; cbn in *; try discriminate.
  - injection H as <-. reflexivity.
  - rewrite (IH c H). reflexivity.
Qed.

Lemma with_heap_same (s : fsys) : with_heap s (f_heap s) = s.
Proof. destruct s. reflexivity. Qed.


(* the two "open an existing object" procedures, named *)
Definition oe_impl (s : fsys) (v : view) (vi : nat) (name : str) (om : N) (c : nat) : fsys * (res + handle) :=
  let h := f_heap s in
  match get h c with
  | Some (NFile d k i m) =>
      if negb (check_permission m (if has om OpenTruncate then N.lor om OpenWrite else om) (v_user v))
      then (s, inl (RFail EPermDenied))
      else if has om OpenCreateExcl then (s, inl (RFail EFileExists))
      else
        let d1 := if has om OpenTruncate then [] else d in
        let at_ := 0%Z in
        let m1 := if has om OpenTruncate then drop_privs (v_user v) m else m in
        (with_heap s (upd h c (NFile d1 k i m1)), inr (new_handle c vi name at_ om))
  | Some (NDir _ m) =>
      if has om OpenCreateExcl then (s, inl (RFail EFileExists))
      else if has om OpenWrite || has om OpenCreate || has om OpenTruncate then (s, inl (RFail EIsADirectory))
      else if negb (check_permission m om (v_user v)) then (s, inl (RFail EPermDenied))
      else (s, inr (new_handle c vi name 0 om))
  | _ => (s, inr (new_handle c vi name 0 om))
  end.

Definition oe_spec (u : user) (creat trunc : bool) (mask : N) (s0 : fsys) (c : nat) (created : bool) : fsys * (N + nat) :=
  let wants_write := negb (N.eqb (N.land mask 2) 0) in
  let h0 := f_heap s0 in
  match get h0 c with
  | Some (NDir _ _) =>
      if creat then (s0, inl EISDIR)
      else if wants_write then (s0, inl EISDIR)
      else if negb (kperm h0 c mask u) then (s0, inl EACCES)
      else (s0, inr c)
  | Some (NFile d k i m) =>
      if negb created && negb (kperm h0 c mask u) then (s0, inl EACCES)
      else if trunc && negb created then (with_heap s0 (upd h0 c (NFile [] k i (drop_privs u m))), inr c)
      else (s0, inr c)
  | _ => (s0, inl ELOOP)
  end.

Lemma open_file_eq (s : fsys) (v : view) (vi : nat) (x : N) (name : str) (flag perm : N) :
  open_file s v vi (x :: name) flag perm =
  let name := x :: name in
  let om := to_open_mode flag in
  let r := search_node s v name (if has om OpenCreateExcl then SlLstat else SlEval) in
  let e := sr_err r in
  if (negb (is_file_exists e) && negb (is_not_exist e)) || negb (pi_is_last (sr_pi r)) then (s, inl (RFail e))
  else if is_file_exists e && has om OpenCreateExcl
          && match sr_child r with
             | Some c => match get (f_heap s) c with Some (NSym _ _) => true | _ => false end
             | None => false
             end
  then (s, inl (RFail e))
  else
    let h := f_heap s in
    if is_not_exist e then
      if negb (has om OpenCreate) then (s, inl (RFail e))
      else match sr_parent r with
           | None => (s, inl (RFail e))
           | Some parent =>
               if negb (perm_on h parent (N.lor OpenWrite OpenLookup) (v_user v))
               then (s, inl (RFail EPermDenied))
               else
                 let part := pi_part (sr_pi r) in
                 match alookup str_eqb part (children h parent) with
                 | None =>
                     let '(s1, c) := create_file s v parent part perm in
                     (s1, inr (new_handle c vi name 0 om))
                 | Some c => oe_impl s v vi name om c
                 end
           end
    else match sr_child r with
         | Some c => oe_impl s v vi name om c
         | None => (s, inl RPanic)
         end.
Proof. reflexivity. Qed.

Lemma k_open_eq (s : fsys) (sv : sview) (p : str) (flag perm : N) :
  k_open s sv p flag perm =
  let v := sv_view sv in
  let acc := N.land flag 3 in
  let creat := has flag O_CREATE in
  let excl := has flag O_EXCL in
  let trunc := has flag O_TRUNC in
  let h := f_heap s in
  let u := v_user v in
  let mask := acc_mask acc trunc in
  if creat then
    match klookup s sv true false p with
    | WErr e => (s, inl e)
    | WParent par k name mustdir =>
        match k with
        | LNorm =>
            if mustdir then (s, inl EISDIR)
            else
              match klookup s sv false (negb excl) p with
              | WErr e => (s, inl e)
              | WNode _ _ _ c => if excl then (s, inl EEXIST) else oe_spec u creat trunc mask s c false
              | WNeg par' name' _ =>
                  if negb (kperm h par' 3 u) then (s, inl EACCES)
                  else
                    let bits := N.land perm FILE_MODE_MASK in
                    let '(s1, c) := alloc_child s par' name'
                                      (NFile [] 1 (f_last_id s + 1) (kmeta h par' v 0 bits false)) true in
                    (s1, inr c)
              | _ => (s, inl EFUEL)
              end
        | _ =>
            match klookup s sv false true p with
            | WErr e => (s, inl e)
            | WNode _ _ _ c => if excl then (s, inl EEXIST) else (s, inl EISDIR)
            | _ => (s, inl EISDIR)
            end
        end
    | _ => (s, inl EFUEL)
    end
  else
    match klookup s sv false true p with
    | WErr e => (s, inl e)
    | WNeg _ _ _ => (s, inl ENOENT)
    | WNode _ _ _ c => oe_spec u creat trunc mask s c false
    | _ => (s, inl EFUEL)
    end.
Proof. reflexivity. Qed.

(* opening an existing object: the access check by open mode, O_TRUNC needs write permission, a directory
   opens read-only *)
Lemma oe_sim (s : fsys) (v : view) (vi : nat) (name : str) (flag : N) (c : nat) :
  get (f_heap s) c <> None -> (forall t m, get (f_heap s) c <> Some (NSym t m)) ->
  has flag O_CREATE && has flag O_EXCL = false ->
  open_sim (oe_impl s v vi name (to_open_mode flag) c)
           (oe_spec (v_user v) (has flag O_CREATE) (has flag O_TRUNC) (acc_mask (N.land flag 3) (has flag O_TRUNC)) s c false).
Proof.
  intros Hv Hns Hex.
  destruct (om_facts flag) as (M1 & M2 & M3 & M4 & M5 & M6 & M7). cbv zeta in *.
  unfold oe_impl, oe_spec. cbv zeta. rewrite M4, Hex, M5, M3, M7.
  destruct (get (f_heap s) c) as [[ch m|d k i m|t m]|] eqn:Hg; [| |exfalso; exact (Hns t m eq_refl)|congruence].
  - (* a directory *)
    destruct (has flag O_CREATE); [rewrite orb_true_r; split; reflexivity|]. rewrite orb_false_r.
    assert (Hw : negb (N.eqb (N.land (acc_mask (N.land flag 3) (has flag O_TRUNC)) 2) 0)
                 = (N.eqb (N.land flag 3) 1 || N.eqb (N.land flag 3) 2 || N.eqb (N.land flag 3) 3) || has flag O_TRUNC).
    { destruct (acc_cases flag) as [Ha|[Ha|[Ha|Ha]]]; rewrite Ha; destruct (has flag O_TRUNC); reflexivity. }
    rewrite Hw. destruct ((N.eqb (N.land flag 3) 1 || N.eqb (N.land flag 3) 2 || N.eqb (N.land flag 3) 3) || has flag O_TRUNC) eqn:Hww; [split; reflexivity|].
    apply orb_false_iff in Hww as (_ & Htr). rewrite Htr.
    rewrite (check_permission_node _ _ _ (to_open_mode flag) _ Hg), M1.
    destruct (kperm (f_heap s) c (acc_mask (N.land flag 3) false) (v_user v)); split; reflexivity.
  - (* a regular file *)
    cbn [negb andb]. rewrite (check_permission_node _ _ _ _ _ Hg).
    destruct (has flag O_TRUNC) eqn:Htr.
    + rewrite M2. destruct (kperm (f_heap s) c (acc_mask (N.land flag 3) true) (v_user v)); cbn [negb]; [|split; reflexivity].
      cbn [andb]. split; reflexivity.
    + rewrite M1. destruct (kperm (f_heap s) c (acc_mask (N.land flag 3) false) (v_user v)); cbn [negb]; [|split; reflexivity].
      cbn [andb]. rewrite (upd_same _ _ _ Hg), with_heap_same. split; reflexivity.
Qed.

(* the failing walk: same errno *)
Lemma open_walk_err (s : fsys) (sv : sview) (vi : nat) (cs : list str) (flag perm : N) (slm : slmode) (e : N) (X : fsys * (res + handle)) :
  let r := search_node s (sv_view sv) (abs_path cs) slm in
  walk_err_rel (sr_err r) e /\ (true = true -> sr_err r = ENoSuchDir -> pi_is_last (sr_pi r) = false) ->
  sr_err r <> EFuel ->
  open_sim (if (negb (is_file_exists (sr_err r)) && negb (is_not_exist (sr_err r))) || negb (pi_is_last (sr_pi r))
            then (s, inl (RFail (sr_err r))) else X)
           (s, inl e).
Proof.
  intros r (R1 & R2) Hnf. destruct (werr_cases _ _ R1 Hnf) as (Hc & ->).
  destruct Hc as [Hc|[Hc|[Hc|Hc]]]; rewrite Hc in *; cbn [is_file_exists is_not_exist negb andb orb]; try (split; reflexivity).
  rewrite (R2 eq_refl eq_refl). split; reflexivity.
Qed.

Theorem dstep_open_nocreat (s : fsys) (sv : sview) (cs : list str) (flag perm : N) (vi : nat) :
  dac_hyps s sv -> path_ok s sv SlEval cs -> has flag O_CREATE = false ->
  open_sim (open_file s (sv_view sv) vi (abs_path cs) flag perm) (k_open s sv (abs_path cs) flag perm).
Proof.
  intros H Hp Hcr. pose proof (dresolve s sv SlEval cs H Hp) as R. destruct Hp as (Hg & _ & Hnf).
  destruct (om_facts flag) as (M1 & M2 & M3 & M4 & M5 & M6 & M7). cbv zeta in *.
  rewrite Hcr in M3, M4. cbn [andb] in M4.
  unfold abs_path at 1. rewrite open_file_eq. fold (abs_path cs). rewrite k_open_eq. cbv zeta.
  rewrite M4, M3, Hcr. cbv iota.
  change (follow_of SlEval) with true in R. change (precise_of SlEval) with true in R.
  pose proof (dresolve_nosym s sv SlEval cs) as Hns.
  destruct (klookup s sv false true (abs_path cs)) as [par kind name n|par name md| |e] eqn:HK; cbn [walk_rel] in R.
  - destruct R as (R1 & R2 & R3 & _ & R4 & _). rewrite R1, R2, (R4 eq_refl). cbn [is_file_exists is_not_exist negb andb orb].
    rewrite <- Hcr at 1. apply oe_sim; [exact R3|exact (Hns n H eq_refl R1 R2)|rewrite Hcr; reflexivity].
  - destruct R as (R1 & R2 & R3 & R4). destruct (at_name_views _ _ _ _ _ _ (R4 eq_refl)) as (V1 & V2 & _).
    rewrite R1, V2. cbn [is_file_exists is_not_exist negb andb orb]. split; reflexivity.
  - destruct R.
  - apply (open_walk_err s sv vi cs flag perm SlEval e); assumption.
Qed.

(* the file OpenFile creates is the one open(2) creates (owner, group - inherited in a set-group-id directory -, mode) *)
Lemma create_file_sim (s : fsys) (sv : sview) (vi : nat) (par : nat) (name nm : str) (perm om : N) :
  v_os (sv_view sv) = Linux ->
  open_sim (let '(s1, c) := create_file s (sv_view sv) par name perm in (s1, inr (new_handle c vi nm 0 om)))
           (let '(s1, c) := alloc_child s par name
                              (NFile [] 1 (f_last_id s + 1)
                                 (kmeta (f_heap s) par (sv_view sv) 0 (N.land perm FILE_MODE_MASK) false)) true in
            (s1, inr c)).
Proof.
  intros Hos. rewrite create_file_alloc by exact Hos. split; reflexivity.
Qed.

(* O_CREAT without O_EXCL: a final symbolic link is followed; an existing object is opened as above; a missing
   one is created in its directory: write + search permission there (EACCES), owner, group, mode & ~umask *)
Theorem dstep_open_creat (s : fsys) (sv : sview) (w : list str) (cl : str) (flag perm : N) (vi : nat) :
  dac_hyps s sv -> path_ok s sv SlEval (w ++ [cl]) ->
  has flag O_CREATE = true -> has flag O_EXCL = false ->
  let p := abs_path (w ++ [cl]) in
  open_sim (open_file s (sv_view sv) vi p flag perm) (k_open s sv p flag perm).
Proof.
  intros H Hp Hcr Hex p. pose proof (dresolve s sv SlEval (w ++ [cl]) H Hp) as R. destruct Hp as (Hg & _ & Hnf).
  destruct (om_facts flag) as (M1 & M2 & M3 & M4 & M5 & M6 & M7). cbv zeta in *.
  rewrite Hcr in M3. rewrite Hcr, Hex in M4. cbn [andb] in M4.
  unfold p. unfold abs_path at 1. rewrite open_file_eq. fold (abs_path (w ++ [cl])). rewrite k_open_eq. cbv zeta.
  rewrite M4, M3, Hcr, Hex. cbv iota. cbn [negb].
  change (follow_of SlEval) with true in R. change (precise_of SlEval) with true in R.
  pose proof (dresolve_nosym s sv SlEval (w ++ [cl])) as Hns.
  pose proof (klookup_final s sv true (w ++ [cl]) Hg) as Hfin.
  destruct (klookup_pm_err s sv false true w cl Hg) as [(e & P1 & P2)|(par0 & P1)]; rewrite P1.
  - rewrite P2 in R. cbn [walk_rel] in R. apply (open_walk_err s sv vi (w ++ [cl]) flag perm SlEval e); assumption.
  - cbv iota.
    destruct (klookup s sv false true (abs_path (w ++ [cl]))) as [par kind name n|par name md| |e] eqn:HK; cbn [walk_rel] in R.
    + destruct R as (R1 & R2 & R3 & _ & R4 & _). rewrite R1, R2, (R4 eq_refl). cbn [is_file_exists is_not_exist negb andb orb].
      rewrite <- Hcr at 1. apply oe_sim; [exact R3|exact (Hns n H eq_refl R1 R2)|rewrite Hex; apply andb_false_r].
    + destruct R as (R1 & R2 & R3 & R4). destruct (at_name_views _ _ _ _ _ _ (R4 eq_refl)) as (V1 & V2 & _).
      destruct Hfin as (F1 & _).
      rewrite R1, V2, R3, V1, F1. cbn [is_file_exists is_not_exist negb andb orb].
      rewrite perm_on_write_lookup. destruct (kperm (f_heap s) par 3 (v_user (sv_view sv))); cbn [negb]; [|split; reflexivity].
      apply create_file_sim; exact (dh_os _ _ H).
    + destruct R.
    + apply (open_walk_err s sv vi (w ++ [cl]) flag perm SlEval e); assumption.
Qed.

(* O_CREAT|O_EXCL: the final component is not followed; anything there is EEXIST.  MemFS tests the access
   permission of an existing regular file first (EACCES before EEXIST: listed as errno priority) *)
Definition excl_existing_accessible (s : fsys) (sv : sview) (cs : list str) (flag : N) : Prop :=
  forall par kind name n d k i m, klookup s sv false false (abs_path cs) = WNode par kind name n ->
    get (f_heap s) n = Some (NFile d k i m) ->
    kperm (f_heap s) n (acc_mask (N.land flag 3) (has flag O_TRUNC)) (v_user (sv_view sv)) = true.

Theorem dstep_open_excl (s : fsys) (sv : sview) (w : list str) (cl : str) (flag perm : N) (vi : nat) :
  dac_hyps s sv -> path_ok s sv SlLstat (w ++ [cl]) ->
  has flag O_CREATE = true -> has flag O_EXCL = true ->
  excl_existing_accessible s sv (w ++ [cl]) flag ->
  let p := abs_path (w ++ [cl]) in
  open_sim (open_file s (sv_view sv) vi p flag perm) (k_open s sv p flag perm).
Proof.
  intros H Hp Hcr Hex Hea p. pose proof (dresolve s sv SlLstat (w ++ [cl]) H Hp) as R.
  destruct Hp as (Hg & Hk1 & Hnf).
  destruct (om_facts flag) as (M1 & M2 & M3 & M4 & M5 & M6 & M7). cbv zeta in *.
  rewrite Hcr in M3. rewrite Hcr, Hex in M4. cbn [andb] in M4.
  change (follow_of SlLstat) with false in R, Hk1. change (precise_of SlLstat) with true in R.
  destruct (klookup_pm s sv false w cl Hg Hk1) as (Hkn & Hkg & Hpm).
  unfold p. unfold abs_path at 1. rewrite open_file_eq. fold (abs_path (w ++ [cl])). rewrite k_open_eq. cbv zeta.
  rewrite M4, M3, Hcr, Hex, Hpm. cbv iota. cbn [negb].
  pose proof (klookup_final s sv false (w ++ [cl]) Hg) as Hfin.
  destruct (klookup s sv false false (abs_path (w ++ [cl]))) as [par kind name n|par name md| |e] eqn:HK; cbn [walk_rel] in R.
  - destruct R as (R1 & R2 & R3 & _ & R4 & _). rewrite R1, R2, (R4 eq_refl). cbn [is_file_exists is_not_exist negb andb orb].
    unfold oe_impl. cbv zeta. rewrite M4, M5.
    destruct (get (f_heap s) n) as [[ch m|d k i m|t m]|] eqn:Hgn; [split; reflexivity| |split; reflexivity|congruence].
    rewrite (check_permission_node _ _ _ _ _ Hgn). pose proof (Hea _ _ _ _ _ _ _ _ HK Hgn) as Hk.
    destruct (has flag O_TRUNC); [rewrite M2|rewrite M1]; rewrite Hk; split; reflexivity.
  - pose proof (Hkg _ _ _ eq_refl) as ->. destruct Hfin as (F1 & _).
    destruct R as (R1 & R2 & R3 & R4). destruct (at_name_views _ _ _ _ _ _ (R4 eq_refl)) as (V1 & V2 & _).
    rewrite R1, V2, R3, V1, F1. cbn [is_file_exists is_not_exist negb andb orb].
    rewrite perm_on_write_lookup. destruct (kperm (f_heap s) par 3 (v_user (sv_view sv))); cbn [negb]; [|split; reflexivity].
    apply create_file_sim; exact (dh_os _ _ H).
  - destruct R.
  - apply (open_walk_err s sv vi (w ++ [cl]) flag perm SlLstat e); assumption.
Qed.

(* ---- Rename of a file or symbolic link to a name that does not exist (same or another directory) ----------------- *)
(* write and search permission on both directories; the sticky rule is a listed deviation *)
Lemma aremove_aset_comm (V : Type) (a b : str) (x : V) (m : list (str * V)) :
  a <> b -> aremove str_eqb a (aset str_eqb b x m) = aset str_eqb b x (aremove str_eqb a m).
Proof.
  intros Hne. induction m as [|[k v] m IH]; cbn [aset aremove].
  - destruct (str_eqb_spec a b); [contradiction|reflexivity].
  - destruct (str_eqb_spec b k) as [<-|Hbk].
    + cbn [aremove]. destruct (str_eqb_spec a b); [contradiction|]. cbn [aset]. rewrite str_eqb_refl. reflexivity.
    + cbn [aremove]. destruct (str_eqb_spec a k) as [<-|Hak].
      * exact IH.
      * cbn [aset]. destruct (str_eqb_spec b k); [contradiction|]. rewrite IH. reflexivity.
Qed.

Lemma upd_upd (h : heap) (i : nat) (x y : node) : upd (upd h i x) i y = upd h i y.
Proof. revert i. induction h as [|z h IH]; intros [|i]; cbn [upd]; try reflexivity. rewrite IH. reflexivity. Qed.

Lemma upd_comm (h : heap) (i j : nat) (x y : node) : i <> j -> upd (upd h i x) j y = upd (upd h j y) i x.
Proof.
  revert i j. induction h as [|z h IH]; intros [|i] [|j] Hne; cbn [upd]; try reflexivity; [congruence|].
  rewrite IH by congruence. reflexivity.
Qed.

Lemma abs_path_inj (a b : list str) : Forall comp_ok a -> Forall comp_ok b -> abs_path a = abs_path b -> a = b.
Proof. intros Ha Hb E. apply (f_equal kcomps) in E. rewrite !kcomps_abs_path in E; assumption. Qed.

(* moving an entry to a name that is free: the two orders of the two directory updates give the same heap *)
Lemma move_comm (h : heap) (op np oc : nat) (on nn : str) :
  node_is_dir h op = true -> node_is_dir h np = true -> (op = np -> on <> nn) ->
  remove_child (add_child h np nn oc) op on = add_child (remove_child h op on) np nn oc.
Proof.
  intros Ho Hn Hne. destruct (node_is_dir_get _ _ Ho) as (cho & mo & Hgo). destruct (node_is_dir_get _ _ Hn) as (chn & mn & Hgn).
  destruct (Nat.eq_dec op np) as [->|Hd].
  - assert (cho = chn /\ mo = mn) as (-> & ->) by (split; congruence).
    unfold add_child, remove_child. rewrite Hgn.
    rewrite !wget_upd_same by (exact (wget_lt _ _ _ Hgn)). rewrite !upd_upd.
    rewrite (aremove_aset_comm nat on nn oc chn (Hne eq_refl)). reflexivity.
  - unfold add_child, remove_child. rewrite Hgn, Hgo.
    rewrite (wget_upd_other _ _ _ _ (not_eq_sym Hd)), Hgo. rewrite (wget_upd_other _ _ _ _ Hd), Hgn.
    apply upd_comm. congruence.
Qed.

Definition source_not_dir (s : fsys) (sv : sview) (cs : list str) : Prop :=
  forall par kind name n, klookup s sv false false (abs_path cs) = WNode par kind name n -> node_is_dir (f_heap s) n = false.
Definition dest_absent (s : fsys) (sv : sview) (cs : list str) : Prop :=
  forall par kind name n, klookup s sv false false (abs_path cs) <> WNode par kind name n.
(* source missing AND destination path refused: the two sides report different errors (errno priority, listed) *)
Definition rename_one_error (s : fsys) (sv : sview) (co cn : list str) : Prop :=
  forall par name md e, klookup s sv false false (abs_path co) = WNeg par name md ->
                        klookup s sv false false (abs_path cn) <> WErr e.

(* Rename's tests that precede the permission checks, for a source that is not a directory *)
Lemma early_nondir (h : heap) (oc : nat) (X : option res) : node_is_dir h oc = false ->
  match get h oc with Some (NDir _ _) => X | Some _ => None | None => None end = None.
Proof. unfold node_is_dir. destruct (get h oc) as [[| |]|]; [discriminate|reflexivity..]. Qed.

Lemma early_same (h : heap) (oc : nat) (X : option res) : node_is_dir h oc = false -> get h oc <> None ->
  match get h oc with Some (NDir _ _) => X | Some _ => Some ROk | None => None end = Some ROk.
Proof. unfold node_is_dir. destruct (get h oc) as [[| |]|]; [discriminate|reflexivity..|congruence]. Qed.

Theorem dstep_rename_file_new (s : fsys) (sv : sview) (wo : list str) (clo : str) (w : list str) (cl : str) :
  dac_hyps s sv -> path_ok s sv SlLstat (wo ++ [clo]) -> path_ok s sv SlLstat (w ++ [cl]) ->
  source_not_dir s sv (wo ++ [clo]) -> dest_absent s sv (w ++ [cl]) -> rename_one_error s sv (wo ++ [clo]) (w ++ [cl]) ->
  let o := abs_path (wo ++ [clo]) in
  let p := abs_path (w ++ [cl]) in
  (fst (rename s (sv_view sv) o p), proj_res Linux (snd (rename s (sv_view sv) o p))) = go_rename s sv o p.
Proof.
  intros H Hpo Hp Hnd Hab Hone o p.
  pose proof (dresolve s sv SlLstat (wo ++ [clo]) H Hpo) as Ro. pose proof (dresolve s sv SlLstat (w ++ [cl]) H Hp) as R.
  destruct Hpo as (Hgo & Hko1 & Hnfo). destruct Hp as (Hg & Hk1 & Hnf).
  change (follow_of SlLstat) with false in Ro, R, Hk1, Hko1. change (precise_of SlLstat) with true in Ro, R.
  destruct (klookup_pm s sv false wo clo Hgo Hko1) as (Hokn & Hokg & Hopm).
  destruct (klookup_pm s sv false w cl Hg Hk1) as (Hkn & Hkg & Hpm).
  pose proof (klookup_final s sv false (wo ++ [clo]) Hgo) as Hofin.
  pose proof (klookup_final s sv false (w ++ [cl]) Hg) as Hfin.
  unfold o, p, rename, go_rename, k_stat, k_rename, win. rewrite (dh_os _ _ H). cbn [ostype_eqb]. rewrite Hopm, Hpm.
  set (ro := search_node s (sv_view sv) (abs_path (wo ++ [clo])) SlLstat) in *.
  set (rn := search_node s (sv_view sv) (abs_path (w ++ [cl])) SlLstat) in *.
  unfold source_not_dir in Hnd. unfold dest_absent in Hab. unfold rename_one_error in Hone.
  destruct (klookup s sv false false (abs_path (w ++ [cl]))) as [par kind name n|par name md| |e] eqn:HK; cbn [walk_rel] in R;
    [exfalso; exact (Hab _ _ _ _ eq_refl)| |destruct R|].
  - (* the destination's directory is found, the destination does not exist *)
    pose proof (Hkg _ _ _ eq_refl) as ->. destruct Hfin as (F1 & F2 & F3). destruct R as (R1 & R2 & R3 & R4).
    destruct (at_name_views _ _ _ _ _ _ (R4 eq_refl)) as (V1 & V2 & dn & V3 & V4 & V5).
    destruct (klookup s sv false false (abs_path (wo ++ [clo]))) as [op okind oname oc|op oname omd| |e] eqn:HKo; cbn [walk_rel] in Ro.
    + destruct (Hokn _ _ _ _ eq_refl) as (-> & ->). destruct Hofin as (G1 & G2 & G3).
      destruct Ro as (O1 & O2 & O3 & _ & _ & O4). destruct (O4 eq_refl) as (O5 & O6).
      destruct (at_name_views _ _ _ _ _ _ (O6 eq_refl)) as (W1 & W2 & do & W3 & W4 & W5).
      specialize (Hnd _ _ _ _ eq_refl).
      assert (Hocp : Nat.eqb oc op = false) by (apply Nat.eqb_neq; intros ->; congruence).
      assert (Hsame : str_eqb (pi_path (sr_pi ro)) (pi_path (sr_pi rn)) = false).
      { apply str_eqb_neq. rewrite W3, V3. intros E. apply abs_path_inj in E; [|apply Forall_comp_ok_of; assumption..].
        apply app_inj_tail in E as (-> & ->). rewrite W4 in V4. injection V4 as ->. congruence. }
      rewrite O1, R1, V2, O5, O2, R3, R2, V1, W1, Hsame, Hocp. cbn [is_file_exists is_not_exist negb andb orb].
      cbv iota. rewrite (early_nondir _ _ _ Hnd). cbv iota.
      rewrite (perm_on_write_searchable _ _ _ G3), (perm_on_write_searchable _ _ _ F3).
      rewrite G1, F1, Hnd. unfold may_delete. rewrite Hnd. cbn [negb andb orb].
      destruct (kperm (f_heap s) op 3 (v_user (sv_view sv))) eqn:Hpo; cbn [negb]; [|reflexivity].
      destruct (sticky_refuses (f_heap s) op oc (v_user (sv_view sv))); [reflexivity|].
      destruct (Nat.eqb_spec par op) as [->|Hne]; cbn [negb andb].
      * rewrite Hpo. cbn [negb].
        destruct (get (f_heap s) oc) as [[ch m|dt k i m|t m]|] eqn:Hgoc; [unfold node_is_dir in Hnd; rewrite Hgoc in Hnd; discriminate| | |congruence];
          cbn [negb andb fst snd proj_res]; rewrite (move_comm _ _ _ _ _ _ G2 F2) by (intros _ ->; congruence); reflexivity.
      * destruct (kperm (f_heap s) par 3 (v_user (sv_view sv))); cbn [negb]; [|reflexivity].
        destruct (get (f_heap s) oc) as [[ch m|dt k i m|t m]|] eqn:Hgoc; [unfold node_is_dir in Hnd; rewrite Hgoc in Hnd; discriminate| | |congruence];
          cbn [negb andb fst snd proj_res]; rewrite (move_comm _ _ _ _ _ _ G2 F2) by (intros E; congruence); reflexivity.
    + destruct Ro as (O1 & _). pose proof (Hokg _ _ _ eq_refl) as ->. destruct Hofin as (G1 & _).
      rewrite O1, G1. reflexivity.
    + destruct Ro.
    + destruct Ro as (O1 & _). destruct (werr_cases _ _ O1 Hnfo) as (Hc & ->).
      destruct Hc as [Hc|[Hc|[Hc|Hc]]]; rewrite Hc; reflexivity.
  - (* the walk to the destination is refused *)
    destruct R as (R1 & R2). destruct (werr_cases _ _ R1 Hnf) as (Hc & ->).
    destruct (klookup s sv false false (abs_path (wo ++ [clo]))) as [op okind oname oc|op oname omd| |eo] eqn:HKo; cbn [walk_rel] in Ro.
    + destruct Ro as (O1 & _). rewrite O1. cbn [is_file_exists negb].
      destruct Hc as [Hc|[Hc|[Hc|Hc]]]; rewrite Hc in *; try reflexivity.
      rewrite (R2 eq_refl eq_refl). reflexivity.
    + exfalso. exact (Hone _ _ _ _ eq_refl eq_refl).
    + destruct Ro.
    + destruct Ro as (O1 & _). destruct (werr_cases _ _ O1 Hnfo) as (Hco & ->).
      destruct Hco as [Hco|[Hco|[Hco|Hco]]]; rewrite Hco; reflexivity.
Qed.

(* ---- Rename of a DIRECTORY to a name that does not exist ---------------------------------------------------------- *)
Definition source_is_dir (s : fsys) (sv : sview) (cs : list str) : Prop :=
  forall par kind name n, klookup s sv false false (abs_path cs) = WNode par kind name n -> node_is_dir (f_heap s) n = true.

(* the two own-subtree tests agree (the implementation compares path strings, the kernel walks up from the destination
   directory); [into_itself_agree_inv] below derives it on the states of C05 when the moved directory is searchable *)
Definition into_itself_agree (s : fsys) (sv : sview) (co cn : list str) : Prop :=
  forall opar okind oname oc npar nname md,
    klookup s sv false false (abs_path co) = WNode opar okind oname oc ->
    klookup s sv false false (abs_path cn) = WNeg npar nname md ->
    is_prefix (pi_path (sr_pi (search_node s (sv_view sv) (abs_path co) SlLstat)) ++ [SLASH])
              (pi_path (sr_pi (search_node s (sv_view sv) (abs_path cn) SlLstat)))
    = is_ancestor (S (length (f_heap s))) (f_heap s) (v_root (sv_view sv)) oc npar.

(* moving a directory to another directory needs write permission on it (EACCES), on both sides *)
Theorem dstep_rename_dir_new (s : fsys) (sv : sview) (wo : list str) (clo : str) (w : list str) (cl : str) :
  dac_hyps s sv -> path_ok s sv SlLstat (wo ++ [clo]) -> path_ok s sv SlLstat (w ++ [cl]) ->
  source_is_dir s sv (wo ++ [clo]) -> dest_absent s sv (w ++ [cl]) -> rename_one_error s sv (wo ++ [clo]) (w ++ [cl]) ->
  into_itself_agree s sv (wo ++ [clo]) (w ++ [cl]) ->
  let o := abs_path (wo ++ [clo]) in
  let p := abs_path (w ++ [cl]) in
  (fst (rename s (sv_view sv) o p), proj_res Linux (snd (rename s (sv_view sv) o p))) = go_rename s sv o p.
Proof.
  intros H Hpo Hp Hnd Hab Hone Hni o p.
  pose proof (dresolve s sv SlLstat (wo ++ [clo]) H Hpo) as Ro. pose proof (dresolve s sv SlLstat (w ++ [cl]) H Hp) as R.
  destruct Hpo as (Hgo & Hko1 & Hnfo). destruct Hp as (Hg & Hk1 & Hnf).
  change (follow_of SlLstat) with false in Ro, R, Hk1, Hko1. change (precise_of SlLstat) with true in Ro, R.
  destruct (klookup_pm s sv false wo clo Hgo Hko1) as (Hokn & Hokg & Hopm).
  destruct (klookup_pm s sv false w cl Hg Hk1) as (Hkn & Hkg & Hpm).
  pose proof (klookup_final s sv false (wo ++ [clo]) Hgo) as Hofin.
  pose proof (klookup_final s sv false (w ++ [cl]) Hg) as Hfin.
  unfold o, p, rename, go_rename, k_stat, k_rename, win. rewrite (dh_os _ _ H). cbn [ostype_eqb]. rewrite Hopm, Hpm.
  set (ro := search_node s (sv_view sv) (abs_path (wo ++ [clo])) SlLstat) in *.
  set (rn := search_node s (sv_view sv) (abs_path (w ++ [cl])) SlLstat) in *.
  unfold source_is_dir in Hnd. unfold dest_absent in Hab. unfold rename_one_error in Hone.
  unfold into_itself_agree in Hni.
  destruct (klookup s sv false false (abs_path (w ++ [cl]))) as [par kind name n|par name md| |e] eqn:HK; cbn [walk_rel] in R;
    [exfalso; exact (Hab _ _ _ _ eq_refl)| |destruct R|].
  - pose proof (Hkg _ _ _ eq_refl) as ->. destruct Hfin as (F1 & F2 & F3). destruct R as (R1 & R2 & R3 & R4).
    destruct (at_name_views _ _ _ _ _ _ (R4 eq_refl)) as (V1 & V2 & dn & V3 & V4 & V5).
    destruct (klookup s sv false false (abs_path (wo ++ [clo]))) as [op okind oname oc|op oname omd| |e] eqn:HKo; cbn [walk_rel] in Ro.
    + destruct (Hokn _ _ _ _ eq_refl) as (-> & ->). destruct Hofin as (G1 & G2 & G3).
      destruct Ro as (O1 & O2 & O3 & _ & _ & O4). destruct (O4 eq_refl) as (O5 & O6).
      destruct (at_name_views _ _ _ _ _ _ (O6 eq_refl)) as (W1 & W2 & do & W3 & W4 & W5).
      specialize (Hnd _ _ _ _ eq_refl).
      pose proof (Hni _ _ _ _ _ _ _ eq_refl eq_refl) as N2.
      assert (Hne : oc <> op).
      { intros ->. apply (ww_acyclic _ (dh_wf _ _ H) op). exists op, clo. split; [constructor|]. apply alookup_in. exact G1. }
      destruct (node_is_dir_get _ _ Hnd) as (cho & mo & Hgoc).
      fold ro rn in N2. change (sepc Linux) with SLASH.
      rewrite O1, R1, V2, O5, O2, R3, R2, V1, W1, N2. cbn [is_file_exists is_not_exist negb andb orb].
      rewrite G1, F1, Hnd, Hgoc. cbn [negb andb orb].
      (* into itself: EINVAL on both sides, before any permission test *)
      destruct (is_ancestor (S (length (f_heap s))) (f_heap s) (v_root (sv_view sv)) oc par) eqn:N1;
        [rewrite !orb_true_r; reflexivity|].
      rewrite (perm_on_write_searchable _ _ _ G3), (perm_on_write_searchable _ _ _ F3).
      unfold may_delete. rewrite Hnd. cbn [negb andb orb].
      assert (Hnep : Nat.eqb oc par = false).
      { destruct (Nat.eqb_spec oc par) as [<-|]; [|reflexivity]. cbn [is_ancestor] in N1. rewrite Nat.eqb_refl in N1. discriminate N1. }
      replace (Nat.eqb oc op) with false by (symmetry; apply Nat.eqb_neq; exact Hne). rewrite Hnep. cbn [orb negb andb].
      destruct (kperm (f_heap s) op 3 (v_user (sv_view sv))) eqn:Hpo; cbn [negb]; [|reflexivity].
      destruct (sticky_refuses (f_heap s) op oc (v_user (sv_view sv))); [reflexivity|].
      destruct (Nat.eqb_spec par op) as [->|Hnp]; cbn [negb andb].
      * rewrite Hpo, Nat.eqb_refl. cbn [negb andb fst snd proj_res].
        rewrite (move_comm _ _ _ _ _ _ G2 F2) by (intros _ ->; congruence). reflexivity.
      * destruct (kperm (f_heap s) par 3 (v_user (sv_view sv))); cbn [negb]; [|reflexivity].
        rewrite (check_permission_node _ _ _ OpenWrite _ Hgoc). change (N.land OpenWrite 7) with 2%N.
        replace (Nat.eqb op par) with false by (symmetry; apply Nat.eqb_neq; congruence).
        assert (Hk : negb (us_admin (v_user (sv_view sv))) && negb (kperm (f_heap s) oc 2 (v_user (sv_view sv)))
                     = negb (kperm (f_heap s) oc 2 (v_user (sv_view sv)))).
        { unfold kperm. rewrite Hgoc. destruct (us_admin (v_user (sv_view sv))); reflexivity. }
        cbn [negb andb]. rewrite Hk.
        destruct (kperm (f_heap s) oc 2 (v_user (sv_view sv))); cbn [negb andb fst snd proj_res]; [|reflexivity].
        rewrite (move_comm _ _ _ _ _ _ G2 F2) by (intros E; congruence). reflexivity.
    + destruct Ro as (O1 & _). pose proof (Hokg _ _ _ eq_refl) as ->. destruct Hofin as (G1 & _).
      rewrite O1, G1. reflexivity.
    + destruct Ro.
    + destruct Ro as (O1 & _). destruct (werr_cases _ _ O1 Hnfo) as (Hc & ->).
      destruct Hc as [Hc|[Hc|[Hc|Hc]]]; rewrite Hc; reflexivity.
  - destruct R as (R1 & R2). destruct (werr_cases _ _ R1 Hnf) as (Hc & ->).
    destruct (klookup s sv false false (abs_path (wo ++ [clo]))) as [op okind oname oc|op oname omd| |eo] eqn:HKo; cbn [walk_rel] in Ro.
    + destruct Ro as (O1 & _). rewrite O1. cbn [is_file_exists negb].
      destruct Hc as [Hc|[Hc|[Hc|Hc]]]; rewrite Hc in *; try reflexivity.
      rewrite (R2 eq_refl eq_refl). reflexivity.
    + exfalso. exact (Hone _ _ _ _ eq_refl eq_refl).
    + destruct Ro.
    + destruct Ro as (O1 & _). destruct (werr_cases _ _ O1 Hnfo) as (Hco & ->).
      destruct Hco as [Hco|[Hco|[Hco|Hco]]]; rewrite Hco; reflexivity.
Qed.

(* ---- Rename of a file or link ONTO an existing file or link: the decision (result only) --------------------------- *)
(* something that is not a directory is nobody's ancestor *)
Lemma is_ancestor_nondir (h : heap) (root a : nat) : node_is_dir h a = false -> forall f d,
  a <> d -> is_ancestor f h root a d = false.
Proof.
  intros Ha. induction f as [|f IH]; intros d Hne; [reflexivity|]. cbn [is_ancestor].
  replace (Nat.eqb a d) with false by (symmetry; apply Nat.eqb_neq; exact Hne).
  destruct (Nat.eqb d root) eqn:Hdr; [reflexivity|]. unfold parent_of. rewrite Hdr.
  destruct (find_parent h 0 d) as [p|] eqn:Hf; [|rewrite Nat.eqb_refl; reflexivity].
  destruct (Nat.eqb p d); [reflexivity|]. apply IH. intros ->.
  apply find_parent_some in Hf as (_ & ch & m & n & Hn & _). rewrite Nat.sub_0_r in Hn.
  unfold node_is_dir, get in Ha. rewrite Hn in Ha. discriminate Ha.
Qed.

Definition dest_nondir (s : fsys) (sv : sview) (cs : list str) : Prop :=
  forall par kind name n, klookup s sv false false (abs_path cs) = WNode par kind name n ->
    node_is_dir (f_heap s) n = false /\ has (m_mode (meta_of (f_heap s) n)) MODE_DIR = false.
Definition dest_present (s : fsys) (sv : sview) (cs : list str) : Prop :=
  exists par kind name n, klookup s sv false false (abs_path cs) = WNode par kind name n.
Theorem dstep_rename_replace_result (s : fsys) (sv : sview) (wo : list str) (clo : str) (w : list str) (cl : str) :
  dac_hyps s sv -> path_ok s sv SlLstat (wo ++ [clo]) -> path_ok s sv SlLstat (w ++ [cl]) ->
  source_not_dir s sv (wo ++ [clo]) -> dest_present s sv (w ++ [cl]) -> dest_nondir s sv (w ++ [cl]) ->
  let o := abs_path (wo ++ [clo]) in
  let p := abs_path (w ++ [cl]) in
  proj_res Linux (snd (rename s (sv_view sv) o p)) = snd (go_rename s sv o p).
Proof.
  intros H Hpo Hp Hnd (npar & nkind & nname & nc & HK) Hdn o p.
  pose proof (dresolve s sv SlLstat (wo ++ [clo]) H Hpo) as Ro. pose proof (dresolve s sv SlLstat (w ++ [cl]) H Hp) as R.
  destruct Hpo as (Hgo & Hko1 & Hnfo). destruct Hp as (Hg & Hk1 & Hnf).
  change (follow_of SlLstat) with false in Ro, R, Hk1, Hko1. change (precise_of SlLstat) with true in Ro, R.
  destruct (klookup_pm s sv false wo clo Hgo Hko1) as (Hokn & Hokg & Hopm).
  destruct (klookup_pm s sv false w cl Hg Hk1) as (Hkn & Hkg & Hpm).
  pose proof (klookup_final s sv false (wo ++ [clo]) Hgo) as Hofin.
  pose proof (klookup_final s sv false (w ++ [cl]) Hg) as Hfin.
  unfold o, p, rename, go_rename, k_stat, k_rename, win. rewrite (dh_os _ _ H). cbn [ostype_eqb]. rewrite Hopm, Hpm.
  set (ro := search_node s (sv_view sv) (abs_path (wo ++ [clo])) SlLstat) in *.
  set (rn := search_node s (sv_view sv) (abs_path (w ++ [cl])) SlLstat) in *.
  unfold source_not_dir in Hnd. unfold dest_nondir in Hdn.
  rewrite HK in *. cbn [walk_rel] in R.
  destruct (Hkn _ _ _ _ eq_refl) as (-> & ->). destruct Hfin as (F1 & F2 & F3).
  destruct R as (R1 & R2 & R3 & _ & _ & R4). destruct (R4 eq_refl) as (R5 & R6).
  destruct (at_name_views _ _ _ _ _ _ (R6 eq_refl)) as (V1 & V2 & dn & V3 & V4 & V5).
  destruct (Hdn _ _ _ _ eq_refl) as (Hncd & Hncm).
  assert (Hpre : forall nm, has (fi_mode (k_info (f_heap s) nc nm)) MODE_DIR = false).
  { intros nm. unfold k_info, meta_of in *. destruct (get (f_heap s) nc) as [[? ?|? ? ? ?|? ?]|]; exact Hncm. }
  rewrite Hpre.
  destruct (klookup s sv false false (abs_path (wo ++ [clo]))) as [op okind oname oc|op oname omd| |e] eqn:HKo; cbn [walk_rel] in Ro.
  - destruct (Hokn _ _ _ _ eq_refl) as (-> & ->). destruct Hofin as (G1 & G2 & G3).
    destruct Ro as (O1 & O2 & O3 & _ & _ & O4). destruct (O4 eq_refl) as (O5 & O6).
    destruct (at_name_views _ _ _ _ _ _ (O6 eq_refl)) as (W1 & W2 & do & W3 & W4 & W5).
    specialize (Hnd _ _ _ _ eq_refl).
    assert (Hocp : Nat.eqb oc op = false) by (apply Nat.eqb_neq; intros ->; congruence).
    assert (Hsame : Nat.eqb nc oc = false -> str_eqb (pi_path (sr_pi ro)) (pi_path (sr_pi rn)) = false).
    { intros Hd. apply Nat.eqb_neq in Hd. apply str_eqb_neq. rewrite W3, V3. intros E.
      apply abs_path_inj in E; [|apply Forall_comp_ok_of; assumption..].
      apply app_inj_tail in E as (-> & ->). rewrite W4 in V4. injection V4 as ->. congruence. }
    rewrite O1, R1, O5, O2, R5, R2, Hocp. cbn [is_file_exists is_not_exist negb andb orb].
    rewrite G1, F1, Hnd. cbn [negb andb orb].
    rewrite (is_ancestor_nondir _ _ _ Hncd) by (intros ->; rewrite G2 in Hncd; discriminate Hncd).
    (* the same object under two names: both sides answer success before any permission check *)
    destruct (Nat.eqb nc oc) eqn:Hncoc.
    { rewrite orb_true_r. cbv iota. rewrite (early_same _ _ _ Hnd O3). reflexivity. }
    rewrite (Hsame eq_refl). cbn [orb]. cbv iota. rewrite (early_nondir _ _ _ Hnd). cbv iota.
    rewrite (perm_on_write_searchable _ _ _ G3), (perm_on_write_searchable _ _ _ F3).
    unfold may_delete. rewrite Hnd, Hncd.
    assert (Hne : dir_nonempty (f_heap s) nc = false).
    { unfold dir_nonempty, node_is_dir in *. destruct (get (f_heap s) nc) as [[? ?|? ? ? ?|? ?]|]; try reflexivity. discriminate Hncd. }
    rewrite Hne.
    destruct (kperm (f_heap s) op 3 (v_user (sv_view sv))) eqn:Hpo; cbn [negb]; [|reflexivity].
    destruct (sticky_refuses (f_heap s) op oc (v_user (sv_view sv))); [reflexivity|].
    destruct (Nat.eqb_spec npar op) as [->|Hnp]; cbn [negb andb].
    + rewrite Hpo. cbn [negb].
      unfold node_is_dir in Hnd, Hncd.
      destruct (sticky_refuses (f_heap s) op nc (v_user (sv_view sv)));
        destruct (get (f_heap s) oc) as [[? ?|? ? ? ?|? ?]|]; try discriminate Hnd; try congruence;
        destruct (get (f_heap s) nc) as [[? ?|? ? ? ?|? ?]|]; try discriminate Hncd; try congruence; reflexivity.
    + destruct (kperm (f_heap s) npar 3 (v_user (sv_view sv))); cbn [negb]; [|reflexivity].
      unfold node_is_dir in Hnd, Hncd.
      destruct (sticky_refuses (f_heap s) npar nc (v_user (sv_view sv)));
        destruct (get (f_heap s) oc) as [[? ?|? ? ? ?|? ?]|]; try discriminate Hnd; try congruence;
        destruct (get (f_heap s) nc) as [[? ?|? ? ? ?|? ?]|]; try discriminate Hncd; try congruence; reflexivity.
  - destruct Ro as (O1 & _). pose proof (Hokg _ _ _ eq_refl) as ->. destruct Hofin as (G1 & _).
    rewrite O1, G1. reflexivity.
  - destruct Ro.
  - destruct Ro as (O1 & _). destruct (werr_cases _ _ O1 Hnfo) as (Hc & ->).
    destruct Hc as [Hc|[Hc|[Hc|Hc]]]; rewrite Hc; reflexivity.
Qed.

(* ---- Chown / Lchown, any user --------------------------------------------------------------------------------------- *)
(* on a file system with an identity manager ([v_idm]) MemFS applies the rules of chown(2) once the path is resolved:
   the administrator may do anything; the owner may change the group to its own (or leave it), not the owner; anybody
   may pass (-1,-1); everything else is EPERM ([chown_ok], shared with Posix.v); the set-id bits of a non-directory are
   cleared ([chown_meta]) *)
Theorem dstep_chown (slm : slmode) (s : fsys) (sv : sview) (cs : list str) (uid gid : Z) :
  dac_hyps s sv -> path_ok s sv slm cs -> v_idm (sv_view sv) = true ->
  (fst (chown_gen slm s (sv_view sv) (abs_path cs) uid gid),
   proj_res Linux (snd (chown_gen slm s (sv_view sv) (abs_path cs) uid gid)))
  = k_chown (follow_of slm) s sv (abs_path cs) uid gid.
Proof.
  intros H Hp Hi. pose proof (dresolve s sv slm cs H Hp) as R. destruct Hp as (_ & _ & Hnf).
  unfold chown_gen, k_chown, win in *. rewrite (dh_os _ _ H), Hi. cbn [ostype_eqb andb].
  destruct (klookup s sv false (follow_of slm) (abs_path cs)) as [par kind name n|par name md| |e]; cbn [walk_rel] in R.
  - destruct R as (R1 & R2 & R3 & _). rewrite R2, R1. cbn [is_file_exists negb].
    destruct (get (f_heap s) n) as [nd|] eqn:Hg; [|congruence].
    destruct (chown_ok (node_meta nd) (v_user (sv_view sv)) uid gid); cbn [negb]; [|reflexivity].
    destruct nd as [ch m|dt k i m|t m]; reflexivity.
  - destruct R as (R1 & R2 & _). rewrite R2, R1. reflexivity.
  - destruct R.
  - destruct R as (R1 & _). destruct (werr_cases _ _ R1 Hnf) as (Hc & ->).
    destruct (sr_child _); destruct Hc as [->|[->|[->| ->]]]; reflexivity.
Qed.

(* ---- the step theorem at the level of worlds, any user ----------------------------------------------------------- *)
Definition open_covered (s : fsys) (sv : sview) (p : str) (flag : N) : Prop :=
  ((has flag O_CREATE = false /\ exists cs, p = abs_path cs /\ path_ok s sv SlEval cs)
   \/ (has flag O_CREATE = true /\ has flag O_EXCL = false /\ exists w cl, p = abs_path (w ++ [cl])
         /\ path_ok s sv SlEval (w ++ [cl]))
   \/ (has flag O_CREATE = true /\ has flag O_EXCL = true /\ exists w cl, p = abs_path (w ++ [cl])
         /\ path_ok s sv SlLstat (w ++ [cl]) /\ excl_existing_accessible s sv (w ++ [cl]) flag)).

Definition dcovered (phl : bool) (vi : nat) (sw : sworld) (c : call) : Prop :=
  let s := sw_fs sw in
  let sv := sw_sv sw in
  dac_hyps s sv /\
  match c with
  | CStat vi' p => vi' = vi /\ exists cs, p = abs_path cs /\ path_ok s sv SlStat cs
  | CLstat vi' p => vi' = vi /\ exists cs, p = abs_path cs /\ path_ok s sv SlLstat cs
  | CReadlink vi' p => vi' = vi /\ exists cs, p = abs_path cs /\ path_ok s sv SlLstat cs
  | CChtimes vi' p => vi' = vi /\ exists cs, p = abs_path cs /\ path_ok s sv SlEval cs
  | CChmod vi' p mode => vi' = vi /\ exists cs, p = abs_path cs /\ path_ok s sv SlEval cs
  | CChown vi' p _ _ => vi' = vi /\ v_idm (sv_view sv) = true /\ exists cs, p = abs_path cs /\ path_ok s sv SlEval cs
  | CLchown vi' p _ _ => vi' = vi /\ v_idm (sv_view sv) = true /\ exists cs, p = abs_path cs /\ path_ok s sv SlLstat cs
  | CTruncate vi' p _ => vi' = vi /\ exists cs, p = abs_path cs /\ path_ok s sv SlEval cs
  | CMkdir vi' p _ =>
      vi' = vi /\ exists w cl, p = abs_path (w ++ [cl]) /\ path_ok s sv SlLstat (w ++ [cl])
  | CSymlink vi' t p =>
      vi' = vi /\ t = clean Linux t /\
      exists w cl, p = abs_path (w ++ [cl]) /\ path_ok s sv SlLstat (w ++ [cl])
  | CRemove vi' p =>
      vi' = vi /\ sym_single (f_heap s) /\ exists w cl, p = abs_path (w ++ [cl]) /\ path_ok s sv SlLstat (w ++ [cl])
  | CLink vi' o p =>
      vi' = vi /\ exists co w cl, o = abs_path co /\ p = abs_path (w ++ [cl]) /\ path_ok s sv SlLstat co
                                  /\ path_ok s sv SlLstat (w ++ [cl]) /\ not_symlink s sv co /\ link_permitted phl s sv co
  | CRename vi' o p =>
      vi' = vi /\ exists wo clo w cl, o = abs_path (wo ++ [clo]) /\ p = abs_path (w ++ [cl])
        /\ path_ok s sv SlLstat (wo ++ [clo]) /\ path_ok s sv SlLstat (w ++ [cl])
        /\ dest_absent s sv (w ++ [cl])
        /\ rename_one_error s sv (wo ++ [clo]) (w ++ [cl])
        /\ (source_not_dir s sv (wo ++ [clo])
            \/ (source_is_dir s sv (wo ++ [clo]) /\ into_itself_agree s sv (wo ++ [clo]) (w ++ [cl])))
  | COpenFile vi' p flag _ => vi' = vi /\ open_covered s sv p flag
  (* Getwd: the working-directory string is a directory walk to the parent of the working-directory node, then its name *)
  | CGetwd vi' => vi' = vi /\ Inv_heap (f_heap s) /\ exists bs, cwd_walk s sv bs /\ length bs < SEARCH_FUEL
  | _ => False
  end.

Lemma open_file_fail_kind (s : fsys) (v : view) (vi : nat) (name : str) (flag perm : N) (r : res) :
  snd (open_file s v vi name flag perm) = inl r -> forall h, r <> RHandle h.
Proof.
  unfold open_file. destruct name as [|x name]; [intros [= <-]; discriminate|]. cbv zeta.
  set (om := to_open_mode flag). set (rr := search_node s v (x :: name) _).
  assert (OE : forall c X, snd (match get (f_heap s) c with
      | Some (NFile d k i m) =>
          if negb (check_permission m (if has om OpenTruncate then N.lor om OpenWrite else om) (v_user v))
          then (s, inl (RFail EPermDenied))
          else if has om OpenCreateExcl then (s, inl (RFail EFileExists))
          else
            let d1 := if has om OpenTruncate then [] else d in
            let at_ := 0%Z in
            let m1 := if has om OpenTruncate then drop_privs (v_user v) m else m in
            (with_heap s (upd (f_heap s) c (NFile d1 k i m1)), inr (new_handle c vi (x :: name) at_ om))
      | Some (NDir _ m) =>
          if has om OpenCreateExcl then (s, inl (RFail EFileExists))
          else if has om OpenWrite || has om OpenCreate || has om OpenTruncate then (s, inl (RFail EIsADirectory))
          else if negb (check_permission m om (v_user v)) then (s, inl (RFail EPermDenied))
          else (s, inr (new_handle c vi (x :: name) 0 om))
      | _ => (s, inr (new_handle c vi (x :: name) 0 om))
      end) = inl X -> forall h, X <> RHandle h).
  { intros c X. destruct (get (f_heap s) c) as [[ch m|d k i m|t m]|]; try discriminate.
    - destruct (has om OpenCreateExcl); [intros [= <-]; discriminate|]. destruct (_ || _); [intros [= <-]; discriminate|].
      destruct (negb _); [intros [= <-]; discriminate|discriminate].
    - destruct (negb _); [intros [= <-]; discriminate|]. destruct (has om OpenCreateExcl); [intros [= <-]; discriminate|discriminate]. }
  destruct (negb (is_file_exists (sr_err rr)) && negb (is_not_exist (sr_err rr)) || negb (pi_is_last (sr_pi rr))); [intros [= <-]; discriminate|].
  match goal with |- context [if ?b then (s, inl (RFail (sr_err rr))) else _] => destruct b; [intros [= <-]; discriminate|] end.
  destruct (is_not_exist (sr_err rr)).
  - destruct (negb (has om OpenCreate)); [intros [= <-]; discriminate|].
    destruct (sr_parent rr) as [parent|]; [|intros [= <-]; discriminate].
    destruct (negb (perm_on _ _ _ _)); [intros [= <-]; discriminate|].
    destruct (alookup _ _ _) as [c|]; [apply OE|]. destruct (create_file _ _ _ _ _). discriminate.
  - destruct (sr_child rr) as [c|]; [apply OE|intros [= <-]; discriminate].
Qed.

Section DStepEqns.
  Variables (phl : bool) (w : world) (vi : nat) (sw : sworld).
  Hypothesis Ha : absw w vi sw.

  Lemma dworld_of_lift (c : call) (f : fsys * res) (g : fsys * pres) :
    impl_step_proj w c = (with_fs w (fst f), proj_res Linux (snd f)) ->
    spec_step phl sw c = ({| sw_fs := fst g; sw_sv := sw_sv sw |}, snd g) ->
    (fst f, proj_res Linux (snd f)) = g ->
    obs_sim (snd (impl_step_proj w c)) (snd (spec_step phl sw c))
    /\ absw (fst (impl_step_proj w c)) vi (fst (spec_step phl sw c)).
  Proof.
    intros Ei Es E. rewrite Ei, Es, <- E. cbn [fst snd]. split; [apply obs_sim_refl|]. exact (absw_with_fs w vi sw _ Ha).
  Qed.

  Lemma dworld_of_ro (c : call) (r : res) (g : pres) :
    impl_step_proj w c = (w, proj_res Linux r) -> spec_step phl sw c = (sw, g) -> obs_sim (proj_res Linux r) g ->
    obs_sim (snd (impl_step_proj w c)) (snd (spec_step phl sw c))
    /\ absw (fst (impl_step_proj w c)) vi (fst (spec_step phl sw c)).
  Proof. intros Ei Es E. rewrite Ei, Es. cbn [fst snd]. split; [exact E|exact Ha]. Qed.
End DStepEqns.

Theorem dstep_world (phl : bool) (w : world) (vi : nat) (sw : sworld) (c : call) :
  absw w vi sw -> dcovered phl vi sw c ->
  obs_sim (snd (impl_step_proj w c)) (snd (spec_step phl sw c))
  /\ absw (fst (impl_step_proj w c)) vi (fst (spec_step phl sw c)).
Proof.
  intros Ha (H & Hc). pose proof Ha as (Hfs & Hv).
  destruct c; try (destruct Hc; fail); cbn [dcovered] in Hc.
  - (* Mkdir *)
    destruct Hc as (-> & ww & cl & Ep & Hp).
    apply (dworld_of_lift phl w vi sw Ha _ (mkdir (w_fs w) (sv_view (sw_sv sw)) p perm) (k_mkdir (sw_fs sw) (sw_sv sw) p perm)).
    + apply (impl_lift w _ _ (wstep_mkdir w vi _ Hv p perm)); [left; discriminate|exact I].
    + reflexivity.
    + rewrite <- Hfs, Ep. exact (dstep_mkdir (sw_fs sw) (sw_sv sw) ww cl perm H Hp).
  - (* OpenFile *)
    destruct Hc as (-> & Hoc).
    assert (OS : open_sim (open_file (w_fs w) (sv_view (sw_sv sw)) vi p flag perm) (k_open (sw_fs sw) (sw_sv sw) p flag perm)).
    { rewrite <- Hfs. destruct Hoc as [(Hcr & cs & -> & Hp)|[(Hcr & Hex & ww & cl & -> & Hp)|(Hcr & Hex & ww & cl & -> & Hp & Hea)]].
      - apply dstep_open_nocreat; assumption.
      - apply dstep_open_creat; assumption.
      - apply dstep_open_excl; assumption. }
    pose proof (open_file_fail_kind (w_fs w) (sv_view (sw_sv sw)) vi p flag perm) as HK.
    unfold impl_step_proj. cbn [wstep spec_step]. unfold on_view. rewrite Hv.
    destruct (open_file (w_fs w) (sv_view (sw_sv sw)) vi p flag perm) as [s1 [r|f]];
      destruct (k_open (sw_fs sw) (sw_sv sw) p flag perm) as [s2 [e|c]]; destruct OS as (O1 & O2); cbn [fst snd] in *; try contradiction; subst s2.
    + split; [|split; [reflexivity|exact Hv]]. left. left. specialize (HK r eq_refl). destruct r; try exact O2. exfalso. exact (HK _ eq_refl).
    + split; [apply obs_sim_refl|split; [reflexivity|exact Hv]].
  - (* Remove *)
    destruct Hc as (-> & Hss & ww & cl & Ep & Hp).
    apply (dworld_of_lift phl w vi sw Ha _ (remove (w_fs w) (sv_view (sw_sv sw)) p) (go_remove (sw_fs sw) (sw_sv sw) p)).
    + apply (impl_lift w _ _ (wstep_remove w vi _ Hv p)); [left; discriminate|exact I].
    + reflexivity.
    + rewrite <- Hfs, Ep. exact (dstep_remove (sw_fs sw) (sw_sv sw) ww cl H Hp Hss).
  - (* Rename *)
    destruct Hc as (-> & wo & clo & ww & cl & Eo & Ep & Hpo & Hp & Hab & Hone & Hkind).
    apply (dworld_of_lift phl w vi sw Ha _ (rename (w_fs w) (sv_view (sw_sv sw)) o n) (go_rename (sw_fs sw) (sw_sv sw) o n)).
    + assert (E : wstep w (CRename vi o n) = lift w (rename (w_fs w) (sv_view (sw_sv sw)) o n))
        by (unfold wstep, on_view; rewrite Hv; reflexivity).
      apply (impl_lift w _ _ E); [left; discriminate|exact I].
    + reflexivity.
    + rewrite <- Hfs, Eo, Ep. destruct Hkind as [Hnd|(Hd & Hni)].
      * exact (dstep_rename_file_new (sw_fs sw) (sw_sv sw) wo clo ww cl H Hpo Hp Hnd Hab Hone).
      * exact (dstep_rename_dir_new (sw_fs sw) (sw_sv sw) wo clo ww cl H Hpo Hp Hd Hab Hone Hni).
  - (* Link *)
    destruct Hc as (-> & co & ww & cl & Eo & Ep & Hpo & Hp & Hns & Hph).
    apply (dworld_of_lift phl w vi sw Ha _ (link (w_fs w) (sv_view (sw_sv sw)) o n) (k_link phl (sw_fs sw) (sw_sv sw) o n)).
    + apply (impl_lift w _ _ (wstep_link w vi _ Hv o n)); [left; discriminate|exact I].
    + reflexivity.
    + rewrite <- Hfs, Eo, Ep. exact (dstep_link phl (sw_fs sw) (sw_sv sw) co ww cl H Hpo Hp Hns Hph).
  - (* Symlink *)
    destruct Hc as (-> & Ht & ww & cl & Ep & Hp).
    apply (dworld_of_lift phl w vi sw Ha _ (symlink (w_fs w) (sv_view (sw_sv sw)) o n) (k_symlink (sw_fs sw) (sw_sv sw) o n)).
    + apply (impl_lift w _ _ (wstep_symlink w vi _ Hv o n)); [left; discriminate|exact I].
    + reflexivity.
    + rewrite <- Hfs, Ep. rewrite Ht at 3. exact (dstep_symlink (sw_fs sw) (sw_sv sw) ww cl o H Hp).
  - (* Readlink *)
    destruct Hc as (-> & cs & Ep & Hp).
    apply (dworld_of_ro phl w vi sw Ha _ (readlink (w_fs w) (sv_view (sw_sv sw)) p) (k_readlink (sw_fs sw) (sw_sv sw) p)).
    + apply (impl_ro w _ _ (wstep_readlink w vi _ Hv p)). exact I.
    + reflexivity.
    + rewrite <- Hfs, Ep, (dstep_readlink (sw_fs sw) (sw_sv sw) cs H Hp). apply obs_sim_refl.
  - (* Truncate *)
    destruct Hc as (-> & cs & Ep & Hp).
    apply (dworld_of_lift phl w vi sw Ha _ (truncate (w_fs w) (sv_view (sw_sv sw)) p size) (k_truncate (sw_fs sw) (sw_sv sw) p size)).
    + apply (impl_lift w _ _ (wstep_truncate w vi _ Hv p size)); [left; discriminate|exact I].
    + reflexivity.
    + rewrite <- Hfs, Ep. exact (dstep_truncate (sw_fs sw) (sw_sv sw) cs size H Hp).
  - (* Chmod *)
    destruct Hc as (-> & cs & Ep & Hp).
    apply (dworld_of_lift phl w vi sw Ha _ (chmod (w_fs w) (sv_view (sw_sv sw)) p mode) (k_chmod (sw_fs sw) (sw_sv sw) p mode)).
    + apply (impl_lift w _ _ (wstep_chmod w vi _ Hv p mode)); [left; discriminate|exact I].
    + reflexivity.
    + rewrite <- Hfs, Ep. exact (dstep_chmod (sw_fs sw) (sw_sv sw) cs mode H Hp).
  - (* Chown *)
    destruct Hc as (-> & Hi & cs & Ep & Hp).
    apply (dworld_of_lift phl w vi sw Ha _ (chown_gen SlEval (w_fs w) (sv_view (sw_sv sw)) p uid gid)
             (k_chown true (sw_fs sw) (sw_sv sw) p uid gid)).
    + apply (impl_lift w _ _ (wstep_chown w vi _ Hv p uid gid)); [left; discriminate|exact I].
    + reflexivity.
    + rewrite <- Hfs, Ep. exact (dstep_chown SlEval (sw_fs sw) (sw_sv sw) cs uid gid H Hp Hi).
  - (* Lchown *)
    destruct Hc as (-> & Hi & cs & Ep & Hp).
    apply (dworld_of_lift phl w vi sw Ha _ (chown_gen SlLstat (w_fs w) (sv_view (sw_sv sw)) p uid gid)
             (k_chown false (sw_fs sw) (sw_sv sw) p uid gid)).
    + apply (impl_lift w _ _ (wstep_lchown w vi _ Hv p uid gid)); [left; discriminate|exact I].
    + reflexivity.
    + rewrite <- Hfs, Ep. exact (dstep_chown SlLstat (sw_fs sw) (sw_sv sw) cs uid gid H Hp Hi).
  - (* Chtimes *)
    destruct Hc as (-> & cs & Ep & Hp).
    apply (dworld_of_ro phl w vi sw Ha _ (chtimes (w_fs w) (sv_view (sw_sv sw)) p) (k_utimes (sw_fs sw) (sw_sv sw) p)).
    + apply (impl_ro w _ _ (wstep_chtimes w vi _ Hv p)). exact I.
    + reflexivity.
    + rewrite <- Hfs, Ep, (dstep_chtimes (sw_fs sw) (sw_sv sw) cs H Hp). apply obs_sim_refl.
  - (* Getwd *)
    destruct Hc as (-> & I0 & bs & Hcw & Hlen).
    apply (dworld_of_ro phl w vi sw Ha _ (getwd (w_fs w) (sv_view (sw_sv sw))) (k_getwd (sw_fs sw) (sw_sv sw))).
    + apply (impl_ro w (CGetwd vi) _); [unfold wstep, on_view; rewrite Hv; reflexivity|exact I].
    + apply spec_getwd.
    + rewrite <- Hfs, (dstep_getwd (sw_fs sw) (sw_sv sw) bs (dh_os _ _ H) (dh_root _ _ H) I0 Hcw Hlen). apply obs_sim_refl.
  - (* Stat *)
    destruct Hc as (-> & cs & Ep & Hp).
    apply (dworld_of_ro phl w vi sw Ha _ (stat_gen SlStat (w_fs w) (sv_view (sw_sv sw)) p) (k_stat true (sw_fs sw) (sw_sv sw) p)).
    + apply (impl_ro w _ _ (wstep_stat w vi _ Hv p)). exact I.
    + reflexivity.
    + rewrite <- Hfs, Ep. left. exact (dstep_stat (sw_fs sw) (sw_sv sw) SlStat cs H Hp).
  - (* Lstat *)
    destruct Hc as (-> & cs & Ep & Hp).
    apply (dworld_of_ro phl w vi sw Ha _ (stat_gen SlLstat (w_fs w) (sv_view (sw_sv sw)) p) (k_stat false (sw_fs sw) (sw_sv sw) p)).
    + apply (impl_ro w _ _ (wstep_lstat w vi _ Hv p)). exact I.
    + reflexivity.
    + rewrite <- Hfs, Ep. left. exact (dstep_stat (sw_fs sw) (sw_sv sw) SlLstat cs H Hp).
Qed.

(* ---- histories: C03_step by induction over call lists ---------------------------------------------------------- *)
Fixpoint spec_run_phl (phl : bool) (sw : sworld) (cs : list call) : sworld * list pres :=
  match cs with
  | [] => (sw, [])
  | c :: cs' => let sw1 := fst (spec_step phl sw c) in
                (fst (spec_run_phl phl sw1 cs'), snd (spec_step phl sw c) :: snd (spec_run_phl phl sw1 cs'))
  end.

Fixpoint dcovered_run (phl : bool) (vi : nat) (sw : sworld) (cs : list call) : Prop :=
  match cs with
  | [] => True
  | c :: cs' => dcovered phl vi sw c /\ dcovered_run phl vi (fst (spec_step phl sw c)) cs'
  end.

Theorem dhistory_world (phl : bool) (vi : nat) : forall (cs : list call) (w : world) (sw : sworld),
  absw w vi sw -> dcovered_run phl vi sw cs ->
  Forall2 obs_sim (snd (impl_run w cs)) (snd (spec_run_phl phl sw cs))
  /\ absw (fst (impl_run w cs)) vi (fst (spec_run_phl phl sw cs)).
Proof.
  induction cs as [|c cs IH]; intros w sw Ha Hc.
  - split; [constructor|exact Ha].
  - destruct Hc as (Hc1 & Hc2). destruct (dstep_world phl w vi sw c Ha Hc1) as (S1 & S2).
    destruct (IH _ _ S2 Hc2) as (I1 & I2). cbn [impl_run spec_run_phl fst snd].
    split; [constructor; assumption|exact I2].
Qed.
