(* WalkDir with the always-continue callback on the MemFS model, from a clean absolute root:
   the sequence of callback invocations is the preorder listing of the tree of nodes below the
   root, directory entries in name order, symbolic links not followed, with the permission
   effects of an unprivileged user (an unreadable directory is reported once more with the
   error and not entered; below a directory that may be read but not searched the entries are
   listed and every sub-directory is reported unreadable). *)
From Coq Require Import Sorting.Sorted Sorting.Permutation.
From Avfs Require Import Base PathModel PathSpec PathProofs PathCleanProofs PathIterProofs PathMatch
  MemFS MemFile Walk WalkInst WalkResolve ReadDirProofs.
Set Implicit Arguments.

Lemma to_open_mode_0 : to_open_mode 0 = OpenRead.
Proof. reflexivity. Qed.

Lemma join2_abs_path (bs : list str) (n : str) :
  Forall good_comp bs -> good_comp n -> join2 (abs_path bs) n = abs_path (bs ++ [n]).
Proof.
  intros Hb Hn. unfold join2. rewrite join_abs_any by exact Hb.
  assert (Hpc : path_comps n = [n]).
  { unfold path_comps. rewrite comps_word by (apply comp_ok_sepfree, good_comp_ok, Hn).
    cbn [filter]. destruct n as [|x n]; [destruct Hn as (Hne & _); congruence|reflexivity]. }
  rewrite Hpc.
  assert (E : rev bs = stk 0 (rev bs)) by (unfold stk; cbn [repeat]; symmetry; apply app_nil_r).
  rewrite E, norm_goods by (constructor; [apply good_good_comp, Hn|constructor]).
  unfold L. cbn [repeat app]. rewrite rev_involutive. reflexivity.
Qed.

Section Prim.
  Variable cr : bool.
  Variable s : fsys.
  Variable v : view.
  Hypothesis Hos : v_os v = Linux.
  Let h := f_heap s.
  Let u := v_user v.
  Let r0 := v_root v.
  Let P := mem_prims cr s v.

  Lemma mem_lstat_resolved (cs : list str) (c : nat) (nd : node) :
    Forall good_comp cs -> length cs < SEARCH_FUEL -> resolves s v cs c -> get h c = Some nd ->
    p_lstat P (abs_path cs) = RsOk (sinfo_of (fill_stat nd (base Linux (abs_path cs)))).
  Proof.
    intros Hg Hlen Hres Hnd. cbn [P mem_prims p_lstat]. unfold mem_stat, stat_gen.
    destruct (@search_resolved s v Hos cs c SlLstat nd Hg Hlen Hres Hnd (or_introl eq_refl)) as (Hc & He & _).
    rewrite Hc, He. cbn [is_file_exists negb]. fold h. rewrite Hnd, Hos. reflexivity.
  Qed.

  Lemma mem_open_dir_resolved (cs : list str) (c : nat) (ch : list (str * nat)) (m : meta) :
    Forall good_comp cs -> length cs < SEARCH_FUEL -> resolves s v cs c -> get h c = Some (NDir ch m) ->
    open_file s v 0 (abs_path cs) 0 0 =
      if check_permission m OpenRead u
      then (s, Datatypes.inr (new_handle c 0 (abs_path cs) 0 OpenRead))
      else (s, Datatypes.inl (RFail EPermDenied)).
  Proof.
    intros Hg Hlen Hres Hnd. unfold open_file. rewrite to_open_mode_0.
    change (has OpenRead OpenCreateExcl) with false. cbv iota.
    destruct (@search_resolved s v Hos cs c SlEval (NDir ch m) Hg Hlen Hres Hnd (or_intror I)) as (Hc & He & Hl).
    cbv zeta. rewrite Hc, He, Hl. cbn [is_file_exists is_not_exist negb andb orb].
    fold h. rewrite Hnd. change (has OpenRead OpenWrite) with false. cbv iota.
    fold u. destruct (check_permission m OpenRead u); reflexivity.
  Qed.

  Lemma mem_read_dir_resolved (cs : list str) (c : nat) (ch : list (str * nat)) (m : meta) :
    Forall good_comp cs -> length cs < SEARCH_FUEL -> resolves s v cs c -> get h c = Some (NDir ch m) ->
    p_read_dir P (abs_path cs) =
      if check_permission m OpenRead u then (map dent_of (dir_infos h ch), None) else ([], Some EPermDenied).
  Proof.
    intros Hg Hlen Hres Hnd. cbn [P mem_prims p_read_dir]. unfold mem_read_dir, read_dir.
    rewrite (mem_open_dir_resolved Hg Hlen Hres Hnd). fold u.
    destruct (check_permission m OpenRead u); [|reflexivity].
    unfold f_read_dir. cbn [new_handle hd_name hd_node]. cbn [abs_path]. fold h. rewrite Hnd. reflexivity.
  Qed.

  Lemma mem_dir_names_resolved (cs : list str) (c : nat) (ch : list (str * nat)) (m : meta) :
    Forall good_comp cs -> length cs < SEARCH_FUEL -> resolves s v cs c -> get h c = Some (NDir ch m) ->
    p_dir_names P (abs_path cs) = if check_permission m OpenRead u then Some (dir_names ch) else None.
  Proof.
    intros Hg Hlen Hres Hnd. cbn [P mem_prims p_dir_names]. unfold mem_dir_names.
    rewrite (mem_open_dir_resolved Hg Hlen Hres Hnd). fold u.
    destruct (check_permission m OpenRead u); [|reflexivity].
    unfold f_readdirnames. cbn [new_handle hd_name hd_node]. cbn [abs_path]. fold h. rewrite Hnd. reflexivity.
  Qed.

  Lemma mem_read_dir_blocked (cs : list str) :
    Forall good_comp cs -> length cs < SEARCH_FUEL -> blocked s v cs ->
    p_read_dir P (abs_path cs) = ([], Some EPermDenied).
  Proof.
    intros Hg Hlen Hb. cbn [P mem_prims p_read_dir]. unfold mem_read_dir, read_dir, open_file.
    rewrite to_open_mode_0. change (has OpenRead OpenCreateExcl) with false. cbv iota. cbv zeta.
    rewrite (@search_blocked s v Hos cs SlEval Hg Hlen Hb). reflexivity.
  Qed.
End Prim.

(* ---- sorting commutes with a key-preserving map ------------------------------------------ *)
Lemma insert_sorted_map (A B : Type) (key : B -> str) (f : A -> B) (x : A) (l : list A) :
  insert_sorted key (f x) (map f l) = map f (insert_sorted (fun a => key (f a)) x l).
Proof.
  induction l as [|y l IH]; [reflexivity|]. cbn [map insert_sorted].
  destruct (str_ltb (key (f y)) (key (f x))); [rewrite IH|]; reflexivity.
Qed.

Lemma sort_by_map (A B : Type) (key : B -> str) (f : A -> B) (l : list A) :
  sort_by key (map f l) = map f (sort_by (fun a => key (f a)) l).
Proof.
  induction l as [|x l IH]; [reflexivity|]. unfold sort_by in *. cbn [map fold_right].
  rewrite IH. apply insert_sorted_map.
Qed.

Lemma sort_by_ext (A : Type) (k1 k2 : A -> str) (l : list A) :
  (forall a, k1 a = k2 a) -> sort_by k1 l = sort_by k2 l.
Proof.
  intros E. unfold sort_by. induction l as [|x l IH]; [reflexivity|]. cbn [fold_right]. rewrite IH.
  generalize (fold_right (insert_sorted k2) [] l). intros l0.
  induction l0 as [|y l0 IH0]; [reflexivity|]. cbn [insert_sorted]. rewrite !E, IH0. reflexivity.
Qed.

Lemma alookup_nodup (ch : list (str * nat)) (n : str) (c : nat) :
  NoDup (map fst ch) -> In (n, c) ch -> alookup str_eqb n ch = Some c.
Proof.
  induction ch as [|[n' c'] ch IH]; intros Hnd Hin; [destruct Hin|].
  cbn [map fst] in Hnd. inversion Hnd as [|? ? Hni Hnd']; subst. cbn [alookup].
  destruct Hin as [E|Hin].
  - injection E as -> ->. rewrite str_eqb_refl. reflexivity.
  - destruct (str_eqb_spec n n') as [->|Hne]; [|apply IH; assumption].
    exfalso. apply Hni. change n' with (fst (n', c)). apply in_map, Hin.
Qed.

Section NWalk.
  Variable cr : bool.
  Variable s : fsys.
  Variable v : view.
  Hypothesis Hos : v_os v = Linux.
  Variable X : Type.
  Let h := f_heap s.
  Let u := v_user v.
  Let r0 := v_root v.
  Let P := mem_prims cr s v.

  (* the callback that always returns nil *)
  Definition cont : policy ekind X := fun _ _ => AContinue X.

  (* the directory entry of name n for node c: the node's mode bits *)
  Definition dent_at (n : str) (c : nat) : dent :=
    {| de_name := n; de_mode := match get h c with Some nd => m_mode (node_meta nd) | None => 0%N end |}.

  Definition mkv (cs : list str) (d : dent) (e : option ekind) : visit ekind :=
    {| vi_path := abs_path cs; vi_ent := Some d; vi_err := e |}.

  (* search permission for the entries of the directory at components cs: MemFS never checks it on the
     root directory of the view *)
  Definition child_flag (cs : list str) (m : meta) : bool :=
    match cs with [] => true | _ => check_permission m OpenLookup u end.

  (* the preorder listing of the nodes below c, reached as "/cs"; [flag]: that path resolves *)
  Fixpoint nwalk (fuel : nat) (cs : list str) (flag : bool) (c : nat) (d : dent) : list (visit ekind) :=
    match fuel with
    | O => []
    | S f =>
        mkv cs d None ::
        match get h c with
        | Some (NDir ch m) =>
            if flag && check_permission m OpenRead u
            then flat_map (fun nc => nwalk f (cs ++ [fst nc]) (child_flag cs m) (snd nc) (dent_at (fst nc) (snd nc)))
                          (sort_by (fun nc => fst nc) ch)
            else [mkv cs d (Some EPermDenied)]
        | _ => []
        end
    end.

  (* ---- the tree below the node the walk starts at --------------------------------------- *)
  Variable c0 : nat.
  Inductive desc : nat -> Prop :=
  | desc_refl : desc c0
  | desc_step d ch m n c : desc d -> get h d = Some (NDir ch m) -> In (n, c) ch -> desc c.

  Variable rank : nat -> nat.
  Record tree_wf : Prop := {
    wf_live : forall (d : nat) (ch : list (str * nat)) (m : meta) (n : str) (c : nat), desc d -> get h d = Some (NDir ch m) -> In (n, c) ch -> get h c <> None;
    wf_nodup : forall (d : nat) (ch : list (str * nat)) (m : meta), desc d -> get h d = Some (NDir ch m) -> NoDup (map fst ch);
    wf_names : forall (d : nat) (ch : list (str * nat)) (m : meta) (n : str) (c : nat), desc d -> get h d = Some (NDir ch m) -> In (n, c) ch -> good_comp n;
    wf_rank : forall (d : nat) (ch : list (str * nat)) (m : meta) (n : str) (c : nat), desc d -> get h d = Some (NDir ch m) -> In (n, c) ch -> rank c < rank d;
    wf_modes : forall (c : nat) (nd : node), desc c -> get h c = Some nd ->
               (has (m_mode (node_meta nd)) MODE_DIR = true <-> exists ch m, nd = NDir ch m)
  }.
  Hypothesis Hwf : tree_wf.

  Lemma dent_of_entry_info (nc : str * nat) : dent_of (entry_info h nc) = dent_at (fst nc) (snd nc).
  Proof.
    unfold dent_of, entry_info, dent_at. destruct (get h (snd nc)) as [nd|].
    - rewrite fill_stat_name, fill_stat_mode. reflexivity.
    - reflexivity.
  Qed.

  Lemma dir_infos_children (ch : list (str * nat)) : entries_live h ch ->
    map dent_of (dir_infos h ch) = map (fun nc => dent_at (fst nc) (snd nc)) (sort_by (fun nc => fst nc) ch).
  Proof.
    intros Hl. rewrite (dir_infos_map Hl), sort_by_map, map_map.
    rewrite (@sort_by_ext _ (fun a => fi_name (entry_info h a)) (fun nc => fst nc)).
    - apply map_ext. intros nc. apply dent_of_entry_info.
    - intros [n c]. unfold entry_info. cbn [fst snd]. destruct (get h c); apply fill_stat_name.
  Qed.

  Lemma resolves_descend (cs : list str) (c : nat) (ch : list (str * nat)) (m : meta) :
    resolves s v cs c -> get h c = Some (NDir ch m) -> child_flag cs m = true ->
    descend h u r0 cs = Some c.
  Proof.
    intros [(-> & ->)|(ns & n & dl & -> & Hd & Hl)] Hg Hf; [reflexivity|].
    rewrite descend_app. fold h u r0 in Hd. rewrite Hd. cbn [descend]. fold h in Hl. rewrite Hl, Hg.
    unfold child_flag in Hf. destruct ns; cbn [app] in Hf; rewrite Hf; reflexivity.
  Qed.

  Lemma nwalk_correct : forall (fuel : nat) (cs : list str) (flag : bool) (c : nat) (d : dent) (log : list (visit ekind)),
    desc c -> rank c < fuel -> Forall good_comp cs -> length cs + rank c < SEARCH_FUEL ->
    de_mode d = de_mode (dent_at [] c) ->
    (if flag return Prop then resolves s v cs c else blocked s v cs) ->
    get h c <> None ->
    walk_rec P cont true fuel (abs_path cs) d log = (log ++ nwalk fuel cs flag c d, WrNil X).
  Proof.
    induction fuel as [|f IH]; intros cs flag c d log Hdesc Hrank Hg Hlen Hmode Hflag Hlive; [lia|].
    cbn [walk_rec nwalk]. unfold cont at 1.
    assert (Hlen' : length cs < SEARCH_FUEL) by lia.
    unfold de_is_dir. rewrite Hmode. cbn [dent_at de_mode].
    destruct (get h c) as [nd|] eqn:Hnd; [|congruence].
    pose proof (wf_modes Hwf Hdesc Hnd) as Hm.
    destruct (has (m_mode (node_meta nd)) MODE_DIR) eqn:Hdir.
    - (* a directory *)
      destruct Hm as [Hm _]. destruct (Hm eq_refl) as (ch & m & ->). cbn [negb].
      assert (Hcl : entries_live h ch) by (intros n c1 Hin; eapply (wf_live Hwf); eassumption).
      (* the loop over the entries *)
      assert (Hloop : forall (L : list (str * nat)) (lg : list (visit ekind)),
        flag = true -> check_permission m OpenRead u = true ->
        (forall nc, In nc L -> In nc ch) ->
        (fix loop (l : list dent) (lg : list (visit ekind)) {struct l} : list (visit ekind) * wret X :=
           match l with
           | [] => (lg, WrNil X)
           | d1 :: l' =>
               match walk_rec P cont true f (join2 (abs_path cs) (de_name d1)) d1 lg with
               | (lg', WrNil _) => loop l' lg'
               | (lg', WrSkipDir _) => (lg', WrNil X)
               | r => r
               end
           end) (map (fun nc => dent_at (fst nc) (snd nc)) L) lg
        = (lg ++ flat_map (fun nc => nwalk f (cs ++ [fst nc]) (child_flag cs m) (snd nc) (dent_at (fst nc) (snd nc))) L,
           WrNil X)).
      { intros L lg Hft Hrd. induction L as [|[n1 c1] L IHL] in lg |- *; intros Hsub.
        - cbn [map flat_map]. rewrite app_nil_r. reflexivity.
        - cbn [map flat_map fst snd]. cbn [dent_at de_name].
          assert (Hin : In (n1, c1) ch) by (apply Hsub; left; reflexivity).
          assert (Hgn : good_comp n1) by (eapply (wf_names Hwf); eassumption).
          assert (Hrk : rank c1 < rank c) by (eapply (wf_rank Hwf); eassumption).
          rewrite (join2_abs_path Hg Hgn).
          rewrite (IH (cs ++ [n1]) (child_flag cs m) c1 (dent_at n1 c1) lg).
          + rewrite IHL by (intros nc H; apply Hsub; right; exact H).
            rewrite <- app_assoc. reflexivity.
          + eapply desc_step; eassumption.
          + lia.
          + apply Forall_app. split; [exact Hg|constructor; [exact Hgn|constructor]].
          + rewrite app_length. cbn [length]. lia.
          + reflexivity.
          + subst flag.
            destruct (child_flag cs m) eqn:Hcf.
            * right. exists cs, n1, c. split; [reflexivity|]. split.
              -- apply (resolves_descend Hflag Hnd Hcf).
              -- unfold children. fold h. rewrite Hnd. apply alookup_nodup; [eapply (wf_nodup Hwf); eassumption|exact Hin].
            * destruct Hflag as [(-> & _)|(ns & nb & dl & -> & Hd & Hl)]; [discriminate|].
              exists ns, nb, n1, dl, c, m, ch. split; [rewrite <- app_assoc; reflexivity|].
              split; [exact Hd|]. split; [exact Hl|]. split; [exact Hnd|].
              unfold child_flag in Hcf. destruct ns; exact Hcf.
          + eapply (wf_live Hwf); eassumption. }
      unfold P in *. destruct flag.
      + rewrite (@mem_read_dir_resolved cr s v Hos cs c ch m Hg Hlen' Hflag Hnd). fold u.
        cbn [andb]. destruct (check_permission m OpenRead u) eqn:Hrd.
        * fold h. rewrite (dir_infos_children Hcl). rewrite Hloop; [|reflexivity|reflexivity|intros nc Hnc; apply sort_by_in in Hnc; exact Hnc].
          rewrite <- app_assoc. reflexivity.
        * unfold cont. cbn [app]. rewrite <- app_assoc. reflexivity.
      + rewrite (@mem_read_dir_blocked cr s v Hos cs Hg Hlen' Hflag). cbn [andb].
        unfold cont. rewrite <- app_assoc. reflexivity.
    - (* not a directory *)
      cbn [negb]. destruct nd as [ch m| |]; try reflexivity.
      destruct Hm as [_ Hm]. assert (Ht : false = true) by (apply Hm; eauto). discriminate Ht.
  Qed.
End NWalk.
