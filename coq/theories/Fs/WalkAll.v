(* WalkDir with the always-continue callback on the MemFS model, from a clean absolute root:
   the sequence of callback invocations is the preorder listing of the tree of nodes below the
   root, directory entries in name order, symbolic links not followed, with the permission
   effects of an unprivileged user (an unreadable directory is reported once more with the
   error and not entered; below a directory - the root included - that may be read but not
   searched the entries are listed and every sub-directory is reported unreadable). *)
From Coq Require Import Sorting.Sorted Sorting.Permutation.
From Avfs Require Import Base PathModel PathSpec PathProofs PathCleanProofs PathIterProofs PathMatch
  MemFS MemFile Walk WalkInst WalkResolve ReadDirProofs.
Set Implicit Arguments.

Lemma to_open_mode_0 : to_open_mode 0 = OpenRead.
Proof. reflexivity. Qed.

Lemma join2_abs_path (bs : list str) (n : str) :
  Forall good_comp bs -> good_comp n -> join2 (abs_path bs) n = abs_path (bs ++ [n]).
Proof.
  intros Hb Hn. unfold join2. rewrite join_abs_any by exact Hb.
  assert (Hpc : path_comps n = [n]).
  { unfold path_comps. rewrite comps_word by (apply comp_ok_sepfree, good_comp_ok, Hn).
    cbn [filter]. destruct n as [|x n]; [destruct Hn as (Hne & _); congruence|reflexivity]. }
  rewrite Hpc.
  assert (E : rev bs = stk 0 (rev bs)) by (unfold stk; cbn [repeat]; symmetry; apply app_nil_r).
  rewrite E, norm_goods by (constructor; [apply good_good_comp, Hn|constructor]).
  unfold L. cbn [repeat app]. rewrite rev_involutive. reflexivity.
Qed.

Section Prim.
  Variable cr : bool.
  Variable s : fsys.
  Variable v : view.
  Hypothesis Hos : v_os v = Linux.
  Let h := f_heap s.
  Let u := v_user v.
  Let r0 := v_root v.
  Let P := mem_prims cr s v.

  Lemma mem_lstat_resolved (cs : list str) (c : nat) (nd : node) :
    Forall good_comp cs -> length cs < SEARCH_FUEL -> resolves s v cs c -> get h c = Some nd ->
    p_lstat P (abs_path cs) = RsOk (sinfo_of (fill_stat nd (base Linux (abs_path cs)))).
  Proof.
    intros Hg Hlen Hres Hnd. cbn [P mem_prims p_lstat]. unfold mem_stat, stat_gen.
    destruct (@search_resolved s v Hos cs c SlLstat nd Hg Hlen Hres Hnd (or_introl eq_refl)) as (Hc & He & _).
    rewrite Hc, He. cbn [is_file_exists negb]. fold h. rewrite Hnd, Hos. reflexivity.
  Qed.

  Lemma mem_open_dir_resolved (cs : list str) (c : nat) (ch : list (str * nat)) (m : meta) :
    Forall good_comp cs -> length cs < SEARCH_FUEL -> resolves s v cs c -> get h c = Some (NDir ch m) ->
    open_file s v 0 (abs_path cs) 0 0 =
      if check_permission m OpenRead u
      then (s, Datatypes.inr (new_handle c 0 (abs_path cs) 0 OpenRead))
      else (s, Datatypes.inl (RFail EPermDenied)).
  Proof.
    intros Hg Hlen Hres Hnd. unfold open_file. rewrite to_open_mode_0.
    change (has OpenRead OpenCreateExcl) with false. cbv iota.
    destruct (@search_resolved s v Hos cs c SlEval (NDir ch m) Hg Hlen Hres Hnd (or_intror I)) as (Hc & He & Hl).
    cbv zeta. rewrite Hc, He, Hl. cbn [is_file_exists is_not_exist negb andb orb].
    fold h. rewrite Hnd. change (has OpenRead OpenWrite) with false. cbv iota.
    fold u. destruct (check_permission m OpenRead u); reflexivity.
  Qed.

  Lemma mem_read_dir_resolved (cs : list str) (c : nat) (ch : list (str * nat)) (m : meta) :
    Forall good_comp cs -> length cs < SEARCH_FUEL -> resolves s v cs c -> get h c = Some (NDir ch m) ->
    p_read_dir P (abs_path cs) =
      if check_permission m OpenRead u then (map dent_of (dir_infos h ch), None) else ([], Some EPermDenied).
  Proof.
    intros Hg Hlen Hres Hnd. cbn [P mem_prims p_read_dir]. unfold mem_read_dir, vfs_read_dir, mem_file_read_dir, read_dir.
    rewrite (mem_open_dir_resolved Hg Hlen Hres Hnd). fold u.
    destruct (check_permission m OpenRead u); [|reflexivity].
    unfold f_read_dir, dir_read. cbn [new_handle hd_name hd_node]. cbn [abs_path]. fold h. rewrite Hnd.
    cbn [new_handle hd_dir_infos]. rewrite dir_batch_all by reflexivity. cbn [new_handle hd_dir_infos snd]. cbv iota beta.
    (* the sort of vfs.ReadDir after MemFile.ReadDir(-1), which is sorted already *)
    rewrite sort_by_map. rewrite (@sort_by_ext _ (fun a => de_name (dent_of a)) (@fi_name)) by reflexivity.
    rewrite dir_infos_resort. reflexivity.
  Qed.

  (* Readdirnames reads the names off the listing of infos ReadDir and Readdirnames share: every entry of the
     directory must point to a node (an invariant of the heap, C05) *)
  Lemma mem_dir_names_resolved (cs : list str) (c : nat) (ch : list (str * nat)) (m : meta) :
    Forall good_comp cs -> length cs < SEARCH_FUEL -> resolves s v cs c -> get h c = Some (NDir ch m) ->
    (forall name c', In (name, c') ch -> get h c' <> None) ->
    p_dir_names P (abs_path cs) = if check_permission m OpenRead u then Some (dir_names ch) else None.
  Proof.
    intros Hg Hlen Hres Hnd Hall. cbn [P mem_prims p_dir_names]. unfold mem_dir_names.
    rewrite (mem_open_dir_resolved Hg Hlen Hres Hnd). fold u.
    destruct (check_permission m OpenRead u); [|reflexivity].
    unfold f_readdirnames, dir_read. cbn [new_handle hd_name hd_node hd_dir_infos]. cbn [abs_path]. fold h. rewrite Hnd.
    rewrite dir_batch_all by reflexivity. rewrite (dir_infos_names h ch Hall). reflexivity.
  Qed.

  Lemma mem_read_dir_blocked (cs : list str) :
    Forall good_comp cs -> length cs < SEARCH_FUEL -> blocked s v cs ->
    p_read_dir P (abs_path cs) = ([], Some EPermDenied).
  Proof.
    intros Hg Hlen Hb. cbn [P mem_prims p_read_dir]. unfold mem_read_dir, vfs_read_dir, mem_file_read_dir, read_dir, open_file.
    rewrite to_open_mode_0. change (has OpenRead OpenCreateExcl) with false. cbv iota. cbv zeta.
    rewrite (@search_blocked s v Hos cs SlEval Hg Hlen Hb). reflexivity.
  Qed.
End Prim.

Lemma alookup_nodup (ch : list (str * nat)) (n : str) (c : nat) :
  NoDup (map fst ch) -> In (n, c) ch -> alookup str_eqb n ch = Some c.
Proof.
  induction ch as [|[n' c'] ch IH]; intros Hnd Hin; [destruct Hin|].
  cbn [map fst] in Hnd. inversion Hnd as [|? ? Hni Hnd']; subst. cbn [alookup].
  destruct Hin as [E|Hin].
  - injection E as -> ->. rewrite str_eqb_refl. reflexivity.
  - destruct (str_eqb_spec n n') as [->|Hne]; [|apply IH; assumption].
    exfalso. apply Hni. change n' with (fst (n', c)). apply in_map, Hin.
Qed.

Section NWalk.
  Variable cr : bool.
  Variable s : fsys.
  Variable v : view.
  Hypothesis Hos : v_os v = Linux.
  Variable X : Type.
  Let h := f_heap s.
  Let u := v_user v.
  Let r0 := v_root v.
  Let P := mem_prims cr s v.

  (* the callback that always returns nil *)
  Definition cont : policy ekind X := fun _ _ => AContinue X.

  (* the directory entry of name n for node c: the node's mode bits *)
  Definition dent_at (n : str) (c : nat) : dent :=
    {| de_name := n; de_mode := match get h c with Some nd => m_mode (node_meta nd) | None => 0%N end |}.

  Definition mkv (cs : list str) (d : dent) (e : option ekind) : visit ekind :=
    {| vi_path := abs_path cs; vi_ent := Some d; vi_err := e |}.

  (* search permission for the entries of the directory at components cs (mode m) *)
  Definition child_flag (cs : list str) (m : meta) : bool := check_permission m OpenLookup u.

  (* the preorder listing of the nodes below c, reached as "/cs"; [flag]: that path resolves *)
  Fixpoint nwalk (fuel : nat) (cs : list str) (flag : bool) (c : nat) (d : dent) : list (visit ekind) :=
    match fuel with
    | O => []
    | S f =>
        mkv cs d None ::
        match get h c with
        | Some (NDir ch m) =>
            if flag && check_permission m OpenRead u
            then flat_map (fun nc => nwalk f (cs ++ [fst nc]) (child_flag cs m) (snd nc) (dent_at (fst nc) (snd nc)))
                          (sort_by (fun nc => fst nc) ch)
            else [mkv cs d (Some EPermDenied)]
        | _ => []
        end
    end.

  (* ---- the tree below the node the walk starts at --------------------------------------- *)
  Variable c0 : nat.
  Inductive desc : nat -> Prop :=
  | desc_refl : desc c0
  | desc_step d ch m n c : desc d -> get h d = Some (NDir ch m) -> In (n, c) ch -> desc c.

  Variable rank : nat -> nat.
  Record tree_wf : Prop := {
    wf_live : forall (d : nat) (ch : list (str * nat)) (m : meta) (n : str) (c : nat), desc d -> get h d = Some (NDir ch m) -> In (n, c) ch -> get h c <> None;
    wf_nodup : forall (d : nat) (ch : list (str * nat)) (m : meta), desc d -> get h d = Some (NDir ch m) -> NoDup (map fst ch);
    wf_names : forall (d : nat) (ch : list (str * nat)) (m : meta) (n : str) (c : nat), desc d -> get h d = Some (NDir ch m) -> In (n, c) ch -> good_comp n;
    wf_rank : forall (d : nat) (ch : list (str * nat)) (m : meta) (n : str) (c : nat), desc d -> get h d = Some (NDir ch m) -> In (n, c) ch -> rank c < rank d;
    wf_modes : forall (c : nat) (nd : node), desc c -> get h c = Some nd ->
               (has (m_mode (node_meta nd)) MODE_DIR = true <-> exists ch m, nd = NDir ch m)
  }.
  Hypothesis Hwf : tree_wf.

  Lemma dent_of_entry_info (nc : str * nat) : dent_of (entry_info h nc) = dent_at (fst nc) (snd nc).
  Proof.
    unfold dent_of, entry_info, dent_at. destruct (get h (snd nc)) as [nd|].
    - rewrite fill_stat_name, fill_stat_mode. reflexivity.
    - reflexivity.
  Qed.

  Lemma dir_infos_children (ch : list (str * nat)) : entries_live h ch ->
    map dent_of (dir_infos h ch) = map (fun nc => dent_at (fst nc) (snd nc)) (sort_by (fun nc => fst nc) ch).
  Proof.
    intros Hl. rewrite (dir_infos_map Hl), sort_by_map, map_map.
    rewrite (@sort_by_ext _ (fun a => fi_name (entry_info h a)) (fun nc => fst nc)).
    - apply map_ext. intros nc. apply dent_of_entry_info.
    - intros [n c]. unfold entry_info. cbn [fst snd]. destruct (get h c); apply fill_stat_name.
  Qed.

  Lemma resolves_descend (cs : list str) (c : nat) (ch : list (str * nat)) (m : meta) :
    resolves s v cs c -> get h c = Some (NDir ch m) -> child_flag cs m = true ->
    descend h u r0 cs = Some c /\ rootx s v = true.
  Proof.
    intros [(-> & ->)|(ns & n & dl & -> & Hrx & Hd & Hl)] Hg Hf.
    - split; [reflexivity|]. unfold rootx, root_x. unfold h, r0 in *. rewrite Hg. exact Hf.
    - split; [|exact Hrx].
      rewrite descend_app. fold h u r0 in Hd. rewrite Hd. cbn [descend]. fold h in Hl. rewrite Hl, Hg.
      unfold child_flag in Hf. rewrite Hf. reflexivity.
  Qed.

  Lemma child_flag_root (ch : list (str * nat)) (m : meta) :
    get h r0 = Some (NDir ch m) -> rootx s v = child_flag [] m.
  Proof. intros Hg. unfold rootx, root_x. unfold h, r0 in *. rewrite Hg. reflexivity. Qed.

  Lemma nwalk_correct : forall (fuel : nat) (cs : list str) (flag : bool) (c : nat) (d : dent) (log : list (visit ekind)),
    desc c -> rank c < fuel -> Forall good_comp cs -> length cs + rank c < SEARCH_FUEL ->
    de_mode d = de_mode (dent_at [] c) ->
    (if flag return Prop then resolves s v cs c else blocked s v cs) ->
    get h c <> None ->
    walk_rec P cont true fuel (abs_path cs) d log = (log ++ nwalk fuel cs flag c d, WrNil X).
  Proof.
    induction fuel as [|f IH]; intros cs flag c d log Hdesc Hrank Hg Hlen Hmode Hflag Hlive; [lia|].
    cbn [walk_rec nwalk]. unfold cont at 1.
    assert (Hlen' : length cs < SEARCH_FUEL) by lia.
    unfold de_is_dir. rewrite Hmode. cbn [dent_at de_mode].
    destruct (get h c) as [nd|] eqn:Hnd; [|congruence].
    pose proof (wf_modes Hwf Hdesc Hnd) as Hm.
    destruct (has (m_mode (node_meta nd)) MODE_DIR) eqn:Hdir.
    - (* a directory *)
      destruct Hm as [Hm _]. destruct (Hm eq_refl) as (ch & m & ->). cbn [negb].
      assert (Hcl : entries_live h ch) by (intros n c1 Hin; eapply (wf_live Hwf); eassumption).
      (* the loop over the entries *)
      assert (Hloop : forall (L : list (str * nat)) (lg : list (visit ekind)),
        flag = true -> check_permission m OpenRead u = true ->
        (forall nc, In nc L -> In nc ch) ->
        (fix loop (l : list dent) (lg : list (visit ekind)) {struct l} : list (visit ekind) * wret X :=
           match l with
           | [] => (lg, WrNil X)
           | d1 :: l' =>
               match walk_rec P cont true f (join2 (abs_path cs) (de_name d1)) d1 lg with
               | (lg', WrNil _) => loop l' lg'
               | (lg', WrSkipDir _) => (lg', WrNil X)
               | r => r
               end
           end) (map (fun nc => dent_at (fst nc) (snd nc)) L) lg
        = (lg ++ flat_map (fun nc => nwalk f (cs ++ [fst nc]) (child_flag cs m) (snd nc) (dent_at (fst nc) (snd nc))) L,
           WrNil X)).
      { intros L lg Hft Hrd. induction L as [|[n1 c1] L IHL] in lg |- *; intros Hsub.
        - cbn [map flat_map]. rewrite app_nil_r. reflexivity.
        - cbn [map flat_map fst snd]. cbn [dent_at de_name].
          assert (Hin : In (n1, c1) ch) by (apply Hsub; left; reflexivity).
          assert (Hgn : good_comp n1) by (eapply (wf_names Hwf); eassumption).
          assert (Hrk : rank c1 < rank c) by (eapply (wf_rank Hwf); eassumption).
          rewrite (join2_abs_path Hg Hgn).
          rewrite (IH (cs ++ [n1]) (child_flag cs m) c1 (dent_at n1 c1) lg).
          + rewrite IHL by (intros nc H; apply Hsub; right; exact H).
            rewrite <- app_assoc. reflexivity.
          + eapply desc_step; eassumption.
          + lia.
          + apply Forall_app. split; [exact Hg|constructor; [exact Hgn|constructor]].
          + rewrite app_length. cbn [length]. lia.
          + reflexivity.
          + subst flag.
            destruct (child_flag cs m) eqn:Hcf.
            * destruct (resolves_descend Hflag Hnd Hcf) as (Hde & Hrx).
              right. exists cs, n1, c. split; [reflexivity|]. split; [exact Hrx|]. split; [exact Hde|].
              unfold children. fold h. rewrite Hnd. apply alookup_nodup; [eapply (wf_nodup Hwf); eassumption|exact Hin].
            * destruct Hflag as [(-> & ->)|(ns & nb & dl & -> & Hrx & Hd & Hl)].
              -- left. split; [discriminate|]. rewrite (child_flag_root Hnd). exact Hcf.
              -- right. split; [exact Hrx|].
                 exists ns, nb, n1, dl, c, m, ch. split; [rewrite <- app_assoc; reflexivity|].
                 split; [exact Hd|]. split; [exact Hl|]. split; [exact Hnd|]. exact Hcf.
          + eapply (wf_live Hwf); eassumption. }
      unfold P in *. destruct flag.
      + rewrite (@mem_read_dir_resolved cr s v Hos cs c ch m Hg Hlen' Hflag Hnd). fold u.
        cbn [andb]. destruct (check_permission m OpenRead u) eqn:Hrd.
        * fold h. rewrite (dir_infos_children Hcl). rewrite Hloop; [|reflexivity|reflexivity|intros nc Hnc; apply sort_by_in in Hnc; exact Hnc].
          rewrite <- app_assoc. reflexivity.
        * unfold cont. cbn [app]. rewrite <- app_assoc. reflexivity.
      + rewrite (@mem_read_dir_blocked cr s v Hos cs Hg Hlen' Hflag). cbn [andb].
        unfold cont. rewrite <- app_assoc. reflexivity.
    - (* not a directory *)
      cbn [negb]. destruct nd as [ch m| |]; try reflexivity.
      destruct Hm as [_ Hm]. assert (Ht : false = true) by (apply Hm; eauto). discriminate Ht.
  Qed.
End NWalk.

(* ---- lexicographic order on component lists (a proper prefix first) ------------------------ *)
Fixpoint lex_ltb (a b : list str) : bool :=
  match a, b with
  | [], [] => false
  | [], _ :: _ => true
  | _ :: _, [] => false
  | x :: a', y :: b' => if str_ltb x y then true else if str_eqb x y then lex_ltb a' b' else false
  end.

Lemma lex_ltb_irrefl (a : list str) : lex_ltb a a = false.
Proof. induction a as [|x a IH]; [reflexivity|]. cbn [lex_ltb]. rewrite str_ltb_irrefl, str_eqb_refl. exact IH. Qed.

Lemma lex_ltb_app (p a b : list str) : lex_ltb (p ++ a) (p ++ b) = lex_ltb a b.
Proof. induction p as [|x p IH]; [reflexivity|]. cbn [app lex_ltb]. rewrite str_ltb_irrefl, str_eqb_refl. exact IH. Qed.

Lemma lex_ltb_prefix (p t : list str) : t <> [] -> lex_ltb p (p ++ t) = true.
Proof.
  intros Ht. rewrite <- (app_nil_r p) at 1. rewrite lex_ltb_app. destruct t; [congruence|reflexivity].
Qed.

Lemma lex_ltb_head (x y : str) (a b : list str) : str_ltb x y = true -> lex_ltb (x :: a) (y :: b) = true.
Proof. intros H. cbn [lex_ltb]. rewrite H. reflexivity. Qed.

Lemma sorted_flat_map (A B : Type) (R : B -> B -> Prop) (Q : A -> A -> Prop) (F : A -> list B) (L : list A) :
  StronglySorted Q L ->
  (forall x, In x L -> StronglySorted R (F x)) ->
  (forall x y a b, In x L -> In y L -> Q x y -> In a (F x) -> In b (F y) -> R a b) ->
  StronglySorted R (flat_map F L).
Proof.
  induction 1 as [|x L HL IH Hx]; intros Hs Hc; [constructor|]. cbn [flat_map].
  assert (IH' : StronglySorted R (flat_map F L)).
  { apply IH; [intros y Hy; apply Hs; right; exact Hy|].
    intros y z a b Hy Hz; apply Hc; right; assumption. }
  assert (Hx' : Forall (fun b => forall a, In a (F x) -> R a b) (flat_map F L)).
  { rewrite Forall_forall. intros b Hb a Ha. apply in_flat_map in Hb as (y & Hy & Hb).
    rewrite Forall_forall in Hx. apply (Hc x y a b); [left; reflexivity|right; exact Hy|apply Hx, Hy|exact Ha|exact Hb]. }
  specialize (Hs x (or_introl eq_refl)). clear - Hs IH' Hx'.
  induction Hs as [|a l Hl IHl Ha]; [exact IH'|]. cbn [app]. constructor.
  - apply IHl. rewrite Forall_forall in *. intros b Hb a' Ha'. apply Hx'; [exact Hb|right; exact Ha'].
  - rewrite Forall_forall in *. intros b Hb. apply in_app_or in Hb as [Hb|Hb]; [apply Ha, Hb|].
    apply (Hx' b Hb a). left. reflexivity.
Qed.

Lemma sorted_nodup (A : Type) (R : A -> A -> Prop) (l : list A) :
  (forall a, ~ R a a) -> StronglySorted R l -> NoDup l.
Proof.
  intros Hirr. induction 1 as [|a l Hl IH Ha]; constructor; [|exact IH].
  intros Hin. rewrite Forall_forall in Ha. apply (Hirr a), Ha, Hin.
Qed.

Lemma filter_flat_map (A B : Type) (p : B -> bool) (F : A -> list B) (L : list A) :
  filter p (flat_map F L) = flat_map (fun x => filter p (F x)) L.
Proof.
  induction L as [|x L IH]; [reflexivity|]. cbn [flat_map]. rewrite filter_app, IH. reflexivity.
Qed.

Lemma map_flat_map (A B C : Type) (g : B -> C) (F : A -> list B) (L : list A) :
  map g (flat_map F L) = flat_map (fun x => map g (F x)) L.
Proof.
  induction L as [|x L IH]; [reflexivity|]. cbn [flat_map]. rewrite map_app, IH. reflexivity.
Qed.

Lemma flat_map_ext_in (A B : Type) (F G : A -> list B) (L : list A) :
  (forall x, In x L -> F x = G x) -> flat_map F L = flat_map G L.
Proof.
  induction L as [|x L IH]; intros H; [reflexivity|]. cbn [flat_map].
  rewrite (H x (or_introl eq_refl)), IH; [reflexivity|]. intros y Hy. apply H. right. exact Hy.
Qed.

Section Paths.
  Variable s : fsys.
  Variable v : view.
  Variable X : Type.
  Let h := f_heap s.
  Let u := v_user v.

  Definition noerr (x : visit ekind) : bool := match vi_err x with None => true | Some _ => false end.

  (* the component lists of the paths the walk reports (without error) *)
  Fixpoint npaths (fuel : nat) (cs : list str) (flag : bool) (c : nat) : list (list str) :=
    match fuel with
    | O => []
    | S f =>
        cs ::
        match get h c with
        | Some (NDir ch m) =>
            if flag && check_permission m OpenRead u
            then flat_map (fun nc => npaths f (cs ++ [fst nc]) (child_flag v cs m) (snd nc)) (sort_by (fun nc => fst nc) ch)
            else []
        | _ => []
        end
    end.

  Lemma nwalk_paths : forall fuel cs flag c d,
    map (@vi_path ekind) (filter noerr (nwalk s v fuel cs flag c d)) = map abs_path (npaths fuel cs flag c).
  Proof.
    induction fuel as [|f IH]; intros cs flag c d; [reflexivity|].
    cbn [nwalk npaths filter map mkv noerr vi_err vi_path]. f_equal. fold h u.
    destruct (get h c) as [[ch m| |]|]; try reflexivity.
    destruct (flag && check_permission m OpenRead u); [|reflexivity].
    rewrite filter_flat_map, !map_flat_map. apply flat_map_ext_in. intros nc _. apply IH.
  Qed.

  (* ---- declaratively: the paths reachable from (cs, c) through listable directories, never
          through a symbolic link (only NDir nodes are entered) -------------------------------- *)
  Inductive below : list str -> bool -> nat -> list str -> Prop :=
  | below_here cs flag c : below cs flag c cs
  | below_step cs c ch m n c1 p :
      get h c = Some (NDir ch m) -> check_permission m OpenRead u = true -> In (n, c1) ch ->
      below (cs ++ [n]) (child_flag v cs m) c1 p -> below cs true c p.

  Lemma npaths_sound : forall fuel cs flag c p, In p (npaths fuel cs flag c) -> below cs flag c p.
  Proof.
    induction fuel as [|f IH]; intros cs flag c p Hin; [destruct Hin|].
    cbn [npaths] in Hin. destruct Hin as [<-|Hin]; [constructor|]. fold h u in Hin.
    destruct (get h c) as [[ch m| |]|] eqn:Hg; try destruct Hin.
    destruct flag; cbn [andb] in Hin; [|destruct Hin].
    destruct (check_permission m OpenRead u) eqn:Hr; [|destruct Hin].
    apply in_flat_map in Hin as ([n c1] & Hnc & Hin). apply sort_by_in in Hnc. cbn [fst snd] in Hin.
    eapply below_step; eauto.
  Qed.

  Section Complete.
    Variable c0 : nat.
    Variable rank : nat -> nat.
    Hypothesis Hwf : tree_wf s c0 rank.

    Lemma npaths_complete : forall cs flag c p, below cs flag c p ->
      forall fuel, desc s c0 c -> rank c < fuel -> In p (npaths fuel cs flag c).
    Proof.
      induction 1 as [cs flag c|cs c ch m n c1 p Hg Hr Hin Hb IH]; intros fuel Hd Hrk;
        (destruct fuel as [|f]; [lia|]); cbn [npaths]; [left; reflexivity|right].
      fold h u. rewrite Hg. cbn [andb]. rewrite Hr. apply in_flat_map. exists (n, c1). split.
      - apply sort_by_in. exact Hin.
      - cbn [fst snd]. apply IH.
        + eapply desc_step; eassumption.
        + assert (rank c1 < rank c) by (eapply (wf_rank Hwf); eassumption). lia.
    Qed.

    Lemma npaths_prefix : forall fuel cs flag c p, In p (npaths fuel cs flag c) -> exists t, p = cs ++ t.
    Proof.
      intros fuel cs flag c p Hin. apply npaths_sound in Hin.
      induction Hin as [cs flag c|cs c ch m n c1 p Hg Hr Hin Hb IH]; [exists []; symmetry; apply app_nil_r|].
      destruct IH as (t & ->). exists (n :: t). rewrite <- app_assoc. reflexivity.
    Qed.

    (* lexical order: strictly increasing component lists; in particular every path once *)
    Lemma npaths_sorted : forall fuel cs flag c, desc s c0 c ->
      StronglySorted (fun a b => lex_ltb a b = true) (npaths fuel cs flag c).
    Proof.
      induction fuel as [|f IH]; intros cs flag c Hd; [constructor|]. cbn [npaths]. fold h u.
      destruct (get h c) as [[ch m| |]|] eqn:Hg; try (constructor; constructor).
      destruct (flag && check_permission m OpenRead u); [|constructor; constructor].
      constructor.
      - apply (@sorted_flat_map _ _ _ (fun a b : str * nat => str_ltb (fst a) (fst b) = true)).
        + apply (sort_by_strict (fun nc : str * nat => fst nc)). eapply (wf_nodup Hwf); eassumption.
        + intros [n c1] Hnc. apply sort_by_in in Hnc. apply IH. eapply desc_step; eassumption.
        + intros [n1 c1] [n2 c2] a b _ _ Hlt Ha Hb. cbn [fst snd] in *.
          apply npaths_prefix in Ha as (t1 & ->). apply npaths_prefix in Hb as (t2 & ->).
          rewrite <- !app_assoc, lex_ltb_app. cbn [app]. apply lex_ltb_head, Hlt.
      - rewrite Forall_forall. intros p Hp. apply in_flat_map in Hp as ([n c1] & _ & Hp). cbn [fst snd] in Hp.
        apply npaths_prefix in Hp as (t & ->). rewrite <- app_assoc. apply lex_ltb_prefix. discriminate.
    Qed.

    Lemma npaths_nodup fuel cs flag c : desc s c0 c -> NoDup (npaths fuel cs flag c).
    Proof.
      intros Hd. apply (@sorted_nodup _ (fun a b => lex_ltb a b = true)); [|apply npaths_sorted, Hd].
      intros a H. rewrite lex_ltb_irrefl in H. discriminate.
    Qed.

    (* all components of a reported path are proper names *)
    Lemma below_good : forall cs flag c p, below cs flag c p -> desc s c0 c -> Forall good_comp cs -> Forall good_comp p.
    Proof.
      induction 1 as [cs flag c|cs c ch m n c1 p Hg Hr Hin Hb IH]; intros Hd Hgc; [exact Hgc|].
      apply IH; [eapply desc_step; eassumption|].
      apply Forall_app. split; [exact Hgc|]. constructor; [|constructor]. eapply (wf_names Hwf); eassumption.
    Qed.
  End Complete.
End Paths.

Lemma NoDup_map_inj_in (A B : Type) (f : A -> B) (l : list A) :
  (forall a b, In a l -> In b l -> f a = f b -> a = b) -> NoDup l -> NoDup (map f l).
Proof.
  intros Hinj. induction 1 as [|a l Hni Hnd IH]; [constructor|]. cbn [map]. constructor.
  - intros Hin. apply in_map_iff in Hin as (b & Hfb & Hb). apply Hni.
    rewrite (Hinj a b (or_introl eq_refl) (or_intror Hb) (eq_sym Hfb)). exact Hb.
  - apply IH. intros x y Hx Hy. apply Hinj; right; assumption.
Qed.

(* ---- the tree below a node, as it exists: chains of directory entries through real directories -- *)
Section TreePaths.
  Variable h : heap.
  Inductive tpath : nat -> list str -> Prop :=
  | tpath_nil c : tpath c []
  | tpath_cons c ch m n c1 t : get h c = Some (NDir ch m) -> In (n, c1) ch -> tpath c1 t -> tpath c (n :: t).
End TreePaths.

Section WalkAll.
  Variable cr : bool.
  Variable s : fsys.
  Variable v : view.
  Hypothesis Hos : v_os v = Linux.
  Variable X : Type.
  Let h := f_heap s.
  Let u := v_user v.
  Variable c0 : nat.
  Variable rank : nat -> nat.
  Hypothesis Hwf : tree_wf s c0 rank.
  Variable cs0 : list str.
  Hypothesis Hg0 : Forall good_comp cs0.
  Hypothesis Hres : resolves s v cs0 c0.
  Variable nd0 : node.
  Hypothesis Hnd0 : get h c0 = Some nd0.
  Variable fuel : nat.
  Hypothesis Hfuel : rank c0 < fuel.
  Hypothesis Hdepth : length cs0 + rank c0 < SEARCH_FUEL.

  Lemma nwalk_errs : forall f cs flag c d x, In x (nwalk s v f cs flag c d) -> vi_err x = None \/ vi_err x = Some EPermDenied.
  Proof.
    induction f as [|f IH]; intros cs flag c d x Hin; [destruct Hin|]. cbn [nwalk] in Hin.
    destruct Hin as [<-|Hin]; [left; reflexivity|].
    destruct (get (f_heap s) c) as [[ch m| |]|]; try destruct Hin.
    destruct (flag && check_permission m OpenRead (v_user v)).
    - apply in_flat_map in Hin as (nc & _ & Hin). eapply IH, Hin.
    - destruct Hin as [<-|[]]. right. reflexivity.
  Qed.

  Definition d0 : dent := dent_of_sinfo (sinfo_of (fill_stat nd0 (base Linux (abs_path cs0)))).

  Lemma walk_all_memfs_log :
    let log := nwalk s v fuel cs0 true c0 d0 in
    walk_dir (mem_prims cr s v) (cont X) fuel (abs_path cs0) = (log, WrNil X)
    /\ let ps := npaths s v fuel cs0 true c0 in
       map (@vi_path ekind) (filter noerr log) = map abs_path ps
       /\ (forall p, In p ps <-> below s v cs0 true c0 p)
       /\ StronglySorted (fun a b => lex_ltb a b = true) ps
       /\ NoDup (map (@vi_path ekind) (filter noerr log))
       /\ (forall x, In x log -> vi_err x = None \/ vi_err x = Some EPermDenied).
  Proof.
    assert (Hlen : length cs0 < SEARCH_FUEL) by lia.
    cbv zeta. split.
    - unfold walk_dir, walk_dir_gen.
      rewrite (@mem_lstat_resolved cr s v Hos cs0 c0 nd0 Hg0 Hlen Hres Hnd0). cbv beta iota.
      change (dent_of_sinfo (sinfo_of (fill_stat nd0 (base Linux (abs_path cs0))))) with d0.
      rewrite (@nwalk_correct cr s v Hos X c0 rank Hwf fuel cs0 true c0 d0 []); try assumption.
      + reflexivity.
      + constructor.
      + unfold d0, dent_of_sinfo, sinfo_of, dent_at. cbn [de_mode si_mode]. fold h. rewrite Hnd0. apply fill_stat_mode.
      + fold h. rewrite Hnd0. discriminate.
    - split; [apply nwalk_paths|]. split; [|split; [|split]].
      + intros p. split; [apply npaths_sound|]. intros Hb. eapply npaths_complete; eauto. constructor.
      + eapply npaths_sorted; [exact Hwf|constructor].
      + rewrite nwalk_paths. apply NoDup_map_inj_in; [|eapply npaths_nodup; [exact Hwf|constructor]].
        intros a b Ha Hb. apply abs_path_inj; apply Forall_comp_ok_of.
        * eapply below_good; [exact Hwf|eapply npaths_sound; exact Ha|constructor|exact Hg0].
        * eapply below_good; [exact Hwf|eapply npaths_sound; exact Hb|constructor|exact Hg0].
      + intros x. apply nwalk_errs.
  Qed.

  Theorem walk_all_memfs :
    exists log,
      walk_dir (mem_prims cr s v) (cont X) fuel (abs_path cs0) = (log, WrNil X)
      /\ let ps := npaths s v fuel cs0 true c0 in
         map (@vi_path ekind) (filter noerr log) = map abs_path ps
         /\ (forall p, In p ps <-> below s v cs0 true c0 p)
         /\ StronglySorted (fun a b => lex_ltb a b = true) ps
         /\ NoDup (map (@vi_path ekind) (filter noerr log))
         /\ (forall x, In x log -> vi_err x = None \/ vi_err x = Some EPermDenied).
  Proof. eexists. exact walk_all_memfs_log. Qed.

  (* the administrator: everything that exists below the root, and nothing else *)
  Hypothesis Hadmin : us_admin u = true.

  Lemma admin_perm (m : meta) (p : N) : check_permission m p u = true.
  Proof. unfold check_permission. rewrite Hadmin. reflexivity. Qed.

  Lemma admin_flag (cs : list str) (m : meta) : child_flag v cs m = true.
  Proof. unfold child_flag. apply admin_perm. Qed.

  Lemma nwalk_noerr_admin : forall f cs c d x, In x (nwalk s v f cs true c d) -> vi_err x = None.
  Proof.
    induction f as [|f IH]; intros cs c d x Hin; [destruct Hin|]. cbn [nwalk] in Hin.
    destruct Hin as [<-|Hin]; [reflexivity|].
    destruct (get (f_heap s) c) as [[ch m| |]|]; try destruct Hin.
    fold u in Hin. rewrite admin_perm in Hin. cbn [andb] in Hin.
    apply in_flat_map in Hin as (nc & _ & Hin). rewrite admin_flag in Hin. eapply IH, Hin.
  Qed.

  Lemma below_tpath : forall cs flag c p, below s v cs flag c p -> exists t, p = cs ++ t /\ tpath h c t.
  Proof.
    induction 1 as [cs flag c|cs c ch m n c1 p Hg Hr Hin Hb IH].
    - exists []. split; [symmetry; apply app_nil_r|constructor].
    - destruct IH as (t & -> & Ht). exists (n :: t). split; [rewrite <- app_assoc; reflexivity|].
      econstructor; eassumption.
  Qed.

  Lemma tpath_below : forall c t, tpath h c t -> forall cs, below s v cs true c (cs ++ t).
  Proof.
    induction 1 as [c|c ch m n c1 t Hg Hin Ht IH]; intros cs.
    - rewrite app_nil_r. constructor.
    - eapply below_step; [exact Hg|apply admin_perm|exact Hin|].
      rewrite admin_flag. specialize (IH (cs ++ [n])). rewrite <- app_assoc in IH. exact IH.
  Qed.

  Theorem walk_all_memfs_admin :
    exists log,
      walk_dir (mem_prims cr s v) (cont X) fuel (abs_path cs0) = (log, WrNil X)
      /\ (forall x, In x log -> vi_err x = None)
      /\ NoDup (map (@vi_path ekind) log)
      /\ (forall q, In q (map (@vi_path ekind) log) <-> exists t, q = abs_path (cs0 ++ t) /\ tpath h c0 t)
      /\ StronglySorted (fun a b => lex_ltb a b = true) (npaths s v fuel cs0 true c0)
      /\ map (@vi_path ekind) log = map abs_path (npaths s v fuel cs0 true c0).
  Proof.
    destruct walk_all_memfs_log as (Hw & Hp & Hin & Hso & Hnd & He).
    set (log := nwalk s v fuel cs0 true c0 d0) in *.
    exists log. split; [exact Hw|].
    assert (Hall : forall x, In x log -> vi_err x = None) by (intros x; apply nwalk_noerr_admin).
    assert (Hf : filter noerr log = log).
    { clear - Hall. induction log as [|x l IH]; [reflexivity|]. cbn [filter].
      unfold noerr at 1. rewrite (Hall x (or_introl eq_refl)). f_equal. apply IH. intros y Hy. apply Hall. right. exact Hy. }
    rewrite Hf in *. split; [exact Hall|]. split; [exact Hnd|]. split; [|split; [exact Hso|exact Hp]].
    intros q. rewrite Hp. split.
    - intros Hq. apply in_map_iff in Hq as (p & <- & Hq). apply Hin, below_tpath in Hq as (t & -> & Ht). eauto.
    - intros (t & -> & Ht). apply in_map, Hin, tpath_below, Ht.
  Qed.
End WalkAll.
