(* C03: Getwd for ANY user.  MemFS keeps the working directory as a string and, before answering it, walks it (without
   following a final link) and tests the search permission of the directory it finds; os.Getwd (Posix.v: its stat("."))
   needs search permission on the working-directory node and spells the node's path back.  They agree when the string is a
   directory walk to the PARENT of the node followed by the node's name (every proper ancestor searchable by the
   caller; the node itself searchable or not: EACCES on both sides). *)
From Avfs Require Import Base BaseProofs PathModel PathSpec PathProofs PathCleanProofs PathIterProofs.
From Avfs Require Import MemFS MemFile World Posix Inv InvConseq.
From Avfs Require Import WalkBridge WalkSym WalkBudget WalkReadlink WalkRel DacLemmas StepEq StepCwd.

Definition k_getwd (s : fsys) (sv : sview) : pres :=
  let v := sv_view sv in
  let h := f_heap s in
  if negb (kperm h (sv_cwd sv) 1 (v_user v)) then SErr EACCES
  else if is_ancestor (S (length h)) h (v_root v) (v_root v) (sv_cwd sv)
  then SStr (path_of (S (length h)) h (v_root v) (sv_cwd sv) [])
  else SErr ENOENT.

Lemma spec_getwd (phl : bool) (sw : sworld) (vi : nat) :
  spec_step phl sw (CGetwd vi) = (sw, k_getwd (sw_fs sw) (sw_sv sw)).
Proof.
  unfold spec_step, k_getwd. cbv zeta.
  destruct (negb (kperm (f_heap (sw_fs sw)) (sv_cwd (sw_sv sw)) 1 (v_user (sv_view (sw_sv sw))))); [reflexivity|].
  destruct (is_ancestor _ _ _ _ _); reflexivity.
Qed.

(* the working-directory string [abs_path bs] leads to the working-directory node *)
Definition cwd_walk (s : fsys) (sv : sview) (bs : list str) : Prop :=
  let v := sv_view sv in
  let h := f_heap s in
  v_cwd v = abs_path bs /\ Forall good_comp bs /\ kperm h (v_root v) 1 (v_user v) = true /\
  ((bs = [] /\ sv_cwd sv = v_root v)
   \/ exists w cl p, bs = w ++ [cl] /\ dwalk h (v_user v) (v_root v) w = Some p
                     /\ alookup str_eqb cl (children h p) = Some (sv_cwd sv) /\ node_is_dir h (sv_cwd sv) = true).

Theorem dstep_getwd (s : fsys) (sv : sview) (bs : list str) :
  v_os (sv_view sv) = Linux -> node_is_dir (f_heap s) (v_root (sv_view sv)) = true -> Inv_heap (f_heap s) ->
  cwd_walk s sv bs -> length bs < SEARCH_FUEL ->
  proj_res Linux (getwd s (sv_view sv)) = k_getwd s sv.
Proof.
  intros Hos Hrd I (Hcwd & Hg & Hrp & Hcase) Hlen.
  set (v := sv_view sv) in *. set (h := f_heap s) in *.
  assert (Hok : Forall comp_ok bs) by (eapply Forall_impl; [|exact Hg]; apply good_comp_ok).
  unfold getwd, k_getwd. fold v h. rewrite Hcwd, (search_node_abs_path s v bs SlLstat Hos Hg). fold h.
  destruct Hcase as [(-> & Ecw)|(w & cl & p & -> & Hw & Hl & Hd)].
  - (* the root *)
    rewrite Ecw. change SEARCH_FUEL with (S (pred SEARCH_FUEL)).
    rewrite (search_loop_end h v Hos _ SlLstat (v_root v) (v_root v) _ 0 None [] Hok (pi_new_before [])).
    cbn [sr_child sr_err is_file_exists]. destruct (node_is_dir_get _ _ Hrd) as (ch & m & Hgr). rewrite Hgr.
    rewrite <- (kperm_dir h _ ch m _ Hgr), Hrp. cbn [negb proj_res].
    destruct (getwd_agree h (v_user v) (v_root v) I Hrd Hrp [] (v_root v) Hg eq_refl) as (_ & G2 & G3).
    rewrite G2, G3. reflexivity.
  - rewrite app_length in Hlen. cbn [length] in Hlen.
    assert (Ef : SEARCH_FUEL = length w + S (SEARCH_FUEL - S (length w))) by lia. rewrite Ef.
    destruct (search_rewalk h v Hos w (v_root v) p [] [cl] (w ++ [cl]) (S (SEARCH_FUEL - S (length w))) SlLstat (v_root v)
                (pi_new Linux (abs_path (w ++ [cl]))) 0 None ltac:(discriminate) eq_refl Hok (pi_new_before _) Hw Hrp)
      as (pi' & Hb & ->). cbn [app] in Hb.
    rewrite (search_loop_on h v Hos _ SlLstat (v_root v) p pi' 0 None w [] cl Hok Hb). cbv zeta.
    destruct (dwalk_end_dir _ _ _ _ _ Hw Hrd Hrp) as (Hpd & Hpk).
    rewrite (root_check_pass _ _ _ _ Hpk), Hl. destruct (node_is_dir_get _ _ Hd) as (ch & m & Hgc). rewrite Hgc.
    cbn [is_nil sr_child sr_err is_file_exists]. rewrite Hgc, <- (kperm_dir h _ ch m _ Hgc).
    destruct (kperm h (sv_cwd sv) 1 (v_user v)) eqn:Hk; cbn [negb proj_res]; [|reflexivity].
    assert (Hwc : dwalk h (v_user v) (v_root v) (w ++ [cl]) = Some (sv_cwd sv)) by exact (dwalk_snoc _ _ _ _ _ _ _ Hw Hl Hd Hk).
    destruct (getwd_agree h (v_user v) (v_root v) I Hrd Hrp (w ++ [cl]) (sv_cwd sv) Hg Hwc) as (_ & G2 & G3).
    rewrite G2, G3. reflexivity.
Qed.
