(* Executable model of vfs/orefafs (OrefaFS): the path-indexed node map
   [vfs.nodes : map[absPath]*node] as an association list into a heap of nodes
   (two keys may map to one node: hard links, and the root directory, which is
   registered under "" - the directory part of "/name" - and under "/"), the
   per-node [children] maps, and every namespace call of orefafs.go /
   orefafs_internal.go, mirrored call by call.

   OrefaFS has no symbolic links, no Sub, and performs no permission check.
   Lock acquisitions are not modelled as state; the places where the Go code
   would take the same node lock twice are explicit tests that yield RDeadlock,
   the slice expressions that can fail yield RPanic. *)
From Avfs Require Import Base PathModel MemFS MemFile.
Set Implicit Arguments.

(* ---- nodes (orefafs_types.go: type node struct) ------------------------- *)
(* One struct for directories and files; the type is the ModeDir bit of mode. *)
Record onode := {
  on_ch : list (str * nat);      (* children (nil and empty are not distinguished) *)
  on_data : list N;
  on_nlink : Z;
  on_id : N;
  on_meta : meta                 (* mode, uid, gid *)
}.

Definition oheap := list onode.
Definition oget (h : oheap) (i : nat) : option onode := nth_error h i.

Fixpoint oupd (h : oheap) (i : nat) (n : onode) : oheap :=
  match h, i with
  | [], _ => []
  | _ :: h', O => n :: h'
  | x :: h', S i' => x :: oupd h' i' n
  end.

Definition on_dir (n : onode) : bool := has (m_mode (on_meta n)) MODE_DIR.

Definition on_with_ch (n : onode) (ch : list (str * nat)) : onode :=
  {| on_ch := ch; on_data := on_data n; on_nlink := on_nlink n; on_id := on_id n; on_meta := on_meta n |}.
Definition on_with_data (n : onode) (d : list N) : onode :=
  {| on_ch := on_ch n; on_data := d; on_nlink := on_nlink n; on_id := on_id n; on_meta := on_meta n |}.
Definition on_with_nlink (n : onode) (k : Z) : onode :=
  {| on_ch := on_ch n; on_data := on_data n; on_nlink := k; on_id := on_id n; on_meta := on_meta n |}.
Definition on_with_meta (n : onode) (m : meta) : onode :=
  {| on_ch := on_ch n; on_data := on_data n; on_nlink := on_nlink n; on_id := on_id n; on_meta := m |}.

(* node.remove(), orefafs_internal.go *)
Definition on_remove (n : onode) : onode :=
  let k := (on_nlink n - 1)%Z in      (* the data stay for the handles still open on the node *)
  {| on_ch := []; on_data := on_data n; on_nlink := k; on_id := on_id n;
     on_meta := on_meta n |}.

(* ---- the file system ------------------------------------------------------- *)
Record ofs := {
  o_index : list (str * nat);    (* vfs.nodes *)
  o_heap : oheap;
  o_last_id : N;                 (* *vfs.lastId *)
  o_cwd : str;                   (* CurDirFn *)
  o_user : user;                 (* CurUserFn *)
  o_umask : N;                   (* UMaskFn *)
  o_os : ostype
}.

Definition o_with (s : ofs) (idx : list (str * nat)) (h : oheap) : ofs :=
  {| o_index := idx; o_heap := h; o_last_id := o_last_id s; o_cwd := o_cwd s; o_user := o_user s;
     o_umask := o_umask s; o_os := o_os s |}.
Definition o_with_heap (s : ofs) (h : oheap) : ofs := o_with s (o_index s) h.
Definition o_with_cwd (s : ofs) (d : str) : ofs :=
  {| o_index := o_index s; o_heap := o_heap s; o_last_id := o_last_id s; o_cwd := d; o_user := o_user s;
     o_umask := o_umask s; o_os := o_os s |}.
Definition o_with_user (s : ofs) (u : user) : ofs :=
  {| o_index := o_index s; o_heap := o_heap s; o_last_id := o_last_id s; o_cwd := o_cwd s; o_user := u;
     o_umask := o_umask s; o_os := o_os s |}.
Definition o_with_umask (s : ofs) (m : N) : ofs :=
  {| o_index := o_index s; o_heap := o_heap s; o_last_id := o_last_id s; o_cwd := o_cwd s; o_user := o_user s;
     o_umask := m; o_os := o_os s |}.

Definition owin (s : ofs) : bool := ostype_eqb (o_os s) Windows.

(* nd, ok := vfs.nodes[key] *)
Definition ikey (idx : list (str * nat)) (k : str) : option nat := alookup str_eqb k idx.
Definition ofind (s : ofs) (k : str) : option (nat * onode) :=
  match ikey (o_index s) k with
  | Some i => match oget (o_heap s) i with Some n => Some (i, n) | None => None end
  | None => None
  end.

Definition oabs (s : ofs) (p : str) : str := abs (o_os s) (o_cwd s) p.

(* avfs.SplitAbs (vfs.go:519); None = the slice expression path[:i] with i = -1 panics *)
Definition osplit (os : ostype) (path : str) : option (str * str) :=
  if Nat.eqb (last_sep_cut os path (volume_name_len os path) (length path)) 0 then None
  else Some (split_abs os path).

(* ---- mutators -------------------------------------------------------------- *)
(* parent.addChild(name, c) *)
Definition o_add_child (h : oheap) (parent : nat) (name : str) (c : nat) : oheap :=
  match oget h parent with
  | Some n => oupd h parent (on_with_ch n (aset str_eqb name c (on_ch n)))
  | None => h
  end.

(* delete(parent.children, name) *)
Definition o_del_child (h : oheap) (parent : nat) (name : str) : oheap :=
  match oget h parent with
  | Some n => oupd h parent (on_with_ch n (aremove str_eqb name (on_ch n)))
  | None => h
  end.

(* nd.remove() on the node at c *)
Definition o_release (h : oheap) (c : nat) : oheap :=
  match oget h c with Some n => oupd h c (on_remove n) | None => h end.

(* createNode, orefafs_internal.go: allocate, link into the parent, register the key *)
Definition o_create_node (s : ofs) (parent : nat) (abs_path name : str) (mode : N) : ofs * nat :=
  let c := length (o_heap s) in
  let id := (o_last_id s + 1)%N in
  (* in a set-group-ID directory the node inherits the group of the directory, a new directory also the bit *)
  let pm := match oget (o_heap s) parent with Some n => on_meta n | None => {| m_mode := 0; m_uid := 0; m_gid := 0 |} end in
  let inherit := has (m_mode pm) MODE_SETGID in
  let gid := if inherit then m_gid pm else us_gid (o_user s) in
  let mode1 := if inherit && has mode MODE_DIR then N.lor mode MODE_SETGID else mode in
  let nd := {| on_ch := []; on_data := []; on_nlink := 1; on_id := id;
               on_meta := {| m_mode := mode1; m_uid := us_uid (o_user s); m_gid := gid |} |} in
  ({| o_index := aset str_eqb abs_path c (o_index s);
      o_heap := o_add_child (o_heap s ++ [nd]) parent name c;
      o_last_id := id; o_cwd := o_cwd s; o_user := o_user s; o_umask := o_umask s; o_os := o_os s |}, c).

(* createDir: mode = dirMode | perm & (ModePerm|ModeSticky) &^ umask *)
Definition o_create_dir (s : ofs) (parent : nat) (abs_path name : str) (perm : N) : ofs * nat :=
  o_create_node s parent abs_path name
    (N.lor (dir_mode (o_os s)) (N.ldiff (N.land perm (511 + MODE_STICKY)) (o_umask s))).

(* createFile: mode = fileMode | perm & FileModeMask &^ umask *)
Definition o_create_file (s : ofs) (parent : nat) (abs_path name : str) (perm : N) : ofs * nat :=
  o_create_node s parent abs_path name
    (N.lor (file_mode (o_os s)) (N.ldiff (N.land perm FILE_MODE_MASK) (o_umask s))).

(* fillStatFrom *)
Definition o_fill (n : onode) (name : str) : finfo :=
  {| fi_name := name;
     fi_size := if on_dir n then Z.of_nat (length (on_ch n)) else Z.of_nat (length (on_data n));
     fi_mode := m_mode (on_meta n); fi_uid := m_uid (on_meta n); fi_gid := m_gid (on_meta n);
     fi_nlink := on_nlink n; fi_id := on_id n |}.

(* ---- namespace calls --------------------------------------------------------- *)
(* errNotFound, orefafs_internal.go: the result for a missing node - the not-a-directory error if the
   nearest existing ancestor is not a directory, else [no_ent] (an error, or nil for RemoveAll):
     for len(dirName) > VolumeNameLen(dirName) { dirName, _ = SplitAbs(dirName); nd, ok := nodes[dirName]; ... } *)
Fixpoint o_enf_loop (fuel : nat) (s : ofs) (dir_name : str) (no_ent : res) : res :=
  match fuel with
  | O => RPanic
  | S f =>
      if Nat.leb (length dir_name) (volume_name_len (o_os s) dir_name) then no_ent
      else
        match osplit (o_os s) dir_name with
        | None => RPanic
        | Some (d, _) =>
            match ofind s d with
            | Some (_, n) => if on_dir n then no_ent else RFail ENotADirectory
            | None => o_enf_loop f s d no_ent
            end
        end
  end.
Definition o_enf (s : ofs) (abs_path : str) (no_ent : res) : res := o_enf_loop (S (length abs_path)) s abs_path no_ent.

(* the loop of Mkdir that looks for the nearest existing ancestor:
     for !parentOk { dirName, _ = SplitAbs(dirName); parent, parentOk = nodes[dirName] }
   None: SplitAbs panicked (no separator left) or the fuel ran out *)
Fixpoint o_up_loop (fuel : nat) (s : ofs) (dir_name : str) : option onode :=
  match fuel with
  | O => None
  | S f =>
      match osplit (o_os s) dir_name with
      | None => None
      | Some (d, _) =>
          match ofind s d with
          | Some (_, n) => Some n
          | None => o_up_loop f s d
          end
      end
  end.

(* Mkdir, orefafs.go *)
Definition o_mkdir (s : ofs) (name : str) (perm : N) : ofs * res :=
  match name with
  | [] => (s, RFail ENoSuchDir)
  | _ =>
      let abs_path := oabs s name in
      match osplit (o_os s) abs_path with
      | None => (s, RPanic)
      | Some (dir_name, file_name) =>
          match ofind s abs_path with
          | Some _ => (s, RFail EFileExists)
          | None =>
              match ofind s dir_name with
              | None => (s, o_enf s abs_path (RFail ENoSuchDir))
              | Some (pi, pn) =>
                  if negb (on_dir pn) then (s, RFail ENotADirectory)
                  else (fst (o_create_dir s pi abs_path file_name perm), ROk)
              end
          end
      end
  end.

(* the first loop of MkdirAll: collects the missing directories, deepest first.
   inl = error result, inr = (missing paths, existing ancestor) *)
Fixpoint o_missing (fuel : nat) (s : ofs) (dir_name : str) (ds : list str) : res + (list str * nat) :=
  match fuel with
  | O => inl RPanic
  | S f =>
      match ofind s dir_name with
      | Some (i, n) => if on_dir n then inr (ds, i) else inl (RErrPath ENotADirectory dir_name)
      | None =>
          if Nat.leb (length dir_name) (volume_name_len (o_os s) dir_name) then inl (RFail ENoSuchDir)   (* no such volume *)
          else
          match osplit (o_os s) dir_name with
          | None => inl RPanic
          | Some (d, _) => o_missing f s d (ds ++ [dir_name])
          end
      end
  end.

(* the second loop (after the fix: from the shallowest to the deepest missing directory) *)
Fixpoint o_create_chain (s : ofs) (parent : nat) (paths : list str) (perm : N) : ofs :=
  match paths with
  | [] => s
  | p :: rest =>
      let '(s1, c) := o_create_dir s parent p (snd (split_abs (o_os s) p)) perm in
      o_create_chain s1 c rest perm
  end.

(* MkdirAll, orefafs.go *)
Definition o_mkdir_all (s : ofs) (path : str) (perm : N) : ofs * res :=
  let abs_path := oabs s path in
  match ofind s abs_path with
  | Some (_, n) => if on_dir n then (s, ROk) else (s, RFail ENotADirectory)
  | None =>
      match o_missing (S (length abs_path)) s abs_path [] with
      | inl r => (s, r)
      | inr (ds, parent) => (o_create_chain s parent (rev ds) perm, ROk)
      end
  end.

(* OpenFile, orefafs.go *)
Definition o_open_file (s : ofs) (name : str) (flag perm : N) : ofs * (res + handle) :=
  let om := to_open_mode flag in
  let abs_path := oabs s name in
  match osplit (o_os s) abs_path with
  | None => (s, inl RPanic)
  | Some (dir_name, file_name) =>
      match ofind s abs_path with
      | None =>
          match ofind s dir_name with
          | None => (s, inl (o_enf s abs_path (RFail ENoSuchDir)))
          | Some (pi, pn) =>
              if negb (on_dir pn) then (s, inl (RFail ENotADirectory))
              else if negb (has om OpenCreate) then (s, inl (RFail ENoSuchFile))
              else
                let '(s1, c) := o_create_file s pi abs_path file_name perm in
                (s1, inr (new_handle c 0 name 0 om))
          end
      | Some (c, cn) =>
          if on_dir cn then
            if has om OpenCreateExcl then (s, inl (RFail EFileExists))
            else if has om OpenWrite || has om OpenCreate || has om OpenTruncate then (s, inl (RFail EIsADirectory))
            else (s, inr (new_handle c 0 name 0 om))
          else
            if has om OpenCreateExcl then (s, inl (RFail EFileExists))
            else
              let d1 := if has om OpenTruncate then [] else on_data cn in
              let at_ := 0%Z in       (* every new handle starts at offset 0, O_APPEND or not *)
              (o_with_heap s (oupd (o_heap s) c (on_with_data cn d1)), inr (new_handle c 0 name at_ om))
      end
  end.

(* Remove, orefafs.go *)
Definition o_remove (s : ofs) (name : str) : ofs * res :=
  let abs_path := oabs s name in
  match osplit (o_os s) abs_path with
  | None => (s, RPanic)
  | Some (dir_name, file_name) =>
      match ofind s abs_path, ofind s dir_name with
      | Some (c, cn), Some (pi, _) =>
          if Nat.eqb c pi then (s, RFail EInvalidArgument)              (* the root directory *)
          else if on_dir cn && match on_ch cn with [] => false | _ => true end then (s, RFail EDirNotEmpty)
          else
            (o_with s (aremove str_eqb abs_path (o_index s))
                    (o_del_child (o_release (o_heap s) c) pi file_name), ROk)
      | _, _ => (s, o_enf s abs_path (RFail ENoSuchFile))
      end
  end.

(* removeAll (recursive), orefafs.go: follows the children maps, deletes the keys built from the
   path strings.  The order in which a Go map is ranged over is unspecified; every visit deletes
   one key and releases one node, and these effects commute. *)
Fixpoint o_rm_all (fuel : nat) (os : ostype) (st : list (str * nat) * oheap) (abs_path : str) (i : nat)
  : list (str * nat) * oheap :=
  match fuel with
  | O => st
  | S f =>
      let st1 :=
        match oget (snd st) i with
        | Some n =>
            if on_dir n then
              fold_left (fun acc (e : str * nat) => o_rm_all f os acc (abs_path ++ [sepc os] ++ fst e) (snd e))
                        (on_ch n) st
            else st
        | None => st
        end in
      (aremove str_eqb abs_path (fst st1), o_release (snd st1) i)
  end.

(* RemoveAll, orefafs.go *)
Definition o_remove_all (s : ofs) (path : str) : ofs * res :=
  match path with
  | [] => (s, ROk)
  | _ =>
      let abs_path := oabs s path in
      match osplit (o_os s) abs_path with
      | None => (s, RPanic)
      | Some (dir_name, file_name) =>
          match ofind s abs_path, ofind s dir_name with
          | Some (c, _), Some (pi, _) =>
              if Nat.eqb c pi then (s, RFail EInvalidArgument)          (* the root directory *)
              else
                let '(idx1, h1) := o_rm_all (S (length (o_heap s))) (o_os s) (o_index s, o_heap s) abs_path c in
                (o_with s idx1 (o_del_child h1 pi file_name), ROk)
          | _, _ => (s, o_enf s abs_path ROk)      (* a missing path is not an error, a path below a file is *)
          end
      end
  end.

(* The key rewrite of Rename for a directory:
     for absPath, node := range vfs.nodes {
       if strings.HasPrefix(absPath, oRoot) { vfs.nodes[nAbsPath+absPath[len(oAbsPath):]] = node; delete(vfs.nodes, absPath) } }
   The Go loop ranges over the map it mutates.  [order] is the sequence of keys the range statement
   produces: every key present when the loop starts and not deleted before it is reached is produced
   exactly once; a key inserted by the loop may or may not be produced (Go leaves both the order and
   this choice unspecified).  [o_rekey_go] is the loop for one such sequence. *)
Definition o_rekey_step (os : ostype) (o_abs n_abs : str) (idx : list (str * nat)) (k : str) : list (str * nat) :=
  match ikey idx k with
  | Some i =>
      if is_prefix (o_abs ++ [sepc os]) k
      then aremove str_eqb k (aset str_eqb (n_abs ++ skipn (length o_abs) k) i idx)
      else idx
  | None => idx
  end.

Definition o_rekey_go (os : ostype) (o_abs n_abs : str) (order : list str) (idx : list (str * nat)) : list (str * nat) :=
  fold_left (o_rekey_step os o_abs n_abs) order idx.

(* What the model's Rename uses: every key below the old path is re-keyed in place.  As a map this is
   what the loop above computes for every admissible [order] when no re-keyed path collides with or lies
   below the old path (Rename refuses to move a directory into itself, and nothing lies below the new
   name, which does not exist): the loop visits every key that matches once, the keys it inserts never
   match, so neither the order nor whether inserted keys are visited matters.  The list order of the
   association list is not observable (all accesses are look-ups). *)
Definition o_rekey (os : ostype) (o_abs n_abs : str) (idx : list (str * nat)) : list (str * nat) :=
  map (fun e : str * nat =>
         if is_prefix (o_abs ++ [sepc os]) (fst e) then (n_abs ++ skipn (length o_abs) (fst e), snd e) else e) idx.

(* Rename, orefafs.go *)
Definition o_rename (s : ofs) (oldname newname : str) : ofs * res :=
  let o_abs := oabs s oldname in
  let n_abs := oabs s newname in
  match osplit (o_os s) o_abs, osplit (o_os s) n_abs with
  | Some (o_dir, o_file), Some (n_dir, n_file) =>
      match ofind s o_dir, ofind s n_dir, ofind s o_abs with
      | Some (_, opn), Some (_, npn), None =>
          if negb (on_dir opn) || negb (on_dir npn) then (s, RFail ENotADirectory)
          else (s, o_enf s o_abs (RFail ENoSuchFile))
      | Some (op, opn), Some (np, npn), Some (oc, ocn) =>
          let nchild := ofind s n_abs in
          if negb (on_dir opn) || negb (on_dir npn) then (s, RFail ENotADirectory)
          else
            let n_is_dir := match nchild with Some (_, nn) => on_dir nn | None => false end in
            let n_ok := match nchild with Some _ => true | None => false end in
            if n_is_dir
            then
              (* the same directory under another spelling of its path: nothing to do (as os.Rename) *)
              if match nchild with Some (nc, _) => Nat.eqb nc oc | None => false end && negb (str_eqb oldname newname)
              then (s, ROk)
              else (s, RFail (if owin s then EW_AccessDenied else EFileExists))
            else if on_dir ocn && (Nat.eqb oc op || is_prefix (o_abs ++ [sepc (o_os s)]) n_abs)
            then (s, RFail EInvalidArgument)
            else if on_dir ocn && n_ok
            then (s, RFail (if owin s then EW_AccessDenied else ENotADirectory))
            else if match nchild with Some (nc, _) => Nat.eqb nc oc | None => false end
            then (s, ROk)
            else
              let h0 := o_heap s in
              let h1 := match nchild with Some (nc, _) => o_release h0 nc | None => h0 end in
              let h2 := o_add_child h1 np n_file oc in
              let h3 := o_del_child h2 op o_file in
              let idx1 := aremove str_eqb o_abs (aset str_eqb n_abs oc (o_index s)) in
              let idx2 := if on_dir ocn then o_rekey (o_os s) o_abs n_abs idx1 else idx1 in
              (o_with s idx2 h3, ROk)
      | Some (_, opn), None, _ =>
          if negb (on_dir opn) then (s, RFail ENotADirectory) else (s, o_enf s n_abs (RFail ENoSuchFile))
      | None, _, _ => (s, o_enf s o_abs (RFail ENoSuchFile))
      end
  | _, _ => (s, RPanic)
  end.

(* Link, orefafs.go *)
Definition o_link (s : ofs) (oldname newname : str) : ofs * res :=
  let o_abs := oabs s oldname in
  let n_abs := oabs s newname in
  match osplit (o_os s) n_abs with
  | None => (s, RPanic)
  | Some (n_dir, n_file) =>
      match ofind s o_abs with
      | None =>
          if owin s then
            match osplit (o_os s) o_abs with
            | None => (s, RPanic)
            | Some (o_dir, _) =>
                (s, match ofind s o_dir with Some _ => o_enf s o_abs (RFail ENoSuchFile) | None => RFail ENoSuchDir end)
            end
          else (s, o_enf s o_abs (RFail ENoSuchFile))
      | Some (oc, ocn) =>
          match ofind s n_dir with
          | None => (s, o_enf s n_abs (RFail ENoSuchFile))
          | Some (np, npn) =>
              if negb (on_dir npn) then (s, RFail ENotADirectory)
              else match ofind s n_abs with
                   | Some _ => (s, RFail (if owin s then EW_AlreadyExists else EFileExists))
                   | None =>
                       if on_dir ocn then (s, RFail (if owin s then EW_AccessDenied else EC_OpNotPermitted)) else
                       let h1 := o_add_child (o_heap s) np n_file oc in
                       let h2 := match oget h1 oc with
                                 | Some n => oupd h1 oc (on_with_nlink n (on_nlink n + 1))
                                 | None => h1
                                 end in
                       (o_with s (aset str_eqb n_abs oc (o_index s)) h2, ROk)
                   end
          end
      end
  end.

(* Truncate, orefafs.go *)
Definition o_truncate (s : ofs) (name : str) (size : Z) : ofs * res :=
  if Z.ltb size 0 && negb (owin s) then (s, RFail EInvalidArgument)
  else match ofind s (oabs s name) with
       | None => (s, o_enf s (oabs s name) (RFail ENoSuchFile))
       | Some (c, cn) =>
           if on_dir cn then (s, RFail EIsADirectory)
           else if Z.ltb size 0 then (s, RFail EInvalidArgument)
           else (o_with_heap s (oupd (o_heap s) c (on_with_data cn (truncate_data (on_data cn) size))), ROk)
       end.

(* Chmod *)
Definition o_chmod (s : ofs) (name : str) (mode : N) : ofs * res :=
  match ofind s (oabs s name) with
  | None => (s, o_enf s (oabs s name) (RFail ENoSuchFile))
  | Some (c, cn) => (o_with_heap s (oupd (o_heap s) c (on_with_meta cn (with_mode (on_meta cn) mode))), ROk)
  end.

(* node.setOwner: as chown(2) by an administrator, the set-user-ID bit of a node that is not a directory is cleared,
   and its set-group-ID bit when the group-execute bit is set *)
Definition o_chown_meta (m : meta) (uid gid : Z) : meta :=
  let m1 := if has (m_mode m) MODE_DIR then m
            else let a := N.ldiff (m_mode m) MODE_SETUID in
                 {| m_mode := if has (m_mode m) 8 then N.ldiff a MODE_SETGID else a; m_uid := m_uid m; m_gid := m_gid m |} in
  with_owner m1 uid gid.

(* Chown / Lchown (identical: there are no symbolic links) *)
Definition o_chown (s : ofs) (name : str) (uid gid : Z) : ofs * res :=
  if owin s then (s, RFail EOpNotPermitted)
  else match ofind s (oabs s name) with
       | None => (s, o_enf s (oabs s name) (RFail ENoSuchFile))
       | Some (c, cn) =>
           (o_with_heap s (oupd (o_heap s) c (on_with_meta cn (o_chown_meta (on_meta cn) uid gid))), ROk)
       end.

(* Chtimes (the time itself is not modelled) *)
Definition o_chtimes (s : ofs) (name : str) : res :=
  match ofind s (oabs s name) with None => o_enf s (oabs s name) (RFail ENoSuchFile) | Some _ => ROk end.

(* Chdir *)
Definition o_chdir (s : ofs) (dir : str) : ofs * res :=
  let abs_path := oabs s dir in
  match ofind s abs_path with
  | None => (s, o_enf s abs_path (RFail ENoSuchFile))
  | Some (_, n) =>
      if on_dir n then (o_with_cwd s abs_path, ROk)
      else (s, RFail (if owin s then EW_DirNameInvalid else ENotADirectory))
  end.

(* stat, the function behind Stat and Lstat *)
Definition o_stat (s : ofs) (path : str) : res :=
  let abs_path := oabs s path in
  match osplit (o_os s) abs_path with
  | None => RPanic
  | Some (dir_name, _) =>
      match ofind s abs_path with
      | Some (_, n) => RInfo (o_fill n (base (o_os s) path))
      | None =>
          match ofind s dir_name with
          | None => o_enf s abs_path (RFail ENoSuchDir)
          | Some (_, pn) => if on_dir pn then RFail ENoSuchFile else RFail ENotADirectory
          end
      end
  end.

(* the calls OrefaFS refuses: it has no symbolic links and no Sub.
   (the Windows value of Symlink, ErrWinPrivilegeNotHeld, has no counterpart in [ekind]) *)
Definition o_eval_symlinks (s : ofs) (path : str) : res := RFail EPermDenied.
Definition o_readlink (s : ofs) (name : str) : res := RFail (if owin s then EW_NotReparsePoint else EPermDenied).
Definition o_symlink (s : ofs) (oldname newname : str) : res := RFail (if owin s then EW_NotSupported else EPermDenied).
Definition o_sub (s : ofs) (dir : str) : res := RFail EPermDenied.

(* ---- open files (orefafs_file.go: OrefaFile) -------------------------------- *)
(* The handle record of MemFS.v is reused (hd_view is always 0).  The methods have the structure of
   MemFile.v; they differ in what OrefaFile does differently: the node type test is the ModeDir bit,
   there is no permission check in Chmod/Chown, Truncate tests the size last. *)
Section OFileOps.
  Variable s : ofs.
  Variable f : handle.

  Let h := o_heap s.
  Let isw := owin s.

  (* the common prologue: name == "" -> ErrInvalid ; nd == nil -> [closed] *)
  Definition o_prologue {A} (closed : ekind) (fail : ekind -> A) (k : nat -> onode -> A) : A :=
    match hd_name f with
    | [] => fail EG_Invalid
    | _ =>
        match hd_node f with
        | None => fail closed
        | Some c => match oget h c with Some n => k c n | None => fail EFuel end
        end
    end.

  Definition o_set_at (at_ : Z) : handle :=
    {| hd_node := hd_node f; hd_view := hd_view f; hd_name := hd_name f; hd_at := at_; hd_mode := hd_mode f;
       hd_dir_infos := hd_dir_infos f; hd_dir_names := hd_dir_names f; hd_dir_index := hd_dir_index f |}.

  Definition of_read (n : Z) : handle * res :=
    o_prologue EG_Closed (fun e => (f, RFail e)) (fun c nd =>
      if Z.leb n 0 then (f, RBytes 0 [] None)            (* an empty buffer: (0, nil) at once *)
      else if on_dir nd then (f, RFail (if isw then EW_IncorrectFunc else EC_IsADirectory))
      else if negb (has (hd_mode f) OpenRead) then (f, RFail EBadFileDesc)
      else
        let got := firstn (Z.to_nat n) (skipn (Z.to_nat (hd_at f)) (on_data nd)) in
        let k := Z.of_nat (length got) in
        if Z.eqb k 0 then (o_set_at (hd_at f + k), RBytes 0 [] (Some EG_EOF))
        else (o_set_at (hd_at f + k), RBytes k got None)).

  Definition of_read_at (n off : Z) : res :=
    if Z.ltb off 0 then RFail EG_NegativeOffset          (* the offset, then the empty buffer, before the handle *)
    else if Z.leb n 0 then RBytes 0 [] None
    else
    o_prologue EG_Closed (fun e => RFail e) (fun c nd =>
      if on_dir nd then RFail (if isw then EW_IncorrectFunc else EC_IsADirectory)
      else if negb (has (hd_mode f) OpenRead) then RFail EBadFileDesc
      else if Z.ltb (Z.of_nat (length (on_data nd))) off then RBytes 0 [] (Some EG_EOF)
      else
        let got := firstn (Z.to_nat n) (skipn (Z.to_nat off) (on_data nd)) in
        let k := Z.of_nat (length got) in
        if Z.ltb k n then RBytes k got (Some EG_EOF) else RBytes k got None).

  Definition of_write (b : list N) : ofs * handle * res :=
    o_prologue EG_Closed (fun e => (s, f, RFail e)) (fun c nd =>
      if on_dir nd || negb (has (hd_mode f) OpenWrite)
      then (s, f, RFail (if isw then EW_AccessDenied else EC_BadFileDesc))
      else match b with [] => (s, f, RInt 0) | _ =>       (* zero bytes: nothing changes *)
        let at_ := if has (hd_mode f) OpenAppend then Z.of_nat (length (on_data nd)) else hd_at f in
        let d' := write_at_data (on_data nd) (Z.to_nat at_) b in
        (o_with_heap s (oupd h c (on_with_data nd d')), o_set_at (at_ + Z.of_nat (length b)),
         RInt (Z.of_nat (length b))) end).

  Definition of_write_at (b : list N) (off : Z) : ofs * res :=
    if has (hd_mode f) OpenAppend then (s, RFail EG_WriteAtInAppendMode)   (* refused on an O_APPEND handle, first of all *)
    else if Z.ltb off 0 then (s, RFail EG_NegativeOffset)
    else match b with [] => (s, RInt 0) | _ =>            (* zero bytes: (0, nil) at once *)
      o_prologue EG_Closed (fun e => (s, RFail e)) (fun c nd =>
        if on_dir nd || negb (has (hd_mode f) OpenWrite)
        then (s, RFail (if isw then EW_AccessDenied else EC_BadFileDesc))
        else
          let d' := write_at_data (on_data nd) (Z.to_nat off) b in
          (o_with_heap s (oupd h c (on_with_data nd d')), RInt (Z.of_nat (length b)))) end.

  Definition of_seek (offset whence : Z) : handle * res :=
    o_prologue EG_Closed (fun e => (f, RFail e)) (fun c nd =>
      if on_dir nd then
        (* Seek(0, io.SeekStart) rewinds (drops the listing), any other Seek on a directory does nothing *)
        if Z.eqb offset 0 && Z.eqb whence 0
        then ({| hd_node := hd_node f; hd_view := hd_view f; hd_name := hd_name f; hd_at := hd_at f;
                 hd_mode := hd_mode f; hd_dir_infos := None; hd_dir_names := hd_dir_names f;
                 hd_dir_index := 0 |}, RInt 0)
        else (f, RInt 0)
      else
        let size := Z.of_nat (length (on_data nd)) in
        let target := if Z.eqb whence 0 then Some offset
                      else if Z.eqb whence 1 then Some (hd_at f + offset)%Z
                      else if Z.eqb whence 2 then Some (size + offset)%Z
                      else None in
        match target with
        | None => if isw then (f, RInt 0) else (f, RFail EInvalidArgument)
        | Some t => if Z.ltb t 0 then (f, RFail EInvalidArgument) else (o_set_at t, RInt t)
        end).

  Definition of_truncate (size : Z) : ofs * res :=
    o_prologue EG_Closed (fun e => (s, RFail e)) (fun c nd =>
      if on_dir nd || negb (has (hd_mode f) OpenWrite)
      then (s, RFail (if isw then EW_AccessDenied else EC_InvalidArgument))
      else if Z.ltb size 0 then (s, RFail EInvalidArgument)
      else (o_with_heap s (oupd h c (on_with_data nd (truncate_data (on_data nd) size))), ROk)).

  Definition of_stat : res :=
    o_prologue (if isw then EW_InvalidHandle else EG_FileClosing) (fun e => RFail e)
      (fun c nd => RInfo (o_fill nd (base (o_os s) (hd_name f)))).

  Definition of_chmod (mode : N) : ofs * res :=
    o_prologue EG_Closed (fun e => (s, RFail e)) (fun c nd =>
      (o_with_heap s (oupd h c (on_with_meta nd (with_mode (on_meta nd) mode))), ROk)).

  Definition of_chown (uid gid : Z) : ofs * res :=
    o_prologue EG_Closed (fun e => (s, RFail e)) (fun c nd =>
      if isw then (s, RFail EW_NotSupported)
      else (o_with_heap s (oupd h c (on_with_meta nd (o_chown_meta (on_meta nd) uid gid))), ROk)).

  Definition of_chdir : ofs * res :=
    o_prologue EG_Closed (fun e => (s, RFail e)) (fun c nd =>
      if on_dir nd then (o_with_cwd s (oabs s (hd_name f)), ROk)
      else (s, RFail (if isw then EW_DirNameInvalid else EC_NotADirectory))).

  (* nd.dirEntries() / nd.dirNames(): sorted by name *)
  Definition o_dir_infos (ch : list (str * nat)) : list finfo :=
    sort_by (@fi_name)
      (flat_map (fun '(name, c) => match oget h c with Some n => [o_fill n name] | None => [] end) ch).

  Definition o_set_dir (infos : option (list finfo)) (names : option (list str)) (ix : nat) : handle :=
    {| hd_node := hd_node f; hd_view := hd_view f; hd_name := hd_name f; hd_at := hd_at f; hd_mode := hd_mode f;
       hd_dir_infos := infos; hd_dir_names := names; hd_dir_index := ix |}.

  (* ReadDir(n) and Readdirnames(n): one cursor over one listing taken by the first read (MemFile.dir_batch) *)
  Definition o_dir_read (n : Z) (ret : list finfo -> option ekind -> res) : handle * res :=
    o_prologue (if isw then EW_InvalidHandle else EG_FileClosing) (fun e => (f, RFail e)) (fun c nd =>
      if negb (on_dir nd) then (f, RFail ENotADirectory)
      else
        let l := match hd_dir_infos f with Some l => l | None => o_dir_infos (on_ch nd) end in
        let ix := match hd_dir_infos f with Some _ => hd_dir_index f | None => 0%nat end in
        match dir_batch n l ix with
        | None => (o_set_dir (Some l) (hd_dir_names f) ix, ret [] (Some EG_EOF))
        | Some (b, e) => (o_set_dir (Some l) (hd_dir_names f) e, ret b None)
        end).

  Definition of_read_dir (n : Z) : handle * res := o_dir_read n (fun l e => RInfos l e).
  Definition of_readdirnames (n : Z) : handle * res := o_dir_read n (fun l e => RNames (map (@fi_name) l) e).
End OFileOps.

(* ---- composites of vfs.go over OpenFile (as in MemFile.v) -------------------- *)
Definition o_read_dir (s : ofs) (name : str) : res :=
  match o_open_file s name 0 0 with
  | (_, inl r) => r
  | (s1, inr f) => snd (of_read_dir s1 f (-1))
  end.

(* ReadFile: OpenFile(O_RDONLY) ; Stat (size hint) ; Read until io.EOF or an error *)
Definition o_read_file (s : ofs) (name : str) : res :=
  match o_open_file s name 0 0 with
  | (_, inl r) => r
  | (s1, inr f) =>
      let size := match hd_node f with
                  | Some c => match oget (o_heap s1) c with
                              | Some n => if on_dir n then Z.of_nat (length (on_ch n)) else Z.of_nat (length (on_data n))
                              | None => 0%Z
                              end
                  | None => 0%Z
                  end in
      match of_read s1 f (size + 512) with
      | (_, RBytes k b _) => RBytes k b None
      | (_, r) => r
      end
  end.

Definition o_write_file (s : ofs) (name : str) (data : list N) (perm : N) : ofs * res :=
  match o_open_file s name (O_WRONLY + O_CREATE + O_TRUNC) perm with
  | (_, inl r) => (s, r)
  | (s1, inr f) =>
      match of_write s1 f data with
      | (s2, _, RInt _) => (s2, ROk)
      | (s2, _, r) => (s2, r)
      end
  end.
