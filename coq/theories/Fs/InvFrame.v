(* Property C05, frame: a successful call changes only the entries it names and
   only the nodes it names.

   [frame h h' E N]: the heap only grows; every (directory, name) pair outside the
   list E looks up the same target in h' as in h; every node of h outside the list N
   keeps its payload (kind, data, link count, identity, mode, owner - everything but
   the entry list of a directory, which the first clause describes).

   The entries and nodes a call names are read off the result of its path walk:
   [named1 r] = (returned parent, last part of the iterator), [childl r] = the
   returned child.  Proved by inspection of the code of each call; no invariant is
   needed, except for WriteFile where the walk's postcondition rules out a branch. *)
From Avfs Require Import Base BaseProofs PathModel MemFS MemFile World Inv InvMutators InvSearch.

Definition payload (n : node) : node := match n with NDir _ m => NDir [] m | x => x end.
Definition lk (h : heap) (d : nat) (n : str) : option nat := alk n (children h d).

Record frame (h h' : heap) (E : list (nat * str)) (N : list nat) : Prop := {
  fr_len : length h <= length h';
  fr_ent : forall d n, ~ In (d, n) E -> lk h' d n = lk h d n;
  fr_node : forall i, i < length h -> ~ In i N -> option_map payload (get h' i) = option_map payload (get h i)
}.

Lemma frame_refl h : frame h h [] [].
Proof. split; auto. Qed.

Lemma frame_weaken h h' E N E' N' : frame h h' E N -> incl E E' -> incl N N' -> frame h h' E' N'.
Proof. intros [A B C] HE HN. split; auto. Qed.

Lemma frame_trans h h1 h2 E1 N1 E2 N2 :
  frame h h1 E1 N1 -> frame h1 h2 E2 N2 -> frame h h2 (E1 ++ E2) (N1 ++ N2).
Proof.
  intros [A1 B1 C1] [A2 B2 C2]. split; [lia| |].
  - intros d n Hn. rewrite B2, B1; auto; intros Hin; apply Hn, in_or_app; auto.
  - intros i Hi Hn. rewrite C2, C1; auto; try lia; intros Hin; apply Hn, in_or_app; auto.
Qed.

Lemma frame_stay h E N : frame h h E N.
Proof. eapply frame_weaken; [apply frame_refl | |]; intros x []. Qed.

Lemma frame_add_child h p n c : frame h (add_child h p n c) [(p, n)] [].
Proof.
  unfold add_child. destruct (get h p) as [[ch m|dt k id m|lkk m]|] eqn:E; try apply frame_stay.
  pose proof (get_lt _ _ _ E) as Hlt. apply Nat.ltb_lt in Hlt as Hltb. split.
  - rewrite upd_length. lia.
  - intros d n' Hn. unfold lk. rewrite children_upd. destruct (Nat.eqb_spec d p) as [->|]; auto.
    rewrite Hltb. cbn [node_children]. rewrite (children_get h p), E. cbn [node_children].
    apply alookup_aset_other; [exact str_eqb_spec|]. intros ->. apply Hn. now left.
  - intros i Hi _. rewrite get_upd. destruct (Nat.eqb_spec i p) as [->|]; auto. now rewrite Hltb, E.
Qed.

Lemma frame_remove_child h p n : frame h (remove_child h p n) [(p, n)] [].
Proof.
  unfold remove_child. destruct (get h p) as [[ch m|dt k id m|lkk m]|] eqn:E; try apply frame_stay.
  pose proof (get_lt _ _ _ E) as Hlt. apply Nat.ltb_lt in Hlt as Hltb. split.
  - rewrite upd_length. lia.
  - intros d n' Hn. unfold lk. rewrite children_upd. destruct (Nat.eqb_spec d p) as [->|]; auto.
    rewrite Hltb. cbn [node_children]. rewrite (children_get h p), E. cbn [node_children].
    apply alookup_aremove_other; [exact str_eqb_spec|]. intros ->. apply Hn. now left.
  - intros i Hi _. rewrite get_upd. destruct (Nat.eqb_spec i p) as [->|]; auto. now rewrite Hltb, E.
Qed.

Lemma frame_upd_leaf h i x x0 :
  get h i = Some x0 -> node_children x = node_children x0 -> frame h (upd h i x) [] [i].
Proof.
  intros E Hc. pose proof (get_lt _ _ _ E) as Hlt. apply Nat.ltb_lt in Hlt as Hltb. split.
  - rewrite upd_length. lia.
  - intros d n _. unfold lk. rewrite children_upd. destruct (Nat.eqb_spec d i) as [->|]; auto.
    now rewrite Hltb, Hc, (children_get h i), E.
  - intros j Hj Hn. rewrite get_upd_other; auto. intros ->. apply Hn. now left.
Qed.

Lemma frame_delete_node h c : children h c = [] -> frame h (delete_node h c) [] [c].
Proof.
  intros Hc. split.
  - rewrite delete_node_length. lia.
  - intros d n _. unfold lk. rewrite delete_node_children. destruct (Nat.eqb_spec d c) as [->|]; auto. now rewrite Hc.
  - intros j Hj Hn. unfold delete_node.
    destruct (get h c) as [[ch m|dt k id m|lkk m]|]; auto; rewrite get_upd_other; auto; intros ->; apply Hn; now left.
Qed.

Lemma frame_app h x : node_children x = [] -> frame h (h ++ [x]) [] [].
Proof.
  intros Hx. split.
  - rewrite app_length. lia.
  - intros d n _. unfold lk. rewrite children_app.
    destruct (Nat.ltb_spec d (length h)) as [|Hge]; auto.
    rewrite (children_get h d), get_none by lia. destruct (Nat.eqb d (length h)); [now rewrite Hx | reflexivity].
  - intros i Hi _. now rewrite get_app_old.
Qed.

(* allocate a leaf and enter it *)
Lemma frame_create h p n x : node_children x = [] -> frame h (add_child (h ++ [x]) p n (length h)) [(p, n)] [].
Proof.
  intros Hx. eapply frame_weaken; [eapply frame_trans; [apply (frame_app h x Hx) | apply frame_add_child] | |];
    intros y Hy; exact Hy.
Qed.

Lemma get_add_child_nondir h p n c' c x :
  get h c = Some x -> node_dirb x = false -> get (add_child h p n c') c = Some x.
Proof.
  intros Hg Hx. unfold add_child. destruct (get h p) as [[ch m|dt k id m|lkk m]|] eqn:E; auto.
  rewrite get_upd_other; auto. intros ->. rewrite E in Hg. injection Hg as <-. discriminate.
Qed.

(* ---- what a call names ---------------------------------------------------------------------------- *)
Definition named1 (r : sres) : list (nat * str) :=
  match sr_parent r with Some p => [(p, pi_part (sr_pi r))] | None => [] end.
Definition childl (r : sres) : list nat := match sr_child r with Some c => [c] | None => [] end.

Ltac brk_eq :=
  cbv zeta;
  repeat match goal with
         | |- context [match ?x with _ => _ end] => destruct x eqn:?
         end;
  cbn [fst snd f_heap with_heap create_dir create_file create_symlink]; intros; try discriminate.

Ltac nope := cbn [fst snd]; intros; discriminate.
Ltac inl := intros y Hy; repeat (first [exact Hy | left; exact Hy | right]); auto.

Section Frames.
  Variables (s : fsys) (v : view).
  Let h := f_heap s.

  Theorem mkdir_frame name perm :
    snd (mkdir s v name perm) = ROk ->
    frame h (f_heap (fst (mkdir s v name perm))) (named1 (search_node s v name SlLstat)) [].
  Proof.
    unfold mkdir, named1, h. destruct name as [|b name]; [nope|].
    set (r := search_node s v (b :: name) SlLstat). brk_eq. now apply frame_create.
  Qed.

  Theorem symlink_frame o n :
    snd (symlink s v o n) = ROk ->
    frame h (f_heap (fst (symlink s v o n))) (named1 (search_node s v n SlLstat)) [].
  Proof.
    unfold symlink, named1, h. set (r := search_node s v n SlLstat). brk_eq. now apply frame_create.
  Qed.

  Theorem link_frame o n :
    snd (link s v o n) = ROk ->
    frame h (f_heap (fst (link s v o n))) (named1 (search_node s v n SlLstat)) (childl (search_node s v o SlLstat)).
  Proof.
    unfold link, named1, childl, h.
    set (ro := search_node s v o SlLstat). set (rn := search_node s v n SlLstat). brk_eq.
    match goal with |- frame _ (upd (add_child _ ?p ?nm ?c) _ ?x) _ _ =>
      eapply frame_weaken; [eapply frame_trans; [apply (frame_add_child (f_heap s) p nm c) |
        eapply (frame_upd_leaf _ c x); [eapply get_add_child_nondir; [eassumption | reflexivity] | reflexivity]] | |] end.
    - intros y Hy; exact Hy.
    - intros y Hy; exact Hy.
  Qed.

  Theorem remove_frame name :
    snd (remove s v name) = ROk ->
    frame h (f_heap (fst (remove s v name))) (named1 (search_node s v name SlLstat)) (childl (search_node s v name SlLstat)).
  Proof.
    unfold remove, named1, childl, h. set (r := search_node s v name SlLstat).
    destruct (sr_child r) as [c|] eqn:Ec; [|nope].
    destruct (sr_parent r) as [p|] eqn:Ep; [|nope].
    destruct (negb (is_file_exists (sr_err r))); [nope|].
    destruct (Nat.eqb_spec p c) as [|Hpc]; [nope|].
    destruct (negb (perm_on (f_heap s) p OpenWrite (v_user v))); [nope|].
    destruct (sticky_refuses (f_heap s) p c (v_user v)); [nope|].
    assert (G : children (f_heap s) c = [] ->
                frame (f_heap s) (delete_node (remove_child (f_heap s) p (pi_part (sr_pi r))) c) [(p, pi_part (sr_pi r))] [c]).
    { intros Hc. eapply frame_weaken; [eapply frame_trans; [apply frame_remove_child | apply frame_delete_node] | |].
      - rewrite remove_child_children. destruct (Nat.eqb_spec c p); [congruence | exact Hc].
      - intros y Hy; exact Hy.
      - intros y Hy; exact Hy. }
    destruct (get (f_heap s) c) as [[[|e ch] m|dt k id m|lkk m]|] eqn:Eg; try nope;
      (destruct (alk (pi_part (sr_pi r)) (children (f_heap s) p)); [|nope]; intros _;
       cbn [fst f_heap with_heap]; apply G; rewrite children_get, Eg; reflexivity).
  Qed.

  Theorem truncate_frame name size :
    snd (truncate s v name size) = ROk ->
    frame h (f_heap (fst (truncate s v name size))) [] (childl (search_node s v name SlEval)).
  Proof.
    unfold truncate, childl, h. set (r := search_node s v name SlEval). brk_eq.
    eapply frame_upd_leaf; [eassumption | reflexivity].
  Qed.

  Theorem chmod_frame name mode :
    snd (chmod s v name mode) = ROk ->
    frame h (f_heap (fst (chmod s v name mode))) [] (childl (search_node s v name SlEval)).
  Proof.
    unfold chmod, childl, h. set (r := search_node s v name SlEval). brk_eq;
      (eapply frame_upd_leaf; [eassumption | reflexivity]).
  Qed.

  Theorem chown_gen_frame slm name uid gid :
    snd (chown_gen slm s v name uid gid) = ROk ->
    frame h (f_heap (fst (chown_gen slm s v name uid gid))) [] (childl (search_node s v name slm)).
  Proof.
    unfold chown_gen, childl, h. set (r := search_node s v name slm). brk_eq.
    eapply frame_upd_leaf; [eassumption | match goal with |- node_children (set_meta ?x _) = _ => destruct x; reflexivity end].
  Qed.

  (* Rename: the two entries it names; the replaced node when there is one *)
  Theorem rename_frame o n :
    snd (rename s v o n) = ROk ->
    frame h (f_heap (fst (rename s v o n)))
          (named1 (search_node s v n SlLstat) ++ named1 (search_node s v o SlLstat))
          (childl (search_node s v n SlLstat)).
  Proof.
    unfold rename, named1, childl, h. cbv zeta.
    set (ro := search_node s v o SlLstat). set (rn := search_node s v n SlLstat).
    destruct (negb (is_file_exists (sr_err ro))); [nope|].
    destruct (negb (is_file_exists (sr_err rn)) && negb (is_not_exist (sr_err rn))); [nope|].
    destruct (is_not_exist (sr_err rn) && negb (pi_is_last (sr_pi rn))); [nope|].
    destruct (sr_parent ro) as [op|]; [|nope].
    destruct (sr_child ro) as [oc|]; [|nope].
    destruct (sr_parent rn) as [np|]; [|destruct (is_not_exist (sr_err rn)); nope].
    assert (Gmove : forall h0 N, frame (f_heap s) h0 [] N ->
              frame (f_heap s) (remove_child (add_child h0 np (pi_part (sr_pi rn)) oc) op (pi_part (sr_pi ro)))
                    ([(np, pi_part (sr_pi rn))] ++ [(op, pi_part (sr_pi ro))]) N).
    { intros h0 N F0. eapply frame_weaken;
        [eapply frame_trans; [exact F0 | eapply frame_trans; [apply frame_add_child | apply frame_remove_child]] | |].
      - intros y Hy; exact Hy.
      - intros y Hy. rewrite !app_nil_r in Hy. exact Hy. }
    brk_eq; try apply frame_stay; cbn [fst f_heap with_heap];
      try (apply Gmove; apply frame_stay).
    all: apply Gmove; apply frame_delete_node; apply children_nondir;
         rewrite node_is_dir_get; match goal with H : get (f_heap s) _ = Some _ |- _ => rewrite H end; reflexivity.
  Qed.
End Frames.

(* ---- WriteFile = OpenFile(O_WRONLY|O_CREATE|O_TRUNC) ; Write --------------------------------------------- *)
From Avfs Require Import InvCalls.

Lemma frame_drop_new h h' E N c : frame h h' E (N ++ [c]) -> length h <= c -> frame h h' E N.
Proof.
  intros [A B C] Hc. split; auto. intros i Hi Hn. apply C; auto.
  intros Hin. apply in_app_or in Hin as [Hin|[->|[]]]; [auto | lia].
Qed.

Section WriteFile.
  Variables (s : fsys) (v : view).
  Hypothesis HV : f_vols s = [].
  Hypothesis VO : view_ok (f_heap s) v.

  Lemma oe_frame vi name om c : frame (f_heap s) (f_heap (fst (oe s v vi name om c))) [] [c].
  Proof.
    unfold oe. destruct (get (f_heap s) c) as [[ch m|d k i m|lkk m]|] eqn:Eg; try apply frame_stay.
    - repeat match goal with |- context [if ?b then _ else _] => destruct b end; apply frame_stay.
    - destruct (negb (check_permission m (if has om OpenTruncate then N.lor om OpenWrite else om) (v_user v)));
        [apply frame_stay|].
      destruct (has om OpenCreateExcl); [apply frame_stay|]. cbv zeta. cbn [fst f_heap with_heap].
      eapply frame_upd_leaf; [exact Eg | reflexivity].
  Qed.

  Lemma oe_handle vi name om c f : snd (oe s v vi name om c) = inr f -> hd_node f = Some c.
  Proof.
    unfold oe. destruct (get (f_heap s) c) as [[ch m|d k i m|lkk m]|];
      cbv zeta; repeat match goal with |- context [if ?b then _ else _] => destruct b end;
      cbn [snd]; intros E; try discriminate; injection E as <-; reflexivity.
  Qed.

  Definition wf_flags : N := (O_WRONLY + O_CREATE + O_TRUNC)%N.

  Lemma wf_slm : (if has (to_open_mode wf_flags) OpenCreateExcl then SlLstat else SlEval) = SlEval.
  Proof. vm_compute. reflexivity. Qed.

  Lemma open_wf_frame name perm :
    let r := search_node s v name SlEval in
    let x := open_file s v 0 name wf_flags perm in
    frame (f_heap s) (f_heap (fst x)) (named1 r) (childl r) /\
    forall f, snd x = inr f -> exists c, hd_node f = Some c /\ (In c (childl r) \/ length (f_heap s) <= c).
  Proof.
    cbv zeta. rewrite open_file_unfold. destruct name as [|b0 name0].
    { split; [apply frame_stay | discriminate]. }
    set (name := b0 :: name0). cbv zeta. rewrite wf_slm.
    set (r := search_node s v name SlEval).
    assert (HP : search_post (f_heap s) r) by (apply search_node_post; auto; discriminate).
    assert (Hstay : forall e, frame (f_heap s) (f_heap (fst (s, @inl res handle e))) (named1 r) (childl r) /\
              forall f, snd (s, @inl res handle e) = inr f ->
                        exists c, hd_node f = Some c /\ (In c (childl r) \/ length (f_heap s) <= c)).
    { intros e. split; [apply frame_stay | discriminate]. }
    destruct ((negb (is_file_exists (sr_err r)) && negb (is_not_exist (sr_err r))) || negb (pi_is_last (sr_pi r)));
      [apply Hstay|].
    match goal with |- context [if ?b then (s, inl (RFail (sr_err r))) else _] => destruct b end; [apply Hstay|].
    destruct (is_not_exist (sr_err r)) eqn:Ene.
    - destruct (negb (has (to_open_mode wf_flags) OpenCreate)); [apply Hstay|].
      destruct (search_post_not_exist _ _ HP Ene) as (p & Hp1 & Hp2 & Hc & Hn). rewrite Hp1.
      destruct (negb (perm_on (f_heap s) p (N.lor OpenWrite OpenLookup) (v_user v))); [apply Hstay|].
      rewrite Hn. cbn [create_file fst snd f_heap]. unfold named1, childl. rewrite Hp1, Hc. split.
      + now apply frame_create.
      + intros f [= <-]. cbn [new_handle hd_node]. eexists. split; [reflexivity | right; lia].
    - destruct (sr_child r) as [c|] eqn:Ec; [|apply Hstay]. split.
      + unfold childl. rewrite Ec. eapply frame_weaken; [apply oe_frame | intros y [] | intros y Hy; exact Hy].
      + intros f Hf. exists c. split; [eapply oe_handle; eauto | left; unfold childl; rewrite Ec; now left].
  Qed.

  Theorem write_file_frame name data perm :
    snd (write_file s v name data perm) = ROk ->
    frame (f_heap s) (f_heap (fst (write_file s v name data perm)))
          (named1 (search_node s v name SlEval)) (childl (search_node s v name SlEval)).
  Proof.
    unfold write_file. fold wf_flags.
    destruct (open_wf_frame name perm) as [F1 F2].
    destruct (open_file s v 0 name wf_flags perm) as [s1 [r|f]]; cbn [fst snd] in *.
    { intros _. apply frame_stay. }
    destruct (F2 f eq_refl) as (c & Hc & Hin).
    unfold f_write. rewrite Hc. destruct (hd_name f); [nope|].
    destruct (file_of s1 c) as [[[[d k] i] m]|] eqn:Ef; [|nope].
    destruct (negb (has (hd_mode f) OpenWrite)); [nope|].
    destruct data as [|b0 data0].
    { (* writing no byte changes nothing: only OpenFile's effect remains *)
      cbn [fst snd]. intros _. exact F1. }
    cbn [fst snd f_heap with_heap]. intros _.
    assert (Hg : get (f_heap s1) c = Some (NFile d k i m)).
    { unfold file_of in Ef. destruct (get (f_heap s1) c) as [[]|]; try discriminate. now injection Ef as -> -> -> ->. }
    match goal with |- frame _ (upd _ c ?x) _ _ =>
      pose proof (frame_trans _ _ _ _ _ _ _ F1 (frame_upd_leaf (f_heap s1) c x _ Hg eq_refl)) as F end.
    rewrite app_nil_r in F. destruct Hin as [Hin|Hge].
    - eapply frame_weaken; [exact F | intros y Hy; exact Hy|].
      intros y Hy. apply in_app_or in Hy as [Hy|[<-|[]]]; auto.
    - eapply frame_drop_new; eauto.
  Qed.
End WriteFile.
