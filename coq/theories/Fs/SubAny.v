(* C11, every path STRING at the level of the calls: a namespace call through a view on any
   non-empty path string p (unclean spellings; relative ones) is the same call on the clean
   absolute path Abs(cwd, p) = "/q1/.../qm" - the calls read the string itself only for the
   empty-name tests, for FileInfo.Name (Stat, Lstat: base name of the string given) and for the name
   an open handle remembers (OpenFile).  Composed with SubWorld.wstep_prefix1 this extends the
   prefix theorem from clean absolute paths to every path string given to the view. *)
From Avfs Require Import Base PathModel PathSpec PathProofs PathCleanProofs PathIterProofs MemFS MemFile World
  SubIsolated SubProofs SubCalls SubWorld.

(* the one-path calls whose whole outcome depends on the string only through Abs *)
Definition by_abs (k : pcall) : bool :=
  match k with PStat | PLstat | POpenFile _ _ => false | _ => true end.

(* equal results, or the FileInfo of the same node under two names *)
Inductive info_upto_name (nm1 nm2 : str) : res -> res -> Prop :=
| iu_eq r : info_upto_name nm1 nm2 r r
| iu_info n : info_upto_name nm1 nm2 (RInfo (fill_stat n nm1)) (RInfo (fill_stat n nm2)).

Section Any.
  Variable w : world.
  Variable vj : nat.
  Variable vv : view.
  Variable p : str.
  Variable qs : list str.
  Hypothesis Hvj : nth_error (w_views w) vj = Some vv.
  Hypothesis Hos : v_os vv = Linux.
  Hypothesis Hne : p <> [].
  Hypothesis Ha : abs Linux (v_cwd vv) p = abs_path qs.
  Hypothesis Hg : Forall good_comp qs.

  Let E slm : search_node (w_fs w) vv p slm = search_node (w_fs w) vv (abs_path qs) slm.
  Proof. apply search_node_abs; assumption. Qed.

  Lemma open_file_any vi flag perm :
    fst (open_file (w_fs w) vv vi p flag perm) = fst (open_file (w_fs w) vv vi (abs_path qs) flag perm)
    /\ match snd (open_file (w_fs w) vv vi p flag perm), snd (open_file (w_fs w) vv vi (abs_path qs) flag perm) with
       | inl a, inl b => a = b
       | inr f, inr g => exists c at_ om, f = new_handle c vi p at_ om /\ g = new_handle c vi (abs_path qs) at_ om
       | _, _ => False
       end.
  Proof.
    assert (Hcons : exists c t, abs_path qs = c :: t) by (unfold abs_path; eauto).
    destruct Hcons as (c1 & t1 & Eq). pose proof E as E'. rewrite Eq in E' |- *.
    unfold open_file. destruct p as [|c0 p']; [congruence|]. cbv beta iota.
    rewrite !E'. set (r := search_node (w_fs w) vv (c1 :: t1) _). clearbody r.
    repeat match goal with
           | |- context [match ?x with _ => _ end] =>
               lazymatch x with snd _ => fail | _ => destruct x eqn:? end
           | |- context [let '(_, _) := ?x in _] => destruct x eqn:?
           end; cbn [fst snd]; split; try reflexivity; do 3 eexists; split; reflexivity.
  Qed.

  Theorem wstep_any_path (k : pcall) : by_abs k = true ->
    wstep w (mk1 k vj p) = wstep w (mk1 k vj (abs_path qs)).
  Proof.
    intros Hk. destruct k; try discriminate Hk; cbn [mk1 wstep]; unfold on_view, lift; rewrite Hvj.
    - (* Mkdir *) unfold mkdir. destruct p as [|c0 p']; [congruence|]. rewrite E. reflexivity.
    - (* MkdirAll *) unfold mkdir_all. rewrite E. reflexivity.
    - (* Remove *) unfold remove. rewrite E. reflexivity.
    - (* RemoveAll *) unfold remove_all. destruct p as [|c0 p']; [congruence|]. rewrite E. reflexivity.
    - (* Symlink *) unfold symlink. rewrite E. reflexivity.
    - (* Readlink *) unfold readlink. rewrite E. reflexivity.
    - (* Truncate *) unfold truncate. rewrite E. reflexivity.
    - (* Chmod *) unfold chmod. rewrite E. reflexivity.
    - (* Chown *) unfold chown_gen. rewrite E. reflexivity.
    - (* Lchown *) unfold chown_gen. rewrite E. reflexivity.
    - (* Chtimes *) unfold chtimes. rewrite E. reflexivity.
    - (* Chdir *) unfold chdir. rewrite E. reflexivity.
    - (* EvalSymlinks *) unfold eval_symlinks. rewrite E. reflexivity.
    - (* ReadDir *) unfold read_dir.
      destruct (open_file_any 0 0 0) as (Hf & Hs).
      destruct (open_file (w_fs w) vv 0 p 0 0) as [s1 [r1|f1]];
        destruct (open_file (w_fs w) vv 0 (abs_path qs) 0 0) as [s2 [r2|f2]]; cbn [fst snd] in Hf, Hs; try contradiction;
        [congruence|].
      destruct Hs as (c & at_ & om & -> & ->). subst s2. f_equal.
      unfold f_read_dir, dir_read, new_handle. cbn [hd_name hd_node hd_dir_infos hd_dir_index hd_mode hd_at hd_dir_names hd_view].
      destruct p as [|c0 p']; [congruence|]. unfold abs_path.
      repeat match goal with |- context [match ?x with _ => _ end] => destruct x eqn:? end; reflexivity.
    - (* ReadFile *) unfold read_file.
      destruct (open_file_any 0 0 0) as (Hf & Hs).
      destruct (open_file (w_fs w) vv 0 p 0 0) as [s1 [r1|f1]];
        destruct (open_file (w_fs w) vv 0 (abs_path qs) 0 0) as [s2 [r2|f2]]; cbn [fst snd] in Hf, Hs; try contradiction;
        [congruence|].
      destruct Hs as (c & at_ & om & -> & ->). subst s2. f_equal.
      cbn [new_handle hd_node]. set (n := (_ + 512)%Z).
      assert (Hr : snd (f_read s1 vv (new_handle c 0 p at_ om) n) = snd (f_read s1 vv (new_handle c 0 (abs_path qs) at_ om) n)).
      { unfold f_read, file_of, new_handle. cbn [hd_name hd_node hd_dir_infos hd_dir_index hd_mode hd_at hd_dir_names hd_view].
        destruct p as [|c0 p']; [congruence|]. unfold abs_path.
        repeat match goal with |- context [match ?x with _ => _ end] => destruct x eqn:? end; reflexivity. }
      fold (new_handle c 0 p at_ om). fold (new_handle c 0 (abs_path qs) at_ om).
      destruct (f_read s1 vv (new_handle c 0 p at_ om) n) as [fa ra], (f_read s1 vv (new_handle c 0 (abs_path qs) at_ om) n) as [fb rb].
      cbn [snd] in Hr. subst rb. reflexivity.
    - (* WriteFile *) unfold write_file.
      destruct (open_file_any 0 (O_WRONLY + O_CREATE + O_TRUNC) perm) as (Hf & Hs).
      destruct (open_file (w_fs w) vv 0 p (O_WRONLY + O_CREATE + O_TRUNC) perm) as [s1 [r1|f1]];
        destruct (open_file (w_fs w) vv 0 (abs_path qs) (O_WRONLY + O_CREATE + O_TRUNC) perm) as [s2 [r2|f2]];
        cbn [fst snd] in Hf, Hs; try contradiction; [congruence|].
      destruct Hs as (c & at_ & om & -> & ->). subst s2.
      assert (Hw : fst (fst (f_write s1 vv (new_handle c 0 p at_ om) data)) = fst (fst (f_write s1 vv (new_handle c 0 (abs_path qs) at_ om) data))
                   /\ snd (f_write s1 vv (new_handle c 0 p at_ om) data) = snd (f_write s1 vv (new_handle c 0 (abs_path qs) at_ om) data)).
      { unfold f_write, file_of, new_handle. cbn [hd_name hd_node hd_dir_infos hd_dir_index hd_mode hd_at hd_dir_names hd_view].
        destruct p as [|c0 p']; [congruence|]. unfold abs_path.
        repeat match goal with |- context [match ?x with _ => _ end] => destruct x eqn:? end; split; reflexivity. }
      destruct Hw as (W1 & W2).
      destruct (f_write s1 vv (new_handle c 0 p at_ om) data) as [[sa fa] ra],
               (f_write s1 vv (new_handle c 0 (abs_path qs) at_ om) data) as [[sb fb] rb].
      cbn [fst snd] in W1, W2. subst. reflexivity.
    - (* Sub *) unfold sub. rewrite E. reflexivity.
  Qed.

  (* Stat / Lstat: the same FileInfo but for its Name, which is the base name of the string given *)
  Theorem wstep_any_path_stat (k : pcall) : (k = PStat \/ k = PLstat) ->
    fst (wstep w (mk1 k vj p)) = w /\ fst (wstep w (mk1 k vj (abs_path qs))) = w
    /\ info_upto_name (base Linux p) (base Linux (abs_path qs))
         (snd (wstep w (mk1 k vj p))) (snd (wstep w (mk1 k vj (abs_path qs)))).
  Proof.
    intros [-> | ->]; cbn [mk1 wstep]; unfold on_view; rewrite Hvj; cbn [fst snd]; (split; [reflexivity|]);
      (split; [reflexivity|]); unfold stat_gen; rewrite E, Hos;
      set (r := search_node (w_fs w) vv (abs_path qs) _); clearbody r;
      repeat match goal with |- context [match ?x with _ => _ end] => destruct x eqn:? end; constructor.
  Qed.

  (* OpenFile: same node graph, same error or same handle number *)
  Theorem wstep_any_path_open flag perm :
    w_fs (fst (wstep w (COpenFile vj p flag perm))) = w_fs (fst (wstep w (COpenFile vj (abs_path qs) flag perm)))
    /\ snd (wstep w (COpenFile vj p flag perm)) = snd (wstep w (COpenFile vj (abs_path qs) flag perm)).
  Proof.
    cbn [wstep]. unfold on_view. rewrite Hvj. destruct (open_file_any vj flag perm) as (Hf & Hs).
    destruct (open_file (w_fs w) vv vj p flag perm) as [s1 [r1|f1]];
      destruct (open_file (w_fs w) vv vj (abs_path qs) flag perm) as [s2 [r2|f2]]; cbn [fst snd] in Hf, Hs; try contradiction;
      cbn [fst snd w_fs with_fs]; split; congruence.
  Qed.
End Any.
