(* Executable model of vfs/memfs/memfs_file.go (MemFile): every method of an
   open handle, the shared-cursor directory batching, and the composites of
   vfs.go built on OpenFile (ReadDir, ReadFile, WriteFile, Create). *)
From Avfs Require Import Base PathModel MemFS.
Set Implicit Arguments.

(* ---- sorted listings (sort.Slice / sort.Strings on names) -------------- *)
Fixpoint insert_sorted {A} (key : A -> str) (x : A) (l : list A) : list A :=
  match l with
  | [] => [x]
  | y :: l' => if str_ltb (key y) (key x) then y :: insert_sorted key x l' else x :: l
  end.
Definition sort_by {A} (key : A -> str) (l : list A) : list A :=
  fold_right (insert_sorted key) [] l.

Definition dir_infos (h : heap) (ch : list (str * nat)) : list finfo :=
  sort_by (@fi_name)
    (flat_map (fun '(name, c) => match get h c with Some n => [fill_stat n name] | None => [] end) ch).
Definition dir_names (ch : list (str * nat)) : list str := sort_by (fun x => x) (map fst ch).

(* ---- the cursor of a directory handle ------------------------------------- *)
(* A read of n entries at position ix of the listing l: the batch and the new position; None = io.EOF.
   n <= 0: all the remaining entries (possibly none), never io.EOF. *)
Definition dir_batch {A} (n : Z) (l : list A) (ix : nat) : option (list A * nat) :=
  if Z.ltb 0 n && Nat.leb (length l) ix then None
  else
    let e := if Z.leb n 0 then length l else Nat.min (ix + Z.to_nat n) (length l) in
    Some (firstn (e - ix) (skipn ix l), e).

(* a read of everything from the start delivers the listing *)
Lemma dir_batch_all {A} (n : Z) (l : list A) : Z.leb n 0 = true -> dir_batch n l 0 = Some (l, length l).
Proof.
  intros Hn. unfold dir_batch. rewrite Hn.
  replace (Z.ltb 0 n) with false by (symmetry; apply Z.ltb_ge; now apply Z.leb_le).
  cbn [andb]. rewrite Nat.sub_0_r. cbn [skipn]. now rewrite firstn_all.
Qed.

(* ---- handle methods ------------------------------------------------------ *)
Section FileOps.
  Variable s : fsys.
  Variable v : view.          (* f.vfs *)
  Variable f : handle.

  Let h := f_heap s.
  Let isw := win v.

  (* common prologue: f.name == "" -> ErrInvalid ; f.nd == nil -> closed *)
  Definition closed_err : ekind := EG_Closed.

  Definition file_of (c : nat) : option (list N * Z * N * meta) :=
    match get h c with Some (NFile d k i m) => Some (d, k, i, m) | _ => None end.

  (* Read(b), len(b) = n  [after the bounds fix: an offset at or beyond the end reads 0 bytes, io.EOF] *)
  Definition f_read (n : Z) : handle * res :=
    match hd_name f with
    | [] => (f, RFail EG_Invalid)
    | _ =>
        match hd_node f with
        | None => (f, RFail closed_err)
        | Some c =>
            if Z.leb n 0 then (f, RBytes 0 [] None)      (* an empty buffer: (0, nil) at once *)
            else
            match file_of c with
            | None => (f, RFail (if isw then EW_IncorrectFunc else EC_IsADirectory))
            | Some (d, _, _, _) =>
                if negb (has (hd_mode f) OpenRead) then (f, RFail EBadFileDesc)
                else
                  let avail := skipn (Z.to_nat (hd_at f)) d in
                  let got := firstn (Z.to_nat n) avail in
                  let k := Z.of_nat (length got) in
                  let f' := {| hd_node := hd_node f; hd_view := hd_view f; hd_name := hd_name f;
                               hd_at := hd_at f + k; hd_mode := hd_mode f;
                               hd_dir_infos := hd_dir_infos f; hd_dir_names := hd_dir_names f;
                               hd_dir_index := hd_dir_index f |} in
                  if Z.eqb k 0 then (f', RBytes 0 [] (Some EG_EOF)) else (f', RBytes k got None)
            end
        end
    end.

  Definition f_read_at (n off : Z) : res :=
    if Z.ltb off 0 then RFail EG_NegativeOffset          (* the offset, then the empty buffer, before the handle *)
    else if Z.leb n 0 then RBytes 0 [] None
    else
    match hd_name f with
    | [] => RFail EG_Invalid
    | _ =>
        match hd_node f with
        | None => RFail closed_err
        | Some c =>
            match file_of c with
            | None => RFail (if isw then EW_IncorrectFunc else EC_IsADirectory)
            | Some (d, _, _, _) =>
                if negb (has (hd_mode f) OpenRead) then RFail EBadFileDesc
                else if Z.ltb (Z.of_nat (length d)) off then RBytes 0 [] (Some EG_EOF)
                else
                  let got := firstn (Z.to_nat n) (skipn (Z.to_nat off) d) in
                  let k := Z.of_nat (length got) in
                  if Z.ltb k n then RBytes k got (Some EG_EOF) else RBytes k got None
            end
        end
    end.

  (* overwrite d at position at_ with b, extending (zero gap) as needed *)
  Definition write_at_data (d : list N) (at_ : nat) (b : list N) : list N :=
    let d1 := if Nat.ltb (length d) at_ then d ++ repeat 0%N (at_ - length d) else d in
    firstn at_ d1 ++ b ++ skipn (at_ + length b) d1.

  Definition set_at (at_ : Z) : handle :=
    {| hd_node := hd_node f; hd_view := hd_view f; hd_name := hd_name f; hd_at := at_; hd_mode := hd_mode f;
       hd_dir_infos := hd_dir_infos f; hd_dir_names := hd_dir_names f; hd_dir_index := hd_dir_index f |}.

  (* Write(b)  [after the fixes: append mode writes at the current end; a gap is zero filled] *)
  Definition f_write (b : list N) : fsys * handle * res :=
    match hd_name f with
    | [] => (s, f, RFail EG_Invalid)
    | _ =>
        match hd_node f with
        | None => (s, f, RFail closed_err)
        | Some c =>
            match file_of c with
            | None => (s, f, RFail (if isw then EW_AccessDenied else EC_BadFileDesc))
            | Some (d, k, i, m) =>
                if negb (has (hd_mode f) OpenWrite) then (s, f, RFail (if isw then EW_AccessDenied else EC_BadFileDesc))
                else match b with
                | [] => (s, f, RInt 0)                     (* zero bytes: nothing changes *)
                | _ =>
                  let at_ := if has (hd_mode f) OpenAppend then Z.of_nat (length d) else hd_at f in
                  let d' := write_at_data d (Z.to_nat at_) b in
                  (with_heap s (upd h c (NFile d' k i (drop_privs (v_user v) m))), set_at (at_ + Z.of_nat (length b)),
                   RInt (Z.of_nat (length b)))
                end
            end
        end
    end.

  Definition f_write_at (b : list N) (off : Z) : fsys * res :=
    if has (hd_mode f) OpenAppend then (s, RFail EG_WriteAtInAppendMode)   (* refused on an O_APPEND handle, first of all *)
    else if Z.ltb off 0 then (s, RFail EG_NegativeOffset)
    else match b with [] => (s, RInt 0) | _ =>              (* zero bytes: (0, nil) at once *)
      match hd_name f with
      | [] => (s, RFail EG_Invalid)
      | _ =>
          match hd_node f with
          | None => (s, RFail closed_err)
          | Some c =>
              match file_of c with
              | None => (s, RFail (if isw then EW_AccessDenied else EC_BadFileDesc))
              | Some (d, k, i, m) =>
                  if negb (has (hd_mode f) OpenWrite) then (s, RFail (if isw then EW_AccessDenied else EC_BadFileDesc))
                  else
                    (* diff := off + len(b) - size ; if diff > 0 extend : even for an empty b *)
                    let d' := write_at_data d (Z.to_nat off) b in
                    (with_heap s (upd h c (NFile d' k i (drop_privs (v_user v) m))), RInt (Z.of_nat (length b)))
              end
          end
      end end.

  Definition f_seek (offset : Z) (whence : Z) : handle * res :=
    match hd_name f with
    | [] => (f, RFail EG_Invalid)
    | _ =>
        match hd_node f with
        | None => (f, RFail closed_err)
        | Some c =>
            match file_of c with
            | None =>
                (* a directory: Seek(0, io.SeekStart) rewinds (drops the listing), any other Seek does nothing *)
                if Z.eqb offset 0 && Z.eqb whence 0
                then ({| hd_node := hd_node f; hd_view := hd_view f; hd_name := hd_name f; hd_at := hd_at f;
                         hd_mode := hd_mode f; hd_dir_infos := None; hd_dir_names := hd_dir_names f;
                         hd_dir_index := 0 |}, RInt 0)
                else (f, RInt 0)
            | Some (d, _, _, _) =>
                let size := Z.of_nat (length d) in
                let target := if Z.eqb whence 0 then Some offset
                              else if Z.eqb whence 1 then Some (hd_at f + offset)%Z
                              else if Z.eqb whence 2 then Some (size + offset)%Z
                              else None in
                match target with
                | None => if isw then (f, RInt 0) else (f, RFail EInvalidArgument)
                | Some t => if Z.ltb t 0 then (f, RFail EInvalidArgument) else (set_at t, RInt t)
                end
            end
        end
    end.

  Definition f_truncate (size : Z) : fsys * res :=
    match hd_name f with
    | [] => (s, RFail EG_Invalid)
    | _ =>
          match hd_node f with
          | None => (s, RFail closed_err)
          | Some c =>
              if Z.ltb size 0 then (s, RFail EInvalidArgument)
              else
              match file_of c with
              | None => (s, RFail (if isw then EW_AccessDenied else EC_InvalidArgument))
              | Some (d, k, i, m) =>
                  if negb (has (hd_mode f) OpenWrite) then (s, RFail (if isw then EW_AccessDenied else EC_InvalidArgument))
                  else (with_heap s (upd h c (NFile (truncate_data d size) k i (drop_privs (v_user v) m))), ROk)
              end
          end
    end.

  Definition f_stat : res :=
    match hd_name f with
    | [] => RFail EG_Invalid
    | _ =>
        match hd_node f with
        | None => RFail (if isw then EW_InvalidHandle else EG_FileClosing)
        | Some c =>
            match get h c with
            | Some n => RInfo (fill_stat n (base (v_os v) (hd_name f)))
            | None => RPanic
            end
        end
    end.

  Definition f_sync : res :=
    match hd_name f with
    | [] => RFail EG_Invalid
    | _ => match hd_node f with None => RFail closed_err | Some _ => ROk end
    end.

  Definition f_chmod (mode : N) : fsys * res :=
    match hd_name f with
    | [] => (s, RFail EG_Invalid)
    | _ =>
        match hd_node f with
        | None => (s, RFail closed_err)
        | Some c =>
            match get h c with
            | Some (NSym _ _) | None => (s, RFail EPermDenied)
            | Some n =>
                if set_mode_ok (node_meta n) (v_user v)
                then (with_heap s (upd h c (set_meta n (with_mode (node_meta n) (chmod_mode (node_meta n) (v_user v) mode)))), ROk)
                else (s, RFail EPermDenied)
            end
        end
    end.

  Definition f_chown (uid gid : Z) : fsys * res :=
    match hd_name f with
    | [] => (s, RFail EG_Invalid)
    | _ =>
        match hd_node f with
        | None => (s, RFail closed_err)
        | Some c =>
            if isw then (s, RFail EW_NotSupported)
            else match get h c with
                 | Some n =>
                     if check_permission (node_meta n) OpenWrite (v_user v)
                     then (with_heap s (upd h c (set_meta n (chown_meta n (v_user v) uid gid))), ROk)
                     else (s, RFail EOpNotPermitted)
                 | None => (s, RPanic)
                 end
        end
    end.

  (* Chdir: returns the new current directory *)
  Definition f_chdir : res + str :=
    match hd_name f with
    | [] => inl (RFail EG_Invalid)
    | _ =>
        match hd_node f with
        | None => inl (RFail closed_err)
        | Some c => if node_is_dir h c then inr (abs (v_os v) (v_cwd v) (hd_name f))
                    else inl (RFail (if isw then EW_DirNameInvalid else EC_NotADirectory))
        end
    end.

  Definition f_close : handle * res :=
    match hd_node f with
    | None => (f, RFail (match hd_name f with [] => EG_Invalid | _ => closed_err end))
    | Some _ =>
        ({| hd_node := None; hd_view := hd_view f; hd_name := hd_name f; hd_at := hd_at f; hd_mode := hd_mode f;
            hd_dir_infos := None; hd_dir_names := None; hd_dir_index := hd_dir_index f |}, ROk)
    end.

  Definition none_if_empty {A} (l : list A) : option (list A) := match l with [] => None | _ => Some l end.

  (* ReadDir(n) and Readdirnames(n): ONE cursor (hd_dir_index) over ONE listing (hd_dir_infos) taken by the first
     read after the handle was opened or rewound; hd_dir_names is no longer used *)
  Definition dir_read (n : Z) (ret : list finfo -> option ekind -> res) : handle * res :=
    match hd_name f with
    | [] => (f, RFail EG_Invalid)
    | _ =>
        match hd_node f with
        | None => (f, RFail (if isw then EW_InvalidHandle else EG_FileClosing))
        | Some c =>
            match get h c with
            | Some (NDir ch _) =>
                let upd_h l ix :=
                  {| hd_node := hd_node f; hd_view := hd_view f; hd_name := hd_name f; hd_at := hd_at f;
                     hd_mode := hd_mode f; hd_dir_infos := Some l; hd_dir_names := hd_dir_names f;
                     hd_dir_index := ix |} in
                let l := match hd_dir_infos f with Some l => l | None => dir_infos h ch end in
                let ix := match hd_dir_infos f with Some _ => hd_dir_index f | None => 0%nat end in
                match dir_batch n l ix with
                | None => (upd_h l ix, ret [] (Some EG_EOF))
                | Some (b, e) => (upd_h l e, ret b None)
                end
            | _ => (f, RFail ENotADirectory)
            end
        end
    end.

  Definition f_read_dir (n : Z) : handle * res := dir_read n (fun l e => RInfos l e).
  Definition f_readdirnames (n : Z) : handle * res := dir_read n (fun l e => RNames (map (@fi_name) l) e).
End FileOps.

(* ---- composites of vfs.go over OpenFile ---------------------------------- *)
(* ReadDir(name): OpenFile(O_RDONLY) ; f.ReadDir(-1) ; sort ; Close *)
Definition read_dir (s : fsys) (v : view) (name : str) : res :=
  match open_file s v 0 name 0 0 with
  | (_, inl r) => r
  | (s1, inr f) => snd (f_read_dir s1 v f (-1))
  end.

(* ReadFile(name): OpenFile(O_RDONLY) ; Stat (size hint) ; Read until io.EOF or an error.
   One Read with a buffer larger than the file returns all of it; the next returns io.EOF. *)
Definition read_file (s : fsys) (v : view) (name : str) : res :=
  match open_file s v 0 name 0 0 with
  | (_, inl r) => r
  | (s1, inr f) =>
      let size := match hd_node f with
                  | Some c => match get (f_heap s1) c with Some (NFile d _ _ _) => Z.of_nat (length d) | _ => 0%Z end
                  | None => 0%Z
                  end in
      match f_read s1 v f (size + 512) with
      | (_, RBytes k b _) => RBytes k b None
      | (_, r) => r
      end
  end.

(* WriteFile(name, data, perm): OpenFile(O_WRONLY|O_CREATE|O_TRUNC, perm) ; Write ; Close *)
Definition write_file (s : fsys) (v : view) (name : str) (data : list N) (perm : N) : fsys * res :=
  match open_file s v 0 name (O_WRONLY + O_CREATE + O_TRUNC) perm with
  | (_, inl r) => (s, r)
  | (s1, inr f) =>
      match f_write s1 v f data with
      | (s2, _, RInt _) => (s2, ROk)
      | (s2, _, r) => (s2, r)
      end
  end.
