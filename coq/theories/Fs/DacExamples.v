(* Property C03: non-vacuity.  A small tree with three ordinary users; the hypotheses of the theorems of
   DacProofs / DacSteps hold of it (so the theorems apply), the computed outcomes show permission granted and
   refused on both sides, and the side conditions are seen to be necessary: where one fails, the two sides differ
   (these are the listed deviations, one of them - Chmod keeping S_ISGID for a non-member - found by these proofs and since fixed). *)
From Avfs Require Import Base PathModel PathSpec PathProofs PathCleanProofs PathIterProofs.
From Avfs Require Import MemFS MemFile World Posix WalkBridge WalkSym WalkBudget WalkReadlink StepEq DacProofs DacSteps.
From Avfs Require Import Inv InvCheck StepInv DacInv.

Module DacTree.
  Import WalkSymExamples WalkSymNonVacuity.

  Definition alice : user := {| us_uid := 1000; us_gid := 1000; us_admin := false |}.
  Definition bob : user := {| us_uid := 1001; us_gid := 1000; us_admin := false |}.      (* same group as alice *)
  Definition carol : user := {| us_uid := 1002; us_gid := 1002; us_admin := false |}.

  Definition mk (mode : N) (uid gid : Z) : meta := {| m_mode := mode; m_uid := uid; m_gid := gid |}.
  Definition n_h := [104%N]. Definition n_f := [102%N]. Definition n_s := [115%N]. Definition n_e := [101%N].
  Definition n_p := [112%N]. Definition n_t := [116%N]. Definition n_b := [98%N]. Definition n_q := [113%N].
  Definition n_n := [110%N]. Definition n_g := [103%N].

  (*  /          root:root  0755
      /h         alice:1000 0750      /h/f  alice:1000 0640 (file)     /h/s  alice:1000 0700 (dir)
      /e         root:root  0755      /e/p  root:root  0644 (file)     /e/q  alice:2000 0644 (file; alice is not in group 2000)
      /t         root:root  01777     /t/b  bob:1000   0644 (file) *)
  Definition dtree : heap :=
    [ NDir [(n_h, 1); (n_e, 4); (n_t, 6)] (mk (N.lor MODE_DIR 493) 0 0)
    ; NDir [(n_f, 2); (n_s, 3)] (mk (N.lor MODE_DIR 488) 1000 1000)
    ; NFile [7%N] 1 1 (mk 416 1000 1000)
    ; NDir [] (mk (N.lor MODE_DIR 448) 1000 1000)
    ; NDir [(n_p, 5); (n_q, 8)] (mk (N.lor MODE_DIR 493) 0 0)
    ; NFile [] 1 2 (mk 420 0 0)
    ; NDir [(n_b, 7)] (mk (N.lor MODE_DIR (N.lor MODE_STICKY 511)) 0 0)
    ; NFile [] 1 3 (mk 420 1001 1000)
    ; NFile [] 1 4 (mk 420 1000 2000) ].
  Definition dfs : fsys := {| f_heap := dtree; f_last_id := 4; f_vols := [] |}.

  Definition view_of (u : user) (um : N) : view :=
    {| v_root := 0; v_cwd := [SLASH]; v_user := u; v_umask := um; v_os := Linux; v_idm := true |}.
  Definition svu (u : user) (um : N) : sview := {| sv_view := view_of u um; sv_cwd := 0 |}.

  Lemma dtree_edges d n c :
    dedge dtree d n c -> In (d, c) [(0,1); (0,4); (0,6); (1,2); (1,3); (4,5); (4,8); (6,7)].
  Proof.
    unfold dedge, children, get.
    do 9 (destruct d as [|d]; [cbn; intros H; repeat (destruct H as [[= <- <-]|H]; [repeat (first [left; reflexivity | right])|]); destruct H|]).
    destruct d; cbn; intros [].
  Qed.

  Example dtree_wf : walk_wf dtree.
  Proof.
    apply increasing_wf.
    - intros d n c H. apply dtree_edges in H. cbn [In] in H.
      repeat (destruct H as [[= <- <-]|H]; [lia|]). destruct H.
    - intros d1 n1 d2 n2 c H1 H2 _. apply dtree_edges in H1, H2. cbn [In] in H1, H2.
      repeat (destruct H1 as [H1|H1]); try contradiction; injection H1 as <- <-;
        repeat (destruct H2 as [H2|H2]); try contradiction; congruence.
  Qed.

  Example dtree_links_clean : links_clean dtree.
  Proof.
    intros d n i t m _. unfold get.
    do 9 (destruct i as [|i]; [cbn [nth_error dtree]; intros E; discriminate E|]).
    destruct i; discriminate.
  Qed.

  Example dtree_sym_single : sym_single dtree.
  Proof.
    intros c t m d1 n1 d2 n2 Hg. exfalso. revert Hg. unfold get.
    do 9 (destruct c as [|c]; [cbn [nth_error dtree]; intros E; discriminate E|]).
    destruct c; discriminate.
  Qed.

  Example dtree_hyps (u : user) (um : N) : dac_hyps dfs (svu u um).
  Proof. split; [reflexivity|exact dtree_wf|exact dtree_links_clean|reflexivity]. Qed.

  Ltac good_tac :=
    repeat constructor; try discriminate;
    let x := fresh "x" in let Hx := fresh "Hx" in
    intros x Hx; cbn in Hx; repeat (destruct Hx as [Hx|Hx]; [subst x; discriminate|]); destruct Hx.
  Ltac path_ok_tac := split; [good_tac|split; vm_compute; discriminate].

  (* ---- class selection: the three classes on /h/f (0640 alice:1000) -------------------------------------------- *)
  Example class_instances :
    let m := mk 416 1000 1000 in
    (check_permission m 6 alice, check_permission m 4 bob, check_permission m 2 bob, check_permission m 4 carol)
    = (true, true, false, false)
    /\ (kperm_bits m alice 6, kperm_bits m bob 4, kperm_bits m bob 2, kperm_bits m carol 4) = (true, true, false, false).
  Proof. vm_compute. split; reflexivity. Qed.

  (* ---- the walk: carol is stopped at /h (0750, not hers, not her group), the first unsearchable directory ------- *)
  Example walk_refused_at_h :
    first_unsearchable dtree carol 0 [n_h; n_f] = Some 1
    /\ sr_err (search_node dfs (view_of carol 18) (abs_path [n_h; n_f]) SlStat) = EPermDenied
    /\ sr_denied (search_node dfs (view_of carol 18) (abs_path [n_h; n_f]) SlStat) = Some 1
    /\ klookup dfs (svu carol 18) false true (abs_path [n_h; n_f]) = WErr EACCES.
  Proof.
    pose proof (walk_denied_first dfs (svu carol 18) [n_h; n_f] SlStat false true) as W. cbv zeta in W.
    assert (E : first_unsearchable dtree carol 0 [n_h; n_f] = Some 1) by (vm_compute; reflexivity).
    change (f_heap dfs) with dtree in W. change (v_user (sv_view (svu carol 18))) with carol in W.
    change (v_root (sv_view (svu carol 18))) with 0 in W. rewrite E in W.
    split; [reflexivity|]. apply W; [reflexivity|good_tac|reflexivity|reflexivity|unfold SEARCH_FUEL; cbn [length]; lia].
  Qed.

  (* bob (group) passes /h and reads /h/f *)
  Example walk_group_passes :
    first_unsearchable dtree bob 0 [n_h; n_f] = None
    /\ klookup dfs (svu bob 18) false true (abs_path [n_h; n_f]) = WNode 1 LNorm n_f 2.
  Proof. vm_compute. split; reflexivity. Qed.

  (* ---- Mkdir: alice may (owner rwx), bob may not (group r-x) ---------------------------------------------------- *)
  Example mkdir_alice :
    let p := abs_path ([n_h] ++ [n_n]) in
    (fst (mkdir dfs (view_of alice 18) p 511), proj_res Linux (snd (mkdir dfs (view_of alice 18) p 511)))
    = k_mkdir dfs (svu alice 18) p 511
    /\ snd (k_mkdir dfs (svu alice 18) p 511) = SOk
    /\ meta_at (f_heap (fst (mkdir dfs (view_of alice 18) p 511))) 9 = Some (mk (N.lor MODE_DIR 493) 1000 1000).
  Proof.
    split; [|split; vm_compute; reflexivity].
    apply (dstep_mkdir dfs (svu alice 18) [n_h] n_n 511 (dtree_hyps alice 18)). path_ok_tac.
  Qed.

  Example mkdir_bob_refused :
    let p := abs_path ([n_h] ++ [n_n]) in
    (fst (mkdir dfs (view_of bob 18) p 511), proj_res Linux (snd (mkdir dfs (view_of bob 18) p 511)))
    = k_mkdir dfs (svu bob 18) p 511
    /\ snd (k_mkdir dfs (svu bob 18) p 511) = SErr EACCES.
  Proof.
    split; [|vm_compute; reflexivity].
    apply (dstep_mkdir dfs (svu bob 18) [n_h] n_n 511 (dtree_hyps bob 18)). path_ok_tac.
  Qed.

  (* ---- OpenFile: bob reads /h/f, may not write it; alice creates /h/g exclusively --------------------------------- *)
  Example open_bob_read :
    open_sim (open_file dfs (view_of bob 18) 0 (abs_path [n_h; n_f]) 0 0) (k_open dfs (svu bob 18) (abs_path [n_h; n_f]) 0 0)
    /\ snd (k_open dfs (svu bob 18) (abs_path [n_h; n_f]) 0 0) = inr 2.
  Proof.
    split; [|vm_compute; reflexivity].
    apply (dstep_open_nocreat dfs (svu bob 18) [n_h; n_f] 0 0 0 (dtree_hyps bob 18)); [path_ok_tac|reflexivity].
  Qed.

  Example open_bob_write_refused :
    open_sim (open_file dfs (view_of bob 18) 0 (abs_path [n_h; n_f]) 1 0) (k_open dfs (svu bob 18) (abs_path [n_h; n_f]) 1 0)
    /\ snd (k_open dfs (svu bob 18) (abs_path [n_h; n_f]) 1 0) = inl EACCES.
  Proof.
    split; [|vm_compute; reflexivity].
    apply (dstep_open_nocreat dfs (svu bob 18) [n_h; n_f] 1 0 0 (dtree_hyps bob 18)); [path_ok_tac|reflexivity].
  Qed.

  Example open_alice_create_excl :
    let p := abs_path ([n_h] ++ [n_g]) in
    let flag := (O_WRONLY + O_CREATE + O_EXCL)%N in
    open_sim (open_file dfs (view_of alice 23) 0 p flag 438) (k_open dfs (svu alice 23) p flag 438)
    /\ snd (k_open dfs (svu alice 23) p flag 438) = inr 9
    /\ meta_at (f_heap (fst (open_file dfs (view_of alice 23) 0 p flag 438))) 9 = Some (mk 416 1000 1000).
  Proof.
    split; [|split; vm_compute; reflexivity].
    apply (dstep_open_excl dfs (svu alice 23) [n_h] n_g _ 438 0 (dtree_hyps alice 23)); [path_ok_tac|reflexivity|reflexivity|].
    intros par kind name n d k i m HK. vm_compute in HK. discriminate HK.
  Qed.

  (* ---- set-group-id inheritance (inode_init_owner): /h/s made alice:2000 02777.  bob (group 1000) creates a
     directory and a file there: both get group 2000, the directory also the set-group-id bit ------------------------- *)
  (* the tree with the meta data of /h/s as a parameter *)
  Definition dtree_m (m3 : meta) : heap :=
    [ NDir [(n_h, 1); (n_e, 4); (n_t, 6)] (mk (N.lor MODE_DIR 493) 0 0)
    ; NDir [(n_f, 2); (n_s, 3)] (mk (N.lor MODE_DIR 488) 1000 1000)
    ; NFile [7%N] 1 1 (mk 416 1000 1000)
    ; NDir [] m3
    ; NDir [(n_p, 5); (n_q, 8)] (mk (N.lor MODE_DIR 493) 0 0)
    ; NFile [] 1 2 (mk 420 0 0)
    ; NDir [(n_b, 7)] (mk (N.lor MODE_DIR (N.lor MODE_STICKY 511)) 0 0)
    ; NFile [] 1 3 (mk 420 1001 1000)
    ; NFile [] 1 4 (mk 420 1000 2000) ].
  Definition dfs_m (m3 : meta) : fsys := {| f_heap := dtree_m m3; f_last_id := 4; f_vols := [] |}.
  Definition dtree_sg : heap := dtree_m (mk (N.lor MODE_DIR (N.lor MODE_SETGID 511)) 1000 2000).
  Definition dfs_sg : fsys := dfs_m (mk (N.lor MODE_DIR (N.lor MODE_SETGID 511)) 1000 2000).

  Lemma dtree_m_edges m3 d n c :
    dedge (dtree_m m3) d n c -> In (d, c) [(0,1); (0,4); (0,6); (1,2); (1,3); (4,5); (4,8); (6,7)].
  Proof.
    unfold dedge, children, get.
    do 9 (destruct d as [|d]; [cbn; intros H; repeat (destruct H as [[= <- <-]|H]; [repeat (first [left; reflexivity | right])|]); destruct H|]).
    destruct d; cbn; intros [].
  Qed.

  Example dtree_m_hyps (m3 : meta) (u : user) (um : N) : dac_hyps (dfs_m m3) (svu u um).
  Proof.
    split; [reflexivity| | |reflexivity].
    - apply increasing_wf.
      + intros d n c H. apply dtree_m_edges in H. cbn [In] in H.
        repeat (destruct H as [[= <- <-]|H]; [lia|]). destruct H.
      + intros d1 n1 d2 n2 c H1 H2 _. apply dtree_m_edges in H1, H2. cbn [In] in H1, H2.
        repeat (destruct H1 as [H1|H1]); try contradiction; injection H1 as <- <-;
          repeat (destruct H2 as [H2|H2]); try contradiction; congruence.
    - intros d n i t m _. unfold get.
      do 9 (destruct i as [|i]; [cbn [nth_error dtree_m dfs_m f_heap]; intros E; discriminate E|]).
      destruct i; discriminate.
  Qed.

  Example dtree_sg_hyps (u : user) (um : N) : dac_hyps dfs_sg (svu u um).
  Proof. exact (dtree_m_hyps _ u um). Qed.

  Example mkdir_setgid_inherits :
    let p := abs_path ([n_h; n_s] ++ [n_n]) in
    (fst (mkdir dfs_sg (view_of bob 18) p 511), proj_res Linux (snd (mkdir dfs_sg (view_of bob 18) p 511)))
    = k_mkdir dfs_sg (svu bob 18) p 511
    /\ snd (k_mkdir dfs_sg (svu bob 18) p 511) = SOk
    /\ meta_at (f_heap (fst (mkdir dfs_sg (view_of bob 18) p 511))) 9
       = Some (mk (N.lor MODE_DIR (N.lor MODE_SETGID 493)) 1001 2000).
  Proof.
    split; [|split; vm_compute; reflexivity].
    apply (dstep_mkdir dfs_sg (svu bob 18) [n_h; n_s] n_n 511 (dtree_sg_hyps bob 18)). path_ok_tac.
  Qed.

  Example create_setgid_inherits_group :
    let p := abs_path ([n_h; n_s] ++ [n_g]) in
    let flag := (O_WRONLY + O_CREATE + O_EXCL)%N in
    open_sim (open_file dfs_sg (view_of bob 18) 0 p flag 438) (k_open dfs_sg (svu bob 18) p flag 438)
    /\ snd (k_open dfs_sg (svu bob 18) p flag 438) = inr 9
    /\ meta_at (f_heap (fst (open_file dfs_sg (view_of bob 18) 0 p flag 438))) 9 = Some (mk 420 1001 2000).
  Proof.
    split; [|split; vm_compute; reflexivity].
    apply (dstep_open_excl dfs_sg (svu bob 18) [n_h; n_s] n_g _ 438 0 (dtree_sg_hyps bob 18)); [path_ok_tac|reflexivity|reflexivity|].
    intros par kind name n d k i m HK. vm_compute in HK. discriminate HK.
  Qed.

  (* ---- Rename of a file into another directory of alice's --------------------------------------------------------- *)
  Example rename_alice :
    let o := abs_path ([n_h] ++ [n_f]) in
    let p := abs_path ([n_h; n_s] ++ [n_g]) in
    (fst (rename dfs (view_of alice 18) o p), proj_res Linux (snd (rename dfs (view_of alice 18) o p))) = go_rename dfs (svu alice 18) o p
    /\ snd (go_rename dfs (svu alice 18) o p) = SOk.
  Proof.
    split; [|vm_compute; reflexivity].
    apply (dstep_rename_file_new dfs (svu alice 18) [n_h] n_f [n_h; n_s] n_g (dtree_hyps alice 18)); [path_ok_tac|path_ok_tac| | |].
    - intros par kind name n HK. vm_compute in HK. injection HK as _ _ _ <-. reflexivity.
    - intros par kind name n HK. vm_compute in HK. discriminate HK.
    - intros par name md e HK. vm_compute in HK. discriminate HK.
  Qed.

  (* alice renames her directory /h/s to /h/g (same parent: no write permission on the moved directory is needed) *)
  Example rename_dir_alice :
    let o := abs_path ([n_h] ++ [n_s]) in
    let p := abs_path ([n_h] ++ [n_g]) in
    (fst (rename dfs (view_of alice 18) o p), proj_res Linux (snd (rename dfs (view_of alice 18) o p))) = go_rename dfs (svu alice 18) o p
    /\ snd (go_rename dfs (svu alice 18) o p) = SOk.
  Proof.
    split; [|vm_compute; reflexivity].
    apply (dstep_rename_dir_new dfs (svu alice 18) [n_h] n_s [n_h] n_g (dtree_hyps alice 18)); [path_ok_tac|path_ok_tac| | | |].
    - intros par kind name n HK. vm_compute in HK. injection HK as _ _ _ <-. reflexivity.
    - intros par kind name n HK. vm_compute in HK. discriminate HK.
    - intros par name md e HK. vm_compute in HK. discriminate HK.
    - intros opar okind oname oc npar nname md HKo HKn. vm_compute in HKo, HKn.
      injection HKo as _ _ _ <-. injection HKn as <- _ _. vm_compute. split; reflexivity.
  Qed.

  (* her directory /h/s made 0500: moving it to ANOTHER directory (/t, where she may write) is refused with EACCES on
     both sides - the ".." entry of the moved directory would change (the former deviation C03-RENAME-DIR-WRITE) *)
  Definition dfs_ro : fsys := dfs_m (mk (N.lor MODE_DIR 320) 1000 1000).
  Example rename_dir_unwritable_refused :
    let o := abs_path ([n_h] ++ [n_s]) in
    let p := abs_path ([n_t] ++ [n_g]) in
    (fst (rename dfs_ro (view_of alice 18) o p), proj_res Linux (snd (rename dfs_ro (view_of alice 18) o p)))
    = go_rename dfs_ro (svu alice 18) o p
    /\ snd (go_rename dfs_ro (svu alice 18) o p) = SErr EACCES
    /\ snd (go_rename dfs_ro (svu alice 18) o (abs_path ([n_h] ++ [n_g]))) = SOk.
  Proof.
    split; [|split; vm_compute; reflexivity].
    apply (dstep_rename_dir_new dfs_ro (svu alice 18) [n_h] n_s [n_t] n_g (dtree_m_hyps _ alice 18)); [path_ok_tac|path_ok_tac| | | |].
    - intros par kind name n HK. vm_compute in HK. injection HK as _ _ _ <-. reflexivity.
    - intros par kind name n HK. vm_compute in HK. discriminate HK.
    - intros par name md e HK. vm_compute in HK. discriminate HK.
    - intros opar okind oname oc npar nname md HKo HKn. vm_compute in HKo, HKn.
      injection HKo as _ _ _ <-. injection HKn as <- _ _. vm_compute. split; reflexivity.
  Qed.

  (* alice owns /e/q but may not write /e: replacing /h/f by it is refused on both sides (EACCES), and allowed the
     other way round (from her own directory onto /e/q she may not either: /e again) *)
  Example rename_replace_refused :
    let o := abs_path ([n_e] ++ [n_q]) in
    let p := abs_path ([n_h] ++ [n_f]) in
    proj_res Linux (snd (rename dfs (view_of alice 18) o p)) = snd (go_rename dfs (svu alice 18) o p)
    /\ snd (go_rename dfs (svu alice 18) o p) = SErr EACCES.
  Proof.
    split; [|vm_compute; reflexivity].
    apply (dstep_rename_replace_result dfs (svu alice 18) [n_e] n_q [n_h] n_f (dtree_hyps alice 18)); [path_ok_tac|path_ok_tac| | |].
    - intros par kind name n HK. vm_compute in HK. injection HK as _ _ _ <-. reflexivity.
    - eexists _, _, _, _. vm_compute. reflexivity.
    - intros par kind name n HK. vm_compute in HK. injection HK as _ _ _ <-. split; reflexivity.
  Qed.

  (* a rename onto itself needs no permission: carol may neither search /h nor write /e, but Rename(/e/q, /e/q) succeeds on
     both sides (the former deviation C03-RENAME-SAME: MemFS tested the write permission on /e first) *)
  Example rename_same_no_permission :
    let o := abs_path ([n_e] ++ [n_q]) in
    proj_res Linux (snd (rename dfs (view_of carol 18) o o)) = snd (go_rename dfs (svu carol 18) o o)
    /\ snd (go_rename dfs (svu carol 18) o o) = SOk
    /\ kperm dtree 4 2 carol = false.
  Proof.
    split; [|split; vm_compute; reflexivity].
    apply (dstep_rename_replace_result dfs (svu carol 18) [n_e] n_q [n_e] n_q (dtree_hyps carol 18)); [path_ok_tac|path_ok_tac| | |].
    - intros par kind name n HK. vm_compute in HK. injection HK as _ _ _ <-. reflexivity.
    - eexists _, _, _, _. vm_compute. reflexivity.
    - intros par kind name n HK. vm_compute in HK. injection HK as _ _ _ <-. split; reflexivity.
  Qed.

  (* ---- Remove in a sticky directory.  /t is sticky, /t/b is bob's: alice (who may write /t) is refused with EPERM on
     both sides (the former deviation C03-STICKY: MemFS removed the file) ------------------------------------------- *)
  Example remove_sticky_refused :
    let p := abs_path ([n_t] ++ [n_b]) in
    sticky_refuses dtree 6 7 alice = true
    /\ (fst (remove dfs (view_of alice 18) p), proj_res Linux (snd (remove dfs (view_of alice 18) p))) = go_remove dfs (svu alice 18) p
    /\ snd (go_remove dfs (svu alice 18) p) = SErr EPERM.
  Proof.
    split; [vm_compute; reflexivity|]. split; [|vm_compute; reflexivity].
    apply (dstep_remove dfs (svu alice 18) [n_t] n_b (dtree_hyps alice 18)); [path_ok_tac|exact dtree_sym_single].
  Qed.

  (* alice may not rename bob's /t/b either: EPERM on both sides *)
  Example rename_sticky_refused :
    let o := abs_path ([n_t] ++ [n_b]) in
    let p := abs_path ([n_t] ++ [n_g]) in
    (fst (rename dfs (view_of alice 18) o p), proj_res Linux (snd (rename dfs (view_of alice 18) o p))) = go_rename dfs (svu alice 18) o p
    /\ snd (go_rename dfs (svu alice 18) o p) = SErr EPERM.
  Proof.
    split; [|vm_compute; reflexivity].
    apply (dstep_rename_file_new dfs (svu alice 18) [n_t] n_b [n_t] n_g (dtree_hyps alice 18)); [path_ok_tac|path_ok_tac| | |].
    - intros par kind name n HK. vm_compute in HK. injection HK as _ _ _ <-. reflexivity.
    - intros par kind name n HK. vm_compute in HK. discriminate HK.
    - intros par name md e HK. vm_compute in HK. discriminate HK.
  Qed.

  (* bob, the owner of the entry, is covered by the theorem and succeeds on both sides *)
  Example remove_sticky_owner :
    let p := abs_path ([n_t] ++ [n_b]) in
    (fst (remove dfs (view_of bob 18) p), proj_res Linux (snd (remove dfs (view_of bob 18) p))) = go_remove dfs (svu bob 18) p
    /\ snd (go_remove dfs (svu bob 18) p) = SOk.
  Proof.
    split; [|vm_compute; reflexivity].
    apply (dstep_remove dfs (svu bob 18) [n_t] n_b (dtree_hyps bob 18)); [path_ok_tac|exact dtree_sym_single].
  Qed.

  (* ---- Chmod.  alice owns /e/q whose group (2000) she is not a member of; she asks for mode 02644: chmod(2) drops
     S_ISGID, and so does MemFS ([chmod_mode]; before the repository fix it stored the bit: this instance was the
     witness, corpus/C03-chmod-setgid.cases is its replay against the kernel) ----------------------------------------- *)
  Definition w_alice : world := {| w_fs := dfs; w_views := [view_of alice 18]; w_handles := [] |}.
  Definition sw_alice : sworld := {| sw_fs := dfs; sw_sv := svu alice 18 |}.

  Example chmod_nonmember_clears_setgid :
    let c := CChmod 0 (abs_path [n_e; n_q]) (N.lor MODE_SETGID 420) in
    snd (impl_step_proj w_alice c) = SOk /\ snd (spec_step true sw_alice c) = SOk
    /\ meta_at (f_heap (w_fs (fst (impl_step_proj w_alice c)))) 8 = Some (mk 420 1000 2000)
    /\ meta_at (f_heap (sw_fs (fst (spec_step true sw_alice c)))) 8 = Some (mk 420 1000 2000).
  Proof. vm_compute. repeat split; reflexivity. Qed.

  (* what the implementation did without the rule: the requested mode as it is *)
  Example chmod_without_rule_differs :
    with_mode (mk 420 1000 2000) (N.lor MODE_SETGID 420) = mk (N.lor MODE_SETGID 420) 1000 2000
    /\ with_mode (mk 420 1000 2000) (chmod_mode (mk 420 1000 2000) alice (N.lor MODE_SETGID 420)) = mk 420 1000 2000.
  Proof. vm_compute. split; reflexivity. Qed.

  (* on her own group's file the bit is kept on both sides *)
  Example chmod_member_setgid :
    (fst (chmod dfs (view_of alice 18) (abs_path [n_h; n_f]) (N.lor MODE_SETGID 416)),
     proj_res Linux (snd (chmod dfs (view_of alice 18) (abs_path [n_h; n_f]) (N.lor MODE_SETGID 416))))
    = k_chmod dfs (svu alice 18) (abs_path [n_h; n_f]) (N.lor MODE_SETGID 416)
    /\ snd (k_chmod dfs (svu alice 18) (abs_path [n_h; n_f]) (N.lor MODE_SETGID 416)) = SOk
    /\ meta_at (f_heap (fst (chmod dfs (view_of alice 18) (abs_path [n_h; n_f]) (N.lor MODE_SETGID 416)))) 2
       = Some (mk (N.lor MODE_SETGID 416) 1000 1000).
  Proof.
    split; [|split; vm_compute; reflexivity].
    apply (dstep_chmod dfs (svu alice 18) [n_h; n_f] _ (dtree_hyps alice 18)). path_ok_tac.
  Qed.

  (* bob is not the owner: EPERM on both sides *)
  Example chmod_not_owner :
    (fst (chmod dfs (view_of bob 18) (abs_path [n_h; n_f]) 511), proj_res Linux (snd (chmod dfs (view_of bob 18) (abs_path [n_h; n_f]) 511)))
    = k_chmod dfs (svu bob 18) (abs_path [n_h; n_f]) 511
    /\ snd (k_chmod dfs (svu bob 18) (abs_path [n_h; n_f]) 511) = SErr EPERM.
  Proof.
    split; [|vm_compute; reflexivity].
    apply (dstep_chmod dfs (svu bob 18) [n_h; n_f] _ (dtree_hyps bob 18)). path_ok_tac.
  Qed.

  (* the invalid access mode 3 (O_WRONLY|O_RDWR) asks for read and write on both sides: bob (r-- on /h/f) is refused *)
  Example open_accmode3 :
    open_sim (open_file dfs (view_of bob 18) 0 (abs_path [n_h; n_f]) 3 0) (k_open dfs (svu bob 18) (abs_path [n_h; n_f]) 3 0)
    /\ snd (k_open dfs (svu bob 18) (abs_path [n_h; n_f]) 3 0) = inl EACCES
    /\ snd (k_open dfs (svu alice 18) (abs_path [n_h; n_f]) 3 0) = inr 2.
  Proof.
    split; [|split; vm_compute; reflexivity].
    apply (dstep_open_nocreat dfs (svu bob 18) [n_h; n_f] 3 0 0 (dtree_hyps bob 18)); [path_ok_tac|reflexivity].
  Qed.

  (* ---- Chown by ordinary users (the former deviation C03-CHOWN-NONROOT: every such call was refused) ------------------- *)
  (* alice owns /e/q (group 2000): she may give it to her own group, not to bob; bob may pass (-1,-1) on alice's /h/f *)
  Example chown_owner_group :
    (fst (chown_gen SlEval dfs (view_of alice 18) (abs_path [n_e; n_q]) (-1) 1000),
     proj_res Linux (snd (chown_gen SlEval dfs (view_of alice 18) (abs_path [n_e; n_q]) (-1) 1000)))
    = k_chown true dfs (svu alice 18) (abs_path [n_e; n_q]) (-1) 1000
    /\ snd (k_chown true dfs (svu alice 18) (abs_path [n_e; n_q]) (-1) 1000) = SOk
    /\ meta_at (f_heap (fst (k_chown true dfs (svu alice 18) (abs_path [n_e; n_q]) (-1) 1000))) 8 = Some (mk 420 1000 1000)
    /\ snd (k_chown true dfs (svu alice 18) (abs_path [n_e; n_q]) 1001 (-1)) = SErr EPERM
    /\ snd (k_chown true dfs (svu bob 18) (abs_path [n_h; n_f]) (-1) (-1)) = SOk.
  Proof.
    split; [|repeat split; vm_compute; reflexivity].
    apply (dstep_chown SlEval dfs (svu alice 18) [n_e; n_q] (-1) 1000 (dtree_hyps alice 18)); [path_ok_tac|reflexivity].
  Qed.

  Example chown_give_away_refused :
    (fst (chown_gen SlEval dfs (view_of alice 18) (abs_path [n_e; n_q]) 1001 (-1)),
     proj_res Linux (snd (chown_gen SlEval dfs (view_of alice 18) (abs_path [n_e; n_q]) 1001 (-1))))
    = k_chown true dfs (svu alice 18) (abs_path [n_e; n_q]) 1001 (-1).
  Proof. apply (dstep_chown SlEval dfs (svu alice 18) [n_e; n_q] 1001 (-1) (dtree_hyps alice 18)); [path_ok_tac|reflexivity]. Qed.

  (* ---- a covered call at the level of worlds ----------------------------------------------------------------------- *)
  Example world_step_alice_mkdir :
    let c := CMkdir 0 (abs_path ([n_h] ++ [n_n])) 511 in
    absw w_alice 0 sw_alice /\ dcovered true 0 sw_alice c
    /\ snd (impl_step_proj w_alice c) = SOk /\ snd (spec_step true sw_alice c) = SOk
    /\ w_fs (fst (impl_step_proj w_alice c)) = sw_fs (fst (spec_step true sw_alice c)).
  Proof.
    split; [split; reflexivity|]. split; [|vm_compute; repeat split; reflexivity].
    split; [exact (dtree_hyps alice 18)|]. split; [reflexivity|]. exists [n_h], n_n. split; [reflexivity|]. path_ok_tac.
  Qed.

  (* ---- a history on the states of C05: [Inv] and [links_ok] hold of the tree; the premises of the later calls are
     stated on the states the run reaches and USE the hypotheses the theorem derives there ([dcall_ok]) ------------ *)
  Example dtree_inv : Inv w_alice.
  Proof. apply InvCheck.inv_check_sound. vm_compute. reflexivity. Qed.

  Example dtree_links_ok : links_ok (f_heap (w_fs w_alice)).
  Proof. split; [exact dtree_links_clean|exact dtree_sym_single]. Qed.

  (* alice: Mkdir /h/n 0777 ; OpenFile /h/n/g O_WRONLY|O_CREAT|O_EXCL 0666 ; Chmod /h/n/g 02600 ; Stat /h/n/g *)
  Definition ahist : list call :=
    [ CMkdir 0 (abs_path ([n_h] ++ [n_n])) 511;
      COpenFile 0 (abs_path ([n_h; n_n] ++ [n_g])) (O_WRONLY + O_CREATE + O_EXCL) 438;
      CChmod 0 (abs_path [n_h; n_n; n_g]) (N.lor MODE_SETGID 384);
      CStat 0 (abs_path [n_h; n_n; n_g]) ].

  Example ahist_ok : dcall_ok_run true 0 sw_alice ahist.
  Proof.
    unfold ahist. cbn [dcall_ok_run]. split; [|split; [|split; [|split; [|exact I]]]]; intros H _ _; (split; [exact H|]); (split; [reflexivity|]).
    - exists [n_h], n_n. split; [reflexivity|]. path_ok_tac.
    - right. right. split; [reflexivity|]. split; [reflexivity|]. exists [n_h; n_n], n_g. split; [reflexivity|].
      split; [path_ok_tac|].
      intros par kind name n d k i m HK. vm_compute in HK. discriminate HK.
    - exists [n_h; n_n; n_g]. split; [reflexivity|]. path_ok_tac.
    - exists [n_h; n_n; n_g]. split; [reflexivity|]. path_ok_tac.
  Qed.

  Example ahist_inv :
    Forall2 obs_sim (snd (impl_run w_alice ahist)) (snd (spec_run_phl true sw_alice ahist))
    /\ absw (fst (impl_run w_alice ahist)) 0 (fst (spec_run_phl true sw_alice ahist))
    /\ Inv (fst (impl_run w_alice ahist)) /\ links_ok (f_heap (w_fs (fst (impl_run w_alice ahist)))).
  Proof. exact (dhistory_inv true 0 ahist w_alice sw_alice dtree_inv (conj eq_refl eq_refl) dtree_links_ok ahist_ok). Qed.

  (* what the two runs answer (computed): the new file is alice's (0666 &^ 022 = 0644), then 02600 - she is a member
     of its group, S_ISGID stays *)
  Example ahist_results :
    snd (spec_run_phl true sw_alice ahist)
    = [ SOk; SOk; SOk;
        SInfo {| fi_name := n_g; fi_size := 0; fi_mode := N.lor MODE_SETGID 384; fi_uid := 1000; fi_gid := 1000; fi_nlink := 1; fi_id := 5 |} ]
    /\ snd (impl_run w_alice ahist) = snd (spec_run_phl true sw_alice ahist)
    /\ w_fs (fst (impl_run w_alice ahist)) = sw_fs (fst (spec_run_phl true sw_alice ahist)).
  Proof. vm_compute. repeat split; reflexivity. Qed.

  (* ---- a directory moved into itself.  / is sticky and root's, /t is bob's: alice may write / but owns neither; the
     answer is EINVAL on both sides, before the sticky bit (EPERM) is looked at, as rename(2) does (in the code the
     moved directory is also the new parent, whose lock is held: the test of its owner must not be reached) --------- *)
  Definition itree : heap :=
    [ NDir [(n_t, 1)] (mk (N.lor MODE_DIR (N.lor MODE_STICKY 511)) 0 0)
    ; NDir [] (mk (N.lor MODE_DIR 511) 1001 1000) ].
  Definition ifs : fsys := {| f_heap := itree; f_last_id := 1; f_vols := [] |}.
  Example rename_into_itself_first :
    let o := abs_path [n_t] in
    let p := abs_path ([n_t] ++ [n_g]) in
    let q := abs_path [n_g] in
    (fst (rename ifs (view_of alice 18) o p), proj_res Linux (snd (rename ifs (view_of alice 18) o p))) = go_rename ifs (svu alice 18) o p
    /\ snd (go_rename ifs (svu alice 18) o p) = SErr EINVAL
    /\ (fst (rename ifs (view_of alice 18) o q), proj_res Linux (snd (rename ifs (view_of alice 18) o q))) = go_rename ifs (svu alice 18) o q
    /\ snd (go_rename ifs (svu alice 18) o q) = SErr EPERM.
  Proof. repeat split; vm_compute; reflexivity. Qed.
End DacTree.
