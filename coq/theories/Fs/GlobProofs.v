(* Proofs about the generic Glob of Glob.v, for every record of primitives:
   - glob (avfs) = go_glob (Go 1.23.5) for every pattern shorter than Go's recursion limit;
   - the fuel is adequate; the "dir == pattern" guard is dead code on the POSIX flavour;
   - what Glob returns: for a pattern without magic characters the pattern itself iff Lstat
     succeeds; otherwise exactly the paths related to the pattern by the segment-wise relation
     [gmatch] (both inclusions), in the order "directories as matched, names sorted";
   - an error only if Match reports a malformed piece of the pattern. *)
From Coq Require Import Sorting.Sorted Sorting.Permutation.
From Avfs Require Import Base PathModel PathProofs MemFS MemFile Walk Glob ReadDirProofs.
Set Implicit Arguments.

Lemma removelast_length (A : Type) (l : list A) : l <> [] -> length (removelast l) = length l - 1.
Proof.
  induction l as [|x l IH]; [congruence|]. intros _. destruct l as [|y l]; [reflexivity|].
  cbn [removelast length] in *. rewrite IH by discriminate. cbn [length]. lia.
Qed.

(* the directory part Glob recurses on is strictly shorter than the pattern *)
Lemma clean_glob_shorter (pattern : str) :
  has_meta (clean_glob_path (fst (split Linux pattern))) = true ->
  length (clean_glob_path (fst (split Linux pattern))) < length pattern.
Proof.
  pose proof (split_app Linux pattern) as Hs. destruct (split Linux pattern) as [d0 file]. cbn [fst snd] in *.
  intros Hm. assert (Hl : length d0 <= length pattern) by (rewrite <- Hs, app_length; lia).
  destruct d0 as [|c [|c' d0]]; cbn [clean_glob_path] in *.
  - discriminate.
  - destruct (N.eqb c SLASH) eqn:E; [|discriminate]. apply N.eqb_eq in E. subst c. discriminate.
  - rewrite removelast_length by discriminate. cbn [length] in *. lia.
Qed.

Section GlobEq.
  Variable E : Type.
  Variable P : prims E.

  Lemma glob_names_eq dir pattern names m : go_glob_names P dir pattern names m = glob_names P dir pattern names m.
  Proof. revert m. induction names as [|n names IH]; intros m; [reflexivity|]. cbn [go_glob_names glob_names].
    destruct (p_match P pattern n) as [|[|]]; auto. Qed.

  Lemma glob1_eq dir pattern m : go_glob1 P dir pattern m = glob1 P dir pattern m.
  Proof. unfold go_glob1, glob1. destruct (p_stat P dir) as [e|fi]; [reflexivity|].
    destruct (si_is_dir fi); [|reflexivity]. destruct (p_dir_names P dir); [apply glob_names_eq|reflexivity]. Qed.

  Lemma glob_each_eq ds file m : go_glob_each P ds file m = glob_each P ds file m.
  Proof. revert m. induction ds as [|d ds IH]; intros m; [reflexivity|]. cbn [go_glob_each glob_each].
    rewrite glob1_eq. destruct (glob1 P d file m); auto. Qed.

  Lemma glob_rec_eq : forall fuel pattern depth,
    (depth + N.of_nat (length pattern) < 10000)%N ->
    go_glob_rec P fuel pattern depth = glob_rec P fuel pattern.
  Proof.
    induction fuel as [|f IH]; intros pattern depth Hd; [reflexivity|].
    cbn [go_glob_rec glob_rec].
    replace (N.eqb depth pathSeparatorsLimit) with false
      by (symmetry; apply N.eqb_neq; unfold pathSeparatorsLimit; lia).
    destruct (p_match P pattern []) as [|b]; [reflexivity|].
    destruct (has_meta pattern) eqn:Hm; cbn [negb]; [|reflexivity].
    pose proof (@clean_glob_shorter pattern) as Hsh.
    destruct (split Linux pattern) as [dir0 file]. cbn [fst] in Hsh.
    destruct (has_meta (clean_glob_path dir0)) eqn:Hmd; cbn [negb].
    - destruct (str_eqb (clean_glob_path dir0) pattern); [reflexivity|].
      rewrite IH by (specialize (Hsh eq_refl); lia).
      destruct (glob_rec P f (clean_glob_path dir0)); reflexivity.
    - rewrite glob1_eq. reflexivity.
  Qed.

  Theorem glob_eq (pattern : str) : (N.of_nat (length pattern) < 10000)%N -> glob P pattern = go_glob P pattern.
  Proof. intros H. unfold glob, go_glob. symmetry. apply glob_rec_eq. lia. Qed.

  (* ---- fuel ------------------------------------------------------------------------------- *)
  Lemma glob_each_fuel ds file m : glob_each P ds file m <> GOutOfFuel.
  Proof. revert m. induction ds as [|d ds IH]; intros m; cbn [glob_each]; [discriminate|].
    destruct (glob1 P d file m); [apply IH|discriminate]. Qed.

  Lemma glob_rec_fuel : forall fuel pattern, length pattern < fuel -> glob_rec P fuel pattern <> GOutOfFuel.
  Proof.
    induction fuel as [|f IH]; intros pattern Hl; [lia|]. cbn [glob_rec].
    destruct (p_match P pattern []) as [|b]; [discriminate|].
    destruct (has_meta pattern); cbn [negb]; [|destruct (p_lstat P pattern); discriminate].
    pose proof (@clean_glob_shorter pattern) as Hsh.
    destruct (split Linux pattern) as [dir0 file]. cbn [fst] in Hsh.
    destruct (has_meta (clean_glob_path dir0)) eqn:Hmd; cbn [negb].
    - destruct (str_eqb (clean_glob_path dir0) pattern); [discriminate|].
      specialize (IH (clean_glob_path dir0)). specialize (Hsh eq_refl).
      destruct (glob_rec P f (clean_glob_path dir0)); [apply glob_each_fuel|discriminate|].
      exfalso. apply IH; [lia|reflexivity].
    - destruct (glob1 P (clean_glob_path dir0) file []); discriminate.
  Qed.

  Theorem glob_fuel (pattern : str) : glob P pattern <> GOutOfFuel.
  Proof. apply glob_rec_fuel. lia. Qed.

  (* the guard against infinite recursion (issue 15879) never fires on the POSIX flavour *)
  Lemma glob_guard_dead (pattern : str) :
    has_meta (clean_glob_path (fst (split Linux pattern))) = true ->
    str_eqb (clean_glob_path (fst (split Linux pattern))) pattern = false.
  Proof.
    intros Hm. apply str_eqb_neq. intros Heq. pose proof (clean_glob_shorter pattern Hm) as Hl.
    rewrite Heq in Hl. lia.
  Qed.

  (* more fuel does not change a finished run *)
  Lemma glob_rec_mono : forall fuel pattern, length pattern < fuel ->
    glob_rec P fuel pattern = glob_rec P (S (length pattern)) pattern.
  Proof.
    assert (Hgen : forall n fuel1 fuel2 pattern, length pattern < n -> length pattern < fuel1 -> length pattern < fuel2 ->
                   glob_rec P fuel1 pattern = glob_rec P fuel2 pattern).
    { induction n as [|n IH]; intros fuel1 fuel2 pattern Hn H1 H2; [lia|].
      destruct fuel1 as [|f1]; [lia|]. destruct fuel2 as [|f2]; [lia|]. cbn [glob_rec].
      destruct (p_match P pattern []) as [|b]; [reflexivity|].
      destruct (has_meta pattern); cbn [negb]; [|reflexivity].
      pose proof (@clean_glob_shorter pattern) as Hsh.
      destruct (split Linux pattern) as [dir0 file]. cbn [fst] in Hsh.
      destruct (has_meta (clean_glob_path dir0)) eqn:Hmd; cbn [negb]; [|reflexivity].
      destruct (str_eqb (clean_glob_path dir0) pattern); [reflexivity|].
      specialize (Hsh eq_refl). rewrite (IH f1 f2 (clean_glob_path dir0)) by lia. reflexivity. }
    intros fuel pattern Hl. apply (Hgen (S (length pattern))); lia.
  Qed.
End GlobEq.

(* ---- what Glob returns ------------------------------------------------------------------------ *)
Section GlobSpec.
  Variable E : Type.
  Variable P : prims E.

  (* the names Glob sees in d: Stat succeeds and says directory, the open succeeds *)
  Definition listing (d : str) : option (list str) :=
    match p_stat P d with
    | RsOk fi => if si_is_dir fi then p_dir_names P d else None
    | RsErr _ => None
    end.

  Definition mtrue (file n : str) : bool := match p_match P file n with MrVal true => true | _ => false end.

  (* the matches below directory d, names in sorted order *)
  Definition dmatches (d file : str) : list str :=
    match listing d with
    | None => []
    | Some names => map (join2 d) (filter (mtrue file) (sort_by (fun x => x) names))
    end.

  Lemma glob_names_some d file names : forall acc l,
    glob_names P d file names acc = Some l -> l = acc ++ map (join2 d) (filter (mtrue file) names).
  Proof.
    induction names as [|n names IH]; intros acc l H; cbn [glob_names filter map] in *.
    - injection H as <-. symmetry. apply app_nil_r.
    - unfold mtrue at 1. destruct (p_match P file n) as [|[|]]; [discriminate| |].
      + apply IH in H. rewrite H, <- app_assoc. reflexivity.
      + apply IH, H.
  Qed.

  Lemma glob_names_none d file names : forall acc,
    glob_names P d file names acc = None -> exists n, In n names /\ p_match P file n = MrBad.
  Proof.
    induction names as [|n names IH]; intros acc H; cbn [glob_names] in H; [discriminate|].
    destruct (p_match P file n) as [|[|]] eqn:Em.
    - exists n. split; [left; reflexivity|exact Em].
    - destruct (IH _ H) as (n' & Hin & Hb). exists n'. split; [right; exact Hin|exact Hb].
    - destruct (IH _ H) as (n' & Hin & Hb). exists n'. split; [right; exact Hin|exact Hb].
  Qed.

  Lemma glob1_some d file acc l : glob1 P d file acc = Some l -> l = acc ++ dmatches d file.
  Proof.
    unfold glob1, dmatches, listing. destruct (p_stat P d) as [e|fi].
    - intros H. injection H as <-. symmetry. apply app_nil_r.
    - destruct (si_is_dir fi); cbn [negb].
      + destruct (p_dir_names P d) as [names|].
        * apply glob_names_some.
        * intros H. injection H as <-. symmetry. apply app_nil_r.
      + intros H. injection H as <-. symmetry. apply app_nil_r.
  Qed.

  Lemma glob1_none d file acc : glob1 P d file acc = None -> exists n, p_match P file n = MrBad.
  Proof.
    unfold glob1. destruct (p_stat P d) as [e|fi]; [discriminate|].
    destruct (si_is_dir fi); cbn [negb]; [|discriminate].
    destruct (p_dir_names P d) as [names|]; [|discriminate].
    intros H. apply glob_names_none in H as (n & _ & Hb). eauto.
  Qed.

  Lemma glob_each_ok ds file : forall acc l,
    glob_each P ds file acc = GOk l -> l = acc ++ flat_map (fun d => dmatches d file) ds.
  Proof.
    induction ds as [|d ds IH]; intros acc l H; cbn [glob_each flat_map] in *.
    - injection H as <-. symmetry. apply app_nil_r.
    - destruct (glob1 P d file acc) as [m'|] eqn:E1; [|discriminate].
      apply glob1_some in E1. apply IH in H. rewrite H, E1, <- app_assoc. reflexivity.
  Qed.

  Lemma glob_each_bad ds file : forall acc, glob_each P ds file acc = GBad -> exists n, p_match P file n = MrBad.
  Proof.
    induction ds as [|d ds IH]; intros acc H; cbn [glob_each] in H; [discriminate|].
    destruct (glob1 P d file acc) as [m'|] eqn:E1; [eapply IH, H|]. eapply glob1_none, E1.
  Qed.

  (* ---- the segment-wise relation ------------------------------------------------------------ *)
  (* [gmatch pattern q]: q exists and matches pattern segment by segment.
     - a pattern without magic characters matches itself when Lstat finds it;
     - otherwise pattern = dir0 ++ file (Split at the last separator), dir = dir0 less its trailing
       separator ("." when empty): q = Join(d, n) for a directory d that is dir itself (no magic in dir) or
       matches dir, and a name n listed in d that Match relates to file. *)
  Inductive gmatch : str -> str -> Prop :=
  | gm_lit p i : has_meta p = false -> p_lstat P p = RsOk i -> gmatch p p
  | gm_seg_lit p dir0 file names n :
      has_meta p = true -> split Linux p = (dir0, file) -> has_meta (clean_glob_path dir0) = false ->
      listing (clean_glob_path dir0) = Some names -> In n names -> p_match P file n = MrVal true ->
      gmatch p (join2 (clean_glob_path dir0) n)
  | gm_seg_rec p dir0 file d names n :
      has_meta p = true -> split Linux p = (dir0, file) -> has_meta (clean_glob_path dir0) = true ->
      gmatch (clean_glob_path dir0) d ->
      listing d = Some names -> In n names -> p_match P file n = MrVal true ->
      gmatch p (join2 d n).

  Lemma in_dmatches d file q :
    In q (dmatches d file) <-> exists names n, listing d = Some names /\ In n names /\ p_match P file n = MrVal true /\ q = join2 d n.
  Proof.
    unfold dmatches. destruct (listing d) as [names|].
    - split.
      + intros H. apply in_map_iff in H as (n & <- & Hn). apply filter_In in Hn as (Hn & Hm).
        apply sort_by_in in Hn. exists names, n. repeat split; auto.
        unfold mtrue in Hm. destruct (p_match P file n) as [|[|]]; try discriminate. reflexivity.
      + intros (names' & n & Hl & Hn & Hm & ->). injection Hl as <-. apply in_map, filter_In. split.
        * apply sort_by_in, Hn.
        * unfold mtrue. rewrite Hm. reflexivity.
    - split; [intros []|intros (? & ? & H & _); discriminate].
  Qed.

  Theorem glob_rec_member : forall fuel pattern l,
    glob_rec P fuel pattern = GOk l -> forall q, In q l <-> gmatch pattern q.
  Proof.
    induction fuel as [|f IH]; intros pattern l H q; [discriminate|]. cbn [glob_rec] in H.
    destruct (p_match P pattern []) as [|b]; [discriminate|].
    destruct (has_meta pattern) eqn:Hm; cbn [negb] in H.
    - pose proof (@glob_guard_dead pattern) as Hdead.
      destruct (split Linux pattern) as [dir0 file] eqn:Hs. cbn [fst] in Hdead.
      destruct (has_meta (clean_glob_path dir0)) eqn:Hmd; cbn [negb] in H.
      + rewrite (Hdead eq_refl) in H.
        destruct (glob_rec P f (clean_glob_path dir0)) as [m| |] eqn:Hr; try discriminate.
        apply glob_each_ok in H. cbn [app] in H. subst l. split.
        * intros Hq. apply in_flat_map in Hq as (d & Hd & Hq). apply in_dmatches in Hq as (names & n & Hl & Hn & Hmt & ->).
          eapply gm_seg_rec; eauto. apply (IH _ _ Hr), Hd.
        * intros Hg. inversion Hg as [p i Hm' _|p d0 fl names n Hm' Hs' Hmd' _ _ _|p d0 fl d names n Hm' Hs' Hmd' Hgd Hl Hn Hmt]; subst.
          -- congruence.
          -- rewrite Hs in Hs'. injection Hs' as <- <-. congruence.
          -- rewrite Hs in Hs'. injection Hs' as <- <-. apply in_flat_map. exists d. split; [apply (IH _ _ Hr), Hgd|].
             apply in_dmatches. eauto 7.
      + destruct (glob1 P (clean_glob_path dir0) file []) as [m|] eqn:E1; [|discriminate].
        injection H as <-. apply glob1_some in E1. cbn [app] in E1. subst m. split.
        * intros Hq. apply in_dmatches in Hq as (names & n & Hl & Hn & Hmt & ->). eapply gm_seg_lit; eauto.
        * intros Hg. inversion Hg as [p i Hm' _|p d0 fl names n Hm' Hs' Hmd' Hl Hn Hmt|p d0 fl d names n Hm' Hs' Hmd' _ _ _ _]; subst.
          -- congruence.
          -- rewrite Hs in Hs'. injection Hs' as <- <-. apply in_dmatches. eauto 7.
          -- rewrite Hs in Hs'. injection Hs' as <- <-. congruence.
    - destruct (p_lstat P pattern) as [e|i] eqn:Hl; injection H as <-.
      + split; [intros []|]. intros Hg. inversion Hg; subst; congruence.
      + split.
        * intros [<-|[]]. eapply gm_lit; eauto.
        * intros Hg. inversion Hg; subst; try congruence. left. reflexivity.
  Qed.

  (* Glob returns exactly the paths that exist and match segment by segment; nil when there is none *)
  Theorem glob_member (pattern : str) (l : list str) :
    glob P pattern = GOk l -> (forall q, In q l <-> gmatch pattern q) /\ (l = [] <-> forall q, ~ gmatch pattern q).
  Proof.
    intros H. pose proof (glob_rec_member _ _ H) as Hm. split; [exact Hm|]. split.
    - intros -> q Hq. apply Hm in Hq. destruct Hq.
    - intros Hn. destruct l as [|q l]; [reflexivity|]. exfalso. apply (Hn q), Hm. left. reflexivity.
  Qed.

  (* ---- an error only for a malformed pattern ---------------------------------------------------- *)
  (* the pieces of a pattern Match is applied to *)
  Inductive piece : str -> str -> Prop :=
  | piece_self p : piece p p
  | piece_file p : has_meta p = true -> piece p (snd (split Linux p))
  | piece_dir p x : has_meta p = true -> has_meta (clean_glob_path (fst (split Linux p))) = true ->
                    piece (clean_glob_path (fst (split Linux p))) x -> piece p x.

  Theorem glob_rec_bad : forall fuel pattern,
    glob_rec P fuel pattern = GBad -> exists x n, piece pattern x /\ p_match P x n = MrBad.
  Proof.
    induction fuel as [|f IH]; intros pattern H; [discriminate|]. cbn [glob_rec] in H.
    destruct (p_match P pattern []) as [|b] eqn:Em; [exists pattern, []; split; [constructor|exact Em]|].
    destruct (has_meta pattern) eqn:Hm; cbn [negb] in H; [|destruct (p_lstat P pattern); discriminate].
    pose proof (@glob_guard_dead pattern) as Hdead. pose proof (piece_file pattern Hm) as Hpf.
    pose proof (@piece_dir pattern) as Hpd.
    destruct (split Linux pattern) as [dir0 file] eqn:Hs. cbn [fst snd] in *.
    destruct (has_meta (clean_glob_path dir0)) eqn:Hmd; cbn [negb] in H.
    - rewrite (Hdead eq_refl) in H.
      destruct (glob_rec P f (clean_glob_path dir0)) as [m| |] eqn:Hr; try discriminate.
      + apply glob_each_bad in H as (n & Hb). exists file, n. split; [exact Hpf|exact Hb].
      + destruct (IH _ Hr) as (x & n & Hp & Hb). exists x, n. split; [apply Hpd; auto|exact Hb].
    - destruct (glob1 P (clean_glob_path dir0) file []) as [m|] eqn:E1; [discriminate|].
      apply glob1_none in E1 as (n & Hb). exists file, n. split; [exact Hpf|exact Hb].
  Qed.

  Theorem glob_bad (pattern : str) :
    glob P pattern = GBad -> exists x n, piece pattern x /\ p_match P x n = MrBad.
  Proof. apply glob_rec_bad. Qed.

  (* ---- the two simple shapes, as equations -------------------------------------------------------- *)
  Theorem glob_no_meta (pattern : str) : has_meta pattern = false ->
    glob P pattern = match p_match P pattern [] with
                     | MrBad => GBad
                     | MrVal _ => match p_lstat P pattern with RsOk _ => GOk [pattern] | RsErr _ => GOk [] end
                     end.
  Proof.
    intros Hm. unfold glob. cbn [glob_rec]. rewrite Hm. cbn [negb].
    destruct (p_match P pattern []); [reflexivity|]. destruct (p_lstat P pattern); reflexivity.
  Qed.

  (* one magic segment below a literal directory: the sorted names of that directory that match, joined to it *)
  Theorem glob_one_level (pattern dir0 file : str) :
    has_meta pattern = true -> split Linux pattern = (dir0, file) -> has_meta (clean_glob_path dir0) = false ->
    glob P pattern = match p_match P pattern [] with
                     | MrBad => GBad
                     | MrVal _ =>
                         match listing (clean_glob_path dir0) with
                         | None => GOk []
                         | Some names =>
                             if existsb (fun n => match p_match P file n with MrBad => true | _ => false end) names
                             then GBad
                             else GOk (map (join2 (clean_glob_path dir0)) (filter (mtrue file) (sort_by (fun x => x) names)))
                         end
                     end.
  Proof.
    intros Hm Hs Hmd. unfold glob. cbn [glob_rec]. rewrite Hm, Hs, Hmd. cbn [negb].
    destruct (p_match P pattern []); [reflexivity|].
    destruct (glob1 P (clean_glob_path dir0) file []) as [m|] eqn:E1.
    - pose proof (glob1_some _ _ _ E1) as Hm1. cbn [app] in Hm1. unfold dmatches in Hm1.
      unfold glob1, listing in *. destruct (p_stat P (clean_glob_path dir0)) as [e|fi]; [congruence|].
      destruct (si_is_dir fi); cbn [negb] in *; [|congruence].
      destruct (p_dir_names P (clean_glob_path dir0)) as [names|]; [|congruence].
      replace (existsb _ names) with false; [congruence|]. symmetry. apply not_true_is_false. intros Hex.
      apply existsb_exists in Hex as (n & Hn & Hb).
      assert (Hall : forall names acc l, glob_names P (clean_glob_path dir0) file names acc = Some l ->
                     forall n, In n names -> p_match P file n <> MrBad).
      { clear. induction names as [|n' names IH]; intros acc l H n Hn; [destruct Hn|]. cbn [glob_names] in H.
        destruct Hn as [->|Hn].
        - destruct (p_match P file n); [discriminate|discriminate].
        - destruct (p_match P file n') as [|[|]]; [discriminate|eapply IH; eauto|eapply IH; eauto]. }
      apply (Hall _ _ _ E1 n); [apply sort_by_in, Hn|]. destruct (p_match P file n); [reflexivity|discriminate].
    - unfold glob1, listing in *. destruct (p_stat P (clean_glob_path dir0)) as [e|fi]; [discriminate|].
      destruct (si_is_dir fi); cbn [negb] in *; [|discriminate].
      destruct (p_dir_names P (clean_glob_path dir0)) as [names|]; [|discriminate].
      apply glob_names_none in E1 as (n & Hn & Hb). apply sort_by_in in Hn.
      replace (existsb _ names) with true; [reflexivity|]. symmetry. apply existsb_exists. exists n. split; [exact Hn|].
      rewrite Hb. reflexivity.
  Qed.
End GlobSpec.
