(* Property C05, lexical side (POSIX flavour).
   Part A: Clean, Join, Abs and PathIterator.ReplacePart keep a path rooted
   (first byte '/'), so the current directory of a view and every path the
   walk iterates over are rooted.
   Part B (below): the text of the iterator spells the walk made so far. *)
From Avfs Require Import Base BaseProofs PathModel PathProofs MemFS MemFile World Inv InvSearch.

Definition rooted (p : str) : Prop := exists r, p = SLASH :: r.

Lemma rooted_cwd_ok p : rooted p <-> cwd_ok p.
Proof. reflexivity. Qed.

(* ---- Clean keeps the leading separator ------------------------------------------- *)
Section CleanRooted.
  Variable rest : str.
  Let path : str := SLASH :: rest.

  Definition lbP (b : lazybuf) : Prop :=
    1 <= lb_w b /\ match lb_buf b with None => True | Some buf => exists t, buf = SLASH :: t end.

  Lemma set_nth_cons x t w c : 1 <= w -> set_nth (x :: t) w c = x :: set_nth t (w - 1) c.
  Proof. destruct w as [|w]; [lia|]. intros _. replace (S w - 1) with w by lia. reflexivity. Qed.

  Lemma lbP_append b c : lbP b -> lbP (lb_append path b c).
  Proof.
    intros [Hw Hb]. unfold lb_append. destruct (lb_buf b) as [buf|] eqn:E.
    - destruct Hb as (t & ->). split; cbn [lb_w lb_buf]; [lia|].
      rewrite set_nth_cons by lia. eauto.
    - destruct (Nat.ltb (lb_w b) (length path) && N.eqb (nthb path (lb_w b)) c).
      + split; cbn [lb_w lb_buf]; auto; lia.
      + split; cbn [lb_w lb_buf]; [lia|].
        destruct (lb_w b) as [|w] eqn:Ew; [lia|].
        unfold path at 1. cbn [firstn app]. rewrite set_nth_cons by lia. eauto.
  Qed.

  Lemma lbP_fold l b : lbP b -> lbP (fold_left (lb_append path) l b).
  Proof. revert b; induction l as [|c l IH]; intros b Hb; cbn [fold_left]; auto. apply IH, lbP_append, Hb. Qed.

  Lemma backtrack_ge os b dotdot fuel : forall w, dotdot <= w -> dotdot <= backtrack os path b dotdot w fuel.
  Proof.
    induction fuel as [|f IH]; intros w Hw; cbn [backtrack]; auto.
    destruct (Nat.ltb_spec dotdot w) as [Hlt|Hge]; cbn [andb]; auto.
    destruct (negb (is_sep os (lb_index path b w))); auto. apply IH. lia.
  Qed.

  Lemma clean_loop_rooted n fuel : forall r out,
    lbP out -> lbP (clean_loop Linux path true n fuel r 1 out).
  Proof.
    induction fuel as [|f IH]; intros r out Hout; cbn [clean_loop]; auto.
    destruct (negb (Nat.ltb r n)); auto.
    destruct (is_sep Linux (nthb path r)); [now apply IH|].
    destruct (N.eqb (nthb path r) DOT && (Nat.eqb (S r) n || is_sep Linux (nthb path (S r)))); [now apply IH|].
    destruct (N.eqb (nthb path r) DOT && N.eqb (nthb path (S r)) DOT
              && (Nat.eqb (S (S r)) n || is_sep Linux (nthb path (S (S r))))).
    - destruct (Nat.ltb_spec 1 (lb_w out)) as [Hlt|Hge].
      + apply IH. split; cbn [lb_w lb_buf]; [|apply Hout].
        apply backtrack_ge. lia.
      + cbn [negb]. now apply IH.
    - apply IH. apply lbP_fold.
      destruct ((true && negb (Nat.eqb (lb_w out) 1)) || (negb true && negb (Nat.eqb (lb_w out) 0))); auto.
      now apply lbP_append.
  Qed.

  Lemma clean_rooted_aux : rooted (clean Linux path).
  Proof.
    unfold clean. change (volume_name_len Linux path) with 0. cbn [skipn]. unfold path at 1.
    change (is_sep Linux SLASH) with true. cbv iota beta.
    set (out1 := lb_append path {| lb_buf := None; lb_w := 0 |} (sepc Linux)).
    assert (H1 : lbP out1).
    { unfold out1, lb_append. cbn [lb_buf lb_w]. unfold path at 1 2. cbn [length Nat.ltb Nat.leb nthb nth].
      change (N.eqb SLASH (sepc Linux)) with true. cbn [andb]. split; cbn [lb_w lb_buf]; auto. }
    pose proof (clean_loop_rooted (length path) (S (length path)) 1 out1 H1) as H2.
    fold path. set (out2 := clean_loop Linux path true (length path) (S (length path)) 1 1 out1) in *.
    destruct H2 as [Hw Hb].
    destruct (Nat.eqb_spec (lb_w out2) 0) as [E|_]; [lia|].
    unfold from_slash. destruct (lb_buf out2) as [buf|].
    - destruct Hb as (t & ->). cbn [firstn app]. destruct (lb_w out2) as [|w]; [lia|]. cbn [firstn]. red. eauto.
    - cbn [Nat.add]. destruct (lb_w out2) as [|w]; [lia|]. unfold path. cbn [firstn]. red. eauto.
  Qed.
End CleanRooted.

Lemma clean_rooted p : rooted p -> rooted (clean Linux p).
Proof. intros (r & ->). apply clean_rooted_aux. Qed.

Lemma join2_rooted a b : rooted a -> rooted (join Linux [a; b]).
Proof.
  intros (r & ->). unfold join. cbn [drop_empty_prefix intercalate]. apply clean_rooted.
  exists (r ++ [sepc Linux] ++ b). reflexivity.
Qed.

Lemma join3_rooted a b c : rooted a -> rooted (join Linux [a; b; c]).
Proof.
  intros (r & ->). unfold join. cbn [drop_empty_prefix intercalate]. apply clean_rooted.
  exists (r ++ [sepc Linux] ++ b ++ [sepc Linux] ++ c). reflexivity.
Qed.

Lemma is_abs_rooted p : is_abs Linux p = true -> rooted p.
Proof. intros H. apply is_abs_linux in H. exact H. Qed.

Lemma abs_rooted cwd p : rooted cwd -> rooted (abs Linux cwd p).
Proof.
  intros Hc. unfold abs. destruct (is_abs Linux p) eqn:E.
  - apply clean_rooted. now apply is_abs_rooted.
  - now apply join2_rooted.
Qed.

Lemma firstn_rooted p k : rooted p -> 1 <= k -> rooted (firstn k p).
Proof. intros (r & ->) Hk. destruct k as [|k]; [lia|]. cbn [firstn]. red. eauto. Qed.

Lemma pi_replace_part_rooted pi link :
  rooted (pi_path pi) -> 1 <= pi_start pi ->
  rooted (pi_path (snd (pi_replace_part Linux pi link))).
Proof.
  intros Hr Hs. unfold pi_replace_part.
  set (np := if is_abs Linux link then join Linux [link; skipn (pi_end pi) (pi_path pi)]
             else join Linux [firstn (pi_start pi) (pi_path pi); link; skipn (pi_end pi) (pi_path pi)]).
  assert (Hnp : rooted np).
  { unfold np. destruct (is_abs Linux link) eqn:E.
    - apply join2_rooted. now apply is_abs_rooted.
    - apply join3_rooted. now apply firstn_rooted. }
  destruct (Nat.leb (length np) (pi_start pi) || negb (str_eqb (firstn (pi_start pi) np) (firstn (pi_start pi) (pi_path pi))));
    cbn [snd pi_reset pi_path]; exact Hnp.
Qed.

Lemma pi_next_path os pi : pi_path (snd (pi_next os pi)) = pi_path pi.
Proof. unfold pi_next. destruct (Nat.leb (length (pi_path pi)) (S (pi_end pi))); reflexivity. Qed.

Lemma pi_next_start os pi : pi_start (snd (pi_next os pi)) = S (pi_end pi).
Proof. unfold pi_next. destruct (Nat.leb (length (pi_path pi)) (S (pi_end pi))); reflexivity. Qed.

(* the iterator returned by the walk has a rooted path *)
Lemma search_loop_rooted h v slm vol :
  v_os v = Linux ->
  forall fuel parent pi sl saved,
    rooted (pi_path pi) -> (forall p, saved = Some p -> rooted (pi_path p)) ->
    rooted (pi_path (sr_pi (search_loop fuel h v slm vol parent pi sl saved))).
Proof.
  intros Hos. induction fuel as [|f IH]; intros parent pi sl saved Hr Hsv; cbn [search_loop]; auto.
  rewrite Hos.
  pose proof (pi_next_path Linux pi) as Hp. pose proof (pi_next_start Linux pi) as Hst.
  destruct (pi_next Linux pi) as [ok pi1]. cbn [snd] in Hp, Hst.
  assert (Hr1 : rooted (pi_path pi1)) by now rewrite Hp.
  assert (Hout : rooted (pi_path (out_pi pi1 saved))).
  { unfold out_pi. destruct saved as [p|]; auto. }
  destruct ok; cbn [negb]; [|exact Hout].
  destruct (alk (pi_part pi1) (children h parent)) as [c|]; [|exact Hout].
  destruct (get h c) as [[ch m|dt k id m|lk m]|]; cbn [sr_pi]; try exact Hout.
  - destruct (pi_is_last pi1); [exact Hout|].
    destruct (check_permission m OpenLookup (v_user v)); [|exact Hout]. now apply IH.
  - destruct (pi_is_last pi1); exact Hout.
  - destruct (Nat.ltb slCountMax (S sl)); [exact Hout|].
    destruct (pi_is_last pi1 && slmode_eqb slm SlLstat); [exact Hout|].
    pose proof (pi_replace_part_rooted pi1 lk Hr1) as H2. rewrite Hst in H2. specialize (H2 ltac:(lia)).
    destruct (pi_replace_part Linux pi1 lk) as [reset pi2]. cbn [snd] in H2.
    apply IH; auto.
    intros p. destruct saved as [p0|].
    + intros [= <-]. now apply Hsv.
    + destruct (pi_is_last pi1 && slmode_eqb slm SlStat); [intros [= <-]; exact Hr1 | discriminate].
Qed.

Lemma search_node_rooted s v path slm :
  f_vols s = [] -> v_os v = Linux -> cwd_ok (v_cwd v) ->
  rooted (pi_path (sr_pi (search_node s v path slm))).
Proof.
  intros Hv Hos Hc. rewrite search_node_linux by assumption.
  apply search_loop_rooted; auto.
  - cbn [pi_new pi_path]. now apply abs_rooted.
  - discriminate.
Qed.
