(* Property C05, lexical side (POSIX flavour).
   Part A: Clean, Join, Abs and PathIterator.ReplacePart keep a path rooted
   (first byte '/'), so the current directory of a view and every path the
   walk iterates over are rooted.
   Part B (below): the text of the iterator spells the walk made so far. *)
From Avfs Require Import Base BaseProofs PathModel PathProofs MemFS MemFile World Inv InvSearch.

Definition rooted (p : str) : Prop := exists r, p = SLASH :: r.

Lemma rooted_cwd_ok p : rooted p <-> cwd_ok p.
Proof. reflexivity. Qed.

(* ---- Clean keeps the leading separator ------------------------------------------- *)
Section CleanRooted.
  Variable rest : str.
  Let path : str := SLASH :: rest.

  Definition lbP (b : lazybuf) : Prop :=
    1 <= lb_w b /\ match lb_buf b with None => True | Some buf => exists t, buf = SLASH :: t end.

  Lemma set_nth_cons x t w c : 1 <= w -> set_nth (x :: t) w c = x :: set_nth t (w - 1) c.
  Proof. destruct w as [|w]; [lia|]. intros _. replace (S w - 1) with w by lia. reflexivity. Qed.

  Lemma lbP_append b c : lbP b -> lbP (lb_append path b c).
  Proof.
    intros [Hw Hb]. unfold lb_append. destruct (lb_buf b) as [buf|] eqn:E.
    - destruct Hb as (t & ->). split; cbn [lb_w lb_buf]; [lia|].
      rewrite set_nth_cons by lia. eauto.
    - destruct (Nat.ltb (lb_w b) (length path) && N.eqb (nthb path (lb_w b)) c).
      + split; cbn [lb_w lb_buf]; auto; lia.
      + split; cbn [lb_w lb_buf]; [lia|].
        destruct (lb_w b) as [|w] eqn:Ew; [lia|].
        unfold path at 1. cbn [firstn app]. rewrite set_nth_cons by lia. eauto.
  Qed.

  Lemma lbP_fold l b : lbP b -> lbP (fold_left (lb_append path) l b).
  Proof. revert b; induction l as [|c l IH]; intros b Hb; cbn [fold_left]; auto. apply IH, lbP_append, Hb. Qed.

  Lemma backtrack_ge os b dotdot fuel : forall w, dotdot <= w -> dotdot <= backtrack os path b dotdot w fuel.
  Proof.
    induction fuel as [|f IH]; intros w Hw; cbn [backtrack]; auto.
    destruct (Nat.ltb_spec dotdot w) as [Hlt|Hge]; cbn [andb]; auto.
    destruct (negb (is_sep os (lb_index path b w))); auto. apply IH. lia.
  Qed.

  Lemma clean_loop_rooted n fuel : forall r out,
    lbP out -> lbP (clean_loop Linux path true n fuel r 1 out).
  Proof.
    induction fuel as [|f IH]; intros r out Hout; cbn [clean_loop]; auto.
    destruct (negb (Nat.ltb r n)); auto.
    destruct (is_sep Linux (nthb path r)); [now apply IH|].
    destruct (N.eqb (nthb path r) DOT && (Nat.eqb (S r) n || is_sep Linux (nthb path (S r)))); [now apply IH|].
    destruct (N.eqb (nthb path r) DOT && N.eqb (nthb path (S r)) DOT
              && (Nat.eqb (S (S r)) n || is_sep Linux (nthb path (S (S r))))).
    - destruct (Nat.ltb_spec 1 (lb_w out)) as [Hlt|Hge].
      + apply IH. split; cbn [lb_w lb_buf]; [|apply Hout].
        apply backtrack_ge. lia.
      + cbn [negb]. now apply IH.
    - apply IH. apply lbP_fold.
      destruct ((true && negb (Nat.eqb (lb_w out) 1)) || (negb true && negb (Nat.eqb (lb_w out) 0))); auto.
      now apply lbP_append.
  Qed.

  Lemma clean_rooted_aux : rooted (clean Linux path).
  Proof.
    unfold clean. change (volume_name_len Linux path) with 0. cbn [skipn]. unfold path at 1.
    change (is_sep Linux SLASH) with true. cbv iota beta.
    set (out1 := lb_append path {| lb_buf := None; lb_w := 0 |} (sepc Linux)).
    assert (H1 : lbP out1).
    { unfold out1, lb_append. cbn [lb_buf lb_w]. unfold path at 1 2. cbn [length Nat.ltb Nat.leb nthb nth].
      change (N.eqb SLASH (sepc Linux)) with true. cbn [andb]. split; cbn [lb_w lb_buf]; auto. }
    pose proof (clean_loop_rooted (length path) (S (length path)) 1 out1 H1) as H2.
    fold path. set (out2 := clean_loop Linux path true (length path) (S (length path)) 1 1 out1) in *.
    destruct H2 as [Hw Hb].
    destruct (Nat.eqb_spec (lb_w out2) 0) as [E|_]; [lia|].
    unfold from_slash. destruct (lb_buf out2) as [buf|].
    - destruct Hb as (t & ->). cbn [firstn app]. destruct (lb_w out2) as [|w]; [lia|]. cbn [firstn]. red. eauto.
    - cbn [Nat.add]. destruct (lb_w out2) as [|w]; [lia|]. unfold path. cbn [firstn]. red. eauto.
  Qed.
End CleanRooted.

Lemma clean_rooted p : rooted p -> rooted (clean Linux p).
Proof. intros (r & ->). apply clean_rooted_aux. Qed.

Lemma join2_rooted a b : rooted a -> rooted (join Linux [a; b]).
Proof.
  intros (r & ->). unfold join. cbn [drop_empty_prefix intercalate]. apply clean_rooted.
  exists (r ++ [sepc Linux] ++ b). reflexivity.
Qed.

Lemma join3_rooted a b c : rooted a -> rooted (join Linux [a; b; c]).
Proof.
  intros (r & ->). unfold join. cbn [drop_empty_prefix intercalate]. apply clean_rooted.
  exists (r ++ [sepc Linux] ++ b ++ [sepc Linux] ++ c). reflexivity.
Qed.

Lemma is_abs_rooted p : is_abs Linux p = true -> rooted p.
Proof. intros H. apply is_abs_linux in H. exact H. Qed.

Lemma abs_rooted cwd p : rooted cwd -> rooted (abs Linux cwd p).
Proof.
  intros Hc. unfold abs. destruct (is_abs Linux p) eqn:E.
  - apply clean_rooted. now apply is_abs_rooted.
  - now apply join2_rooted.
Qed.

Lemma firstn_rooted p k : rooted p -> 1 <= k -> rooted (firstn k p).
Proof. intros (r & ->) Hk. destruct k as [|k]; [lia|]. cbn [firstn]. red. eauto. Qed.

Lemma pi_replace_part_rooted pi link :
  rooted (pi_path pi) -> 1 <= pi_start pi ->
  rooted (pi_path (snd (pi_replace_part Linux pi link))).
Proof.
  intros Hr Hs. unfold pi_replace_part.
  set (np := if is_abs Linux link then join Linux [link; skipn (pi_end pi) (pi_path pi)]
             else join Linux [firstn (pi_start pi) (pi_path pi); link; skipn (pi_end pi) (pi_path pi)]).
  assert (Hnp : rooted np).
  { unfold np. destruct (is_abs Linux link) eqn:E.
    - apply join2_rooted. now apply is_abs_rooted.
    - apply join3_rooted. now apply firstn_rooted. }
  destruct (Nat.leb (length np) (pi_start pi) || negb (str_eqb (firstn (pi_start pi) np) (firstn (pi_start pi) (pi_path pi))));
    cbn [snd pi_reset pi_path]; exact Hnp.
Qed.

Lemma pi_next_path os pi : pi_path (snd (pi_next os pi)) = pi_path pi.
Proof. unfold pi_next. destruct (Nat.leb (length (pi_path pi)) (S (pi_end pi))); reflexivity. Qed.

Lemma pi_next_start os pi : pi_start (snd (pi_next os pi)) = S (pi_end pi).
Proof. unfold pi_next. destruct (Nat.leb (length (pi_path pi)) (S (pi_end pi))); reflexivity. Qed.

(* the iterator returned by the walk has a rooted path *)
Lemma search_loop_rooted h v slm vol :
  v_os v = Linux ->
  forall fuel parent pi sl saved,
    rooted (pi_path pi) -> (forall p, saved = Some p -> rooted (pi_path p)) ->
    rooted (pi_path (sr_pi (search_loop fuel h v slm vol parent pi sl saved))).
Proof.
  intros Hos. induction fuel as [|f IH]; intros parent pi sl saved Hr Hsv; cbn [search_loop]; auto.
  rewrite Hos.
  pose proof (pi_next_path Linux pi) as Hp. pose proof (pi_next_start Linux pi) as Hst.
  destruct (pi_next Linux pi) as [ok pi1]. cbn [snd] in Hp, Hst.
  assert (Hr1 : rooted (pi_path pi1)) by now rewrite Hp.
  assert (Hout : rooted (pi_path (out_pi pi1 saved))).
  { unfold out_pi. destruct saved as [p|]; auto. }
  destruct ok; cbn [negb]; [|exact Hout].
  match goal with |- context [if ?b then _ else _] => destruct b end; [exact Hout|].
  destruct (alk (pi_part pi1) (children h parent)) as [c|]; [|exact Hout].
  destruct (get h c) as [[ch m|dt k id m|lk m]|]; cbn [sr_pi]; try exact Hout.
  - destruct (pi_is_last pi1); [exact Hout|].
    destruct (check_permission m OpenLookup (v_user v)); [|exact Hout]. now apply IH.
  - destruct (pi_is_last pi1); exact Hout.
  - destruct (pi_is_last pi1 && slmode_eqb slm SlLstat); [exact Hout|].
    destruct (Nat.ltb slCountMax (S sl)); [exact Hout|].
    pose proof (pi_replace_part_rooted pi1 lk Hr1) as H2. rewrite Hst in H2. specialize (H2 ltac:(lia)).
    destruct (pi_replace_part Linux pi1 lk) as [reset pi2]. cbn [snd] in H2.
    apply IH; auto.
    intros p. destruct saved as [p0|].
    + intros [= <-]. now apply Hsv.
    + destruct (pi_is_last pi1 && slmode_eqb slm SlStat); [intros [= <-]; exact Hr1 | discriminate].
Qed.

Lemma search_node_rooted s v path slm :
  f_vols s = [] -> v_os v = Linux -> cwd_ok (v_cwd v) ->
  rooted (pi_path (sr_pi (search_node s v path slm))).
Proof.
  intros Hv Hos Hc. rewrite search_node_linux by assumption.
  apply search_loop_rooted; auto.
  - cbn [pi_new pi_path]. now apply abs_rooted.
  - discriminate.
Qed.

(* ==== Part B: the text of the iterator spells the walk ============================== *)
Definition spell (ns : list str) : str := flat_map (fun n => SLASH :: n) ns.

Lemma spell_app a b : spell (a ++ b) = spell a ++ spell b.
Proof. unfold spell. now rewrite flat_map_app. Qed.

Lemma spell_snoc ns n : spell (ns ++ [n]) = spell ns ++ SLASH :: n.
Proof. rewrite spell_app. unfold spell at 2. cbn [flat_map]. now rewrite app_nil_r. Qed.

Lemma is_prefix_app a b : is_prefix a (a ++ b) = true.
Proof. induction a as [|x a IH]; cbn [is_prefix app]; auto. now rewrite N.eqb_refl. Qed.

(* walks: lists of entry names *)
Inductive walk (h : heap) (r : nat) : list str -> nat -> Prop :=
| walk_nil : walk h r [] r
| walk_snoc ns d n c : walk h r ns d -> edge h d n c -> walk h r (ns ++ [n]) c.

Lemma walk_reach h r ns c : walk h r ns c -> reach h r c.
Proof. induction 1; [apply reach_refl | eapply reach_step; eauto]. Qed.

Lemma reach_walk h r c : reach h r c -> exists ns, walk h r ns c.
Proof.
  induction 1 as [|d n c Hr [ns IH] He]; [exists []; constructor|].
  exists (ns ++ [n]). econstructor; eauto.
Qed.

Lemma walk_app h r a m b c : walk h r a m -> walk h m b c -> walk h r (a ++ b) c.
Proof.
  intros Ha Hb. induction Hb as [|ns d n c Hb IH He].
  - now rewrite app_nil_r.
  - rewrite app_assoc. econstructor; eauto.
Qed.

Lemma walk_nonempty_reachp h r ns n c : walk h r (ns ++ [n]) c -> reachp h r c.
Proof.
  intros H. inversion H as [E|ns' d n' c' Hw He E]; subst.
  - destruct ns; discriminate.
  - exists d, n'. split; auto. eapply walk_reach; eauto.
Qed.

(* exactly one walk leads from a start directory to a directory *)
Lemma walk_unique h r : Inv_heap h ->
  forall ns1 c, walk h r ns1 c -> forall ns2, walk h r ns2 c -> is_dir h c -> ns1 = ns2.
Proof.
  intros IH ns1 c H1. induction H1 as [|ns1 d1 n1 c H1 IH1 He1]; intros ns2 H2 Hd.
  - inversion H2 as [|ns2' d2 n2 c' H2' He2]; subst; auto.
    exfalso. apply (@I5_acyclic _ IH r). exists d2, n2. split; auto. eapply walk_reach; eauto.
  - inversion H2 as [E|ns2' d2 n2 c' H2' He2]; subst.
    + exfalso. apply (@I5_acyclic _ IH c). exists d1, n1. split; auto. eapply walk_reach; eauto.
    + destruct (@I3_single _ IH _ _ _ _ _ He1 He2 Hd) as [-> ->].
      f_equal. apply IH1; auto. eapply edge_src_dir; eauto.
Qed.

(* ---- list facts ---------------------------------------------------------------------- *)
Lemma firstn_split_at (l : str) a b : a <= b -> firstn b l = firstn a l ++ firstn (b - a) (skipn a l).
Proof.
  revert a b; induction l as [|x l IH]; intros a b Hab.
  - now rewrite !firstn_nil, skipn_nil, firstn_nil.
  - destruct a as [|a]; [cbn [firstn skipn app]; now rewrite Nat.sub_0_r|].
    destruct b as [|b]; [lia|]. cbn [firstn skipn app Nat.sub]. f_equal. apply IH. lia.
Qed.

Lemma firstn_S_nth (l : str) a : a < length l -> firstn (S a) l = firstn a l ++ [nth a l 0%N].
Proof.
  revert a; induction l as [|x l IH]; intros a Ha; cbn [length] in Ha; [lia|].
  destruct a as [|a]; [reflexivity|]. cbn [firstn nth app]. f_equal. apply IH. lia.
Qed.

Lemma nth_skipn (l : str) n k : nth k (skipn n l) 0%N = nth (n + k) l 0%N.
Proof.
  revert n; induction l as [|x l IH]; intros [|n]; cbn [skipn nth Nat.add]; auto.
  - destruct k; reflexivity.
Qed.

Lemma nth_firstn_lt (l : str) n k : k < n -> nth k (firstn n l) 0%N = nth k l 0%N.
Proof. intros. now apply nth_firstn_lt_own. Qed.

Lemma find_from_hit f s i :
  find_from f s i < i + length s -> f (nth (find_from f s i - i) s 0%N) = true.
Proof.
  revert i; induction s as [|c s IH]; intros i; cbn [find_from length]; [lia|].
  destruct (f c) eqn:Hc.
  - intros _. now rewrite Nat.sub_diag.
  - intros H. pose proof (find_from_bounds f s (S i)) as Hb.
    replace (find_from f s (S i) - i) with (S (find_from f s (S i) - S i)) by lia.
    cbn [nth]. apply IH. lia.
Qed.

Lemma index_from_hit f (l : str) i :
  i <= length l -> index_from f l i < length l -> f (nth (index_from f l i) l 0%N) = true.
Proof.
  intros Hi Hlt. unfold index_from in *.
  pose proof (find_from_bounds f (skipn i l) i) as Hb.
  pose proof (find_from_hit f (skipn i l) i) as H. rewrite skipn_length in H.
  specialize (H ltac:(lia)). rewrite nth_skipn in H.
  replace (i + (find_from f (skipn i l) i - i)) with (find_from f (skipn i l) i) in H by lia. exact H.
Qed.

(* ---- one step of the iterator ---------------------------------------------------------- *)
Lemma pi_next_text pi pi1 :
  pi_end pi <= length (pi_path pi) ->
  (pi_end pi < length (pi_path pi) -> nth (pi_end pi) (pi_path pi) 0%N = SLASH) ->
  pi_next Linux pi = (true, pi1) ->
  pi_path pi1 = pi_path pi /\ pi_start pi1 = S (pi_end pi) /\ pi_vnl pi1 = pi_vnl pi /\
  S (pi_end pi) < length (pi_path pi) /\
  pi_end pi1 <= length (pi_path pi) /\
  firstn (pi_end pi1) (pi_path pi) = firstn (pi_end pi) (pi_path pi) ++ SLASH :: pi_part pi1 /\
  (pi_end pi1 < length (pi_path pi) -> nth (pi_end pi1) (pi_path pi) 0%N = SLASH).
Proof.
  intros He Hsep Hn. unfold pi_next in Hn.
  destruct (Nat.leb (length (pi_path pi)) (S (pi_end pi))) eqn:Hl; [discriminate|].
  apply Nat.leb_gt in Hl. injection Hn as <-. unfold pi_part. cbn [pi_path pi_start pi_end pi_vnl].
  set (l := pi_path pi) in *. set (e0 := pi_end pi) in *.
  set (e1 := index_from (N.eqb SLASH) l (S e0)).
  pose proof (@index_from_bounds (N.eqb SLASH) l (S e0) ltac:(lia)) as Hb. fold e1 in Hb.
  repeat split; auto; try lia.
  - rewrite (firstn_split_at l (S e0) e1) by lia.
    rewrite firstn_S_nth by lia. rewrite Hsep by lia. now rewrite <- app_assoc.
  - intros Hlt. pose proof (index_from_hit (N.eqb SLASH) l (S e0) ltac:(lia) Hlt) as H.
    fold e1 in H. apply N.eqb_eq in H. now rewrite <- H.
Qed.

(* ---- the walk --------------------------------------------------------------------------- *)
Definition text_inv (h : heap) (vroot parent : nat) (pi : piter) : Prop :=
  pi_vnl pi = 0 /\ rooted (pi_path pi) /\
  pi_end pi <= length (pi_path pi) /\
  (pi_end pi < length (pi_path pi) -> nth (pi_end pi) (pi_path pi) 0%N = SLASH) /\
  exists ns, walk h vroot ns parent /\ firstn (pi_end pi) (pi_path pi) = spell ns.

Definition text_post (h : heap) (vroot : nat) (r : sres) : Prop :=
  forall p, sr_parent r = Some p -> sr_err r <> EFuel ->
            (pi_is_last (sr_pi r) = true \/ sr_err r = EFileExists) ->
            sr_child r <> Some p ->
            exists ns, walk h vroot ns p /\ pi_path (sr_pi r) = spell (ns ++ [pi_part (sr_pi r)]).

Lemma search_loop_text h v slm vroot :
  v_os v = Linux -> slm <> SlStat ->
  forall fuel parent pi sl, text_inv h vroot parent pi ->
    text_post h vroot (search_loop fuel h v slm vroot parent pi sl None).
Proof.
  intros Hos Hslm. induction fuel as [|f IH]; intros parent pi sl TI; cbn [search_loop].
  - intros p _ He. cbn [sr_err] in He. congruence.
  - rewrite Hos. destruct TI as (Hv & Hr & Hle & Hsep & ns & Hw & Hfn).
    destruct (pi_next Linux pi) as [ok pi1] eqn:En. destruct ok; cbn [negb].
    2:{ intros p Hp _ _ Hc. cbn [sr_parent sr_child] in *. congruence. }
    destruct (pi_next_text pi pi1 Hle Hsep En) as (P1 & P2 & P3 & P4 & P5 & P6 & P7).
    (* every result built on pi1 with a child found in [parent] or with no child *)
    assert (Hres : forall ch e,
              ch <> Some parent -> (e = EFileExists -> pi_is_last pi1 = true) ->
              text_post h vroot {| sr_parent := Some parent; sr_child := ch; sr_pi := out_pi pi1 None; sr_err := e |}).
    { intros ch e _ Hfe p Hp _ Hlast0 _. cbn [sr_parent sr_pi sr_err out_pi] in *. injection Hp as <-.
      assert (Hlast : pi_is_last pi1 = true) by (destruct Hlast0; auto).
      exists ns. split; auto. unfold pi_is_last in Hlast. apply Nat.eqb_eq in Hlast.
      rewrite spell_snoc, <- Hfn, <- P6, Hlast, P1, firstn_all. reflexivity. }
    match goal with |- context [if ?b then _ else _] => destruct b end.
    { apply Hres; discriminate. }
    destruct (alk (pi_part pi1) (children h parent)) as [c|] eqn:Elk.
    2:{ apply Hres; [discriminate|]. destruct (pi_is_last pi1); discriminate. }
    assert (He : edge h parent (pi_part pi1) c) by now apply alookup_In.
    assert (Hdesc : forall c', edge h parent (pi_part pi1) c' -> text_inv h vroot c' pi1).
    { intros c' He'. unfold text_inv. rewrite P1, P3. repeat split; auto.
      exists (ns ++ [pi_part pi1]). split; [econstructor; eauto|]. rewrite spell_snoc, <- Hfn. exact P6. }
    destruct (Nat.eq_dec c parent) as [->|Hcp].
    { (* a self loop: excluded by the invariant, and not needed here: the claim is vacuous or follows *)
      destruct (get h parent) as [[ch m|dt k id m|lk m]|] eqn:Eg.
      - destruct (pi_is_last pi1).
        + intros p Hp _ _ Hc. cbn [sr_parent sr_child] in *. congruence.
        + destruct (check_permission m OpenLookup (v_user v)).
          * apply IH. now apply Hdesc.
          * intros p Hp _ _ Hc. cbn [sr_parent sr_child] in *. congruence.
      - unfold edge in He. rewrite children_get, Eg in He. destruct He.
      - unfold edge in He. rewrite children_get, Eg in He. destruct He.
      - unfold edge in He. rewrite children_get, Eg in He. destruct He. }
    assert (Hne : Some c <> Some parent) by congruence.
    destruct (get h c) as [[ch m|dt k id m|lk m]|] eqn:Eg.
    + destruct (pi_is_last pi1) eqn:El; [now apply Hres|].
      destruct (check_permission m OpenLookup (v_user v)); [|apply Hres; [exact Hne | discriminate]].
      apply IH. now apply Hdesc.
    + destruct (pi_is_last pi1) eqn:El; (apply Hres; [exact Hne | auto; discriminate]).
    + destruct (pi_is_last pi1 && slmode_eqb slm SlLstat) eqn:Ell;
        [apply Hres; [exact Hne | intros _; now apply Bool.andb_true_iff in Ell]|].
      destruct (Nat.ltb slCountMax (S sl)); [apply Hres; [exact Hne | discriminate]|].
      assert (Hsaved : (if pi_is_last pi1 && slmode_eqb slm SlStat then Some pi1 else None) = None).
      { destruct slm; try congruence; now rewrite Bool.andb_false_r. }
      rewrite Hsaved.
      assert (Hr1 : rooted (pi_path pi1)) by now rewrite P1.
      pose proof (pi_replace_part_rooted pi1 lk Hr1 ltac:(lia)) as Hr2.
      unfold pi_replace_part in *.
      set (np := if is_abs Linux lk then join Linux [lk; skipn (pi_end pi1) (pi_path pi1)]
                 else join Linux [firstn (pi_start pi1) (pi_path pi1); lk; skipn (pi_end pi1) (pi_path pi1)]) in *.
      destruct (Nat.leb (length np) (pi_start pi1)) eqn:Elen; cbn [orb] in *.
      * (* reset: restart from the root of the view *)
        cbn [snd pi_reset pi_path] in Hr2.
        apply IH. unfold text_inv. cbn [pi_reset pi_path pi_end pi_vnl pi_start].
        rewrite P3, Hv. repeat split; auto; try lia.
        -- intros _. destruct Hr2 as (t & ->). reflexivity.
        -- exists []. split; [constructor | reflexivity].
      * destruct (str_eqb_spec (firstn (pi_start pi1) np) (firstn (pi_start pi1) (pi_path pi1))) as [Eq|Neq];
          cbn [negb] in *.
        -- (* the text before the part is unchanged: go on below the same parent *)
           cbn [snd pi_path] in Hr2. apply Nat.leb_gt in Elen.
           apply IH. unfold text_inv. cbn [pi_path pi_end pi_vnl pi_start].
           rewrite P2 in *. rewrite P1 in *. replace (S (pi_end pi) - 1) with (pi_end pi) by lia.
           assert (Hf : firstn (pi_end pi) np = firstn (pi_end pi) (pi_path pi)).
           { transitivity (firstn (pi_end pi) (firstn (S (pi_end pi)) np)).
             - rewrite firstn_firstn. f_equal. lia.
             - rewrite Eq, firstn_firstn. f_equal. lia. }
           repeat split; auto; try lia.
           ++ intros _. rewrite <- (nth_firstn_lt np (S (pi_end pi))) by lia. rewrite Eq.
              rewrite nth_firstn_lt by lia. apply Hsep. lia.
           ++ exists ns. split; auto. now rewrite Hf.
        -- cbn [snd pi_reset pi_path] in Hr2.
           apply IH. unfold text_inv. cbn [pi_reset pi_path pi_end pi_vnl pi_start].
           rewrite P3, Hv. repeat split; auto; try lia.
           ++ intros _. destruct Hr2 as (t & ->). reflexivity.
           ++ exists []. split; [constructor | reflexivity].
    + intros p _ He'. cbn [sr_err] in He'. congruence.
Qed.

Lemma search_node_text s v path slm :
  f_vols s = [] -> v_os v = Linux -> cwd_ok (v_cwd v) -> slm <> SlStat ->
  text_post (f_heap s) (v_root v) (search_node s v path slm).
Proof.
  intros Hv Hos Hc Hslm. rewrite search_node_linux by assumption.
  apply search_loop_text; auto.
  assert (Hr : rooted (abs Linux (v_cwd v) path)) by now apply abs_rooted.
  unfold text_inv. cbn [pi_new pi_path pi_end pi_vnl volume_name_len]. repeat split; auto; try lia.
  - intros _. destruct Hr as (t & ->). reflexivity.
  - exists []. split; [constructor | reflexivity].
Qed.
