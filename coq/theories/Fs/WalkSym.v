(* The bridge between the two path walks (properties C01 / C04), part 2: symbolic links.

   The implementation splices the target of a link into the path STRING (ReplacePart = Join, hence
   Clean) and restarts from the root when the walked prefix changed; the kernel pushes the components
   of the target on its work list and resolves ".." physically.  They agree ([sym_bridge]) because
   - targets are stored cleaned ([links_clean]): a relative target is k leading ".." followed by proper
     names, an absolute one is a clean absolute path, or the target is "." ([clean_shape]);
   - the walked prefix [done] is a DIRECTORY WALK from the root (link-free, every directory searchable):
     the leading ".."s of a relative target pop exactly the last components of [done] (Pike's machine
     started from the stack [rev done]), which is the kernel's physical ".." since a directory has a
     single parent and the graph is acyclic ([walk_wf], the shape of the heap invariant of C05);
   - after a splice both sides stand on the same clean path, at two positions one of which is a prefix
     of the other: the one behind catches up by re-walking a directory walk ([search_rewalk],
     [kwalk_rewalk]).
   Both give up at the 41st link they would FOLLOW (slCountMax = MAXSYMLINKS = 40; a final link that is not
   followed does not count, on either side): ELOOP is part of the agreement, no side condition is left. *)
From Avfs Require Import Base PathModel PathSpec PathProofs PathCleanProofs PathIterProofs.
From Avfs Require Import MemFS MemFile World Posix WalkBridge.

(* ---- the shape of a cleaned string --------------------------------------------------- *)
Inductive clean_shape (t : str) : Prop :=
| cs_abs (lc : list str) : Forall good_comp lc -> t = abs_path lc -> clean_shape t
| cs_rel (k : nat) (names : list str) :
    Forall good_comp names -> repeat DD k ++ names <> [] ->
    t = intercalate [SLASH] (repeat DD k ++ names) -> clean_shape t
| cs_dot : t = [DOT] -> clean_shape t.

Lemma clean_shape_clean (x : str) : clean_shape (clean Linux x).
Proof.
  rewrite clean_spec_correct. destruct x as [|c0 x']; [apply cs_dot; reflexivity|].
  destruct (N.eqb c0 SLASH) eqn:Hr.
  - apply N.eqb_eq in Hr. subst c0. rewrite <- clean_spec_correct.
    destruct (clean_abs_comps (SLASH :: x') eq_refl) as (H1 & H2).
    exact (cs_abs _ _ H2 H1).
  - unfold clean_spec. rewrite Hr.
    destruct (norm_shape0 false (c0 :: x')) as (k & names & Hn & Hg & _). rewrite Hn. unfold render.
    destruct (L k names) eqn:EL; [apply cs_dot; reflexivity|]. rewrite <- EL. unfold L in *.
    apply (cs_rel _ k (rev names)).
    + apply Forall_rev. eapply Forall_impl; [|exact Hg]. intros a. apply good_good_comp.
    + rewrite EL. discriminate.
    + reflexivity.
Qed.

Lemma clean_nonempty (x : str) : clean Linux x <> [].
Proof.
  destruct (clean_shape_clean x) as [lc _ -> | k names Hg Hne -> | -> ]; try discriminate.
  intros E. apply Hne. apply (intercalate_nil_inv [SLASH]); [|exact E].
  apply Forall_app. split.
  - apply Forall_repeat. discriminate.
  - eapply Forall_impl; [|exact Hg]. intros a (Ha & _). exact Ha.
Qed.

Lemma comp_ok_DD : comp_ok DD.
Proof. split; [discriminate|]. intros x [<-|[<-|[]]]; discriminate. Qed.

Lemma rel_comps_ok (k : nat) (names : list str) : Forall good_comp names -> Forall comp_ok (repeat DD k ++ names).
Proof.
  intros Hg. apply Forall_app. split; [apply Forall_repeat, comp_ok_DD|apply Forall_comp_ok_of; exact Hg].
Qed.

Lemma rel_shape_facts (k : nat) (names : list str) :
  Forall good_comp names -> repeat DD k ++ names <> [] ->
  let t := intercalate [SLASH] (repeat DD k ++ names) in
  comps t = repeat DD k ++ names /\ kcomps t = repeat DD k ++ names /\ is_abs Linux t = false
  /\ kabs t = false /\ ktrailing t = false /\ is_nil t = false.
Proof.
  intros Hg Hne t. pose proof (rel_comps_ok k names Hg) as Hok.
  assert (Hsf : Forall sepfree (repeat DD k ++ names))
    by (eapply Forall_impl; [|exact Hok]; apply comp_ok_sepfree).
  assert (Hnn : Forall (fun c : str => c <> []) (repeat DD k ++ names))
    by (eapply Forall_impl; [|exact Hok]; intros a (Ha & _); exact Ha).
  destruct (@intercalate_head _ Hne Hnn Hsf) as (a & s & Hi & Ha).
  split; [apply comps_intercalate; assumption|]. split; [apply kcomps_intercalate; assumption|].
  split; [unfold t; rewrite Hi; exact Ha|]. split; [unfold t; rewrite Hi; exact Ha|].
  split; [apply ktrailing_intercalate; assumption|]. unfold t. rewrite Hi. reflexivity.
Qed.

Lemma rev_case (A : Type) (l : list A) : l = [] \/ exists l0 x, l = l0 ++ [x].
Proof.
  destruct l as [|a l]; [left; reflexivity|right].
  destruct (@exists_last _ (a :: l)) as (l0 & x & E); [discriminate|]. eauto.
Qed.

(* ---- Pike's machine on a clean stack --------------------------------------------------- *)
Lemma norm_DD_cons (r : bool) (top : str) (st cs : list str) :
  norm r (top :: st) (DD :: cs) = if is_dotdot top then norm r (DD :: top :: st) cs else norm r st cs.
Proof. reflexivity. Qed.

Lemma norm_DD_nil (cs : list str) : norm true [] (DD :: cs) = norm true [] cs.
Proof. reflexivity. Qed.

Lemma firstn_snoc_le (A : Type) (l : list A) (x : A) (n : nat) : n <= length l -> firstn n (l ++ [x]) = firstn n l.
Proof.
  intros H. rewrite firstn_app. replace (n - length l) with 0 by lia. cbn [firstn]. apply app_nil_r.
Qed.

Lemma good_comp_not_dd (c : str) : good_comp c -> is_dotdot c = false.
Proof. intros (_ & _ & _ & H). apply str_eqb_neq. exact H. Qed.

Lemma norm_pop : forall (k : nat) (done X : list str),
  Forall good_comp done ->
  norm true (rev done) (repeat DD k ++ X) = norm true (rev (firstn (length done - k) done)) X.
Proof.
  induction k as [|k IH]; intros done X Hg.
  - rewrite Nat.sub_0_r, firstn_all. reflexivity.
  - cbn [repeat app]. destruct (rev_case _ done) as [-> | (d0 & top & ->)].
    + cbn [rev length Nat.sub firstn]. rewrite norm_DD_nil. apply (IH [] X). constructor.
    + apply Forall_app in Hg as (Hg0 & Ht). inversion Ht as [|? ? Htop _]; subst.
      rewrite rev_app_distr. cbn [rev app]. rewrite norm_DD_cons, (good_comp_not_dd _ Htop).
      rewrite IH by exact Hg0. rewrite app_length. cbn [length].
      replace (length d0 + 1 - S k) with (length d0 - k) by lia.
      rewrite firstn_snoc_le by lia. reflexivity.
Qed.

Lemma norm_goods0 (st cs : list str) : Forall good_comp cs -> norm true st cs = rev st ++ cs.
Proof.
  intros Hg. assert (E : st = stk 0 st) by (unfold stk; cbn [repeat]; symmetry; apply app_nil_r).
  rewrite E at 1. rewrite norm_goods by (apply Forall_good_of; exact Hg). reflexivity.
Qed.

Lemma firstn_good (k : nat) (l : list str) : Forall good_comp l -> Forall good_comp (firstn k l).
Proof. intros H. rewrite <- (firstn_skipn k l) in H. apply Forall_app in H as (H & _). exact H. Qed.

(* the new path after splicing a link of each shape *)
Lemma new_comps_abs (done todo lc : list str) :
  Forall good_comp lc -> Forall good_comp todo -> new_comps done todo (abs_path lc) = lc ++ todo.
Proof. intros Hl Ht. apply (new_comps_abs_simple done Hl Ht). Qed.

Lemma new_comps_rel (done todo : list str) (k : nat) (names : list str) :
  Forall good_comp done -> Forall good_comp todo -> Forall good_comp names -> repeat DD k ++ names <> [] ->
  new_comps done todo (intercalate [SLASH] (repeat DD k ++ names))
  = firstn (length done - k) done ++ names ++ todo.
Proof.
  intros Hd Ht Hn Hne. destruct (rel_shape_facts k names Hn Hne) as (Hc & _ & Ha & _).
  rewrite (new_comps_rel_stack todo _ Hd Ha), Hc, <- app_assoc, norm_pop by exact Hd.
  rewrite norm_goods0 by (apply Forall_app; split; assumption). rewrite rev_involutive. reflexivity.
Qed.

Lemma new_comps_dot (done todo : list str) :
  Forall good_comp done -> Forall good_comp todo -> new_comps done todo [DOT] = done ++ todo.
Proof.
  intros Hd Ht. rewrite (new_comps_rel_stack todo [DOT] Hd eq_refl).
  change (comps [DOT]) with [[DOT]]. cbn [app]. rewrite norm_dot by reflexivity.
  rewrite norm_goods0 by exact Ht. rewrite rev_involutive. reflexivity.
Qed.

(* ---- the heap hypotheses (the shape of C05's invariant) --------------------------------- *)
Definition dedge (h : heap) (d : nat) (n : str) (c : nat) : Prop := In (n, c) (children h d).

Inductive dreach (h : heap) (a : nat) : nat -> Prop :=
| dreach_refl : dreach h a a
| dreach_step d n c : dreach h a d -> dedge h d n c -> dreach h a c.

Definition dreachp (h : heap) (a c : nat) : Prop := exists d n, dreach h a d /\ dedge h d n c.

Record walk_wf (h : heap) : Prop := {
  ww_single : forall d1 n1 d2 n2 c, dedge h d1 n1 c -> dedge h d2 n2 c -> node_is_dir h c = true -> d1 = d2;
  ww_acyclic : forall d, ~ dreachp h d d
}.

(* the target of every link that has a NAME (a directory entry pointing to it) is a cleaned string, as [symlink]
   stores it.  Unnamed link nodes are garbage - [delete_node] blanks their target - and are never met by a walk. *)
Definition links_clean (h : heap) : Prop :=
  forall d n i t m, dedge h d n i -> get h i = Some (NSym t m) -> exists x, t = clean Linux x.

Lemma alookup_in (V : Type) (k : str) (m : list (str * V)) (x : V) : alookup str_eqb k m = Some x -> In (k, x) m.
Proof.
  induction m as [|[k' v'] m IH]; cbn [alookup]; [discriminate|].
  destruct (str_eqb_spec k k') as [-> | Hne].
  - intros [= ->]. left. reflexivity.
  - intros H. right. auto.
Qed.

Lemma dreach_trans h a b c : dreach h a b -> dreach h b c -> dreach h a c.
Proof. intros Hab Hbc. induction Hbc; [exact Hab|]. eapply dreach_step; eauto. Qed.

Lemma dwalk_dreach h u : forall ns d e, dwalk h u d ns = Some e -> dreach h d e.
Proof.
  induction ns as [|n ns IH]; intros d e H.
  - injection H as <-. constructor.
  - apply dwalk_cons_inv in H as (c & H1 & _ & _ & H4).
    eapply dreach_trans; [|apply IH; exact H4]. eapply dreach_step; [constructor|]. apply alookup_in. exact H1.
Qed.

Lemma dwalk_dreachp h u ns n d e : dwalk h u d (ns ++ [n]) = Some e -> dreachp h d e.
Proof.
  intros H. apply dwalk_snoc_inv in H as (m & H1 & H2 & _). exists m, n. split.
  - eapply dwalk_dreach; eauto.
  - apply alookup_in. exact H2.
Qed.

(* ---- ".." is the previous node of a directory walk -------------------------------------- *)
Lemma find_parent_some : forall (all : list node) (i d p : nat),
  find_parent all i d = Some p ->
  i <= p /\ exists ch m n, nth_error all (p - i) = Some (NDir ch m) /\ In (n, d) ch.
Proof.
  induction all as [|x all IH]; intros i d p H; [discriminate|]. cbn [find_parent] in H.
  assert (Hrec : find_parent all (S i) d = Some p ->
                 i <= p /\ exists ch m n, nth_error (x :: all) (p - i) = Some (NDir ch m) /\ In (n, d) ch).
  { intros Hr. apply IH in Hr as (Hle & ch & m & n & Hn & Hin). split; [lia|]. exists ch, m, n. split; [|exact Hin].
    replace (p - i) with (S (p - S i)) by lia. exact Hn. }
  destruct x as [ch m| |]; auto.
  destruct (existsb (fun nc => Nat.eqb (snd nc) d) ch) eqn:E; auto.
  injection H as <-. split; [lia|]. apply existsb_exists in E as ([n c] & Hin & Hc). cbn [snd] in Hc.
  apply Nat.eqb_eq in Hc. subst c. exists ch, m, n. rewrite Nat.sub_diag. auto.
Qed.

Lemma find_parent_none : forall (all : list node) (i d j : nat) ch m n,
  find_parent all i d = None -> nth_error all j = Some (NDir ch m) -> In (n, d) ch -> False.
Proof.
  induction all as [|x all IH]; intros i d j ch m n H Hn Hin; [destruct j; discriminate|].
  cbn [find_parent] in H. destruct j as [|j]; cbn [nth_error] in Hn.
  - injection Hn as ->.
    assert (E : existsb (fun nc => Nat.eqb (snd nc) d) ch = true).
    { apply existsb_exists. exists (n, d). split; [exact Hin|apply Nat.eqb_refl]. }
    rewrite E in H. discriminate.
  - destruct x as [ch0 m0| |]; try (eapply IH; eauto; fail).
    destruct (existsb (fun nc => Nat.eqb (snd nc) d) ch0); [discriminate|]. eapply IH; eauto.
Qed.

Lemma dedge_get h d n c : dedge h d n c -> exists ch m, get h d = Some (NDir ch m) /\ In (n, c) ch.
Proof.
  unfold dedge, children. destruct (get h d) as [[ch m| |]|]; cbn [In]; try tauto. eauto.
Qed.

Lemma parent_of_edge (h : heap) (root p c : nat) (n : str) :
  walk_wf h -> dedge h p n c -> node_is_dir h c = true -> c <> root -> parent_of h root c = p.
Proof.
  intros Hwf He Hd Hne. unfold parent_of. destruct (Nat.eqb_spec c root) as [E|_]; [congruence|].
  destruct (dedge_get _ _ _ _ He) as (ch & m & Hg & Hin).
  destruct (find_parent h 0 c) as [p'|] eqn:Hf.
  - apply find_parent_some in Hf as (_ & ch' & m' & n' & Hn' & Hin'). rewrite Nat.sub_0_r in Hn'.
    apply (ww_single h Hwf p' n' p n c); auto. unfold dedge, children, get. rewrite Hn'. exact Hin'.
  - exfalso. exact (find_parent_none h 0 c p ch m n Hf Hg Hin).
Qed.

Lemma firstn_pop (A : Type) (l : list A) (x : A) (k : nat) :
  firstn (length (l ++ [x]) - S k) (l ++ [x]) = firstn (length l - k) l.
Proof.
  rewrite app_length. cbn [length]. replace (length l + 1 - S k) with (length l - k) by lia.
  apply firstn_snoc_le. lia.
Qed.

Section Kernel.
  Variables (h : heap) (u : user) (root : nat).
  Hypothesis Hwf : walk_wf h.
  Hypothesis Hrd : node_is_dir h root = true.
  Hypothesis Hrp : kperm h root 1 u = true.

  Lemma parent_of_dwalk (kd : list str) (n : str) (p c : nat) :
    dwalk h u root kd = Some p -> dwalk h u root (kd ++ [n]) = Some c -> parent_of h root c = p.
  Proof.
    intros Hp Hc. pose proof (dwalk_dreachp _ _ _ _ _ _ Hc) as Hrp'.
    apply dwalk_snoc_inv in Hc as (m & H1 & H2 & H3 & _). rewrite Hp in H1. injection H1 as <-.
    apply (parent_of_edge h root p c n Hwf); [apply alookup_in; exact H2|exact H3|].
    intros ->. exact (ww_acyclic h Hwf root Hrp').
  Qed.

  (* k leading ".." from the end of the directory walk [kd]: the kernel ends at the end of
     [kd] minus its last k names (stopping at the root) *)
  Lemma kwalk_dotdots : forall (k : nat) (kd : list str) (cur : nat) (w : list str) f pm follow cnt md,
    w <> [] -> dwalk h u root kd = Some cur ->
    exists cur', dwalk h u root (firstn (length kd - k) kd) = Some cur' /\
      kwalk (k + f) h u root pm follow cur (repeat DD k ++ w) cnt md = kwalk f h u root pm follow cur' w cnt md.
  Proof.
    induction k as [|k IH]; intros kd cur w f pm follow cnt md Hw Hkd.
    - exists cur. rewrite Nat.sub_0_r, firstn_all. split; [exact Hkd|reflexivity].
    - destruct (dwalk_end_dir _ _ _ _ _ Hkd Hrd Hrp) as (Hcd & Hcp).
      cbn [repeat app plus]. rewrite kwalk_S, Hcd, Hcp. cbn [negb]. cbv zeta.
      change (str_eqb DD DOTS) with false. change (str_eqb DD DOTDOTS) with true. cbv iota.
      rewrite (is_nil_false _ _ (app_ne_r _ (repeat DD k) w Hw)), andb_false_r.
      destruct (rev_case _ kd) as [-> | (kd0 & n & ->)].
      + injection Hkd as <-. unfold parent_of at 1. rewrite Nat.eqb_refl.
        destruct (IH [] root w f pm follow cnt md Hw eq_refl) as (cur' & H1 & H2).
        exists cur'. split; [|exact H2]. destruct k; exact H1.
      + destruct (dwalk h u root kd0) as [p|] eqn:Hp.
        2:{ rewrite dwalk_app, Hp in Hkd. discriminate. }
        rewrite (parent_of_dwalk kd0 n p cur Hp Hkd).
        destruct (IH kd0 p w f pm follow cnt md Hw Hp) as (cur' & H1 & H2).
        exists cur'. rewrite firstn_pop. split; [exact H1|exact H2].
  Qed.

  (* ... and when nothing follows the last ".." the walk ends there *)
  Lemma kwalk_dotdots_end (k : nat) (kd : list str) (cur : nat) f follow cnt md :
    dwalk h u root kd = Some cur ->
    exists p, dwalk h u root (firstn (length kd - S k) kd) = Some p /\
      kwalk (S (k + f)) h u root false follow cur (repeat DD (S k)) cnt md = WNode p LDotDot DD p.
  Proof.
    intros Hkd. assert (E : repeat DD (S k) = repeat DD k ++ [DD]) by (cbn [repeat]; apply repeat_cons).
    rewrite E. replace (S (k + f)) with (k + S f) by lia.
    destruct (kwalk_dotdots k kd cur [DD] (S f) false follow cnt md ltac:(discriminate) Hkd) as (cur' & H1 & H2).
    rewrite H2. destruct (dwalk_end_dir _ _ _ _ _ H1 Hrd Hrp) as (Hcd & Hcp).
    rewrite kwalk_S, Hcd, Hcp. cbn [negb andb is_nil]. cbv zeta.
    change (str_eqb DD DOTS) with false. change (str_eqb DD DOTDOTS) with true. cbv iota.
    set (kd1 := firstn (length kd - k) kd) in *.
    assert (Hk1 : firstn (length kd - S k) kd = firstn (length kd1 - 1) kd1).
    { unfold kd1. rewrite firstn_length, firstn_firstn. f_equal. lia. }
    rewrite Hk1. destruct (rev_case _ kd1) as [E1|(kd0 & n & E1)]; rewrite E1 in *.
    + injection H1 as <-. unfold parent_of. rewrite Nat.eqb_refl. exists root. split; reflexivity.
    + destruct (dwalk h u root kd0) as [p|] eqn:Hp.
      2:{ rewrite dwalk_app, Hp in H1. discriminate. }
      rewrite (parent_of_dwalk kd0 n p cur' Hp H1). exists p. split; [|reflexivity].
      replace 1 with (S 0) by reflexivity. rewrite firstn_pop, Nat.sub_0_r, firstn_all. exact Hp.
  Qed.
End Kernel.

(* ---- the bridge with symbolic links ------------------------------------------------------ *)
Section Sym.
  Variables (h : heap) (v : view).
  Hypothesis Hos : v_os v = Linux.
  Notation u := (v_user v).
  Notation root := (v_root v).
  Hypothesis Hwf : walk_wf h.
  Hypothesis Hlc : links_clean h.
  Hypothesis Hrd : node_is_dir h root = true.
  Hypothesis Hrp : kperm h root 1 u = true.
  Variable slm : slmode.
  Notation follow := (negb (slmode_eqb slm SlLstat)).

  (* both walks stand at the end of the directory walk [done] of the clean path [done ++ todo] *)
  Definition sync_goal (fk : nat) : Prop :=
    forall fi (done todo : list str) parent pi slcount saved K,
      todo <> [] -> Forall good_comp (done ++ todo) -> before (done ++ todo) done pi ->
      dwalk h u root done = Some parent -> (precise_of slm = true -> saved = None) -> slcount <= MAXSYMLINKS ->
      kwalk fk h u root false follow parent todo slcount false = K -> K <> WErr EFUEL ->
      sr_err (search_loop fi h v slm root parent pi slcount saved) <> EFuel ->
      walk_relx h u root (precise_of slm) (search_loop fi h v slm root parent pi slcount saved) K.

  (* the two walks stand at two positions of the same clean path, one a prefix of the other: the one
     behind catches up *)
  Lemma resync (fk : nat) (IH : sync_goal fk) :
    forall fi (cs' di ti dk tk : list str) ni nk pi' slcount saved K,
      cs' = di ++ ti -> cs' = dk ++ tk -> tk <> [] -> Forall good_comp cs' -> before cs' di pi' ->
      dwalk h u root di = Some ni -> dwalk h u root dk = Some nk ->
      (di = [] \/ (ti <> [] /\ exists mid, di = dk ++ mid)) ->
      (precise_of slm = true -> saved = None) -> slcount <= MAXSYMLINKS ->
      kwalk fk h u root false follow nk tk slcount false = K -> K <> WErr EFUEL ->
      sr_err (search_loop fi h v slm root ni pi' slcount saved) <> EFuel ->
      walk_relx h u root (precise_of slm) (search_loop fi h v slm root ni pi' slcount saved) K.
  Proof.
    intros fi cs' di ti dk tk ni nk pi' slcount saved K Hi Hk Htk Hg Hb Hdi Hdk Hpos Hsv Hsl HK Hk1 Hnf.
    assert (Hok : Forall comp_ok cs') by (apply Forall_comp_ok_of; exact Hg).
    destruct Hpos as [->|(Hti & mid & ->)].
    - injection Hdi as <-.
      destruct (search_rewalk h v Hos dk root nk [] tk cs' fi slm root pi' slcount saved Htk Hk Hok Hb Hdk Hrp)
        as (pi'' & Hb'' & E). cbn [app] in Hb''.
      pose proof (search_loop_mono (length dk) fi h v slm root root pi' slcount saved _ eq_refl Hnf) as Hm.
      rewrite E in Hm. rewrite <- Hm in Hnf |- *.
      clear Hi. subst cs'. apply (IH fi dk tk nk pi'' slcount saved K); auto.
    - assert (Etk : tk = mid ++ ti).
      { rewrite Hi, <- app_assoc in Hk. apply app_inv_head in Hk. symmetry. exact Hk. }
      clear Hk. subst tk. rewrite dwalk_app, Hdk in Hdi.
      destruct (dwalk_end_dir _ _ _ _ _ Hdk Hrd Hrp) as (Hnd & Hnp).
      assert (Hgm : Forall good_comp mid).
      { rewrite Hi in Hg. apply Forall_app in Hg as (Hg & _). apply Forall_app in Hg as (_ & Hg). exact Hg. }
      pose proof (kwalk_rewalk h v mid nk ni ti fk root false follow slcount false Hti Hgm Hdi Hnd Hnp) as Er.
      pose proof (kwalk_mono (length mid) fk h u root false follow nk (mid ++ ti) slcount false K HK Hk1) as Hm.
      rewrite Er in Hm. subst cs'.
      apply (IH fi (dk ++ mid) ti ni pi' slcount saved K); auto.
      rewrite dwalk_app, Hdk. exact Hdi.
  Qed.

  Lemma resumes_longer (done cs' : list str) : resumes done cs' -> length done < length cs'.
  Proof.
    intros (todo' & Hne & ->). rewrite app_length. destruct todo'; [congruence|cbn [length]; lia].
  Qed.

  Theorem sym_bridge_at : forall fk, sync_goal fk.
  Proof.
    induction fk as [|fk IH];
      intros fi done todo parent pi slcount saved K Hne Hg Hb Hw Hsv Hsl HK Hk1 Hnf.
    { cbn [kwalk] in HK. congruence. }
    destruct todo as [|c todo]; [congruence|]. clear Hne.
    destruct fi as [|fi]; [cbn [search_loop sr_err] in Hnf; congruence|].
    assert (Hok : Forall comp_ok (done ++ c :: todo)) by (apply Forall_comp_ok_of; exact Hg).
    assert (Hgd : Forall good_comp done) by (apply Forall_app in Hg as (Hg & _); exact Hg).
    assert (Hgct : Forall good_comp (c :: todo)) by (apply Forall_app in Hg as (_ & Hg); exact Hg).
    assert (Hc : good_comp c) by (inversion Hgct; assumption).
    assert (Hgt : Forall good_comp todo) by (inversion Hgct; assumption).
    destruct (good_comp_kind _ Hc) as (K1 & K2).
    destruct (dwalk_end_dir _ _ _ _ _ Hw Hrd Hrp) as (Hd & Hp).
    subst K. revert Hk1 Hnf.
    rewrite (search_loop_on h v Hos fi slm root parent pi slcount saved done todo c Hok Hb).
    rewrite (root_check_pass h v root parent Hp).
    rewrite kwalk_S, Hd, Hp. cbn [negb andb]. cbv zeta. rewrite K1, K2.
    assert (Hat : precise_of slm = true ->
                  todo = [] -> at_name h u root parent c (out_pi (on_comp (done ++ [c]) done c) saved)).
    { intros Hpr _. rewrite (Hsv Hpr). cbn [out_pi]. exists done.
      split; [|auto]. apply Forall_app. split; [exact Hgd|]. constructor; [exact Hc|constructor]. }
    assert (Hlast : precise_of slm = true ->
                    todo = [] -> pi_is_last (out_pi (on_comp (done ++ [c]) done c) saved) = true).
    { intros Hpr _. rewrite (Hsv Hpr). cbn [out_pi]. destruct (on_comp_views done [] c) as (_ & _ & _ & _ & _ & Vl). exact Vl. }
    destruct (alookup str_eqb c (children h parent)) as [n|] eqn:Hl.
    2:{ intros _ _. destruct todo as [|c2 todo]; cbn [is_nil].
        - cbn. repeat split; auto.
        - cbn. split.
          + right. split; [auto|reflexivity].
          + intros Hpr _. rewrite (Hsv Hpr). cbn [out_pi]. apply on_comp_last_false. discriminate. }
    destruct (get h n) as [[ch m|dt k i m|t m]|] eqn:Hgn.
    - (* a directory *)
      destruct todo as [|c2 todo]; cbn [is_nil].
      + intros _ _. cbn. repeat split; eauto; try (unfold get in *; congruence); intros _ Hk; exfalso; apply Hk; reflexivity.
      + assert (Hpn : kperm h n 1 u = check_permission m OpenLookup u) by (apply (kperm_dir _ _ _ _ u Hgn)).
        assert (Hnd : node_is_dir h n = true) by (unfold node_is_dir; rewrite Hgn; reflexivity).
        destruct (check_permission m OpenLookup u) eqn:Hcp.
        * intros Hk1 Hnf.
          apply (IH fi (done ++ [c]) (c2 :: todo) n _ slcount saved _); auto; try discriminate.
          -- rewrite <- app_assoc. exact Hg.
          -- rewrite <- app_assoc. apply on_comp_before.
          -- apply (dwalk_snoc _ _ _ _ _ _ _ Hw Hl); assumption.
        * destruct fk as [|fk]; [cbn [kwalk]; congruence|]. intros _ _.
          rewrite kwalk_S, Hnd, Hpn. cbn [negb]. cbn.
          split; [|intros _ [=]]. right. split; [auto|reflexivity].
    - (* a file *)
      intros _ _. destruct todo as [|c2 todo]; cbn [is_nil].
      + cbn. repeat split; eauto; try (unfold get in *; congruence); intros _ Hk; exfalso; apply Hk; reflexivity.
      + cbn. split; [|intros _ [=]]. right. split; [auto|reflexivity].
    - (* a symbolic link *)
      destruct (Hlc parent c n t m (alookup_in _ _ _ _ Hl) Hgn) as (x & Ht).
      pose proof (clean_shape_clean x) as Hsh. pose proof (clean_nonempty x) as Htn. rewrite <- Ht in Hsh, Htn.
      destruct (is_nil todo && slmode_eqb slm SlLstat) eqn:Hnofollow.
      { (* final component, lstat mode: the link itself, whatever the count *)
        apply andb_true_iff in Hnofollow as (Hl1 & Hl2). rewrite Hl1, Hl2. cbn [negb orb]. intros _ _.
        destruct todo; [|discriminate]. cbn. repeat split; eauto; try (unfold get in *; congruence); intros _ Hk; exfalso; apply Hk; reflexivity. }
      assert (Hfol : negb (is_nil todo) || negb (slmode_eqb slm SlLstat) || false = true).
      { destruct (is_nil todo), (slmode_eqb slm SlLstat); cbn in *; congruence. }
      rewrite Hfol.
      destruct (Nat.ltb slCountMax (S slcount)) eqn:Hbud.
      { (* the 41st link to follow: both refuse *)
        apply Nat.ltb_lt in Hbud. assert (Hcnt : Nat.leb MAXSYMLINKS slcount = true)
          by (apply Nat.leb_le; unfold slCountMax, MAXSYMLINKS in *; lia).
        rewrite Hcnt. intros _ _. cbn. split; [|intros _ [=]]. right. split; [auto|reflexivity]. }
      apply Nat.ltb_ge in Hbud.
      assert (Hcnt : Nat.leb MAXSYMLINKS slcount = false)
        by (apply Nat.leb_gt; unfold slCountMax, MAXSYMLINKS in *; lia).
      rewrite Hcnt. apply Nat.leb_gt in Hcnt.
      assert (Hnil : is_nil t = false) by (destruct t; [congruence|reflexivity]). rewrite Hnil.
      set (saved' := match saved with
                     | None => if is_nil todo && slmode_eqb slm SlStat then Some (on_comp (done ++ c :: todo) done c) else None
                     | Some _ => saved
                     end).
      assert (Hsv' : precise_of slm = true -> saved' = None).
      { intros Hpr. unfold saved'. rewrite (Hsv Hpr). unfold precise_of in Hpr.
        apply negb_true_iff in Hpr. rewrite Hpr, andb_false_r. reflexivity. }
      clearbody saved'.
      destruct (pi_replace_part_spec done todo c t Hok) as (Hg' & reset & pi2 & Hrp2 & Hcase). cbv zeta in Hrp2, Hcase.
      rewrite Hrp2. remember (new_comps done todo t) as cs' eqn:Ecs0.
      assert (Hok' : Forall comp_ok cs') by (apply Forall_comp_ok_of; exact Hg').
      destruct Hsh as [lc Hlcg Et | k names Hng Hkn Et | Et].
      + (* absolute target *)
        assert (Ecs : cs' = lc ++ todo) by (rewrite Ecs0, Et; apply new_comps_abs; assumption).
        rewrite Et. change (kabs (abs_path lc)) with true. cbv iota.
        rewrite (kcomps_abs_path lc (Forall_comp_ok_of Hlcg)), <- Ecs. clear Ecs0.
        destruct cs' as [|c0 w].
        * (* the target is the root and nothing follows *)
          destruct fk as [|fk]; [cbn [kwalk]; congruence|]. rewrite kwalk_S. intros _.
          destruct Hcase as [(-> & Hb2 & _)|(_ & _ & Hres)].
          2:{ apply resumes_longer in Hres. cbn [length] in Hres. lia. }
          destruct fi as [|fi]; [cbn [search_loop sr_err]; congruence|]. intros _.
          rewrite (search_loop_end h v Hos fi slm root root pi2 (S slcount) saved' [] Hok' Hb2).
          cbn [walk_relx sr_err sr_child sr_parent sr_pi]. split; [reflexivity|]. split; [reflexivity|].
          split; [apply node_is_dir_valid; exact Hrd|]. split; [eauto|].
          split; [intros Hpr; rewrite (Hsv' Hpr); reflexivity|]. split; [intros [=]|].
          intros Hpr _. exists []. split; [constructor|]. split; [reflexivity|]. rewrite (Hsv' Hpr). reflexivity.
        * assert (Hmd : is_nil todo && ktrailing (abs_path lc) = false).
          { destruct todo as [|c2 todo]; [|reflexivity]. cbn [is_nil andb]. rewrite app_nil_r in Ecs.
            apply ktrailing_abs_path; [apply Forall_comp_ok_of; exact Hlcg|rewrite <- Ecs; discriminate]. }
          rewrite Hmd. cbn [orb]. intros Hk1 Hnf.
          destruct Hcase as [(-> & Hb2 & _)|(-> & Hb2 & (todo' & Hne2 & Hres))].
          -- apply (resync fk IH fi (c0 :: w) [] (c0 :: w) [] (c0 :: w) root root pi2 (S slcount) saved' _); auto.
             discriminate.
          -- apply (resync fk IH fi (c0 :: w) done todo' [] (c0 :: w) parent root pi2 (S slcount) saved' _); auto.
             ++ discriminate.
             ++ right. split; [exact Hne2|]. exists done. reflexivity.
      + (* relative target: k leading "..", then names *)
        destruct (rel_shape_facts k names Hng Hkn) as (_ & Hkc & _ & Hka & Hkt & _). cbv zeta in Hkc, Hka, Hkt.
        rewrite <- Et in Hkc, Hka, Hkt. rewrite Hka, Hkt, Hkc, andb_false_r, <- app_assoc. cbv iota. cbn [orb].
        assert (Ecs : cs' = firstn (length done - k) done ++ names ++ todo)
          by (rewrite Ecs0, Et; apply new_comps_rel; assumption).
        clear Ecs0. remember (names ++ todo) as w' eqn:Ew'.
        destruct w' as [|c0 w].
        * (* the walk ends on the last ".." *)
          symmetry in Ew'. apply app_eq_nil in Ew' as (-> & ->).
          destruct k as [|k]; [cbn in Hkn; congruence|].
          rewrite ?app_nil_r in *. intros Hk1 Hnf.
          destruct (kwalk_dotdots_end h u root Hwf Hrd Hrp k done parent fk follow (S slcount) false Hw) as (p & Hp1 & Hp2).
          pose proof (kwalk_mono (S k) fk h u root false follow parent (repeat DD (S k)) (S slcount) false _ eq_refl Hk1) as Hm.
          change (S k + fk) with (S (k + fk)) in Hm. rewrite Hp2 in Hm. rewrite <- Hm.
          destruct Hcase as [(-> & Hb2 & _)|(_ & _ & Hres)].
          2:{ apply resumes_longer in Hres. rewrite Ecs, firstn_length in Hres. lia. }
          pose proof (search_loop_mono (S (length cs')) fi h v slm root root pi2 (S slcount) saved' _ eq_refl Hnf) as Hm2.
          rewrite <- Hm2.
          rewrite <- Ecs in Hp1.
          destruct (search_rewalk_full h v Hos cs' root p [] cs' fi slm root pi2 (S slcount) saved' eq_refl Hok' Hb2 Hp1 Hrp)
            as (R1 & R2 & R3 & R4 & R5).
          cbn. change (S (length cs') + fi) with (S (length cs' + fi)).
          split; [exact R1|]. split; [exact R2|].
          split; [apply node_is_dir_valid; exact (proj1 (dwalk_end_dir _ _ _ _ _ Hp1 Hrd Hrp))|].
          split; [exact R3|]. split; [intros Hpr; apply R4; [exact (Hsv' Hpr)|reflexivity]|]. split; [intros [=]|].
          intros Hpr _. exists cs'. split; [exact Hg'|]. split; [exact Hp1|exact (R5 (Hsv' Hpr))].
        * intros Hk1 Hnf.
          assert (Hw' : c0 :: w <> []) by discriminate.
          destruct (kwalk_dotdots h u root Hwf Hrd Hrp k done parent (c0 :: w) fk false follow (S slcount) false Hw' Hw)
            as (cur' & Hc1 & Hc2).
          pose proof (kwalk_mono k fk h u root false follow parent (repeat DD k ++ c0 :: w) (S slcount) false _ eq_refl Hk1) as Hm.
          rewrite Hc2 in Hm. rewrite <- Hm in Hk1 |- *.
          set (done' := firstn (length done - k) done) in *.
          destruct Hcase as [(-> & Hb2 & _)|(-> & Hb2 & (todo' & Hne2 & Hres))].
          -- apply (resync fk IH fi cs' [] cs' done' (c0 :: w) root cur' pi2 (S slcount) saved' _); auto.
          -- apply (resync fk IH fi cs' done todo' done' (c0 :: w) parent cur' pi2 (S slcount) saved' _); auto.
             right. split; [exact Hne2|]. exists (skipn (length done - k) done). unfold done'.
             symmetry. apply firstn_skipn.
      + (* the target is "." *)
        rewrite Et. change (kabs [DOT]) with false. change (kcomps [DOT]) with [[DOT]].
        change (ktrailing [DOT]) with false. rewrite andb_false_r. cbv iota. cbn [app orb].
        assert (Ecs : cs' = done ++ todo) by (rewrite Ecs0, Et; apply new_comps_dot; assumption).
        clear Ecs0.
        destruct fk as [|fk]; [cbn [kwalk]; congruence|].
        rewrite kwalk_S, Hd, Hp. cbn [negb andb]. cbv zeta.
        change (str_eqb [DOT] DOTS) with true. cbv iota.
        destruct todo as [|c2 todo]; cbn [is_nil].
        * rewrite app_nil_r in Ecs. intros _ Hnf.
          destruct Hcase as [(-> & Hb2 & _)|(_ & _ & Hres)].
          2:{ apply resumes_longer in Hres. rewrite Ecs in Hres. lia. }
          pose proof (search_loop_mono (S (length cs')) fi h v slm root root pi2 (S slcount) saved' _ eq_refl Hnf) as Hm2.
          rewrite <- Hm2. rewrite <- Ecs in Hw.
          destruct (search_rewalk_full h v Hos cs' root parent [] cs' fi slm root pi2 (S slcount) saved' eq_refl Hok' Hb2 Hw Hrp)
            as (R1 & R2 & R3 & R4 & R5).
          cbn. change (S (length cs') + fi) with (S (length cs' + fi)).
          split; [exact R1|]. split; [exact R2|]. split; [apply node_is_dir_valid; exact Hd|].
          split; [exact R3|]. split; [intros Hpr; apply R4; [exact (Hsv' Hpr)|reflexivity]|]. split; [intros [=]|].
          intros Hpr _. exists cs'. split; [exact Hg'|]. split; [exact Hw|exact (R5 (Hsv' Hpr))].
        * intros Hk1 Hnf.
          pose proof (kwalk_mono_S fk h u root false follow parent (c2 :: todo) (S slcount) false _ eq_refl Hk1) as Hm.
          rewrite <- Hm in Hk1 |- *.
          destruct Hcase as [(-> & Hb2 & _)|(-> & Hb2 & (todo' & Hne2 & Hres))].
          -- apply (resync (S fk) IH fi cs' [] cs' done (c2 :: todo) root parent pi2 (S slcount) saved' _); auto.
             discriminate.
          -- apply (resync (S fk) IH fi cs' done todo' done (c2 :: todo) parent parent pi2 (S slcount) saved' _); auto.
             ++ discriminate.
             ++ right. split; [exact Hne2|]. exists []. symmetry. apply app_nil_r.
    - (* a dangling pointer *)
      intros Hk1 _. congruence.
  Qed.
End Sym.

(* ---- from the root; at the level of the two entry points ---------------------------------- *)
Definition follow_of (slm : slmode) : bool := negb (slmode_eqb slm SlLstat).

Theorem sym_bridge_x (h : heap) (v : view) (slm : slmode) (cs : list str) (fi fk : nat) (md : bool) :
  v_os v = Linux -> walk_wf h -> links_clean h -> node_is_dir h (v_root v) = true ->
  Forall good_comp cs -> (md = false \/ cs = []) ->
  let K := kwalk fk h (v_user v) (v_root v) false (follow_of slm) (v_root v) cs 0 md in
  let r := search_loop fi h v slm (v_root v) (v_root v) (pi_new Linux (abs_path cs)) 0 None in
  K <> WErr EFUEL -> sr_err r <> EFuel ->
  walk_relx h (v_user v) (v_root v) (precise_of slm) r K.
Proof.
  intros Hos Hwf Hlc Hrd Hg Hmd K r. subst K r. destruct cs as [|c cs].
  - destruct fk as [|fk]; [cbn [kwalk]; congruence|]. destruct fi as [|fi]; [cbn [search_loop sr_err]; congruence|].
    intros _ _.
    rewrite (search_loop_end h v Hos fi slm (v_root v) (v_root v) _ 0 None [] (Forall_nil _) (pi_new_before [])).
    rewrite kwalk_S. cbn [walk_relx sr_err sr_child sr_parent]. split; [reflexivity|]. split; [reflexivity|].
    split; [apply node_is_dir_valid; exact Hrd|]. split; [eauto|]. split; [reflexivity|]. split; [intros [=]|].
    intros _ _. exists []. split; [constructor|]. split; reflexivity.
  - destruct Hmd as [->|Hmd]; [|discriminate]. destruct (kperm h (v_root v) 1 (v_user v)) eqn:Hrp.
    + intros Hk1 Hnf.
      apply (sym_bridge_at h v Hos Hwf Hlc Hrd Hrp slm fk fi [] (c :: cs) (v_root v) _ 0 None _); auto.
      * discriminate.
      * apply pi_new_before.
      * unfold MAXSYMLINKS. lia.
    + (* the caller may not search the root: both walks stop at once *)
      destruct fk as [|fk]; [cbn [kwalk]; congruence|]. destruct fi as [|fi]; [cbn [search_loop sr_err]; congruence|].
      intros _ _.
      assert (Hok : Forall comp_ok (c :: cs)) by (apply Forall_comp_ok_of; exact Hg).
      rewrite (search_loop_on h v Hos fi slm (v_root v) (v_root v) _ 0 None [] cs c Hok (pi_new_before (c :: cs))). cbv zeta.
      rewrite root_check_kperm, Nat.eqb_refl, Hrp. rewrite kwalk_S, Hrd, Hrp. cbn.
      split; [|intros _ [=]]. right. split; [auto|reflexivity].
Qed.

Theorem sym_bridge_lookup_x (s : fsys) (sv : sview) (slm : slmode) (cs : list str) :
  let v := sv_view sv in
  let h := f_heap s in
  v_os v = Linux -> walk_wf h -> links_clean h -> node_is_dir h (v_root v) = true ->
  Forall good_comp cs ->
  let K := klookup s sv false (follow_of slm) (abs_path cs) in
  let r := search_node s v (abs_path cs) slm in
  K <> WErr EFUEL -> sr_err r <> EFuel ->
  walk_relx h (v_user v) (v_root v) (precise_of slm) r K.
Proof.
  intros v h Hos Hwf Hlc Hrd Hg K r. subst K r.
  rewrite (search_node_abs_path s v cs slm Hos Hg), (klookup_abs_path s sv false (follow_of slm) cs Hg).
  apply sym_bridge_x; auto. destruct cs; [right; reflexivity|left; reflexivity].
Qed.

Theorem sym_bridge_lookup (s : fsys) (sv : sview) (slm : slmode) (cs : list str) :
  let v := sv_view sv in
  let h := f_heap s in
  v_os v = Linux -> walk_wf h -> links_clean h -> node_is_dir h (v_root v) = true ->
  Forall good_comp cs ->
  let K := klookup s sv false (follow_of slm) (abs_path cs) in
  let r := search_node s v (abs_path cs) slm in
  K <> WErr EFUEL -> sr_err r <> EFuel ->
  walk_rel h (v_user v) (v_root v) (precise_of slm) r K.
Proof. intros v h H1 H2 H3 H4 H5 K r H6 H7. apply walk_relx_rel. apply sym_bridge_lookup_x; assumption. Qed.

(* ---- non-vacuity and the budget witness ---------------------------------------------------- *)
Module WalkSymExamples.
  Definition nm (i : nat) : str := [N.of_nat (200 + i)].
  Definition dmeta : meta := {| m_mode := N.lor MODE_DIR 493; m_uid := 0; m_gid := 0 |}.
  Definition lmeta : meta := {| m_mode := N.lor MODE_SYMLINK 511; m_uid := 0; m_gid := 0 |}.
  Definition fmeta : meta := {| m_mode := 420; m_uid := 0; m_gid := 0 |}.
  Definition adminv : view :=
    {| v_root := 0; v_cwd := [SLASH]; v_user := root_user; v_umask := 18; v_os := Linux; v_idm := true |}.
  Definition alice : user := {| us_uid := 1000; us_gid := 1000; us_admin := false |}.
  Definition alicev : view :=
    {| v_root := 0; v_cwd := [SLASH]; v_user := alice; v_umask := 18; v_os := Linux; v_idm := true |}.

  (* a chain of [n] links in the root: nm 0 -> nm 1 -> ... -> nm n, the last a file *)
  Definition chain_heap (n : nat) : heap :=
    NDir (map (fun i => (nm i, S i)) (seq 0 (S n))) dmeta
    :: map (fun i => NSym (nm (S i)) lmeta) (seq 0 n) ++ [NFile [1%N] 1 1 fmeta].
  Definition chain_fs (n : nat) : fsys := {| f_heap := chain_heap n; f_last_id := 1; f_vols := [] |}.
  Definition sv_of (v : view) : sview := {| sv_view := v; sv_cwd := 0 |}.

  (* the two budgets are the same (40): a chain of 40 links resolves on both sides, the 41st link is refused on
     both sides *)
  Example budget_agree_40 :
    sr_child (search_node (chain_fs 40) adminv (abs_path [nm 0]) SlStat) = Some 41
    /\ klookup (chain_fs 40) (sv_of adminv) false true (abs_path [nm 0]) = WNode 0 LNorm (nm 40) 41.
  Proof. vm_compute. split; reflexivity. Qed.

  Example budget_agree_41 :
    sr_err (search_node (chain_fs 41) adminv (abs_path [nm 0]) SlStat) = ETooManySymlinks
    /\ klookup (chain_fs 41) (sv_of adminv) false true (abs_path [nm 0]) = WErr ELOOP.
  Proof. vm_compute. split; reflexivity. Qed.

  (* a link that is NOT followed does not count: 40 links crossed on the way to a directory, then Lstat of a link
     in it, answers the link on both sides (before the repo fix the implementation answered ELOOP here).
     Heap: root { nm 0 .. nm 39 : links, nm i -> nm (i+1), nm 39 -> "D" ; "D" : directory { "x" : link } } *)
  Definition s_D : str := [68%N]. Definition s_X : str := [120%N].
  Definition corner_heap (n : nat) : heap :=
    NDir (map (fun i => (nm i, S i)) (seq 0 n) ++ [(s_D, S n)]) dmeta
    :: map (fun i => NSym (if Nat.eqb (S i) n then s_D else nm (S i)) lmeta) (seq 0 n)
       ++ [NDir [(s_X, S (S n))] dmeta; NSym s_D lmeta].
  Definition corner_fs (n : nat) : fsys := {| f_heap := corner_heap n; f_last_id := 0; f_vols := [] |}.

  Example lstat_after_39_links :
    (let r := search_node (corner_fs 39) adminv (abs_path [nm 0; s_X]) SlLstat in
     sr_err r = EFileExists /\ sr_child r = Some 41)
    /\ klookup (corner_fs 39) (sv_of adminv) false false (abs_path [nm 0; s_X]) = WNode 40 LNorm s_X 41.
  Proof. vm_compute. split; [split|]; reflexivity. Qed.

  Example lstat_after_40_links :
    (let r := search_node (corner_fs 40) adminv (abs_path [nm 0; s_X]) SlLstat in
     sr_err r = EFileExists /\ sr_child r = Some 42)
    /\ klookup (corner_fs 40) (sv_of adminv) false false (abs_path [nm 0; s_X]) = WNode 41 LNorm s_X 42.
  Proof. vm_compute. split; [split|]; reflexivity. Qed.

  (* a small tree with every kind of link:
       /d (dir 0755)   /d/e (dir)   /d/e/f (file)     /d/up -> ".."     /d/e/top -> "../../d"
       /abs -> "/d/e"  /rel -> "d/e/f"   /dot -> "."   /loop -> "loop"   /dang -> "missing/x"   /root -> "/"
       /priv (dir 0700, owner 0)  /priv/g (file) *)
  Definition s_d := [100%N]. Definition s_e := [101%N]. Definition s_f := [102%N]. Definition s_g := [103%N].
  Definition s_up := [117%N; 112%N]. Definition s_top := [116%N]. Definition s_abs := [97%N]. Definition s_rel := [114%N].
  Definition s_dot := [111%N]. Definition s_loop := [108%N]. Definition s_dang := [110%N]. Definition s_root := [113%N].
  Definition s_priv := [112%N]. Definition s_missing := [109%N]. Definition s_x := [120%N].
  Definition tree : heap :=
    [ NDir [(s_d, 1); (s_abs, 6); (s_rel, 7); (s_dot, 8); (s_loop, 9); (s_dang, 10); (s_root, 11); (s_priv, 12)] dmeta   (* 0 / *)
    ; NDir [(s_e, 2); (s_up, 4)] dmeta                                                     (* 1 /d *)
    ; NDir [(s_f, 3); (s_top, 5)] dmeta                                                    (* 2 /d/e *)
    ; NFile [7%N] 1 1 fmeta                                                                (* 3 /d/e/f *)
    ; NSym [DOT; DOT] lmeta                                                                (* 4 /d/up *)
    ; NSym ([DOT; DOT; SLASH; DOT; DOT; SLASH] ++ s_d) lmeta                               (* 5 /d/e/top *)
    ; NSym (SLASH :: s_d ++ SLASH :: s_e) lmeta                                            (* 6 /abs *)
    ; NSym (s_d ++ SLASH :: s_e ++ SLASH :: s_f) lmeta                                     (* 7 /rel *)
    ; NSym [DOT] lmeta                                                                     (* 8 /dot *)
    ; NSym s_loop lmeta                                                                    (* 9 /loop *)
    ; NSym (s_missing ++ SLASH :: s_x) lmeta                                               (* 10 /dang *)
    ; NSym [SLASH] lmeta                                                                   (* 11 /root *)
    ; NDir [(s_g, 13)] {| m_mode := N.lor MODE_DIR 448; m_uid := 0; m_gid := 0 |}         (* 12 /priv *)
    ; NFile [] 1 2 fmeta ].                                                                (* 13 /priv/g *)
  Definition tree_fs : fsys := {| f_heap := tree; f_last_id := 2; f_vols := [] |}.

  (* the projection the theorem relates: (errno | node) *)
  Definition impl_obs (v : view) (slm : slmode) (cs : list str) : ekind * option nat :=
    let r := search_node tree_fs v (abs_path cs) slm in (sr_err r, sr_child r).
  Definition spec_obs (v : view) (follow : bool) (cs : list str) : wres :=
    klookup tree_fs (sv_of v) false follow (abs_path cs).

  Example tree_walks :
    (* through "..", through an absolute link, a relative one with two "..", "." and "/" as targets *)
    impl_obs adminv SlStat [s_d; s_e; s_top; s_up; s_rel] = (EFileExists, Some 3)
    /\ spec_obs adminv true [s_d; s_e; s_top; s_up; s_rel] = WNode 2 LNorm s_f 3
    /\ impl_obs adminv SlStat [s_abs; s_top; s_e; s_f] = (EFileExists, Some 3)
    /\ spec_obs adminv true [s_abs; s_top; s_e; s_f] = WNode 2 LNorm s_f 3
    /\ impl_obs adminv SlEval [s_d; s_up] = (EFileExists, Some 0)
    /\ spec_obs adminv true [s_d; s_up] = WNode 0 LDotDot DD 0
    /\ impl_obs adminv SlEval [s_d; s_e; s_top] = (EFileExists, Some 1)
    /\ spec_obs adminv true [s_d; s_e; s_top] = WNode 0 LNorm s_d 1
    /\ impl_obs adminv SlStat [s_dot; s_root; s_d] = (EFileExists, Some 1)
    /\ spec_obs adminv true [s_dot; s_root; s_d] = WNode 0 LNorm s_d 1
    /\ impl_obs adminv SlStat [s_root] = (EFileExists, Some 0)
    /\ spec_obs adminv true [s_root] = WNode 0 LRoot [] 0
    (* no-follow of the final component *)
    /\ impl_obs adminv SlLstat [s_d; s_up] = (EFileExists, Some 4)
    /\ spec_obs adminv false [s_d; s_up] = WNode 1 LNorm s_up 4
    (* dangling, in final and in middle position; through a file *)
    /\ impl_obs adminv SlStat [s_dang] = (ENoSuchDir, None)
    /\ spec_obs adminv true [s_dang] = WErr ENOENT
    /\ impl_obs adminv SlStat [s_rel; s_x] = (ENotADirectory, Some 3)
    /\ spec_obs adminv true [s_rel; s_x] = WErr ENOTDIR
    (* search permission: a plain user below /priv *)
    /\ impl_obs alicev SlStat [s_priv; s_g] = (EPermDenied, Some 12)
    /\ spec_obs alicev true [s_priv; s_g] = WErr EACCES
    /\ impl_obs alicev SlStat [s_abs; s_f] = (EFileExists, Some 3)
    /\ spec_obs alicev true [s_abs; s_f] = WNode 2 LNorm s_f 3.
  Proof. vm_compute. repeat split; reflexivity. Qed.

  (* a self-referential link: both give up at the 41st link *)
  Example tree_loop :
    impl_obs adminv SlStat [s_loop] = (ETooManySymlinks, Some 9) /\ spec_obs adminv true [s_loop] = WErr ELOOP.
  Proof. vm_compute. split; reflexivity. Qed.
End WalkSymExamples.


(* the hypotheses of the bridge hold of the example tree: the theorem applies to it *)
Module WalkSymNonVacuity.
  Import WalkSymExamples.

  Lemma tree_edges d n c :
    dedge tree d n c ->
    In (d, c) [(0,1); (0,6); (0,7); (0,8); (0,9); (0,10); (0,11); (0,12); (1,2); (1,4); (2,3); (2,5); (12,13)].
  Proof.
    unfold dedge, children, get.
    do 14 (destruct d as [|d]; [cbn; intros H; repeat (destruct H as [[= <- <-]|H]; [repeat (first [left; reflexivity | right])|]); destruct H|]).
    destruct d; cbn; intros [].
  Qed.
  Lemma increasing_wf (h : heap) :
    (forall d n c, dedge h d n c -> d < c) ->
    (forall d1 n1 d2 n2 c, dedge h d1 n1 c -> dedge h d2 n2 c -> node_is_dir h c = true -> d1 = d2) ->
    walk_wf h.
  Proof.
    intros Hinc Hs. split; [exact Hs|].
    assert (Hr : forall a b, dreach h a b -> a <= b).
    { intros a b Hab. induction Hab as [|d n c _ IH He]; [lia|]. apply Hinc in He. lia. }
    intros d (x & n & Hdx & He). apply Hr in Hdx. apply Hinc in He. lia.
  Qed.
  Example tree_wf : walk_wf tree.
  Proof.
    apply increasing_wf.
    - intros d n c H. apply tree_edges in H. cbn [In] in H.
      repeat (destruct H as [[= <- <-]|H]; [lia|]). destruct H.
    - intros d1 n1 d2 n2 c H1 H2 _. apply tree_edges in H1, H2. cbn [In] in H1, H2.
      repeat (destruct H1 as [H1|H1]); try contradiction; injection H1 as <- <-;
        repeat (destruct H2 as [H2|H2]); try contradiction; congruence.
  Qed.
  Example tree_links_clean : links_clean tree.
  Proof.
    intros d0 n0 i t m _. unfold get.
    do 14 (destruct i as [|i];
           [cbn [nth_error tree]; intros E; try discriminate E; injection E as <- _;
            match goal with |- exists x, ?t = _ => exists t end; vm_compute; reflexivity|]).
    destruct i; discriminate.
  Qed.

  Example tree_instance :
    walk_rel tree alice 0 true
      (search_node tree_fs alicev (abs_path [s_abs; s_top; s_e; s_f]) SlEval)
      (klookup tree_fs (sv_of alicev) false true (abs_path [s_abs; s_top; s_e; s_f])).
  Proof.
    apply (sym_bridge_lookup tree_fs (sv_of alicev) SlEval [s_abs; s_top; s_e; s_f]).
    - reflexivity.
    - exact tree_wf.
    - exact tree_links_clean.
    - reflexivity.
    - repeat constructor; try discriminate; intros x [<-|[]]; discriminate.
    - vm_compute; discriminate.
    - vm_compute; discriminate.
  Qed.
End WalkSymNonVacuity.
