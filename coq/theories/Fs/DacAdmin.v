(* Property C03, part 3: the administrator is never refused.  For every call of the world step (namespace calls,
   handle calls, composites), made through a view whose user is the administrator, on a world whose view roots and
   volume roots are directories: the result is never EACCES / EPERM - except the three cases of [admin_exception]
   (Link on a directory or symbolic link; Chown on the Windows flavour; MemFile.Chmod on a node that is neither a
   file nor a directory). *)
From Avfs Require Import Base PathModel PathSpec PathProofs PathCleanProofs PathIterProofs.
From Avfs Require Import MemFS MemFile World Posix WalkBridge WalkSym WalkReadlink StepEq DacLemmas DacProofs.

(* ---- goal 4: the administrator is never refused ---------------------------------------------------------- *)
(* the error kinds that mean "refused": EACCES, EPERM (OS error), EPERM (avfs constant) *)
Definition refusal (e : ekind) : bool :=
  match e with EPermDenied | EOpNotPermitted | EC_OpNotPermitted => true | _ => false end.

(* [r] is not a refusal, except possibly the kind [a] *)
Definition clean_but (a : option ekind) (r : res) : Prop :=
  forall e, refusal e = true -> Some e <> a -> r <> RFail e /\ forall p, r <> RErrPath e p.

Lemma clean_fail (a : option ekind) (e : ekind) : refusal e = false -> clean_but a (RFail e).
Proof. intros Hb e' Hb' _. split; [intros [= ->]; congruence|discriminate]. Qed.

Lemma clean_errpath (a : option ekind) (e : ekind) (p : str) : refusal e = false -> clean_but a (RErrPath e p).
Proof. intros Hb e' Hb' _. split; [discriminate|intros p' [= -> _]; congruence]. Qed.

Lemma clean_allowed (e : ekind) : clean_but (Some e) (RFail e).
Proof. intros e' Hb' Hne. split; [intros [= ->]; congruence|discriminate]. Qed.

Lemma clean_weaken (a : option ekind) (r : res) : clean_but None r -> clean_but a r.
Proof. intros H e Hb _. apply H; [exact Hb|discriminate]. Qed.

Ltac cl :=
  first [ apply clean_fail; first [reflexivity | assumption]
        | apply clean_errpath; first [reflexivity | assumption]
        | (intros ? ? ?; split; [discriminate | intros; discriminate]) ].

Lemma search_loop_facts (h : heap) (v : view) (slm : slmode) : forall fuel vol parent pi sl saved,
  node_is_dir h vol = true -> node_is_dir h parent = true ->
  let r := search_loop fuel h v slm vol parent pi sl saved in
  (forall p, sr_parent r = Some p -> node_is_dir h p = true) /\
  (forall c, sr_err r = EFileExists -> sr_child r = Some c -> get h c <> None) /\
  (us_admin (v_user v) = true -> refusal (sr_err r) = false).
Proof.
  induction fuel as [|fuel IH]; intros vol parent pi sl saved Hvd Hpd; cbv zeta.
  - cbn [search_loop sr_parent sr_child sr_err]. split; [intros p [= <-]; exact Hpd|]. split; [discriminate|reflexivity].
  - rewrite search_loop_S. destruct (pi_next (v_os v) pi) as [ok pi1]. cbv zeta.
    destruct (negb ok).
    { cbn [sr_parent sr_child sr_err]. split; [intros p [= <-]; exact Hpd|].
      split; [intros c _ [= <-]; apply node_is_dir_valid; exact Hpd|reflexivity]. }
    destruct (root_check h v vol parent) eqn:Hrc.
    { cbn [sr_parent sr_child sr_err]. split; [intros p [= <-]; exact Hpd|]. split; [discriminate|].
      intros Ha. exfalso. unfold root_check in Hrc. destruct (node_is_dir_get _ _ Hpd) as (ch & m & Hg).
      rewrite Hg, (check_permission_admin _ _ _ Ha), andb_false_r in Hrc. discriminate Hrc. }
    destruct (alookup str_eqb (pi_part pi1) (children h parent)) as [c|].
    2:{ cbn [sr_parent sr_child sr_err]. split; [intros p [= <-]; exact Hpd|]. split; [intros c H; destruct (pi_is_last pi1); discriminate H|].
        intros _. destruct (pi_is_last pi1); reflexivity. }
    destruct (get h c) as [[ch m|dt k i m|t m]|] eqn:Hgc.
    + destruct (pi_is_last pi1).
      { cbn [sr_parent sr_child sr_err]. split; [intros p [= <-]; exact Hpd|]. split; [intros c0 _ [= <-]; congruence|reflexivity]. }
      destruct (check_permission m OpenLookup (v_user v)) eqn:Hcp.
      * apply IH; [exact Hvd|]. unfold node_is_dir. rewrite Hgc. reflexivity.
      * cbn [sr_parent sr_child sr_err]. split; [intros p [= <-]; exact Hpd|]. split; [discriminate|].
        intros Ha. rewrite (check_permission_admin _ _ _ Ha) in Hcp. discriminate Hcp.
    + destruct (pi_is_last pi1); [|destruct (v_os v)]; cbn [sr_parent sr_child sr_err];
        (split; [intros p [= <-]; exact Hpd|]); (split; [try discriminate; intros c0 _ [= <-]; congruence|reflexivity]).
    + cbv zeta. destruct (pi_is_last pi1 && slmode_eqb slm SlLstat).
      { cbn [sr_parent sr_child sr_err]. split; [intros p [= <-]; exact Hpd|]. split; [intros c0 _ [= <-]; congruence|reflexivity]. }
      destruct (Nat.ltb slCountMax (S sl)).
      { cbn [sr_parent sr_child sr_err]. split; [intros p [= <-]; exact Hpd|]. split; [discriminate|reflexivity]. }
      destruct (pi_replace_part (v_os v) pi1 t) as [reset pi2].
      apply IH; [exact Hvd|]. destruct reset; assumption.
    + cbn [sr_parent sr_child sr_err]. split; [intros p [= <-]; exact Hpd|]. split; [discriminate|reflexivity].
Qed.

Definition vols_dirs (s : fsys) : Prop :=
  forall name nd, alookup str_eqb name (f_vols s) = Some nd -> node_is_dir (f_heap s) nd = true.

Lemma search_node_facts (s : fsys) (v : view) (path : str) (slm : slmode) :
  node_is_dir (f_heap s) (v_root v) = true -> vols_dirs s ->
  let r := search_node s v path slm in
  (forall p, sr_parent r = Some p -> node_is_dir (f_heap s) p = true) /\
  (forall c, sr_err r = EFileExists -> sr_child r = Some c -> get (f_heap s) c <> None) /\
  (us_admin (v_user v) = true -> refusal (sr_err r) = false) /\
  (slmode_eqb slm SlLstat = false -> forall c, sr_err r = EFileExists -> sr_child r = Some c ->
     forall t m, get (f_heap s) c <> Some (NSym t m)).
Proof.
  intros Hrd Hvd. unfold search_node. cbv zeta.
  destruct (Nat.ltb 0 (pi_vnl _)).
  - destruct (alookup str_eqb _ (f_vols s)) as [nd|] eqn:Hl.
    + pose proof (Hvd _ _ Hl) as Hnd.
      destruct (search_loop_facts (f_heap s) v slm SEARCH_FUEL nd nd (pi_new (v_os v) (abs (v_os v) (v_cwd v) path)) 0 None Hnd Hnd)
        as (F1 & F2 & F3).
      repeat split; auto. intros Hslm c He Hc.
      exact (search_follow_nosym (f_heap s) v slm Hslm SEARCH_FUEL _ _ _ 0 None _ c Hnd Hnd eq_refl He Hc).
    + cbn [sr_parent sr_child sr_err]. repeat split; try discriminate.
  - destruct (search_loop_facts (f_heap s) v slm SEARCH_FUEL (v_root v) (v_root v) (pi_new (v_os v) (abs (v_os v) (v_cwd v) path)) 0 None Hrd Hrd)
      as (F1 & F2 & F3).
    repeat split; auto. intros Hslm c He Hc.
    exact (search_follow_nosym (f_heap s) v slm Hslm SEARCH_FUEL _ _ _ 0 None _ c Hrd Hrd eq_refl He Hc).
Qed.

Lemma admin_perm_on_dir (h : heap) (p : nat) (perm : N) (u : user) :
  us_admin u = true -> node_is_dir h p = true -> perm_on h p perm u = true.
Proof.
  intros Ha Hd. unfold perm_on. destruct (node_is_dir_get _ _ Hd) as (ch & m & Hg). rewrite Hg.
  apply check_permission_admin. exact Ha.
Qed.

Lemma admin_perm_on_valid (h : heap) (p : nat) (perm : N) (u : user) :
  us_admin u = true -> p < length h -> perm_on h p perm u = true.
Proof.
  intros Ha Hlt. unfold perm_on, get. destruct (nth_error h p) as [n|] eqn:Hg.
  - apply check_permission_admin. exact Ha.
  - apply nth_error_None in Hg. lia.
Qed.

Lemma remove_child_length (h : heap) (p : nat) (name : str) : length (remove_child h p name) = length h.
Proof. unfold remove_child. destruct (get h p) as [[ch m| |]|]; try reflexivity. apply upd_length. Qed.

Lemma delete_node_length (h : heap) (c : nat) : length (delete_node h c) = length h.
Proof. unfold delete_node. destruct (get h c) as [[ch m|d k i m|t m]|]; try reflexivity; apply upd_length. Qed.

(* the recursive removal, by the administrator: never a permission error; the heap keeps its size *)
Lemma remove_all_rec_admin (u : user) : us_admin u = true -> forall fuel h d,
  node_is_dir h d = true ->
  length (fst (remove_all_rec fuel h u d)) = length h
  /\ (snd (remove_all_rec fuel h u d) = None \/ snd (remove_all_rec fuel h u d) = Some EFuel).
Proof.
  intros Ha. induction fuel as [|fuel IH]; intros h d Hd; cbn [remove_all_rec].
  - split; [reflexivity|right; reflexivity].
  - rewrite (admin_perm_on_dir _ _ _ _ Ha Hd). cbn [negb].
    generalize (children h d). intros chs.
    assert (G : forall h0, length h0 = length h ->
      let r := (fix loop (chs : list (str * nat)) (h : heap) : heap * option ekind :=
                  match chs with
                  | [] => (h, None)
                  | (nm, c) :: chs' =>
                      if node_is_dir h c then
                        match remove_all_rec fuel h u c with
                        | (h1, Some e) => (h1, Some e)
                        | (h1, None) => loop chs' (delete_node (remove_child h1 d nm) c)
                        end
                      else loop chs' (delete_node (remove_child h d nm) c)
                  end) chs h0 in
      length (fst r) = length h /\ (snd r = None \/ snd r = Some EFuel)).
    { induction chs as [|[nm c] chs IHc]; intros h0 Hlen; cbv zeta.
      - cbn [fst snd]. auto.
      - destruct (node_is_dir h0 c) eqn:Hdc.
        + destruct (IH h0 c Hdc) as (L & E). destruct (remove_all_rec fuel h0 u c) as [h1 [e|]]; cbn [fst snd] in L, E.
          * cbn [fst snd]. split; [congruence|]. destruct E as [E|E]; [discriminate E|right; exact E].
          * apply IHc. rewrite delete_node_length, remove_child_length. congruence.
        + apply IHc. rewrite delete_node_length, remove_child_length. exact Hlen. }
    exact (G h eq_refl).
Qed.

Section AdminCalls.
  Variables (s : fsys) (v : view).
  Hypothesis Ha : us_admin (v_user v) = true.
  Hypothesis Hrd : node_is_dir (f_heap s) (v_root v) = true.
  Hypothesis Hvd : vols_dirs s.

  Ltac cl0 :=
    cbn [fst snd];
    try match goal with |- context [win ?x] => destruct (win x) end;
    first [ apply clean_fail; first [reflexivity | assumption]
          | apply clean_errpath; first [reflexivity | assumption]
          | apply clean_allowed
          | (intros ? ? ?; split; [discriminate | intros; discriminate]) ].

  Ltac facts path slm :=
    let F1 := fresh "F1" in let F2 := fresh "F2" in let F3 := fresh "F3" in let F4 := fresh "F4" in
    destruct (search_node_facts s v path slm Hrd Hvd) as (F1 & F2 & F3 & F4); specialize (F3 Ha).

  Lemma mkdir_admin name perm : clean_but None (snd (mkdir s v name perm)).
  Proof.
    unfold mkdir. destruct name as [|x name]; [cl0|]. cbv zeta. facts (x :: name) SlLstat.
    set (r := search_node s v (x :: name) SlLstat) in *.
    destruct (_ || _); [cl0|]. destruct (sr_parent r) as [parent|] eqn:Hp; [|cl0].
    rewrite (admin_perm_on_dir _ _ _ _ Ha (F1 _ eq_refl)). cbn [negb]. destruct (alookup _ _ _); cl0.
  Qed.

  Lemma mkdir_all_admin path perm : clean_but None (snd (mkdir_all s v path perm)).
  Proof.
    unfold mkdir_all. cbv zeta. facts path SlEval. set (r := search_node s v path SlEval) in *.
    destruct (sr_child r) as [c|].
    - destruct (get (f_heap s) c) as [[ch m|d k i m|t m]|].
      + destruct (is_file_exists _); cl0.
      + cl0.
      + destruct (sr_parent r) as [parent|] eqn:Hp; [|cl0]. rewrite (admin_perm_on_dir _ _ _ _ Ha (F1 _ eq_refl)). cl0.
      + destruct (sr_parent r) as [parent|] eqn:Hp; [|cl0]. rewrite (admin_perm_on_dir _ _ _ _ Ha (F1 _ eq_refl)). cl0.
    - destruct (sr_parent r) as [parent|] eqn:Hp; [|cl0]. rewrite (admin_perm_on_dir _ _ _ _ Ha (F1 _ eq_refl)). cl0.
  Qed.

  Definition clean_sum {A} (a : option ekind) (x : res + A) : Prop :=
    match x with inl r => clean_but a r | inr _ => True end.

  Lemma open_file_admin vi name flag perm : clean_sum None (snd (open_file s v vi name flag perm)).
  Proof.
    unfold open_file. destruct name as [|x name]; [cbn [snd clean_sum]; cl0|]. cbv zeta.
    set (slm := if has (to_open_mode flag) OpenCreateExcl then SlLstat else SlEval).
    facts (x :: name) slm. set (r := search_node s v (x :: name) slm) in *.
    assert (OE : forall c,
      clean_sum None (snd (match get (f_heap s) c with
        | Some (NFile d k i m) =>
            if negb (check_permission m (if has (to_open_mode flag) OpenTruncate then N.lor (to_open_mode flag) OpenWrite else to_open_mode flag) (v_user v))
            then (s, inl (RFail EPermDenied))
            else if has (to_open_mode flag) OpenCreateExcl then (s, inl (RFail EFileExists))
            else
              let d1 := if has (to_open_mode flag) OpenTruncate then [] else d in
              let at_ := 0%Z in
              let m1 := if has (to_open_mode flag) OpenTruncate then drop_privs (v_user v) m else m in
              (with_heap s (upd (f_heap s) c (NFile d1 k i m1)), inr (new_handle c vi (x :: name) at_ (to_open_mode flag)))
        | Some (NDir _ m) =>
            if has (to_open_mode flag) OpenCreateExcl then (s, inl (RFail EFileExists))
            else if has (to_open_mode flag) OpenWrite || has (to_open_mode flag) OpenCreate || has (to_open_mode flag) OpenTruncate then (s, inl (RFail EIsADirectory))
            else if negb (check_permission m (to_open_mode flag) (v_user v)) then (s, inl (RFail EPermDenied))
            else (s, inr (new_handle c vi (x :: name) 0 (to_open_mode flag)))
        | _ => (s, inr (new_handle c vi (x :: name) 0 (to_open_mode flag)))
        end))).
    { intros c. destruct (get (f_heap s) c) as [[ch m|d k i m|t m]|]; try exact I.
      - destruct (has _ OpenCreateExcl); [cbn [snd clean_sum]; cl0|]. destruct (_ || _); [cbn [snd clean_sum]; cl0|].
        rewrite (check_permission_admin _ _ _ Ha). exact I.
      - rewrite (check_permission_admin _ _ _ Ha). cbn [negb]. destruct (has _ OpenCreateExcl); [cbn [snd clean_sum]; cl0|exact I]. }
    destruct (negb (is_file_exists (sr_err r)) && negb (is_not_exist (sr_err r)) || negb (pi_is_last (sr_pi r))); [cbn [snd clean_sum]; cl0|].
    match goal with |- context [if ?b then (s, inl (RFail (sr_err r))) else _] => destruct b; [cbn [snd clean_sum]; cl0|] end.
    destruct (is_not_exist (sr_err r)).
    - destruct (negb (has _ OpenCreate)); [cbn [snd clean_sum]; cl0|].
      destruct (sr_parent r) as [parent|] eqn:Hp; [|cbn [snd clean_sum]; cl0].
      rewrite (admin_perm_on_dir _ _ _ _ Ha (F1 _ eq_refl)). cbn [negb].
      destruct (alookup _ _ _) as [c|]; [apply OE|]. destruct (create_file _ _ _ _ _). exact I.
    - destruct (sr_child r) as [c|]; [apply OE|cbn [snd clean_sum]; cl0].
  Qed.

  Lemma remove_admin name : clean_but None (snd (remove s v name)).
  Proof.
    unfold remove. cbv zeta. facts name SlLstat. set (r := search_node s v name SlLstat) in *.
    destruct (sr_child r) as [c|]; [|cl0]. destruct (sr_parent r) as [parent|] eqn:Hp; [|cl0].
    destruct (negb (is_file_exists _)); [cl0|]. destruct (Nat.eqb parent c); [cl0|].
    rewrite (admin_perm_on_dir _ _ _ _ Ha (F1 _ eq_refl)), (sticky_admin _ _ _ _ Ha). cbn [negb].
    destruct (get (f_heap s) c) as [[[|? ?] m|d k i m|t m]|]; try cl0; destruct (alookup _ _ _); cl0.
  Qed.

  Lemma remove_all_admin path : clean_but None (snd (remove_all s v path)).
  Proof.
    unfold remove_all. destruct path as [|x path]; [cl0|]. cbv zeta. facts (x :: path) SlLstat.
    set (r := search_node s v (x :: path) SlLstat) in *.
    destruct (is_not_exist _); [cl0|]. destruct (is_file_exists (sr_err r)) eqn:He; cbn [negb]; [|cl0].
    destruct (sr_child r) as [c|] eqn:Hc; [|cl0]. destruct (sr_parent r) as [parent|] eqn:Hp; [|cl0].
    destruct (Nat.eqb parent c); [cl0|].
    assert (Hpl : parent < length (f_heap s)).
    { destruct (node_is_dir_get _ _ (F1 _ eq_refl)) as (ch & m & Hg). exact (wget_lt _ _ _ Hg). }
    destruct (get (f_heap s) c) as [[[|e0 ch] m|d k i m|t m]|] eqn:Hg.
    1,3,4,5: rewrite (admin_perm_on_valid _ _ _ _ Ha Hpl); cl0.
    assert (Hdc : node_is_dir (f_heap s) c = true) by (unfold node_is_dir; rewrite Hg; reflexivity).
    destruct (remove_all_rec_admin (v_user v) Ha (S (length (f_heap s))) (f_heap s) c Hdc) as (L & E).
    destruct (remove_all_rec (S (length (f_heap s))) (f_heap s) (v_user v) c) as [h1 e1]. cbn [fst snd] in L, E.
    destruct E as [-> | ->]; [|cl0].
    rewrite (admin_perm_on_valid _ _ _ _ Ha) by (rewrite L; exact Hpl). cl0.
  Qed.

  Lemma rename_admin o n : clean_but None (snd (rename s v o n)).
  Proof.
    unfold rename. cbv zeta. facts o SlLstat. set (ro := search_node s v o SlLstat) in *.
    destruct (negb (is_file_exists (sr_err ro))); [cl0|].
    destruct (search_node_facts s v n SlLstat Hrd Hvd) as (G1 & G2 & G3 & G4). specialize (G3 Ha).
    set (rn := search_node s v n SlLstat) in *.
    destruct (_ && _); [cl0|]. destruct (_ && _); [cl0|].
    destruct (sr_parent ro) as [op|] eqn:Hop; [|cl0]. destruct (sr_child ro) as [oc|]; [|cl0].
    destruct (sr_parent rn) as [np|] eqn:Hnp; [|destruct (is_not_exist (sr_err rn)); cl0].
    rewrite (admin_perm_on_dir _ _ _ _ Ha (F1 _ eq_refl)), (admin_perm_on_dir _ _ _ _ Ha (G1 _ eq_refl)), (sticky_admin _ _ _ _ Ha).
    cbn [negb]. rewrite !andb_false_r.
    destruct (get (f_heap s) oc) as [[ch m|d k i m|t m]|].
    - destruct (_ && _).
      + destruct (_ && _); [cl0|]. destruct (win v); cl0.
      + destruct (_ || _); [cl0|]. destruct (negb _); [cl0|]. rewrite Ha. cbn [negb]. rewrite andb_false_r. cl0.
    - destruct (_ || _); [cl0|]. destruct (sr_child rn) as [nc|]; [|cl0]. rewrite (sticky_admin _ _ _ _ Ha).
      destruct (get (f_heap s) nc) as [[? ?|? ? ? ?|? ?]|]; cl0.
    - destruct (_ || _); [cl0|]. destruct (sr_child rn) as [nc|]; [|cl0]. rewrite (sticky_admin _ _ _ _ Ha).
      destruct (get (f_heap s) nc) as [[? ?|? ? ? ?|? ?]|]; cl0.
    - cl0.
  Qed.

  Lemma link_admin o n : clean_but (Some EC_OpNotPermitted) (snd (link s v o n)).
  Proof.
    unfold link. cbv zeta. facts o SlLstat. set (ro := search_node s v o SlLstat) in *.
    destruct (sr_child ro) as [oc|]; [|cl0]. destruct (negb (is_file_exists _)); [cl0|].
    destruct (search_node_facts s v n SlLstat Hrd Hvd) as (G1 & G2 & G3 & G4). specialize (G3 Ha).
    set (rn := search_node s v n SlLstat) in *.
    destruct (negb (is_not_exist _)); [destruct (win v); cl0|]. destruct (negb (pi_is_last _)); [cl0|].
    destruct (sr_parent rn) as [np|] eqn:Hnp; [|destruct (is_not_exist (sr_err rn)); cl0].
    rewrite (admin_perm_on_dir _ _ _ _ Ha (G1 _ eq_refl)). cbn [negb].
    destruct (get (f_heap s) oc) as [[ch m|d k i m|t m]|]; cl0.
  Qed.

  Lemma symlink_admin o n : clean_but None (snd (symlink s v o n)).
  Proof.
    unfold symlink. cbv zeta. facts n SlLstat. set (r := search_node s v n SlLstat) in *.
    destruct (_ || _); [cl0|]. destruct (sr_parent r) as [parent|] eqn:Hp; [|cl0].
    rewrite (admin_perm_on_dir _ _ _ _ Ha (F1 _ eq_refl)). cl0.
  Qed.

  Lemma readlink_admin name : clean_but None (readlink s v name).
  Proof.
    unfold readlink. cbv zeta. facts name SlLstat. set (r := search_node s v name SlLstat) in *.
    destruct (negb _); [cl0|]. destruct (sr_child r) as [c|]; [|cl0].
    destruct (get (f_heap s) c) as [[ch m|d k i m|t m]|]; cl0.
  Qed.

  Lemma truncate_admin name size : clean_but None (snd (truncate s v name size)).
  Proof.
    unfold truncate. destruct (_ && _); [cl0|]. cbv zeta. facts name SlEval. set (r := search_node s v name SlEval) in *.
    destruct (negb _); [cl0|]. destruct (sr_child r) as [c|]; [|cl0].
    destruct (get (f_heap s) c) as [[ch m|d k i m|t m]|]; try cl0.
    destruct (Z.ltb size 0); [cl0|]. rewrite (check_permission_admin _ _ _ Ha). cl0.
  Qed.

  Lemma chmod_admin name mode : clean_but None (snd (chmod s v name mode)).
  Proof.
    unfold chmod. cbv zeta. facts name SlEval. set (r := search_node s v name SlEval) in *.
    destruct (sr_child r) as [c|] eqn:Hc; [|cl0]. destruct (is_file_exists (sr_err r)) eqn:He; cbn [negb]; [|cl0].
    assert (He' : sr_err r = EFileExists) by (destruct (sr_err r); try discriminate He; reflexivity).
    pose proof (F2 c He' eq_refl) as Hv. pose proof (F4 eq_refl c He' eq_refl) as Hns.
    destruct (get (f_heap s) c) as [[ch m|d k i m|t m]|]; [| |exfalso; exact (Hns t m eq_refl)|congruence];
      rewrite (set_mode_ok_admin _ _ Ha); cl0.
  Qed.

  Lemma chown_admin slm name uid gid :
    clean_but (if win v then Some EOpNotPermitted else None) (snd (chown_gen slm s v name uid gid)).
  Proof.
    unfold chown_gen.
    destruct (win v); [cbn [snd]; apply clean_allowed|]. cbv zeta. facts name slm. set (r := search_node s v name slm) in *.
    destruct (sr_child r) as [c|]; [|cl0]. destruct (negb _); [cl0|].
    destruct (get (f_heap s) c); [|cl0]. rewrite (chown_ok_admin _ _ _ _ Ha). cbn [negb]. rewrite andb_false_r. cl0.
  Qed.

  Lemma chtimes_admin name : clean_but None (chtimes s v name).
  Proof.
    unfold chtimes. cbv zeta. facts name SlEval. set (r := search_node s v name SlEval) in *.
    destruct (sr_child r) as [c|]; [|cl0]. destruct (negb _); [cl0|].
    destruct (get (f_heap s) c); [|cl0]. rewrite (set_mode_ok_admin _ _ Ha). cl0.
  Qed.

  Lemma chdir_admin dir : clean_sum None (chdir s v dir).
  Proof.
    unfold chdir. cbv zeta. facts dir SlEval. set (r := search_node s v dir SlEval) in *.
    destruct (negb _); [cbn [clean_sum]; cl0|]. destruct (sr_child r) as [c|]; [|cbn [clean_sum]; destruct (win v); cl0].
    destruct (get (f_heap s) c) as [[ch m|d k i m|t m]|]; try (cbn [clean_sum]; destruct (win v); cl0).
    rewrite (check_permission_admin _ _ _ Ha). exact I.
  Qed.

  Lemma stat_admin slm path : clean_but None (stat_gen slm s v path).
  Proof.
    unfold stat_gen. cbv zeta. facts path slm. set (r := search_node s v path slm) in *.
    destruct (sr_child r) as [c|]; [|cl0]. destruct (negb _); [cl0|]. destruct (get (f_heap s) c); cl0.
  Qed.

  Lemma eval_symlinks_admin path : clean_but None (eval_symlinks s v path).
  Proof.
    unfold eval_symlinks. cbv zeta. facts path SlEval. set (r := search_node s v path SlEval) in *.
    destruct (negb _); cl0.
  Qed.

  Lemma sub_admin dir : clean_sum None (sub s v dir).
  Proof.
    unfold sub. cbv zeta. facts dir SlEval. set (r := search_node s v dir SlEval) in *.
    destruct (sr_child r) as [c|]; [|cbn [clean_sum]; cl0]. destruct (negb _); [cbn [clean_sum]; cl0|].
    destruct (node_is_dir (f_heap s) c); [exact I|cbn [clean_sum]; cl0].
  Qed.
End AdminCalls.

(* ---- handle methods: no permission is consulted, except by Chmod and Chown ------------------------------------ *)
Section HandleCalls.
  Variables (s : fsys) (v : view) (f : handle).

  Ltac cl1 :=
    cbn [fst snd];
    try match goal with |- context [win ?x] => destruct (win x) end;
    first [ apply clean_fail; first [reflexivity | assumption]
          | apply clean_allowed
          | (intros ? ? ?; split; [discriminate | intros; discriminate]) ].

  Lemma f_read_clean n : clean_but None (snd (f_read s v f n)).
  Proof.
    unfold f_read. destruct (hd_name f); [cl1|]. destruct (hd_node f); [|cl1]. destruct (Z.leb n 0); [cl1|].
    destruct (file_of s _) as [[[[d k] i] m]|]; [|cl1]. destruct (negb _); [cl1|]. cbv zeta. destruct (Z.eqb _ 0); cl1.
  Qed.

  Lemma f_read_at_clean n off : clean_but None (f_read_at s v f n off).
  Proof.
    unfold f_read_at. destruct (Z.ltb off 0); [cl1|]. destruct (Z.leb n 0); [cl1|].
    destruct (hd_name f); [cl1|]. destruct (hd_node f); [|cl1].
    destruct (file_of s _) as [[[[d k] i] m]|]; [|cl1]. destruct (negb _); [cl1|].
    destruct (Z.ltb _ off); [cl1|]. cbv zeta. destruct (Z.ltb _ n); cl1.
  Qed.

  Lemma f_write_clean b : clean_but None (snd (f_write s v f b)).
  Proof.
    unfold f_write. destruct (hd_name f); [cl1|]. destruct (hd_node f); [|cl1].
    destruct (file_of s _) as [[[[d k] i] m]|]; [|cl1]. destruct (negb _); [cl1|]. destruct b; cl1.
  Qed.

  Lemma f_write_at_clean b off : clean_but None (snd (f_write_at s v f b off)).
  Proof.
    unfold f_write_at. destruct (has (hd_mode f) OpenAppend); [cl1|].
    destruct (Z.ltb off 0); [cl1|]. destruct b; [cl1|]. destruct (hd_name f); [cl1|]. destruct (hd_node f); [|cl1].
    destruct (file_of s _) as [[[[d k] i] m]|]; [|cl1]. destruct (negb _); cl1.
  Qed.

  Lemma f_seek_clean off wh : clean_but None (snd (f_seek s v f off wh)).
  Proof.
    unfold f_seek. destruct (hd_name f); [cl1|]. destruct (hd_node f); [|cl1].
    destruct (file_of s _) as [[[[d k] i] m]|]; [|destruct (_ && _); cl1]. cbv zeta.
    destruct (Z.eqb wh 0); [destruct (Z.ltb _ 0); cl1|]. destruct (Z.eqb wh 1); [destruct (Z.ltb _ 0); cl1|].
    destruct (Z.eqb wh 2); [destruct (Z.ltb _ 0); cl1|]. cl1.
  Qed.

  Lemma f_truncate_clean size : clean_but None (snd (f_truncate s v f size)).
  Proof.
    unfold f_truncate. destruct (hd_name f); [cl1|]. destruct (hd_node f); [|cl1]. destruct (Z.ltb size 0); [cl1|].
    destruct (file_of s _) as [[[[d k] i] m]|]; [|cl1]. destruct (negb _); cl1.
  Qed.

  Lemma f_stat_clean : clean_but None (f_stat s v f).
  Proof.
    unfold f_stat. destruct (hd_name f); [cl1|]. destruct (hd_node f); [|cl1]. destruct (get _ _); cl1.
  Qed.

  Lemma f_sync_clean : clean_but None (f_sync f).
  Proof. unfold f_sync. destruct (hd_name f); [cl1|]. destruct (hd_node f); cl1. Qed.

  (* MemFile.Chmod answers EPermDenied when the mode cannot be set (the model keeps the symbolic-link / dangling
     node case, which no open handle of a well-formed world reaches): the one exception *)
  Lemma f_chmod_clean mode : clean_but (Some EPermDenied) (snd (f_chmod s v f mode)).
  Proof.
    unfold f_chmod. destruct (hd_name f); [cl1|]. destruct (hd_node f) as [c|]; [|cl1].
    destruct (get _ c) as [[ch m|d k i m|t m]|]; try cl1; destruct (set_mode_ok _ _); cl1.
  Qed.

  Lemma f_chown_admin uid gid : us_admin (v_user v) = true -> clean_but None (snd (f_chown s v f uid gid)).
  Proof.
    intros Ha. unfold f_chown. destruct (hd_name f); [cl1|]. destruct (hd_node f) as [c|]; [|cl1].
    destruct (win v); [cl1|]. destruct (get _ c); [|cl1]. rewrite (check_permission_admin _ _ _ Ha). cl1.
  Qed.

  Lemma f_chdir_clean : clean_sum None (f_chdir s v f).
  Proof.
    unfold f_chdir. destruct (hd_name f); [cbn [clean_sum]; cl1|]. destruct (hd_node f) as [c|]; [|cbn [clean_sum]; cl1].
    destruct (node_is_dir _ c); [exact I|cbn [clean_sum]; cl1].
  Qed.

  Lemma f_close_clean : clean_but None (snd (f_close f)).
  Proof. unfold f_close. destruct (hd_node f); [cl1|]. destruct (hd_name f); cl1. Qed.

  Lemma f_read_dir_clean n : clean_but None (snd (f_read_dir s v f n)).
  Proof.
    unfold f_read_dir, dir_read. destruct (hd_name f); [cl1|]. destruct (hd_node f) as [c|]; [|cl1].
    destruct (get _ c) as [[ch m|d k i m|t m]|]; try cl1. cbv zeta.
    destruct (dir_batch _ _ _) as [[b e]|]; cl1.
  Qed.

  Lemma f_readdirnames_clean n : clean_but None (snd (f_readdirnames s v f n)).
  Proof.
    unfold f_readdirnames, dir_read. destruct (hd_name f); [cl1|]. destruct (hd_node f) as [c|]; [|cl1].
    destruct (get _ c) as [[ch m|d k i m|t m]|]; try cl1. cbv zeta.
    destruct (dir_batch _ _ _) as [[b e]|]; cl1.
  Qed.
End HandleCalls.

(* the composites over OpenFile *)
Section AdminComposites.
  Variables (s : fsys) (v : view).
  Hypothesis Ha : us_admin (v_user v) = true.
  Hypothesis Hrd : node_is_dir (f_heap s) (v_root v) = true.
  Hypothesis Hvd : vols_dirs s.

  Lemma read_dir_admin name : clean_but None (read_dir s v name).
  Proof.
    unfold read_dir. pose proof (open_file_admin s v Ha Hrd Hvd 0 name 0 0) as HO.
    destruct (open_file s v 0 name 0 0) as [s1 [r|f]]; cbn [snd clean_sum] in HO; [exact HO|apply f_read_dir_clean].
  Qed.

  Lemma read_file_admin name : clean_but None (read_file s v name).
  Proof.
    unfold read_file. pose proof (open_file_admin s v Ha Hrd Hvd 0 name 0 0) as HO.
    destruct (open_file s v 0 name 0 0) as [s1 [r|f]]; cbn [snd clean_sum] in HO; [exact HO|]. cbv zeta.
    match goal with |- context [f_read s1 v f ?n] => pose proof (f_read_clean s1 v f n) as HR; destruct (f_read s1 v f n) as [f' r] end.
    cbn [snd] in HR. destruct r; try exact HR. intros ? ? ?; split; [discriminate|intros; discriminate].
  Qed.

  Lemma write_file_admin name data perm : clean_but None (snd (write_file s v name data perm)).
  Proof.
    unfold write_file. pose proof (open_file_admin s v Ha Hrd Hvd 0 name (O_WRONLY + O_CREATE + O_TRUNC) perm) as HO.
    destruct (open_file s v 0 name (O_WRONLY + O_CREATE + O_TRUNC) perm) as [s1 [r|f]]; cbn [snd clean_sum] in HO; [exact HO|].
    pose proof (f_write_clean s1 v f data) as HW. destruct (f_write s1 v f data) as [[s2 f'] r]. cbn [snd] in HW.
    destruct r; try exact HW. intros ? ? ?; split; [discriminate|intros; discriminate].
  Qed.
End AdminComposites.

(* ---- the world step ----------------------------------------------------------------------------------------- *)
Definition world_roots (w : world) : Prop :=
  (forall v, In v (w_views w) -> node_is_dir (f_heap (w_fs w)) (v_root v) = true) /\ vols_dirs (w_fs w).

Definition call_view (w : world) (c : call) : nat :=
  match c with
  | CMkdir vi _ _ | CMkdirAll vi _ _ | COpenFile vi _ _ _ | CRemove vi _ | CRemoveAll vi _ | CRename vi _ _
  | CLink vi _ _ | CSymlink vi _ _ | CReadlink vi _ | CTruncate vi _ _ | CChmod vi _ _ | CChown vi _ _ _
  | CLchown vi _ _ _ | CChtimes vi _ | CChdir vi _ | CGetwd vi | CStat vi _ | CLstat vi _ | CEvalSymlinks vi _
  | CReadDir vi _ | CReadFile vi _ | CWriteFile vi _ _ _ | CSub vi _ | CSetUser vi _ _ _ | CSetUMask vi _ => vi
  | FRead hi _ | FReadAt hi _ _ | FWrite hi _ | FWriteAt hi _ _ | FSeek hi _ _ | FTruncate hi _ | FStat hi | FSync hi
  | FChmod hi _ | FChown hi _ _ | FChdir hi | FClose hi | FReadDir hi _ | FReaddirnames hi _ => handle_view w hi
  end.

(* the acting view of the call is the administrator's *)
Definition admin_call (w : world) (c : call) : Prop :=
  forall v, nth_error (w_views w) (call_view w c) = Some v -> us_admin (v_user v) = true.

(* which refusal a call may still answer to the administrator *)
Definition admin_exception (w : world) (c : call) : option ekind :=
  match c with
  | CLink _ _ _ => Some EC_OpNotPermitted                (* a directory or a symbolic link cannot be hard-linked *)
  | CChown vi _ _ _ | CLchown vi _ _ _ =>                 (* the Windows flavour has no chown *)
      if ostype_eqb (view_os w vi) Windows then Some EOpNotPermitted else None
  | FChmod _ _ => Some EPermDenied                        (* see f_chmod_clean *)
  | _ => None
  end.

Theorem admin_never_refused (w : world) (c : call) :
  world_roots w -> admin_call w c -> clean_but (admin_exception w c) (snd (wstep w c)).
Proof.
  intros (Hr & Hvd) Hadm. unfold admin_call in Hadm.
  assert (BI : forall a, clean_but a RBadIndex) by (intros a; apply clean_fail; reflexivity).
  assert (OK : forall a, clean_but a ROk) by (intros a e _ _; split; [discriminate|intros; discriminate]).
  destruct c; cbn [wstep call_view admin_exception] in *; unfold on_view, on_handle, lift.
  all: try (destruct (nth_error (w_views w) vi) as [v|] eqn:Hv; [|apply BI];
            pose proof (Hadm v eq_refl) as Ha; pose proof (Hr v (nth_error_In _ _ Hv)) as Hrd).
  all: try (unfold handle_view in Hadm; destruct (nth_error (w_handles w) hi) as [f|] eqn:Hf; [|apply BI];
            destruct (nth_error (w_views w) (hd_view f)) as [v|] eqn:Hv; [|apply BI];
            pose proof (Hadm v eq_refl) as Ha).
  - apply (mkdir_admin _ _ Ha Hrd Hvd).
  - apply (mkdir_all_admin _ _ Ha Hrd Hvd).
  - pose proof (open_file_admin _ _ Ha Hrd Hvd vi p flag perm) as HO.
    destruct (open_file (w_fs w) v vi p flag perm) as [s1 [r|f]]; cbn [snd clean_sum] in *; [exact HO|].
    intros e _ _; split; [discriminate|intros; discriminate].
  - apply (remove_admin _ _ Ha Hrd Hvd).
  - apply (remove_all_admin _ _ Ha Hrd Hvd).
  - apply (rename_admin _ _ Ha Hrd Hvd).
  - apply (link_admin _ _ Ha Hrd Hvd).
  - apply (symlink_admin _ _ Ha Hrd Hvd).
  - apply (readlink_admin _ _ Ha Hrd Hvd).
  - apply (truncate_admin _ _ Ha Hrd Hvd).
  - apply (chmod_admin _ _ Ha Hrd Hvd).
  - unfold view_os. rewrite Hv. apply (chown_admin _ _ Ha Hrd Hvd).
  - unfold view_os. rewrite Hv. apply (chown_admin _ _ Ha Hrd Hvd).
  - apply (chtimes_admin _ _ Ha Hrd Hvd).
  - pose proof (chdir_admin _ _ Ha Hrd Hvd p) as HC. destruct (chdir (w_fs w) v p); cbn [snd clean_sum] in *; [exact HC|apply OK].
  - cbn [snd]. rewrite (getwd_admin _ _ Ha). intros e _ _; split; [discriminate|intros; discriminate].
  - apply (stat_admin _ _ Ha Hrd Hvd).
  - apply (stat_admin _ _ Ha Hrd Hvd).
  - apply (eval_symlinks_admin _ _ Ha Hrd Hvd).
  - apply (read_dir_admin _ _ Ha Hrd Hvd).
  - apply (read_file_admin _ _ Ha Hrd Hvd).
  - apply (write_file_admin _ _ Ha Hrd Hvd).
  - pose proof (sub_admin _ _ Ha Hrd Hvd p) as HC. destruct (sub (w_fs w) v p); cbn [snd clean_sum] in *; [exact HC|].
    intros e _ _; split; [discriminate|intros; discriminate].
  - apply OK.
  - apply OK.
  - pose proof (f_read_clean (w_fs w) v f n) as HC. destruct (f_read (w_fs w) v f n). exact HC.
  - apply f_read_at_clean.
  - pose proof (f_write_clean (w_fs w) v f b) as HC. destruct (f_write (w_fs w) v f b) as [[? ?] ?]. exact HC.
  - apply f_write_at_clean.
  - pose proof (f_seek_clean (w_fs w) v f off whence) as HC. destruct (f_seek (w_fs w) v f off whence). exact HC.
  - apply f_truncate_clean.
  - apply f_stat_clean.
  - apply f_sync_clean.
  - apply f_chmod_clean.
  - apply (f_chown_admin _ _ _ _ _ Ha).
  - pose proof (f_chdir_clean (w_fs w) v f) as HC. destruct (f_chdir (w_fs w) v f); cbn [snd clean_sum] in *; [exact HC|apply OK].
  - pose proof (f_close_clean f) as HC. destruct (f_close f). exact HC.
  - pose proof (f_read_dir_clean (w_fs w) v f n) as HC. destruct (f_read_dir (w_fs w) v f n). exact HC.
  - pose proof (f_readdirnames_clean (w_fs w) v f n) as HC. destruct (f_readdirnames (w_fs w) v f n). exact HC.
Qed.

(* ---- in plain words ------------------------------------------------------------------------------------------------ *)
Lemma exception_dec (w : world) (c : call) (e : ekind) :
  Some e = admin_exception w c \/ Some e <> admin_exception w c.
Proof.
  destruct (admin_exception w c) as [e'|]; [|right; discriminate].
  destruct e, e'; first [left; reflexivity | right; discriminate].
Qed.

Theorem admin_no_eacces (w : world) (c : call) :
  world_roots w -> admin_call w c ->
  (snd (wstep w c) = RFail EPermDenied \/ exists p, snd (wstep w c) = RErrPath EPermDenied p) ->
  exists hi mode, c = FChmod hi mode.
Proof.
  intros Hw Ha Hr. destruct (exception_dec w c EPermDenied) as [D|D].
  - destruct c; cbn [admin_exception] in D; try discriminate D; try (destruct (ostype_eqb _ _); discriminate D). eauto.
  - exfalso. destruct (admin_never_refused w c Hw Ha EPermDenied eq_refl D) as (N1 & N2).
    destruct Hr as [Hr|(p & Hr)]; [exact (N1 Hr)|exact (N2 p Hr)].
Qed.

Theorem admin_no_eperm (w : world) (c : call) :
  world_roots w -> admin_call w c -> snd (wstep w c) = RFail EOpNotPermitted ->
  exists vi p uid gid, (c = CChown vi p uid gid \/ c = CLchown vi p uid gid) /\ view_os w vi = Windows.
Proof.
  intros Hw Ha Hr. destruct (exception_dec w c EOpNotPermitted) as [D|D].
  - destruct c; cbn [admin_exception] in D; try discriminate D.
    + exists vi, p, uid, gid. split; [left; reflexivity|]. destruct (view_os w vi); [discriminate D|reflexivity].
    + exists vi, p, uid, gid. split; [right; reflexivity|]. destruct (view_os w vi); [discriminate D|reflexivity].
  - exfalso. exact (proj1 (admin_never_refused w c Hw Ha EOpNotPermitted eq_refl D) Hr).
Qed.

Theorem admin_no_eperm_link (w : world) (c : call) :
  world_roots w -> admin_call w c -> snd (wstep w c) = RFail EC_OpNotPermitted -> exists vi o n, c = CLink vi o n.
Proof.
  intros Hw Ha Hr. destruct (exception_dec w c EC_OpNotPermitted) as [D|D].
  - destruct c; cbn [admin_exception] in D; try discriminate D; try (destruct (ostype_eqb _ _); discriminate D). eauto.
  - exfalso. exact (proj1 (admin_never_refused w c Hw Ha EC_OpNotPermitted eq_refl D) Hr).
Qed.

(* non-vacuity: the initial world of MemFS (root 0755, /home, /root, /tmp made by the administrator) satisfies the
   hypotheses; its only view is the administrator's *)
Lemma init_views (um : N) :
  w_views (init_world_linux um) = [ {| v_root := 0; v_cwd := [47%N]; v_user := root_user; v_umask := um; v_os := Linux; v_idm := true |} ].
Proof. reflexivity. Qed.
Lemma init_root_dir (um : N) : node_is_dir (f_heap (w_fs (init_world_linux um))) 0 = true.
Proof. vm_compute. reflexivity. Qed.
Lemma init_vols (um : N) : f_vols (w_fs (init_world_linux um)) = [].
Proof. vm_compute. reflexivity. Qed.
Example init_world_roots (um : N) : world_roots (init_world_linux um).
Proof.
  split.
  - intros v Hin. rewrite init_views in Hin. destruct Hin as [<-|[]]. exact (init_root_dir um).
  - intros name nd H. rewrite init_vols in H. discriminate H.
Qed.
Example init_admin_call (um : N) (c : call) : call_view (init_world_linux um) c = 0 -> admin_call (init_world_linux um) c.
Proof. intros E v. rewrite E, init_views. intros [= <-]. reflexivity. Qed.
