(* Property C05: RemoveAll.  The recursive removal unlinks one entry at a time
   (entry removed, node delete()d) so every intermediate state - in particular
   the state left behind when a permission error interrupts it - satisfies the
   invariant.  [This is the repaired removeAll; before the repair the entries
   stayed listed with decremented link counts, see design.d/C05.md.] *)
From Avfs Require Import Base BaseProofs PathModel MemFS MemFile World Inv InvMutators InvSearch.

Definition ra_loop (rec : heap -> nat -> heap * option ekind) (d : nat) :=
  fix loop (chs : list (str * nat)) (h : heap) : heap * option ekind :=
    match chs with
    | [] => (h, None)
    | (nm, c) :: chs' =>
        if node_is_dir h c then
          match rec h c with
          | (h1, Some e) => (h1, Some e)
          | (h1, None) => loop chs' (delete_node (remove_child h1 d nm) c)
          end
        else loop chs' (delete_node (remove_child h d nm) c)
    end.

Lemma remove_all_rec_S f h u d :
  remove_all_rec (S f) h u d =
  if negb (perm_on h d OpenWrite u) then (h, Some EPermDenied)
  else ra_loop (fun h c => remove_all_rec f h u c) d (children h d) h.
Proof. reflexivity. Qed.

Definition esub (h' h : heap) : Prop := forall a n b, edge h' a n b -> edge h a n b.

Definition ra_post (h : heap) (d : nat) (x : heap * option ekind) : Prop :=
  Inv_heap (fst x) /\ kinds_kept h (fst x) /\ esub (fst x) h /\
  (forall y, ~ reach h d y -> children (fst x) y = children h y) /\
  (snd x = None -> children (fst x) d = []).

Lemma ra_post_stay h d e : Inv_heap h -> ra_post h d (h, Some e).
Proof.
  intros IH. split; [|split; [|split; [|split]]]; cbn [fst snd]; auto.
  - apply kinds_kept_refl.
  - intros a n b H; exact H.
  - discriminate.
Qed.

Lemma esub_reach h' h a b : esub h' h -> reach h' a b -> reach h a b.
Proof. intros Hs. now apply reach_mono. Qed.

Lemma ra_loop_ok rec d h0 :
  (forall h c, Inv_heap h -> is_dir h c -> ra_post h c (rec h c)) ->
  forall chs h,
    Inv_heap h -> kinds_kept h0 h -> esub h h0 ->
    (forall y, ~ reach h0 d y -> children h y = children h0 y) ->
    children h d = chs ->
    ra_post h0 d (ra_loop rec d chs h).
Proof.
  intros Hrec. induction chs as [|[nm c] chs IHc]; intros h IH K Sub Fr Hch; cbn [ra_loop].
  - split; [|split; [|split; [|split]]]; cbn [fst snd]; auto.
  - assert (He : edge h d nm c) by (unfold edge; rewrite Hch; now left).
    assert (He0 : edge h0 d nm c) by now apply Sub.
    assert (Hlk : alk nm (children h d) = Some c).
    { rewrite Hch. cbn [alookup]. now rewrite str_eqb_refl. }
    assert (Hnm : alk nm chs = None).
    { apply alookup_None. pose proof (I2_names IH d) as Hnd. rewrite Hch in Hnd. cbn [map fst] in Hnd.
      now inversion Hnd. }
    assert (Hcd : c <> d).
    { intros ->. apply (@I5_acyclic _ IH d). exists d, nm. split; [apply reach_refl | exact He]. }
    (* one entry: after whatever happened below c, unlink it and go on *)
    assert (Hgo : forall h1, Inv_heap h1 -> kinds_kept h h1 -> esub h1 h ->
                    (forall y, ~ reach h c y -> children h1 y = children h y) ->
                    children h1 c = [] ->
                    ra_post h0 d (ra_loop rec d chs (delete_node (remove_child h1 d nm) c))).
    { intros h1 I1 K1 S1 F1 Hleaf.
      assert (Hd1 : children h1 d = children h d).
      { apply F1. intros Hr. apply (@I5_acyclic _ IH d). exists d, nm. split; [apply reach_refl|].
        (* reach h c d and edge d c give a cycle through d *)
        exfalso. apply (@I5_acyclic _ IH c). eapply reachp_trans_l; [exact Hr|]. exists d, nm. split; [apply reach_refl | exact He]. }
      assert (Hlk1 : alk nm (children h1 d) = Some c) by now rewrite Hd1.
      destruct (Inv_heap_unlink h1 d nm c I1 Hlk1 Hleaf) as [I2 K2].
      set (h2 := delete_node (remove_child h1 d nm) c) in *.
      assert (HCh2 : forall y, children h2 y = if Nat.eqb y d then arm nm (children h1 d) else children h1 y).
      { intros y. unfold h2. now apply unlink_children. }
      apply IHc; auto.
      - eapply kinds_kept_trans; [exact K|]. eapply kinds_kept_trans; eauto.
      - intros a n b. unfold edge. rewrite HCh2. destruct (Nat.eqb_spec a d) as [->|].
        + intros Hin. apply In_aremove in Hin as [_ Hin]. apply Sub, S1. exact Hin.
        + intros Hin. apply Sub, S1. exact Hin.
      - intros y Hy. rewrite HCh2. destruct (Nat.eqb_spec y d) as [->|Hyd].
        + exfalso. apply Hy, reach_refl.
        + rewrite F1; [now apply Fr|]. intros Hr. apply Hy.
          eapply reach_trans; [eapply reach_edge; exact He0|]. eapply esub_reach; eauto.
      - rewrite HCh2, Nat.eqb_refl, Hd1, Hch. cbn [aremove]. rewrite str_eqb_refl.
        now apply aremove_absent. }
    destruct (node_is_dir h c) eqn:Edir.
    + pose proof (Hrec h c IH Edir) as (I1 & K1 & S1 & F1 & L1).
      destruct (rec h c) as [h1 [e|]]; cbn [fst snd] in *.
      * (* interrupted below c *)
        split; [|split; [|split; [|split]]]; cbn [fst snd]; auto.
        -- eapply kinds_kept_trans; eauto.
        -- intros a n b H. apply Sub, S1, H.
        -- intros y Hy. rewrite F1; [now apply Fr|]. intros Hr. apply Hy.
           eapply reach_trans; [eapply reach_edge; exact He0|]. eapply esub_reach; eauto.
        -- discriminate.
      * apply Hgo; auto.
    + apply Hgo; auto.
      * apply kinds_kept_refl.
      * intros a n b H; exact H.
      * now apply children_nondir.
Qed.

Lemma remove_all_rec_ok u fuel : forall h d,
  Inv_heap h -> is_dir h d -> ra_post h d (remove_all_rec fuel h u d).
Proof.
  induction fuel as [|f IHf]; intros h d IH Hd.
  - cbn [remove_all_rec]. now apply ra_post_stay.
  - rewrite remove_all_rec_S. destruct (negb (perm_on h d OpenWrite u)); [now apply ra_post_stay|].
    apply ra_loop_ok with (rec := fun h c => remove_all_rec f h u c); auto.
    + apply kinds_kept_refl.
    + intros a n b H; exact H.
Qed.

Section RemoveAll.
  Variables (s : fsys) (v : view).
  Hypothesis IH : Inv_heap (f_heap s).
  Hypothesis HV : f_vols s = [].
  Hypothesis VO : view_ok (f_heap s) v.

  Lemma remove_all_ok path : step_ok s (fst (remove_all s v path)).
  Proof.
    unfold remove_all. destruct path as [|b path]; [stay|].
    set (r := search_node s v (b :: path) SlLstat).
    assert (HP : search_post (f_heap s) r) by (apply search_node_post; auto; discriminate).
    destruct (is_not_exist (sr_err r)); [stay|].
    destruct (is_file_exists (sr_err r)) eqn:Efe; cbn [negb]; [|stay].
    destruct (sr_child r) as [c|] eqn:Ec; [|stay].
    destruct (sr_parent r) as [p|] eqn:Ep; [|stay].
    destruct (Nat.eqb_spec p c) as [->|Hpc]; [stay|].
    destruct (search_post_child _ _ c HP Ec) as (p' & Hp1 & Hp2 & Hlk).
    assert (p' = p) by congruence. subst p'.
    destruct Hlk as [->|Hlk]; [congruence|].
    assert (He : edge (f_heap s) p (pi_part (sr_pi r)) c) by now apply alookup_In.
    set (h := f_heap s) in *.
    (* the state after the recursive part *)
    assert (Hrec : forall h1 e1,
      Inv_heap h1 -> kinds_kept h h1 ->
      (e1 = None -> children h1 p = children h p /\ children h1 c = []) ->
      step_ok s (fst (match e1 with
                      | Some e => (with_heap s h1, RFail e)
                      | None =>
                          if negb (perm_on h1 p OpenWrite (v_user v)) then (with_heap s h1, RFail EPermDenied)
                          else (with_heap s (delete_node (remove_child h1 p (pi_part (sr_pi r))) c), ROk)
                      end))).
    { intros h1 e1 I1 K1 H1. destruct e1 as [e|]; cbn [fst].
      - now apply step_ok_with_heap.
      - destruct (negb (perm_on h1 p OpenWrite (v_user v))); cbn [fst]; [now apply step_ok_with_heap|].
        destruct (H1 eq_refl) as [Hp' Hc']. apply step_ok_with_heap.
        assert (Hlk1 : alk (pi_part (sr_pi r)) (children h1 p) = Some c) by now rewrite Hp'.
        destruct (Inv_heap_unlink h1 p _ c I1 Hlk1 Hc') as [I2 K2]. split; auto.
        eapply kinds_kept_trans; eauto. }
    destruct (get h c) as [[[|e0 ch] m|dt k id m|lk m]|] eqn:Eg;
      try (apply (Hrec h None IH (kinds_kept_refl h)); intros _; split; auto;
           rewrite children_get, Eg; reflexivity).
    pose proof (remove_all_rec_ok (v_user v) (S (length h)) h c IH) as HR.
    assert (Hdc : is_dir h c) by (apply is_dir_get; eauto). specialize (HR Hdc).
    destruct (remove_all_rec (S (length h)) h (v_user v) c) as [h1 e1].
    destruct HR as (I1 & K1 & S1 & F1 & L1). cbn [fst snd] in *.
    apply Hrec; auto. intros ->. split; auto.
    apply F1. intros Hr. apply (@I5_acyclic _ IH c). eapply reachp_trans_l; [exact Hr|].
    exists p, (pi_part (sr_pi r)). split; [apply reach_refl | exact He].
  Qed.
End RemoveAll.
