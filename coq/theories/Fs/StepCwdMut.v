(* C01: Remove, Rename, RemoveAll, MkdirAll on resolved name paths (relative paths included) at the level of worlds, with the
   working directory; the history theorem of StepCwdCreate.v extended by them and by the absolute-path calls of
   [covered_r] (MkdirAll, RemoveAll, OpenFile with any flag word). *)
From Avfs Require Import Base BaseProofs PathModel PathSpec PathProofs PathCleanProofs PathIterProofs.
From Avfs Require Import MemFS MemFile World Posix Inv InvMutators InvWorld.
From Avfs Require Import WalkBridge WalkSym WalkBudget WalkReadlink WalkRel StepEq WalkInv StepInv StepRename StepRenameDir
  StepHist StepCwd StepOpen StepNamePath StepCwdCreate StepMkdirAll StepHistM StepHistO StepRemoveAll StepRemoveAllExact
  StepNamePath2 StepMkdirAllRel DirExt.

(* ---- the specification never reads the working-directory string: MkdirAll, RemoveAll ------------------------------------------------------ *)
Lemma k_stat_setcwd fl s v n d p :
  k_stat fl s {| sv_view := set_cwd v d; sv_cwd := n |} p = k_stat fl s {| sv_view := v; sv_cwd := n |} p.
Proof. reflexivity. Qed.
Lemma k_mkdir_setcwd s v n d p perm :
  k_mkdir s {| sv_view := set_cwd v d; sv_cwd := n |} p perm = k_mkdir s {| sv_view := v; sv_cwd := n |} p perm.
Proof. reflexivity. Qed.

Lemma go_mkdir_all_setcwd s v n d perm : forall f p,
  go_mkdir_all f s {| sv_view := set_cwd v d; sv_cwd := n |} p perm = go_mkdir_all f s {| sv_view := v; sv_cwd := n |} p perm.
Proof.
  induction f as [|f IH]; intros p; [reflexivity|]. rewrite !go_mkdir_all_S, k_stat_setcwd.
  destruct (k_stat true s {| sv_view := v; sv_cwd := n |} p); try reflexivity.
  all: cbv zeta; rewrite IH;
    destruct (match parent_prefix p with
              | [] => (s, SOk)
              | _ :: _ => go_mkdir_all f s {| sv_view := v; sv_cwd := n |} (parent_prefix p) perm
              end) as [s1 r1];
    destruct r1; try reflexivity; rewrite k_mkdir_setcwd, k_stat_setcwd; reflexivity.
Qed.

Lemma go_remove_all_setcwd s v n d p :
  go_remove_all s {| sv_view := set_cwd v d; sv_cwd := n |} p = go_remove_all s {| sv_view := v; sv_cwd := n |} p.
Proof. reflexivity. Qed.

(* every call but Chdir, Getwd, EvalSymlinks, SetUser, SetUMask *)
Definition cwd_blind (c : call) : Prop :=
  match c with CChdir _ _ | CGetwd _ | CEvalSymlinks _ _ | CSetUser _ _ _ _ | CSetUMask _ _ => False | _ => True end.

Lemma spec_cwd_irrel_all (sw : sworld) (d : str) (c : call) : cwd_blind c ->
  spec_step true (sw_setcwd sw d) c = (sw_setcwd (fst (spec_step true sw c)) d, snd (spec_step true sw c))
  /\ sw_sv (fst (spec_step true sw c)) = sw_sv sw.
Proof.
  intros Hb. pose proof (spec_cwd_irrel true sw c d) as E.
  destruct c; try contradiction; try (split; [exact E|]); try reflexivity.
  - (* MkdirAll *)
    destruct sw as [s [v n]]. unfold spec_step, sw_setcwd. cbn [sw_fs sw_sv sv_view sv_cwd].
    rewrite go_mkdir_all_setcwd. split; reflexivity.
  - unfold spec_step. destruct (k_open (sw_fs sw) (sw_sv sw) p flag perm) as [s1 [e|c]]; reflexivity.
  - (* RemoveAll *)
    destruct sw as [s [v n]]. unfold spec_step, sw_setcwd. cbn [sw_fs sw_sv sv_view sv_cwd].
    rewrite go_remove_all_setcwd. split; reflexivity.
Qed.

(* ---- Remove, Rename, RemoveAll, MkdirAll on resolved name paths ----------------------------------------------------------------------------- *)
Definition covered_mp (vi : nat) (sw : sworld) (c : call) : Prop :=
  let s := sw_fs sw in
  let sv := sw_sv sw in
  let v := sv_view sv in
  step_hyps s sv /\ Inv_heap (f_heap s) /\ links_ok (f_heap s) /\
  match c with
  | CRemove vi' p => vi' = vi /\ exists cl, name_path p cl /\ resolved s sv SlLstat p
  | CRename vi' o n =>
      vi' = vi /\ exists clo cln np md,
        name_path o clo /\ name_path n cln /\ resolved s sv SlLstat o /\ resolved s sv SlLstat n
        /\ klookup s sv false false n = WNeg np cln md /\ (source_not_dir_p s sv o \/ source_is_dir_p s sv o)
  | CRemoveAll vi' p =>
      vi' = vi /\ exists cl, name_path p cl /\ ends_with_dot p = false /\ resolved s sv SlLstat p /\ nolink_target s sv p
  | CMkdirAll vi' p _ =>
      vi' = vi /\ exists bs k dn rest par,
        p = rel_path k (dn ++ rest) /\ v_cwd v = abs_path bs /\ Forall good_comp bs /\ dir_at s v bs (sv_cwd sv)
        /\ Forall good_comp (dn ++ rest) /\ dir_at s v (firstn (length bs - k) bs ++ dn) par
        /\ (forall c r, rest = c :: r -> alookup str_eqb c (children (f_heap s) par) = None)
        /\ has (m_mode (meta_of (f_heap s) par)) MODE_DIR = true
        /\ repeat DD k ++ dn ++ rest <> []
        /\ length (firstn (length bs - k) bs ++ dn ++ rest) < SEARCH_FUEL /\ k + length (dn ++ rest) < WALK_FUEL
  | _ => False
  end.

Theorem step_world_mp (w : world) (vi : nat) (sw : sworld) (c : call) :
  absw w vi sw -> covered_mp vi sw c ->
  obs_sim (snd (impl_step_proj w c)) (snd (spec_step true sw c))
  /\ absw (fst (impl_step_proj w c)) vi (fst (spec_step true sw c)).
Proof.
  intros Ha (H & Hinv & Hok & Hc). pose proof Ha as (Hfs & Hv). destruct c; try (destruct Hc; fail).
  - (* MkdirAll *)
    destruct Hc as (-> & bs & k & dn & rest & par & Ep & Hcwd & Hbs & Hcw & Hg & Hd & Hfr & Hbit & Hne & Hl1 & Hl2).
    apply (world_of_lift w vi sw _ (mkdir_all (w_fs w) (sv_view (sw_sv sw)) p perm)
             (go_mkdir_all (S (length p)) (sw_fs sw) (sw_sv sw) p perm) Ha).
    + apply (impl_lift w _ _ (wstep_mkdir_all w vi _ p perm Hv)); [left; discriminate|exact I].
    + apply spec_mkdir_all.
    + rewrite <- Hfs, Ep.
      exact (proj1 (step_mkdir_all_rel (sw_fs sw) (sw_sv sw) bs k perm dn rest par (sh_os _ _ H) (sh_admin _ _ H) Hcwd Hbs
                      (conj Hinv Hcw) Hg Hd Hfr Hbit Hne Hl1 Hl2)).
  - (* Remove *)
    destruct Hc as (-> & cl & Hnp & Hr).
    apply (world_of_lift w vi sw _ (remove (w_fs w) (sv_view (sw_sv sw)) p) (go_remove (sw_fs sw) (sw_sv sw) p) Ha).
    + apply (impl_lift w _ _ (wstep_remove w vi _ Hv p)); [left; discriminate|exact I].
    + apply spec_remove.
    + rewrite <- Hfs. exact (step_remove_p (sw_fs sw) (sw_sv sw) p cl H Hnp Hr (proj2 Hok)).
  - (* RemoveAll *)
    destruct Hc as (-> & cl & Hnp & Hdot & Hr & Hnl).
    apply (world_of_lift w vi sw _ (remove_all (w_fs w) (sv_view (sw_sv sw)) p) (go_remove_all (sw_fs sw) (sw_sv sw) p) Ha).
    + apply (impl_lift w _ _ (wstep_remove_all w vi _ p Hv)); [left; discriminate|exact I].
    + apply spec_remove_all.
    + rewrite <- Hfs. exact (step_remove_all_exact_p (sw_fs sw) (sw_sv sw) p cl H Hnp Hdot Hinv (proj2 Hok) Hr Hnl).
  - (* Rename *)
    destruct Hc as (-> & clo & cln & np & md & Hnpo & Hnpn & Hro & Hrn & HKn & Hsrc).
    apply (world_of_lift w vi sw _ (rename (w_fs w) (sv_view (sw_sv sw)) o n) (go_rename (sw_fs sw) (sw_sv sw) o n) Ha).
    + apply (impl_lift w _ _ (wstep_rename w vi _ Hv o n)); [left; discriminate|exact I].
    + apply spec_rename.
    + rewrite <- Hfs. destruct Hsrc as [Hsrc|Hsrc].
      * exact (step_rename_new_p (sw_fs sw) (sw_sv sw) o clo n cln H Hnpo Hnpn np md Hro Hrn Hsrc HKn).
      * exact (step_rename_dir_new_p (sw_fs sw) (sw_sv sw) o clo n cln H Hnpo Hnpn np md Hinv Hro Hrn Hsrc HKn).
Qed.

Theorem links_ok_spec_step_mp (vi : nat) (sw : sworld) (c : call) :
  covered_mp vi sw c -> ptr_valid (f_heap (sw_fs sw)) -> links_ok (f_heap (sw_fs sw)) ->
  links_ok (f_heap (sw_fs (fst (spec_step true sw c)))) /\ sw_sv (fst (spec_step true sw c)) = sw_sv sw.
Proof.
  intros (H & Hinv & _ & Hc) Hpv Hok. destruct c; try (destruct Hc; fail).
  - destruct Hc as (-> & bs & k & dn & rest & par & Ep & Hcwd & Hbs & Hcw & Hg & Hd & Hfr & Hbit & Hne & Hl1 & Hl2).
    rewrite spec_mkdir_all. cbn [fst sw_fs sw_sv]. split; [|reflexivity].
    rewrite Ep, (proj2 (step_mkdir_all_rel (sw_fs sw) (sw_sv sw) bs k perm dn rest par (sh_os _ _ H) (sh_admin _ _ H) Hcwd Hbs
                          (conj Hinv Hcw) Hg Hd Hfr Hbit Hne Hl1 Hl2)).
    cbn [fst]. apply links_ok_mk_chain; assumption.
  - rewrite spec_remove. cbn [fst sw_fs sw_sv]. split; [apply links_ok_go_remove; assumption|reflexivity].
  - rewrite spec_remove_all. cbn [fst sw_fs sw_sv]. split; [|reflexivity].
    apply links_ok_go_remove_all; [exact (sh_admin _ _ H)|exact Hinv|exact Hok].
  - rewrite spec_rename. cbn [fst sw_fs sw_sv]. split; [apply links_ok_go_rename; assumption|reflexivity].
Qed.

(* ---- with the working directory ------------------------------------------------------------------------------------------------------------ *)
Lemma covered_r_blind (vi : nat) (sw : sworld) (c : call) : covered_r vi sw c -> cwd_blind c.
Proof.
  intros Hc. destruct c; try exact I; exfalso;
    destruct Hc as [[[[(_ & Hc)|(_ & _ & Hc)]|Hc]|(_ & Hc)]|(_ & _ & _ & Hc)]; exact Hc.
Qed.

Lemma covered_mp_blind (vi : nat) (sw : sworld) (c : call) : covered_mp vi sw c -> cwd_blind c.
Proof. intros (_ & _ & _ & Hc). destruct c; try exact I; exact Hc. Qed.

Definition covered_e (vi : nat) (sw : sworld) (d : str) (c : call) : Prop :=
  covered_d vi sw d c
  \/ ((covered_r vi (sw_setcwd sw d) c \/ covered_mp vi (sw_setcwd sw d) c)
      /\ cwd_rel (sw_fs (fst (spec_step true sw c))) (sw_sv sw) d).

Theorem step_world_e (w : world) (vi : nat) (sw : sworld) (d : str) (c : call) :
  absc w vi sw d -> covered_e vi sw d c ->
  obs_sim (snd (impl_step_proj w c)) (snd (spec_step true sw c))
  /\ exists d', absc (fst (impl_step_proj w c)) vi (fst (spec_step true sw c)) d'.
Proof.
  intros Ha [Hc|(Hc & Hnext)]; [exact (step_world_d w vi sw d c Ha Hc)|].
  pose proof (absc_absw w vi sw d Ha) as Haw. destruct Ha as (Hfs & Hv & Hcw).
  assert (Hb : cwd_blind c) by (destruct Hc as [Hc|Hc]; [exact (covered_r_blind _ _ _ Hc)|exact (covered_mp_blind _ _ _ Hc)]).
  destruct (spec_cwd_irrel_all sw d c Hb) as (E & Esv).
  assert (S : obs_sim (snd (impl_step_proj w c)) (snd (spec_step true (sw_setcwd sw d) c))
              /\ absw (fst (impl_step_proj w c)) vi (fst (spec_step true (sw_setcwd sw d) c))).
  { destruct Hc as [Hc|Hc]; [apply step_world_r|apply step_world_mp]; assumption. }
  rewrite E in S. cbn [fst snd] in S. destruct S as (S1 & S2a & S2b). split; [exact S1|]. exists d.
  split; [exact S2a|]. split; [exact S2b|]. rewrite Esv. exact Hnext.
Qed.

Theorem links_ok_spec_step_e (vi : nat) (sw : sworld) (d : str) (c : call) :
  covered_e vi sw d c -> ptr_valid (f_heap (sw_fs sw)) -> links_ok (f_heap (sw_fs sw)) ->
  links_ok (f_heap (sw_fs (fst (spec_step true sw c))))
  /\ v_user (sv_view (sw_sv (fst (spec_step true sw c)))) = v_user (sv_view (sw_sv sw)).
Proof.
  intros [Hc|(Hc & _)] Hpv Hok; [exact (links_ok_spec_step_d vi sw d c Hc Hpv Hok)|].
  assert (Hb : cwd_blind c) by (destruct Hc as [Hc|Hc]; [exact (covered_r_blind _ _ _ Hc)|exact (covered_mp_blind _ _ _ Hc)]).
  destruct (spec_cwd_irrel_all sw d c Hb) as (E & Esv).
  assert (L : links_ok (f_heap (sw_fs (fst (spec_step true (sw_setcwd sw d) c))))).
  { destruct Hc as [Hc|Hc];
      [exact (proj1 (links_ok_spec_step_r vi (sw_setcwd sw d) c Hc Hpv Hok))
      |exact (proj1 (links_ok_spec_step_mp vi (sw_setcwd sw d) c Hc Hpv Hok))]. }
  rewrite E in L. cbn [fst sw_setcwd sw_fs] in L. rewrite Esv. split; [exact L|reflexivity].
Qed.

(* ---- histories on the states of C05, generic in the covered calls ------------------------------------------------------------------------------ *)
Section GenCwdHistory.
  Variable cov : nat -> sworld -> str -> call -> Prop.
  Hypothesis cov_step : forall (w : world) (vi : nat) (sw : sworld) (d : str) (c : call),
    absc w vi sw d -> cov vi sw d c ->
    obs_sim (snd (impl_step_proj w c)) (snd (spec_step true sw c))
    /\ exists d', absc (fst (impl_step_proj w c)) vi (fst (spec_step true sw c)) d'.
  Hypothesis cov_links : forall (vi : nat) (sw : sworld) (d : str) (c : call),
    cov vi sw d c -> ptr_valid (f_heap (sw_fs sw)) -> links_ok (f_heap (sw_fs sw)) ->
    links_ok (f_heap (sw_fs (fst (spec_step true sw c))))
    /\ v_user (sv_view (sw_sv (fst (spec_step true sw c)))) = v_user (sv_view (sw_sv sw)).

  Definition gen_call_ok_c (vi : nat) (sw : sworld) (d : str) (c : call) : Prop :=
    step_hyps (sw_fs sw) (sw_sv (sw_setcwd sw d)) -> Inv_heap (f_heap (sw_fs sw)) -> links_ok (f_heap (sw_fs sw)) ->
    cwd_rel (sw_fs sw) (sw_sv sw) d -> cov vi sw d c.

  Fixpoint gen_call_ok_run_c (vi : nat) (w : world) (sw : sworld) (cs : list call) : Prop :=
    match cs with
    | [] => True
    | c :: cs' => gen_call_ok_c vi sw (cwd_of w vi) c
                  /\ gen_call_ok_run_c vi (fst (impl_step_proj w c)) (fst (spec_step true sw c)) cs'
    end.

  Theorem gen_history_inv_c (vi : nat) : forall (cs : list call) (w : world) (sw : sworld),
    Inv w -> absc w vi sw (cwd_of w vi) -> us_admin (v_user (sv_view (sw_sv sw))) = true -> links_ok (f_heap (w_fs w)) ->
    gen_call_ok_run_c vi w sw cs ->
    Forall2 obs_sim (snd (impl_run w cs)) (snd (spec_run sw cs))
    /\ absc (fst (impl_run w cs)) vi (fst (spec_run sw cs)) (cwd_of (fst (impl_run w cs)) vi)
    /\ Inv (fst (impl_run w cs)) /\ links_ok (f_heap (w_fs (fst (impl_run w cs)))).
  Proof.
    induction cs as [|c cs IH]; intros w sw I Ha Hadm Hok Hrun.
    - cbn [impl_run spec_run fst snd]. split; [constructor|]. auto.
    - destruct Hrun as (Hc & Hrun). pose proof Ha as (Hfs & Hv & Hcw). set (d := cwd_of w vi) in *.
      assert (Hih : Inv_heap (f_heap (sw_fs sw))) by (rewrite Hfs; exact (@inv_heap _ I)).
      assert (Hpv : ptr_valid (f_heap (sw_fs sw))) by (apply Inv_heap_ptr_valid; exact Hih).
      assert (Hok' : links_ok (f_heap (sw_fs sw))) by (rewrite Hfs; exact Hok).
      assert (Hsh : step_hyps (sw_fs sw) (sw_sv (sw_setcwd sw d))).
      { rewrite Hfs. apply (Inv_step_hyps w vi _ (sv_cwd (sw_sv sw)) I Hv); [exact Hadm|].
        rewrite <- Hfs. exact (proj1 Hok'). }
      pose proof (Hc Hsh Hih Hok' Hcw) as Hcov.
      destruct (cov_step w vi sw d c Ha Hcov) as (S1 & d' & S2).
      destruct (cov_links vi sw d c Hcov Hpv Hok') as (L1 & L2).
      assert (I' : Inv (fst (impl_step_proj w c))) by (rewrite impl_step_fst; apply Inv_step; exact I).
      pose proof (absc_cwd_of _ _ _ _ S2) as Ed. rewrite <- Ed in S2.
      assert (Hok2 : links_ok (f_heap (w_fs (fst (impl_step_proj w c))))) by (rewrite <- (proj1 S2); exact L1).
      assert (Hadm2 : us_admin (v_user (sv_view (sw_sv (fst (spec_step true sw c))))) = true) by (rewrite L2; exact Hadm).
      destruct (IH _ _ I' S2 Hadm2 Hok2 Hrun) as (R1 & R2 & R3 & R4).
      cbn [impl_run spec_run fst snd]. split; [constructor; assumption|]. auto.
  Qed.
End GenCwdHistory.

Definition call_ok_e := gen_call_ok_c covered_e.
Definition call_ok_run_e := gen_call_ok_run_c covered_e.

Theorem history_inv_e (vi : nat) (cs : list call) (w : world) (sw : sworld) :
  Inv w -> absc w vi sw (cwd_of w vi) -> us_admin (v_user (sv_view (sw_sv sw))) = true -> links_ok (f_heap (w_fs w)) ->
  call_ok_run_e vi w sw cs ->
  Forall2 obs_sim (snd (impl_run w cs)) (snd (spec_run sw cs))
  /\ absc (fst (impl_run w cs)) vi (fst (spec_run sw cs)) (cwd_of (fst (impl_run w cs)) vi)
  /\ Inv (fst (impl_run w cs)) /\ links_ok (f_heap (w_fs (fst (impl_run w cs)))).
Proof. exact (gen_history_inv_c covered_e step_world_e links_ok_spec_step_e vi cs w sw). Qed.

(* ---- the working-directory premise derived for the calls that cannot move the working directory ------------------------------------------------ *)
Theorem cwd_rel_kept (sw : sworld) (d : str) (c : call) :
  us_admin (v_user (sv_view (sw_sv sw))) = true -> node_is_dir (f_heap (sw_fs sw)) (v_root (sv_view (sw_sv sw))) = true ->
  cwd_keeping sw c -> cwd_rel (sw_fs sw) (sw_sv sw) d -> cwd_rel (sw_fs (fst (spec_step true sw c))) (sw_sv sw) d.
Proof.
  intros Ha Hr Hk (bs & Hg & Ed & Hw). exists bs. split; [exact Hg|]. split; [exact Ed|].
  exact (dwalk_dext _ _ _ Ha (dext_spec_step sw c Hk) bs _ _ Hr Hw).
Qed.

(* [covered_e] without the premise, for those calls *)
Theorem covered_e_keep (vi : nat) (sw : sworld) (d : str) (c : call) :
  step_hyps (sw_fs sw) (sw_sv (sw_setcwd sw d)) -> cwd_rel (sw_fs sw) (sw_sv sw) d -> cwd_keeping sw c ->
  (covered_x vi (sw_setcwd sw d) c \/ covered_res vi (sw_setcwd sw d) c \/ covered_np vi (sw_setcwd sw d) c
   \/ covered_r vi (sw_setcwd sw d) c \/ covered_mp vi (sw_setcwd sw d) c) ->
  covered_e vi sw d c.
Proof.
  intros H Hcw Hk Hc.
  pose proof (cwd_rel_kept sw d c (sh_admin _ _ H) (sh_root _ _ H) Hk Hcw) as Hn.
  destruct Hc as [Hc|[Hc|[Hc|[Hc|Hc]]]].
  - left. left. left. split; [left; exact Hc|exact Hn].
  - left. left. left. split; [right; exact Hc|exact Hn].
  - left. right. split; [exact Hc|exact Hn].
  - right. split; [left; exact Hc|exact Hn].
  - right. split; [right; exact Hc|exact Hn].
Qed.

(* ---- non-vacuity: from the working directory "/d/e": MkdirAll "../x/missing"; WriteFile "../x/f"; Rename "../x/f" "../x/missing/g";
        Rename (a directory) "../x/missing" "m2"; RemoveAll "m2"; Remove "../x"; Getwd --------------------------------------------------------- *)
Module StepCwdMutExamples.
  Import WalkSymExamples WalkSymNonVacuity StepExamples StepInvExamples WalkRelExamples StepCwdExamples
         StepRemoveAllExactExamples.

  Definition s_g : str := [103%N].
  Definition s_m2 : str := [109%N; 50%N].
  Definition e1 := CChdir 0 (abs_path [s_d; s_e]).
  Definition e2 := CMkdirAll 0 (relp [DD; s_x; s_missing]) 493.
  Definition e3 := CWriteFile 0 (relp [DD; s_x; s_f]) [1%N; 2%N] 420.
  Definition e4 := CRename 0 (relp [DD; s_x; s_f]) (relp [DD; s_x; s_missing; s_g]).
  Definition e5 := CRename 0 (relp [DD; s_x; s_missing]) (relp [s_m2]).
  Definition e6 := CRemoveAll 0 (relp [s_m2]).
  Definition e7 := CRemove 0 (relp [DD; s_x]).
  Definition e8 := CGetwd 0.
  Definition he : list call := [e1; e2; e3; e4; e5; e6; e7; e8].

  Definition u2 := Eval vm_compute in fst (impl_step_proj w1 e2).
  Definition su2 := Eval vm_compute in fst (spec_step true sw1 e2).
  Definition u3 := Eval vm_compute in fst (impl_step_proj u2 e3).
  Definition su3 := Eval vm_compute in fst (spec_step true su2 e3).
  Definition u4 := Eval vm_compute in fst (impl_step_proj u3 e4).
  Definition su4 := Eval vm_compute in fst (spec_step true su3 e4).
  Definition u5 := Eval vm_compute in fst (impl_step_proj u4 e5).
  Definition su5 := Eval vm_compute in fst (spec_step true su4 e5).
  Definition u6 := Eval vm_compute in fst (impl_step_proj u5 e6).
  Definition su6 := Eval vm_compute in fst (spec_step true su5 e6).
  Definition u7 := Eval vm_compute in fst (impl_step_proj u6 e7).
  Definition su7 := Eval vm_compute in fst (spec_step true su6 e7).

  Ltac good_tac :=
    repeat constructor; try discriminate;
    let x := fresh "x" in let Hx := fresh "Hx" in
    intros x Hx; cbn in Hx; repeat (destruct Hx as [Hx|Hx]; [subst x; discriminate|]); destruct Hx.
  Ltac rel_tac Hsh x k w cl :=
    apply (rel_name_resolved _ _ [s_d; s_e] x k w cl Hsh eq_refl); [good_tac|vm_compute; reflexivity|reflexivity|good_tac].
  Ltac cwd_tac := exists [s_d; s_e]; split; [good_tac|split; [reflexivity|vm_compute; reflexivity]].
  Ltac res_tac Hr slm := apply (Hr slm); vm_compute; discriminate.
  Ltac nolink_tac :=
    let par := fresh "par" in let kind := fresh "kind" in let name := fresh "name" in let n := fresh "n" in let E := fresh "E" in
    intros par kind name n E; vm_compute in E; injection E as _ _ _ <-;
    apply (nolink_chk_sound 20); vm_compute; reflexivity.

  Example he_ok : call_ok_run_e 0 w_tree sw_tree he.
  Proof.
    unfold he. cbn [call_ok_run_e gen_call_ok_run_c].
    change (fst (impl_step_proj w_tree e1)) with w1. change (fst (spec_step true sw_tree e1)) with sw1.
    change (fst (impl_step_proj w1 e2)) with u2. change (fst (spec_step true sw1 e2)) with su2.
    change (fst (impl_step_proj u2 e3)) with u3. change (fst (spec_step true su2 e3)) with su3.
    change (fst (impl_step_proj u3 e4)) with u4. change (fst (spec_step true su3 e4)) with su4.
    change (fst (impl_step_proj u4 e5)) with u5. change (fst (spec_step true su4 e5)) with su5.
    change (fst (impl_step_proj u5 e6)) with u6. change (fst (spec_step true su5 e6)) with su6.
    change (fst (impl_step_proj u6 e7)) with u7. change (fst (spec_step true su6 e7)) with su7.
    split; [|split; [|split; [|split; [|split; [|split; [|split; [|split; [|exact I]]]]]]]]; intros Hsh Hih Hok Hcw0.
    - (* Chdir "/d/e" *)
      left. left. right; left. split; [exact Hsh|]. exists (abs_path [s_d; s_e]). split; [reflexivity|]. split.
      + apply (sym_bridge_lookup_x tree_fs _ SlEval [s_d; s_e]); try reflexivity;
          [exact tree_wf|exact tree_links_clean|good_tac|vm_compute; discriminate|vm_compute; discriminate].
      + vm_compute. discriminate.
    - (* MkdirAll "../x/missing" *)
      right. split; [right|change (fst (spec_step true sw1 e2)) with su2; cwd_tac].
      split; [exact Hsh|]. split; [exact Hih|]. split; [exact Hok|]. split; [reflexivity|].
      exists [s_d; s_e], 1, (@nil str), [s_x; s_missing], 1. split; [reflexivity|]. split; [reflexivity|]. split; [good_tac|].
      split; [split; vm_compute; reflexivity|]. split; [good_tac|]. split; [split; vm_compute; reflexivity|].
      split; [intros c r [= <- <-]; vm_compute; reflexivity|]. split; [vm_compute; reflexivity|]. split; [discriminate|].
      split; [unfold SEARCH_FUEL; cbn; lia|unfold WALK_FUEL; cbn; lia].
    - (* WriteFile "../x/f" *)
      left. right. split; [|change (fst (spec_step true su2 e3)) with su3; cwd_tac].
      split; [exact Hsh|]. split; [reflexivity|]. exists s_f.
      change (relp [DD; s_x; s_f]) with (clean Linux (relp [DD; s_x; s_f])).
      assert (HR : name_path (clean Linux (relp [DD; s_x; s_f])) s_f /\ _) by rel_tac Hsh (relp [DD; s_x; s_f]) 1 [s_x] s_f.
      destruct HR as (Hnp & Hr). split; [exact Hnp|]. split; [res_tac Hr SlLstat|res_tac Hr SlEval].
    - (* Rename "../x/f" "../x/missing/g" *)
      right. split; [right|change (fst (spec_step true su3 e4)) with su4; cwd_tac].
      split; [exact Hsh|]. split; [exact Hih|]. split; [exact Hok|]. split; [reflexivity|].
      change (relp [DD; s_x; s_f]) with (clean Linux (relp [DD; s_x; s_f])).
      change (relp [DD; s_x; s_missing; s_g]) with (clean Linux (relp [DD; s_x; s_missing; s_g])).
      assert (HO : name_path (clean Linux (relp [DD; s_x; s_f])) s_f /\ _) by rel_tac Hsh (relp [DD; s_x; s_f]) 1 [s_x] s_f.
      assert (HN : name_path (clean Linux (relp [DD; s_x; s_missing; s_g])) s_g /\ _)
        by rel_tac Hsh (relp [DD; s_x; s_missing; s_g]) 1 [s_x; s_missing] s_g.
      destruct HO as (Hnpo & Hro). destruct HN as (Hnpn & Hrn).
      match eval vm_compute in (klookup (sw_fs (sw_setcwd su3 (cwd_of u3 0))) (sw_sv (sw_setcwd su3 (cwd_of u3 0))) false false
                                  (clean Linux (relp [DD; s_x; s_missing; s_g]))) with
      | WNeg ?a _ ?b => exists s_f, s_g, a, b
      end.
      split; [exact Hnpo|]. split; [exact Hnpn|]. split; [res_tac Hro SlLstat|]. split; [res_tac Hrn SlLstat|].
      split; [vm_compute; reflexivity|]. left. intros par kind name n E. vm_compute in E. injection E as _ _ _ <-. vm_compute. reflexivity.
    - (* Rename of the directory "../x/missing" to "m2" *)
      right. split; [right|change (fst (spec_step true su4 e5)) with su5; cwd_tac].
      split; [exact Hsh|]. split; [exact Hih|]. split; [exact Hok|]. split; [reflexivity|].
      change (relp [DD; s_x; s_missing]) with (clean Linux (relp [DD; s_x; s_missing])).
      change (relp [s_m2]) with (clean Linux (relp [s_m2])).
      assert (HO : name_path (clean Linux (relp [DD; s_x; s_missing])) s_missing /\ _)
        by rel_tac Hsh (relp [DD; s_x; s_missing]) 1 [s_x] s_missing.
      assert (HN : name_path (clean Linux (relp [s_m2])) s_m2 /\ _) by rel_tac Hsh (relp [s_m2]) 0 (@nil str) s_m2.
      destruct HO as (Hnpo & Hro). destruct HN as (Hnpn & Hrn).
      match eval vm_compute in (klookup (sw_fs (sw_setcwd su4 (cwd_of u4 0))) (sw_sv (sw_setcwd su4 (cwd_of u4 0))) false false
                                  (clean Linux (relp [s_m2]))) with
      | WNeg ?a _ ?b => exists s_missing, s_m2, a, b
      end.
      split; [exact Hnpo|]. split; [exact Hnpn|]. split; [res_tac Hro SlLstat|]. split; [res_tac Hrn SlLstat|].
      split; [vm_compute; reflexivity|]. right. intros par kind name n E. vm_compute in E. injection E as _ _ _ <-. vm_compute. reflexivity.
    - (* RemoveAll "m2" (a directory with one file) *)
      right. split; [right|change (fst (spec_step true su5 e6)) with su6; cwd_tac].
      split; [exact Hsh|]. split; [exact Hih|]. split; [exact Hok|]. split; [reflexivity|]. exists s_m2.
      change (relp [s_m2]) with (clean Linux (relp [s_m2])).
      assert (HN : name_path (clean Linux (relp [s_m2])) s_m2 /\ _) by rel_tac Hsh (relp [s_m2]) 0 (@nil str) s_m2.
      destruct HN as (Hnp & Hr). split; [exact Hnp|]. split; [vm_compute; reflexivity|]. split; [res_tac Hr SlLstat|nolink_tac].
    - (* Remove "../x" (empty by now) *)
      right. split; [right|change (fst (spec_step true su6 e7)) with su7; cwd_tac].
      split; [exact Hsh|]. split; [exact Hih|]. split; [exact Hok|]. split; [reflexivity|]. exists s_x.
      change (relp [DD; s_x]) with (clean Linux (relp [DD; s_x])).
      assert (HN : name_path (clean Linux (relp [DD; s_x])) s_x /\ _) by rel_tac Hsh (relp [DD; s_x]) 1 (@nil str) s_x.
      destruct HN as (Hnp & Hr). split; [exact Hnp|res_tac Hr SlLstat].
    - (* Getwd *)
      left. left. right; right. split; [exact Hsh|]. split; [exact Hih|reflexivity].
  Qed.

  Example he_inv :
    Forall2 obs_sim (snd (impl_run w_tree he)) (snd (spec_run sw_tree he))
    /\ absc (fst (impl_run w_tree he)) 0 (fst (spec_run sw_tree he)) (cwd_of (fst (impl_run w_tree he)) 0)
    /\ Inv (fst (impl_run w_tree he)) /\ links_ok (f_heap (w_fs (fst (impl_run w_tree he)))).
  Proof. exact (history_inv_e 0 he w_tree sw_tree tree_inv (proj1 hc_covered) eq_refl tree_links_ok he_ok). Qed.

  Example he_results :
    snd (spec_run sw_tree he) = [SOk; SOk; SOk; SOk; SOk; SOk; SOk; SStr (abs_path [s_d; s_e])].
  Proof. vm_compute. reflexivity. Qed.
End StepCwdMutExamples.

(* ---- non-vacuity of [covered_e_keep]: no working-directory premise is discharged by hand ------------------------------------------------------- *)
Module StepCwdKeepExamples.
  Import WalkSymExamples WalkSymNonVacuity StepExamples StepInvExamples WalkRelExamples StepCwdExamples StepCwdCreateExamples.

  Definition k5 := CRemove 0 (relp [DD; s_x; StepCwdCreateExamples.s_g]).
  Definition k6 := CLstat 0 (relp [DD; s_x; s_f]).
  Definition hk : list call := [d1; d2; d3; d4; k5; k6].

  Definition x5 := Eval vm_compute in fst (impl_step_proj v4 k5).
  Definition sx5 := Eval vm_compute in fst (spec_step true sv4 k5).

  Example hk_ok : call_ok_run_e 0 w_tree sw_tree hk.
  Proof.
    unfold hk. cbn [call_ok_run_e gen_call_ok_run_c].
    change (fst (impl_step_proj w_tree d1)) with w1. change (fst (spec_step true sw_tree d1)) with sw1.
    change (fst (impl_step_proj w1 d2)) with v2. change (fst (spec_step true sw1 d2)) with sv2.
    change (fst (impl_step_proj v2 d3)) with v3. change (fst (spec_step true sv2 d3)) with sv3.
    change (fst (impl_step_proj v3 d4)) with v4. change (fst (spec_step true sv3 d4)) with sv4.
    change (fst (impl_step_proj v4 k5)) with x5. change (fst (spec_step true sv4 k5)) with sx5.
    split; [|split; [|split; [|split; [|split; [|split; [|exact I]]]]]]; intros Hsh Hih Hok Hcw.
    - (* Chdir "/d/e" *)
      left. left. right; left. split; [exact Hsh|]. exists (abs_path [s_d; s_e]). split; [reflexivity|]. split.
      + apply (sym_bridge_lookup_x tree_fs _ SlEval [s_d; s_e]); try reflexivity;
          [exact tree_wf|exact tree_links_clean|good_tac|vm_compute; discriminate|vm_compute; discriminate].
      + vm_compute. discriminate.
    - (* Mkdir "../x" *)
      apply (covered_e_keep 0 sw1 _ d2 Hsh Hcw I). right. right. left.
      split; [exact Hsh|]. split; [reflexivity|]. exists s_x.
      change (relp [DD; s_x]) with (clean Linux (relp [DD; s_x])).
      assert (HR : name_path (clean Linux (relp [DD; s_x])) s_x /\ _) by rel_tac Hsh (relp [DD; s_x]) 1 (@nil str) s_x.
      destruct HR as (Hnp & Hr). split; [exact Hnp|res_tac Hr SlLstat].
    - (* WriteFile "../x/f" *)
      apply (covered_e_keep 0 sv2 _ d3 Hsh Hcw I). right. right. left.
      split; [exact Hsh|]. split; [reflexivity|]. exists s_f.
      change (relp [DD; s_x; s_f]) with (clean Linux (relp [DD; s_x; s_f])).
      assert (HR : name_path (clean Linux (relp [DD; s_x; s_f])) s_f /\ _) by rel_tac Hsh (relp [DD; s_x; s_f]) 1 [s_x] s_f.
      destruct HR as (Hnp & Hr). split; [exact Hnp|]. split; [res_tac Hr SlLstat|res_tac Hr SlEval].
    - (* Link "f" "../x/g" *)
      apply (covered_e_keep 0 sv3 _ d4 Hsh Hcw I). right. right. left.
      split; [exact Hsh|]. split; [reflexivity|]. exists StepCwdCreateExamples.s_g.
      change (relp [DD; s_x; StepCwdCreateExamples.s_g]) with (clean Linux (relp [DD; s_x; StepCwdCreateExamples.s_g])).
      change (relp [s_f]) with (clean Linux (relp [s_f])).
      assert (HR : name_path (clean Linux (relp [DD; s_x; StepCwdCreateExamples.s_g])) StepCwdCreateExamples.s_g /\ _)
        by rel_tac Hsh (relp [DD; s_x; StepCwdCreateExamples.s_g]) 1 [s_x] StepCwdCreateExamples.s_g.
      assert (HO : name_path (clean Linux (relp [s_f])) s_f /\ _) by rel_tac Hsh (relp [s_f]) 0 (@nil str) s_f.
      destruct HR as (Hnp & Hr). destruct HO as (_ & Hro). split; [exact Hnp|]. split; [res_tac Hro SlLstat|].
      split; [res_tac Hr SlLstat|]. intros par kind name n t m E. vm_compute in E. injection E as _ _ _ <-. vm_compute. discriminate.
    - (* Remove "../x/g": not a directory *)
      assert (Hnd : cwd_keeping sv4 k5).
      { intros par name md c E Hl. vm_compute in E. injection E as <- <- _. vm_compute in Hl. injection Hl as <-. reflexivity. }
      apply (covered_e_keep 0 sv4 _ k5 Hsh Hcw Hnd). right. right. right. right.
      split; [exact Hsh|]. split; [exact Hih|]. split; [exact Hok|]. split; [reflexivity|]. exists StepCwdCreateExamples.s_g.
      change (relp [DD; s_x; StepCwdCreateExamples.s_g]) with (clean Linux (relp [DD; s_x; StepCwdCreateExamples.s_g])).
      assert (HR : name_path (clean Linux (relp [DD; s_x; StepCwdCreateExamples.s_g])) StepCwdCreateExamples.s_g /\ _)
        by rel_tac Hsh (relp [DD; s_x; StepCwdCreateExamples.s_g]) 1 [s_x] StepCwdCreateExamples.s_g.
      destruct HR as (Hnp & Hr). split; [exact Hnp|res_tac Hr SlLstat].
    - (* Lstat "../x/f" *)
      apply (covered_e_keep 0 sx5 _ k6 Hsh Hcw I). right. left.
      split; [exact Hsh|]. split; [reflexivity|].
      change (relp [DD; s_x; s_f]) with (clean Linux (relp [DD; s_x; s_f])).
      assert (HR : name_path (clean Linux (relp [DD; s_x; s_f])) s_f /\ _) by rel_tac Hsh (relp [DD; s_x; s_f]) 1 [s_x] s_f.
      destruct HR as (_ & Hr). res_tac Hr SlLstat.
  Qed.

  Example hk_inv :
    Forall2 obs_sim (snd (impl_run w_tree hk)) (snd (spec_run sw_tree hk))
    /\ absc (fst (impl_run w_tree hk)) 0 (fst (spec_run sw_tree hk)) (cwd_of (fst (impl_run w_tree hk)) 0)
    /\ Inv (fst (impl_run w_tree hk)) /\ links_ok (f_heap (w_fs (fst (impl_run w_tree hk)))).
  Proof. exact (history_inv_e 0 hk w_tree sw_tree tree_inv (proj1 hc_covered) eq_refl tree_links_ok hk_ok). Qed.
End StepCwdKeepExamples.
