(* Termination budgets of the two path walks (property C04, "C04_budget").

   The models run on fuel; the Go code and the kernel do not.  This file bounds the number of
   iterations of both loops on EVERY heap - cyclic link graphs included - so that the fuel-exhaustion
   outcomes ([EFuel] / [EFUEL]) are unreachable with enough fuel, and the two results are independent of
   the fuel from there on:

   - [search_budget]: the implementation's splice loop makes at most
       |todo| + 1 + bud (slCountMax - slcount) |path| T
     iterations, where T bounds the number of components of the link targets stored in the heap and
     [bud r n T = r*(n+1) + T*r*(r+1)/2] (every splice may lengthen the path by T components and may
     restart the walk from the root; there are at most slCountMax = 40 splices);
   - [kwalk_budget]: the kernel's walk makes at most |work| + 1 + (40 - cnt) * T iterations. *)
From Avfs Require Import Base PathModel PathSpec PathProofs PathCleanProofs PathIterProofs.
From Avfs Require Import MemFS MemFile World Posix WalkBridge WalkSym.

Definition ptr_valid (h : heap) : Prop := forall d n c, In (n, c) (children h d) -> c < length h.
Definition tbound (h : heap) (T : nat) : Prop :=
  forall i t m, get h i = Some (NSym t m) -> length (comps t) <= T.

Lemma ptr_valid_get (h : heap) (d : nat) (n : str) (c : nat) :
  ptr_valid h -> alookup str_eqb n (children h d) = Some c -> get h c <> None.
Proof. intros Hv Hl. apply alookup_in, Hv in Hl. unfold get. apply nth_error_Some. exact Hl. Qed.

Lemma norm_length (r : bool) : forall (cs st : list str), length (norm r st cs) <= length st + length cs.
Proof.
  induction cs as [|c cs IH]; intros st; cbn [norm length].
  - rewrite rev_length. lia.
  - destruct (match c with [] => true | _ => false end || is_dot c); [specialize (IH st); lia|].
    destruct (is_dotdot c).
    + destruct st as [|top st'].
      * destruct r; [specialize (IH []); cbn [length] in *; lia|specialize (IH [c]); cbn [length] in *; lia].
      * destruct (is_dotdot top); [specialize (IH (c :: top :: st'))|specialize (IH st')]; cbn [length] in *; lia.
    + specialize (IH (c :: st)). cbn [length] in *. lia.
Qed.

Lemma new_comps_length (done todo : list str) (link : str) :
  length (new_comps done todo link) <= length done + length (comps link) + length todo.
Proof.
  unfold new_comps. destruct (is_abs Linux link).
  - pose proof (norm_length true (comps link ++ todo) []) as H. rewrite app_length in H. cbn [length] in H. lia.
  - pose proof (norm_length true (done ++ comps link ++ todo) []) as H. rewrite !app_length in H. cbn [length] in H. lia.
Qed.

Fixpoint bud (rem n T : nat) : nat :=
  match rem with 0 => 0 | S r => n + T + 1 + bud r (n + T) T end.

Lemma bud_mono (T : nat) : forall r n n', n <= n' -> bud r n T <= bud r n' T.
Proof.
  induction r as [|r IH]; intros n n' H; cbn [bud]; [lia|]. specialize (IH (n + T) (n' + T)). lia.
Qed.

Lemma bud_closed (T : nat) : forall r n, bud r n T <= r * (n + r * T + 1).
Proof. induction r as [|r IH]; intros n; cbn [bud]; [lia|]. specialize (IH (n + T)). nia. Qed.

(* ---- the implementation -------------------------------------------------------------------- *)
Theorem search_budget (h : heap) (v : view) (T : nat) :
  v_os v = Linux -> ptr_valid h -> tbound h T ->
  forall fuel slm vol parent pi slcount saved (cs done todo : list str),
    Forall comp_ok cs -> cs = done ++ todo -> before cs done pi ->
    length todo + 1 + bud (slCountMax - slcount) (length cs) T <= fuel ->
    sr_err (search_loop fuel h v slm vol parent pi slcount saved) <> EFuel.
Proof.
  intros Hos Hpv Htb. induction fuel as [|fuel IH];
    intros slm vol parent pi slcount saved cs done todo Hok Hcs Hb Hf; [lia|].
  destruct todo as [|c todo].
  - rewrite app_nil_r in Hcs. subst done.
    rewrite (search_loop_end h v Hos fuel slm vol parent pi slcount saved cs Hok Hb). cbn. discriminate.
  - subst cs. rewrite (search_loop_on h v Hos fuel slm vol parent pi slcount saved done todo c Hok Hb). cbv zeta.
    destruct (root_check h v vol parent); [cbn; discriminate|].
    destruct (alookup str_eqb c (children h parent)) as [n|] eqn:Hl.
    2:{ cbn [sr_err]. destruct (is_nil todo); discriminate. }
    pose proof (ptr_valid_get h parent c n Hpv Hl) as Hgv.
    destruct (get h n) as [[ch m|dt k i m|t m]|] eqn:Hgn; [| | |congruence].
    + destruct (is_nil todo); [cbn; discriminate|].
      destruct (check_permission m OpenLookup (v_user v)); [|cbn; discriminate].
      apply (IH slm vol n _ slcount saved (done ++ c :: todo) (done ++ [c]) todo Hok).
      * rewrite <- app_assoc. reflexivity.
      * apply on_comp_before.
      * cbn [length] in Hf. lia.
    + destruct (is_nil todo); cbn; discriminate.
    + destruct (is_nil todo && slmode_eqb slm SlLstat); [cbn; discriminate|].
      destruct (Nat.ltb slCountMax (S slcount)) eqn:Hb64; [cbn; discriminate|].
      apply Nat.ltb_ge in Hb64.
      destruct (pi_replace_part_spec done todo c t Hok) as (Hg' & reset & pi2 & Hrp2 & Hcase). cbv zeta in Hrp2, Hcase.
      rewrite Hrp2.
      pose proof (new_comps_length done todo t) as Hlen. pose proof (Htb n t m Hgn) as Ht.
      set (cs' := new_comps done todo t) in *.
      assert (Hok' : Forall comp_ok cs') by (apply Forall_comp_ok_of; exact Hg').
      assert (Hr : slCountMax - slcount = S (slCountMax - S slcount)) by lia.
      rewrite Hr in Hf. cbn [bud] in Hf. rewrite app_length in Hf. cbn [length] in Hf.
      pose proof (bud_mono T (slCountMax - S slcount) (length cs') (length done + S (length todo) + T)) as Hm.
      destruct Hcase as [(-> & Hb2 & _)|(-> & Hb2 & (todo' & Hne2 & Hres))].
      * apply (IH slm vol vol pi2 (S slcount) _ cs' [] cs' Hok' eq_refl Hb2). lia.
      * apply (IH slm vol parent pi2 (S slcount) _ cs' done todo' Hok' Hres Hb2).
        assert (length todo' <= length cs') by (rewrite Hres, app_length; lia). lia.
Qed.

(* from NewPathIterator, with the closed form of the bound *)
Corollary search_budget_top (h : heap) (v : view) (T : nat) (slm : slmode) (vol parent : nat) (cs : list str) (fuel : nat) :
  v_os v = Linux -> ptr_valid h -> tbound h T -> Forall comp_ok cs ->
  (slCountMax + 1) * (length cs + slCountMax * T + 1) <= fuel ->
  sr_err (search_loop fuel h v slm vol parent (pi_new Linux (abs_path cs)) 0 None) <> EFuel.
Proof.
  intros Hos Hpv Htb Hok Hf.
  apply (search_budget h v T Hos Hpv Htb fuel slm vol parent _ 0 None cs [] cs Hok eq_refl (pi_new_before cs)).
  pose proof (bud_closed T slCountMax (length cs)) as Hb. rewrite Nat.sub_0_r. unfold slCountMax in *. lia.
Qed.

(* the result does not depend on the fuel, beyond the budget *)
Corollary search_fuel_irrelevant (h : heap) (v : view) (T : nat) (slm : slmode) (vol parent : nat) (cs : list str) (f1 f2 : nat) :
  v_os v = Linux -> ptr_valid h -> tbound h T -> Forall comp_ok cs ->
  (slCountMax + 1) * (length cs + slCountMax * T + 1) <= f1 -> f1 <= f2 ->
  search_loop f2 h v slm vol parent (pi_new Linux (abs_path cs)) 0 None
  = search_loop f1 h v slm vol parent (pi_new Linux (abs_path cs)) 0 None.
Proof.
  intros Hos Hpv Htb Hok Hf Hle. replace f2 with ((f2 - f1) + f1) by lia.
  apply search_loop_mono; [reflexivity|]. apply (search_budget_top h v T); assumption.
Qed.

(* ---- the specification ------------------------------------------------------------------------ *)
Definition kbound (h : heap) (T : nat) : Prop :=
  forall i t m, get h i = Some (NSym t m) -> length (kcomps t) <= T.

Lemma kcomps_acc_le : forall (p cur : str), length (kcomps_acc cur p) <= length (comps_acc cur p).
Proof.
  induction p as [|c p IH]; intros cur; cbn [kcomps_acc comps_acc].
  - destruct cur; cbn [length]; lia.
  - destruct (N.eqb c SLASH); [|apply IH]. specialize (IH []). destruct cur; cbn [length]; lia.
Qed.

Lemma tbound_kbound (h : heap) (T : nat) : tbound h T -> kbound h T.
Proof.
  intros H i t m Hg. specialize (H i t m Hg). pose proof (kcomps_acc_le t []) as H2.
  unfold kcomps. unfold comps in H. lia.
Qed.

Ltac not_fuel :=
  let E := fresh "E" in
  intros E; try discriminate E; injection E as E; vm_compute in E; discriminate E.

Theorem kwalk_budget (h : heap) (u : user) (root : nat) (T : nat) :
  ptr_valid h -> kbound h T ->
  forall fuel pm follow cur (work : list str) cnt md,
    length work + 1 + (MAXSYMLINKS - cnt) * T <= fuel ->
    kwalk fuel h u root pm follow cur work cnt md <> WErr EFUEL.
Proof.
  intros Hpv Hkb. induction fuel as [|fuel IH]; intros pm follow cur work cnt md Hf; [nia|].
  rewrite kwalk_S. destruct work as [|c rest]; [destruct pm; discriminate|]. cbn [length] in Hf.
  remember ((MAXSYMLINKS - cnt) * T) as B eqn:EB.
  destruct (negb (node_is_dir h cur)); [not_fuel|]. destruct (negb (kperm h cur 1 u)); [not_fuel|]. cbv zeta.
  destruct (pm && is_nil rest); [discriminate|].
  destruct (str_eqb c DOTS).
  { destruct (is_nil rest); [discriminate|]. apply IH. rewrite <- EB. lia. }
  destruct (str_eqb c DOTDOTS).
  { destruct (is_nil rest); [discriminate|]. apply IH. rewrite <- EB. lia. }
  destruct (alookup str_eqb c (children h cur)) as [n|] eqn:Hl.
  2:{ destruct (is_nil rest); [discriminate|not_fuel]. }
  pose proof (ptr_valid_get h cur c n Hpv Hl) as Hgv.
  destruct (get h n) as [[ch m|dt k i m|t m]|] eqn:Hgn; [| | |congruence].
  - destruct (is_nil rest); [discriminate|]. apply IH. rewrite <- EB. lia.
  - destruct (is_nil rest); [destruct md; [not_fuel|discriminate]|not_fuel].
  - destruct (negb (is_nil rest) || follow || md); [|discriminate].
    destruct (Nat.leb MAXSYMLINKS cnt) eqn:Hc; [not_fuel|]. apply Nat.leb_gt in Hc.
    destruct (is_nil t); [not_fuel|]. apply IH. rewrite app_length.
    pose proof (Hkb n t m Hgn) as Ht.
    assert (EB' : (MAXSYMLINKS - S cnt) * T + T = B).
    { subst B. replace (MAXSYMLINKS - cnt) with (S (MAXSYMLINKS - S cnt)) by lia. cbn [Nat.mul]. apply Nat.add_comm. }
    remember ((MAXSYMLINKS - S cnt) * T) as B2. lia.
Qed.

(* ---- the bridge with the fuel hypotheses discharged by sizes ------------------------------------ *)
Theorem sym_bridge_lookup_sized (s : fsys) (sv : sview) (slm : slmode) (cs : list str) (T : nat) :
  let v := sv_view sv in
  let h := f_heap s in
  v_os v = Linux -> walk_wf h -> links_clean h -> ptr_valid h -> tbound h T ->
  node_is_dir h (v_root v) = true ->
  Forall good_comp cs ->
  (slCountMax + 1) * (length cs + slCountMax * T + 1) <= SEARCH_FUEL ->
  length cs + 1 + MAXSYMLINKS * T <= WALK_FUEL ->
  let K := klookup s sv false (follow_of slm) (abs_path cs) in
  let r := search_node s v (abs_path cs) slm in
  walk_rel h (v_user v) (v_root v) (precise_of slm) r K.
Proof.
  intros v h Hos Hwf Hlc Hpv Htb Hrd Hg Hf1 Hf2 K r. subst K r.
  assert (Hok : Forall comp_ok cs) by (apply Forall_comp_ok_of; exact Hg).
  apply sym_bridge_lookup; auto.
  - rewrite (klookup_abs_path s sv false (follow_of slm) cs Hg).
    apply (kwalk_budget (f_heap s) _ _ T Hpv (tbound_kbound _ _ Htb)). rewrite Nat.sub_0_r. exact Hf2.
  - rewrite (search_node_abs_path s (sv_view sv) cs slm Hos Hg).
    apply (search_budget_top (f_heap s) (sv_view sv) T); assumption.
Qed.
