(* The directory listing of the MemFS model: the bytewise string order, the insertion sort
   [sort_by] (sorted, a permutation, duplicate-free on duplicate-free keys), [dir_infos] and
   [read_dir]: exactly the entries of the directory, sorted by name, each once, with the mode
   bits (hence type bits) of the node behind the name. *)
From Coq Require Import Sorting.Sorted Sorting.Permutation.
From Avfs Require Import Base PathModel MemFS MemFile Walk WalkInst.
Set Implicit Arguments.

(* ---- str_ltb is a strict total order --------------------------------------------- *)
Lemma str_ltb_irrefl (a : str) : str_ltb a a = false.
Proof.
  induction a as [|x a IH]; [reflexivity|]. cbn [str_ltb].
  rewrite N.ltb_irrefl, N.eqb_refl. exact IH.
Qed.

Lemma str_ltb_trans : forall (a b c : str), str_ltb a b = true -> str_ltb b c = true -> str_ltb a c = true.
Proof.
  induction a as [|x a IH]; intros [|y b] [|z c] Hab Hbc; cbn [str_ltb] in *; try discriminate; try reflexivity.
  destruct (N.ltb x y) eqn:Hxy.
  - apply N.ltb_lt in Hxy. destruct (N.ltb y z) eqn:Hyz.
    + apply N.ltb_lt in Hyz. replace (N.ltb x z) with true; [reflexivity|]. symmetry. apply N.ltb_lt. lia.
    + destruct (N.eqb y z) eqn:Eyz; [|discriminate]. apply N.eqb_eq in Eyz. subst z.
      replace (N.ltb x y) with true; [reflexivity|]. symmetry. apply N.ltb_lt. lia.
  - destruct (N.eqb x y) eqn:Exy; [|discriminate]. apply N.eqb_eq in Exy. subst y.
    destruct (N.ltb x z) eqn:Hxz; [reflexivity|].
    destruct (N.eqb x z) eqn:Exz; [|discriminate]. eapply IH; eassumption.
Qed.

Lemma str_ltb_asym (a b : str) : str_ltb a b = true -> str_ltb b a = false.
Proof.
  intros H. destruct (str_ltb b a) eqn:H2; [|reflexivity].
  pose proof (str_ltb_trans _ _ _ H H2) as H3. rewrite str_ltb_irrefl in H3. discriminate.
Qed.

Lemma str_ltb_total : forall (a b : str), str_ltb a b = false -> str_ltb b a = false -> a = b.
Proof.
  induction a as [|x a IH]; intros [|y b] H1 H2; cbn [str_ltb] in *; try discriminate; try reflexivity.
  destruct (N.ltb x y) eqn:Hxy; [discriminate|]. destruct (N.ltb y x) eqn:Hyx; [discriminate|].
  apply N.ltb_ge in Hxy. apply N.ltb_ge in Hyx. assert (x = y) by lia. subst y.
  rewrite N.eqb_refl in *. f_equal. apply IH; assumption.
Qed.

(* ---- the insertion sort ------------------------------------------------------------ *)
Section Sort.
  Variable A : Type.
  Variable key : A -> str.

  Definition kle (a b : A) : Prop := str_ltb (key b) (key a) = false.
  Definition klt (a b : A) : Prop := str_ltb (key a) (key b) = true.

  Lemma kle_trans a b c : kle a b -> kle b c -> kle a c.
  Proof.
    unfold kle. intros H1 H2. destruct (str_ltb (key c) (key a)) eqn:H3; [|reflexivity].
    destruct (str_ltb (key b) (key c)) eqn:H4.
    - pose proof (str_ltb_trans _ _ _ H4 H3). congruence.
    - assert (key b = key c) by (apply str_ltb_total; assumption). congruence.
  Qed.

  Lemma insert_sorted_perm x l : Permutation (insert_sorted key x l) (x :: l).
  Proof.
    induction l as [|y l IH]; cbn [insert_sorted]; [apply Permutation_refl|].
    destruct (str_ltb (key y) (key x)); [|apply Permutation_refl].
    eapply perm_trans; [apply perm_skip, IH|apply perm_swap].
  Qed.

  Lemma sort_by_perm l : Permutation (sort_by key l) l.
  Proof.
    induction l as [|x l IH]; [apply perm_nil|]. unfold sort_by in *. cbn [fold_right].
    eapply perm_trans; [apply insert_sorted_perm|]. apply perm_skip, IH.
  Qed.

  Lemma insert_sorted_in x l z : In z (insert_sorted key x l) <-> z = x \/ In z l.
  Proof.
    split; intros H.
    - apply (Permutation_in _ (insert_sorted_perm x l)) in H. destruct H; auto.
    - apply (Permutation_in _ (Permutation_sym (insert_sorted_perm x l))). destruct H; [left|right]; auto.
  Qed.

  Lemma insert_sorted_sorted x l : StronglySorted kle l -> StronglySorted kle (insert_sorted key x l).
  Proof.
    induction 1 as [|y l Hs IH Hy]; cbn [insert_sorted].
    - constructor; constructor.
    - destruct (str_ltb (key y) (key x)) eqn:Hyx.
      + constructor; [exact IH|]. rewrite Forall_forall in *. intros z Hz.
        apply insert_sorted_in in Hz as [->|Hz]; [|auto].
        unfold kle. apply str_ltb_asym. exact Hyx.
      + constructor; [constructor; assumption|].
        constructor; [exact Hyx|]. rewrite Forall_forall in *. intros z Hz.
        apply (@kle_trans x y z); [exact Hyx|auto].
  Qed.

  Lemma sort_by_sorted l : StronglySorted kle (sort_by key l).
  Proof.
    induction l as [|x l IH]; [constructor|]. unfold sort_by in *. cbn [fold_right].
    apply insert_sorted_sorted, IH.
  Qed.

  Lemma sort_by_in l z : In z (sort_by key l) <-> In z l.
  Proof.
    split; apply Permutation_in; [|apply Permutation_sym]; apply sort_by_perm.
  Qed.

  Lemma sort_by_length l : length (sort_by key l) = length l.
  Proof. apply Permutation_length, sort_by_perm. Qed.

  (* duplicate-free keys: strictly increasing *)
  Lemma sorted_strict l : StronglySorted kle l -> NoDup (map key l) -> StronglySorted klt l.
  Proof.
    induction 1 as [|y l Hs IH Hy]; intros Hnd; [constructor|].
    cbn [map] in Hnd. inversion Hnd as [|? ? Hni Hnd']; subst.
    constructor; [apply IH, Hnd'|]. rewrite Forall_forall in *. intros z Hz.
    unfold klt. destruct (str_ltb (key y) (key z)) eqn:H1; [reflexivity|].
    exfalso. apply Hni. assert (key y = key z) by (apply str_ltb_total; [exact H1|apply Hy, Hz]).
    rewrite H. apply in_map, Hz.
  Qed.

  Lemma sort_by_strict l : NoDup (map key l) -> StronglySorted klt (sort_by key l).
  Proof.
    intros Hnd. apply sorted_strict; [apply sort_by_sorted|].
    eapply Permutation_NoDup; [|exact Hnd]. apply Permutation_map, Permutation_sym, sort_by_perm.
  Qed.

  (* sorting a sorted list changes nothing: the sort.Slice of vfs.ReadDir after MemFile.ReadDir *)
  Lemma insert_sorted_head x l : Forall (kle x) l -> insert_sorted key x l = x :: l.
  Proof.
    intros H. destruct l as [|y l]; [reflexivity|]. cbn [insert_sorted].
    inversion H as [|? ? Hy _]; subst. unfold kle in Hy. rewrite Hy. reflexivity.
  Qed.

  Lemma sort_by_sorted_id l : StronglySorted kle l -> sort_by key l = l.
  Proof.
    induction 1 as [|y l Hs IH Hy]; [reflexivity|]. unfold sort_by in *. cbn [fold_right]. rewrite IH.
    apply insert_sorted_head, Hy.
  Qed.

  Lemma sort_by_idem l : sort_by key (sort_by key l) = sort_by key l.
  Proof. apply sort_by_sorted_id, sort_by_sorted. Qed.
End Sort.


(* ---- sorting commutes with a key-preserving map; depends on the keys only -------------------- *)
Lemma insert_sorted_map (A B : Type) (key : B -> str) (f : A -> B) (x : A) (l : list A) :
  insert_sorted key (f x) (map f l) = map f (insert_sorted (fun a => key (f a)) x l).
Proof.
  induction l as [|y l IH]; [reflexivity|]. cbn [map insert_sorted].
  destruct (str_ltb (key (f y)) (key (f x))); [rewrite IH|]; reflexivity.
Qed.

Lemma sort_by_map (A B : Type) (key : B -> str) (f : A -> B) (l : list A) :
  sort_by key (map f l) = map f (sort_by (fun a => key (f a)) l).
Proof.
  induction l as [|x l IH]; [reflexivity|]. unfold sort_by in *. cbn [map fold_right].
  rewrite IH. apply insert_sorted_map.
Qed.

Lemma sort_by_ext (A : Type) (k1 k2 : A -> str) (l : list A) :
  (forall a, k1 a = k2 a) -> sort_by k1 l = sort_by k2 l.
Proof.
  intros E. unfold sort_by. induction l as [|x l IH]; [reflexivity|]. cbn [fold_right]. rewrite IH.
  generalize (fold_right (insert_sorted k2) [] l). intros l0.
  induction l0 as [|y l0 IH0]; [reflexivity|]. cbn [insert_sorted]. rewrite !E, IH0. reflexivity.
Qed.

(* the names of the listing of infos are the sorted names, when every entry points to a node *)
Lemma dir_infos_names h ch :
  (forall name c, In (name, c) ch -> get h c <> None) -> map (@fi_name) (dir_infos h ch) = dir_names ch.
Proof.
  intros Hall. unfold dir_infos, dir_names.
  rewrite <- (sort_by_map (fun x => x) (@fi_name)). f_equal.
  induction ch as [|[name c] ch IH]; [reflexivity|]. cbn [flat_map map fst]. rewrite map_app.
  destruct (get h c) as [nd|] eqn:Eg.
  - cbn [map app]. f_equal; [now destruct nd|]. apply IH. intros n' c' Hin. apply (Hall n' c'). now right.
  - exfalso. apply (Hall name c); [now left|exact Eg].
Qed.

(* a strictly sorted list is determined by its elements *)
Lemma sorted_perm_unique (A : Type) (key : A -> str) : forall l1 l2 : list A,
  StronglySorted (klt key) l1 -> StronglySorted (klt key) l2 -> Permutation l1 l2 -> l1 = l2.
Proof.
  induction l1 as [|x l1 IH]; intros l2 H1 H2 Hp.
  - apply Permutation_nil in Hp. congruence.
  - destruct l2 as [|y l2]; [apply Permutation_sym, Permutation_nil in Hp; discriminate|].
    inversion H1 as [|? ? Hs1 Hx]; subst. inversion H2 as [|? ? Hs2 Hy]; subst.
    rewrite Forall_forall in Hx, Hy.
    assert (Exy : x = y).
    { assert (Hin1 : In x (y :: l2)) by (eapply Permutation_in; [exact Hp|left; reflexivity]).
      assert (Hin2 : In y (x :: l1)) by (eapply Permutation_in; [apply Permutation_sym, Hp|left; reflexivity]).
      destruct Hin1 as [E|Hin1]; [congruence|]. destruct Hin2 as [E|Hin2]; [congruence|].
      exfalso. specialize (Hy x Hin1). specialize (Hx y Hin2). unfold klt in *.
      apply str_ltb_asym in Hx. congruence. }
    subst y. f_equal. apply IH; [assumption|assumption|]. eapply Permutation_cons_inv, Hp.
Qed.

(* sorting is insensitive to the order of the input when the keys are distinct *)
Lemma sort_by_perm_unique (A : Type) (key : A -> str) (l l' : list A) :
  Permutation l l' -> NoDup (map key l) -> sort_by key l = sort_by key l'.
Proof.
  intros Hp Hnd. apply (@sorted_perm_unique _ key).
  - apply sort_by_strict, Hnd.
  - apply sort_by_strict. eapply Permutation_NoDup; [apply Permutation_map, Hp|exact Hnd].
  - eapply perm_trans; [apply sort_by_perm|]. eapply perm_trans; [exact Hp|apply Permutation_sym, sort_by_perm].
Qed.

(* ---- vfs.go ReadDir over ANY listing order of the underlying file ---------------------------- *)
Theorem vfs_read_dir_spec (E : Type) (raw : str -> list dent * option E) (name : str) :
  let l := fst (raw name) in
  let r := vfs_read_dir raw name in
  snd r = snd (raw name)
  /\ StronglySorted (fun a b => str_ltb (de_name b) (de_name a) = false) (fst r)
  /\ Permutation (fst r) l
  /\ (NoDup (map (@de_name) l) -> StronglySorted (fun a b => str_ltb (de_name a) (de_name b) = true) (fst r)).
Proof.
  unfold vfs_read_dir. destruct (raw name) as [l e]. cbn [fst snd]. repeat split.
  - apply (sort_by_sorted (@de_name)).
  - apply sort_by_perm.
  - intros Hnd. apply (sort_by_strict (@de_name)), Hnd.
Qed.

(* two files that list the same entries (distinct names) in different orders give the same ReadDir *)
Theorem vfs_read_dir_any_order (E : Type) (raw raw' : str -> list dent * option E) (name : str) :
  Permutation (fst (raw name)) (fst (raw' name)) -> snd (raw name) = snd (raw' name) ->
  NoDup (map (@de_name) (fst (raw name))) ->
  vfs_read_dir raw name = vfs_read_dir raw' name.
Proof.
  unfold vfs_read_dir. destruct (raw name) as [l e], (raw' name) as [l' e']. cbn [fst snd]. intros Hp -> Hnd.
  f_equal. apply sort_by_perm_unique; assumption.
Qed.

(* ---- the listing of a directory node ------------------------------------------------ *)
(* every name of the directory leads to a node (no dangling pointer) *)
Definition entries_live (h : heap) (ch : list (str * nat)) : Prop :=
  forall n c, In (n, c) ch -> get h c <> None.

Definition entry_info (h : heap) (nc : str * nat) : finfo :=
  match get h (snd nc) with
  | Some nd => fill_stat nd (fst nc)
  | None => fill_stat (NSym [] {| m_mode := 0; m_uid := 0; m_gid := 0 |}) (fst nc)   (* not reached when live *)
  end.

Lemma fill_stat_name nd name : fi_name (fill_stat nd name) = name.
Proof. destruct nd; reflexivity. Qed.

Lemma fill_stat_mode nd name : fi_mode (fill_stat nd name) = m_mode (node_meta nd).
Proof. destruct nd; reflexivity. Qed.

Lemma dir_infos_map h ch : entries_live h ch ->
  dir_infos h ch = sort_by (@fi_name) (map (entry_info h) ch).
Proof.
  intros Hl. unfold dir_infos. f_equal.
  induction ch as [|[n c] ch IH]; [reflexivity|]. cbn [flat_map map].
  rewrite IH by (intros n' c' H; apply (Hl n' c'); right; exact H).
  unfold entry_info. cbn [fst snd]. specialize (Hl n c (or_introl eq_refl)).
  destruct (get h c); [reflexivity|congruence].
Qed.

Lemma entry_info_names h ch : map (@fi_name) (map (entry_info h) ch) = map fst ch.
Proof.
  rewrite map_map. apply map_ext. intros [n c]. unfold entry_info. cbn [fst snd].
  destruct (get h c); apply fill_stat_name.
Qed.

(* dir_infos: sorted by name, strictly (each name once) when the names are distinct, a
   permutation of the directory's entries, each carrying the node's mode bits *)
Theorem dir_infos_spec h ch :
  entries_live h ch -> NoDup (map fst ch) ->
  let l := dir_infos h ch in
  StronglySorted (fun a b => str_ltb (fi_name a) (fi_name b) = true) l
  /\ Permutation l (map (entry_info h) ch)
  /\ Permutation (map (@fi_name) l) (map fst ch)
  /\ (forall i, In i l <-> exists n c nd, In (n, c) ch /\ get h c = Some nd /\ i = fill_stat nd n).
Proof.
  intros Hl Hnd l. subst l. rewrite (dir_infos_map Hl). repeat split.
  - apply sort_by_strict. rewrite entry_info_names. exact Hnd.
  - apply sort_by_perm.
  - rewrite <- (entry_info_names h ch). apply Permutation_map, sort_by_perm.
  - intros Hi. apply sort_by_in, in_map_iff in Hi as ([n c] & <- & Hin).
    specialize (Hl n c Hin). unfold entry_info. cbn [fst snd].
    destruct (get h c) as [nd|] eqn:E; [|congruence]. exists n, c, nd. auto.
  - intros (n & c & nd & Hin & Hg & ->). apply sort_by_in, in_map_iff. exists (n, c). split; [|exact Hin].
    unfold entry_info. cbn [fst snd]. rewrite Hg. reflexivity.
Qed.

(* the handle OpenFile returns has not read its directory yet *)
Lemma open_file_fresh s v vi p flag perm s1 f :
  open_file s v vi p flag perm = (s1, Datatypes.inr f) -> hd_dir_infos f = None.
Proof.
  unfold open_file. intros H.
  repeat match type of H with
  | (if ?b then _ else _) = _ => destruct b
  | match ?x with _ => _ end = _ => destruct x eqn:?
  | (_, Datatypes.inl _) = (_, Datatypes.inr _) => discriminate
  | (_, Datatypes.inr _) = (_, Datatypes.inr _) => injection H as _ <-; reflexivity
  | (let '(_, _) := ?x in _) = _ => destruct x eqn:?
  end.
Qed.

(* ReadDir of the model: OpenFile(O_RDONLY) then MemFile.ReadDir(-1) *)
Theorem read_dir_spec s v p s1 f c ch m :
  p <> [] ->
  open_file s v 0 p 0 0 = (s1, Datatypes.inr f) ->
  hd_node f = Some c -> hd_name f = p ->
  get (f_heap s1) c = Some (NDir ch m) ->
  read_dir s v p = RInfos (dir_infos (f_heap s1) ch) None.
Proof.
  intros Hp Ho Hn Hnm Hg. unfold read_dir. rewrite Ho. unfold f_read_dir, dir_read.
  rewrite Hnm, Hn, Hg, (open_file_fresh _ _ _ _ _ _ Ho). destruct p; [congruence|].
  rewrite dir_batch_all by reflexivity. reflexivity.
Qed.

(* the handle OpenFile returns is named after the path it was given *)
Lemma open_file_name s v vi p flag perm s1 f :
  open_file s v vi p flag perm = (s1, Datatypes.inr f) -> hd_name f = p /\ exists c, hd_node f = Some c.
Proof.
  unfold open_file. intros H.
  repeat match type of H with
  | (if ?b then _ else _) = _ => destruct b
  | match ?x with _ => _ end = _ => destruct x eqn:?
  | (_, Datatypes.inl _) = (_, Datatypes.inr _) => discriminate
  | (_, Datatypes.inr _) = (_, Datatypes.inr _) => injection H as _ <-; cbn; eauto
  | (let '(_, _) := ?x in _) = _ => destruct x eqn:?
  end.
Qed.

(* vfs.ReadDir sorts what MemFile.ReadDir returns once more: the identity *)
Lemma dir_infos_resort h ch : sort_by (@fi_name) (dir_infos h ch) = dir_infos h ch.
Proof. unfold dir_infos. apply sort_by_idem. Qed.
