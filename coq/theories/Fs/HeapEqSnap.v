(* [heq] heaps have the same observable snapshot: World.snap lists the entries of a directory sorted by name, and
   sorting two permutations of a list with distinct names gives the same list. *)
From Coq Require Import Permutation Sorted RelationClasses.
From Avfs Require Import Base BaseProofs PathModel MemFS MemFile World Posix Inv InvConseq HeapEq.

Lemma str_ltb_trans : forall a b c, str_ltb a b = true -> str_ltb b c = true -> str_ltb a c = true.
Proof.
  induction a as [|x a IH]; intros [|y b] [|z c]; cbn [str_ltb]; auto; try discriminate.
  destruct (N.ltb_spec x y) as [Hxy|Hxy].
  - intros _. destruct (N.ltb_spec y z) as [Hyz|Hyz].
    + intros _. destruct (N.ltb_spec x z); [reflexivity|lia].
    + destruct (N.eqb_spec y z) as [->|]; [|discriminate]. intros _. destruct (N.ltb_spec x z); [reflexivity|lia].
  - destruct (N.eqb_spec x y) as [->|]; [|discriminate]. intros Hab.
    destruct (N.ltb_spec y z) as [Hyz|Hyz]; [reflexivity|].
    destruct (N.eqb_spec y z) as [->|]; [|discriminate]. apply IH. exact Hab.
Qed.

#[local] Instance slt_trans : Transitive slt.
Proof. intros a b c. apply str_ltb_trans. Qed.

(* two strictly sorted lists (by key) that are permutations of each other are equal *)
Lemma sorted_perm_eq (A : Type) (key : A -> str) : forall (a b : list A),
  StronglySorted slt (map key a) -> StronglySorted slt (map key b) -> Permutation a b -> a = b.
Proof.
  induction a as [|x a IH]; intros b Sa Sb P.
  - apply Permutation_nil in P. auto.
  - destruct b as [|y b]; [apply Permutation_sym, Permutation_nil in P; discriminate|].
    cbn [map] in Sa, Sb. apply StronglySorted_inv in Sa as (Sa' & Fa). apply StronglySorted_inv in Sb as (Sb' & Fb).
    assert (E : x = y).
    { assert (Hx : In x (y :: b)) by (eapply Permutation_in; [exact P|left; reflexivity]).
      assert (Hy : In y (x :: a)) by (eapply Permutation_in; [apply Permutation_sym; exact P|left; reflexivity]).
      destruct Hx as [->|Hx]; [reflexivity|]. destruct Hy as [->|Hy]; [reflexivity|]. exfalso.
      rewrite Forall_forall in Fa, Fb.
      pose proof (Fb (key x) (in_map key _ _ Hx)) as H1. pose proof (Fa (key y) (in_map key _ _ Hy)) as H2.
      unfold slt in *. apply str_ltb_asym in H1. congruence. }
    subst y. f_equal. apply IH; auto. eapply Permutation_cons_inv; exact P.
Qed.

Lemma sort_by_sorted (A : Type) (key : A -> str) (l : list A) :
  NoDup (map key l) -> StronglySorted slt (map key (sort_by key l)).
Proof. intros Hnd. rewrite sort_by_map. apply Sorted_StronglySorted; [exact slt_trans|]. apply sort_by_id_Sorted. exact Hnd. Qed.

Theorem sort_by_perm_eq (A : Type) (key : A -> str) (l l' : list A) :
  Permutation l l' -> NoDup (map key l) -> sort_by key l = sort_by key l'.
Proof.
  intros P Hnd. assert (Hnd' : NoDup (map key l')) by (eapply Permutation_NoDup; [apply Permutation_map; exact P|exact Hnd]).
  apply (sorted_perm_eq A key); [apply sort_by_sorted; exact Hnd|apply sort_by_sorted; exact Hnd'|].
  eapply Permutation_trans; [apply sort_by_perm|]. eapply Permutation_trans; [exact P|]. apply Permutation_sym, sort_by_perm.
Qed.

Theorem snap_heq (h h' : heap) (os : ostype) : heq h h' -> (forall d, NoDup (map fst (children h d))) ->
  forall fuel path i, snap fuel os h' path i = snap fuel os h path i.
Proof.
  intros H Hnd. induction fuel as [|fuel IH]; intros path i; [reflexivity|]. cbn [snap].
  pose proof (H i) as G. unfold onode_eq, node_eq in G.
  destruct (get h i) as [[ch m|d k id m|t m]|] eqn:E, (get h' i) as [[ch' m'|d' k' id' m'|t' m']|]; try contradiction; try discriminate G;
    try (injection G as <- <- <- <-); try (injection G as <- <-); try reflexivity.
  destruct G as (P & <-). f_equal.
  assert (Hn : NoDup (map fst ch)) by (specialize (Hnd i); unfold children in Hnd; rewrite E in Hnd; exact Hnd).
  rewrite <- (sort_by_perm_eq _ (fun x : str * nat => fst x) ch ch' P Hn).
  apply flat_map_ext_in. intros [name c] _. apply IH.
Qed.

Corollary snapshot_heq (w w' : world) (vi : nat) :
  heq (f_heap (w_fs w)) (f_heap (w_fs w')) -> w_views w = w_views w' ->
  (forall d, NoDup (map fst (children (f_heap (w_fs w)) d))) -> snapshot w' vi = snapshot w vi.
Proof.
  intros H Hv Hnd. unfold snapshot. rewrite <- Hv. destruct (nth_error (w_views w) vi); [|reflexivity].
  apply snap_heq; assumption.
Qed.
