(* C01: Rename of a DIRECTORY to a name that does not exist.  The implementation refuses to move a directory below
   itself by a test on STRINGS (the resolved old path followed by "/" is a prefix of the resolved new path), the
   kernel by a test on NODES (the moved directory is an ancestor of the new parent, going up through ".." at most
   |heap|+1 times).  On the states of C05 the two tests agree: the resolved paths are the unique directory walks to the
   nodes, and a walk is shorter than the heap. *)
From Coq Require Import Permutation.
From Avfs Require Import Base BaseProofs PathModel PathSpec PathProofs PathCleanProofs PathIterProofs.
From Avfs Require Import MemFS MemFile World Posix Inv InvPath InvConseq.
From Avfs Require Import WalkBridge WalkSym WalkBudget WalkReadlink WalkRel StepEq WalkInv WalkEval StepRename DacLemmas.

(* ---- strings ------------------------------------------------------------------------------------------------------------ *)
Lemma is_prefix_app_same (a b c : str) : is_prefix (a ++ b) (a ++ c) = is_prefix b c.
Proof. induction a as [|x a IH]; [reflexivity|]. cbn [app is_prefix]. rewrite N.eqb_refl. exact IH. Qed.

Lemma is_prefix_spec (a b : str) : is_prefix a b = true -> exists r, b = a ++ r.
Proof.
  revert b. induction a as [|x a IH]; intros b H; [exists b; reflexivity|].
  destruct b as [|y b]; [discriminate H|]. cbn [is_prefix] in H. apply andb_true_iff in H as (H1 & H2).
  apply N.eqb_eq in H1. subst y. destruct (IH b H2) as (r & ->). exists r. reflexivity.
Qed.

Lemma path_prefix_iff (P Q : list str) (c : str) :
  P <> [] -> Forall comp_ok P -> Forall comp_ok (Q ++ [c]) ->
  (is_prefix (abs_path P ++ [SLASH]) (abs_path (Q ++ [c])) = true <-> exists R, Q = P ++ R).
Proof.
  intros HP HokP HokQ. rewrite (@abs_path_rpath P HP), (@abs_path_rpath (Q ++ [c])) by (destruct Q; discriminate). split.
  - intros H. apply is_prefix_spec in H as (z & Hz). rewrite <- app_assoc in Hz. cbn [app] in Hz.
    assert (Hzne : z <> []).
    { intros ->. assert (E : ktrailing (rpath (Q ++ [c])) = true) by (rewrite Hz; apply (ktrailing_snoc (rpath P) SLASH)).
      rewrite <- (@abs_path_rpath (Q ++ [c])) in E by (destruct Q; discriminate).
      rewrite ktrailing_abs_path in E; [discriminate|exact HokQ|destruct Q; discriminate]. }
    destruct (@rpath_prefix_inv P (Q ++ [c]) z HokP HokQ Hzne Hz) as (todo' & Hne & E).
    destruct (rev_case _ todo') as [->|(R & c' & ->)]; [congruence|].
    rewrite app_assoc in E. apply app_inj_tail in E as (E & _). exists R. exact E.
  - intros (R & ->). rewrite <- app_assoc, rpath_app.
    rewrite is_prefix_app_same. destruct (R ++ [c]) eqn:E; [destruct R; discriminate|]. cbn [rpath is_prefix]. rewrite N.eqb_refl. reflexivity.
Qed.

(* ---- nodes -------------------------------------------------------------------------------------------------------------- *)
Lemma dwalk_chain (h : heap) (u : user) : forall (R : list str) (d e : nat),
  dwalk h u d R = Some e -> exists l, chain h (d :: l) /\ length l = length R.
Proof.
  induction R as [|n R IH]; intros d e H.
  - exists []. split; [exact I|reflexivity].
  - apply dwalk_cons_inv in H as (c & H1 & _ & _ & H4). destruct (IH c e H4) as (l & Hc & Hl).
    exists (c :: l). split; [|cbn [length]; lia]. split; [exists n; apply alookup_in; exact H1|exact Hc].
Qed.

Section Ancestor.
  Variables (h : heap) (u : user) (root : nat).
  Hypothesis I : Inv_heap h.
  Hypothesis Hrd : node_is_dir h root = true.
  Hypothesis Hrp : kperm h root 1 u = true.
  Let Hwf : walk_wf h := Inv_heap_walk_wf h I.

  Lemma dwalk_not_root (D : list str) (n : str) (d : nat) : dwalk h u root (D ++ [n]) = Some d -> d <> root.
  Proof. intros H ->. exact (ww_acyclic h Hwf root (dwalk_dreachp _ _ _ _ _ _ H)). Qed.

  (* going down from [oc] to [np] along R: going up from [np] reaches [oc] *)
  Lemma is_ancestor_of_dwalk : forall (R P : list str) (oc np : nat) (f : nat),
    dwalk h u root P = Some oc -> dwalk h u oc R = Some np -> length R < f ->
    is_ancestor f h root oc np = true.
  Proof.
    intros R. induction R as [|n R IH] using rev_ind; intros P oc np f HP HR Hf.
    - injection HR as <-. destruct f; [lia|]. cbn [is_ancestor]. rewrite Nat.eqb_refl. reflexivity.
    - destruct f as [|f]; [lia|]. cbn [is_ancestor]. destruct (Nat.eqb oc np); [reflexivity|].
      assert (Hfull : dwalk h u root ((P ++ R) ++ [n]) = Some np).
      { rewrite <- app_assoc, dwalk_app, HP. exact HR. }
      replace (Nat.eqb np root) with false by (symmetry; apply Nat.eqb_neq; exact (dwalk_not_root _ _ _ Hfull)).
      destruct (dwalk h u oc R) as [p|] eqn:Hp; [|rewrite dwalk_app, Hp in HR; discriminate].
      assert (HPR : dwalk h u root (P ++ R) = Some p) by (rewrite dwalk_app, HP; exact Hp).
      rewrite (parent_of_dwalk h u root Hwf (P ++ R) n p np HPR Hfull). cbv zeta.
      assert (Hpn : p <> np).
      { intros ->. apply (ww_acyclic h Hwf np). apply dwalk_snoc_inv in Hfull as (m & H1 & H2 & _).
        rewrite HPR in H1. injection H1 as <-. exists np, n. split; [constructor|apply alookup_in; exact H2]. }
      replace (Nat.eqb p np) with false by (symmetry; apply Nat.eqb_neq; exact Hpn).
      apply (IH P oc p f HP Hp). rewrite app_length in Hf. cbn [length] in Hf. lia.
  Qed.

  (* and conversely *)
  Lemma dwalk_of_is_ancestor : forall (f : nat) (P D : list str) (oc d : nat),
    node_is_dir h oc = true -> dwalk h u root P = Some oc -> dwalk h u root D = Some d -> node_is_dir h d = true ->
    is_ancestor f h root oc d = true -> exists R, D = P ++ R.
  Proof.
    induction f as [|f IH]; intros P D oc d Hoc HP HD Hd H; [discriminate H|]. cbn [is_ancestor] in H.
    destruct (Nat.eqb_spec oc d) as [->|Hne].
    - exists []. rewrite app_nil_r. exact (dwalk_unique h u root D P d I Hd HD HP).
    - destruct (Nat.eqb_spec d root) as [|Hdr]; [discriminate H|]. cbv zeta in H.
      destruct (rev_case _ D) as [->|(D' & n & ->)]; [injection HD as <-; congruence|].
      destruct (dwalk h u root D') as [p|] eqn:Hp; [|rewrite dwalk_app, Hp in HD; discriminate].
      rewrite (parent_of_dwalk h u root Hwf D' n p d Hp HD) in H.
      destruct (Nat.eqb p d); [discriminate H|].
      destruct (IH P D' oc p Hoc HP Hp (proj1 (dwalk_end_dir _ _ _ _ _ Hp Hrd Hrp)) H) as (R' & ->).
      exists (R' ++ [n]). rewrite app_assoc. reflexivity.
  Qed.

  Theorem ancestor_iff_prefix (P Q : list str) (oc np : nat) :
    node_is_dir h oc = true -> dwalk h u root P = Some oc -> dwalk h u root Q = Some np ->
    (is_ancestor (S (length h)) h root oc np = true <-> exists R, Q = P ++ R).
  Proof.
    intros Hoc HP HQ. split.
    - apply (dwalk_of_is_ancestor _ P Q oc np Hoc HP HQ). exact (proj1 (dwalk_end_dir _ _ _ _ _ HQ Hrd Hrp)).
    - intros (R & ->). rewrite dwalk_app, HP in HQ. apply (is_ancestor_of_dwalk R P oc np _ HP HQ).
      destruct (dwalk_chain h u R oc np HQ) as (l & Hc & Hl). pose proof (chain_short h oc l I Hc) as Hs.
      cbn [length] in Hs. lia.
  Qed.
End Ancestor.

Definition source_is_dir (s : fsys) (sv : sview) (cs : list str) : Prop :=
  forall par kind name n, klookup s sv false false (abs_path cs) = WNode par kind name n ->
                          node_is_dir (f_heap s) n = true.

Lemma bool_iff_eq (a b : bool) : (a = true <-> b = true) -> a = b.
Proof. destruct a, b; intros [H1 H2]; try reflexivity; [symmetry; apply H1; reflexivity|apply H2; reflexivity]. Qed.

Theorem step_rename_dir_new (s : fsys) (sv : sview) (wo : list str) (clo : str) (wn : list str) (cln : str) (np : nat) (md : bool) :
  step_hyps s sv -> Inv_heap (f_heap s) -> path_ok s sv SlLstat (wo ++ [clo]) -> path_ok s sv SlLstat (wn ++ [cln]) ->
  source_is_dir s sv (wo ++ [clo]) ->
  klookup s sv false false (abs_path (wn ++ [cln])) = WNeg np cln md ->
  let o := abs_path (wo ++ [clo]) in
  let n := abs_path (wn ++ [cln]) in
  (fst (rename s (sv_view sv) o n), proj_res Linux (snd (rename s (sv_view sv) o n))) = go_rename s sv o n.
Proof.
  intros H I Hpo Hpn Hsd HKn o n.
  pose proof (resolve s sv SlLstat (wo ++ [clo]) H Hpo) as Ro. pose proof (resolve s sv SlLstat (wn ++ [cln]) H Hpn) as Rn.
  destruct Hpo as (Hgo & Hko & Hnfo). destruct Hpn as (Hgn & Hkn & Hnfn).
  change (follow_of SlLstat) with false in Ro, Rn, Hko, Hkn. change (precise_of SlLstat) with true in Ro, Rn.
  destruct (klookup_pm s sv false wo clo Hgo Hko) as (Hono & Hong & Hpmo).
  destruct (klookup_pm s sv false wn cln Hgn Hkn) as (_ & _ & Hpmn).
  pose proof (klookup_final s sv false (wo ++ [clo]) Hgo) as Fo.
  pose proof (klookup_final s sv false (wn ++ [cln]) Hgn) as Fn.
  rewrite HKn in Rn, Hpmn, Fn. cbn [walk_rel] in Rn. destruct Fn as (Fn1 & Fn2 & _).
  destruct Rn as (N1 & N2 & N3 & N4). destruct (at_name_views _ _ _ _ _ _ (N4 eq_refl)) as (NV1 & NV2 & dn & NP & NW & NG).
  unfold o, n, rename, go_rename, k_rename. unfold k_stat at 1. rewrite HKn, Hpmo, Hpmn. cbv beta iota zeta.
  remember (search_node s (sv_view sv) (abs_path (wo ++ [clo])) SlLstat) as ro eqn:Ero in *.
  remember (search_node s (sv_view sv) (abs_path (wn ++ [cln])) SlLstat) as rn eqn:Ern in *. clear Ero Ern.
  unfold source_is_dir in Hsd.
  destruct (klookup s sv false false (abs_path (wo ++ [clo]))) as [op okind oname oc|op oname omd|a b c d|e] eqn:HKo;
    cbn [walk_rel] in Ro.
  - destruct (Hono _ _ _ _ eq_refl) as (-> & ->). destruct Fo as (Fo1 & Fo2 & _).
    destruct Ro as (O1 & O2 & O3 & _ & _ & O4). destruct (O4 eq_refl) as (O5 & O6).
    destruct (at_name_views _ _ _ _ _ _ (O6 eq_refl)) as (OV1 & _ & do & OP & OW & OG).
    specialize (Hsd _ _ _ _ eq_refl).
    assert (Hvo : get (f_heap s) op <> None) by (apply node_is_dir_valid; exact Fo2).
    assert (Hvn : get (f_heap s) np <> None) by (apply node_is_dir_valid; exact Fn2).
    assert (Hvc : get (f_heap s) oc <> None) by (apply node_is_dir_valid; exact Hsd).
    pose proof (sh_root _ _ H) as Hrd.
    assert (Hrp : kperm (f_heap s) (v_root (sv_view sv)) 1 (v_user (sv_view sv)) = true)
      by (apply (admin_kperm s sv _ 1 H); apply node_is_dir_valid; exact Hrd).
    rewrite O1, N1, NV2, O5, O2, N3, OV1, NV1, N2. cbn [is_file_exists is_not_exist negb andb orb].
    rewrite !(admin_perm_on s sv _ _ H) by assumption. rewrite !(sticky_admin _ _ _ _ (sh_admin _ _ H)).
    cbn [negb andb]. rewrite !andb_false_r.
    rewrite Fo1, Fn1, Hsd. cbn [negb andb].
    (* the two tests *)
    assert (Hwoc : dwalk (f_heap s) (v_user (sv_view sv)) (v_root (sv_view sv)) (do ++ [clo]) = Some oc)
      by (apply (dwalk_snoc _ _ _ _ _ _ _ OW Fo1 Hsd); apply (admin_kperm s sv oc 1 H Hvc)).
    assert (Hocop : Nat.eqb oc op = false).
    { apply Nat.eqb_neq. intros ->. apply (ww_acyclic _ (sh_wf _ _ H) op). exists op, clo. split; [constructor|].
      apply alookup_in. exact Fo1. }
    assert (Htest : is_prefix (pi_path (sr_pi ro) ++ [sepc (v_os (sv_view sv))]) (pi_path (sr_pi rn))
                    = is_ancestor (S (length (f_heap s))) (f_heap s) (v_root (sv_view sv)) oc np).
    { rewrite OP, NP, (sh_os _ _ H). change (sepc Linux) with SLASH. apply bool_iff_eq.
      rewrite (path_prefix_iff (do ++ [clo]) dn cln) by
        (try (destruct do; discriminate); apply Forall_comp_ok_of; assumption).
      symmetry. apply (ancestor_iff_prefix (f_heap s) _ _ I Hrd Hrp (do ++ [clo]) dn oc np Hsd Hwoc NW). }
    destruct (node_is_dir_get _ _ Hsd) as (chd & mdd & Hgoc). rewrite Hgoc.
    rewrite Hocop, Htest. cbn [orb].
    destruct (is_ancestor (S (length (f_heap s))) (f_heap s) (v_root (sv_view sv)) oc np) eqn:Ea;
      [rewrite orb_true_r; reflexivity|].
    assert (Hocnp : Nat.eqb oc np = false).
    { destruct (Nat.eqb_spec oc np) as [<-|]; [|reflexivity]. cbn [is_ancestor] in Ea. rewrite Nat.eqb_refl in Ea. discriminate Ea. }
    rewrite Hocnp. cbn [orb].
    rewrite !(admin_may_delete s sv _ _ _ H) by assumption. rewrite Hsd.
    rewrite (admin_kperm s sv np 3 H) by assumption. rewrite (admin_kperm s sv oc 2 H) by assumption.
    rewrite (sh_admin _ _ H). cbn [negb andb]. rewrite !andb_false_r. cbn [andb].
    destruct (node_is_dir_get _ _ Fo2) as (cho & mo & Hgo'). destruct (node_is_dir_get _ _ Fn2) as (chn & mn & Hgn').
    rewrite (move_commute _ _ _ _ _ _ cho mo chn mn Hgo' Hgn') by (intros -> ->; congruence). reflexivity.
  - pose proof (Hong _ _ _ eq_refl) as ->. destruct Fo as (Fo1 & _). destruct Ro as (O1 & _). rewrite O1, Fo1. reflexivity.
  - destruct Ro.
  - destruct Ro as (O1 & _). destruct (werr_cases _ _ O1 Hnfo) as (Hc & ->).
    destruct Hc as [Hc|[Hc|[Hc|Hc]]]; rewrite Hc; reflexivity.
Qed.
