(* C11, the calls: every namespace call of MemFS is a function of the result of
   searchNode (parent, child, error, Part, IsLast, Path / LeftPart of the iterator),
   of the shared node graph and of the view's user / umask / OS type.  With
   [search_prefix] this gives, call by call:

      c(view rooted at nd, "/p1/.../pn")  =  c(parent view, "/d1/.../dk/p1/.../pn")

   same result (the paths a result contains differ by the prefix: [res_corr]) and
   same resulting node graph - for all 22 namespace calls, Rename and Link with
   both paths prefixed.  Hypotheses: the two views agree on user, umask, OS type
   (POSIX) and idm flag; d1..dk lead from the parent's root to nd through
   directories the user may search; n > 0; no symbolic link is met on p1..pn; the
   path has fewer components than the walk's fuel. *)
From Avfs Require Import Base PathModel PathSpec PathProofs PathCleanProofs PathIterProofs MemFS MemFile World SubProofs.

Record view_agree (vp vv : view) : Prop := {
  va_osp : v_os vp = Linux; va_osv : v_os vv = Linux; va_user : v_user vv = v_user vp;
  va_umask : v_umask vv = v_umask vp; va_idm : v_idm vv = v_idm vp }.

(* results that contain a path differ by the prefix *)
Inductive res_corr (ds : list str) : res -> res -> Prop :=
| rc_eq r : res_corr ds r r
| rc_errpath e done : res_corr ds (RErrPath e (rpath (ds ++ done))) (RErrPath e (rpath done))
| rc_str ps : res_corr ds (RStr (abs_path (ds ++ ps))) (RStr (abs_path ps)).

Inductive sum_rel {A B : Type} (R : B -> B -> Prop) : A + B -> A + B -> Prop :=
| sum_l a : sum_rel R (inl a) (inl a)
| sum_r b1 b2 : R b1 b2 -> sum_rel R (inr b1) (inr b2).

Ltac break_match :=
  match goal with
  | |- context [match ?x with _ => _ end] => destruct x eqn:?
  | |- context [let '(_, _) := ?x in _] => destruct x eqn:?
  end.

(* ---- Base of a clean absolute path is its last component ---------------------------- *)
Lemma strip_trailing_none (x : N) (l : str) : is_sep Linux x = false -> strip_trailing_seps Linux (x :: l) = x :: l.
Proof. intros H. cbn [strip_trailing_seps]. rewrite H. reflexivity. Qed.

Lemma last_sep_cut_comp (pre c : str) : forall k,
  (forall x, In x c -> x <> SLASH) -> k <= length c ->
  last_sep_cut Linux (pre ++ SLASH :: c) 0 (S (length pre) + k) = S (length pre).
Proof.
  induction k as [|k IH]; intros Hc Hk.
  - rewrite Nat.add_0_r. cbn [last_sep_cut Nat.leb andb]. unfold nthb. rewrite app_nth2, Nat.sub_diag by lia.
    cbn [nth is_sep]. rewrite N.eqb_refl. reflexivity.
  - replace (S (length pre) + S k) with (S (S (length pre) + k)) by lia. cbn [last_sep_cut Nat.leb andb].
    unfold nthb. rewrite app_nth2 by lia. replace (S (length pre) + k - length pre) with (S k) by lia.
    cbn [nth]. assert (Hin : In (nth k c 0%N) c) by (apply nth_In; lia).
    apply Hc in Hin. cbn [is_sep]. destruct (N.eqb_spec (nth k c 0%N) SLASH) as [E|_]; [congruence|].
    cbn [negb]. apply IH; [exact Hc|lia].
Qed.

Lemma base_snoc (pre c : str) : comp_ok c -> base Linux (pre ++ SLASH :: c) = c.
Proof.
  intros (Hne & Hc). unfold base. destruct (pre ++ SLASH :: c) as [|y l] eqn:E; [destruct pre; discriminate|].
  rewrite <- E. clear y l E.
  assert (Hrev : exists x l, rev (pre ++ SLASH :: c) = x :: l /\ is_sep Linux x = false).
  { rewrite rev_app_distr. cbn [rev]. destruct (rev c) as [|x l] eqn:Er.
    - apply (f_equal (@rev N)) in Er. rewrite rev_involutive in Er. cbn in Er. congruence.
    - exists x, (l ++ [SLASH] ++ rev pre). split; [rewrite <- !app_assoc; reflexivity|].
      cbn [is_sep]. apply N.eqb_neq. apply Hc. apply in_rev. rewrite Er. left. reflexivity. }
  destruct Hrev as (x & l & Er & Hx). rewrite Er, (strip_trailing_none x l Hx), <- Er, rev_involutive.
  change (volume_name Linux (pre ++ SLASH :: c)) with (@nil N). cbn [length skipn].
  replace (length (pre ++ SLASH :: c)) with (S (length pre) + length c) by (rewrite app_length; cbn [length]; lia).
  rewrite last_sep_cut_comp by (auto; lia).
  replace (S (length pre)) with (length (pre ++ [SLASH])) by (rewrite app_length; cbn [length]; lia).
  replace (pre ++ SLASH :: c) with ((pre ++ [SLASH]) ++ c) by (rewrite <- app_assoc; reflexivity).
  rewrite skipn_app_at. destruct c; [congruence|reflexivity].
Qed.

Lemma abs_path_snoc (cs : list str) (c : str) : abs_path (cs ++ [c]) = rpath cs ++ SLASH :: c.
Proof.
  rewrite abs_path_rpath by (destruct cs; discriminate). rewrite rpath_app. cbn [rpath]. rewrite app_nil_r. reflexivity.
Qed.

Lemma base_abs_path (cs : list str) (c : str) : comp_ok c -> base Linux (abs_path (cs ++ [c])) = c.
Proof. intros Hc. rewrite abs_path_snoc. apply base_snoc. exact Hc. Qed.

Lemma base_prefix (ds ps : list str) : Forall good_comp ps -> ps <> [] ->
  base Linux (abs_path (ds ++ ps)) = base Linux (abs_path ps).
Proof.
  intros Hg Hne. destruct (exists_last Hne) as (ps' & c & ->).
  apply Forall_app in Hg as (_ & Hc). inversion Hc as [|? ? Hc1 _]; subst. apply good_comp_ok in Hc1.
  rewrite app_assoc, !base_abs_path by exact Hc1. reflexivity.
Qed.

(* ---- paths that differ by the prefix -------------------------------------------------- *)
Lemma abs_path_prefix (ds ps : list str) : ps <> [] -> abs_path (ds ++ ps) = rpath ds ++ abs_path ps.
Proof.
  intros Hne. rewrite (@abs_path_rpath (ds ++ ps)) by (destruct ds; [exact Hne|discriminate]).
  rewrite (@abs_path_rpath ps) by exact Hne. apply rpath_app.
Qed.

Lemma str_eqb_app_l (a b c : str) : str_eqb (a ++ b) (a ++ c) = str_eqb b c.
Proof. induction a as [|x a IH]; [reflexivity|]. cbn [app str_eqb]. rewrite N.eqb_refl, IH. reflexivity. Qed.

Lemma is_prefix_app_l (a b c : str) : is_prefix (a ++ b) (a ++ c) = is_prefix b c.
Proof. induction a as [|x a IH]; [reflexivity|]. cbn [app is_prefix]. rewrite N.eqb_refl, IH. reflexivity. Qed.

Section Calls.
  Variable s : fsys.
  Variables vp vv : view.
  Variable ds : list str.
  Hypothesis Hag : view_agree vp vv.
  Hypothesis Hds : Forall good_comp ds.
  Hypothesis Hchain : dir_chain (f_heap s) (v_user vp) (v_root vp) ds (v_root vv).
  Hypothesis Hroot : perm_on (f_heap s) (v_root vp) OpenLookup (v_user vp) = true.

  Definition okpath (ps : list str) : Prop :=
    Forall good_comp ps /\ ps <> [] /\ symfree_walk (f_heap s) (v_root vv) ps
    /\ length ds + length ps < SEARCH_FUEL.

  Lemma search_corr slm ps : okpath ps ->
    sr_corr ds ps (search_node s vp (abs_path (ds ++ ps)) slm) (search_node s vv (abs_path ps) slm).
  Proof.
    intros (Hg & Hne & Hsf & Hlen). destruct Hag. apply search_prefix; auto.
  Qed.

  Ltac corr H slm ps :=
    let Hp := fresh "Hpar" in let Hc := fresh "Hchi" in let He := fresh "Herr" in let Hpi := fresh "Hpi" in
    let Hpart := fresh "Hpart" in let Hlast := fresh "Hlast" in let Hpp := fresh "Hpathp" in let Hpv := fresh "Hpathv" in
    let Hlp := fresh "Hleft" in let rp := fresh "rp" in let rv := fresh "rv" in
    destruct (search_corr slm _ H) as (Hp & Hc & He & Hpi);
    destruct (pi_corr_facts _ _ _ _ Hpi) as (Hpart & Hlast & Hpp & Hpv & Hlp);
    set (rp := search_node s vp (abs_path (ds ++ ps)) slm) in *; set (rv := search_node s vv (abs_path ps) slm) in *;
    rewrite ?Hp, ?Hc, ?He, ?Hlast, ?Hpart.

  Ltac start H slm ps :=
    corr H slm ps; unfold abs_path;
    pose proof (va_osp _ _ Hag) as Hosp; pose proof (va_osv _ _ Hag) as Hosv; pose proof (va_user _ _ Hag) as Hu;
    pose proof (va_umask _ _ Hag) as Hum; pose proof (va_idm _ _ Hag) as Hidm.

  Ltac views :=
    unfold create_dir, create_file, create_symlink, new_dir_meta, new_meta, new_gid, win;
    rewrite ?(va_osp _ _ Hag), ?(va_osv _ _ Hag), ?(va_user _ _ Hag), ?(va_umask _ _ Hag), ?(va_idm _ _ Hag).

  Theorem mkdir_prefix ps perm : okpath ps ->
    mkdir s vp (abs_path (ds ++ ps)) perm = mkdir s vv (abs_path ps) perm.
  Proof. intros H. unfold mkdir. start H SlLstat ps. views. reflexivity. Qed.

  (* the creation loop of MkdirAll continues from corresponding cursors *)
  Lemma mkdir_all_loop_corr ps perm : Forall comp_ok ps -> forall todo done c fuel s0 dn,
    ps = done ++ c :: todo ->
    mkdir_all_loop fuel s0 vp dn (on_comp (ds ++ ps) (ds ++ done) c) perm
    = mkdir_all_loop fuel s0 vv dn (on_comp ps done c) perm.
  Proof.
    intros Hps. destruct Hag as [Hosp Hosv Hu Hum Hidm].
    assert (Hcs : Forall comp_ok (ds ++ ps)) by (apply Forall_app; split; [apply Forall_comp_ok_of; exact Hds|exact Hps]).
    induction todo as [|c2 todo IH]; intros done c fuel s0 dn Hsplit;
      (assert (Hsplitp : ds ++ ps = (ds ++ done) ++ c :: _) by (rewrite Hsplit, app_assoc; reflexivity));
      (destruct fuel as [|fuel]; [reflexivity|]); cbn [mkdir_all_loop];
      rewrite (on_comp_part _ _ _ _ Hsplitp), (on_comp_part _ _ _ _ Hsplit);
      (destruct (alookup str_eqb c (children (f_heap s0) dn)); [reflexivity|]);
      unfold create_dir, new_dir_meta, new_meta, new_gid; rewrite Hosp, Hosv, Hu, Hum.
    - rewrite (@pi_next_step _ (ds ++ done ++ [c]) [] _ Hcs), (@pi_next_step _ (done ++ [c]) [] _ Hps).
      + reflexivity.
      + rewrite Hsplit, <- app_assoc, app_nil_r. reflexivity.
      + apply on_comp_before.
      + rewrite Hsplit, <- !app_assoc, app_nil_r. reflexivity.
      + rewrite app_assoc. apply on_comp_before.
    - rewrite (@pi_next_step _ (ds ++ done ++ [c]) (c2 :: todo) _ Hcs), (@pi_next_step _ (done ++ [c]) (c2 :: todo) _ Hps).
      + apply IH. rewrite Hsplit, <- app_assoc. reflexivity.
      + rewrite Hsplit, <- app_assoc. reflexivity.
      + apply on_comp_before.
      + rewrite Hsplit, <- !app_assoc. reflexivity.
      + rewrite app_assoc. apply on_comp_before.
  Qed.

  Theorem mkdir_all_prefix ps perm : okpath ps ->
    fst (mkdir_all s vp (abs_path (ds ++ ps)) perm) = fst (mkdir_all s vv (abs_path ps) perm)
    /\ res_corr ds (snd (mkdir_all s vp (abs_path (ds ++ ps)) perm)) (snd (mkdir_all s vv (abs_path ps) perm)).
  Proof.
    intros H. pose proof H as (Hg & _). unfold mkdir_all. start H SlEval ps.
    destruct Hleft as (done & Hl1 & Hl2). rewrite Hl1, Hl2, Hpathp, Hpathv.
    destruct Hpi as (done' & c & todo & Hsplit & Ep & Ev). rewrite Ep, Ev.
    assert (Hlen : forall k, mkdir_all_loop (S (length (abs_path (ds ++ ps)))) s vv k (on_comp ps done' c) perm
                             = mkdir_all_loop (S (length (abs_path ps))) s vv k (on_comp ps done' c) perm).
    { (* both fuels exceed the number of remaining components *)
      intros k. assert (Hcs : Forall comp_ok ps) by (apply Forall_comp_ok_of; exact Hg).
      assert (G : forall todo1 done1 c1 f1 f2 s0 dn, ps = done1 ++ c1 :: todo1 -> length todo1 < f1 -> length todo1 < f2 ->
                  mkdir_all_loop f1 s0 vv dn (on_comp ps done1 c1) perm = mkdir_all_loop f2 s0 vv dn (on_comp ps done1 c1) perm).
      { induction todo1 as [|c2 todo0 IH]; intros done0 c0 f1 f2 s0 dn Hsp Hf1 Hf2;
          (destruct f1 as [|f1]; [cbn in Hf1; lia|]); (destruct f2 as [|f2]; [cbn in Hf2; lia|]);
          cbn [mkdir_all_loop]; (destruct (alookup str_eqb _ _); [reflexivity|]);
          destruct (create_dir s0 vv dn (pi_part (on_comp ps done0 c0)) perm) as [s1 c1]; rewrite Hosv.
        - rewrite (@pi_next_step _ (done0 ++ [c0]) [] _ Hcs); [reflexivity| |apply on_comp_before].
          rewrite Hsp, <- app_assoc, app_nil_r. reflexivity.
        - rewrite (@pi_next_step _ (done0 ++ [c0]) (c2 :: todo0) _ Hcs); [| |apply on_comp_before].
          + apply IH; [rewrite Hsp, <- app_assoc; reflexivity| |]; cbn [length] in *; lia.
          + rewrite Hsp, <- app_assoc. reflexivity. }
      assert (Hl : forall cs : list str, Forall comp_ok cs -> length cs <= length (abs_path cs)).
      { intros cs Hc. destruct cs as [|x cs]; [cbn; lia|]. rewrite abs_path_rpath by discriminate.
        apply rpath_length_ge. exact Hc. }
      apply (G todo done' c); [exact Hsplit| |].
      - assert (length (ds ++ ps) <= length (abs_path (ds ++ ps))).
        { apply Hl. apply Forall_app. split; [apply Forall_comp_ok_of; exact Hds|exact Hcs]. }
        rewrite Hsplit in H0 at 1. rewrite !app_length in H0. cbn [length] in H0. lia.
      - pose proof (Hl ps Hcs) as H0. rewrite Hsplit in H0 at 1. rewrite !app_length in H0. cbn [length] in H0. lia. }
    assert (Hloop : forall k, mkdir_all_loop (S (length (abs_path (ds ++ ps)))) s vp k (on_comp (ds ++ ps) (ds ++ done') c) perm
                              = mkdir_all_loop (S (length (abs_path ps))) s vv k (on_comp ps done' c) perm).
    { intros k. rewrite (mkdir_all_loop_corr ps perm (Forall_comp_ok_of Hg) todo done' c _ s k Hsplit). apply Hlen. }
    rewrite Hu.
    repeat break_match; cbn [fst snd]; rewrite ?Hloop; split; try reflexivity; try apply rc_eq; apply rc_errpath.
  Qed.

  (* OpenFile: same node graph, same error, or handles on the same node that differ
     only in the name they were opened under and in the view they belong to *)
  Inductive open_rel (vip viv : nat) (ps : list str) : res + handle -> res + handle -> Prop :=
  | or_err r : open_rel vip viv ps (inl r) (inl r)
  | or_handle c at_ om : open_rel vip viv ps (inr (new_handle c vip (abs_path (ds ++ ps)) at_ om))
                                             (inr (new_handle c viv (abs_path ps) at_ om)).

  Definition open_corr (vip viv : nat) (ps : list str) (a b : fsys * (res + handle)) : Prop :=
    fst a = fst b /\ open_rel vip viv ps (snd a) (snd b).

  Theorem open_file_prefix ps vip viv flag perm : okpath ps ->
    open_corr vip viv ps (open_file s vp vip (abs_path (ds ++ ps)) flag perm)
                         (open_file s vv viv (abs_path ps) flag perm).
  Proof.
    intros H. unfold open_file, open_corr.
    destruct (has (to_open_mode flag) OpenCreateExcl) eqn:Hx;
      [start H SlLstat ps|start H SlEval ps]; views;
      repeat break_match; cbn [fst snd]; (split; [reflexivity|]); constructor.
  Qed.

  Theorem remove_prefix ps : okpath ps ->
    remove s vp (abs_path (ds ++ ps)) = remove s vv (abs_path ps).
  Proof. intros H. unfold remove. start H SlLstat ps. views. reflexivity. Qed.

  Theorem remove_all_prefix ps : okpath ps ->
    remove_all s vp (abs_path (ds ++ ps)) = remove_all s vv (abs_path ps).
  Proof. intros H. unfold remove_all. start H SlLstat ps. views. reflexivity. Qed.

  Theorem readlink_prefix ps : okpath ps ->
    readlink s vp (abs_path (ds ++ ps)) = readlink s vv (abs_path ps).
  Proof. intros H. unfold readlink. start H SlLstat ps. views. reflexivity. Qed.

  Theorem truncate_prefix ps size : okpath ps ->
    truncate s vp (abs_path (ds ++ ps)) size = truncate s vv (abs_path ps) size.
  Proof. intros H. unfold truncate. start H SlEval ps. views. reflexivity. Qed.

  Theorem chmod_prefix ps mode : okpath ps ->
    chmod s vp (abs_path (ds ++ ps)) mode = chmod s vv (abs_path ps) mode.
  Proof. intros H. unfold chmod. start H SlEval ps. views. reflexivity. Qed.

  Theorem chown_prefix slm ps uid gid : okpath ps ->
    chown_gen slm s vp (abs_path (ds ++ ps)) uid gid = chown_gen slm s vv (abs_path ps) uid gid.
  Proof. intros H. unfold chown_gen. start H slm ps. views. reflexivity. Qed.

  Theorem chtimes_prefix ps : okpath ps ->
    chtimes s vp (abs_path (ds ++ ps)) = chtimes s vv (abs_path ps).
  Proof. intros H. unfold chtimes. start H SlEval ps. views. reflexivity. Qed.

  Theorem symlink_prefix target ps : okpath ps ->
    symlink s vp target (abs_path (ds ++ ps)) = symlink s vv target (abs_path ps).
  Proof. intros H. unfold symlink. start H SlLstat ps. views. reflexivity. Qed.

  Theorem stat_prefix slm ps : okpath ps ->
    stat_gen slm s vp (abs_path (ds ++ ps)) = stat_gen slm s vv (abs_path ps).
  Proof.
    intros H. pose proof H as (Hg & Hne & _). unfold stat_gen.
    rewrite (va_osp _ _ Hag), (va_osv _ _ Hag), (base_prefix ds ps Hg Hne). set (b := base Linux _).
    start H slm ps. reflexivity.
  Qed.

  Theorem eval_symlinks_prefix ps : okpath ps ->
    res_corr ds (eval_symlinks s vp (abs_path (ds ++ ps))) (eval_symlinks s vv (abs_path ps)).
  Proof.
    intros H. unfold eval_symlinks. start H SlEval ps.
    destruct Hleft as (done & Hl1 & Hl2). rewrite Hl1, Hl2, Hpathp, Hpathv.
    destruct (is_file_exists (sr_err rv)); cbn [negb]; constructor.
  Qed.

  Theorem chdir_prefix ps : okpath ps ->
    sum_rel (fun a b => a = abs_path (ds ++ ps) /\ b = abs_path ps)
            (chdir s vp (abs_path (ds ++ ps))) (chdir s vv (abs_path ps)).
  Proof.
    intros H. unfold chdir. start H SlEval ps. views. rewrite Hpathp, Hpathv.
    repeat break_match; constructor; auto.
  Qed.

  Theorem sub_prefix ps : okpath ps ->
    sum_rel (fun a b => v_root a = v_root b /\ view_agree a b /\ v_cwd a = v_cwd vp /\ v_cwd b = v_cwd vv)
            (sub s vp (abs_path (ds ++ ps))) (sub s vv (abs_path ps)).
  Proof.
    intros H. unfold sub. start H SlEval ps.
    repeat break_match; constructor; cbn; repeat split; auto.
  Qed.

  Theorem link_prefix po pn : okpath po -> okpath pn ->
    link s vp (abs_path (ds ++ po)) (abs_path (ds ++ pn)) = link s vv (abs_path po) (abs_path pn).
  Proof.
    intros Ho Hn. unfold link. corr Ho SlLstat po. start Hn SlLstat pn. views. reflexivity.
  Qed.

  Theorem rename_prefix po pn : okpath po -> okpath pn ->
    rename s vp (abs_path (ds ++ po)) (abs_path (ds ++ pn)) = rename s vv (abs_path po) (abs_path pn).
  Proof.
    intros Ho Hn. pose proof Ho as (_ & Hneo & _). pose proof Hn as (_ & Hnen & _).
    assert (Eraw : str_eqb (abs_path (ds ++ po)) (abs_path (ds ++ pn)) = str_eqb (abs_path po) (abs_path pn)).
    { rewrite (abs_path_prefix ds po Hneo), (abs_path_prefix ds pn Hnen). apply str_eqb_app_l. }
    unfold rename. rewrite Eraw. set (raw := str_eqb (abs_path po) (abs_path pn)).
    corr Ho SlLstat po. start Hn SlLstat pn. views.
    rewrite Hpathp, Hpathv, Hpathp0, Hpathv0. cbn [sepc].
    rewrite (abs_path_prefix ds po Hneo), (abs_path_prefix ds pn Hnen), <- app_assoc, str_eqb_app_l, is_prefix_app_l.
    reflexivity.
  Qed.

  (* the composites of vfs.go built on OpenFile *)
  Theorem read_dir_prefix ps : okpath ps ->
    read_dir s vp (abs_path (ds ++ ps)) = read_dir s vv (abs_path ps).
  Proof.
    intros H. destruct (open_file_prefix ps 0 0 0 0 H) as (Hf & Hs). unfold read_dir.
    destruct (open_file s vp 0 (abs_path (ds ++ ps)) 0 0) as [s1 [r1|f1]];
      destruct (open_file s vv 0 (abs_path ps) 0 0) as [s2 [r2|f2]]; cbn [fst snd] in Hf, Hs;
      inversion Hs as [r|c at_ om]; subst; [reflexivity|].
    unfold f_read_dir, dir_read, new_handle, win, abs_path. cbn [hd_name hd_node hd_dir_infos hd_dir_index hd_mode hd_at hd_dir_names hd_view].
    rewrite ?(va_osp _ _ Hag), ?(va_osv _ _ Hag). repeat break_match; reflexivity.
  Qed.

  Lemma f_read_names s1 c vi vj at_ om n ps :
    snd (f_read s1 vp (new_handle c vi (abs_path (ds ++ ps)) at_ om) n)
    = snd (f_read s1 vv (new_handle c vj (abs_path ps) at_ om) n).
  Proof.
    unfold f_read, file_of, new_handle, win, abs_path.
    cbn [hd_name hd_node hd_dir_infos hd_dir_index hd_mode hd_at hd_dir_names hd_view].
    rewrite ?(va_osp _ _ Hag), ?(va_osv _ _ Hag). repeat break_match; reflexivity.
  Qed.

  Lemma f_write_names s1 c vi vj at_ om data ps :
    fst (fst (f_write s1 vp (new_handle c vi (abs_path (ds ++ ps)) at_ om) data))
    = fst (fst (f_write s1 vv (new_handle c vj (abs_path ps) at_ om) data))
    /\ snd (f_write s1 vp (new_handle c vi (abs_path (ds ++ ps)) at_ om) data)
       = snd (f_write s1 vv (new_handle c vj (abs_path ps) at_ om) data).
  Proof.
    unfold f_write, file_of, new_handle, win, abs_path.
    cbn [hd_name hd_node hd_dir_infos hd_dir_index hd_mode hd_at hd_dir_names hd_view].
    rewrite ?(va_osp _ _ Hag), ?(va_osv _ _ Hag), ?(va_user _ _ Hag). repeat break_match; split; reflexivity.
  Qed.

  Theorem read_file_prefix ps : okpath ps ->
    read_file s vp (abs_path (ds ++ ps)) = read_file s vv (abs_path ps).
  Proof.
    intros H. destruct (open_file_prefix ps 0 0 0 0 H) as (Hf & Hs). unfold read_file.
    destruct (open_file s vp 0 (abs_path (ds ++ ps)) 0 0) as [s1 [r1|f1]];
      destruct (open_file s vv 0 (abs_path ps) 0 0) as [s2 [r2|f2]]; cbn [fst snd] in Hf, Hs;
      inversion Hs as [r|c at_ om]; subst; [reflexivity|].
    cbn [new_handle hd_node].
    set (n := (_ + 512)%Z). pose proof (f_read_names s2 c 0 0 at_ om n ps) as E. fold (new_handle c 0 (abs_path (ds ++ ps)) at_ om).
    fold (new_handle c 0 (abs_path ps) at_ om).
    destruct (f_read s2 vp _ n) as [fa ra], (f_read s2 vv _ n) as [fb rb]. cbn [snd] in E. subst rb. reflexivity.
  Qed.

  Theorem write_file_prefix ps data perm : okpath ps ->
    write_file s vp (abs_path (ds ++ ps)) data perm = write_file s vv (abs_path ps) data perm.
  Proof.
    intros H. destruct (open_file_prefix ps 0 0 (O_WRONLY + O_CREATE + O_TRUNC) perm H) as (Hf & Hs). unfold write_file.
    destruct (open_file s vp 0 (abs_path (ds ++ ps)) (O_WRONLY + O_CREATE + O_TRUNC) perm) as [s1 [r1|f1]];
      destruct (open_file s vv 0 (abs_path ps) (O_WRONLY + O_CREATE + O_TRUNC) perm) as [s2 [r2|f2]];
      cbn [fst snd] in Hf, Hs; inversion Hs as [r|c at_ om]; subst; [reflexivity|].
    destruct (f_write_names s2 c 0 0 at_ om data ps) as (E1 & E2).
    destruct (f_write s2 vp _ data) as [[sa fa] ra], (f_write s2 vv _ data) as [[sb fb] rb].
    cbn [fst snd] in E1, E2. subst. reflexivity.
  Qed.
End Calls.
