(* Generic facts used by the invariant proofs of the OrefaFS model: association
   lists as Go maps (lookup / set / delete, key counting), and the key
   convention of OrefaFS on component lists: the key of the path with
   components cs is [rpath cs] = "/c1/c2/.../cn" ("" for the root), which is
   what SplitAbs takes apart. *)
From Avfs Require Import Base PathModel PathSpec PathCleanProofs PathIterProofs MemFS OrefaFS.

(* ---- setOwner keeps the directory bit ----------------------------------------------------------------- *)
(* clearing bits does not set one *)
Lemma has_ldiff_false a b bit : has a bit = false -> has (N.ldiff a b) bit = false.
Proof.
  unfold has. intros H. apply negb_false_iff, N.eqb_eq in H. apply negb_false_iff, N.eqb_eq.
  apply N.bits_inj. intros k. rewrite N.land_spec, N.ldiff_spec, N.bits_0.
  assert (Hk : N.testbit (N.land a bit) k = false) by (rewrite H; apply N.bits_0). rewrite N.land_spec in Hk.
  destruct (N.testbit a k), (N.testbit b k), (N.testbit bit k); cbn in *; congruence.
Qed.

Lemma o_chown_meta_dir m uid gid : has (m_mode (o_chown_meta m uid gid)) MODE_DIR = has (m_mode m) MODE_DIR.
Proof.
  unfold o_chown_meta, with_owner. cbn [m_mode]. destruct (has (m_mode m) MODE_DIR) eqn:Hd; [exact Hd|].
  cbn [m_mode]. destruct (has (m_mode m) 8); repeat apply has_ldiff_false; exact Hd.
Qed.



(* ---- association lists with string keys ---------------------------------- *)
Section AssocStr.
  Variable V : Type.
  Notation al := (alookup (V:=V) str_eqb).
  Notation ar := (aremove (V:=V) str_eqb).
  Notation as_ := (aset (V:=V) str_eqb).

  Lemma al_aset_eq k v m : al k (as_ k v m) = Some v.
  Proof.
    induction m as [|[k' v'] m IH]; cbn [aset alookup].
    - rewrite str_eqb_refl. reflexivity.
    - destruct (str_eqb k k') eqn:E; cbn [alookup]; [rewrite str_eqb_refl; reflexivity|].
      rewrite E. exact IH.
  Qed.

  Lemma al_aset_neq k k' v m : k' <> k -> al k' (as_ k v m) = al k' m.
  Proof.
    intros Hne. induction m as [|[k2 v2] m IH]; cbn [aset alookup].
    - apply str_eqb_neq in Hne. rewrite Hne. reflexivity.
    - destruct (str_eqb k k2) eqn:E; cbn [alookup].
      + apply str_eqb_eq in E. subst k2. apply str_eqb_neq in Hne. rewrite Hne. reflexivity.
      + destruct (str_eqb k' k2); [reflexivity|exact IH].
  Qed.

  Lemma al_aremove_eq k m : al k (ar k m) = None.
  Proof.
    induction m as [|[k' v'] m IH]; cbn [aremove alookup]; [reflexivity|].
    destruct (str_eqb k k') eqn:E; [exact IH|]. cbn [alookup]. rewrite E. exact IH.
  Qed.

  Lemma al_aremove_neq k k' m : k' <> k -> al k' (ar k m) = al k' m.
  Proof.
    intros Hne. induction m as [|[k2 v2] m IH]; cbn [aremove alookup]; [reflexivity|].
    destruct (str_eqb k k2) eqn:E.
    - apply str_eqb_eq in E. subst k2. apply str_eqb_neq in Hne. rewrite Hne. exact IH.
    - cbn [alookup]. destruct (str_eqb k' k2); [reflexivity|exact IH].
  Qed.

  Lemma al_in k v m : al k m = Some v -> In (k, v) m.
  Proof.
    induction m as [|[k' v'] m IH]; cbn [alookup]; [discriminate|].
    destruct (str_eqb k k') eqn:E.
    - apply str_eqb_eq in E. subst. intros [= ->]. left. reflexivity.
    - intros H. right. exact (IH H).
  Qed.

  Lemma al_none_notin k m : al k m = None -> ~ In k (map fst m).
  Proof.
    induction m as [|[k' v'] m IH]; cbn [alookup map fst]; [intros _ []|].
    destruct (str_eqb k k') eqn:E; [discriminate|].
    intros H [Hk|Hk]; [subst; rewrite str_eqb_refl in E; discriminate|exact (IH H Hk)].
  Qed.

  Lemma in_al k v m : NoDup (map fst m) -> In (k, v) m -> al k m = Some v.
  Proof.
    induction m as [|[k' v'] m IH]; cbn [alookup map fst]; [intros _ []|].
    intros Hnd [Hin|Hin].
    - inversion Hin; subst. rewrite str_eqb_refl. reflexivity.
    - inversion Hnd as [|? ? Hni Hnd']; subst.
      destruct (str_eqb k k') eqn:E.
      + apply str_eqb_eq in E. subst. exfalso. apply Hni. apply in_map_iff. exists (k', v). auto.
      + exact (IH Hnd' Hin).
  Qed.

  Lemma keys_aset_in k v m : In k (map fst m) -> map fst (as_ k v m) = map fst m.
  Proof.
    induction m as [|[k' v'] m IH]; cbn [aset map fst]; [intros []|].
    destruct (str_eqb k k') eqn:E.
    - apply str_eqb_eq in E. subst. reflexivity.
    - intros [Hk|Hk]; [subst; rewrite str_eqb_refl in E; discriminate|]. cbn [map fst]. rewrite (IH Hk). reflexivity.
  Qed.

  Lemma keys_aset_notin k v m : ~ In k (map fst m) -> map fst (as_ k v m) = map fst m ++ [k].
  Proof.
    induction m as [|[k' v'] m IH]; cbn [aset map fst]; [reflexivity|].
    intros Hni. destruct (str_eqb k k') eqn:E.
    - apply str_eqb_eq in E. subst. exfalso. apply Hni. left. reflexivity.
    - cbn [map fst app]. rewrite IH; [reflexivity|]. intros H. apply Hni. right. exact H.
  Qed.

  Lemma nodup_aset k v m : NoDup (map fst m) -> NoDup (map fst (as_ k v m)).
  Proof.
    intros Hnd. destruct (in_dec (fun a b => Bool.reflect_dec _ _ (str_eqb_spec a b)) k (map fst m)) as [Hin|Hni].
    - rewrite keys_aset_in by exact Hin. exact Hnd.
    - rewrite keys_aset_notin by exact Hni. clear -Hnd Hni.
      induction (map fst m) as [|a l IH]; cbn [app].
      + constructor; [intros []|constructor].
      + inversion Hnd as [|? ? Ha Hl]; subst. constructor.
        * intros H. apply in_app_or in H. destruct H as [H|[H|[]]]; [exact (Ha H)|].
          subst. apply Hni. left. reflexivity.
        * apply IH; [exact Hl|]. intros H. apply Hni. right. exact H.
  Qed.

  Lemma keys_aremove_incl k m x : In x (map fst (ar k m)) -> In x (map fst m) /\ x <> k.
  Proof.
    induction m as [|[k' v'] m IH]; cbn [aremove map fst]; [intros []|].
    destruct (str_eqb k k') eqn:E.
    - intros H. destruct (IH H). split; [right|]; assumption.
    - cbn [map fst]. intros [H|H].
      + subst. split; [left; reflexivity|]. intros ->. rewrite str_eqb_refl in E. discriminate.
      + destruct (IH H). split; [right|]; assumption.
  Qed.

  Lemma nodup_aremove k m : NoDup (map fst m) -> NoDup (map fst (ar k m)).
  Proof.
    induction m as [|[k' v'] m IH]; cbn [aremove map fst]; [auto|].
    intros Hnd. inversion Hnd as [|? ? Hni Hnd']; subst.
    destruct (str_eqb k k'); [exact (IH Hnd')|]. cbn [map fst]. constructor; [|exact (IH Hnd')].
    intros H. apply keys_aremove_incl in H. apply Hni. apply H.
  Qed.

  (* number of keys bound to the value satisfying [p] *)
  Variable vp : V -> bool.
  Definition kcount_p (m : list (str * V)) : nat := length (filter (fun e => vp (snd e)) m).

  Lemma kcount_aset_new k v m : al k m = None ->
    kcount_p (as_ k v m) = kcount_p m + (if vp v then 1 else 0).
  Proof.
    induction m as [|[k' v'] m IH]; cbn [aset alookup].
    - intros _. unfold kcount_p. cbn [filter snd]. destruct (vp v); reflexivity.
    - destruct (str_eqb k k') eqn:E; [discriminate|]. intros H. specialize (IH H).
      unfold kcount_p in *. cbn [filter snd]. destruct (vp v'); cbn [length]; rewrite IH; reflexivity.
  Qed.

  Lemma kcount_aremove k v m : NoDup (map fst m) -> al k m = Some v ->
    kcount_p (ar k m) + (if vp v then 1 else 0) = kcount_p m.
  Proof.
    induction m as [|[k' v'] m IH]; cbn [aremove alookup map fst]; [discriminate|].
    intros Hnd. inversion Hnd as [|? ? Hni Hnd']; subst.
    destruct (str_eqb k k') eqn:E.
    - intros [= ->]. apply str_eqb_eq in E. subst k'.
      assert (Hn : ar k m = m).
      { clear -Hni. induction m as [|[k2 v2] m IH]; [reflexivity|]. cbn [aremove].
        destruct (str_eqb k k2) eqn:E.
        - apply str_eqb_eq in E. subst. exfalso. apply Hni. left. reflexivity.
        - f_equal. apply IH. intros H. apply Hni. right. exact H. }
      rewrite Hn. unfold kcount_p. cbn [filter snd]. destruct (vp v); cbn [length]; lia.
    - intros H. specialize (IH Hnd' H). unfold kcount_p in *. cbn [filter snd].
      destruct (vp v'); cbn [length]; lia.
  Qed.

  Lemma kcount_aremove_none k m : al k m = None -> ar k m = m.
  Proof.
    induction m as [|[k' v'] m IH]; cbn [aremove alookup]; [reflexivity|].
    destruct (str_eqb k k'); [discriminate|]. intros H. f_equal. exact (IH H).
  Qed.
End AssocStr.

(* ---- the key convention on component lists --------------------------------- *)
Definition nosl (c : str) : Prop := forall x, In x c -> x <> SLASH.

Lemma comp_ok_nosl c : comp_ok c -> nosl c.
Proof. intros [_ H]. exact H. Qed.

Lemma good_comp_ok' c : good_comp c -> comp_ok c.
Proof. intros (H1 & H2 & _). split; assumption. Qed.

Lemma rpath_snoc cs c : rpath (cs ++ [c]) = rpath cs ++ SLASH :: c.
Proof. rewrite rpath_app. cbn [rpath]. rewrite app_nil_r. reflexivity. Qed.

Lemma rpath_nil_inv cs : rpath cs = [] -> cs = [].
Proof. destruct cs; [reflexivity|discriminate]. Qed.

Lemma abs_path_nil : abs_path [] = [SLASH].
Proof. reflexivity. Qed.

Lemma abs_path_cases cs : (cs = [] /\ abs_path cs = [SLASH]) \/ (cs <> [] /\ abs_path cs = rpath cs).
Proof.
  destruct cs as [|c cs]; [left; auto|right]. split; [discriminate|]. apply abs_path_rpath. discriminate.
Qed.

Lemma rpath_inj a b : Forall comp_ok a -> Forall comp_ok b -> rpath a = rpath b -> a = b.
Proof.
  intros Ha Hb E. destruct a as [|x a]; destruct b as [|y b]; try reflexivity; try discriminate.
  apply abs_path_inj; [assumption|assumption|].
  rewrite !abs_path_rpath by discriminate. exact E.
Qed.

Lemma rpath_not_slash cs : Forall comp_ok cs -> rpath cs <> [SLASH].
Proof.
  intros H E. destruct cs as [|c cs]; [discriminate|]. cbn [rpath] in E.
  inversion H as [|? ? Hc0 _]; subst. destruct Hc0 as [Hc _]. destruct c; [congruence|discriminate].
Qed.

(* last_sep_cut finds the last separator: the byte at [k] is one, the [m] bytes after it are not *)
Lemma last_sep_cut_gen (path : str) (k : nat) : forall m,
  (forall j, j < m -> is_sep Linux (nthb path (S k + j)) = false) ->
  is_sep Linux (nthb path k) = true ->
  last_sep_cut Linux path 0 (S k + m) = S k.
Proof.
  induction m as [|m IH]; intros Hns Hs.
  - rewrite Nat.add_0_r. cbn [last_sep_cut Nat.leb]. rewrite Hs. reflexivity.
  - replace (S k + S m) with (S (S k + m)) by lia. cbn [last_sep_cut Nat.leb].
    rewrite (Hns m) by lia. cbn [negb andb]. apply IH; [|exact Hs].
    intros j Hj. apply Hns. lia.
Qed.

Lemma split_abs_rpath cs c : nosl c ->
  osplit Linux (rpath (cs ++ [c])) = Some (rpath cs, c).
Proof.
  intros Hc. unfold osplit, split_abs. cbn [volume_name_len]. rewrite rpath_snoc.
  set (pre := rpath cs).
  assert (Hcut : last_sep_cut Linux (pre ++ SLASH :: c) 0 (length (pre ++ SLASH :: c)) = S (length pre)).
  { rewrite app_length. cbn [length].
    replace (length pre + S (length c)) with (S (length pre) + length c) by lia.
    apply last_sep_cut_gen.
    - intros j Hj. unfold nthb. rewrite app_nth2 by lia.
      replace (S (length pre) + j - length pre) with (S j) by lia. cbn [nth is_sep].
      apply N.eqb_neq. apply Hc. apply nth_In. exact Hj.
    - unfold nthb. rewrite app_nth2 by lia. rewrite Nat.sub_diag. reflexivity. }
  rewrite Hcut. cbn [Nat.eqb]. rewrite Nat.sub_succ, Nat.sub_0_r.
  rewrite firstn_app, firstn_all, Nat.sub_diag. cbn [firstn]. rewrite app_nil_r.
  replace (S (length pre)) with (length (pre ++ [SLASH])) by (rewrite app_length; cbn [length]; lia).
  replace (pre ++ SLASH :: c) with ((pre ++ [SLASH]) ++ c) by (rewrite <- app_assoc; reflexivity).
  rewrite skipn_app, skipn_all, Nat.sub_diag. reflexivity.
Qed.

Lemma split_abs_root : osplit Linux [SLASH] = Some ([], []).
Proof. reflexivity. Qed.

(* every absolute path can be split *)
Lemma osplit_abs_path cs : Forall comp_ok cs ->
  exists d f, osplit Linux (abs_path cs) = Some (d, f)
    /\ ((cs = [] /\ d = [] /\ f = []) \/ (exists cs' c, cs = cs' ++ [c] /\ d = rpath cs' /\ f = c)).
Proof.
  intros Hok. destruct cs as [|c0 cs0] using rev_ind.
  - exists [], []. split; [reflexivity|left; auto].
  - clear IHcs0. rewrite abs_path_rpath by (destruct cs0; discriminate).
    apply Forall_app in Hok. destruct Hok as [_ Hc]. inversion Hc as [|? ? Hc0 _]; subst.
    exists (rpath cs0), c0. split; [apply split_abs_rpath; apply comp_ok_nosl; exact Hc0|].
    right. exists cs0, c0. auto.
Qed.

(* ---- prefixes ------------------------------------------------------------------ *)
Lemma is_prefix_comp (o : str) : forall (c X' Y : str), nosl o -> nosl c ->
  (Y = [] \/ exists Y', Y = SLASH :: Y') ->
  is_prefix (o ++ SLASH :: X') (c ++ Y) = true <-> (o = c /\ is_prefix (SLASH :: X') Y = true).
Proof.
  induction o as [|y o IH]; intros c X' Y Ho Hc HY.
  - cbn [app]. destruct c as [|x c].
    + cbn [app]. split; [intros H; split; [reflexivity|exact H]|intros [_ H]; exact H].
    + cbn [app is_prefix]. assert (Hx : N.eqb SLASH x = false).
      { apply N.eqb_neq. intros E. apply (Hc x); [left; reflexivity|auto]. }
      rewrite Hx. cbn [andb]. split; [discriminate|intros [E _]; discriminate].
  - cbn [app]. destruct c as [|x c].
    + cbn [app]. destruct HY as [->|[Y' ->]].
      * cbn [is_prefix]. split; [discriminate|intros [E _]; discriminate].
      * cbn [is_prefix]. assert (Hy : N.eqb y SLASH = false).
        { apply N.eqb_neq. apply Ho. left. reflexivity. }
        rewrite Hy. cbn [andb]. split; [discriminate|intros [E _]; discriminate].
    + cbn [app is_prefix]. rewrite andb_true_iff, N.eqb_eq.
      rewrite (IH c X' Y); [|intros z Hz; apply Ho; right; exact Hz|intros z Hz; apply Hc; right; exact Hz|exact HY].
      split.
      * intros (-> & -> & H). auto.
      * intros (E & H). inversion E; subst. auto.
Qed.

Lemma rpath_head_shape cs : rpath cs = [] \/ exists Y', rpath cs = SLASH :: Y'.
Proof. destruct cs as [|c cs]; [left; reflexivity|right; cbn [rpath]; eauto]. Qed.

(* the string test of Rename ("HasPrefix(key, oldpath + separator)") on components *)
Lemma is_prefix_rpath (a : list str) : forall (b : list str), Forall comp_ok a -> Forall comp_ok b ->
  (is_prefix (rpath a ++ [SLASH]) (rpath b) = true <-> exists c rest, b = a ++ c :: rest).
Proof.
  induction a as [|o a IH]; intros b Ha Hb.
  - cbn [rpath app]. destruct b as [|c b].
    + cbn [rpath is_prefix]. split; [discriminate|intros (c & rest & E); discriminate].
    + cbn [rpath is_prefix]. rewrite N.eqb_refl. cbn [andb]. split; [intros _; eauto|reflexivity].
  - inversion Ha as [|? ? Ho Ha']; subst. destruct b as [|c b].
    + cbn [rpath app is_prefix]. split; [discriminate|intros (c & rest & E); discriminate].
    + inversion Hb as [|? ? Hc Hb']; subst. cbn [rpath app is_prefix]. rewrite N.eqb_refl. cbn [andb].
      rewrite <- app_assoc.
      destruct (rpath_head_shape (a ++ [[0%N]])) as [E|[X' E]].
      { apply rpath_nil_inv in E. destruct a; discriminate. }
      (* rpath a ++ [SLASH] always starts with SLASH *)
      assert (HX : exists X', rpath a ++ [SLASH] = SLASH :: X').
      { destruct a as [|a0 a1]; cbn [rpath app]; eauto. }
      destruct HX as [X2 HX]. rewrite HX.
      rewrite (@is_prefix_comp o c X2 (rpath b)); [|apply comp_ok_nosl; exact Ho|apply comp_ok_nosl; exact Hc|apply rpath_head_shape].
      rewrite <- HX. rewrite (IH b Ha' Hb'). split.
      * intros (-> & c' & rest & ->). exists c', rest. reflexivity.
      * intros (c' & rest & E'). cbn [app] in E'. inversion E'; subst. split; [reflexivity|eauto].
Qed.

Lemma skipn_rpath_app (a rest : list str) : skipn (length (rpath a)) (rpath (a ++ rest)) = rpath rest.
Proof. rewrite rpath_app, skipn_app, skipn_all, Nat.sub_diag. reflexivity. Qed.

Lemma in_aset_cases (V : Type) k (v : V) m x w :
  In (x, w) (aset str_eqb k v m) -> (x = k /\ w = v) \/ In (x, w) m.
Proof.
  induction m as [|[k' v'] m IH]; cbn [aset].
  - intros [H|[]]. inversion H; subst. left. auto.
  - destruct (str_eqb k k').
    + intros [H|H]; [inversion H; subst; left; auto|right; right; exact H].
    + intros [H|H]; [right; left; exact H|].
      destruct (IH H) as [L|R]; [left; exact L|right; right; exact R].
Qed.

Lemma in_aremove_in (V : Type) k m x (w : V) : In (x, w) (aremove str_eqb k m) -> In (x, w) m.
Proof.
  induction m as [|[k' v'] m IH]; cbn [aremove]; [intros []|].
  destruct (str_eqb k k'); [intros H; right; exact (IH H)|].
  intros [H|H]; [left; exact H|right; exact (IH H)].
Qed.

Lemma kcount_pos_in (V : Type) (vp : V -> bool) m :
  0 < kcount_p V vp m -> exists k v, In (k, v) m /\ vp v = true.
Proof.
  unfold kcount_p. induction m as [|[k v] m IH]; cbn [filter snd length]; [lia|].
  destruct (vp v) eqn:E.
  - intros _. exists k, v. split; [left; reflexivity|exact E].
  - intros H. destruct (IH H) as (k' & v' & Hin & Hv). exists k', v'. split; [right; exact Hin|exact Hv].
Qed.

(* ---- component-list prefixes ------------------------------------------------------ *)
Fixpoint strip (a cs : list str) : option (list str) :=
  match a, cs with
  | [], _ => Some cs
  | x :: a', y :: cs' => if str_eqb x y then strip a' cs' else None
  | _ :: _, [] => None
  end.

Lemma strip_some a : forall cs r, strip a cs = Some r <-> cs = a ++ r.
Proof.
  induction a as [|x a IH]; intros cs r; cbn [strip app].
  - split; [intros [= ->]; reflexivity|intros ->; reflexivity].
  - destruct cs as [|y cs]; [split; [discriminate|intros E; discriminate]|].
    destruct (str_eqb_spec x y) as [->|Hne].
    + rewrite IH. split; [intros ->; reflexivity|intros E; inversion E; reflexivity].
    + split; [discriminate|intros E; inversion E; congruence].
Qed.

Lemma strip_app a r : strip a (a ++ r) = Some r.
Proof. apply strip_some. reflexivity. Qed.

Lemma strip_none a cs : strip a cs = None <-> forall r, cs <> a ++ r.
Proof.
  split.
  - intros H r E. apply strip_some in E. congruence.
  - intros H. destruct (strip a cs) as [r|] eqn:E; [|reflexivity]. apply strip_some in E. exfalso. exact (H r E).
Qed.

(* [cs ++ [c] = a ++ r]: either r is empty, or r ends with c *)
Lemma snoc_eq_app (cs a r : list str) (c : str) : cs ++ [c] = a ++ r ->
  (r = [] /\ a = cs ++ [c]) \/ (exists r', r = r' ++ [c] /\ cs = a ++ r').
Proof.
  intros E. destruct r as [|x r] using rev_ind.
  - left. rewrite app_nil_r in E. auto.
  - right. clear IHr. rewrite app_assoc in E. apply app_inj_tail in E. destruct E as [E1 E2]. subst.
    exists r. auto.
Qed.

Lemma kcount_aset_old (V : Type) (vp : V -> bool) k v v0 m : alookup str_eqb k m = Some v0 ->
  kcount_p V vp (aset str_eqb k v m) + (if vp v0 then 1 else 0) = kcount_p V vp m + (if vp v then 1 else 0).
Proof.
  induction m as [|[k' v'] m IH]; cbn [aset alookup]; [discriminate|].
  destruct (str_eqb k k') eqn:E.
  - intros [= ->]. unfold kcount_p. cbn [filter snd]. destruct (vp v), (vp v0); cbn [length]; lia.
  - intros H. specialize (IH H). unfold kcount_p in *. cbn [filter snd]. destruct (vp v'); cbn [length]; lia.
Qed.

Lemma app_eq_comparable (A : Type) (a b x y : list A) : a ++ x = b ++ y ->
  (exists z, a = b ++ z) \/ (exists z, b = a ++ z).
Proof.
  revert b. induction a as [|u a IH]; intros b E.
  - right. exists b. reflexivity.
  - destruct b as [|w b]; [left; exists (u :: a); reflexivity|].
    cbn [app] in E. inversion E; subst. destruct (IH b H1) as [[z ->]|[z ->]]; [left|right]; exists z; reflexivity.
Qed.

(* ---- renaming the keys of a map ---------------------------------------------------------- *)
Section MapKey.
  Variable V : Type.
  Variable g : str -> str.
  Definition mapk (m : list (str * V)) : list (str * V) := map (fun e => (g (fst e), snd e)) m.

  Lemma mapk_keys m : map fst (mapk m) = map g (map fst m).
  Proof. unfold mapk. rewrite !map_map. reflexivity. Qed.

  Lemma al_mapk_notin m k' : (forall k, In k (map fst m) -> g k <> k') -> alookup str_eqb k' (mapk m) = None.
  Proof.
    induction m as [|[k0 v0] m IH]; cbn [mapk map alookup fst snd]; [reflexivity|].
    intros H. destruct (str_eqb_spec k' (g k0)) as [->|_].
    - exfalso. apply (H k0); [left; reflexivity|reflexivity].
    - apply IH. intros k Hk. apply H. right. exact Hk.
  Qed.

  Lemma al_mapk_in m k : NoDup (map fst m) ->
    (forall k1 k2, In k1 (map fst m) -> In k2 (map fst m) -> g k1 = g k2 -> k1 = k2) ->
    In k (map fst m) -> alookup str_eqb (g k) (mapk m) = alookup str_eqb k m.
  Proof.
    induction m as [|[k0 v0] m IH]; cbn [mapk map alookup fst snd]; [intros _ _ []|].
    intros Hnd Hinj Hk. inversion Hnd as [|? ? Hni Hnd']; subst.
    destruct (str_eqb_spec (g k) (g k0)) as [E|Hne].
    - assert (k = k0) by (apply Hinj; [exact Hk|left; reflexivity|exact E]). subst. rewrite str_eqb_refl. reflexivity.
    - destruct (str_eqb_spec k k0) as [->|Hkk]; [congruence|].
      destruct Hk as [Hk|Hk]; [congruence|].
      apply IH; [exact Hnd'| |exact Hk]. intros k1 k2 H1 H2. apply Hinj; right; assumption.
  Qed.

  Lemma nodup_mapk m : NoDup (map fst m) ->
    (forall k1 k2, In k1 (map fst m) -> In k2 (map fst m) -> g k1 = g k2 -> k1 = k2) ->
    NoDup (map fst (mapk m)).
  Proof.
    rewrite mapk_keys. induction (map fst m) as [|a l IH]; cbn [map]; [constructor|].
    intros Hnd Hinj. inversion Hnd as [|? ? Ha Hl]; subst. constructor.
    - intros H. apply in_map_iff in H. destruct H as (b & Hb & Hbl).
      assert (b = a) by (apply Hinj; [right; exact Hbl|left; reflexivity|exact Hb]). subst. exact (Ha Hbl).
    - apply IH; [exact Hl|]. intros k1 k2 H1 H2. apply Hinj; right; assumption.
  Qed.

  Lemma kcount_mapk vp m : kcount_p V vp (mapk m) = kcount_p V vp m.
  Proof.
    unfold kcount_p, mapk. induction m as [|[k v] m IH]; cbn [map filter fst snd]; [reflexivity|].
    destruct (vp v); cbn [length]; rewrite IH; reflexivity.
  Qed.

  Lemma al_mapk_some m k' v : alookup str_eqb k' (mapk m) = Some v -> exists k, g k = k' /\ In (k, v) m.
  Proof.
    induction m as [|[k0 v0] m IH]; cbn [mapk map alookup fst snd]; [discriminate|].
    destruct (str_eqb_spec k' (g k0)) as [->|_].
    - intros [= ->]. exists k0. split; [reflexivity|left; reflexivity].
    - intros H. destruct (IH H) as (k & Hk & Hin). exists k. split; [exact Hk|right; exact Hin].
  Qed.
End MapKey.

Lemma in_keys_al (V : Type) k (m : list (str * V)) : In k (map fst m) <-> alookup str_eqb k m <> None.
Proof.
  split.
  - intros H E. apply al_none_notin in E. exact (E H).
  - intros H. destruct (alookup str_eqb k m) as [v|] eqn:E; [|congruence].
    apply al_in in E. apply in_map_iff. exists (k, v). auto.
Qed.

(* the key function of Rename's re-keying *)
Definition rekey_fn (o_abs n_abs : str) (k : str) : str :=
  if is_prefix (o_abs ++ [SLASH]) k then n_abs ++ skipn (length o_abs) k else k.

Lemma o_rekey_mapk o_abs n_abs idx : o_rekey Linux o_abs n_abs idx = mapk nat (rekey_fn o_abs n_abs) idx.
Proof.
  unfold o_rekey, mapk, rekey_fn. apply map_ext. intros [k v]. cbn [fst snd sepc].
  destruct (is_prefix (o_abs ++ [SLASH]) k); reflexivity.
Qed.

Lemma rekey_fn_below old new c r : Forall comp_ok old -> Forall comp_ok (c :: r) ->
  rekey_fn (rpath old) (rpath new) (rpath (old ++ c :: r)) = rpath (new ++ c :: r).
Proof.
  intros Ho Hr. unfold rekey_fn.
  assert (H : is_prefix (rpath old ++ [SLASH]) (rpath (old ++ c :: r)) = true).
  { apply is_prefix_rpath; [exact Ho|apply Forall_app; auto|]. exists c, r. reflexivity. }
  rewrite H. rewrite skipn_rpath_app. rewrite rpath_app. reflexivity.
Qed.

Lemma rekey_fn_other old new cs : Forall comp_ok old -> Forall comp_ok cs ->
  (forall c r, cs <> old ++ c :: r) -> rekey_fn (rpath old) (rpath new) (rpath cs) = rpath cs.
Proof.
  intros Ho Hc Hn. unfold rekey_fn.
  destruct (is_prefix (rpath old ++ [SLASH]) (rpath cs)) eqn:E; [|reflexivity].
  apply is_prefix_rpath in E; [|exact Ho|exact Hc]. destruct E as (c & r & E). exfalso. exact (Hn c r E).
Qed.

Lemma rekey_fn_slash old new : old <> [] -> Forall comp_ok old -> rekey_fn (rpath old) (rpath new) [SLASH] = [SLASH].
Proof.
  intros Hne Ho. unfold rekey_fn. destruct old as [|o old]; [congruence|].
  inversion Ho as [|? ? [Hc _] _]; subst. destruct o as [|x o]; [congruence|].
  cbn [rpath app is_prefix]. rewrite N.eqb_refl. cbn [andb]. reflexivity.
Qed.
