(* C11, isolation and sharing: the per-view configuration (user, umask, current
   directory, root) of a world with any number of views.

   - [step_views]     : one call of ANY kind changes the configuration of a view
                        only if it is the setter of that field of that view
                        (SetUser / SetUMask / Chdir on the view, File.Chdir on a
                        handle opened through the view); root, OS type and the
                        identity-manager flag never change; views are never
                        removed.
   - [run_views]      : the same along every history (induction over [wrun]).
   - [ns_call_shared] : a namespace call's result and resulting node graph are a
                        function of the ONE shared [w_fs] and of the calling
                        view's record (no per-view copy of the tree). *)
From Avfs Require Import Base PathModel MemFS MemFile World.


(* ---- set_nth_ --------------------------------------------------------------- *)
Lemma nth_set_nth_same (A : Type) (l : list A) i x y :
  nth_error l i = Some y -> nth_error (set_nth_ l i x) i = Some x.
Proof.
  revert i; induction l as [|a l IH]; intros [|i] H; cbn in *; try discriminate; auto.
Qed.

Lemma nth_set_nth_other (A : Type) (l : list A) i j x :
  i <> j -> nth_error (set_nth_ l i x) j = nth_error l j.
Proof.
  revert i j; induction l as [|a l IH]; intros [|i] [|j] H; cbn; auto; try congruence.
Qed.

Lemma set_nth_length_ (A : Type) (l : list A) i x : length (set_nth_ l i x) = length l.
Proof. revert i; induction l as [|a l IH]; intros [|i]; cbn; auto. Qed.

(* ---- which field of which view a call sets ---------------------------------- *)
Inductive field := FUser | FUmask | FCwd.

Definition setter (w : world) (c : call) : option (nat * field) :=
  match c with
  | CSetUser vi _ _ _ => Some (vi, FUser)
  | CSetUMask vi _ => Some (vi, FUmask)
  | CChdir vi _ => Some (vi, FCwd)
  | FChdir hi => match nth_error (w_handles w) hi with
                 | Some f => Some (hd_view f, FCwd)
                 | None => None
                 end
  | _ => None
  end.

(* view [v'] is view [v] except, possibly, for the field set by [st] on view [j] *)
Definition same_but (st : option (nat * field)) (j : nat) (v v' : view) : Prop :=
  v_root v' = v_root v /\ v_os v' = v_os v /\ v_idm v' = v_idm v
  /\ (st <> Some (j, FUser) -> v_user v' = v_user v)
  /\ (st <> Some (j, FUmask) -> v_umask v' = v_umask v)
  /\ (st <> Some (j, FCwd) -> v_cwd v' = v_cwd v).

Lemma same_but_refl st j v : same_but st j v v.
Proof. repeat split; auto. Qed.

(* shape of the view list after one call *)
Inductive views_step (w : world) (c : call) : list view -> Prop :=
| vs_same : views_step w c (w_views w)
| vs_app v' : views_step w c (w_views w ++ [v'])
| vs_set i v v' : nth_error (w_views w) i = Some v -> same_but (setter w c) i v v' ->
                  ((exists fld, setter w c = Some (i, fld)) \/ v' = v) ->
                  views_step w c (set_nth_ (w_views w) i v').

Ltac break_match :=
  match goal with
  | |- context [match ?x with _ => _ end] => destruct x eqn:?
  | |- context [let '(_, _) := ?x in _] => destruct x eqn:?
  end.

Lemma wstep_views_shape w c : views_step w c (w_views (fst (wstep w c))).
Proof.
  destruct c; cbn [wstep]; unfold on_view, on_handle, lift;
    repeat break_match; cbn [fst w_views with_fs with_view with_handle]; try apply vs_same; try apply vs_app.
  - (* Chdir *) eapply vs_set; [eassumption| |left; eexists; reflexivity].
    cbn [setter]. repeat split; cbn; auto; intros H; try reflexivity; congruence.
  - (* SetUser *) eapply vs_set; [eassumption| |left; eexists; reflexivity].
    cbn [setter]. repeat split; cbn; auto; intros H; try reflexivity; congruence.
  - (* SetUMask *) eapply vs_set; [eassumption| |left; eexists; reflexivity].
    cbn [setter]. repeat split; cbn; auto; intros H; try reflexivity; congruence.
  - (* File.Chdir *) eapply vs_set; [eassumption| |left; eexists].
    + cbn [setter]. rewrite Heqo. repeat split; cbn; auto; intros H; try reflexivity; congruence.
    + cbn [setter]. rewrite Heqo. reflexivity.
Qed.

(* ---- one step ----------------------------------------------------------------- *)
Theorem step_views (w : world) (c : call) (j : nat) (v : view) :
  nth_error (w_views w) j = Some v ->
  exists v', nth_error (w_views (fst (wstep w c))) j = Some v' /\ same_but (setter w c) j v v'.
Proof.
  intros Hj. destruct (wstep_views_shape w c) as [|v'|i v0 v' Hi Hsb Hfld].
  - exists v. split; [exact Hj|apply same_but_refl].
  - exists v. split; [|apply same_but_refl]. rewrite nth_error_app1; [exact Hj|].
    apply nth_error_Some. congruence.
  - destruct (Nat.eq_dec i j) as [->|Hne].
    + exists v'. erewrite nth_set_nth_same by exact Hi. split; [reflexivity|]. congruence.
    + exists v. rewrite nth_set_nth_other by exact Hne. split; [exact Hj|apply same_but_refl].
Qed.

(* a call that is not a setter of any field of view [j] leaves view [j] untouched *)
Theorem step_view_frame (w : world) (c : call) (j : nat) (v : view) :
  nth_error (w_views w) j = Some v ->
  (forall fld, setter w c <> Some (j, fld)) ->
  nth_error (w_views (fst (wstep w c))) j = Some v.
Proof.
  intros Hj Hns. destruct (wstep_views_shape w c) as [|v'|i v0 v' Hi Hsb Hfld].
  - exact Hj.
  - rewrite nth_error_app1; [exact Hj|]. apply nth_error_Some. congruence.
  - destruct (Nat.eq_dec i j) as [->|Hne].
    + destruct Hfld as [(fld & E)| ->]; [exfalso; eapply Hns; exact E|].
      erewrite nth_set_nth_same by exact Hi. congruence.
    + rewrite nth_set_nth_other by exact Hne. exact Hj.
Qed.

Lemma step_views_length w c : length (w_views w) <= length (w_views (fst (wstep w c))).
Proof.
  destruct (wstep_views_shape w c); [lia|rewrite app_length; cbn; lia|rewrite set_nth_length_; lia].
Qed.

(* ---- histories ---------------------------------------------------------------- *)
(* no call of the history, run from [w], is a setter of field [fld] of view [j] *)
Fixpoint never_sets (j : nat) (fld : field) (w : world) (cs : list call) : Prop :=
  match cs with
  | [] => True
  | c :: cs' => setter w c <> Some (j, fld) /\ never_sets j fld (fst (wstep w c)) cs'
  end.

Definition fld_eq (fld : field) (v v' : view) : Prop :=
  match fld with
  | FUser => v_user v' = v_user v
  | FUmask => v_umask v' = v_umask v
  | FCwd => v_cwd v' = v_cwd v
  end.

Lemma fst_wrun_cons w c cs : fst (wrun w (c :: cs)) = fst (wrun (fst (wstep w c)) cs).
Proof. cbn [wrun]. destruct (wstep w c) as [w1 r]. cbn [fst]. destruct (wrun w1 cs). reflexivity. Qed.

(* along ANY history over any number of views: a view is never removed, its root,
   OS type and idm flag never change ... *)
Theorem run_views_fixed (cs : list call) : forall (w : world) (j : nat) (v : view),
  nth_error (w_views w) j = Some v ->
  exists v', nth_error (w_views (fst (wrun w cs))) j = Some v'
             /\ v_root v' = v_root v /\ v_os v' = v_os v /\ v_idm v' = v_idm v.
Proof.
  induction cs as [|c cs IH]; intros w j v Hj.
  - exists v. cbn. auto.
  - rewrite fst_wrun_cons. destruct (step_views w c j v Hj) as (v1 & H1 & R1 & O1 & I1 & _).
    destruct (IH _ _ _ H1) as (v2 & H2 & R2 & O2 & I2). exists v2. repeat split; congruence.
Qed.

(* ... and a field changes only by its own setter on that very view *)
Theorem run_views (cs : list call) : forall (w : world) (j : nat) (fld : field) (v : view),
  nth_error (w_views w) j = Some v ->
  never_sets j fld w cs ->
  exists v', nth_error (w_views (fst (wrun w cs))) j = Some v' /\ fld_eq fld v v'.
Proof.
  induction cs as [|c cs IH]; intros w j fld v Hj Hn.
  - exists v. split; [exact Hj|destruct fld; reflexivity].
  - rewrite fst_wrun_cons. destruct Hn as (Hc & Hn).
    destruct (step_views w c j v Hj) as (v1 & H1 & _ & _ & _ & U1 & M1 & C1).
    destruct (IH _ _ fld _ H1 Hn) as (v2 & H2 & F2). exists v2. split; [exact H2|].
    destruct fld; cbn [fld_eq] in *; [rewrite F2; auto|rewrite F2; auto|rewrite F2; auto].
Qed.

(* whole-record form: no setter of any field of view [j] in the history *)
Fixpoint untouched (j : nat) (w : world) (cs : list call) : Prop :=
  match cs with
  | [] => True
  | c :: cs' => (forall fld, setter w c <> Some (j, fld)) /\ untouched j (fst (wstep w c)) cs'
  end.

Theorem run_view_frame (cs : list call) : forall (w : world) (j : nat) (v : view),
  nth_error (w_views w) j = Some v -> untouched j w cs ->
  nth_error (w_views (fst (wrun w cs))) j = Some v.
Proof.
  induction cs as [|c cs IH]; intros w j v Hj Hu; [exact Hj|].
  rewrite fst_wrun_cons. destruct Hu as (Hc & Hu). apply IH; [|exact Hu].
  apply step_view_frame; assumption.
Qed.

(* ---- one shared node graph ---------------------------------------------------- *)
(* the namespace calls (everything that is not a handle method) and their view *)
Definition ns_view (c : call) : option nat :=
  match c with
  | CMkdir vi _ _ | CMkdirAll vi _ _ | COpenFile vi _ _ _ | CRemove vi _ | CRemoveAll vi _
  | CRename vi _ _ | CLink vi _ _ | CSymlink vi _ _ | CReadlink vi _ | CTruncate vi _ _
  | CChmod vi _ _ | CChown vi _ _ _ | CLchown vi _ _ _ | CChtimes vi _ | CChdir vi _ | CGetwd vi
  | CStat vi _ | CLstat vi _ | CEvalSymlinks vi _ | CReadDir vi _ | CReadFile vi _
  | CWriteFile vi _ _ _ | CSub vi _ | CSetUser vi _ _ _ | CSetUMask vi _ => Some vi
  | _ => None
  end.

(* Two worlds with the same shared file system [w_fs] and the same record for view
   [vi] (whatever their other views and handles are): a namespace call through [vi]
   returns the same result and leaves the same [w_fs].  There is no per-view state
   of the tree: what a call sees is what the previous call - through whichever
   view - left in [w_fs]. *)
Theorem ns_call_shared (w1 w2 : world) (c : call) (vi : nat) :
  ns_view c = Some vi ->
  w_fs w1 = w_fs w2 ->
  nth_error (w_views w1) vi = nth_error (w_views w2) vi ->
  length (w_views w1) = length (w_views w2) ->
  length (w_handles w1) = length (w_handles w2) ->
  snd (wstep w1 c) = snd (wstep w2 c) /\ w_fs (fst (wstep w1 c)) = w_fs (fst (wstep w2 c)).
Proof.
  intros Hc Hfs Hv Hlv Hlh.
  destruct c; cbn [ns_view] in Hc; try discriminate; injection Hc as ->;
    cbn [wstep]; unfold on_view, lift; rewrite <- Hv; try rewrite <- Hfs;
    destruct (nth_error (w_views w1) vi) as [v|]; cbn [fst snd w_fs with_fs with_view]; auto;
    repeat break_match; cbn [fst snd w_fs with_fs with_view]; auto; try congruence.
Qed.

(* every call of a history is evaluated on the file system the previous one left,
   whichever views the two calls went through *)
Theorem run_shared (w : world) (c1 c2 : call) :
  let w1 := fst (wstep w c1) in
  wrun w [c1; c2] = (fst (wstep w1 c2), [snd (wstep w c1); snd (wstep w1 c2)]).
Proof.
  cbn [wrun]. destruct (wstep w c1) as [w1 r1]. cbn [fst snd]. destruct (wstep w1 c2). reflexivity.
Qed.
