(* C01 at the level of worlds with the WORKING DIRECTORY: MemFS keeps it as a path string, the kernel as a node.  The
   abstraction [absc] relates them: the string of the implementation's view is a directory walk (link-free, searchable)
   from the root to the specification's node.  Chdir re-establishes it, Getwd reads it back, and clean RELATIVE paths enter
   the step theorem through C04_resolve_rel. *)
From Avfs Require Import Base BaseProofs PathModel PathSpec PathProofs PathCleanProofs PathIterProofs.
From Avfs Require Import MemFS MemFile World Posix Inv InvWorld.
From Avfs Require Import WalkBridge WalkSym WalkBudget WalkReadlink WalkRel StepEq WalkInv WalkEval StepInv StepRename StepRenameDir StepHist.

(* ---- the specification never reads the working-directory STRING of its view ----------------------------------------------- *)
Definition sw_setcwd (sw : sworld) (d : str) : sworld :=
  {| sw_fs := sw_fs sw; sw_sv := {| sv_view := set_cwd (sv_view (sw_sv sw)) d; sv_cwd := sv_cwd (sw_sv sw) |} |}.

Lemma spec_cwd_irrel (phl : bool) (sw : sworld) (c : call) (d : str) :
  match c with
  | CMkdirAll _ _ _ | CRemoveAll _ _ | CEvalSymlinks _ _ | CSetUser _ _ _ _ | CSetUMask _ _ => True
  | _ => spec_step phl (sw_setcwd sw d) c = (sw_setcwd (fst (spec_step phl sw c)) d, snd (spec_step phl sw c))
  end.
Proof.
  destruct sw as [s [v n]]. destruct c; try exact I; try reflexivity.
  - unfold spec_step, sw_setcwd. cbn [sw_fs sw_sv sv_view sv_cwd].
    change (k_open s {| sv_view := set_cwd v d; sv_cwd := n |} p flag perm)
      with (k_open s {| sv_view := v; sv_cwd := n |} p flag perm).
    destruct (k_open s {| sv_view := v; sv_cwd := n |} p flag perm) as [s1 [e|c]]; reflexivity.
  - unfold spec_step, sw_setcwd. cbn [sw_fs sw_sv sv_view sv_cwd].
    change (k_chdir s {| sv_view := set_cwd v d; sv_cwd := n |} p) with (k_chdir s {| sv_view := v; sv_cwd := n |} p).
    destruct (k_chdir s {| sv_view := v; sv_cwd := n |} p); reflexivity.
  - unfold spec_step, sw_setcwd. cbn [sw_fs sw_sv sv_view sv_cwd set_cwd v_user v_root].
    destruct (negb (kperm (f_heap s) n 1 (v_user v))); [reflexivity|].
    destruct (is_ancestor (S (length (f_heap s))) (f_heap s) (v_root v) (v_root v) n); reflexivity.
Qed.

(* ---- the abstraction with the working directory ------------------------------------------------------------------------------ *)
Definition cwd_rel (s : fsys) (sv : sview) (d : str) : Prop :=
  exists bs, Forall good_comp bs /\ d = abs_path bs /\
             dwalk (f_heap s) (v_user (sv_view sv)) (v_root (sv_view sv)) bs = Some (sv_cwd sv).

Definition absc (w : world) (vi : nat) (sw : sworld) (d : str) : Prop :=
  sw_fs sw = w_fs w /\ nth_error (w_views w) vi = Some (set_cwd (sv_view (sw_sv sw)) d) /\ cwd_rel (sw_fs sw) (sw_sv sw) d.

Lemma absc_absw (w : world) (vi : nat) (sw : sworld) (d : str) : absc w vi sw d -> absw w vi (sw_setcwd sw d).
Proof. intros (H1 & H2 & _). split; [exact H1|exact H2]. Qed.

(* ---- Getwd ----------------------------------------------------------------------------------------------------------------------- *)
Section Getwd.
  Variables (h : heap) (u : user) (root : nat).
  Hypothesis I : Inv_heap h.
  Hypothesis Hrd : node_is_dir h root = true.
  Hypothesis Hrp : kperm h root 1 u = true.
  Let Hwf : walk_wf h := Inv_heap_walk_wf h I.

  Lemma find_child_name (p d : nat) (n : str) :
    alookup str_eqb n (children h p) = Some d -> node_is_dir h d = true ->
    find (fun nc => Nat.eqb (snd nc) d) (children h p) = Some (n, d) \/
    exists n', find (fun nc => Nat.eqb (snd nc) d) (children h p) = Some (n', d) /\ n' = n.
  Proof.
    intros Hl Hd. apply alookup_in in Hl.
    destruct (find (fun nc => Nat.eqb (snd nc) d) (children h p)) as [[n' d']|] eqn:Hf.
    - apply find_some in Hf as (Hin & Hd'). cbn [snd] in Hd'. apply Nat.eqb_eq in Hd'. subst d'.
      right. exists n'. split; [reflexivity|].
      exact (proj2 (@I3_single _ I p n' p n d Hin Hl Hd)).
    - exfalso. apply (find_none _ _ Hf (n, d)) in Hl. cbn [snd] in Hl. rewrite Nat.eqb_refl in Hl. discriminate.
  Qed.

  Lemma path_of_dwalk : forall (bs : list str) (d : nat) (acc : str) (f : nat),
    dwalk h u root bs = Some d -> length bs < f ->
    path_of f h root d acc = match bs, acc with [], [] => [SLASH] | _, _ => rpath bs ++ acc end.
  Proof.
    intros bs. induction bs as [|n bs IH] using rev_ind; intros d acc f Hw Hf.
    - injection Hw as <-. destruct f; [lia|]. cbn [path_of]. rewrite Nat.eqb_refl. destruct acc; reflexivity.
    - destruct f as [|f]; [lia|]. cbn [path_of].
      replace (Nat.eqb d root) with false by (symmetry; apply Nat.eqb_neq; exact (dwalk_not_root h u root I bs n d Hw)).
      destruct (dwalk_snoc_inv _ _ _ _ _ _ Hw) as (p & Hp & H2 & H3 & _).
      rewrite (parent_of_dwalk h u root Hwf bs n p d Hp Hw). cbv zeta.
      assert (Hname : match find (fun nc => Nat.eqb (snd nc) d) (children h p) with Some nc => fst nc | None => [] end = n).
      { destruct (find_child_name p d n H2 H3) as [E|(n' & E & ->)]; rewrite E; reflexivity. }
      rewrite Hname. rewrite (IH p (SLASH :: n ++ acc) f Hp) by (rewrite app_length in Hf; cbn [length] in Hf; lia).
      rewrite rpath_app. cbn [rpath]. rewrite app_nil_r, <- !app_assoc. cbn [app].
      destruct bs; reflexivity.
  Qed.

  Theorem getwd_agree (bs : list str) (cwdn : nat) :
    Forall good_comp bs -> dwalk h u root bs = Some cwdn ->
    kperm h cwdn 1 u = true /\ is_ancestor (S (length h)) h root root cwdn = true
    /\ path_of (S (length h)) h root cwdn [] = abs_path bs.
  Proof.
    intros Hg Hw. destruct (dwalk_chain h u bs root cwdn Hw) as (l & Hc & Hl).
    pose proof (InvConseq.chain_short h root l I Hc) as Hs. cbn [length] in Hs.
    split; [exact (proj2 (dwalk_end_dir _ _ _ _ _ Hw Hrd Hrp))|]. split.
    - apply (is_ancestor_of_dwalk h u root I bs [] root cwdn _ eq_refl Hw). lia.
    - rewrite (path_of_dwalk bs cwdn [] _ Hw) by lia. destruct bs as [|b bs]; [reflexivity|].
      rewrite app_nil_r. symmetry. apply abs_path_rpath. discriminate.
  Qed.
End Getwd.
