(* C01 at the level of worlds with the WORKING DIRECTORY: MemFS keeps it as a path string, the kernel as a node.  The
   abstraction [absc] relates them: the string of the implementation's view is a directory walk (link-free, searchable)
   from the root to the specification's node.  Chdir re-establishes it, Getwd reads it back, and clean RELATIVE paths enter
   the step theorem through C04_resolve_rel. *)
From Avfs Require Import Base BaseProofs PathModel PathSpec PathProofs PathCleanProofs PathIterProofs.
From Avfs Require Import MemFS MemFile World Posix Inv InvWorld.
From Avfs Require Import WalkBridge WalkSym WalkBudget WalkReadlink WalkRel StepEq WalkInv WalkEval StepInv StepRename StepRenameDir StepHist DacLemmas.

(* ---- the specification never reads the working-directory STRING of its view ----------------------------------------------- *)
Definition sw_setcwd (sw : sworld) (d : str) : sworld :=
  {| sw_fs := sw_fs sw; sw_sv := {| sv_view := set_cwd (sv_view (sw_sv sw)) d; sv_cwd := sv_cwd (sw_sv sw) |} |}.

Lemma spec_cwd_irrel (phl : bool) (sw : sworld) (c : call) (d : str) :
  match c with
  | CMkdirAll _ _ _ | CRemoveAll _ _ | CEvalSymlinks _ _ | CSetUser _ _ _ _ | CSetUMask _ _ => True
  | _ => spec_step phl (sw_setcwd sw d) c = (sw_setcwd (fst (spec_step phl sw c)) d, snd (spec_step phl sw c))
  end.
Proof.
  destruct sw as [s [v n]]. destruct c; try exact I; try reflexivity.
  - unfold spec_step, sw_setcwd. cbn [sw_fs sw_sv sv_view sv_cwd].
    change (k_open s {| sv_view := set_cwd v d; sv_cwd := n |} p flag perm)
      with (k_open s {| sv_view := v; sv_cwd := n |} p flag perm).
    destruct (k_open s {| sv_view := v; sv_cwd := n |} p flag perm) as [s1 [e|c]]; reflexivity.
  - unfold spec_step, sw_setcwd. cbn [sw_fs sw_sv sv_view sv_cwd].
    change (k_chdir s {| sv_view := set_cwd v d; sv_cwd := n |} p) with (k_chdir s {| sv_view := v; sv_cwd := n |} p).
    destruct (k_chdir s {| sv_view := v; sv_cwd := n |} p); reflexivity.
  - unfold spec_step, sw_setcwd. cbn [sw_fs sw_sv sv_view sv_cwd set_cwd v_user v_root].
    destruct (negb (kperm (f_heap s) n 1 (v_user v))); [reflexivity|].
    destruct (is_ancestor (S (length (f_heap s))) (f_heap s) (v_root v) (v_root v) n); reflexivity.
Qed.

(* ---- the abstraction with the working directory ------------------------------------------------------------------------------ *)
Definition cwd_rel (s : fsys) (sv : sview) (d : str) : Prop :=
  exists bs, Forall good_comp bs /\ d = abs_path bs /\
             dwalk (f_heap s) (v_user (sv_view sv)) (v_root (sv_view sv)) bs = Some (sv_cwd sv).

Definition absc (w : world) (vi : nat) (sw : sworld) (d : str) : Prop :=
  sw_fs sw = w_fs w /\ nth_error (w_views w) vi = Some (set_cwd (sv_view (sw_sv sw)) d) /\ cwd_rel (sw_fs sw) (sw_sv sw) d.

Lemma absc_absw (w : world) (vi : nat) (sw : sworld) (d : str) : absc w vi sw d -> absw w vi (sw_setcwd sw d).
Proof. intros (H1 & H2 & _). split; [exact H1|exact H2]. Qed.

(* ---- Getwd ----------------------------------------------------------------------------------------------------------------------- *)
Section Getwd.
  Variables (h : heap) (u : user) (root : nat).
  Hypothesis I : Inv_heap h.
  Hypothesis Hrd : node_is_dir h root = true.
  Hypothesis Hrp : kperm h root 1 u = true.
  Let Hwf : walk_wf h := Inv_heap_walk_wf h I.

  Lemma find_child_name (p d : nat) (n : str) :
    alookup str_eqb n (children h p) = Some d -> node_is_dir h d = true ->
    find (fun nc => Nat.eqb (snd nc) d) (children h p) = Some (n, d) \/
    exists n', find (fun nc => Nat.eqb (snd nc) d) (children h p) = Some (n', d) /\ n' = n.
  Proof.
    intros Hl Hd. apply alookup_in in Hl.
    destruct (find (fun nc => Nat.eqb (snd nc) d) (children h p)) as [[n' d']|] eqn:Hf.
    - apply find_some in Hf as (Hin & Hd'). cbn [snd] in Hd'. apply Nat.eqb_eq in Hd'. subst d'.
      right. exists n'. split; [reflexivity|].
      exact (proj2 (@I3_single _ I p n' p n d Hin Hl Hd)).
    - exfalso. apply (find_none _ _ Hf (n, d)) in Hl. cbn [snd] in Hl. rewrite Nat.eqb_refl in Hl. discriminate.
  Qed.

  Lemma path_of_dwalk : forall (bs : list str) (d : nat) (acc : str) (f : nat),
    dwalk h u root bs = Some d -> length bs < f ->
    path_of f h root d acc = match bs, acc with [], [] => [SLASH] | _, _ => rpath bs ++ acc end.
  Proof.
    intros bs. induction bs as [|n bs IH] using rev_ind; intros d acc f Hw Hf.
    - injection Hw as <-. destruct f; [lia|]. cbn [path_of]. rewrite Nat.eqb_refl. destruct acc; reflexivity.
    - destruct f as [|f]; [lia|]. cbn [path_of].
      replace (Nat.eqb d root) with false by (symmetry; apply Nat.eqb_neq; exact (dwalk_not_root h u root I bs n d Hw)).
      destruct (dwalk_snoc_inv _ _ _ _ _ _ Hw) as (p & Hp & H2 & H3 & _).
      rewrite (parent_of_dwalk h u root Hwf bs n p d Hp Hw). cbv zeta.
      assert (Hname : match find (fun nc => Nat.eqb (snd nc) d) (children h p) with Some nc => fst nc | None => [] end = n).
      { destruct (find_child_name p d n H2 H3) as [E|(n' & E & ->)]; rewrite E; reflexivity. }
      rewrite Hname. rewrite (IH p (SLASH :: n ++ acc) f Hp) by (rewrite app_length in Hf; cbn [length] in Hf; lia).
      rewrite rpath_app. cbn [rpath]. rewrite app_nil_r, <- !app_assoc. cbn [app].
      destruct bs; reflexivity.
  Qed.

  Theorem getwd_agree (bs : list str) (cwdn : nat) :
    Forall good_comp bs -> dwalk h u root bs = Some cwdn ->
    kperm h cwdn 1 u = true /\ is_ancestor (S (length h)) h root root cwdn = true
    /\ path_of (S (length h)) h root cwdn [] = abs_path bs.
  Proof.
    intros Hg Hw. destruct (dwalk_chain h u bs root cwdn Hw) as (l & Hc & Hl).
    pose proof (InvConseq.chain_short h root l I Hc) as Hs. cbn [length] in Hs.
    split; [exact (proj2 (dwalk_end_dir _ _ _ _ _ Hw Hrd Hrp))|]. split.
    - apply (is_ancestor_of_dwalk h u root I bs [] root cwdn _ eq_refl Hw). lia.
    - rewrite (path_of_dwalk bs cwdn [] _ Hw) by lia. destruct bs as [|b bs]; [reflexivity|].
      rewrite app_nil_r. symmetry. apply abs_path_rpath. discriminate.
  Qed.
End Getwd.

(* ---- the calls of a step with the working directory ----------------------------------------------------------------------------- *)
(* a path on which the two walks are related in the extended sense (with the cursor path) *)
Definition resolvedx (s : fsys) (sv : sview) (slm : slmode) (p : str) : Prop :=
  walk_relx (f_heap s) (v_user (sv_view sv)) (v_root (sv_view sv)) (precise_of slm)
    (search_node s (sv_view sv) p slm) (klookup s sv false (follow_of slm) p)
  /\ sr_err (search_node s (sv_view sv) p slm) <> EFuel.

Lemma resolvedx_resolved s sv slm p : resolvedx s sv slm p -> resolved s sv slm p.
Proof. intros (R & Hnf). split; [apply walk_relx_rel; exact R|exact Hnf]. Qed.

(* Stat, Lstat, Readlink, Chtimes, Chmod, Truncate on ANY resolved path (absolute or relative) *)
Definition covered_res (vi : nat) (sw : sworld) (c : call) : Prop :=
  let s := sw_fs sw in
  let sv := sw_sv sw in
  step_hyps s sv /\
  match c with
  | CStat vi' p => vi' = vi /\ resolved s sv SlStat p
  | CLstat vi' p => vi' = vi /\ resolved s sv SlLstat p
  | CReadlink vi' p => vi' = vi /\ resolved s sv SlLstat p
  | CChtimes vi' p => vi' = vi /\ resolved s sv SlEval p
  | CChmod vi' p _ => vi' = vi /\ resolved s sv SlEval p
  | CTruncate vi' p _ => vi' = vi /\ resolved s sv SlEval p
  | _ => False
  end.

Theorem step_world_res (w : world) (vi : nat) (sw : sworld) (c : call) :
  absw w vi sw -> covered_res vi sw c ->
  obs_sim (snd (impl_step_proj w c)) (snd (spec_step true sw c))
  /\ absw (fst (impl_step_proj w c)) vi (fst (spec_step true sw c)).
Proof.
  intros Ha (H & Hc). pose proof Ha as (Hfs & Hv). destruct c; try (destruct Hc; fail); destruct Hc as (-> & Hr).
  - apply (world_of_ro w vi sw _ (readlink (w_fs w) (sv_view (sw_sv sw)) p) (k_readlink (sw_fs sw) (sw_sv sw) p) Ha).
    + apply (impl_ro w _ _ (wstep_readlink w vi _ Hv p)). exact I.
    + apply spec_readlink.
    + rewrite <- Hfs, (step_readlink_p (sw_fs sw) (sw_sv sw) p H Hr). apply obs_sim_refl.
  - apply (world_of_lift w vi sw _ (truncate (w_fs w) (sv_view (sw_sv sw)) p size) (k_truncate (sw_fs sw) (sw_sv sw) p size) Ha).
    + apply (impl_lift w _ _ (wstep_truncate w vi _ Hv p size)); [left; discriminate|exact I].
    + apply spec_truncate.
    + rewrite <- Hfs. exact (step_truncate_p (sw_fs sw) (sw_sv sw) p size H Hr).
  - apply (world_of_lift w vi sw _ (chmod (w_fs w) (sv_view (sw_sv sw)) p mode) (k_chmod (sw_fs sw) (sw_sv sw) p mode) Ha).
    + apply (impl_lift w _ _ (wstep_chmod w vi _ Hv p mode)); [left; discriminate|exact I].
    + apply spec_chmod.
    + rewrite <- Hfs. exact (step_chmod_p (sw_fs sw) (sw_sv sw) p mode H Hr).
  - apply (world_of_ro w vi sw _ (chtimes (w_fs w) (sv_view (sw_sv sw)) p) (k_utimes (sw_fs sw) (sw_sv sw) p) Ha).
    + apply (impl_ro w _ _ (wstep_chtimes w vi _ Hv p)). exact I.
    + apply spec_chtimes.
    + rewrite <- Hfs, (step_chtimes_p (sw_fs sw) (sw_sv sw) p H Hr). apply obs_sim_refl.
  - apply (world_of_ro w vi sw _ (stat_gen SlStat (w_fs w) (sv_view (sw_sv sw)) p) (k_stat true (sw_fs sw) (sw_sv sw) p) Ha).
    + apply (impl_ro w _ _ (wstep_stat w vi _ Hv p)). exact I.
    + apply spec_stat.
    + rewrite <- Hfs. left. exact (step_stat_p (sw_fs sw) (sw_sv sw) SlStat p H Hr).
  - apply (world_of_ro w vi sw _ (stat_gen SlLstat (w_fs w) (sv_view (sw_sv sw)) p) (k_stat false (sw_fs sw) (sw_sv sw) p) Ha).
    + apply (impl_ro w _ _ (wstep_lstat w vi _ Hv p)). exact I.
    + apply spec_lstat.
    + rewrite <- Hfs. left. exact (step_stat_p (sw_fs sw) (sw_sv sw) SlLstat p H Hr).
Qed.

(* ---- Chdir: the new string is a directory walk to the new node -------------------------------------------------------------------- *)
Lemma klookup_final_any (s : fsys) (sv : sview) (follow : bool) (p : str) :
  match klookup s sv false follow p with
  | WNode par LNorm name n =>
      alookup str_eqb name (children (f_heap s) par) = Some n /\ node_is_dir (f_heap s) par = true
      /\ kperm (f_heap s) par 1 (v_user (sv_view sv)) = true
  | _ => True
  end.
Proof.
  unfold klookup. destruct p as [|c p]; [exact I|].
  pose proof (kwalk_final WALK_FUEL (f_heap s) (v_user (sv_view sv)) (v_root (sv_view sv)) follow
                (if kabs (c :: p) then v_root (sv_view sv) else sv_cwd sv) (kcomps (c :: p)) 0 (ktrailing (c :: p)) _ eq_refl) as F.
  destruct (kwalk WALK_FUEL _ _ _ _ _ _ _ _ _) as [par kind name n| | |]; try exact I. destruct kind; try exact I. exact F.
Qed.

Theorem chdir_rel (s : fsys) (sv : sview) (p : str) :
  step_hyps s sv -> resolvedx s sv SlEval p ->
  match chdir s (sv_view sv) p, k_chdir s sv p with
  | inl r, inl e => proj_res Linux r = SErr e
  | inr d, inr c => exists bs, Forall good_comp bs /\ d = abs_path bs
                               /\ dwalk (f_heap s) (v_user (sv_view sv)) (v_root (sv_view sv)) bs = Some c
  | _, _ => False
  end.
Proof.
  intros H (R & Hnf). pose proof (klookup_final_any s sv true p) as F.
  unfold chdir, k_chdir, win. rewrite (sh_os _ _ H). cbn [ostype_eqb]. change (follow_of SlEval) with true in R.
  change (precise_of SlEval) with true in R.
  destruct (klookup s sv false true p) as [par kind name n|par name md| |e]; cbn [walk_relx] in R.
  - destruct R as (R1 & R2 & R3 & _ & _ & R4 & R5). rewrite R2, R1. cbn [is_file_exists negb]. unfold node_is_dir.
    destruct (get (f_heap s) n) as [[ch m|dt k i m|t m]|] eqn:Hg; cbn [negb]; try reflexivity.
    rewrite (admin_kperm s sv n 1 H) by congruence. unfold check_permission. rewrite (sh_admin _ _ H).
    assert (Hnd : node_is_dir (f_heap s) n = true) by (unfold node_is_dir; rewrite Hg; reflexivity).
    destruct kind; try (destruct (R5 eq_refl ltac:(discriminate)) as (wp & Hgw & Hww & Hpp); exists wp; auto).
    destruct (R4 eq_refl) as (_ & R6). destruct (at_name_views _ _ _ _ _ _ (R6 eq_refl)) as (_ & _ & done & Hpp & Hdw & Hgd).
    destruct F as (F1 & _). exists (done ++ [name]). split; [exact Hgd|]. split; [exact Hpp|].
    apply (dwalk_snoc _ _ _ _ _ _ _ Hdw F1 Hnd). apply (admin_kperm s sv n 1 H). congruence.
  - destruct R as (R1 & R2 & _). rewrite R1. reflexivity.
  - destruct R.
  - destruct R as (R1 & _). destruct (werr_cases _ _ R1 Hnf) as (Hc & ->).
    destruct Hc as [->|[->|[->| ->]]]; reflexivity.
Qed.

(* ---- the step theorem with the working directory -------------------------------------------------------------------------------------- *)
Definition covered_c (vi : nat) (sw : sworld) (d : str) (c : call) : Prop :=
  let sw' := sw_setcwd sw d in
  ((covered_x vi sw' c \/ covered_res vi sw' c) /\ cwd_rel (sw_fs (fst (spec_step true sw c))) (sw_sv sw) d)
  \/ (step_hyps (sw_fs sw') (sw_sv sw') /\ exists p, c = CChdir vi p /\ resolvedx (sw_fs sw') (sw_sv sw') SlEval p)
  \/ (step_hyps (sw_fs sw') (sw_sv sw') /\ Inv_heap (f_heap (sw_fs sw)) /\ c = CGetwd vi).

Lemma irrel_cov (vi : nat) (sw : sworld) (d : str) (c : call) :
  covered_x vi (sw_setcwd sw d) c \/ covered_res vi (sw_setcwd sw d) c ->
  spec_step true (sw_setcwd sw d) c = (sw_setcwd (fst (spec_step true sw c)) d, snd (spec_step true sw c))
  /\ sw_sv (fst (spec_step true sw c)) = sw_sv sw.
Proof.
  intros Hc. pose proof (spec_cwd_irrel true sw c d) as E.
  assert (Hno : match c with CMkdirAll _ _ _ | CRemoveAll _ _ | CEvalSymlinks _ _ | CSetUser _ _ _ _ | CSetUMask _ _
                             | CChdir _ _ => False | _ => True end).
  { destruct c; try exact I; destruct Hc as [[(_ & Hc)|(_ & _ & Hc)]|(_ & Hc)]; exact Hc. }
  destruct c; try contradiction; (split; [exact E|]); try reflexivity.
  all: unfold spec_step; repeat match goal with |- context [match ?x with _ => _ end] => destruct x end; reflexivity.
Qed.

Lemma nth_error_set_nth_ (A : Type) (l : list A) (i : nat) (x y : A) :
  nth_error l i = Some y -> nth_error (set_nth_ l i x) i = Some x.
Proof. revert i. induction l as [|a l IH]; intros [|i] H; cbn in *; try discriminate; auto. Qed.

Theorem step_world_c (w : world) (vi : nat) (sw : sworld) (d : str) (c : call) :
  absc w vi sw d -> covered_c vi sw d c ->
  obs_sim (snd (impl_step_proj w c)) (snd (spec_step true sw c))
  /\ exists d', absc (fst (impl_step_proj w c)) vi (fst (spec_step true sw c)) d'.
Proof.
  intros Ha Hc. pose proof (absc_absw w vi sw d Ha) as Haw. destruct Ha as (Hfs & Hv & Hcw).
  destruct Hc as [(Hc & Hnext)|[(H & p & -> & Hr)|(H & I & ->)]].
  - destruct (irrel_cov vi sw d c Hc) as (E & Esv).
    assert (S : obs_sim (snd (impl_step_proj w c)) (snd (spec_step true (sw_setcwd sw d) c))
                /\ absw (fst (impl_step_proj w c)) vi (fst (spec_step true (sw_setcwd sw d) c))).
    { destruct Hc as [Hc|Hc]; [apply step_world_x|apply step_world_res]; assumption. }
    rewrite E in S. cbn [fst snd] in S. destruct S as (S1 & S2a & S2b). split; [exact S1|]. exists d.
    split; [exact S2a|]. split; [exact S2b|]. rewrite Esv. exact Hnext.
  - (* Chdir *)
    pose proof (chdir_rel (sw_fs (sw_setcwd sw d)) (sw_sv (sw_setcwd sw d)) p H Hr) as C.
    unfold impl_step_proj, wstep, on_view. rewrite Hv. unfold spec_step.
    cbn [sw_setcwd sw_fs sw_sv sv_view] in C. rewrite <- Hfs.
    change (k_chdir (sw_fs sw) {| sv_view := set_cwd (sv_view (sw_sv sw)) d; sv_cwd := sv_cwd (sw_sv sw) |} p)
      with (k_chdir (sw_fs sw) (sw_sv sw) p) in C.
    destruct (chdir (sw_fs sw) (set_cwd (sv_view (sw_sv sw)) d) p) as [r|nd], (k_chdir (sw_fs sw) (sw_sv sw) p) as [e|cn];
      try contradiction; cbn [fst snd].
    + rewrite C. split; [apply obs_sim_refl|]. exists d. split; [exact Hfs|]. split; [exact Hv|exact Hcw].
    + split; [apply obs_sim_refl|]. exists nd. destruct C as (bs & Hg & -> & Hw).
      split; [exact Hfs|]. split.
      * cbn [with_view w_views sw_sv sv_view]. apply (nth_error_set_nth_ _ _ _ _ _ Hv).
      * exists bs. cbn [sw_fs sw_sv sv_view sv_cwd]. auto.
  - (* Getwd *)
    destruct Hcw as (bs & Hg & -> & Hw).
    assert (Hrp : kperm (f_heap (sw_fs sw)) (v_root (sv_view (sw_sv sw))) 1 (v_user (sv_view (sw_sv sw))) = true).
    { apply (admin_kperm _ _ _ 1 H). apply node_is_dir_valid. exact (sh_root _ _ H). }
    destruct (getwd_agree (f_heap (sw_fs sw)) _ _ I (sh_root _ _ H) Hrp bs _ Hg Hw) as (G1 & G2 & G3).
    cbn [sw_setcwd sw_fs sw_sv sv_view set_cwd v_root v_user] in G1, G2, G3.
    unfold impl_step_proj, wstep, on_view. rewrite Hv. rewrite getwd_admin by exact (sh_admin _ _ H).
    unfold spec_step. cbv zeta. rewrite G1. cbn [negb]. rewrite G2, G3.
    cbn [fst snd v_cwd set_cwd].
    split; [apply obs_sim_refl|]. exists (abs_path bs). split; [exact Hfs|]. split; [exact Hv|]. exists bs. auto.
Qed.

(* ---- histories: the working directory string is read off the implementation's view -------------------------------------------------- *)
Definition cwd_of (w : world) (vi : nat) : str :=
  match nth_error (w_views w) vi with Some v => v_cwd v | None => [] end.

Lemma absc_cwd_of (w : world) (vi : nat) (sw : sworld) (d : str) : absc w vi sw d -> cwd_of w vi = d.
Proof. intros (_ & Hv & _). unfold cwd_of. rewrite Hv. reflexivity. Qed.

Fixpoint covered_c_run (vi : nat) (w : world) (sw : sworld) (cs : list call) : Prop :=
  match cs with
  | [] => True
  | c :: cs' => covered_c vi sw (cwd_of w vi) c
                /\ covered_c_run vi (fst (impl_step_proj w c)) (fst (spec_step true sw c)) cs'
  end.

Theorem history_c (vi : nat) : forall (cs : list call) (w : world) (sw : sworld),
  absc w vi sw (cwd_of w vi) -> covered_c_run vi w sw cs ->
  Forall2 obs_sim (snd (impl_run w cs)) (snd (spec_run sw cs))
  /\ absc (fst (impl_run w cs)) vi (fst (spec_run sw cs)) (cwd_of (fst (impl_run w cs)) vi).
Proof.
  induction cs as [|c cs IH]; intros w sw Ha Hc.
  - split; [constructor|exact Ha].
  - destruct Hc as (Hc1 & Hc2). destruct (step_world_c w vi sw _ c Ha Hc1) as (S1 & d' & S2).
    pose proof (absc_cwd_of _ _ _ _ S2) as Ed. rewrite <- Ed in S2.
    destruct (IH _ _ S2 Hc2) as (I1 & I2). cbn [impl_run spec_run fst snd]. split; [constructor; assumption|exact I2].
Qed.

(* ---- non-vacuity: Chdir (absolute, then relative through a link), Getwd, Stat of a relative path, on the link tree ---- *)
Module StepCwdExamples.
  Import WalkSymExamples WalkSymNonVacuity StepExamples StepInvExamples WalkRelExamples.

  Definition c1 := CChdir 0 (abs_path [s_d; s_e]).
  Definition c2 := CGetwd 0.
  Definition c3 := CStat 0 (relp [DD; s_up]).
  Definition c4 := CChdir 0 (relp [s_top]).
  Definition hc : list call := [c1; c2; c3; c4; c2].

  Definition w1 := Eval vm_compute in fst (impl_step_proj w_tree c1).
  Definition sw1 := Eval vm_compute in fst (spec_step true sw_tree c1).
  Definition w4 := Eval vm_compute in fst (impl_step_proj w1 c4).
  Definition sw4 := Eval vm_compute in fst (spec_step true sw1 c4).

  Lemma tree_hyps_any (d : str) (n : nat) :
    step_hyps tree_fs {| sv_view := set_cwd adminv d; sv_cwd := n |}.
  Proof. split; [reflexivity|reflexivity|exact tree_wf|exact tree_links_clean|reflexivity]. Qed.

  Ltac good_tac :=
    repeat constructor; try discriminate;
    let x := fresh "x" in let Hx := fresh "Hx" in
    intros x Hx; cbn in Hx; repeat (destruct Hx as [Hx|Hx]; [subst x; discriminate|]); destruct Hx.

  Example hc_covered : absc w_tree 0 sw_tree (cwd_of w_tree 0) /\ covered_c_run 0 w_tree sw_tree hc.
  Proof.
    split.
    { split; [reflexivity|]. split; [reflexivity|]. exists []. split; [constructor|]. split; reflexivity. }
    unfold hc. cbn [covered_c_run].
    change (fst (impl_step_proj w_tree c1)) with w1. change (fst (spec_step true sw_tree c1)) with sw1.
    change (fst (impl_step_proj w1 c2)) with w1. change (fst (spec_step true sw1 c2)) with sw1.
    change (fst (impl_step_proj w1 c3)) with w1. change (fst (spec_step true sw1 c3)) with sw1.
    change (fst (impl_step_proj w1 c4)) with w4. change (fst (spec_step true sw1 c4)) with sw4.
    split; [|split; [|split; [|split; [|split; [|exact I]]]]].
    - (* Chdir "/d/e" *)
      right; left. split; [apply tree_hyps_any|]. exists (abs_path [s_d; s_e]). split; [reflexivity|]. split.
      + apply (sym_bridge_lookup_x tree_fs _ SlEval [s_d; s_e]); try reflexivity;
          [exact tree_wf|exact tree_links_clean|good_tac|vm_compute; discriminate|vm_compute; discriminate].
      + vm_compute. discriminate.
    - right; right. split; [apply tree_hyps_any|]. split; [exact (@inv_heap _ tree_inv)|reflexivity].
    - (* Stat "../up" from /d/e *)
      left. split.
      + right. split; [apply tree_hyps_any|]. split; [reflexivity|]. split.
        * change (relp [DD; s_up]) with (clean Linux (relp [DD; s_up])).
          apply (sym_bridge_lookup_rel tree_fs _ SlStat [s_d; s_e] (relp [DD; s_up])); try reflexivity;
            [exact tree_wf|exact tree_links_clean|good_tac|vm_compute; discriminate|vm_compute; discriminate].
        * vm_compute. discriminate.
      + exists [s_d; s_e]. split; [good_tac|]. split; reflexivity.
    - (* Chdir "top" (a link to "../../d") *)
      right; left. split; [apply tree_hyps_any|]. exists (relp [s_top]). split; [reflexivity|]. split.
      + change (relp [s_top]) with (clean Linux (relp [s_top])).
        apply (sym_bridge_lookup_rel_x tree_fs _ SlEval [s_d; s_e] (relp [s_top])); try reflexivity;
          [exact tree_wf|exact tree_links_clean|good_tac|vm_compute; discriminate|vm_compute; discriminate].
      + vm_compute. discriminate.
    - right; right. split; [apply tree_hyps_any|]. split; [exact (@inv_heap _ tree_inv)|reflexivity].
  Qed.

  Example hc_agree :
    Forall2 obs_sim (snd (impl_run w_tree hc)) (snd (spec_run sw_tree hc))
    /\ cwd_of (fst (impl_run w_tree hc)) 0 = abs_path [s_d] /\ sv_cwd (sw_sv (fst (spec_run sw_tree hc))) = 1.
  Proof.
    split; [exact (proj1 (history_c 0 hc w_tree sw_tree (proj1 hc_covered) (proj2 hc_covered)))|].
    vm_compute. split; reflexivity.
  Qed.
End StepCwdExamples.
