(* C01: OpenFile with any flag word enters the history theorem on the states of C05. *)
From Avfs Require Import Base BaseProofs PathModel PathSpec PathProofs PathCleanProofs PathIterProofs.
From Avfs Require Import MemFS MemFile World Posix Inv InvMutators InvWorld.
From Avfs Require Import WalkBridge WalkSym WalkBudget WalkReadlink WalkRel StepEq WalkInv StepInv StepRename StepRenameDir
  StepHist StepMkdirAll StepHistM StepOpen.

Definition open_any_ok (vi : nat) (sw : sworld) (c : call) : Prop :=
  let s := sw_fs sw in
  let sv := sw_sv sw in
  step_hyps s sv /\
  match c with
  | COpenFile vi' p flag _ =>
      vi' = vi /\
      ((has flag O_CREATE = false /\ exists cs, p = abs_path cs /\ path_ok s sv SlEval cs)
       \/ (has flag O_CREATE = true /\ has flag O_EXCL = false /\
           exists w cl, p = abs_path (w ++ [cl]) /\ path_ok s sv SlLstat (w ++ [cl]) /\ path_ok s sv SlEval (w ++ [cl]))
       \/ (has flag O_CREATE = true /\ has flag O_EXCL = true /\
           exists w cl, p = abs_path (w ++ [cl]) /\ path_ok s sv SlLstat (w ++ [cl])))
  | _ => False
  end.

Definition covered_o (vi : nat) (sw : sworld) (c : call) : Prop := covered_m vi sw c \/ open_any_ok vi sw c.

Theorem step_world_o (w : world) (vi : nat) (sw : sworld) (c : call) :
  absw w vi sw -> covered_o vi sw c ->
  obs_sim (snd (impl_step_proj w c)) (snd (spec_step true sw c))
  /\ absw (fst (impl_step_proj w c)) vi (fst (spec_step true sw c)).
Proof.
  intros Ha [Hc|(H & Hc)]; [exact (step_world_m w vi sw c Ha Hc)|]. pose proof Ha as (Hfs & Hv).
  destruct c; try (destruct Hc; fail).
  destruct Hc as (-> & [(Hcr & cs & Ep & Hp)|[(Hcr & Hex & ww & cl & Ep & Hp0 & Hp)|(Hcr & Hex & ww & cl & Ep & Hp0)]]);
    apply (world_open w vi sw _ _ _ Ha); rewrite <- Hfs, Ep.
  - exact (step_open_nocreate (sw_fs sw) (sw_sv sw) vi cs flag perm H Hp Hcr).
  - exact (step_open_create (sw_fs sw) (sw_sv sw) vi ww cl flag perm H Hp0 Hp Hcr Hex).
  - exact (step_open_excl (sw_fs sw) (sw_sv sw) vi ww cl flag perm H Hp0 Hcr Hex).
Qed.

Theorem links_ok_spec_step_o (vi : nat) (sw : sworld) (c : call) :
  covered_o vi sw c -> ptr_valid (f_heap (sw_fs sw)) -> links_ok (f_heap (sw_fs sw)) ->
  links_ok (f_heap (sw_fs (fst (spec_step true sw c)))) /\ sw_sv (fst (spec_step true sw c)) = sw_sv sw.
Proof.
  intros [Hc|(_ & Hc)] Hpv Hok; [exact (links_ok_spec_step_m vi sw c Hc Hpv Hok)|].
  destruct c; try (destruct Hc; fail). unfold spec_step.
  pose proof (links_ok_k_open (sw_fs sw) (sw_sv sw) Hpv Hok p flag perm) as H1.
  destruct (k_open (sw_fs sw) (sw_sv sw) p flag perm) as [s1 [e|c]]; cbn [fst sw_fs sw_sv] in *; split; auto.
Qed.

Definition call_ok_o := gen_call_ok covered_o.
Definition call_ok_run_o := gen_call_ok_run covered_o.

Theorem history_inv_o (vi : nat) (cs : list call) (w : world) (sw : sworld) :
  Inv w -> absw w vi sw -> us_admin (v_user (sv_view (sw_sv sw))) = true -> links_ok (f_heap (w_fs w)) ->
  call_ok_run_o vi sw cs ->
  Forall2 obs_sim (snd (impl_run w cs)) (snd (spec_run sw cs))
  /\ absw (fst (impl_run w cs)) vi (fst (spec_run sw cs))
  /\ Inv (fst (impl_run w cs)) /\ links_ok (f_heap (w_fs (fst (impl_run w cs)))).
Proof. exact (gen_history_inv covered_o step_world_o links_ok_spec_step_o vi cs w sw). Qed.

(* ---- non-vacuity ------------------------------------------------------------------------------------------------------------------ *)
Module StepHistOExamples.
  Import WalkSymExamples WalkSymNonVacuity StepExamples StepInvExamples.

  Ltac good_tac :=
    repeat constructor; try discriminate;
    let x := fresh "x" in let Hx := fresh "Hx" in
    intros x Hx; cbn in Hx; repeat (destruct Hx as [Hx|Hx]; [subst x; discriminate|]); destruct Hx.
  Ltac pok := split; [good_tac|split; vm_compute; discriminate].

  (* O_RDWR on a file through a link; O_WRONLY|O_APPEND; O_WRONLY on a directory (EISDIR); O_CREATE|O_EXCL|O_WRONLY of a
     new name, then again (EEXIST); O_CREATE|O_EXCL on a dangling link (EEXIST); O_CREATE|O_RDWR|O_APPEND of the
     existing file; O_RDWR|O_TRUNC *)
  Definition ho : list call :=
    [ COpenFile 0 (abs_path [s_rel]) O_RDWR 0;
      COpenFile 0 (abs_path [s_d; s_e; s_f]) (O_WRONLY + O_APPEND) 0;
      COpenFile 0 (abs_path [s_d]) O_WRONLY 0;
      COpenFile 0 (abs_path ([s_d] ++ [s_x])) (O_CREATE + O_EXCL + O_WRONLY) 420;
      COpenFile 0 (abs_path ([s_d] ++ [s_x])) (O_CREATE + O_EXCL + O_WRONLY) 420;
      COpenFile 0 (abs_path ([] ++ [s_dang])) (O_CREATE + O_EXCL + O_RDWR) 420;
      COpenFile 0 (abs_path ([s_d] ++ [s_x])) (O_CREATE + O_RDWR + O_APPEND) 420;
      COpenFile 0 (abs_path [s_d; s_e; s_f]) (O_RDWR + O_TRUNC) 0 ].

  Example ho_ok : call_ok_run_o 0 sw_tree ho.
  Proof.
    unfold ho. cbn [call_ok_run_o gen_call_ok_run].
    repeat (split; [intros Hsh _ _; right; split; [exact Hsh|]; split; [reflexivity|]|]); try exact I.
    - left. split; [reflexivity|]. exists [s_rel]. split; [reflexivity|pok].
    - left. split; [reflexivity|]. exists [s_d; s_e; s_f]. split; [reflexivity|pok].
    - left. split; [reflexivity|]. exists [s_d]. split; [reflexivity|pok].
    - right. right. split; [reflexivity|]. split; [reflexivity|]. exists [s_d], s_x. split; [reflexivity|pok].
    - right. right. split; [reflexivity|]. split; [reflexivity|]. exists [s_d], s_x. split; [reflexivity|pok].
    - right. right. split; [reflexivity|]. split; [reflexivity|]. exists [], s_dang. split; [reflexivity|pok].
    - right. left. split; [reflexivity|]. split; [reflexivity|]. exists [s_d], s_x. split; [reflexivity|].
      split; [pok|pok].
    - left. split; [reflexivity|]. exists [s_d; s_e; s_f]. split; [reflexivity|pok].
  Qed.

  Example ho_inv :
    Forall2 obs_sim (snd (impl_run w_tree ho)) (snd (spec_run sw_tree ho))
    /\ absw (fst (impl_run w_tree ho)) 0 (fst (spec_run sw_tree ho))
    /\ Inv (fst (impl_run w_tree ho)) /\ links_ok (f_heap (w_fs (fst (impl_run w_tree ho)))).
  Proof. exact (history_inv_o 0 ho w_tree sw_tree tree_inv (proj1 hist_covered) eq_refl tree_links_ok ho_ok). Qed.

  Example ho_results :
    snd (spec_run sw_tree ho) = [SOk; SOk; SErr EISDIR; SOk; SErr EEXIST; SErr EEXIST; SOk; SOk].
  Proof. vm_compute. reflexivity. Qed.
End StepHistOExamples.
