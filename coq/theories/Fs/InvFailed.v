(* Property C05: a call that fails leaves the file system value exactly as it
   was (RemoveAll excepted: it is documented to remove what it can).  Proved
   by inspection of every result-producing branch of every call; the one call
   that acts in two steps (WriteFile = OpenFile ; Write) needs an argument:
   after a successful OpenFile(O_WRONLY|O_CREATE|O_TRUNC) the Write cannot
   fail on a regular file, and on anything else OpenFile changed nothing. *)
From Avfs Require Import Base BaseProofs PathModel MemFS MemFile World Inv InvMutators InvCalls.

Definition is_err (r : res) : bool :=
  match r with RFail _ | RErrPath _ _ | RPanic | RDeadlock => true | _ => false end.

Ltac brk_all :=
  cbv zeta;
  repeat match goal with
         | |- context [match ?x with _ => _ end] => destruct x
         end;
  cbn [fst snd is_err]; intros; try reflexivity; try discriminate.

Definition keeps (s : fsys) (x : fsys * res) : Prop := is_err (snd x) = true -> fst x = s.

Lemma mkdir_failed s v name perm : keeps s (mkdir s v name perm).
Proof. unfold keeps, mkdir. brk_all. Qed.

Lemma mkdir_all_failed s v path perm : keeps s (mkdir_all s v path perm).
Proof. unfold keeps, mkdir_all. brk_all. Qed.

Lemma remove_failed s v name : keeps s (remove s v name).
Proof. unfold keeps, remove. brk_all. Qed.

Lemma rename_failed s v o n : keeps s (rename s v o n).
Proof. unfold keeps, rename. brk_all. Qed.

Lemma link_failed s v o n : keeps s (link s v o n).
Proof. unfold keeps, link. brk_all. Qed.

Lemma symlink_failed s v o n : keeps s (symlink s v o n).
Proof. unfold keeps, symlink. brk_all. Qed.

Lemma truncate_failed s v name size : keeps s (truncate s v name size).
Proof. unfold keeps, truncate. brk_all. Qed.

Lemma chmod_failed s v name mode : keeps s (chmod s v name mode).
Proof. unfold keeps, chmod. brk_all. Qed.

Lemma chown_gen_failed slm s v name uid gid : keeps s (chown_gen slm s v name uid gid).
Proof. unfold keeps, chown_gen. brk_all. Qed.

Lemma f_write_failed s v f b : is_err (snd (f_write s v f b)) = true -> fst (fst (f_write s v f b)) = s.
Proof. unfold f_write. brk_all. Qed.

Lemma f_write_at_failed s v f b off : keeps s (f_write_at s v f b off).
Proof. unfold keeps, f_write_at. brk_all. Qed.

Lemma f_truncate_failed s v f size : keeps s (f_truncate s v f size).
Proof. unfold keeps, f_truncate. brk_all. Qed.

Lemma f_chmod_failed s v f mode : keeps s (f_chmod s v f mode).
Proof. unfold keeps, f_chmod. brk_all. Qed.

Lemma f_chown_failed s v f uid gid : keeps s (f_chown s v f uid gid).
Proof. unfold keeps, f_chown. brk_all. Qed.

(* OpenFile: an error result comes with the unchanged state; a handle comes with a
   non-empty name, the requested mode, and either the unchanged state or a regular file *)
Definition open_shape (s : fsys) (name : str) (om : N) (x : fsys * (res + handle)) : Prop :=
  match snd x with
  | inl _ => fst x = s
  | inr f => hd_name f = name /\ name <> [] /\ hd_mode f = om /\
             exists c, hd_node f = Some c /\
                       (fst x = s \/ exists d k i m, get (f_heap (fst x)) c = Some (NFile d k i m))
  end.

Lemma oe_shape s v vi name om c : name <> [] -> open_shape s name om (oe s v vi name om c).
Proof.
  intros Hn. unfold oe, open_shape.
  destruct (get (f_heap s) c) as [[ch m|d k i m|lk m]|] eqn:Eg.
  - destruct (has om OpenCreateExcl); [reflexivity|].
    destruct (has om OpenWrite || has om OpenCreate || has om OpenTruncate); [reflexivity|].
    destruct (negb (check_permission m om (v_user v))); [reflexivity|].
    cbn [snd fst new_handle hd_name hd_mode hd_node]. repeat split; eauto.
  - destruct (negb (check_permission m (if has om OpenTruncate then N.lor om OpenWrite else om) (v_user v)));
      [reflexivity|].
    destruct (has om OpenCreateExcl); [reflexivity|].
    cbv zeta. cbn [snd fst new_handle hd_name hd_mode hd_node with_heap f_heap]. repeat split; auto.
    exists c. split; auto. right. exists (if has om OpenTruncate then [] else d), k, i,
      (if has om OpenTruncate then drop_privs (v_user v) m else m).
    apply get_upd_same. eapply get_lt; eauto.
  - cbn [snd fst new_handle hd_name hd_mode hd_node]. repeat split; eauto.
  - cbn [snd fst new_handle hd_name hd_mode hd_node]. repeat split; eauto.
Qed.

Lemma open_file_shape s v vi name flag perm :
  open_shape s name (to_open_mode flag) (open_file s v vi name flag perm).
Proof.
  rewrite open_file_unfold. destruct name as [|b0 name0]; [reflexivity|].
  assert (Hn : b0 :: name0 <> []) by discriminate. set (name := b0 :: name0) in *. cbv zeta.
  set (r := search_node s v name _).
  destruct ((negb (is_file_exists (sr_err r)) && negb (is_not_exist (sr_err r))) || negb (pi_is_last (sr_pi r)));
    [reflexivity|].
  match goal with |- context [if ?b then (s, inl (RFail (sr_err r))) else _] => destruct b end; [reflexivity|].
  destruct (is_not_exist (sr_err r)).
  - destruct (negb (has (to_open_mode flag) OpenCreate)); [reflexivity|].
    destruct (sr_parent r) as [p|]; [|reflexivity].
    destruct (negb (perm_on (f_heap s) p (N.lor OpenWrite OpenLookup) (v_user v))); [reflexivity|].
    destruct (alk (pi_part (sr_pi r)) (children (f_heap s) p)) as [c|]; [now apply oe_shape|].
    cbn [create_file]. unfold open_shape. cbn [snd fst new_handle hd_name hd_mode hd_node f_heap].
    repeat split; auto. eexists. split; [reflexivity|]. right.
    set (x := NFile [] 1 (f_last_id s + 1)%N (new_meta v (meta_of (f_heap s) p) (file_mode (v_os v)) perm)).
    exists [], 1%Z, (f_last_id s + 1)%N, (new_meta v (meta_of (f_heap s) p) (file_mode (v_os v)) perm).
    unfold add_child. destruct (get (f_heap s ++ [x]) p) as [[ch m| |]|] eqn:Ep; try apply get_app_new.
    rewrite get_upd_other; [apply get_app_new|].
    intros ->. rewrite get_app_new in Ep. discriminate.
  - destruct (sr_child r) as [c|]; [now apply oe_shape | reflexivity].
Qed.

Lemma write_mode_ok : has (to_open_mode (O_WRONLY + O_CREATE + O_TRUNC)) OpenWrite = true.
Proof. vm_compute. reflexivity. Qed.

Lemma write_file_failed s v name data perm : keeps s (write_file s v name data perm).
Proof.
  unfold keeps, write_file.
  pose proof (open_file_shape s v 0 name (O_WRONLY + O_CREATE + O_TRUNC)%N perm) as Hs.
  destruct (open_file s v 0 name (O_WRONLY + O_CREATE + O_TRUNC)%N perm) as [s1 [r|f]]; [reflexivity|].
  unfold open_shape in Hs. cbn [fst snd] in Hs. destruct Hs as (Hname & Hne & Hmode & c & Hc & Hs).
  pose proof (f_write_failed s1 v f data) as Hw.
  destruct Hs as [->|(d & k & i & m & Hg)].
  - destruct (f_write s v f data) as [[s2 f'] r]. cbn [fst snd] in *. destruct r; cbn [fst snd is_err] in *; auto; discriminate.
  - (* a regular file opened for writing: the write succeeds *)
    unfold f_write in *. rewrite Hname, Hc, Hmode, write_mode_ok in *.
    destruct name; [congruence|]. unfold file_of in *. rewrite Hg in *. cbn [negb fst snd is_err] in *.
    destruct data; cbn [fst snd is_err] in *; intros; discriminate.
Qed.

(* ---- the world ----------------------------------------------------------------------------------- *)
Definition not_remove_all (c : call) : Prop := match c with CRemoveAll _ _ => False | _ => True end.

Theorem failed_keeps_fs w c :
  not_remove_all c -> is_err (snd (wstep w c)) = true -> w_fs (fst (wstep w c)) = w_fs w.
Proof.
  intros Hc. destruct c; cbn [not_remove_all] in Hc; try contradiction; cbn [wstep]; unfold on_view, on_handle, lift.
  1-24: destruct (nth_error (w_views w) vi) as [v|]; [|reflexivity]; cbn [fst snd with_fs w_fs].
  - apply mkdir_failed.
  - apply mkdir_all_failed.
  - pose proof (open_file_shape (w_fs w) v vi p flag perm) as Hs. unfold open_shape in Hs.
    destruct (open_file (w_fs w) v vi p flag perm) as [s1 [r|f]]; cbn [fst snd with_fs w_fs is_err] in *; auto.
    discriminate.
  - apply remove_failed.
  - apply rename_failed.
  - apply link_failed.
  - apply symlink_failed.
  - reflexivity.
  - apply truncate_failed.
  - apply chmod_failed.
  - apply chown_gen_failed.
  - apply chown_gen_failed.
  - reflexivity.
  - destruct (chdir (w_fs w) v p); reflexivity.
  - reflexivity.
  - reflexivity.
  - reflexivity.
  - reflexivity.
  - reflexivity.
  - reflexivity.
  - apply write_file_failed.
  - destruct (sub (w_fs w) v p); reflexivity.
  - reflexivity.
  - reflexivity.
  - destruct (nth_error (w_handles w) hi) as [f|]; [|reflexivity].
    destruct (nth_error (w_views w) (hd_view f)) as [v|]; [|reflexivity].
    destruct (f_read (w_fs w) v f n). reflexivity.
  - destruct (nth_error (w_handles w) hi) as [f|]; [|reflexivity].
    destruct (nth_error (w_views w) (hd_view f)) as [v|]; reflexivity.
  - destruct (nth_error (w_handles w) hi) as [f|]; [|reflexivity].
    destruct (nth_error (w_views w) (hd_view f)) as [v|]; [|reflexivity].
    pose proof (f_write_failed (w_fs w) v f b) as H.
    destruct (f_write (w_fs w) v f b) as [[s1 f'] r]. cbn [fst snd with_handle with_fs w_fs] in *. exact H.
  - destruct (nth_error (w_handles w) hi) as [f|]; [|reflexivity].
    destruct (nth_error (w_views w) (hd_view f)) as [v|]; [|reflexivity].
    cbn [fst snd with_fs w_fs]. apply f_write_at_failed.
  - destruct (nth_error (w_handles w) hi) as [f|]; [|reflexivity].
    destruct (nth_error (w_views w) (hd_view f)) as [v|]; [|reflexivity].
    destruct (f_seek (w_fs w) v f off whence). reflexivity.
  - destruct (nth_error (w_handles w) hi) as [f|]; [|reflexivity].
    destruct (nth_error (w_views w) (hd_view f)) as [v|]; [|reflexivity].
    cbn [fst snd with_fs w_fs]. apply f_truncate_failed.
  - destruct (nth_error (w_handles w) hi) as [f|]; [|reflexivity].
    destruct (nth_error (w_views w) (hd_view f)) as [v|]; reflexivity.
  - destruct (nth_error (w_handles w) hi) as [f|]; [|reflexivity].
    destruct (nth_error (w_views w) (hd_view f)) as [v|]; reflexivity.
  - destruct (nth_error (w_handles w) hi) as [f|]; [|reflexivity].
    destruct (nth_error (w_views w) (hd_view f)) as [v|]; [|reflexivity].
    cbn [fst snd with_fs w_fs]. apply f_chmod_failed.
  - destruct (nth_error (w_handles w) hi) as [f|]; [|reflexivity].
    destruct (nth_error (w_views w) (hd_view f)) as [v|]; [|reflexivity].
    cbn [fst snd with_fs w_fs]. apply f_chown_failed.
  - destruct (nth_error (w_handles w) hi) as [f|]; [|reflexivity].
    destruct (nth_error (w_views w) (hd_view f)) as [v|]; [|reflexivity].
    destruct (f_chdir (w_fs w) v f); reflexivity.
  - destruct (nth_error (w_handles w) hi) as [f|]; [|reflexivity].
    destruct (nth_error (w_views w) (hd_view f)) as [v|]; [|reflexivity].
    destruct (f_close f). reflexivity.
  - destruct (nth_error (w_handles w) hi) as [f|]; [|reflexivity].
    destruct (nth_error (w_views w) (hd_view f)) as [v|]; [|reflexivity].
    destruct (f_read_dir (w_fs w) v f n). reflexivity.
  - destruct (nth_error (w_handles w) hi) as [f|]; [|reflexivity].
    destruct (nth_error (w_views w) (hd_view f)) as [v|]; [|reflexivity].
    destruct (f_readdirnames (w_fs w) v f n). reflexivity.
Qed.
