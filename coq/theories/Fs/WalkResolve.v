(* Path resolution of the MemFS model along a chain of real, searchable directories:
   searchNode on the clean absolute path "/c1/.../ck/n" whose prefix c1..ck descends through
   directories the user may search arrives at the last component in the directory the chain
   ends in.  From it: what Lstat and ReadDir of such a path return, in terms of the nodes. *)
From Avfs Require Import Base PathModel PathSpec PathProofs PathCleanProofs PathIterProofs MemFS MemFile.
Set Implicit Arguments.

(* descending from directory [d] along names, entering only directories the user may search *)
Fixpoint descend (h : heap) (u : user) (d : nat) (ns : list str) : option nat :=
  match ns with
  | [] => Some d
  | n :: ns' =>
      match alookup str_eqb n (children h d) with
      | Some c =>
          match get h c with
          | Some (NDir _ m) => if check_permission m OpenLookup u then descend h u c ns' else None
          | _ => None
          end
      | None => None
      end
  end.

Lemma descend_app h u d a b :
  descend h u d (a ++ b) = match descend h u d a with Some d' => descend h u d' b | None => None end.
Proof.
  revert d. induction a as [|n a IH]; intros d; [reflexivity|]. cbn [app descend].
  destruct (alookup str_eqb n (children h d)) as [c|]; [|reflexivity].
  destruct (get h c) as [[ch m| |]|]; try reflexivity.
  destruct (check_permission m OpenLookup u); [apply IH|reflexivity].
Qed.

Section Search.
  Variable h : heap.
  Variable v : view.
  Hypothesis Hos : v_os v = Linux.
  Variable slm : slmode.
  Variable vol : nat.
  Variable saved : option piter.
  Variable k : nat.

  (* search permission on the root directory of the walk (checked whenever the walk stands on it) *)
  Definition root_x (vol0 : nat) : bool :=
    match get h vol0 with Some n => check_permission (node_meta n) OpenLookup (v_user v) | None => false end.
  Hypothesis Hvx : root_x vol = true.

  Lemma root_check (parent : nat) :
    Nat.eqb parent vol && negb (match get h parent with
                                | Some n => check_permission (node_meta n) OpenLookup (v_user v)
                                | None => false end) = false.
  Proof.
    destruct (Nat.eqb_spec parent vol) as [->|Hne]; [|reflexivity]. unfold root_x in Hvx. rewrite Hvx. reflexivity.
  Qed.

  Lemma search_descend (cs : list str) : Forall comp_ok cs ->
    forall (ns done : list str) (n : str) (parent dl : nat) (pi : piter) (fuel : nat),
    cs = done ++ ns ++ [n] -> before cs done pi ->
    descend h (v_user v) parent ns = Some dl ->
    length ns < fuel ->
    exists pi', before cs (done ++ ns) pi' /\
      search_loop fuel h v slm vol parent pi k saved = search_loop (fuel - length ns) h v slm vol dl pi' k saved.
  Proof.
    intros Hok. induction ns as [|n1 ns IH]; intros done n parent dl pi fuel Hcs Hb Hd Hf.
    - cbn [descend] in Hd. injection Hd as <-. exists pi. rewrite app_nil_r. cbn [length].
      rewrite Nat.sub_0_r. split; [exact Hb|reflexivity].
    - destruct fuel as [|f]; [cbn [length] in Hf; lia|].
      cbn [descend] in Hd.
      destruct (alookup str_eqb n1 (children h parent)) as [c|] eqn:Hl; [|discriminate].
      destruct (get h c) as [[ch m| |]|] eqn:Hg; try discriminate.
      destruct (check_permission m OpenLookup (v_user v)) eqn:Hp; [|discriminate].
      cbn [search_loop]. rewrite Hos.
      assert (Hcs' : cs = done ++ n1 :: (ns ++ [n])) by (rewrite Hcs; reflexivity).
      rewrite (@pi_next_step cs done (n1 :: ns ++ [n]) pi Hok Hcs' Hb). cbn [negb].
      pose proof (on_comp_views done (ns ++ [n]) n1) as Hv. cbv zeta in Hv. rewrite <- Hcs' in Hv.
      destruct Hv as (Hpart & _ & _ & _ & _ & Hlast).
      rewrite Hpart, Hlast.
      replace (match ns ++ [n] with [] => true | _ :: _ => false end) with false by (destruct ns; reflexivity).
      rewrite root_check, Hl, Hg, Hp.
      destruct (IH (done ++ [n1]) n c dl (on_comp cs done n1) f) as (pi' & Hb' & Heq).
      + rewrite Hcs, <- app_assoc. reflexivity.
      + apply on_comp_before.
      + exact Hd.
      + cbn [length] in Hf. lia.
      + exists pi'. split; [rewrite <- app_assoc in Hb'; exact Hb'|].
        rewrite Heq. cbn [length]. reflexivity.
  Qed.

  (* the step on the last component *)
  Lemma search_last (cs done : list str) (n : str) (dl : nat) (pi : piter) (f : nat) :
    Forall comp_ok cs -> cs = done ++ [n] -> before cs done pi ->
    search_loop (S f) h v slm vol dl pi k saved =
    let pi1 := on_comp cs done n in
    match alookup str_eqb n (children h dl) with
    | None => {| sr_parent := Some dl; sr_child := None; sr_pi := out_pi pi1 saved; sr_err := ENoSuchFile |}
    | Some c =>
        let ret e := {| sr_parent := Some dl; sr_child := Some c; sr_pi := out_pi pi1 saved; sr_err := e |} in
        match get h c with
        | None => ret EFuel
        | Some (NDir _ _) => ret EFileExists
        | Some (NFile _ _ _ _) => ret EFileExists
        | Some (NSym link _) =>
            if slmode_eqb slm SlLstat then ret EFileExists
            else if Nat.ltb slCountMax (S k) then ret ETooManySymlinks
            else
              let saved' := match saved with
                            | None => if slmode_eqb slm SlStat then Some pi1 else None
                            | Some _ => saved
                            end in
              let '(reset, pi2) := pi_replace_part Linux pi1 link in
              search_loop f h v slm vol (if reset then vol else dl) pi2 (S k) saved'
        end
    end.
  Proof.
    intros Hok Hcs Hb. cbn [search_loop]. rewrite Hos.
    rewrite (@pi_next_step cs done [n] pi Hok Hcs Hb). cbn [negb].
    pose proof (on_comp_views done [] n) as Hv. cbv zeta in Hv. rewrite <- Hcs in Hv.
    destruct Hv as (Hpart & _ & _ & _ & _ & Hlast). rewrite Hpart, Hlast, root_check.
    destruct (alookup str_eqb n (children h dl)) as [c|]; [|reflexivity].
    destruct (get h c) as [[ch m| |]|]; try reflexivity.
  Qed.

  (* the root directory is not searchable: any name is refused on the first step *)
End Search.

Section SearchRootBlocked.
  Variable h : heap.
  Variable v : view.
  Hypothesis Hos : v_os v = Linux.
  Variable slm : slmode.
  Variable vol : nat.
  Variable saved : option piter.
  Variable k : nat.
  Hypothesis Hvx : root_x h v vol = false.

  Lemma search_root_blocked (cs : list str) (c1 : str) (rest : list str) (pi : piter) (f : nat) :
    Forall comp_ok cs -> cs = c1 :: rest -> before cs [] pi ->
    sr_err (search_loop (S f) h v slm vol vol pi k saved) = EPermDenied.
  Proof.
    intros Hok Hcs Hb. cbn [search_loop]. rewrite Hos.
    assert (Hcs' : cs = [] ++ c1 :: rest) by exact Hcs.
    rewrite (@pi_next_step cs [] (c1 :: rest) pi Hok Hcs' Hb). cbn [negb].
    rewrite Nat.eqb_refl. unfold root_x in Hvx. rewrite Hvx. reflexivity.
  Qed.
End SearchRootBlocked.

(* ---- Lstat / OpenFile / ReadDir / Readdirnames of a resolved clean absolute path ------------ *)
Section Resolved.
  Variable s : fsys.
  Variable v : view.
  Hypothesis Hos : v_os v = Linux.
  Let h := f_heap s.
  Let u := v_user v.
  Let r0 := v_root v.

  Lemma abs_abs_path (cs : list str) : Forall good_comp cs -> abs (v_os v) (v_cwd v) (abs_path cs) = abs_path cs.
  Proof. intros Hg. rewrite Hos. unfold abs. cbn [abs_path is_abs]. rewrite N.eqb_refl. apply (clean_abs_path_fix Hg). Qed.

  Lemma search_node_abs (cs : list str) (slm : slmode) : Forall good_comp cs ->
    search_node s v (abs_path cs) slm
    = search_loop SEARCH_FUEL h v slm r0 r0 (pi_new Linux (abs_path cs)) 0 None.
  Proof.
    intros Hg. unfold search_node. rewrite (abs_abs_path Hg), Hos. reflexivity.
  Qed.

  (* search permission on the root directory of the view *)
  Definition rootx : bool := root_x h v r0.

  (* [resolves cs c]: "/c1/.../ck" names node c through searchable real directories (the root included as soon
     as a name is looked up in it) *)
  Definition resolves (cs : list str) (c : nat) : Prop :=
    (cs = [] /\ c = r0) \/
    exists ns n dl, cs = ns ++ [n] /\ rootx = true /\ descend h u r0 ns = Some dl /\ alookup str_eqb n (children h dl) = Some c.

  (* the last directory of the chain is not searchable: the name below it is refused *)
  Definition blocked (cs : list str) : Prop :=
    (cs <> [] /\ rootx = false) \/
    (rootx = true /\
     exists ns nb n dl c m chb, cs = ns ++ [nb; n] /\ descend h u r0 ns = Some dl /\
      alookup str_eqb nb (children h dl) = Some c /\ get h c = Some (NDir chb m) /\
      check_permission m OpenLookup u = false).

  Lemma search_root (slm : slmode) (f : nat) :
    search_loop (S f) h v slm r0 r0 (pi_new Linux (abs_path [])) 0 None
    = {| sr_parent := Some r0; sr_child := Some r0; sr_pi := snd (pi_next Linux (pi_new Linux (abs_path []))); sr_err := EFileExists |}.
  Proof. cbn [search_loop]. rewrite Hos. reflexivity. Qed.

  Lemma fuel_S (n : nat) : n < SEARCH_FUEL -> exists f, SEARCH_FUEL - n = S f.
  Proof. intros H. destruct (SEARCH_FUEL - n) eqn:E; [lia|eauto]. Qed.

  Lemma search_resolved (cs : list str) (c : nat) (slm : slmode) (nd : node) :
    Forall good_comp cs -> length cs < SEARCH_FUEL -> resolves cs c -> get h c = Some nd ->
    (slm = SlLstat \/ match nd with NSym _ _ => False | _ => True end) ->
    let r := search_node s v (abs_path cs) slm in
    sr_child r = Some c /\ sr_err r = EFileExists /\ pi_is_last (sr_pi r) = true.
  Proof.
    intros Hg Hlen Hres Hnd Hk r. subst r. rewrite (search_node_abs slm Hg).
    pose proof (Forall_comp_ok_of Hg) as Hok.
    destruct Hres as [(-> & ->)|(ns & n & dl & Hcs & Hrx & Hd & Hl)].
    - destruct (@fuel_S 0) as (f & Hf); [cbn [length] in Hlen; lia|]. rewrite Nat.sub_0_r in Hf.
      rewrite Hf, search_root. cbn. auto.
    - assert (Hlen' : length ns < SEARCH_FUEL) by (rewrite Hcs, app_length in Hlen; cbn [length] in Hlen; lia).
      destruct (@search_descend h v Hos slm r0 None 0 Hrx cs Hok ns [] n r0 dl (pi_new Linux (abs_path cs)) SEARCH_FUEL)
        as (pi' & Hb' & Heq); [exact Hcs|apply pi_new_before|exact Hd|exact Hlen'|].
      rewrite Heq. destruct (fuel_S Hlen') as (f & Hf). rewrite Hf.
      cbn [app] in Hb'.
      rewrite (@search_last h v Hos slm r0 None 0 Hrx cs ns n dl pi' f Hok Hcs Hb'). cbv zeta.
      fold h. rewrite Hl. fold h in Hnd. rewrite Hnd.
      pose proof (on_comp_views ns [] n) as Hv. cbv zeta in Hv. rewrite <- Hcs in Hv.
      destruct Hv as (_ & _ & _ & _ & _ & Hlast).
      destruct nd as [ch m|d kk i m|lnk m]; cbn [out_pi sr_child sr_err sr_pi]; auto.
      destruct Hk as [->|[]]. cbn [slmode_eqb]. cbn. auto.
  Qed.

  Lemma search_missing (ns : list str) (n : str) (dl : nat) (slm : slmode) :
    Forall good_comp (ns ++ [n]) -> length ns < SEARCH_FUEL -> rootx = true ->
    descend h u r0 ns = Some dl -> alookup str_eqb n (children h dl) = None ->
    let r := search_node s v (abs_path (ns ++ [n])) slm in
    sr_child r = None /\ sr_err r = ENoSuchFile.
  Proof.
    intros Hg Hlen Hrx Hd Hl r. subst r. rewrite (search_node_abs slm Hg).
    pose proof (Forall_comp_ok_of Hg) as Hok.
    destruct (@search_descend h v Hos slm r0 None 0 Hrx (ns ++ [n]) Hok ns [] n r0 dl (pi_new Linux (abs_path (ns ++ [n]))) SEARCH_FUEL)
      as (pi' & Hb' & Heq); [reflexivity|apply pi_new_before|exact Hd|exact Hlen|].
    rewrite Heq. destruct (fuel_S Hlen) as (f & Hf). rewrite Hf. cbn [app] in Hb'.
    rewrite (@search_last h v Hos slm r0 None 0 Hrx (ns ++ [n]) ns n dl pi' f Hok eq_refl Hb'). cbv zeta.
    fold h. rewrite Hl. cbn. auto.
  Qed.

  Lemma search_blocked (cs : list str) (slm : slmode) :
    Forall good_comp cs -> length cs < SEARCH_FUEL -> blocked cs ->
    sr_err (search_node s v (abs_path cs) slm) = EPermDenied.
  Proof.
    intros Hg Hlen [(Hne & Hrx)|(Hrx & ns & nb & n & dl & c & m & chb & Hcs & Hd & Hl & Hgc & Hp)];
      rewrite (search_node_abs slm Hg); pose proof (Forall_comp_ok_of Hg) as Hok.
    { destruct cs as [|c1 rest]; [congruence|].
      destruct (@fuel_S 0) as (f & Hf); [lia|]. rewrite Nat.sub_0_r in Hf. rewrite Hf.
      apply (@search_root_blocked h v Hos slm r0 None 0 Hrx (c1 :: rest) c1 rest _ f Hok eq_refl). apply pi_new_before. }
    assert (Hlen' : length ns < SEARCH_FUEL) by (rewrite Hcs, app_length in Hlen; cbn [length] in Hlen; lia).
    (* walk to the blocked directory's parent, seen as "last component" of the shorter chain ns ++ [nb], then one more step *)
    assert (Hcs2 : cs = [] ++ ns ++ [nb] ++ [n]) by (rewrite Hcs; reflexivity).
    revert Hcs2. generalize (@nil str) at 1. intros done0 Hcs2.
    assert (Hgen : forall (ns : list str) (done : list str) (parent : nat) (pi : piter) (fuel : nat),
      cs = done ++ ns ++ [nb; n] -> before cs done pi -> descend h u parent ns = Some dl -> length ns < fuel ->
      sr_err (search_loop fuel h v slm r0 parent pi 0 None) = EPermDenied).
    { clear Hcs Hcs2 Hd Hlen Hlen' ns done0.
      induction ns as [|n1 ns IH]; intros done parent pi fuel Hcs Hb Hd Hf.
      - cbn [descend] in Hd. injection Hd as ->. destruct fuel as [|f]; [cbn [length] in Hf; lia|].
        cbn [search_loop]. rewrite Hos.
        assert (Hcs' : cs = done ++ nb :: [n]) by (rewrite Hcs; reflexivity).
        rewrite (@pi_next_step cs done (nb :: [n]) pi Hok Hcs' Hb). cbn [negb].
        pose proof (on_comp_views done [n] nb) as Hv. cbv zeta in Hv. rewrite <- Hcs' in Hv.
        destruct Hv as (Hpart & _ & _ & _ & _ & Hlast). rewrite Hpart, Hlast.
        rewrite (@root_check h v r0 Hrx).
        fold h. rewrite Hl, Hgc. fold u. rewrite Hp. reflexivity.
      - destruct fuel as [|f]; [cbn [length] in Hf; lia|].
        cbn [descend] in Hd.
        destruct (alookup str_eqb n1 (children h parent)) as [c1|] eqn:Hl1; [|discriminate].
        destruct (get h c1) as [[ch1 m1| |]|] eqn:Hg1; try discriminate.
        destruct (check_permission m1 OpenLookup u) eqn:Hp1; [|discriminate].
        cbn [search_loop]. rewrite Hos.
        assert (Hcs' : cs = done ++ n1 :: (ns ++ [nb; n])) by (rewrite Hcs; reflexivity).
        rewrite (@pi_next_step cs done (n1 :: ns ++ [nb; n]) pi Hok Hcs' Hb). cbn [negb].
        pose proof (on_comp_views done (ns ++ [nb; n]) n1) as Hv. cbv zeta in Hv. rewrite <- Hcs' in Hv.
        destruct Hv as (Hpart & _ & _ & _ & _ & Hlast). rewrite Hpart, Hlast.
        replace (match ns ++ [nb; n] with [] => true | _ :: _ => false end) with false by (destruct ns; reflexivity).
        rewrite (@root_check h v r0 Hrx).
        fold h. rewrite Hl1, Hg1. fold u. rewrite Hp1.
        apply (IH (done ++ [n1]) c1 (on_comp cs done n1) f).
        + rewrite Hcs, <- app_assoc. reflexivity.
        + apply on_comp_before.
        + exact Hd.
        + cbn [length] in Hf. lia. }
    apply (Hgen ns [] r0 (pi_new Linux (abs_path cs)) SEARCH_FUEL); [exact Hcs|apply pi_new_before|exact Hd|exact Hlen'].
  Qed.
End Resolved.
