(* The world an OrefaFS history runs in: one file system value (OrefaFS has no
   Sub, so there is exactly one view, number 0) and its open handles; the step
   function over the call alphabet of World.v; the initial world; and the
   observable snapshot, taken - as the harness takes it - through the model's
   own Lstat / ReadDir / ReadFile, so that a disagreement between the node map
   and the children maps shows up in the same way on both sides. *)
From Avfs Require Import Base PathModel MemFS MemFile World OrefaFS.
Set Implicit Arguments.

Record oworld := { ow_fs : ofs; ow_handles : list handle }.

Definition ow_with_fs (w : oworld) (s : ofs) : oworld := {| ow_fs := s; ow_handles := ow_handles w |}.
Definition ow_with_handle (w : oworld) (hi : nat) (f : handle) : oworld :=
  {| ow_fs := ow_fs w; ow_handles := set_nth_ (ow_handles w) hi f |}.

Definition o_on_view (w : oworld) (vi : nat) (k : oworld * res) : oworld * res :=
  match vi with O => k | S _ => (w, RBadIndex) end.

Definition o_on_handle (w : oworld) (hi : nat) (k : handle -> oworld * res) : oworld * res :=
  match nth_error (ow_handles w) hi with Some f => k f | None => (w, RBadIndex) end.

Definition olift (w : oworld) (r : ofs * res) : oworld * res := (ow_with_fs w (fst r), snd r).

Definition ostep (w : oworld) (c : call) : oworld * res :=
  let s := ow_fs w in
  match c with
  | CMkdir vi p perm => o_on_view w vi (olift w (o_mkdir s p perm))
  | CMkdirAll vi p perm => o_on_view w vi (olift w (o_mkdir_all s p perm))
  | COpenFile vi p flag perm =>
      o_on_view w vi
        match o_open_file s p flag perm with
        | (s1, inl r) => (ow_with_fs w s1, r)
        | (s1, inr f) => ({| ow_fs := s1; ow_handles := ow_handles w ++ [f] |}, RHandle (length (ow_handles w)))
        end
  | CRemove vi p => o_on_view w vi (olift w (o_remove s p))
  | CRemoveAll vi p => o_on_view w vi (olift w (o_remove_all s p))
  | CRename vi o n => o_on_view w vi (olift w (o_rename s o n))
  | CLink vi o n => o_on_view w vi (olift w (o_link s o n))
  | CSymlink vi o n => o_on_view w vi (w, o_symlink s o n)
  | CReadlink vi p => o_on_view w vi (w, o_readlink s p)
  | CTruncate vi p size => o_on_view w vi (olift w (o_truncate s p size))
  | CChmod vi p mode => o_on_view w vi (olift w (o_chmod s p mode))
  | CChown vi p uid gid => o_on_view w vi (olift w (o_chown s p uid gid))
  | CLchown vi p uid gid => o_on_view w vi (olift w (o_chown s p uid gid))
  | CChtimes vi p => o_on_view w vi (w, o_chtimes s p)
  | CChdir vi p => o_on_view w vi (olift w (o_chdir s p))
  | CGetwd vi => o_on_view w vi (w, RStr (o_cwd s))
  | CStat vi p => o_on_view w vi (w, o_stat s p)
  | CLstat vi p => o_on_view w vi (w, o_stat s p)
  | CEvalSymlinks vi p => o_on_view w vi (w, o_eval_symlinks s p)
  | CReadDir vi p => o_on_view w vi (w, o_read_dir s p)
  | CReadFile vi p => o_on_view w vi (w, o_read_file s p)
  | CWriteFile vi p data perm => o_on_view w vi (olift w (o_write_file s p data perm))
  | CSub vi p => o_on_view w vi (w, o_sub s p)
  | CSetUser vi uid gid admin =>
      o_on_view w vi (ow_with_fs w (o_with_user s {| us_uid := uid; us_gid := gid; us_admin := admin |}), ROk)
  | CSetUMask vi mask => o_on_view w vi (ow_with_fs w (o_with_umask s mask), ROk)
  | FRead hi n => o_on_handle w hi (fun f => let '(f', r) := of_read s f n in (ow_with_handle w hi f', r))
  | FReadAt hi n off => o_on_handle w hi (fun f => (w, of_read_at s f n off))
  | FWrite hi b =>
      o_on_handle w hi (fun f => let '(s1, f', r) := of_write s f b in (ow_with_handle (ow_with_fs w s1) hi f', r))
  | FWriteAt hi b off => o_on_handle w hi (fun f => olift w (of_write_at s f b off))
  | FSeek hi off whence =>
      o_on_handle w hi (fun f => let '(f', r) := of_seek s f off whence in (ow_with_handle w hi f', r))
  | FTruncate hi size => o_on_handle w hi (fun f => olift w (of_truncate s f size))
  | FStat hi => o_on_handle w hi (fun f => (w, of_stat s f))
  | FSync hi => o_on_handle w hi (fun f => (w, f_sync f))
  | FChmod hi mode => o_on_handle w hi (fun f => olift w (of_chmod s f mode))
  | FChown hi uid gid => o_on_handle w hi (fun f => olift w (of_chown s f uid gid))
  | FChdir hi => o_on_handle w hi (fun f => olift w (of_chdir s f))
  | FClose hi => o_on_handle w hi (fun f => let '(f', r) := f_close f in (ow_with_handle w hi f', r))
  | FReadDir hi n =>
      o_on_handle w hi (fun f => let '(f', r) := of_read_dir s f n in (ow_with_handle w hi f', r))
  | FReaddirnames hi n =>
      o_on_handle w hi (fun f => let '(f', r) := of_readdirnames s f n in (ow_with_handle w hi f', r))
  end.

Fixpoint orun (w : oworld) (cs : list call) : oworld * list res :=
  match cs with
  | [] => (w, [])
  | c :: cs' =>
      let '(w1, r) := ostep w c in
      let '(w2, rs) := orun w1 cs' in
      (w2, r :: rs)
  end.

(* ---- initial world (orefafs_cfg.go NewWithOptions, POSIX flavour) ---------- *)
(* The root node (mode dir|0755, id 0, nlink 0) under the keys "" and "/"; then MkdirAll + Chmod of
   /home (0700), /root (0700), /tmp (0777) by the administrator with umask 0; the umask is set last. *)
Definition o_init_fs (os : ostype) (um : N) : ofs :=
  let root := {| on_ch := []; on_data := []; on_nlink := 0; on_id := 0;
                 on_meta := {| m_mode := N.lor MODE_DIR 493; m_uid := 0; m_gid := 0 |} |} in
  let s0 := {| o_index := [([], 0); ([sepc os], 0)]; o_heap := [root]; o_last_id := 0; o_cwd := [sepc os];
               o_user := root_user; o_umask := 0; o_os := os |} in
  let mk s p perm := fst (o_chmod (fst (o_mkdir_all s p perm)) p perm) in
  let s1 := mk s0 P_home 448%N in
  let s2 := mk s1 P_root 448%N in
  let s3 := mk s2 P_tmp 511%N in
  o_with_umask s3 um.

Definition o_init_world_linux (um : N) : oworld := {| ow_fs := o_init_fs Linux um; ow_handles := [] |}.

(* ---- observable snapshot ------------------------------------------------------ *)
(* an entry of the tree, or a path the walk could not read: kind 0 = Lstat of the root, 1 = ReadDir, 2 = Lstat *)
Inductive osentry :=
| OS (e : sentry)
| OSErr (kind : nat) (path : str) (e : ekind).

Fixpoint osnap (fuel : nat) (s : ofs) (path : str) (i : finfo) : list osentry :=
  match fuel with
  | O => []
  | S f =>
      if has (fi_mode i) MODE_DIR then
        OS (SDir path (fi_mode i) (fi_uid i) (fi_gid i))
        :: match o_read_dir s path with
           | RInfos l _ =>
               flat_map (fun e =>
                           let cp := join_path (o_os s) path (fi_name e) in
                           match o_stat s cp with
                           | RInfo ci => osnap f s cp ci
                           | RFail er => [OSErr 2 cp er]
                           | _ => [OSErr 2 cp EFuel]
                           end) l
           | RFail er => [OSErr 1 path er]
           | _ => [OSErr 1 path EFuel]
           end
      else
        let data := match o_read_file s path with RBytes _ b _ => b | _ => [] end in
        [OS (SFile path (fi_mode i) (fi_uid i) (fi_gid i) data (fi_nlink i) (fi_id i))]
  end.

Definition osnapshot (w : oworld) : list osentry :=
  let s := ow_fs w in
  let root := [sepc (o_os s)] in
  match o_stat s root with
  | RInfo i => osnap SNAP_DEPTH s root i
  | RFail e => [OSErr 0 root e]
  | _ => [OSErr 0 root EFuel]
  end.

Definition oworld_os (w : oworld) : ostype := o_os (ow_fs w).
