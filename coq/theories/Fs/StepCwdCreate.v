(* C01: the creating calls on resolved name paths at the level of worlds, with the working directory; the history
   theorem with Chdir, Getwd, relative paths - creating calls included - on the states of C05. *)
From Avfs Require Import Base BaseProofs PathModel PathSpec PathProofs PathCleanProofs PathIterProofs.
From Avfs Require Import MemFS MemFile World Posix Inv InvMutators InvWorld.
From Avfs Require Import WalkBridge WalkSym WalkBudget WalkReadlink WalkRel StepEq WalkInv StepInv StepRename StepRenameDir
  StepHist StepCwd StepOpen StepNamePath.

(* Mkdir, Symlink, Link, WriteFile, OpenFile on ANY resolved (name) path *)
Definition covered_np (vi : nat) (sw : sworld) (c : call) : Prop :=
  let s := sw_fs sw in
  let sv := sw_sv sw in
  step_hyps s sv /\
  match c with
  | CMkdir vi' p _ => vi' = vi /\ exists cl, name_path p cl /\ resolved s sv SlLstat p
  | CSymlink vi' t p =>
      vi' = vi /\ t = clean Linux t /\ exists cl, name_path p cl /\ resolved s sv SlLstat p
  | CLink vi' o p =>
      vi' = vi /\ exists cl, name_path p cl /\ resolved s sv SlLstat o /\ resolved s sv SlLstat p /\ not_symlink_p s sv o
  | CWriteFile vi' p _ _ =>
      vi' = vi /\ exists cl, name_path p cl /\ resolved s sv SlLstat p /\ resolved s sv SlEval p
  | COpenFile vi' p flag _ =>
      vi' = vi /\
      ((has flag O_CREATE = false /\ p <> [] /\ resolved s sv SlEval p)
       \/ (has flag O_CREATE = true /\ has flag O_EXCL = false /\
           exists cl, name_path p cl /\ resolved s sv SlLstat p /\ resolved s sv SlEval p)
       \/ (has flag O_CREATE = true /\ has flag O_EXCL = true /\
           exists cl, name_path p cl /\ resolved s sv SlLstat p))
  | _ => False
  end.

Theorem step_world_np (w : world) (vi : nat) (sw : sworld) (c : call) :
  absw w vi sw -> covered_np vi sw c ->
  obs_sim (snd (impl_step_proj w c)) (snd (spec_step true sw c))
  /\ absw (fst (impl_step_proj w c)) vi (fst (spec_step true sw c)).
Proof.
  intros Ha (H & Hc). pose proof Ha as (Hfs & Hv). destruct c; try (destruct Hc; fail).
  - destruct Hc as (-> & cl & Hnp & Hr).
    apply (world_of_lift w vi sw _ (mkdir (w_fs w) (sv_view (sw_sv sw)) p perm) (k_mkdir (sw_fs sw) (sw_sv sw) p perm) Ha).
    + apply (impl_lift w _ _ (wstep_mkdir w vi _ Hv p perm)); [left; discriminate|exact I].
    + apply spec_mkdir.
    + rewrite <- Hfs. exact (step_mkdir_p (sw_fs sw) (sw_sv sw) p cl H Hnp perm Hr).
  - destruct Hc as (-> & [(Hcr & Hne & Hr)|[(Hcr & Hex & cl & Hnp & Hr0 & Hr)|(Hcr & Hex & cl & Hnp & Hr)]]);
      apply (world_open w vi sw _ _ _ Ha); rewrite <- Hfs.
    + exact (step_open_nocreate_p (sw_fs sw) (sw_sv sw) vi p flag perm H Hne Hr Hcr).
    + exact (step_open_create_p (sw_fs sw) (sw_sv sw) vi p cl flag perm H Hnp Hr0 Hr Hcr Hex).
    + exact (step_open_excl_p (sw_fs sw) (sw_sv sw) vi p cl flag perm H Hnp Hr Hcr Hex).
  - destruct Hc as (-> & cl & Hnp & Hro & Hr & Hns).
    apply (world_of_lift w vi sw _ (link (w_fs w) (sv_view (sw_sv sw)) o n) (k_link true (sw_fs sw) (sw_sv sw) o n) Ha).
    + apply (impl_lift w _ _ (wstep_link w vi _ Hv o n)); [left; discriminate|exact I].
    + apply spec_link.
    + rewrite <- Hfs. exact (step_link_p (sw_fs sw) (sw_sv sw) n cl H Hnp o Hro Hr Hns).
  - destruct Hc as (-> & Et & cl & Hnp & Hr).
    apply (world_of_lift w vi sw _ (symlink (w_fs w) (sv_view (sw_sv sw)) o n) (k_symlink (sw_fs sw) (sw_sv sw) o n) Ha).
    + apply (impl_lift w _ _ (wstep_symlink w vi _ Hv o n)); [left; discriminate|exact I].
    + apply spec_symlink.
    + rewrite <- Hfs. pose proof (step_symlink_p (sw_fs sw) (sw_sv sw) n cl H Hnp o Hr) as E.
      rewrite <- Et in E. exact E.
  - destruct Hc as (-> & cl & Hnp & Hr0 & Hr).
    apply (world_of_lift w vi sw _ (write_file (w_fs w) (sv_view (sw_sv sw)) p data perm)
             (go_write_file (sw_fs sw) (sw_sv sw) p data perm) Ha).
    + apply (impl_lift w _ _ (wstep_write_file w vi _ Hv p data perm)); [left; discriminate|exact I].
    + apply spec_write_file.
    + rewrite <- Hfs. exact (step_write_file_p (sw_fs sw) (sw_sv sw) p cl data perm H Hnp Hr0 Hr).
Qed.

Theorem links_ok_spec_step_np (vi : nat) (sw : sworld) (c : call) :
  covered_np vi sw c -> ptr_valid (f_heap (sw_fs sw)) -> links_ok (f_heap (sw_fs sw)) ->
  links_ok (f_heap (sw_fs (fst (spec_step true sw c)))) /\ sw_sv (fst (spec_step true sw c)) = sw_sv sw.
Proof.
  intros (_ & Hc) Hpv Hok. destruct c; try (destruct Hc; fail).
  - rewrite spec_mkdir. cbn [fst sw_fs sw_sv]. split; [apply links_ok_k_mkdir; assumption|reflexivity].
  - unfold spec_step. pose proof (links_ok_k_open (sw_fs sw) (sw_sv sw) Hpv Hok p flag perm) as H1.
    destruct (k_open (sw_fs sw) (sw_sv sw) p flag perm) as [s1 [e|c]]; cbn [fst sw_fs sw_sv] in *; split; auto.
  - rewrite spec_link. cbn [fst sw_fs sw_sv]. split; [|reflexivity].
    destruct Hc as (_ & cl & _ & _ & _ & Hns). apply links_ok_k_link; assumption.
  - rewrite spec_symlink. cbn [fst sw_fs sw_sv]. split; [|reflexivity].
    destruct Hc as (_ & -> & _). apply links_ok_k_symlink; assumption.
  - rewrite spec_write_file. cbn [fst sw_fs sw_sv]. split; [apply links_ok_go_write_file; assumption|reflexivity].
Qed.

(* ---- with the working directory ------------------------------------------------------------------------------------------------------ *)
Definition covered_d (vi : nat) (sw : sworld) (d : str) (c : call) : Prop :=
  covered_c vi sw d c
  \/ (covered_np vi (sw_setcwd sw d) c /\ cwd_rel (sw_fs (fst (spec_step true sw c))) (sw_sv sw) d).

Lemma irrel_np (vi : nat) (sw : sworld) (d : str) (c : call) :
  covered_np vi (sw_setcwd sw d) c ->
  spec_step true (sw_setcwd sw d) c = (sw_setcwd (fst (spec_step true sw c)) d, snd (spec_step true sw c))
  /\ sw_sv (fst (spec_step true sw c)) = sw_sv sw.
Proof.
  intros (_ & Hc). pose proof (spec_cwd_irrel true sw c d) as E.
  destruct c; try (destruct Hc; fail); (split; [exact E|]); try reflexivity.
  unfold spec_step. destruct (k_open (sw_fs sw) (sw_sv sw) p flag perm) as [s1 [e|c]]; reflexivity.
Qed.

Theorem step_world_d (w : world) (vi : nat) (sw : sworld) (d : str) (c : call) :
  absc w vi sw d -> covered_d vi sw d c ->
  obs_sim (snd (impl_step_proj w c)) (snd (spec_step true sw c))
  /\ exists d', absc (fst (impl_step_proj w c)) vi (fst (spec_step true sw c)) d'.
Proof.
  intros Ha [Hc|(Hc & Hnext)]; [exact (step_world_c w vi sw d c Ha Hc)|].
  pose proof (absc_absw w vi sw d Ha) as Haw. destruct Ha as (Hfs & Hv & Hcw).
  destruct (irrel_np vi sw d c Hc) as (E & Esv).
  pose proof (step_world_np w vi (sw_setcwd sw d) c Haw Hc) as S.
  rewrite E in S. cbn [fst snd] in S. destruct S as (S1 & S2a & S2b). split; [exact S1|]. exists d.
  split; [exact S2a|]. split; [exact S2b|]. rewrite Esv. exact Hnext.
Qed.

(* ---- the link hypotheses along a step --------------------------------------------------------------------------------------------------- *)
Lemma links_ok_spec_step_res (vi : nat) (sw : sworld) (c : call) :
  covered_res vi sw c -> ptr_valid (f_heap (sw_fs sw)) -> links_ok (f_heap (sw_fs sw)) ->
  links_ok (f_heap (sw_fs (fst (spec_step true sw c)))) /\ sw_sv (fst (spec_step true sw c)) = sw_sv sw.
Proof.
  intros (_ & Hc) Hpv Hok. destruct c; try (destruct Hc; fail).
  - rewrite spec_readlink. cbn [fst]. split; [assumption|reflexivity].
  - rewrite spec_truncate. cbn [fst sw_fs sw_sv]. split; [apply links_ok_k_truncate; assumption|reflexivity].
  - rewrite spec_chmod. cbn [fst sw_fs sw_sv]. split; [apply links_ok_k_chmod; assumption|reflexivity].
  - rewrite spec_chtimes. cbn [fst]. split; [assumption|reflexivity].
  - rewrite spec_stat. cbn [fst]. split; [assumption|reflexivity].
  - rewrite spec_lstat. cbn [fst]. split; [assumption|reflexivity].
Qed.

Theorem links_ok_spec_step_d (vi : nat) (sw : sworld) (d : str) (c : call) :
  covered_d vi sw d c -> ptr_valid (f_heap (sw_fs sw)) -> links_ok (f_heap (sw_fs sw)) ->
  links_ok (f_heap (sw_fs (fst (spec_step true sw c))))
  /\ v_user (sv_view (sw_sv (fst (spec_step true sw c)))) = v_user (sv_view (sw_sv sw)).
Proof.
  intros Hc Hpv Hok.
  assert (Hvia : forall (L : links_ok (f_heap (sw_fs (fst (spec_step true (sw_setcwd sw d) c)))))
                        (E : spec_step true (sw_setcwd sw d) c = (sw_setcwd (fst (spec_step true sw c)) d, snd (spec_step true sw c)))
                        (Esv : sw_sv (fst (spec_step true sw c)) = sw_sv sw),
             links_ok (f_heap (sw_fs (fst (spec_step true sw c))))
             /\ v_user (sv_view (sw_sv (fst (spec_step true sw c)))) = v_user (sv_view (sw_sv sw))).
  { intros L E Esv. rewrite E in L. cbn [fst sw_setcwd sw_fs] in L. rewrite Esv. split; [exact L|reflexivity]. }
  destruct Hc as [[(Hc & _)|[(_ & p & -> & _)|(_ & _ & ->)]]|(Hc & _)].
  - destruct (irrel_cov vi sw d c Hc) as (E & Esv).
    destruct Hc as [Hc|Hc];
      [destruct (links_ok_spec_step_x vi (sw_setcwd sw d) c Hc Hpv Hok) as (L & _)
      |destruct (links_ok_spec_step_res vi (sw_setcwd sw d) c Hc Hpv Hok) as (L & _)]; exact (Hvia L E Esv).
  - unfold spec_step. destruct (k_chdir (sw_fs sw) (sw_sv sw) p) as [e|cn]; cbn [fst sw_fs sw_sv sv_view]; auto.
  - unfold spec_step. cbv zeta.
    destruct (negb (kperm (f_heap (sw_fs sw)) (sv_cwd (sw_sv sw)) 1 (v_user (sv_view (sw_sv sw))))); [cbn [fst]; auto|].
    destruct (is_ancestor _ _ _ _ _); cbn [fst]; auto.
  - destruct (irrel_np vi sw d c Hc) as (E & Esv).
    destruct (links_ok_spec_step_np vi (sw_setcwd sw d) c Hc Hpv Hok) as (L & _). exact (Hvia L E Esv).
Qed.

(* ---- histories on the states of C05, with the working directory --------------------------------------------------------------------------- *)
Definition call_ok_d (vi : nat) (sw : sworld) (d : str) (c : call) : Prop :=
  step_hyps (sw_fs sw) (sw_sv (sw_setcwd sw d)) -> Inv_heap (f_heap (sw_fs sw)) -> links_ok (f_heap (sw_fs sw)) ->
  covered_d vi sw d c.

Fixpoint call_ok_run_d (vi : nat) (w : world) (sw : sworld) (cs : list call) : Prop :=
  match cs with
  | [] => True
  | c :: cs' => call_ok_d vi sw (cwd_of w vi) c
                /\ call_ok_run_d vi (fst (impl_step_proj w c)) (fst (spec_step true sw c)) cs'
  end.

Theorem history_inv_d (vi : nat) : forall (cs : list call) (w : world) (sw : sworld),
  Inv w -> absc w vi sw (cwd_of w vi) -> us_admin (v_user (sv_view (sw_sv sw))) = true -> links_ok (f_heap (w_fs w)) ->
  call_ok_run_d vi w sw cs ->
  Forall2 obs_sim (snd (impl_run w cs)) (snd (spec_run sw cs))
  /\ absc (fst (impl_run w cs)) vi (fst (spec_run sw cs)) (cwd_of (fst (impl_run w cs)) vi)
  /\ Inv (fst (impl_run w cs)) /\ links_ok (f_heap (w_fs (fst (impl_run w cs)))).
Proof.
  induction cs as [|c cs IH]; intros w sw I Ha Hadm Hok Hrun.
  - cbn [impl_run spec_run fst snd]. split; [constructor|]. auto.
  - destruct Hrun as (Hc & Hrun). pose proof Ha as (Hfs & Hv & Hcw). set (d := cwd_of w vi) in *.
    assert (Hih : Inv_heap (f_heap (sw_fs sw))) by (rewrite Hfs; exact (@inv_heap _ I)).
    assert (Hpv : ptr_valid (f_heap (sw_fs sw))) by (apply Inv_heap_ptr_valid; exact Hih).
    assert (Hok' : links_ok (f_heap (sw_fs sw))) by (rewrite Hfs; exact Hok).
    assert (Hsh : step_hyps (sw_fs sw) (sw_sv (sw_setcwd sw d))).
    { rewrite Hfs. apply (Inv_step_hyps w vi _ (sv_cwd (sw_sv sw)) I Hv); [exact Hadm|].
      rewrite <- Hfs. exact (proj1 Hok'). }
    pose proof (Hc Hsh Hih Hok') as Hcov.
    destruct (step_world_d w vi sw d c Ha Hcov) as (S1 & d' & S2).
    destruct (links_ok_spec_step_d vi sw d c Hcov Hpv Hok') as (L1 & L2).
    assert (I' : Inv (fst (impl_step_proj w c))) by (rewrite impl_step_fst; apply Inv_step; exact I).
    pose proof (absc_cwd_of _ _ _ _ S2) as Ed. rewrite <- Ed in S2.
    assert (Hok2 : links_ok (f_heap (w_fs (fst (impl_step_proj w c))))) by (rewrite <- (proj1 S2); exact L1).
    assert (Hadm2 : us_admin (v_user (sv_view (sw_sv (fst (spec_step true sw c))))) = true) by (rewrite L2; exact Hadm).
    destruct (IH _ _ I' S2 Hadm2 Hok2 Hrun) as (R1 & R2 & R3 & R4).
    cbn [impl_run spec_run fst snd]. split; [constructor; assumption|]. auto.
Qed.

(* ---- non-vacuity: Chdir "/d/e"; Mkdir "../x"; WriteFile "../x/f"; Link "f" -> "../x/g"; OpenFile "../x/g" O_RDWR|O_APPEND;
        OpenFile "../x/n" O_CREATE|O_EXCL|O_WRONLY; Getwd ------------------------------------------------------------------------------------- *)
Module StepCwdCreateExamples.
  Import WalkSymExamples WalkSymNonVacuity StepExamples StepInvExamples WalkRelExamples StepCwdExamples.

  Definition s_g : str := [103%N].
  Definition s_n : str := [110%N].
  Definition d1 := CChdir 0 (abs_path [s_d; s_e]).
  Definition d2 := CMkdir 0 (relp [DD; s_x]) 493.
  Definition d3 := CWriteFile 0 (relp [DD; s_x; s_f]) [1%N; 2%N] 420.
  Definition d4 := CLink 0 (relp [s_f]) (relp [DD; s_x; s_g]).
  Definition d5 := COpenFile 0 (relp [DD; s_x; s_g]) (O_RDWR + O_APPEND) 0.
  Definition d6 := COpenFile 0 (relp [DD; s_x; s_n]) (O_CREATE + O_EXCL + O_WRONLY) 384.
  Definition d7 := CGetwd 0.
  Definition hd : list call := [d1; d2; d3; d4; d5; d6; d7].

  Definition v2 := Eval vm_compute in fst (impl_step_proj w1 d2).
  Definition sv2 := Eval vm_compute in fst (spec_step true sw1 d2).
  Definition v3 := Eval vm_compute in fst (impl_step_proj v2 d3).
  Definition sv3 := Eval vm_compute in fst (spec_step true sv2 d3).
  Definition v4 := Eval vm_compute in fst (impl_step_proj v3 d4).
  Definition sv4 := Eval vm_compute in fst (spec_step true sv3 d4).
  Definition v5 := Eval vm_compute in fst (impl_step_proj v4 d5).
  Definition sv5 := Eval vm_compute in fst (spec_step true sv4 d5).
  Definition v6 := Eval vm_compute in fst (impl_step_proj v5 d6).
  Definition sv6 := Eval vm_compute in fst (spec_step true sv5 d6).

  Ltac good_tac :=
    repeat constructor; try discriminate;
    let x := fresh "x" in let Hx := fresh "Hx" in
    intros x Hx; cbn in Hx; repeat (destruct Hx as [Hx|Hx]; [subst x; discriminate|]); destruct Hx.

  (* the premises of a relative name path in the state at hand: working directory "/d/e" *)
  Ltac rel_tac Hsh x k w cl :=
    apply (rel_name_resolved _ _ [s_d; s_e] x k w cl Hsh eq_refl); [good_tac|vm_compute; reflexivity|reflexivity|good_tac].
  Ltac cwd_tac := exists [s_d; s_e]; split; [good_tac|split; [reflexivity|vm_compute; reflexivity]].
  Ltac res_tac Hr slm := apply (Hr slm); vm_compute; discriminate.

  Example hd_ok : call_ok_run_d 0 w_tree sw_tree hd.
  Proof.
    unfold hd. cbn [call_ok_run_d].
    change (fst (impl_step_proj w_tree d1)) with w1. change (fst (spec_step true sw_tree d1)) with sw1.
    change (fst (impl_step_proj w1 d2)) with v2. change (fst (spec_step true sw1 d2)) with sv2.
    change (fst (impl_step_proj v2 d3)) with v3. change (fst (spec_step true sv2 d3)) with sv3.
    change (fst (impl_step_proj v3 d4)) with v4. change (fst (spec_step true sv3 d4)) with sv4.
    change (fst (impl_step_proj v4 d5)) with v5. change (fst (spec_step true sv4 d5)) with sv5.
    change (fst (impl_step_proj v5 d6)) with v6. change (fst (spec_step true sv5 d6)) with sv6.
    split; [|split; [|split; [|split; [|split; [|split; [|split; [|exact I]]]]]]]; intros Hsh Hih Hok.
    - (* Chdir "/d/e" *)
      left. right; left. split; [exact Hsh|]. exists (abs_path [s_d; s_e]). split; [reflexivity|]. split.
      + apply (sym_bridge_lookup_x tree_fs _ SlEval [s_d; s_e]); try reflexivity;
          [exact tree_wf|exact tree_links_clean|good_tac|vm_compute; discriminate|vm_compute; discriminate].
      + vm_compute. discriminate.
    - (* Mkdir "../x" *)
      right. split; [|change (fst (spec_step true sw1 d2)) with sv2; cwd_tac].
      split; [exact Hsh|]. split; [reflexivity|]. exists s_x.
      change (relp [DD; s_x]) with (clean Linux (relp [DD; s_x])).
      assert (HR : name_path (clean Linux (relp [DD; s_x])) s_x /\ _) by rel_tac Hsh (relp [DD; s_x]) 1 (@nil str) s_x.
      destruct HR as (Hnp & Hr). split; [exact Hnp|]. res_tac Hr SlLstat.
    - (* WriteFile "../x/f" *)
      right. split; [|change (fst (spec_step true sv2 d3)) with sv3; cwd_tac].
      split; [exact Hsh|]. split; [reflexivity|]. exists s_f.
      change (relp [DD; s_x; s_f]) with (clean Linux (relp [DD; s_x; s_f])).
      assert (HR : name_path (clean Linux (relp [DD; s_x; s_f])) s_f /\ _) by rel_tac Hsh (relp [DD; s_x; s_f]) 1 [s_x] s_f.
      destruct HR as (Hnp & Hr). split; [exact Hnp|]. split; [res_tac Hr SlLstat|]. res_tac Hr SlEval.
    - (* Link "f" "../x/g" *)
      right. split; [|change (fst (spec_step true sv3 d4)) with sv4; cwd_tac].
      split; [exact Hsh|]. split; [reflexivity|]. exists s_g.
      change (relp [DD; s_x; s_g]) with (clean Linux (relp [DD; s_x; s_g])).
      change (relp [s_f]) with (clean Linux (relp [s_f])).
      assert (HR : name_path (clean Linux (relp [DD; s_x; s_g])) s_g /\ _) by rel_tac Hsh (relp [DD; s_x; s_g]) 1 [s_x] s_g.
      assert (HO : name_path (clean Linux (relp [s_f])) s_f /\ _) by rel_tac Hsh (relp [s_f]) 0 (@nil str) s_f.
      destruct HR as (Hnp & Hr). destruct HO as (_ & Hro). split; [exact Hnp|]. split; [res_tac Hro SlLstat|].
      split; [res_tac Hr SlLstat|]. intros par kind name n t m E. vm_compute in E. injection E as _ _ _ <-. vm_compute. discriminate.
    - (* OpenFile "../x/g" O_RDWR|O_APPEND *)
      right. split; [|change (fst (spec_step true sv4 d5)) with sv5; cwd_tac].
      split; [exact Hsh|]. split; [reflexivity|]. left. split; [reflexivity|]. split; [discriminate|].
      change (relp [DD; s_x; s_g]) with (clean Linux (relp [DD; s_x; s_g])).
      assert (HR : name_path (clean Linux (relp [DD; s_x; s_g])) s_g /\ _) by rel_tac Hsh (relp [DD; s_x; s_g]) 1 [s_x] s_g.
      destruct HR as (_ & Hr). res_tac Hr SlEval.
    - (* OpenFile "../x/n" O_CREATE|O_EXCL|O_WRONLY *)
      right. split; [|change (fst (spec_step true sv5 d6)) with sv6; cwd_tac].
      split; [exact Hsh|]. split; [reflexivity|]. right. right. split; [reflexivity|]. split; [reflexivity|]. exists s_n.
      change (relp [DD; s_x; s_n]) with (clean Linux (relp [DD; s_x; s_n])).
      assert (HR : name_path (clean Linux (relp [DD; s_x; s_n])) s_n /\ _) by rel_tac Hsh (relp [DD; s_x; s_n]) 1 [s_x] s_n.
      destruct HR as (Hnp & Hr). split; [exact Hnp|]. res_tac Hr SlLstat.
    - (* Getwd *)
      left. right; right. split; [exact Hsh|]. split; [exact Hih|reflexivity].
  Qed.

  Example hd_inv :
    Forall2 obs_sim (snd (impl_run w_tree hd)) (snd (spec_run sw_tree hd))
    /\ absc (fst (impl_run w_tree hd)) 0 (fst (spec_run sw_tree hd)) (cwd_of (fst (impl_run w_tree hd)) 0)
    /\ Inv (fst (impl_run w_tree hd)) /\ links_ok (f_heap (w_fs (fst (impl_run w_tree hd)))).
  Proof. exact (history_inv_d 0 hd w_tree sw_tree tree_inv (proj1 hc_covered) eq_refl tree_links_ok hd_ok). Qed.

  Example hd_results :
    snd (spec_run sw_tree hd) = [SOk; SOk; SOk; SOk; SOk; SOk; SStr (abs_path [s_d; s_e])].
  Proof. vm_compute. reflexivity. Qed.
End StepCwdCreateExamples.
