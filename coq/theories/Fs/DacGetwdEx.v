(* C03: Getwd for ordinary users - the premises of Fs/DacGetwd.v are satisfiable, in a history of C03_history_inv. *)
From Avfs Require Import Base BaseProofs PathModel PathSpec PathProofs PathCleanProofs PathIterProofs.
From Avfs Require Import MemFS MemFile World Posix Inv InvCheck WalkBridge WalkSym WalkBudget WalkReadlink StepEq StepInv.
From Avfs Require Import DacLemmas DacProofs DacGetwd DacSteps DacInv DacExamples.

Module DacGetwdExamples.
  Import WalkSymExamples DacTree.

  (* the working directory "/h/s" (node 3, alice's, mode 0700) below "/h" (alice:1000, 0750) *)
  Definition cwd_hs (u : user) : view :=
    {| v_root := 0; v_cwd := abs_path [n_h; n_s]; v_user := u; v_umask := 18; v_os := Linux; v_idm := true |}.
  Definition w_hs (u : user) : world := {| w_fs := dfs; w_views := [cwd_hs u]; w_handles := [] |}.
  Definition sw_hs (u : user) : sworld := {| sw_fs := dfs; sw_sv := {| sv_view := cwd_hs u; sv_cwd := 3 |} |}.

  Example hs_inv (u : user) : Inv (w_hs u).
  Proof. apply InvCheck.inv_check_sound. vm_compute. reflexivity. Qed.

  Ltac walk_tac :=
    split; [reflexivity|]; split; [good_tac|]; split; [reflexivity|]; right;
    exists [n_h], n_s, 1; split; [reflexivity|]; split; [|split]; reflexivity.

  Example hs_walk_alice : cwd_walk dfs (sw_sv (sw_hs alice)) [n_h; n_s].
  Proof. walk_tac. Qed.
  Example hs_walk_bob : cwd_walk dfs (sw_sv (sw_hs bob)) [n_h; n_s].
  Proof. walk_tac. Qed.

  (* alice (the owner) is answered "/h/s"; bob (group 1000: may search /h, not /h/s) is refused EACCES - on both sides *)
  Definition gh : list call := [CGetwd 0; CStat 0 (abs_path [n_h; n_f]); CGetwd 0].

  Ltac gh_tac u Hw :=
    unfold gh; cbn [dcall_ok_run];
    change (fst (spec_step true (sw_hs u) (CGetwd 0))) with (sw_hs u);
    change (fst (spec_step true (sw_hs u) (CStat 0 (abs_path [n_h; n_f])))) with (sw_hs u);
    split; [|split; [|split; [|exact I]]]; intros Hh _ _;
    [ split; [exact Hh|]; split; [reflexivity|]; split; [exact (@inv_heap _ (hs_inv u))|];
      exists [n_h; n_s]; split; [exact Hw|unfold SEARCH_FUEL; cbn [length]; lia]
    | split; [exact Hh|]; split; [reflexivity|]; exists [n_h; n_f]; split; [reflexivity|];
      split; [good_tac|split; vm_compute; discriminate]
    | split; [exact Hh|]; split; [reflexivity|]; split; [exact (@inv_heap _ (hs_inv u))|];
      exists [n_h; n_s]; split; [exact Hw|unfold SEARCH_FUEL; cbn [length]; lia] ].

  Example gh_ok_alice : dcall_ok_run true 0 (sw_hs alice) gh.
  Proof. gh_tac alice hs_walk_alice. Qed.
  Example gh_ok_bob : dcall_ok_run true 0 (sw_hs bob) gh.
  Proof. gh_tac bob hs_walk_bob. Qed.

  Example hs_links_ok : links_ok dtree.
  Proof. exact dtree_links_ok. Qed.

  Example gh_alice :
    Forall2 obs_sim (snd (impl_run (w_hs alice) gh)) (snd (spec_run_phl true (sw_hs alice) gh))
    /\ match snd (spec_run_phl true (sw_hs alice) gh) with
       | [SStr a; SInfo _; SStr b] => a = abs_path [n_h; n_s] /\ b = abs_path [n_h; n_s]
       | _ => False
       end.
  Proof.
    split; [|vm_compute; split; reflexivity].
    exact (proj1 (dhistory_inv true 0 gh (w_hs alice) (sw_hs alice) (hs_inv alice) (conj eq_refl eq_refl) hs_links_ok gh_ok_alice)).
  Qed.

  Example gh_bob :
    Forall2 obs_sim (snd (impl_run (w_hs bob) gh)) (snd (spec_run_phl true (sw_hs bob) gh))
    /\ match snd (spec_run_phl true (sw_hs bob) gh) with
       | [SErr a; SInfo _; SErr b] => a = EACCES /\ b = EACCES
       | _ => False
       end.
  Proof.
    split; [|vm_compute; split; reflexivity].
    exact (proj1 (dhistory_inv true 0 gh (w_hs bob) (sw_hs bob) (hs_inv bob) (conj eq_refl eq_refl) hs_links_ok gh_ok_bob)).
  Qed.
End DacGetwdExamples.
