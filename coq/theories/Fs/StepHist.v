(* The history theorem of C01 on the states of C05, generic in the set of covered calls, and its instance with
   Rename of directories added to the calls of StepEq.covered. *)
From Avfs Require Import Base BaseProofs PathModel PathSpec PathProofs PathCleanProofs PathIterProofs.
From Avfs Require Import MemFS MemFile World Posix Inv InvMutators InvWorld.
From Avfs Require Import WalkBridge WalkSym WalkBudget WalkReadlink WalkRel StepEq WalkInv StepInv StepRename StepRenameDir.

Section GenericHistory.
  Variable cov : nat -> sworld -> call -> Prop.
  Hypothesis cov_step : forall (w : world) (vi : nat) (sw : sworld) (c : call),
    absw w vi sw -> cov vi sw c ->
    obs_sim (snd (impl_step_proj w c)) (snd (spec_step true sw c))
    /\ absw (fst (impl_step_proj w c)) vi (fst (spec_step true sw c)).
  Hypothesis cov_links : forall (vi : nat) (sw : sworld) (c : call),
    cov vi sw c -> ptr_valid (f_heap (sw_fs sw)) -> links_ok (f_heap (sw_fs sw)) ->
    links_ok (f_heap (sw_fs (fst (spec_step true sw c)))) /\ sw_sv (fst (spec_step true sw c)) = sw_sv sw.

  Definition gen_call_ok (vi : nat) (sw : sworld) (c : call) : Prop :=
    step_hyps (sw_fs sw) (sw_sv sw) -> Inv_heap (f_heap (sw_fs sw)) -> links_ok (f_heap (sw_fs sw)) -> cov vi sw c.

  Fixpoint gen_call_ok_run (vi : nat) (sw : sworld) (cs : list call) : Prop :=
    match cs with
    | [] => True
    | c :: cs' => gen_call_ok vi sw c /\ gen_call_ok_run vi (fst (spec_step true sw c)) cs'
    end.

  Theorem gen_history_inv (vi : nat) : forall (cs : list call) (w : world) (sw : sworld),
    Inv w -> absw w vi sw -> us_admin (v_user (sv_view (sw_sv sw))) = true -> links_ok (f_heap (w_fs w)) ->
    gen_call_ok_run vi sw cs ->
    Forall2 obs_sim (snd (impl_run w cs)) (snd (spec_run sw cs))
    /\ absw (fst (impl_run w cs)) vi (fst (spec_run sw cs))
    /\ Inv (fst (impl_run w cs)) /\ links_ok (f_heap (w_fs (fst (impl_run w cs)))).
  Proof.
    induction cs as [|c cs IH]; intros w sw I Ha Hadm Hok Hrun.
    - cbn [impl_run spec_run fst snd]. split; [constructor|]. auto.
    - destruct Hrun as (Hc & Hrun). pose proof Ha as (Hfs & Hv).
      assert (Hih : Inv_heap (f_heap (sw_fs sw))) by (rewrite Hfs; exact (@inv_heap _ I)).
      assert (Hpv : ptr_valid (f_heap (sw_fs sw))) by (apply Inv_heap_ptr_valid; exact Hih).
      assert (Hok' : links_ok (f_heap (sw_fs sw))) by (rewrite Hfs; exact Hok).
      assert (Hsh : step_hyps (sw_fs sw) (sw_sv sw)).
      { rewrite Hfs. destruct (sw_sv sw) as [v cwdn] eqn:Esv. cbn [sv_view] in *.
        apply (Inv_step_hyps w vi v cwdn I Hv Hadm). rewrite <- Hfs. exact (proj1 Hok'). }
      pose proof (Hc Hsh Hih Hok') as Hcov.
      destruct (cov_step w vi sw c Ha Hcov) as (S1 & S2).
      destruct (cov_links vi sw c Hcov Hpv Hok') as (L1 & L2).
      assert (I' : Inv (fst (impl_step_proj w c))) by (rewrite impl_step_fst; apply Inv_step; exact I).
      assert (Hok2 : links_ok (f_heap (w_fs (fst (impl_step_proj w c))))) by (rewrite <- (proj1 S2); exact L1).
      assert (Hadm2 : us_admin (v_user (sv_view (sw_sv (fst (spec_step true sw c))))) = true) by (rewrite L2; exact Hadm).
      destruct (IH _ _ I' S2 Hadm2 Hok2 Hrun) as (R1 & R2 & R3 & R4).
      cbn [impl_run spec_run fst snd]. split; [constructor; assumption|]. auto.
  Qed.
End GenericHistory.

(* ---- the calls of StepEq.covered, plus Rename of a directory to a new name ---------------------------------------------- *)
Definition rename_dir_ok (vi : nat) (sw : sworld) (c : call) : Prop :=
  let s := sw_fs sw in
  let sv := sw_sv sw in
  step_hyps s sv /\ Inv_heap (f_heap s) /\
  match c with
  | CRename vi' o p =>
      vi' = vi /\ exists wo clo wn cln np md,
        o = abs_path (wo ++ [clo]) /\ p = abs_path (wn ++ [cln]) /\ path_ok s sv SlLstat (wo ++ [clo])
        /\ path_ok s sv SlLstat (wn ++ [cln]) /\ source_is_dir s sv (wo ++ [clo])
        /\ klookup s sv false false (abs_path (wn ++ [cln])) = WNeg np cln md
  | _ => False
  end.

Definition covered_x (vi : nat) (sw : sworld) (c : call) : Prop := covered vi sw c \/ rename_dir_ok vi sw c.

Theorem step_world_x (w : world) (vi : nat) (sw : sworld) (c : call) :
  absw w vi sw -> covered_x vi sw c ->
  obs_sim (snd (impl_step_proj w c)) (snd (spec_step true sw c))
  /\ absw (fst (impl_step_proj w c)) vi (fst (spec_step true sw c)).
Proof.
  intros Ha [Hc|(H & Hinv & Hc)]; [exact (step_world w vi sw c Ha Hc)|]. pose proof Ha as (Hfs & Hv).
  destruct c; try (destruct Hc; fail).
  destruct Hc as (-> & wo & clo & wn & cln & np & md & Eo & Ep & Hpo & Hpn & Hsd & HKn).
  apply (world_of_lift w vi sw _ (rename (w_fs w) (sv_view (sw_sv sw)) o n) (go_rename (sw_fs sw) (sw_sv sw) o n) Ha).
  - apply (impl_lift w _ _ (wstep_rename w vi _ Hv o n)); [left; discriminate|exact I].
  - apply spec_rename.
  - rewrite <- Hfs, Eo, Ep. exact (step_rename_dir_new (sw_fs sw) (sw_sv sw) wo clo wn cln np md H Hinv Hpo Hpn Hsd HKn).
Qed.

Theorem links_ok_spec_step_x (vi : nat) (sw : sworld) (c : call) :
  covered_x vi sw c -> ptr_valid (f_heap (sw_fs sw)) -> links_ok (f_heap (sw_fs sw)) ->
  links_ok (f_heap (sw_fs (fst (spec_step true sw c)))) /\ sw_sv (fst (spec_step true sw c)) = sw_sv sw.
Proof.
  intros [Hc|(_ & _ & Hc)] Hpv Hok; [exact (links_ok_spec_step vi sw c Hc Hpv Hok)|].
  destruct c; try (destruct Hc; fail). rewrite spec_rename. cbn [fst sw_fs sw_sv].
  split; [apply links_ok_go_rename; assumption|reflexivity].
Qed.

Definition call_ok_x := gen_call_ok covered_x.
Definition call_ok_run_x := gen_call_ok_run covered_x.

Theorem history_inv_x (vi : nat) (cs : list call) (w : world) (sw : sworld) :
  Inv w -> absw w vi sw -> us_admin (v_user (sv_view (sw_sv sw))) = true -> links_ok (f_heap (w_fs w)) ->
  call_ok_run_x vi sw cs ->
  Forall2 obs_sim (snd (impl_run w cs)) (snd (spec_run sw cs))
  /\ absw (fst (impl_run w cs)) vi (fst (spec_run sw cs))
  /\ Inv (fst (impl_run w cs)) /\ links_ok (f_heap (w_fs (fst (impl_run w cs)))).
Proof. exact (gen_history_inv covered_x step_world_x links_ok_spec_step_x vi cs w sw). Qed.
