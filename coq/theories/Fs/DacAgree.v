(* C03: the two "into itself" tests of Rename agree on the states of C05 - MemFS compares the two resolved path
   strings, rename(2) walks up from the destination directory - whenever the moved directory is searchable by the
   caller (then its own path is a directory walk, and C05's unique walks apply).  This discharges the premise
   [into_itself_agree] of the directory-rename step of Fs/DacSteps.v. *)
From Avfs Require Import Base BaseProofs PathModel PathSpec PathProofs PathCleanProofs PathIterProofs.
From Avfs Require Import MemFS MemFile World Posix Inv InvConseq.
From Avfs Require Import WalkBridge WalkSym WalkBudget WalkReadlink WalkRel DacLemmas StepEq StepRenameDir DacSteps.

(* a walk that got past its first component found the start directory searchable *)
Lemma klookup_root_searchable (s : fsys) (sv : sview) (follow : bool) (c : str) (cs : list str) par kind name n :
  Forall good_comp (c :: cs) ->
  klookup s sv false follow (abs_path (c :: cs)) = WNode par kind name n ->
  kperm (f_heap s) (v_root (sv_view sv)) 1 (v_user (sv_view sv)) = true.
Proof.
  intros Hg. rewrite (klookup_abs_path s sv false follow _ Hg). change WALK_FUEL with (S (pred WALK_FUEL)).
  rewrite kwalk_S. destruct (negb (node_is_dir (f_heap s) (v_root (sv_view sv)))); [discriminate|].
  destruct (kperm (f_heap s) (v_root (sv_view sv)) 1 (v_user (sv_view sv))); [reflexivity|discriminate].
Qed.

Definition source_searchable (s : fsys) (sv : sview) (cs : list str) : Prop :=
  forall par kind name n, klookup s sv false false (abs_path cs) = WNode par kind name n ->
                          kperm (f_heap s) n 1 (v_user (sv_view sv)) = true.

Theorem into_itself_agree_inv (s : fsys) (sv : sview) (wo : list str) (clo : str) (w : list str) (cl : str) :
  dac_hyps s sv -> Inv_heap (f_heap s) ->
  path_ok s sv SlLstat (wo ++ [clo]) -> path_ok s sv SlLstat (w ++ [cl]) ->
  source_is_dir s sv (wo ++ [clo]) -> source_searchable s sv (wo ++ [clo]) ->
  into_itself_agree s sv (wo ++ [clo]) (w ++ [cl]).
Proof.
  intros H I Hpo Hp Hsd Hss opar okind oname oc npar nname md HKo HKn.
  pose proof (dresolve s sv SlLstat (wo ++ [clo]) H Hpo) as Ro. pose proof (dresolve s sv SlLstat (w ++ [cl]) H Hp) as Rn.
  destruct Hpo as (Hgo & Hko & _). destruct Hp as (Hgn & Hkn & _).
  change (follow_of SlLstat) with false in Ro, Rn, Hko, Hkn. change (precise_of SlLstat) with true in Ro, Rn.
  destruct (klookup_pm s sv false wo clo Hgo Hko) as (Hono & _ & _).
  destruct (klookup_pm s sv false w cl Hgn Hkn) as (_ & Hnng & _).
  pose proof (klookup_final s sv false (wo ++ [clo]) Hgo) as Fo.
  assert (Hrp : kperm (f_heap s) (v_root (sv_view sv)) 1 (v_user (sv_view sv)) = true).
  { destruct wo as [|c0 wo']; cbn [app] in Hgo, HKo; exact (klookup_root_searchable s sv false _ _ _ _ _ _ Hgo HKo). }
  rewrite HKo in Ro, Fo, Hono. rewrite HKn in Rn, Hnng. cbn [walk_rel] in Ro, Rn.
  destruct (Hono _ _ _ _ eq_refl) as (-> & ->). pose proof (Hnng _ _ _ eq_refl) as ->.
  destruct Fo as (Fo1 & _). destruct Ro as (_ & _ & _ & _ & _ & O4). destruct (O4 eq_refl) as (_ & O6).
  destruct (at_name_views _ _ _ _ _ _ (O6 eq_refl)) as (_ & _ & do & OP & OW & OG).
  destruct Rn as (_ & _ & _ & N4). destruct (at_name_views _ _ _ _ _ _ (N4 eq_refl)) as (_ & _ & dn & NP & NW & NG).
  pose proof (Hsd _ _ _ _ HKo) as Hd. pose proof (Hss _ _ _ _ HKo) as Hsp.
  assert (Hwoc : dwalk (f_heap s) (v_user (sv_view sv)) (v_root (sv_view sv)) (do ++ [clo]) = Some oc)
    by exact (dwalk_snoc _ _ _ _ _ _ _ OW Fo1 Hd Hsp).
  rewrite OP, NP. apply bool_iff_eq.
  rewrite (path_prefix_iff (do ++ [clo]) dn cl) by
    (try (destruct do; discriminate); eapply Forall_impl; try eassumption; intros a Ha; apply good_comp_ok; exact Ha).
  symmetry. apply (ancestor_iff_prefix (f_heap s) _ _ I (dh_root _ _ H) Hrp (do ++ [clo]) dn oc npar Hd Hwoc NW).
Qed.
