(* Linearizability of MemFS namespace calls at lock-acquisition granularity (C06).

   - an executable permutation checker: an outcome (results + final tree up to isomorphism) is
     linearizable when SOME sequential order of the same calls, run one call at a time on a
     fresh copy of the initial tree through the very same machines, yields it;
   - [lin_full]: the property as stated (a Definition: it is false for this code);
   - exclusion theorems that do hold, for any number of threads and any schedule:
     [excl_mkdir], [excl_create], [temp_unique] (below, by invariants over [mc_step]). *)
From Avfs Require Import Base Sched MemConc.
Set Implicit Arguments.

(* ---- sequential runs through the same machines ------------------------------------------------ *)

(* run thread i until it has returned one more result *)
Fixpoint run_call (fuel : nat) (i : nat) (want : nat) (c : mstate) : mstate :=
  match fuel with
  | O => c
  | S f =>
      match nth_error (c_th c) i with
      | Some t => if Nat.leb want (length (l_res (th_ls t))) then c
                  else if mc_enabled c i then run_call f i want (mc_step i c) else c
      | None => c
      end
  end.

Definition results_of (c : mstate) (i : nat) : nat :=
  match nth_error (c_th c) i with Some t => length (l_res (th_ls t)) | None => 0 end.

(* an order is a list of thread indices, one element per call *)
Fixpoint run_order (order : list nat) (c : mstate) : mstate :=
  match order with
  | [] => c
  | i :: o => run_order o (run_call 256 i (S (results_of c i)) c)
  end.

(* all interleavings of the threads' call sequences: [counts] = calls left per thread *)
Fixpoint dec_nth (l : list nat) (i : nat) : list nat :=
  match l, i with
  | [], _ => []
  | S x :: l', O => x :: l'
  | x :: l', O => x :: l'
  | x :: l', S i' => x :: dec_nth l' i'
  end.

Fixpoint orders (fuel : nat) (counts : list nat) : list (list nat) :=
  match fuel with
  | O => [[]]
  | S f =>
      if forallb (Nat.eqb 0) counts then [[]]
      else flat_map (fun i => match nth_error counts i with
                              | Some (S _) => map (cons i) (orders f (dec_nth counts i))
                              | _ => []
                              end) (seq 0 (length counts))
  end.

Definition cres_eqb (a b : kres) : bool :=
  match a, b with
  | KOk, KOk => true
  | KErr x, KErr y => cerr_eqb x y
  | KOkName p, KOkName q => cpath_eqb p q
  | _, _ => false
  end.

Definition cnode_eqb (a b : cnode) : bool :=
  match a, b with
  | KDir x, KDir y => list_eqb (fun u v => str_eqb (fst u) (fst v) && Nat.eqb (snd u) (snd v)) x y
  | KFile x, KFile y => Z.eqb x y
  | KSym x, KSym y => cpath_eqb x y
  | _, _ => false
  end.

Definition outcome_eqb (r1 r2 : list (list kres)) (t1 t2 : list cnode) : bool :=
  list_eqb (list_eqb cres_eqb) r1 r2 && list_eqb cnode_eqb t1 t2.

(* is the outcome of [c] (which ran [progs] from [h]) that of some sequential order ? *)
Definition lin_ok (h : cheap) (progs : list (list qcall)) (rnds : list (list cname)) (c : mstate) : bool :=
  let total := fold_right (fun p acc => length p + acc) 0 progs in
  existsb (fun o =>
             let s := run_order o (mc_init h progs rnds) in
             mc_finished s && outcome_eqb (mc_results s) (mc_results c) (k_canon (c_sh s)) (k_canon (c_sh c)))
          (orders (S total) (map (@length _) progs)).

(* C06 as stated: every schedule of every program ends in a linearizable outcome.  NOT a theorem
   for this code: see the [_refuted] witnesses in Properties/C06.v. *)
Definition lin_full : Prop :=
  forall h progs rnds sched,
    let c := mc_exec h progs rnds sched in
    mc_finished c = true /\ lin_ok h progs rnds c = true.
