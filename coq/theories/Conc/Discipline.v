(* Discipline.v - per-function lock/access summaries (as regenerated from the Go
   source into Gen_access.v), a decidable discipline checker over them, and the
   proof that a table of summaries that passes the checker denotes only
   disciplined threads in the sense of Lockset.v - so that lockset_sound applies
   to every program made of calls of those functions.

   Symbolic side (what the translator emits):
     objects are names (SSA-versioned variables of the Go function; names that
     start with "%" are objects created by the call itself and not yet shared);
     a function summary = a list of paths; a path = a list of items
        IEv  (SAcq o lk m | SRel o lk m | SAcc a o f)      a in {read, write, atomic}
        ICall star g sigma    call of summary g (star: zero or more times = a loop),
                              sigma maps g's formal objects to objects of the caller
        IUnknown why          a shape the translator does not understand (fails closed)
     plus the "borrowed" requirements of the function: locks (on formals) that
     its callers must hold, each tagged with the field that needs it.
   A field has a class: guarded by a lock field of the same object / owned by the
   view's goroutine (configuration of a per-goroutine view: written only by the
   owner) / immutable after construction / accessed atomically only.

   Concrete side: objects are [Shared n | Private n], locks (object, lock field),
   locations (object, field); an environment maps names to objects ("%" names
   to Private ones).  [den] gives the event sequences a path denotes for every
   environment, unfolding calls.  No bound on the number of loop iterations, call
   depth (recursion is allowed), objects, or threads. *)
From Coq Require Import List String Bool Arith Lia Permutation.
From Avfs Require Import Lockset.
Import ListNotations.
Open Scope string_scope.
Open Scope list_scope.
Local Infix "+++" := String.append (at level 60, right associativity).

Definition obj := string.
Definition field := string.
Definition lname := string.

Inductive cls := CGuard (lk : lname) | COwned | CImmutable | CAtomic.
Inductive acc := ARd | AWr | AAt.
Inductive sneed := SFree | SNeed (lk : lname) (m : mode) | SNever.

(* pseudo lock: "the goroutine that owns this view" *)
Definition own : lname := "own".
(* pseudo lock that nobody ever acquires: "the object is not shared yet" (constructors) *)
Definition unshared : lname := "unshared".

Inductive sevent :=
| SAcq (o : obj) (lk : lname) (m : mode)
| SRel (o : obj) (lk : lname) (m : mode)
| SAcc (a : acc) (o : obj) (f : field).

Inductive item :=
| IEv (e : sevent)
| ICall (star : bool) (g : string) (sigma : list (obj * obj))
| IUnknown (why : string).

Definition shold := (obj * lname * mode)%type.
Definition bentry := (obj * lname * mode * field)%type.

Record summary := {
  s_name : string;          (* unique name: pkg.Type.method, loops: name#loopN *)
  s_owner : string;         (* the Go function it belongs to (known findings are keyed by it) *)
  s_api : bool;             (* exported entry point of the package *)
  s_recv : obj;             (* receiver object ("" if none) *)
  s_recvty : string;        (* receiver type *)
  s_borrowed : list bentry; (* locks the callers must hold *)
  s_paths : list (list item)
}.

Definition shold_dec (a b : shold) : {a = b} + {a <> b}.
Proof. decide equality; try apply mode_eq_dec; decide equality; apply string_dec. Defined.

Definition is_fresh (o : obj) : bool := prefix "%" o.

Fixpoint assoc {V} (k : string) (l : list (string * V)) : option V :=
  match l with
  | [] => None
  | (k', v) :: l' => if string_dec k k' then Some v else assoc k l'
  end.

Lemma assoc_In {V} k (l : list (string * V)) v : assoc k l = Some v -> In (k, v) l.
Proof.
  induction l as [|[k' v'] l IH]; cbn; [discriminate|].
  destruct (string_dec k k') as [->|]; [intros E; inversion E; auto|auto].
Qed.

Definition mode_le (m m' : mode) : bool := match m, m' with W, R => false | _, _ => true end.

Section Discipline.
  Variable tbl : list (field * cls).          (* field classes (regenerated) *)
  Variable kf : list (string * field).        (* open known findings: (function, field) *)
  Variable summaries : list summary.

  Definition req_of (a : acc) (f : field) : sneed :=
    match assoc f tbl with
    | None => SNever
    | Some (CGuard lk) => match a with ARd => SNeed lk R | AWr => SNeed lk W | AAt => SNever end
    | Some COwned => match a with ARd => SNeed own R | AWr => SNeed own W | AAt => SNever end
    | Some CImmutable => match a with ARd => SFree | AWr => SNeed unshared W | AAt => SNever end
    | Some CAtomic => match a with AAt => SFree | ARd => SNeed own R | AWr => SNeed unshared W end
    end.

  Definition kf_ok (fn : string) (f : field) : bool :=
    existsb (fun p => if string_dec (fst p) fn then if string_dec (snd p) f then true else false else false) kf.
  Definition kf_field (f : field) : bool :=
    existsb (fun p => if string_dec (snd p) f then true else false) kf.

  Lemma kf_ok_field fn f : kf_ok fn f = true -> kf_field f = true.
  Proof.
    unfold kf_ok, kf_field. rewrite !existsb_exists. intros ([a b] & Hi & H). exists (a, b). split; auto.
    cbn [fst snd] in *. destruct (string_dec a fn); [|discriminate H]. exact H.
  Qed.

  Definition lookup (g : string) : option summary :=
    find (fun s => if string_dec (s_name s) g then true else false) summaries.

  Lemma lookup_In g s : lookup g = Some s -> In s summaries.
  Proof. unfold lookup. intros H. apply find_some in H. tauto. Qed.

  (* ------------------------------------------------------------- checker *)

  Definition holdsb (H : list shold) (o : obj) (lk : lname) (m : mode) : bool :=
    if in_dec shold_dec (o, lk, W) H then true
    else match m with R => if in_dec shold_dec (o, lk, R) H then true else false | W => false end.

  Definition borrowedb (B : list bentry) (o : obj) (lk : lname) (m : mode) (f : field) : bool :=
    existsb (fun b => match b with (o', lk', m', f') =>
      if string_dec o' o then if string_dec lk' lk then if string_dec f' f then mode_le m m' else false else false else false end) B.

  Definition need_ok (fn : string) (B : list bentry) (H : list shold) (o : obj) (f : field) (n : sneed) : bool :=
    is_fresh o || kf_ok fn f ||
    match n with
    | SFree => true
    | SNever => false
    | SNeed lk m => holdsb H o lk m || borrowedb B o lk m f
    end.

  Definition bentry_ok (fn : string) (B : list bentry) (H : list shold) (sigma : list (obj * obj)) (b : bentry) : bool :=
    match b with (o, lk, m, f) =>
      match assoc o sigma with
      | Some o' => need_ok fn B H o' f (SNeed lk m)
      | None => false
      end
    end.

  Fixpoint check_items (fn : string) (B : list bentry) (H : list shold) (its : list item) : option (list shold) :=
    match its with
    | [] => Some H
    | IEv (SAcq o lk m) :: k => check_items fn B ((o, lk, m) :: H) k
    | IEv (SRel o lk m) :: k =>
        if in_dec shold_dec (o, lk, m) H then check_items fn B (remove1 shold_dec (o, lk, m) H) k else None
    | IEv (SAcc a o f) :: k =>
        if need_ok fn B H o f (req_of a f) then check_items fn B H k else None
    | ICall _ g sigma :: k =>
        match lookup g with
        | Some s => if forallb (bentry_ok fn B H sigma) (s_borrowed s) then check_items fn B H k else None
        | None => None
        end
    | IUnknown _ :: _ => None
    end.

  Definition path_okb (s : summary) (p : list item) : bool :=
    match check_items (s_owner s) (s_borrowed s) [] p with
    | Some [] => true
    | _ => false
    end.

  (* receivers that are per-goroutine views: their methods may rely on the
     calling goroutine owning the view *)
  Definition ownable (ty : string) : bool :=
    if string_dec ty "memfs.MemFS" then true else if string_dec ty "memfs.MemIOFS" then true else false.

  Definition api_bentry_ok (s : summary) (b : bentry) : bool :=
    match b with (o, lk, m, f) =>
      kf_ok (s_owner s) f ||
      (ownable (s_recvty s) && (if string_dec o (s_recv s) then true else false) && (if string_dec lk own then true else false))
    end.

  Definition summary_okb (s : summary) : bool :=
    forallb (path_okb s) (s_paths s) && (negb (s_api s) || forallb (api_bentry_ok s) (s_borrowed s)).

  (* policy: only the configuration of a per-goroutine view may be classed "owned by the view";
     no summary acquires or releases the pseudo locks *)
  Definition item_no_pseudo (it : item) : bool :=
    match it with
    | IEv (SAcq _ lk _) | IEv (SRel _ lk _) =>
        (if string_dec lk unshared then false else true) && (if string_dec lk own then false else true)
    | _ => true
    end.

  Definition policy_okb : bool :=
    forallb (fun fc => match snd fc with
                       | COwned => prefix "memfs.MemFS:" (fst fc) || prefix "memfs.MemIOFS:" (fst fc)
                       | _ => true end) tbl
    && forallb (fun s => forallb (forallb item_no_pseudo) (s_paths s)) summaries.

  Definition table_okb : bool := policy_okb && forallb summary_okb summaries.

  Lemma table_okb_summaries : table_okb = true -> forallb summary_okb summaries = true.
  Proof. unfold table_okb. intros H. apply andb_true_iff in H. exact (proj2 H). Qed.

  (* diagnostics (not used in proofs): every failing (function, what) *)
  Fixpoint diag_items (fn : string) (B : list bentry) (H : list shold) (its : list item) : list (string * string) :=
    match its with
    | [] => match H with [] => [] | (o, lk, _) :: _ => [(fn, "unbalanced:" +++ o +++ "." +++ lk)] end
    | IEv (SAcq o lk m) :: k => diag_items fn B ((o, lk, m) :: H) k
    | IEv (SRel o lk m) :: k =>
        if in_dec shold_dec (o, lk, m) H then diag_items fn B (remove1 shold_dec (o, lk, m) H) k
        else (fn, "release-not-held:" +++ o +++ "." +++ lk) :: diag_items fn B H k
    | IEv (SAcc a o f) :: k =>
        if need_ok fn B H o f (req_of a f) then diag_items fn B H k else (fn, f) :: diag_items fn B H k
    | ICall _ g sigma :: k =>
        match lookup g with
        | Some s => map (fun b => (fn, snd b)) (filter (fun b => negb (bentry_ok fn B H sigma b)) (s_borrowed s))
                    ++ diag_items fn B H k
        | None => (fn, "unknown-callee:" +++ g) :: diag_items fn B H k
        end
    | IUnknown why :: k => (fn, "unknown:" +++ why) :: diag_items fn B H k
    end.

  Definition diag_summary (s : summary) : list (string * string) :=
    flat_map (diag_items (s_owner s) (s_borrowed s) []) (s_paths s)
    ++ (if s_api s then map (fun b => (s_owner s, snd b)) (filter (fun b => negb (api_bentry_ok s b)) (s_borrowed s)) else []).

  Definition pair_dec (a b : string * string) : {a = b} + {a <> b}.
  Proof. decide equality; apply string_dec. Defined.
  Definition diagnose : list (string * string) := nodup pair_dec (flat_map diag_summary summaries).

  (* ------------------------------------------------------------- concrete side *)

  Inductive cobj := Shared (n : nat) | Private (n : nat).
  Definition clock := (cobj * lname)%type.
  Definition cloc := (cobj * field)%type.

  Definition cobj_dec (a b : cobj) : {a = b} + {a <> b}.
  Proof. decide equality; apply Nat.eq_dec. Defined.
  Definition clock_dec (a b : clock) : {a = b} + {a <> b}.
  Proof. decide equality; [apply string_dec | apply cobj_dec]. Defined.

  Definition is_private (c : cobj) : bool := match c with Private _ => true | Shared _ => false end.

  Definition creq (a : acc) (x : cloc) : need clock :=
    if is_private (fst x) then Free
    else if kf_field (snd x) then Free
    else match req_of a (snd x) with
         | SFree => Free
         | SNever => Never
         | SNeed lk m => Need (fst x, lk) m
         end.

  Definition cevent := event clock cloc.
  Definition cdisc := disc clock cloc clock_dec (creq ARd) (creq AWr).
  Definition crun := run clock cloc clock_dec.
  Definition csat := sat clock.
  Definition chold := hold clock.

  Definition env := obj -> cobj.
  Definition wf_env (rho : env) : Prop := forall o, is_fresh o = true -> is_private (rho o) = true.

  Definition inst (rho : env) (e : sevent) : cevent :=
    match e with
    | SAcq o lk m => Acq (rho o, lk) m
    | SRel o lk m => Rel (rho o, lk) m
    | SAcc ARd o f => Rd (rho o, f)
    | SAcc AWr o f => Wr (rho o, f)
    | SAcc AAt o f => At (rho o, f)
    end.

  (* the event sequences a path denotes *)
  Inductive den : env -> list item -> list cevent -> Prop :=
  | den_nil rho : den rho [] []
  | den_ev rho e k tr : den rho k tr -> den rho (IEv e :: k) (inst rho e :: tr)
  | den_skip rho g sigma k tr : den rho k tr -> den rho (ICall true g sigma :: k) tr
  | den_call rho (star : bool) g sigma s p rho' tr1 k tr :
      lookup g = Some s -> In p (s_paths s) -> wf_env rho' ->
      (forall f a, In (f, a) sigma -> rho' f = rho a) ->
      den rho' p tr1 ->
      den rho (if star then ICall true g sigma :: k else k) tr ->
      den rho (ICall star g sigma :: k) (tr1 ++ tr).

  Definition phi (rho : env) (h : shold) : chold :=
    match h with (o, lk, m) => ((rho o, lk), m) end.

  (* what the callers' holdings must provide for the borrowed entries *)
  Definition Bsat (rho : env) (F : list chold) (B : list bentry) : Prop :=
    forall o lk m f, In (o, lk, m, f) B ->
      is_private (rho o) = true \/ kf_field f = true \/ csat F (Need (rho o, lk) m).

  Definition table_ok : Prop :=
    forall s, In s summaries -> forall p, In p (s_paths s) ->
      check_items (s_owner s) (s_borrowed s) [] p = Some [].

  (* ---- list facts *)

  Lemma perm_remove1 {A} (dec : forall a b : A, {a = b} + {a <> b}) x l :
    In x l -> Permutation l (x :: remove1 dec x l).
  Proof.
    induction l as [|y l IH]; cbn; [tauto|].
    destruct (dec x y) as [->|Hne]; [reflexivity|].
    intros [E|Hi]; [congruence|]. rewrite perm_swap. constructor. auto.
  Qed.

  Lemma perm_release rho (C : list chold) H F x :
    Permutation C (map (phi rho) H ++ F) -> In x H ->
    Permutation (remove1 (hold_eq_dec clock clock_dec) (phi rho x) C)
                (map (phi rho) (remove1 shold_dec x H) ++ F).
  Proof.
    intros HP Hi.
    assert (HinC : In (phi rho x) C).
    { eapply Permutation_in; [symmetry; exact HP|]. apply in_or_app. left. now apply in_map. }
    apply (Permutation_cons_inv (a := phi rho x)).
    rewrite <- (perm_remove1 (hold_eq_dec clock clock_dec) (phi rho x) C HinC).
    rewrite HP. change (phi rho x :: map (phi rho) (remove1 shold_dec x H) ++ F)
      with (map (phi rho) (x :: remove1 shold_dec x H) ++ F).
    apply Permutation_app_tail. apply Permutation_map. now apply perm_remove1.
  Qed.

  Lemma csat_perm C C' n : Permutation C C' -> csat C n -> csat C' n.
  Proof.
    intros HP. destruct n as [|l [|]|]; cbn; auto.
    - intros [Hi|Hi]; [left|right]; eapply Permutation_in; eauto.
    - intros Hi; eapply Permutation_in; eauto.
  Qed.

  Lemma csat_app_l C F n : csat C n -> csat (C ++ F) n.
  Proof.
    destruct n as [|l [|]|]; cbn; auto.
    - intros [Hi|Hi]; [left|right]; apply in_or_app; auto.
    - intros Hi; apply in_or_app; auto.
  Qed.

  Lemma csat_app_r C F n : csat F n -> csat (C ++ F) n.
  Proof.
    destruct n as [|l [|]|]; cbn; auto.
    - intros [Hi|Hi]; [left|right]; apply in_or_app; auto.
    - intros Hi; apply in_or_app; auto.
  Qed.

  Lemma csat_weaken C l m m' : mode_le m m' = true -> csat C (Need l m') -> csat C (Need l m).
  Proof. destruct m, m'; cbn; try discriminate; tauto. Qed.

  Lemma holdsb_sat rho H o lk m :
    holdsb H o lk m = true -> csat (map (phi rho) H) (Need (rho o, lk) m).
  Proof.
    unfold holdsb. destruct (in_dec shold_dec (o, lk, W) H) as [Hi|_].
    - intros _. apply (in_map (phi rho)) in Hi. destruct m; cbn; auto.
    - destruct m; [|discriminate]. destruct (in_dec shold_dec (o, lk, R) H) as [Hi|_]; [|discriminate].
      intros _. apply (in_map (phi rho)) in Hi. cbn. auto.
  Qed.

  Lemma borrowedb_sat rho F B o lk m f :
    Bsat rho F B -> borrowedb B o lk m f = true ->
    is_private (rho o) = true \/ kf_field f = true \/ csat F (Need (rho o, lk) m).
  Proof.
    intros HB. unfold borrowedb. rewrite existsb_exists. intros ([[[o' lk'] m'] f'] & Hi & Hc).
    destruct (string_dec o' o) as [->|]; [|discriminate].
    destruct (string_dec lk' lk) as [->|]; [|discriminate].
    destruct (string_dec f' f) as [->|]; [|discriminate].
    destruct (HB _ _ _ _ Hi) as [Hp|[Hk|Hs]]; auto.
    right; right. eapply csat_weaken; eauto.
  Qed.

  (* a satisfied symbolic requirement gives the concrete one *)
  Lemma need_ok_sound rho fn B H F C o f n :
    wf_env rho -> Bsat rho F B -> Permutation C (map (phi rho) H ++ F) ->
    need_ok fn B H o f n = true ->
    is_private (rho o) = true \/ kf_field f = true \/
    match n with SFree => True | SNever => False | SNeed lk m => csat C (Need (rho o, lk) m) end.
  Proof.
    intros Hwf HB HP. unfold need_ok. rewrite !orb_true_iff. intros [[Hf|Hk]|Hn].
    - left. now apply Hwf.
    - right; left. eapply kf_ok_field; eauto.
    - destruct n as [|lk m|]; [auto|..|discriminate].
      apply orb_true_iff in Hn. destruct Hn as [Hh|Hb].
      + right; right. eapply csat_perm; [symmetry; exact HP|]. apply csat_app_l. now apply holdsb_sat.
      + destruct (borrowedb_sat rho F B o lk m f HB Hb) as [Hp|[Hk|Hs]]; auto.
        right; right. eapply csat_perm; [symmetry; exact HP|]. now apply csat_app_r.
  Qed.

  Lemma creq_ok (rho : env) a o f C :
    (is_private (rho o) = true \/ kf_field f = true \/
     match req_of a f with SFree => True | SNever => False | SNeed lk m => csat C (Need (rho o, lk) m) end) ->
    csat C (creq a (rho o, f)).
  Proof.
    unfold creq; cbn [fst snd]. intros [Hp|[Hk|Hr]].
    - rewrite Hp. exact I.
    - destruct (is_private (rho o)); [exact I|]. rewrite Hk. exact I.
    - destruct (is_private (rho o)); [exact I|]. destruct (kf_field f); [exact I|].
      destruct (req_of a f); auto.
  Qed.

  (* ------------------------------------------------------------- soundness *)

  Lemma check_sound : table_ok ->
    forall rho its tr, den rho its tr -> wf_env rho ->
    forall fn B H H' F C,
      check_items fn B H its = Some H' -> Bsat rho F B ->
      Permutation C (map (phi rho) H ++ F) ->
      cdisc C tr /\ Permutation (crun C tr) (map (phi rho) H' ++ F).
  Proof.
    intros Htab rho its tr Hden.
    induction Hden as [rho | rho e k tr Hden IH | rho g sigma k tr Hden IH
                      | rho star g sigma s p rho' tr1 k tr Hl Hp Hwf' Hsig Hden1 IH1 Hden2 IH2];
      intros Hwf fn B H H' F C Hck HB HP.
    - cbn in Hck. inversion Hck; subst. split; [exact I|exact HP].
    - destruct e as [o lk m|o lk m|a o f]; cbn [check_items] in Hck.
      + (* acquire *)
        destruct (IH Hwf fn B ((o, lk, m) :: H) H' F ((rho o, lk, m) :: C) Hck HB) as [Hd Hr].
        { cbn. constructor. exact HP. }
        split; [|exact Hr]. cbn. split; [exact I|exact Hd].
      + (* release *)
        destruct (in_dec shold_dec (o, lk, m) H) as [Hi|]; [|discriminate].
        assert (HinC : In (rho o, lk, m) C).
        { eapply Permutation_in; [symmetry; exact HP|]. apply in_or_app. left.
          change (rho o, lk, m) with (phi rho (o, lk, m)). now apply in_map. }
        destruct (IH Hwf fn B _ H' F (remove1 (hold_eq_dec clock clock_dec) (rho o, lk, m) C) Hck HB) as [Hd Hr].
        { change (rho o, lk, m) with (phi rho (o, lk, m)). now apply perm_release. }
        split; [|exact Hr]. cbn. split; [exact HinC|exact Hd].
      + (* access *)
        destruct (need_ok fn B H o f (req_of a f)) eqn:Hn; [|discriminate].
        destruct (IH Hwf fn B H H' F C Hck HB HP) as [Hd Hr].
        split; [|destruct a; exact Hr].
        pose proof (creq_ok rho a o f C (need_ok_sound rho fn B H F C o f _ Hwf HB HP Hn)) as Hs.
        destruct a; cbn; split; auto; exact I.
    - (* loop executed zero more times *)
      cbn [check_items] in Hck. destruct (lookup g) as [s|]; [|discriminate].
      destruct (forallb _ _); [|discriminate]. eapply IH; eauto.
    - (* call *)
      assert (Hck' := Hck). cbn [check_items] in Hck. rewrite Hl in Hck.
      destruct (forallb (bentry_ok fn B H sigma) (s_borrowed s)) eqn:Hfa; [|discriminate].
      (* the callee's borrowed entries are provided by what the caller holds *)
      assert (HB' : Bsat rho' C (s_borrowed s)).
      { intros o lk m f Hib. rewrite forallb_forall in Hfa. specialize (Hfa _ Hib). cbn in Hfa.
        destruct (assoc o sigma) as [o'|] eqn:Ha; [|discriminate].
        apply assoc_In in Ha. rewrite (Hsig _ _ Ha).
        exact (need_ok_sound rho fn B H F C o' f (SNeed lk m) Hwf HB HP Hfa). }
      destruct (IH1 Hwf' (s_owner s) (s_borrowed s) [] [] C C (Htab s (lookup_In _ _ Hl) p Hp) HB') as [Hd1 Hr1].
      { reflexivity. }
      cbn in Hr1.
      assert (HP1 : Permutation (crun C tr1) (map (phi rho) H ++ F)) by (rewrite Hr1; exact HP).
      assert (Hck2 : check_items fn B H (if star then ICall true g sigma :: k else k) = Some H').
      { destruct star; [exact Hck'|exact Hck]. }
      destruct (IH2 Hwf fn B H H' F (crun C tr1) Hck2 HB HP1) as [Hd2 Hr2].
      split.
      + apply disc_app. split; assumption.
      + unfold crun in *. rewrite run_app. exact Hr2.
  Qed.

  (* ------------------------------------------------------------- programs *)

  Lemma forallb_table : forallb summary_okb summaries = true -> table_ok.
  Proof.
    intros Hall s Hs p Hp. rewrite forallb_forall in Hall. specialize (Hall s Hs).
    unfold summary_okb in Hall. apply andb_true_iff in Hall. destruct Hall as [Hpa _].
    rewrite forallb_forall in Hpa. specialize (Hpa p Hp). unfold path_okb in Hpa.
    destruct (check_items (s_owner s) (s_borrowed s) [] p) as [[|]|]; try discriminate. reflexivity.
  Qed.

  (* one completed call of an entry point, started while holding F, is disciplined
     and gives back exactly F *)
  Lemma api_call_sound : forallb summary_okb summaries = true ->
    forall s p rho tr F,
      In s summaries -> s_api s = true -> In p (s_paths s) -> wf_env rho -> den rho p tr ->
      (ownable (s_recvty s) = true -> In ((rho (s_recv s), own), W) F) ->
      cdisc F tr /\ Permutation (crun F tr) F.
  Proof.
    intros Hall s p rho tr F Hs Hapi Hp Hwf Hden Hown.
    pose proof (forallb_table Hall) as Htab.
    assert (HB : Bsat rho F (s_borrowed s)).
    { rewrite forallb_forall in Hall. specialize (Hall s Hs). unfold summary_okb in Hall.
      apply andb_true_iff in Hall. destruct Hall as [_ Hb]. rewrite Hapi in Hb. cbn in Hb.
      rewrite forallb_forall in Hb. intros o lk m f Hi. specialize (Hb _ Hi). cbn in Hb.
      apply orb_true_iff in Hb. destruct Hb as [Hk|Hb].
      - right; left. eapply kf_ok_field; eauto.
      - apply andb_true_iff in Hb. destruct Hb as [Hb Hlk]. apply andb_true_iff in Hb. destruct Hb as [Ho Hr].
        destruct (string_dec o (s_recv s)) as [->|]; [|discriminate].
        destruct (string_dec lk own) as [->|]; [|discriminate].
        right; right. specialize (Hown Ho). destruct m; cbn; auto. }
    destruct (check_sound Htab rho p tr Hden Hwf (s_owner s) (s_borrowed s) [] [] F F (Htab s Hs p Hp) HB) as [Hd Hr].
    { reflexivity. }
    split; [exact Hd|exact Hr].
  Qed.

  (* A goroutine of the documented kind: it owns the views [vs] (its Sub views),
     and performs any sequence of entry-point calls, those on views being on its own. *)
  Inductive calls (vs : list cobj) : list cevent -> Prop :=
  | calls_nil : calls vs []
  | calls_cons s p rho tr rest :
      In s summaries -> s_api s = true -> In p (s_paths s) -> wf_env rho -> den rho p tr ->
      (ownable (s_recvty s) = true -> In (rho (s_recv s)) vs) ->
      calls vs rest -> calls vs (tr ++ rest).

  Definition take_views (vs : list cobj) : list cevent := map (fun v => Acq (v, own) W) vs.
  Definition goroutine (vs : list cobj) (cs : list cevent) : list cevent := take_views vs ++ cs.

  Lemma take_views_run vs : forall H,
    cdisc H (take_views vs) /\ (forall v, In v vs -> In ((v, own), W) (crun H (take_views vs)))
    /\ (forall h, In h H -> In h (crun H (take_views vs))).
  Proof.
    induction vs as [|v vs IH]; intros H; cbn.
    - repeat split; tauto.
    - destruct (IH (((v, own), W) :: H)) as (Hd & Hv & Hk). repeat split; auto.
      + intros v' [->|Hi]; [apply Hk; left; reflexivity|auto].
      + intros h Hi. apply Hk. right. exact Hi.
  Qed.

  Lemma cdisc_perm C C' tr : Permutation C C' -> cdisc C tr -> cdisc C' tr /\ Permutation (crun C tr) (crun C' tr).
  Proof.
    revert C C'. induction tr as [|e tr IH]; intros C C' HP Hd; cbn in *; [split; auto|].
    destruct Hd as [Hok Hd].
    assert (HP' : Permutation (upd clock cloc clock_dec C e) (upd clock cloc clock_dec C' e)).
    { destruct e as [l m|l m|x|x|x]; cbn; auto.
      cbn in Hok.
      apply (Permutation_cons_inv (a := (l, m))).
      rewrite <- (perm_remove1 (hold_eq_dec clock clock_dec) (l, m) C Hok).
      rewrite <- (perm_remove1 (hold_eq_dec clock clock_dec) (l, m) C'); [exact HP|].
      eapply Permutation_in; eauto. }
    destruct (IH _ _ HP' Hd) as [Hd' Hr]. split; [split|]; auto.
    destruct e as [l m|l m|x|x|x]; cbn in *.
    - exact I.
    - eapply Permutation_in; eauto.
    - eapply csat_perm; eauto.
    - eapply csat_perm; eauto.
    - exact I.
  Qed.

  Lemma calls_disc : forallb summary_okb summaries = true ->
    forall vs cs, calls vs cs ->
    forall F, (forall v, In v vs -> In ((v, own), W) F) -> cdisc F cs /\ Permutation (crun F cs) F.
  Proof.
    intros Hall vs cs Hc. induction Hc as [|s p rho tr rest Hs Hapi Hp Hwf Hden Hown Hc IH]; intros F HF.
    - split; [exact I|reflexivity].
    - destruct (api_call_sound Hall s p rho tr F Hs Hapi Hp Hwf Hden) as [Hd Hr].
      { intros Ho. apply HF. auto. }
      destruct (IH F HF) as [Hd2 Hr2].
      destruct (cdisc_perm F (crun F tr) rest (Permutation_sym Hr) Hd2) as [Hd3 Hr3].
      split.
      + apply disc_app. split; assumption.
      + unfold crun in *. rewrite run_app. rewrite <- Hr3. exact Hr2.
  Qed.

  Theorem goroutine_disciplined : forallb summary_okb summaries = true ->
    forall vs cs, calls vs cs ->
      disciplined clock cloc clock_dec (creq ARd) (creq AWr) (goroutine vs cs).
  Proof.
    intros Hall vs cs Hc. unfold disciplined, goroutine. apply disc_app.
    destruct (take_views_run vs []) as (Hd & Hv & _). split; [exact Hd|].
    apply (calls_disc Hall vs cs Hc). exact Hv.
  Qed.

  (* ------------------------------------------------------------- the property on programs *)

  Definition program_trace (tr : trace clock cloc) : Prop :=
    valid clock cloc clock_dec [] tr /\
    forall t, exists vs cs rest, calls vs cs /\ goroutine vs cs = proj clock cloc t tr ++ rest.

  Lemma program_disciplined : forallb summary_okb summaries = true ->
    forall tr, program_trace tr ->
    forall t, disciplined clock cloc clock_dec (creq ARd) (creq AWr) (proj clock cloc t tr).
  Proof.
    intros Hall tr [_ Hp] t. destruct (Hp t) as (vs & cs & rest & Hc & E).
    eapply disciplined_prefix. rewrite <- E. now apply goroutine_disciplined.
  Qed.

  (* the lock that orders the accesses to a field: its guard, or the ownership of the view *)
  Definition field_lock (f : field) : option lname :=
    match assoc f tbl with
    | Some (CGuard lk) => Some lk
    | Some COwned => Some own
    | _ => None
    end.

  Definition guarded_field (f : field) (lk : lname) : Prop :=
    field_lock f = Some lk /\ kf_field f = false.

  Lemma guarded_field_by n f lk :
    guarded_field f lk -> guarded_by clock cloc (creq ARd) (creq AWr) (Shared n, f) (Shared n, lk).
  Proof.
    intros [Ha Hk]. unfold guarded_by, creq, req_of, field_lock in *; cbn. rewrite Hk.
    destruct (assoc f tbl) as [[lk'| | |]|]; try discriminate; inversion Ha; subst; split; reflexivity.
  Qed.

  (* No data race on any shared object's field guarded by a lock, in any program of
     any number of goroutines of the documented kind, under any schedule. *)
  Theorem program_race_free : forallb summary_okb summaries = true ->
    forall tr, program_trace tr ->
    forall a t1 e1 b t2 e2 c n f lk,
      tr = a ++ (t1, e1) :: b ++ (t2, e2) :: c -> t1 <> t2 ->
      guarded_field f lk ->
      access clock cloc e1 (Shared n, f) -> access clock cloc e2 (Shared n, f) ->
      e1 = Wr (Shared n, f) \/ e2 = Wr (Shared n, f) ->
      exists m1 m2 b1 b2 b3,
        b = b1 ++ (t1, Rel (Shared n, lk) m1) :: b2 ++ (t2, Acq (Shared n, lk) m2) :: b3
        /\ (e1 = Wr (Shared n, f) -> m1 = W) /\ (e2 = Wr (Shared n, f) -> m2 = W).
  Proof.
    intros Hall tr Hp a t1 e1 b t2 e2 c n f lk Htr Hne Hg A1 A2 Hw.
    eapply race_free; eauto.
    - exact (proj1 Hp).
    - now apply program_disciplined.
    - now apply guarded_field_by.
  Qed.

  Theorem program_visibility : forallb summary_okb summaries = true ->
    forall tr, program_trace tr ->
    forall a t1 b t2 c n f lk,
      tr = a ++ (t1, Wr (Shared n, f)) :: b ++ (t2, Rd (Shared n, f)) :: c -> t1 <> t2 ->
      guarded_field f lk ->
      exists m2 b1 b2 b3,
        b = b1 ++ (t1, Rel (Shared n, lk) W) :: b2 ++ (t2, Acq (Shared n, lk) m2) :: b3.
  Proof.
    intros Hall tr Hp a t1 b t2 c n f lk Htr Hne Hg.
    eapply visibility; eauto.
    - exact (proj1 Hp).
    - now apply program_disciplined.
    - now apply guarded_field_by.
  Qed.

  (* ---- the pseudo lock "unshared" is never acquired, so nothing that needs it happens *)

  Lemma den_no_unshared : policy_okb = true ->
    forall rho its tr, den rho its tr ->
    forallb item_no_pseudo its = true ->
    forall c m, ~ In (Acq (c, unshared) m) tr.
  Proof.
    intros Hpol rho its tr Hden.
    induction Hden as [rho | rho e k tr Hden IH | rho g sigma k tr Hden IH
                      | rho star g sigma s p rho' tr1 k tr Hl Hp Hwf' Hsig Hden1 IH1 Hden2 IH2];
      intros Hits c m Hin.
    - exact Hin.
    - cbn [forallb] in Hits. apply andb_true_iff in Hits. destruct Hits as [He Hk].
      destruct Hin as [E|Hin]; [|eapply IH; eauto].
      destruct e as [o lk m0|o lk m0|[| |] o f]; cbn in E; try discriminate.
      inversion E; subst. cbn in He. destruct (string_dec unshared unshared); [discriminate|congruence].
    - cbn [forallb] in Hits. apply andb_true_iff in Hits. eapply IH; [apply Hits|eauto].
    - cbn [forallb] in Hits. apply andb_true_iff in Hits. destruct Hits as [_ Hk].
      apply in_app_or in Hin. destruct Hin as [Hin|Hin].
      + eapply IH1; [|exact Hin].
        unfold policy_okb in Hpol. apply andb_true_iff in Hpol. destruct Hpol as [_ Hs].
        rewrite forallb_forall in Hs. specialize (Hs s (lookup_In _ _ Hl)).
        rewrite forallb_forall in Hs. apply Hs. exact Hp.
      + eapply IH2; [|exact Hin]. destruct star; [cbn [forallb]; rewrite Hk; reflexivity|exact Hk].
  Qed.

  Lemma calls_no_unshared : policy_okb = true ->
    forall vs cs, calls vs cs -> forall c m, ~ In (Acq (c, unshared) m) cs.
  Proof.
    intros Hpol vs cs Hc. induction Hc as [|s p rho tr rest Hs Hapi Hp Hwf Hden Hown Hc IH]; intros c m Hin; [exact Hin|].
    apply in_app_or in Hin. destruct Hin as [Hin|Hin]; [|eapply IH; eauto].
    eapply (den_no_unshared Hpol); [exact Hden| |exact Hin].
    unfold policy_okb in Hpol. apply andb_true_iff in Hpol. destruct Hpol as [_ Hq].
    rewrite forallb_forall in Hq. specialize (Hq s Hs). rewrite forallb_forall in Hq. apply Hq. exact Hp.
  Qed.

  Lemma program_no_unshared : policy_okb = true ->
    forall tr, program_trace tr -> forall c t m, ~ In (t, Acq (c, unshared) m) tr.
  Proof.
    intros Hpol tr [_ Hp] c t m Hin. apply proj_In in Hin.
    destruct (Hp t) as (vs & cs & rest & Hc & E).
    assert (Hg : In (Acq (c, unshared) m) (goroutine vs cs)) by (rewrite E; apply in_or_app; left; exact Hin).
    unfold goroutine in Hg. apply in_app_or in Hg. destruct Hg as [Hg|Hg].
    - unfold take_views in Hg. apply in_map_iff in Hg. destruct Hg as (v & E' & _). inversion E'.
    - eapply calls_no_unshared; eauto.
  Qed.

  (* fields classed immutable or atomic (and not excluded by a finding) are never written by a
     plain store on shared objects *)
  Theorem program_never_written : table_okb = true ->
    forall tr, program_trace tr ->
    forall t n f, (assoc f tbl = Some CImmutable \/ assoc f tbl = Some CAtomic) -> kf_field f = false ->
      ~ In (t, Wr (Shared n, f)) tr.
  Proof.
    intros Hok tr Hp t n f Ha Hk.
    unfold table_okb in Hok. apply andb_true_iff in Hok. destruct Hok as [Hpol Hall].
    eapply (needs_unacquired clock cloc clock_dec (creq ARd) (creq AWr) tr (program_disciplined Hall tr Hp)
              (Shared n, unshared) (fun t' m' => program_no_unshared Hpol tr Hp (Shared n) t' m') t (Wr (Shared n, f)) W).
    unfold creq, req_of; cbn. rewrite Hk. destruct Ha as [-> | ->]; reflexivity.
  Qed.

End Discipline.
