(* Small-step interleaving semantics at LOCK-ACQUISITION granularity (DESIGN 3.1-L5, C06, C07).

   A thread is a machine over a thread-local state: [request] says which lock (and in which
   mode) it asks for next - [None] when its program is finished -, [holds] which locks it
   holds while asking, and [segment] is the code it runs, atomically, from the moment the
   lock is granted up to its next request (releases included).  The shared state is only
   touched inside segments.  A schedule is a list of thread indices; a step of a thread
   whose request cannot be granted (RWMutex exclusion: a writer excludes everybody, readers
   exclude writers; Go's RWMutex is not re-entrant, so a thread's own holds count) is a
   stutter.  This is exactly what the deterministic scheduler of the harness
   (harness/sched) does with the real goroutines.

   Generic results, for ANY number of threads and ANY schedule:
     - [deadlock_free_of_order] (C07_order): if every thread asks only for locks that are
       above, in one fixed order, every lock it holds, and a finished thread holds
       nothing, the state is not deadlocked;
     - [sched_run_invariant]: an invariant of [sched_step] holds after every schedule. *)
From Avfs Require Import Base.
Set Implicit Arguments.

Definition lock := nat.
Record req := { r_lock : lock; r_write : bool }.
Definition hold := (lock * bool)%type.       (* (lock, held for writing) *)

Definition conflicts (r : req) (h : hold) : bool :=
  Nat.eqb (fst h) (r_lock r) && (snd h || r_write r).

Section Sched.
  Variables (sstate lstate : Type).
  Variable request : lstate -> option req.
  Variable holds : lstate -> list hold.
  Variable segment : lstate -> sstate -> sstate * lstate.
  Variable cur_call : lstate -> nat.           (* index of the call being executed (ghost, for traces) *)

  Record thread := { th_ls : lstate; th_trace : list (nat * req) }.
  Record cstate := { c_sh : sstate; c_th : list thread }.

  Definition all_holds (ths : list thread) : list hold := flat_map (fun t => holds (th_ls t)) ths.

  Definition available (ths : list thread) (r : req) : bool :=
    forallb (fun h => negb (conflicts r h)) (all_holds ths).

  Definition enabled_thread (ths : list thread) (t : thread) : bool :=
    match request (th_ls t) with
    | Some r => available ths r
    | None => false
    end.

  Definition enabled (c : cstate) (i : nat) : bool :=
    match nth_error (c_th c) i with
    | Some t => enabled_thread (c_th c) t
    | None => false
    end.

  Fixpoint sched_set_nth {A} (l : list A) (i : nat) (x : A) : list A :=
    match l, i with
    | [], _ => []
    | _ :: l', O => x :: l'
    | y :: l', S i' => y :: sched_set_nth l' i' x
    end.

  Definition sched_step (i : nat) (c : cstate) : cstate :=
    match nth_error (c_th c) i with
    | Some t =>
        match request (th_ls t) with
        | Some r =>
            if available (c_th c) r then
              let '(sh', ls') := segment (th_ls t) (c_sh c) in
              {| c_sh := sh';
                 c_th := sched_set_nth (c_th c) i {| th_ls := ls'; th_trace := th_trace t ++ [(cur_call (th_ls t), r)] |} |}
            else c
        | None => c
        end
    | None => c
    end.

  Definition sched_run (sched : list nat) (c : cstate) : cstate := fold_left (fun c i => sched_step i c) sched c.

  Definition finished_thread (t : thread) : bool :=
    match request (th_ls t) with None => true | Some _ => false end.
  Definition finished (c : cstate) : bool := forallb finished_thread (c_th c).

  (* every live thread waits for a lock that is held in a conflicting mode *)
  Definition deadlocked (c : cstate) : bool :=
    negb (finished c) && forallb (fun t => negb (enabled_thread (c_th c) t)) (c_th c).

  (* the default policy of the harness once a schedule is exhausted: the lowest enabled thread *)
  Fixpoint first_enabled (c : cstate) (n i : nat) : option nat :=
    match n with
    | O => None
    | S n' => if enabled c i then Some i else first_enabled c n' (S i)
    end.

  Fixpoint complete (fuel : nat) (c : cstate) : cstate :=
    match fuel with
    | O => c
    | S f =>
        match first_enabled c (length (c_th c)) 0 with
        | Some i => complete f (sched_step i c)
        | None => c
        end
    end.

  (* ---- invariants are preserved by every schedule ---- *)
  Lemma sched_run_invariant (P : cstate -> Prop) :
    (forall i c, P c -> P (sched_step i c)) ->
    forall sched c, P c -> P (sched_run sched c).
  Proof.
    intros Hstep sched; induction sched as [|i s IH]; intros c Hc; cbn [sched_run fold_left]; [exact Hc|].
    apply IH. apply Hstep. exact Hc.
  Qed.

  Lemma sched_run_app s1 s2 c : sched_run (s1 ++ s2) c = sched_run s2 (sched_run s1 c).
  Proof. unfold sched_run. apply fold_left_app. Qed.

  Lemma complete_invariant (P : cstate -> Prop) :
    (forall i c, P c -> P (sched_step i c)) ->
    forall fuel c, P c -> P (complete fuel c).
  Proof.
    intros Hstep fuel; induction fuel as [|f IH]; intros c Hc; cbn [complete]; [exact Hc|].
    destruct (first_enabled c (length (c_th c)) 0); [apply IH, Hstep, Hc|exact Hc].
  Qed.

  (* ---- C07_order: an ascending lock discipline excludes deadlock ---- *)
  Section Order.
    Variable rank : lock -> nat.

    (* every thread asks for a lock strictly above everything it holds *)
    Definition ascending (c : cstate) : Prop :=
      forall t r h, In t (c_th c) -> request (th_ls t) = Some r -> In h (holds (th_ls t)) ->
                    rank (fst h) < rank (r_lock r).

    (* a thread whose program is finished holds nothing: every held lock is released by its
       holder's remaining segments *)
    Definition finished_hold_nothing (c : cstate) : Prop :=
      forall t, In t (c_th c) -> request (th_ls t) = None -> holds (th_ls t) = [].

    Lemma max_rank_hold (hs : list hold) :
      hs <> [] -> exists h, In h hs /\ forall h', In h' hs -> rank (fst h') <= rank (fst h).
    Proof.
      induction hs as [|a hs IH]; [congruence|]. intros _.
      destruct hs as [|b hs'].
      - exists a. split; [left; reflexivity|]. intros h' [<-|[]]. lia.
      - destruct IH as [m [Hin Hmax]]; [congruence|].
        destruct (le_lt_dec (rank (fst m)) (rank (fst a))) as [Hle|Hlt].
        + exists a. split; [left; reflexivity|].
          intros h' [<-|Hin']; [lia|]. specialize (Hmax _ Hin'). lia.
        + exists m. split; [right; exact Hin|].
          intros h' [<-|Hin']; [lia|]. apply Hmax; exact Hin'.
    Qed.

    Lemma forallb_false_ex {A} (f : A -> bool) (l : list A) :
      forallb f l = false -> exists x, In x l /\ f x = false.
    Proof.
      induction l as [|a l IH]; cbn [forallb]; [discriminate|]. intros H.
      destruct (f a) eqn:Ea.
      - cbn [andb] in H. destruct (IH H) as [x [Hin Hx]]. exists x. split; [right; exact Hin|exact Hx].
      - exists a. split; [left; reflexivity|exact Ea].
    Qed.

    Lemma in_all_holds ths h :
      In h (all_holds ths) <-> exists t, In t ths /\ In h (holds (th_ls t)).
    Proof. unfold all_holds. rewrite in_flat_map. reflexivity. Qed.

    Lemma not_available_conflict ths r :
      available ths r = false -> exists h, In h (all_holds ths) /\ conflicts r h = true.
    Proof.
      unfold available. intros H. destruct (forallb_false_ex _ _ H) as [h [Hin Hc]].
      exists h. split; [exact Hin|]. apply negb_false_iff. exact Hc.
    Qed.

    Theorem deadlock_free_of_order (c : cstate) :
      ascending c -> finished_hold_nothing c -> deadlocked c = false.
    Proof.
      intros Hasc Hfin. destruct (deadlocked c) eqn:Hd; [|reflexivity]. exfalso.
      unfold deadlocked in Hd. apply andb_prop in Hd. destruct Hd as [Hnf Hdis].
      rewrite forallb_forall in Hdis.
      (* some thread is live *)
      assert (Hlive : exists t, In t (c_th c) /\ finished_thread t = false).
      { unfold finished in Hnf. apply negb_true_iff in Hnf. apply forallb_false_ex. exact Hnf. }
      destruct Hlive as [t0 [Hin0 Hlive0]].
      unfold finished_thread in Hlive0. destruct (request (th_ls t0)) as [r0|] eqn:Er0; [|discriminate].
      (* it is blocked, so some lock is held *)
      pose proof (Hdis _ Hin0) as Hb0. apply negb_true_iff in Hb0.
      unfold enabled_thread in Hb0. rewrite Er0 in Hb0.
      destruct (not_available_conflict _ _ Hb0) as [h0 [Hh0 _]].
      assert (Hne : all_holds (c_th c) <> []) by (intros E; rewrite E in Hh0; destruct Hh0).
      destruct (max_rank_hold Hne) as [m [Hm Hmax]].
      apply in_all_holds in Hm. destruct Hm as [tm [Hintm Hhm]].
      (* the holder of the maximal lock is live and blocked on a held lock above it *)
      destruct (request (th_ls tm)) as [rm|] eqn:Erm.
      - pose proof (Hdis _ Hintm) as Hbm. apply negb_true_iff in Hbm.
        unfold enabled_thread in Hbm. rewrite Erm in Hbm.
        destruct (not_available_conflict _ _ Hbm) as [h' [Hh' Hc']].
        unfold conflicts in Hc'. apply andb_prop in Hc'. destruct Hc' as [Heq _].
        apply Nat.eqb_eq in Heq.
        pose proof (Hasc _ _ _ Hintm Erm Hhm) as Hlt.
        pose proof (Hmax _ Hh') as Hle. rewrite Heq in Hle. lia.
      - rewrite (Hfin _ Hintm Erm) in Hhm. destruct Hhm.
    Qed.

    (* the same for every state reached by any schedule, given the discipline as an invariant *)
    Corollary no_reachable_deadlock (I : cstate -> Prop) :
      (forall i c, I c -> I (sched_step i c)) ->
      (forall c, I c -> ascending c /\ finished_hold_nothing c) ->
      forall c0 sched, I c0 -> deadlocked (sched_run sched c0) = false.
    Proof.
      intros Hstep Himp c0 sched H0.
      destruct (Himp _ (sched_run_invariant I Hstep sched c0 H0)) as [Ha Hf].
      apply deadlock_free_of_order; assumption.
    Qed.
  End Order.
End Sched.
