(* C06, temp names: n threads call MkdirTemp(dir, pat) (or CreateTemp) on one shared MemFS whose
   directory dir exists; each thread draws its candidate names from its OWN arbitrary stream
   (streams may collide as much as they like).  For EVERY n, EVERY schedule and EVERY family of
   streams, no name is returned to two callers.

   Invariant over [mc_step]: the directory only gains entries, each inserted under its write lock
   after the re-check, by the very step that returns the name; so the returned names are, up to
   permutation, the names added - which are pairwise distinct. *)
From Coq Require Import Permutation.
From Avfs Require Import Base Sched MemConc ExclMkdir.
Set Implicit Arguments.

Definition tname (t : mthread) : list cpath :=
  match l_res (th_ls t) with [KOkName p] => [p] | _ => [] end.

Definition returned (ths : list mthread) : list cpath := flat_map tname ths.

Lemma returned_set_nth ths i t t' :
  nth_error ths i = Some t -> tname t = [] ->
  Permutation (returned (sched_set_nth ths i t')) (tname t' ++ returned ths).
Proof.
  unfold returned. revert i; induction ths as [|x ths IH]; intros [|i] H Ht; cbn in *; try discriminate.
  - injection H as ->. rewrite Ht. cbn. apply Permutation_refl.
  - specialize (IH _ H Ht). rewrite IH.
    rewrite !app_assoc. apply Permutation_app_tail. apply Permutation_app_comm.
Qed.

Lemma returned_set_nth_same ths i t t' :
  nth_error ths i = Some t -> tname t' = tname t ->
  returned (sched_set_nth ths i t') = returned ths.
Proof.
  unfold returned. revert i; induction ths as [|x ths IH]; intros [|i] H Ht; cbn in *; try discriminate.
  - injection H as ->. rewrite Ht. reflexivity.
  - rewrite (IH _ H Ht). reflexivity.
Qed.

Lemma NoDup_app_single {A} (l : list A) (x : A) : NoDup l -> ~ In x l -> NoDup (l ++ [x]).
Proof.
  induction l as [|a l IH]; cbn; intros Hn Hx.
  - constructor; [tauto|constructor].
  - inversion Hn as [|? ? Ha Hl]; subst. constructor.
    + rewrite in_app_iff. cbn. intros [H|[H|[]]]; [tauto|]. subst. tauto.
    + apply IH; tauto.
Qed.

Section Temp.
  Variables (h0 : cheap) (dirs : cpath) (pat : cname) (d : nat).
  Variable cr : bool.                       (* false: MkdirTemp, true: CreateTemp *)
  Let fresh : cnode := if cr then KFile 1 else KDir [].

  Hypothesis Hres : walk_dirs h0 0 dirs = Some d.
  Hypothesis Hdir : k_is_dir h0 d = true.

  Lemma d_lt0 : d < length h0.
  Proof. pose proof Hdir as Hd. unfold k_is_dir in Hd. destruct (hget h0 d) eqn:E; [|discriminate]. eapply hget_lt; eauto. Qed.

  (* the heaps reachable from h0: d has gained the entries [added], all bound to fresh nodes *)
  Record ext (h : cheap) (added : list (cname * nat)) : Prop := {
    e_len : length h0 <= length h;
    e_old : forall c, c <> d -> c < length h0 -> hget h c = hget h0 c;
    e_kids : exists ch0, hget h0 d = Some (KDir ch0) /\ hget h d = Some (KDir (ch0 ++ added));
    e_new : forall c, length h0 <= c -> c < length h -> hget h c = Some fresh;
    e_add : forall x c, In (x, c) added -> length h0 <= c /\ c < length h /\ k_lookup h0 d x = None;
    e_nodup : NoDup (map fst added)
  }.

  Lemma ext_init : ext h0 [].
  Proof.
    pose proof Hdir as Hd. unfold k_is_dir in Hd. destruct (hget h0 d) as [[ch0| |]|] eqn:E; try discriminate.
    constructor; auto; try (intros; lia).
    - exists ch0. rewrite app_nil_r. auto.
    - intros x c [].
    - constructor.
  Qed.

  Lemma alookup_app_some (k : cname) (a b : list (cname * nat)) v :
    alookup str_eqb k a = Some v -> alookup str_eqb k (a ++ b) = Some v.
  Proof. induction a as [|[k' v'] a IH]; cbn; [discriminate|]. destruct (str_eqb k k'); auto. Qed.

  Lemma alookup_app_none (k : cname) (a b : list (cname * nat)) :
    alookup str_eqb k a = None -> alookup str_eqb k (a ++ b) = alookup str_eqb k b.
  Proof. induction a as [|[k' v'] a IH]; cbn; auto. destruct (str_eqb k k'); [discriminate|auto]. Qed.

  Lemma alookup_in (k : cname) (a : list (cname * nat)) v :
    alookup str_eqb k a = Some v -> In (k, v) a.
  Proof.
    induction a as [|[k' v'] a IH]; cbn; [discriminate|].
    destruct (str_eqb k k') eqn:E.
    - intros H; injection H as <-. apply str_eqb_eq in E. subst. left; reflexivity.
    - intros H. right. auto.
  Qed.

  Lemma alookup_none_notin (k : cname) (a : list (cname * nat)) :
    alookup str_eqb k a = None -> ~ In k (map fst a).
  Proof.
    induction a as [|[k' v'] a IH]; cbn; [tauto|].
    destruct (str_eqb k k') eqn:E; [discriminate|].
    intros H [Heq|Hin]; [subst; rewrite str_eqb_refl in E; discriminate|]. apply IH; auto.
  Qed.

  Lemma ext_lookup_stable h added c x c' :
    ext h added -> k_lookup h0 c x = Some c' -> k_lookup h c x = Some c'.
  Proof.
    intros E H. destruct (Nat.eq_dec c d) as [->|Hne].
    - destruct (e_kids E) as [ch0 [E0 E1]]. unfold k_lookup, k_kids in *. rewrite E0 in H. rewrite E1.
      apply alookup_app_some. exact H.
    - unfold k_lookup, k_kids in *. destruct (hget h0 c) eqn:Ec; [|discriminate].
      rewrite (e_old E Hne (hget_lt _ _ Ec)). rewrite Ec. exact H.
  Qed.

  Lemma ext_is_dir_stable h added c : ext h added -> k_is_dir h0 c = true -> k_is_dir h c = true.
  Proof.
    intros E H. destruct (Nat.eq_dec c d) as [->|Hne].
    - destruct (e_kids E) as [ch0 [_ E1]]. unfold k_is_dir. rewrite E1. reflexivity.
    - unfold k_is_dir in *. destruct (hget h0 c) eqn:Ec; [|discriminate].
      rewrite (e_old E Hne (hget_lt _ _ Ec)). rewrite Ec. exact H.
  Qed.

  (* a name of d that h0 does not know is, in h, either absent or bound to a fresh node *)
  Lemma ext_lookup_new h added x :
    ext h added -> k_lookup h0 d x = None ->
    k_lookup h d x = alookup str_eqb x added /\
    forall c, k_lookup h d x = Some c -> hget h c = Some fresh /\ c <> d.
  Proof.
    intros E H. destruct (e_kids E) as [ch0 [E0 E1]].
    assert (Hl : k_lookup h d x = alookup str_eqb x added).
    { unfold k_lookup, k_kids in *. rewrite E0 in H. rewrite E1. apply alookup_app_none. exact H. }
    split; [exact Hl|]. intros c Hc. rewrite Hl in Hc. apply alookup_in in Hc.
    destruct (e_add E _ _ Hc) as [H1 [H2 _]]. split; [apply (e_new E); assumption|]. pose proof d_lt0. lia.
  Qed.

  (* the insertion performed by a successful Mkdir / exclusive create *)
  Lemma ext_insert h added x :
    ext h added -> k_lookup h0 d x = None -> k_lookup h d x = None ->
    ext (k_add_child (h ++ [fresh]) d x (length h)) (added ++ [(x, length h)]).
  Proof.
    intros E H0 Hh. destruct (e_kids E) as [ch0 [E0 E1]]. pose proof d_lt0 as Hd. pose proof (e_len E) as Hlen.
    assert (Hdh : d < length h) by lia.
    assert (Habs : alookup str_eqb x (ch0 ++ added) = None).
    { unfold k_lookup, k_kids in Hh. rewrite E1 in Hh. exact Hh. }
    assert (Heq : k_add_child (h ++ [fresh]) d x (length h) = hset (h ++ [fresh]) d (KDir ((ch0 ++ added) ++ [(x, length h)]))).
    { unfold k_add_child. rewrite hget_app_l by exact Hdh. rewrite E1. rewrite aset_absent by exact Habs. reflexivity. }
    rewrite Heq. constructor.
    - rewrite hset_length, app_length. cbn. lia.
    - intros c Hne Hc. rewrite hget_hset_other by congruence. rewrite hget_app_l by lia. apply (e_old E); assumption.
    - exists ch0. split; [exact E0|]. rewrite hget_hset_same by (rewrite app_length; cbn; lia).
      rewrite app_assoc. reflexivity.
    - intros c Hc1 Hc2. rewrite hset_length, app_length in Hc2. cbn in Hc2.
      rewrite hget_hset_other by lia.
      destruct (Nat.eq_dec c (length h)) as [->|Hne].
      + apply hget_app_last.
      + rewrite hget_app_l by lia. apply (e_new E); lia.
    - intros y c Hin. rewrite hset_length, app_length. cbn. apply in_app_or in Hin. destruct Hin as [Hin|[Hin|[]]].
      + destruct (e_add E _ _ Hin) as [H1 [H2 H3]]. repeat split; auto; lia.
      + injection Hin as <- <-. repeat split; auto; lia.
    - rewrite map_app. cbn. apply NoDup_app_single.
      + apply (e_nodup E).
      + rewrite alookup_app_none in Habs.
        * apply alookup_none_notin. exact Habs.
        * unfold k_lookup, k_kids in H0. rewrite E0 in H0. exact H0.
  Qed.

  (* ---- the shape of a thread running [MkdirTemp dirs pat] / [CreateTemp dirs pat] --------------------- *)
  Definition tmpi (x : cname) : tmpinfo := Some (dirs, pat, dirs ++ [x]).
  Definition t_wk (x : cname) : wk := if cr then KCreate (tmpi x) else KMkdir (tmpi x).
  Definition t_lock (x : cname) : pc := if cr then PCreateW d x (tmpi x) else PMkdirW d x (tmpi x).
  Definition t_call : qcall := if cr then QCreateTemp dirs pat else QMkdirTemp dirs pat.
  Definition wlk' (x : cname) (c : nat) (done rest : cpath) : wst :=
    {| w_cur := c; w_done := done; w_rest := rest; w_sl := 0; w_arg := dirs ++ [x] |}.
  Definition mk1 (pcv : pc) (res : list kres) (rnd : list cname) : lst :=
    {| l_pc := pcv; l_todo := []; l_res := res; l_rand := rnd |}.

  Lemma cr_cases' :
    (cr = true /\ (forall x, t_wk x = KCreate (tmpi x)) /\ (forall x, t_lock x = PCreateW d x (tmpi x)) /\ fresh = KFile 1) \/
    (cr = false /\ (forall x, t_wk x = KMkdir (tmpi x)) /\ (forall x, t_lock x = PMkdirW d x (tmpi x)) /\ fresh = KDir []).
  Proof. unfold t_wk, t_lock, fresh. destruct cr; [left|right]; repeat split; reflexivity. Qed.

  Inductive tsh : lst -> Prop :=
  | TW_walk x done rest c rnd :
      done ++ rest = dirs ++ [x] -> rest <> [] -> walk_dirs h0 0 done = Some c ->
      tsh (mk1 (PWalk (wlk' x c done rest) SLstat (t_wk x)) [] rnd)
  | TW_perm x done rest c rnd :
      done ++ rest = dirs ++ [x] -> rest <> [] -> walk_dirs h0 0 done = Some c ->
      tsh (mk1 (PPerm c (wlk' x c done rest) SLstat (t_wk x)) [] rnd)
  | TW_lock x rnd : k_lookup h0 d x = None -> tsh (mk1 (t_lock x) [] rnd)
  | TW_child hp c x rnd : cr = true -> hp = None \/ hp = Some d -> tsh (mk1 (PCreateC hp c (tmpi x)) [] rnd)
  | TW_done r rnd : tsh (mk1 PIdle [r] rnd).

  Definition no_name (ls : lst) : Prop := forall p, l_res ls <> [KOkName p].

  (* EEXIST: the next candidate of the thread's own stream, or give up *)
  Lemma ret_exist b pcv x rnd :
    b = cr ->
    let ls' := k_ret_tmp (mk1 pcv [] rnd) (tmpi x) b (KErr XEEXIST) in
    tsh ls' /\ no_name ls'.
  Proof.
    intros ->. unfold k_ret_tmp, tmpi, mk1. cbn [l_rand l_todo l_res].
    destruct rnd as [|rr rnd'].
    - cbn. split; [apply (TW_done (KErr XERAND) [])|]. intros p0 H; discriminate.
    - split.
      + assert (H : tsh (mk1 (PWalk (wlk' (pat ++ rr) 0 [] (dirs ++ [pat ++ rr])) SLstat (t_wk (pat ++ rr))) [] rnd')).
        { refine (@TW_walk (pat ++ rr) [] (dirs ++ [pat ++ rr]) 0 rnd' eq_refl _ eq_refl); destruct dirs; discriminate. }
        destruct cr_cases' as [[Ecr [Ewk _]]|[Ecr [Ewk _]]]; rewrite Ewk in H; rewrite Ecr; exact H.
      + intros p0 H; cbn in H; discriminate.
  Qed.

  Lemma ret_ok pcv x rnd :
    k_ret_tmp (mk1 pcv [] rnd) (tmpi x) cr KOk = mk1 PIdle [KOkName (dirs ++ [x])] rnd.
  Proof. reflexivity. Qed.

  Lemma ret_other pcv x rnd e :
    e <> XEEXIST -> e <> XENOENT ->
    k_ret_tmp (mk1 pcv [] rnd) (tmpi x) cr (KErr e) = mk1 PIdle [KErr e] rnd.
  Proof. intros H1 H2. unfold k_ret_tmp, tmpi. destruct e; try congruence; reflexivity. Qed.

  Lemma prefix_of_dirs (done : cpath) x0 y tl x :
    done ++ x0 :: y :: tl = dirs ++ [x] -> exists dirs', dirs = done ++ x0 :: dirs'.
  Proof.
    generalize dirs as ds. induction done as [|a done IH]; intros ds Hp; cbn in *.
    - destruct ds as [|b ds]; cbn in *; [discriminate|]. injection Hp as -> Hp. exists ds. reflexivity.
    - destruct ds as [|b ds]; cbn in *.
      + destruct done; cbn in Hp; discriminate.
      + injection Hp as -> Hp. destruct (IH _ Hp) as [ds' ->]. exists ds'. reflexivity.
  Qed.

  (* the answer of the call once the last component has been found to exist *)
  Lemma exists_answer h x c rnd w k0 (tl0 : cpath) r :
    r = {| wr_parent := d; wr_child := Some c; wr_err := XEEXIST; wr_last := true; wr_part := x; wr_rest := tl0;
           wr_path := dirs ++ [x]; wr_arg := dirs ++ [x] |} ->
    let ls' := k_wdone (mk1 (PWalk w SLstat k0) [] rnd) h r (t_wk x) in
    tsh ls' /\ no_name ls'.
  Proof.
    intros ->. unfold k_wdone. cbn [wr_err wr_last wr_child cerr_eqb andb orb negb].
    destruct cr_cases' as [[Ecr [Ewk _]]|[Ecr [Ewk _]]]; rewrite Ewk.
    - cbn -[k_ret_tmp]. destruct (hget h c) as [[ch| |tg]|].
      + split; [refine (@TW_child None c x rnd Ecr _); left; reflexivity|]. intros p0 H; discriminate.
      + split; [refine (@TW_child None c x rnd Ecr _); left; reflexivity|]. intros p0 H; discriminate.
      + exact (@ret_exist true (PWalk w SLstat k0) x rnd (eq_sym Ecr)).
      + split; [refine (@TW_child None c x rnd Ecr _); left; reflexivity|]. intros p0 H; discriminate.
    - cbn -[k_ret_tmp]. exact (@ret_exist false (PWalk w SLstat k0) x rnd (eq_sym Ecr)).
  Qed.

  Lemma lookup_h0_none h added x : ext h added -> k_lookup h d x = None -> k_lookup h0 d x = None.
  Proof.
    intros E H. destruct (k_lookup h0 d x) as [c|] eqn:E0; [|reflexivity].
    rewrite (@ext_lookup_stable h added d x c E E0) in H. discriminate.
  Qed.

  (* one granted step of a thread of that shape *)
  Lemma seg_tsh h added ls :
    ext h added -> tsh ls -> l_res ls = [] ->
    let '(h', ls') := mc_segment ls h in
    tsh ls' /\
    ((h' = h /\ no_name ls') \/
     (exists x, ext h' (added ++ [(x, length h)]) /\ l_res ls' = [KOkName (dirs ++ [x])])).
  Proof.
    intros E Hs Hres0.
    inversion Hs as [x done rest c rnd Hp Hne Hw|x done rest c rnd Hp Hne Hw|x rnd H0|hp c x rnd Ecr Ehp|r rnd]; subst ls;
      [| | | |discriminate].
    - (* a step of the walk *)
      destruct rest as [|x0 tl]; [congruence|].
      unfold mc_segment, mk1, l_pc, wlk'. unfold k_walk_step. cbn [w_rest w_cur w_done w_sl w_arg].
      destruct tl as [|y tl'].
      + apply app_inj_tail in Hp. destruct Hp as [-> ->].
        rewrite Hres in Hw. injection Hw as <-.
        destruct (k_lookup h d x) as [c'|] eqn:El.
        * destruct (hget h c') as [[ch| |tg]|] eqn:Eg.
          -- split; [|left; split; [reflexivity|]];
               apply (@exists_answer h x c' rnd (wlk' x d dirs [x]) (t_wk x) [] _ eq_refl).
          -- split; [|left; split; [reflexivity|]];
               apply (@exists_answer h x c' rnd (wlk' x d dirs [x]) (t_wk x) [] _ eq_refl).
          -- cbn [Nat.ltb Nat.leb k_slmax andb].
             split; [|left; split; [reflexivity|]];
               apply (@exists_answer h x c' rnd (wlk' x d dirs [x]) (t_wk x) [] _ eq_refl).
          -- cbn. split; [apply (TW_done (KErr XEFUEL) rnd)|]. left. split; [reflexivity|]. intros p0 H; discriminate.
        * pose proof (@lookup_h0_none h added x E El) as H0.
          unfold k_wdone. cbn [wr_err wr_last wr_parent wr_part cerr_eqb andb orb negb].
          destruct cr_cases' as [[Ecr [Ewk [Elk _]]]|[Ecr [Ewk [Elk _]]]]; rewrite Ewk; cbn; rewrite <- Elk;
            (split; [apply TW_lock; exact H0|]; left; split; [reflexivity|]; intros p0 H; discriminate).
      + destruct (@prefix_of_dirs done x0 y tl' x Hp) as [dirs' Hd].
        pose proof Hres as Hr. rewrite Hd in Hr. rewrite walk_dirs_app in Hr. rewrite Hw in Hr.
        cbn [walk_dirs] in Hr. destruct (k_lookup h0 c x0) as [c'|] eqn:El; [|discriminate].
        destruct (k_is_dir h0 c') eqn:Ed; [|discriminate].
        rewrite (@ext_lookup_stable h added c x0 c' E El).
        pose proof (@ext_is_dir_stable h added c' E Ed) as Ed'. unfold k_is_dir in Ed'.
        destruct (hget h c') as [[ch| |]|]; try discriminate.
        cbn. split; [|left; split; [reflexivity|intros p0 H; discriminate]].
        refine (@TW_perm x (done ++ [x0]) (y :: tl') c' rnd _ _ _).
        * rewrite <- app_assoc. exact Hp.
        * discriminate.
        * rewrite walk_dirs_app, Hw. cbn. rewrite El, Ed. reflexivity.
    - cbn. split; [apply TW_walk; assumption|]. left. split; [reflexivity|intros p0 H; discriminate].
    - (* the segment under the write lock of the directory: re-check, then insert *)
      unfold mc_segment, mk1, l_pc.
      destruct (@ext_lookup_new h added x E H0) as [Hl Hnew].
      destruct cr_cases' as [[Ecr [Ewk [Elk Efr]]]|[Ecr [Ewk [Elk Efr]]]]; rewrite Elk.
      + destruct (k_lookup h d x) as [c'|] eqn:El.
        * destruct (Hnew c' eq_refl) as [Hg _]. rewrite Hg, Efr.
          cbn. split; [refine (@TW_child (Some d) c' x rnd Ecr _); right; reflexivity|].
          left. split; [reflexivity|intros p0 H; discriminate].
        * unfold k_alloc. cbn -[k_add_child]. rewrite <- Efr.
          split; [apply (TW_done (KOkName (dirs ++ [x])) rnd)|].
          right. exists x. split; [apply ext_insert; assumption|reflexivity].
      + destruct (k_lookup h d x) as [c'|] eqn:El.
        * cbn -[k_ret_tmp]. split; [|left; split; [reflexivity|]];
            exact (proj1 (@ret_exist false (PMkdirW d x (tmpi x)) x rnd (eq_sym Ecr))) ||
            exact (proj2 (@ret_exist false (PMkdirW d x (tmpi x)) x rnd (eq_sym Ecr))).
        * unfold k_alloc. cbn -[k_add_child]. rewrite <- Efr.
          split; [apply (TW_done (KOkName (dirs ++ [x])) rnd)|].
          right. exists x. split; [apply ext_insert; assumption|reflexivity].
    - (* the name is taken: EEXIST from OpenFile, CreateTemp tries its next candidate *)
      unfold mc_segment, mk1, l_pc.
      split; [|left; split; [reflexivity|]];
        exact (proj1 (@ret_exist true (PCreateC hp c (tmpi x)) x rnd (eq_sym Ecr))) ||
        exact (proj2 (@ret_exist true (PCreateC hp c (tmpi x)) x rnd (eq_sym Ecr))).
  Qed.

  (* ---- the invariant of the concurrent machine -------------------------------------------------------------- *)
  Definition nm_path (a : cname * nat) : cpath := dirs ++ [fst a].

  Definition TInv (c : mstate) : Prop :=
    exists added, ext (c_sh c) added /\
      Forall (fun t => tsh (th_ls t)) (c_th c) /\
      Permutation (returned (c_th c)) (map nm_path added).

  Lemma tsh_live_res ls : tsh ls -> mc_request ls <> None -> l_res ls = [].
  Proof. intros H; inversion H; subst; cbn; auto. intros Hn. exfalso. apply Hn. reflexivity. Qed.

  Lemma tinv_step i c : TInv c -> TInv (mc_step i c).
  Proof.
    intros [added [E [Hall Hperm]]]. unfold mc_step, sched_step.
    destruct (nth_error (c_th c) i) as [t|] eqn:Et; [|exists added; auto].
    destruct (mc_request (th_ls t)) as [r|] eqn:Er; [|exists added; auto].
    destruct (available mc_holds (c_th c) r); [|exists added; auto].
    assert (Hs : tsh (th_ls t)).
    { rewrite Forall_forall in Hall. apply Hall. eapply nth_error_In; eauto. }
    assert (Hr0 : l_res (th_ls t) = []) by (apply tsh_live_res; [exact Hs|congruence]).
    assert (Ht0 : tname t = []) by (unfold tname; rewrite Hr0; reflexivity).
    pose proof (@seg_tsh (c_sh c) added (th_ls t) E Hs Hr0) as Hseg.
    destruct (mc_segment (th_ls t) (c_sh c)) as [h' ls'].
    destruct Hseg as [Hs' Hcase]. cbn [c_sh c_th].
    set (t' := {| th_ls := ls'; th_trace := th_trace t ++ [(mc_cur_call (th_ls t), r)] |}).
    destruct Hcase as [[-> Hnn] | [x [E' Hres']]].
    - exists added. split; [exact E|]. split; [apply Forall_set_nth; [exact Hall|exact Hs']|].
      assert (Ht' : tname t' = tname t).
      { rewrite Ht0. unfold tname, t'. cbn [th_ls]. destruct (l_res ls') as [|[| |p0] [|]] eqn:El; auto.
        exfalso. apply (Hnn p0). exact El. }
      pose proof (returned_set_nth_same (c_th c) i t' Et Ht') as Hr.
      cbn [c_sh c_th]. refine (eq_ind_r (fun z => Permutation z _) Hperm Hr).
    - exists (added ++ [(x, length (c_sh c))]). split; [exact E'|].
      split; [apply Forall_set_nth; [exact Hall|exact Hs']|].
      pose proof (returned_set_nth (c_th c) i t' Et Ht0) as Hr.
      cbn [c_sh c_th]. eapply Permutation_trans; [exact Hr|].
      assert (Hn : tname t' = [dirs ++ [x]]) by (unfold tname, t'; cbn [th_ls]; rewrite Hres'; reflexivity).
      rewrite Hn. cbn [app]. rewrite map_app. cbn [map].
      apply Permutation_cons_app. rewrite app_nil_r. exact Hperm.
  Qed.

  Definition tstart (rnds : list (list cname)) : mstate :=
    mc_init h0 (map (fun _ => [t_call]) rnds) rnds.

  Lemma load_temp rnd :
    tsh (k_load [t_call] [] rnd) /\ no_name (k_load [t_call] [] rnd).
  Proof.
    unfold t_call. destruct rnd as [|r rnd'].
    - destruct cr_cases' as [[Ecr _]|[Ecr _]]; rewrite Ecr; cbn;
        (split; [apply (TW_done (KErr XEFUEL) [])|intros p0 H; discriminate]).
    - assert (H : tsh (mk1 (PWalk (wlk' (pat ++ r) 0 [] (dirs ++ [pat ++ r])) SLstat (t_wk (pat ++ r))) [] rnd')).
      { refine (@TW_walk (pat ++ r) [] (dirs ++ [pat ++ r]) 0 rnd' eq_refl _ eq_refl); destruct dirs; discriminate. }
      destruct cr_cases' as [[Ecr [Ewk _]]|[Ecr [Ewk _]]]; rewrite Ewk in H; rewrite Ecr; cbn;
        (split; [exact H|intros p0 H1; discriminate]).
  Qed.

  Lemma tinv_start rnds : TInv (tstart rnds).
  Proof.
    exists []. unfold tstart, mc_init. cbn [c_sh c_th]. split; [apply ext_init|].
    split.
    - induction rnds as [|r rs IH]; cbn; constructor; auto.
      unfold mc_thread. cbn [th_ls]. apply load_temp.
    - cbn [map]. induction rnds as [|r rs IH]; cbn; [constructor|].
      unfold returned in *. cbn [flat_map]. unfold tname at 1. unfold mc_thread at 1. cbn [th_ls].
      destruct (load_temp r) as [_ Hn]. destruct (l_res (k_load [t_call] [] r)) as [|[| |p0] [|]] eqn:El; auto.
      exfalso. apply (Hn p0). exact El.
  Qed.

  Lemma nodup_paths (added : list (cname * nat)) : NoDup (map fst added) -> NoDup (map nm_path added).
  Proof.
    induction added as [|a l IH]; cbn; intros H; [constructor|].
    inversion H as [|? ? Ha Hl]; subst. constructor; [|apply IH; exact Hl].
    intros Hin. apply Ha. apply in_map_iff in Hin. destruct Hin as [b [Hb Hinb]].
    unfold nm_path in Hb. apply app_inv_head in Hb. injection Hb as Hb. rewrite <- Hb.
    apply in_map. exact Hinb.
  Qed.

  (* MAIN: any number of threads, any streams, any schedule (no matter whether the calls have returned) *)
  Theorem temp_unique_main rnds sched :
    NoDup (returned (c_th (mc_run sched (tstart rnds)))).
  Proof.
    assert (H : TInv (mc_run sched (tstart rnds))).
    { unfold mc_run. apply (sched_run_invariant mc_request mc_holds mc_segment mc_cur_call TInv).
      - intros i c. apply tinv_step.
      - apply tinv_start. }
    destruct H as [added [E [_ Hperm]]].
    apply (Permutation_NoDup (Permutation_sym Hperm)). apply nodup_paths. apply (e_nodup E).
  Qed.
End Temp.
