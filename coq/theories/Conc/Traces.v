(* C07_traces: the lock traces of the Rename-free MemFS calls are ASCENDING, hence (C07_order) no
   program made of Mkdir, OpenFile(excl), Remove, Link, Symlink, MkdirAll, RemoveAll, CreateTemp,
   MkdirTemp can deadlock, whatever the number of threads and the schedule.

   Order on locks: directories by node id, then every other node.  Why it works: a directory
   always has a larger id than the directory it was created in, and nothing but Rename moves a
   directory; Remove/RemoveAll/OpenFile lock a directory and then one of its entries; Link locks
   a directory and then a file; the recursion of RemoveAll only descends.  The facts a thread
   relies on were read during its unlocked walk, but ids and kinds of nodes never change, so the
   facts stay true whatever the other threads do. *)
From Avfs Require Import Base Sched MemConc ExclMkdir DeadlockFree.
Set Implicit Arguments.

Definition okd (h : cheap) (d : nat) : Prop := k_is_dir h d = true.
Definition below (h : cheap) (d c : nat) : Prop := c < length h /\ (k_is_dir h c = true -> d < c).

(* the heap is ordered: the root is a directory; every entry points to an existing node, and to a
   younger one when it is a directory *)
Definition hord (h : cheap) : Prop :=
  okd h 0 /\ forall p nm c, In (nm, c) (k_kids h p) -> below h p c.

(* how heaps evolve: they grow, and the kind of a node never changes *)
Definition grows (h h' : cheap) : Prop :=
  length h <= length h' /\ forall i, i < length h -> k_is_dir h' i = k_is_dir h i.

Lemma grows_refl h : grows h h.
Proof. split; auto. Qed.

Lemma grows_trans a b c : grows a b -> grows b c -> grows a c.
Proof. intros [L1 K1] [L2 K2]. split; [lia|]. intros i Hi. rewrite K2 by lia. apply K1. exact Hi. Qed.

Lemma okd_lt h d : okd h d -> d < length h.
Proof. unfold okd, k_is_dir. destruct (hget h d) eqn:E; [|discriminate]. intros _. eapply hget_lt; eauto. Qed.

Lemma okd_grows h h' d : grows h h' -> okd h d -> okd h' d.
Proof. intros [_ K] H. unfold okd. rewrite K; [exact H|]. apply okd_lt. exact H. Qed.

Lemma below_grows h h' d c : grows h h' -> below h d c -> below h' d c.
Proof. intros [L K] [Hc Hd]. split; [lia|]. rewrite K by exact Hc. exact Hd. Qed.

(* ---- the primitive updates ---------------------------------------------------------------------- *)
Definition same_kind (a b : cnode) : Prop :=
  match a, b with KDir _, KDir _ | KFile _, KFile _ | KSym _, KSym _ => True | _, _ => False end.

Lemma is_dir_hset h i n n' j :
  hget h i = Some n -> same_kind n n' -> k_is_dir (hset h i n') j = k_is_dir h j.
Proof.
  intros Hg Hk. unfold k_is_dir. destruct (Nat.eq_dec i j) as [<-|Hne].
  - rewrite hget_hset_same by (eapply hget_lt; eauto). rewrite Hg. destruct n, n'; cbn in Hk; tauto.
  - rewrite hget_hset_other by exact Hne. reflexivity.
Qed.

Lemma grows_hset h i n n' : hget h i = Some n -> same_kind n n' -> grows h (hset h i n').
Proof. intros Hg Hk. split; [rewrite hset_length; lia|]. intros j _. eapply is_dir_hset; eauto. Qed.

Lemma kids_hset h i n' j :
  i < length h -> k_kids (hset h i n') j = if Nat.eqb i j then match n' with KDir ch => ch | _ => [] end else k_kids h j.
Proof.
  intros Hi. unfold k_kids. destruct (Nat.eqb_spec i j) as [<-|Hne].
  - rewrite hget_hset_same by exact Hi. reflexivity.
  - rewrite hget_hset_other by exact Hne. reflexivity.
Qed.

(* replacing the entries of a directory by entries that are all fine keeps the heap ordered *)
Lemma hord_set_kids h d ch ch' :
  hord h -> hget h d = Some (KDir ch) ->
  (forall nm c, In (nm, c) ch' -> below h d c) ->
  hord (hset h d (KDir ch')).
Proof.
  intros [H0 He] Hg Hnew.
  assert (G : grows h (hset h d (KDir ch'))) by (eapply grows_hset; eauto; exact I).
  split; [eapply okd_grows; eauto|].
  intros p nm c Hin. rewrite kids_hset in Hin by (eapply hget_lt; eauto).
  destruct (Nat.eqb_spec d p) as [<-|Hne].
  - eapply below_grows; eauto.
  - eapply below_grows; eauto.
Qed.

Lemma hord_set_leaf h i n n' :
  hord h -> hget h i = Some n -> same_kind n n' -> (forall ch, n' <> KDir ch) -> hord (hset h i n').
Proof.
  intros [H0 He] Hg Hk Hleaf.
  assert (G : grows h (hset h i n')) by (eapply grows_hset; eauto).
  split; [eapply okd_grows; eauto|].
  intros p nm c Hin. rewrite kids_hset in Hin by (eapply hget_lt; eauto).
  destruct (Nat.eqb_spec i p) as [<-|Hne].
  - destruct n'; try destruct Hin. exfalso. eapply Hleaf; eauto.
  - eapply below_grows; eauto.
Qed.

Lemma in_aset (k : cname) (v : nat) m k' v' :
  In (k', v') (aset str_eqb k v m) -> In (k', v') m \/ (k', v') = (k, v).
Proof.
  induction m as [|[a b] m IH]; cbn.
  - intros [H|[]]; right; symmetry; exact H.
  - destruct (str_eqb k a).
    + intros [H|H]; [right; symmetry; exact H|left; right; exact H].
    + intros [H|H]; [left; left; exact H|]. destruct (IH H); [left; right; assumption|right; assumption].
Qed.

Lemma in_aremove (k : cname) (m : list (cname * nat)) k' v' :
  In (k', v') (aremove str_eqb k m) -> In (k', v') m.
Proof.
  induction m as [|[a b] m IH]; cbn; [tauto|].
  destruct (str_eqb k a); [intros H; right; auto|]. intros [H|H]; [left; exact H|right; auto].
Qed.

Lemma add_child_inv h d nm c :
  hord h -> below h d c -> hord (k_add_child h d nm c) /\ grows h (k_add_child h d nm c).
Proof.
  intros Ho Hb. unfold k_add_child. destruct (hget h d) as [[ch| |]|] eqn:Eg; try (split; [exact Ho|apply grows_refl]).
  split.
  - eapply hord_set_kids; eauto. intros n' c' Hin. destruct (in_aset _ _ _ _ _ Hin) as [H|H].
    + apply (proj2 Ho d n' c'). unfold k_kids. rewrite Eg. exact H.
    + injection H as -> ->. exact Hb.
  - eapply grows_hset; eauto. exact I.
Qed.

Lemma remove_child_inv h d nm :
  hord h -> hord (k_remove_child h d nm) /\ grows h (k_remove_child h d nm).
Proof.
  intros Ho. unfold k_remove_child. destruct (hget h d) as [[ch| |]|] eqn:Eg; try (split; [exact Ho|apply grows_refl]).
  split.
  - eapply hord_set_kids; eauto. intros n' c' Hin. apply in_aremove in Hin.
    apply (proj2 Ho d n' c'). unfold k_kids. rewrite Eg. exact Hin.
  - eapply grows_hset; eauto. exact I.
Qed.

Lemma del_node_inv h c :
  hord h -> hord (k_del_node h c) /\ grows h (k_del_node h c).
Proof.
  intros Ho. unfold k_del_node. destruct (hget h c) as [[ch|n|t]|] eqn:Eg; try (split; [exact Ho|apply grows_refl]).
  - split; [eapply hord_set_kids; eauto; intros ? ? []|eapply grows_hset; eauto; exact I].
  - split; [eapply hord_set_leaf; eauto; [exact I|discriminate]|eapply grows_hset; eauto; exact I].
  - split; [eapply hord_set_leaf; eauto; [exact I|discriminate]|eapply grows_hset; eauto; exact I].
Qed.

Lemma is_dir_app h n i : i < length h -> k_is_dir (h ++ [n]) i = k_is_dir h i.
Proof. intros Hi. unfold k_is_dir. rewrite hget_app_l by exact Hi. reflexivity. Qed.

Lemma grows_app h n : grows h (h ++ [n]).
Proof. split; [rewrite app_length; cbn; lia|]. intros i Hi. apply is_dir_app. exact Hi. Qed.

Lemma kids_app h n i : i < length h -> k_kids (h ++ [n]) i = k_kids h i.
Proof. intros Hi. unfold k_kids. rewrite hget_app_l by exact Hi. reflexivity. Qed.

Lemma kids_out h i : length h <= i -> k_kids h i = [].
Proof. intros Hi. unfold k_kids, hget. rewrite (proj2 (nth_error_None h i) Hi). reflexivity. Qed.

Lemma alloc_inv h n :
  hord h -> (forall ch, n = KDir ch -> ch = []) -> hord (h ++ [n]) /\ grows h (h ++ [n]).
Proof.
  intros [H0 He] Hn. pose proof (grows_app h n) as G. split; [|exact G].
  split; [eapply okd_grows; eauto|].
  intros p nm c Hin. destruct (lt_dec p (length h)) as [Hp|Hp].
  - rewrite kids_app in Hin by exact Hp. eapply below_grows; eauto.
  - destruct (Nat.eq_dec p (length h)) as [->|Hne].
    + unfold k_kids in Hin. rewrite hget_app_last in Hin. destruct n as [ch| |]; try destruct Hin.
      rewrite (Hn ch eq_refl) in Hin. destruct Hin.
    + rewrite kids_out in Hin; [destruct Hin|]. rewrite app_length. cbn. lia.
Qed.

(* a fresh node is younger than everything *)
Lemma below_fresh h n d : d < length h -> below (h ++ [n]) d (length h).
Proof. intros Hd. split; [rewrite app_length; cbn; lia|]. intros _. exact Hd. Qed.

(* ---- what every control point knows ------------------------------------------------------------------------------ *)
Definition rfree_call (c : qcall) : bool := match c with QRename _ _ => false | _ => true end.
Definition rfree (todo : list qcall) : Prop := forallb rfree_call todo = true.

Definition kinv (h : cheap) (k : wk) : Prop :=
  match k with
  | KLnkNew oc => oc < length h
  | KRenOld _ | KRenNew _ => False
  | _ => True
  end.

(* the frames of RemoveAll's recursion, innermost first, above the directory [lo] *)
Fixpoint frames_ok (h : cheap) (lo : nat) (st : list rmframe) : Prop :=
  match st with
  | [] => True
  | (x, todo) :: st' =>
      okd h x /\ (forall nm y, In (nm, y) todo -> below h x y) /\ frames_ok h lo st' /\
      match st' with [] => lo < x | (px, _) :: _ => px < x end
  end.

Definition top_of (lo : nat) (st : list rmframe) : nat :=
  match st with [] => lo | (x, _) :: _ => x end.

Definition pcinv (h : cheap) (p : pc) : Prop :=
  match p with
  | PWalk w _ k | PPerm _ w _ k | PSymR _ w _ k => okd h (w_cur w) /\ kinv h k
  | PMkdirW d _ _ | PCreateW d _ _ | PSymW d _ _ | PMkAllW d _ _ => okd h d
  | PCreateC (Some d) c _ => okd h d /\ below h d c
  | PCreateC None _ _ => True
  | PRemoveP d c _ | PRemoveC d c _ | PRmAllP d c _ | PRmAllD d c _ => okd h d /\ below h d c
  | PRmAllE d c _ => okd h d /\ below h d c /\ okd h c
  | PLnkP d _ oc => okd h d /\ oc < length h
  | PLnkC d _ oc => okd h d /\ oc < length h /\ k_is_dir h oc = false
  | PRmAllR d c _ st x => okd h d /\ below h d c /\ frames_ok h d st /\ below h (top_of d st) x /\ okd h x
  | PRmAllK d c _ st y => okd h d /\ below h d c /\ frames_ok h d st /\ below h (top_of d st) y
  | PRenO _ _ | PRenN _ _ | PRenD _ _ _ => False
  | PStatC _ | PIdle => True
  end.

Definition good (h : cheap) (ls : lst) : Prop := pcinv h (l_pc ls) /\ rfree (l_todo ls).

Lemma kinv_grows h h' k : grows h h' -> kinv h k -> kinv h' k.
Proof. intros [L _]. destruct k; cbn; auto. lia. Qed.

Lemma frames_ok_grows h h' lo st : grows h h' -> frames_ok h lo st -> frames_ok h' lo st.
Proof.
  intros G. induction st as [|[x todo] st IH]; cbn; auto.
  intros [H1 [H2 [H3 H4]]]. split; [eapply okd_grows; eauto|]. split; [|split; [apply IH; exact H3|exact H4]].
  intros nm0 y0 Hin. eapply below_grows; eauto.
Qed.

Lemma pcinv_grows h h' p : grows h h' -> pcinv h p -> pcinv h' p.
Proof.
  intros G. pose proof (@okd_grows h h') as OG. pose proof (@below_grows h h') as BG. pose proof (@kinv_grows h h') as KG.
  destruct p; cbn; auto; try (match goal with hp : option nat |- _ => destruct hp; auto end);
    unfold below in *; intros; repeat match goal with H : _ /\ _ |- _ => destruct H end; repeat split;
    eauto using frames_ok_grows; try (destruct G; lia).
  all: try (destruct G as [L K]; first [lia | rewrite K by assumption; assumption]).
Qed.

Lemma good_grows h h' ls : grows h h' -> good h ls -> good h' ls.
Proof. intros G [A B]. split; [eapply pcinv_grows; eauto|exact B]. Qed.

(* ---- loading and finishing calls ------------------------------------------------------------------------------------ *)
Lemma load_good h todo res rnd : okd h 0 -> rfree todo -> good h (k_load todo res rnd).
Proof.
  intros H0. revert res rnd. induction todo as [|c t IH]; intros res rnd Hf.
  - cbn. split; [exact I|reflexivity].
  - unfold rfree in Hf. cbn [forallb] in Hf. apply andb_prop in Hf. destruct Hf as [Hc Ht].
    cbn [k_load].
    destruct c as [p|p|p|o n|o n|tg n|p|p|dir pat|dir pat]; cbn [k_start_call];
      try (destruct p as [|x p']; [apply IH; exact Ht|split; [split; [exact H0|exact I]|exact Ht]]).
    + discriminate.
    + destruct o as [|x o']; [apply IH; exact Ht|]. destruct n as [|y n']; [apply IH; exact Ht|].
      split; [split; [exact H0|exact I]|exact Ht].
    + destruct n as [|y n']; [apply IH; exact Ht|]. split; [split; [exact H0|exact I]|exact Ht].
    + destruct rnd as [|r rnd']; [apply IH; exact Ht|]. split; [split; [exact H0|exact I]|exact Ht].
    + destruct rnd as [|r rnd']; [apply IH; exact Ht|]. split; [split; [exact H0|exact I]|exact Ht].
Qed.

Lemma ret_good h ls r : okd h 0 -> rfree (l_todo ls) -> good h (k_ret ls r).
Proof. intros H0 Hf. unfold k_ret. apply load_good; assumption. Qed.

Lemma goto_good h ls p : pcinv h p -> rfree (l_todo ls) -> good h (k_goto ls p).
Proof. intros Hp Hf. split; assumption. Qed.

Lemma ret_tmp_good h ls tmp b r : okd h 0 -> rfree (l_todo ls) -> good h (k_ret_tmp ls tmp b r).
Proof.
  intros H0 Hf. unfold k_ret_tmp. destruct tmp as [[[dir pat] p]|]; [|apply ret_good; assumption].
  destruct r as [|e|p0]; try (apply ret_good; assumption).
  destruct e; try (apply ret_good; assumption).
  - destruct (l_rand ls) as [|rr rnd']; [apply ret_good; assumption|].
    split; [|exact Hf]. cbn. split; [exact H0|]. destruct b; exact I.
  - destruct b; [apply ret_good; assumption|]. destruct dir; [apply ret_good; assumption|].
    apply goto_good; [|exact Hf]. cbn. split; [exact H0|exact I].
Qed.

(* ---- the walk ---------------------------------------------------------------------------------------------------------- *)
Lemma lookup_in h p nm c : k_lookup h p nm = Some c -> In (nm, c) (k_kids h p).
Proof.
  unfold k_lookup. generalize (k_kids h p) as m. induction m as [|[a b] m IH]; cbn; [discriminate|].
  destruct (str_eqb nm a) eqn:E.
  - intros H; injection H as <-. apply str_eqb_eq in E. subst. left; reflexivity.
  - intros H. right. auto.
Qed.

Lemma lookup_below h p nm c : hord h -> k_lookup h p nm = Some c -> below h p c.
Proof. intros [_ He] H. eapply He. eapply lookup_in; eauto. Qed.

Lemma wdone_good h ls r k :
  hord h -> okd h (wr_parent r) -> (forall c, wr_child r = Some c -> below h (wr_parent r) c) ->
  kinv h k -> rfree (l_todo ls) -> good h (k_wdone ls h r k).
Proof.
  intros Ho Hp Hc Hk Hf. pose proof (proj1 Ho) as H0.
  unfold k_wdone. destruct k; cbn in Hk; try tauto.
  - destruct (cerr_eqb (wr_err r) XENOENT && wr_last r); [apply goto_good; [exact Hp|exact Hf]|apply ret_tmp_good; assumption].
  - destruct (negb ((cerr_eqb (wr_err r) XEEXIST || cerr_eqb (wr_err r) XENOENT) && wr_last r)); [apply ret_tmp_good; assumption|].
    destruct (cerr_eqb (wr_err r) XEEXIST).
    + destruct (wr_child r) as [c|]; [|apply ret_tmp_good; assumption].
      destruct (hget h c) as [[| |]|]; try (apply goto_good; [exact I|exact Hf]). apply ret_tmp_good; assumption.
    + apply goto_good; [exact Hp|exact Hf].
  - destruct (wr_child r) as [c|] eqn:Ec; [|apply ret_good; assumption].
    destruct (negb (cerr_eqb (wr_err r) XEEXIST)); [apply ret_good; assumption|].
    destruct (Nat.eqb c (wr_parent r)); [apply ret_good; assumption|].
    apply goto_good; [split; [exact Hp|apply Hc; reflexivity]|exact Hf].
  - destruct (cerr_eqb (wr_err r) XENOENT); [apply ret_good; assumption|].
    destruct (negb (cerr_eqb (wr_err r) XEEXIST)); [apply ret_good; assumption|].
    destruct (wr_child r) as [c|] eqn:Ec; [|apply ret_good; assumption].
    destruct (Nat.eqb c (wr_parent r)); [apply ret_good; assumption|].
    apply goto_good; [split; [exact Hp|apply Hc; reflexivity]|exact Hf].
  - destruct (wr_child r) as [c|] eqn:Ec; [|apply ret_good; assumption].
    destruct (negb (cerr_eqb (wr_err r) XEEXIST)); [apply ret_good; assumption|].
    apply goto_good; [|exact Hf]. cbn. split; [exact H0|]. apply (Hc c eq_refl).
  - destruct (negb (cerr_eqb (wr_err r) XENOENT)); [apply ret_good; assumption|].
    destruct (negb (wr_last r)); [apply ret_good; assumption|].
    apply goto_good; [split; [exact Hp|exact Hk]|exact Hf].
  - destruct (negb (cerr_eqb (wr_err r) XENOENT) || negb (wr_last r)); [apply ret_good; assumption|].
    apply goto_good; [exact Hp|exact Hf].
  - destruct (wr_child r) as [c|].
    + destruct (hget h c) as [[| |]|]; try (apply goto_good; [exact Hp|exact Hf]).
      * destruct (cerr_eqb (wr_err r) XEEXIST); apply ret_good; assumption.
      * apply ret_good; assumption.
    + apply goto_good; [exact Hp|exact Hf].
  - destruct (wr_child r) as [c|]; [|apply ret_good; assumption].
    destruct (cerr_eqb (wr_err r) XEEXIST); [apply goto_good; [exact I|exact Hf]|apply ret_good; assumption].
Qed.

Lemma walk_step_good h ls w m k :
  hord h -> okd h (w_cur w) -> kinv h k -> rfree (l_todo ls) -> good h (k_walk_step ls h w m k).
Proof.
  intros Ho Hc Hk Hf. pose proof (proj1 Ho) as H0. unfold k_walk_step.
  destruct (w_rest w) as [|nm tl]; [apply ret_good; assumption|].
  destruct (k_lookup h (w_cur w) nm) as [c|] eqn:El.
  - pose proof (lookup_below _ _ Ho El) as Hb.
    assert (Hch : forall b e, forall c1, wr_child {| wr_parent := w_cur w; wr_child := Some c; wr_err := e; wr_last := b;
                     wr_part := nm; wr_rest := tl; wr_path := w_done w ++ nm :: tl; wr_arg := w_arg w |} = Some c1 ->
                   below h (w_cur w) c1).
    { intros b e c1 H. cbn in H. injection H as <-. exact Hb. }
    destruct (hget h c) as [[ch|n|tg]|] eqn:Eg.
    + destruct tl; [apply wdone_good; auto; apply Hch|].
      apply goto_good; [|exact Hf]. cbn. split; [|exact Hk]. unfold okd, k_is_dir. rewrite Eg. reflexivity.
    + destruct tl; apply wdone_good; auto; apply Hch.
    + destruct (Nat.ltb k_slmax (S (w_sl w))); [apply wdone_good; auto; apply Hch|].
      match goal with |- good h (if ?b then _ else _) => destruct b end; [apply wdone_good; auto; apply Hch|].
      apply goto_good; [|exact Hf]. cbn. split; assumption.
    + apply ret_good; assumption.
  - apply wdone_good; auto. cbn. intros c1 H; discriminate.
Qed.

(* ---- MkdirAll ------------------------------------------------------------------------------------------------------------ *)
Lemma mkall_inv rest : forall h dn part,
  hord h -> okd h dn -> hord (k_mkall h dn part rest) /\ grows h (k_mkall h dn part rest).
Proof.
  induction rest as [|p rest IH]; intros h dn part Ho Hd; cbn [k_mkall];
    (destruct (k_lookup h dn part); [split; [exact Ho|apply grows_refl]|]); unfold k_alloc.
  - destruct (@alloc_inv h (KDir []) Ho) as [Ho1 G1]; [intros ch H; injection H as <-; reflexivity|].
    destruct (@add_child_inv (h ++ [KDir []]) dn part (length h) Ho1) as [Ho2 G2].
    { apply below_fresh. apply okd_lt. exact Hd. }
    split; [exact Ho2|eapply grows_trans; eauto].
  - destruct (@alloc_inv h (KDir []) Ho) as [Ho1 G1]; [intros ch H; injection H as <-; reflexivity|].
    destruct (@add_child_inv (h ++ [KDir []]) dn part (length h) Ho1) as [Ho2 G2].
    { apply below_fresh. apply okd_lt. exact Hd. }
    assert (Hnew : okd (k_add_child (h ++ [KDir []]) dn part (length h)) (length h)).
    { eapply okd_grows; [exact G2|]. unfold okd, k_is_dir. rewrite hget_app_last. reflexivity. }
    destruct (IH _ (length h) p Ho2 Hnew) as [Ho3 G3].
    split; [exact Ho3|]. eapply grows_trans; [exact G1|]. eapply grows_trans; eauto.
Qed.

(* ---- RemoveAll's recursion -------------------------------------------------------------------------------------------------- *)
Lemma in_insert_kid x l y : In y (k_insert_kid x l) -> y = x \/ In y l.
Proof.
  induction l as [|a l IH]; cbn; [intros [H|[]]; left; auto|].
  destruct (str_ltb (fst a) (fst x)); cbn; intros [H|H]; auto.
  all: try (destruct (IH H); auto).
  all: try (destruct H; auto).
Qed.

Lemma in_sort_kids l y : In y (k_sort_kids l) -> In y l.
Proof.
  unfold k_sort_kids. induction l as [|a l IH]; cbn; [tauto|].
  intros H. destruct (in_insert_kid _ _ _ H); [left; auto|right; auto].
Qed.

Lemma frames_tail_top h lo x todo st :
  frames_ok h lo ((x, todo) :: st) -> top_of lo st < x.
Proof. cbn. intros [_ [_ [_ H]]]. destruct st as [|[px ?] ?]; exact H. Qed.

Definition rm_post (h : cheap) (lo : nat) (st : list rmframe) (r : rm_next_r) : Prop :=
  match r with
  | RmEnter y => okd h y /\ below h (top_of lo st) y
  | RmDelete y => below h (top_of lo st) y
  | RmTop => True
  end.

Lemma rm_next_inv h lo st :
  hord h -> frames_ok h lo st ->
  let '(h', st', r) := k_rm_next h st in
  hord h' /\ grows h h' /\ frames_ok h' lo st' /\ rm_post h' lo st' r.
Proof.
  intros Ho Hf. unfold k_rm_next.
  assert (Same : forall st0 r0, frames_ok h lo st0 -> rm_post h lo st0 r0 ->
                  hord h /\ grows h h /\ frames_ok h lo st0 /\ rm_post h lo st0 r0).
  { intros st0 r0 A B. split; [exact Ho|]. split; [apply grows_refl|]. split; assumption. }
  destruct st as [|[x [|[n y] todo]] st'].
  - apply Same; exact I.
  - destruct st' as [|[px [|[n y] ptodo]] st''].
    + apply Same; exact I.
    + apply Same; exact I.
    + destruct (remove_child_inv px n Ho) as [Ho' G].
      cbn in Hf. destruct Hf as [_ [_ [Hf' _]]].
      split; [exact Ho'|]. split; [exact G|]. split; [eapply frames_ok_grows; eauto|].
      cbn. eapply below_grows; [exact G|]. cbn in Hf'. destruct Hf' as [_ [Ht _]]. apply (Ht n y). left; reflexivity.
  - destruct (k_is_dir h y) eqn:Ed.
    + apply Same; [exact Hf|]. cbn. split; [exact Ed|]. cbn in Hf. destruct Hf as [_ [Ht _]]. apply (Ht n y). left; reflexivity.
    + destruct (remove_child_inv x n Ho) as [Ho' G].
      split; [exact Ho'|]. split; [exact G|]. split; [eapply frames_ok_grows; eauto|].
      cbn. eapply below_grows; [exact G|]. cbn in Hf. destruct Hf as [_ [Ht _]]. apply (Ht n y). left; reflexivity.
Qed.

Lemma frames_pop h lo st : frames_ok h lo st -> frames_ok h lo (pop_entry st) /\ top_of lo (pop_entry st) = top_of lo st.
Proof.
  destruct st as [|[x [|e todo]] st']; cbn; auto.
  intros [A [B [C D]]]. split; [|reflexivity]. split; [exact A|]. split; [|split; [exact C|exact D]].
  intros nm0 y0 Hin. apply (B nm0 y0). right; exact Hin.
Qed.

(* ---- one granted step keeps everything ------------------------------------------------------------------------------------------ *)
Lemma insert_fresh h d nm n :
  hord h -> okd h d -> (forall ch, n = KDir ch -> ch = []) ->
  hord (k_add_child (h ++ [n]) d nm (length h)) /\ grows h (k_add_child (h ++ [n]) d nm (length h)).
Proof.
  intros Ho Hd Hn. destruct (@alloc_inv h n Ho Hn) as [Ho1 G1].
  destruct (@add_child_inv (h ++ [n]) d nm (length h) Ho1) as [Ho2 G2].
  { apply below_fresh. apply okd_lt. exact Hd. }
  split; [exact Ho2|eapply grows_trans; eauto].
Qed.

Lemma hget_add_child_other h d nm c i : i <> d -> hget (k_add_child h d nm c) i = hget h i.
Proof.
  intros Hne. unfold k_add_child. destruct (hget h d) as [[ch| |]|]; auto.
  apply hget_hset_other. congruence.
Qed.

Definition step_ok (h : cheap) (r : cheap * lst) : Prop :=
  hord (fst r) /\ grows h (fst r) /\ good (fst r) (snd r).

Lemma same_ok h ls' : hord h -> good h ls' -> step_ok h (h, ls').
Proof. intros Ho Hg. split; [exact Ho|]. split; [apply grows_refl|exact Hg]. Qed.

Lemma changed_ok h h' ls' : hord h' -> grows h h' -> good h' ls' -> step_ok h (h', ls').
Proof. intros A B C. split; [exact A|]. split; [exact B|exact C]. Qed.

(* what follows the processing of one entry of RemoveAll's recursion *)
Lemma rm_continue h0 h d c nm st ls :
  grows h0 h -> hord h -> okd h d -> below h d c -> frames_ok h d st -> rfree (l_todo ls) ->
  step_ok h0 (match k_rm_next h st with
              | (h', st', RmEnter y) => (h', k_goto ls (PRmAllR d c nm st' y))
              | (h', st', RmDelete y) => (h', k_goto ls (PRmAllK d c nm st' y))
              | (h', _, RmTop) => (k_remove_child h' d nm, k_goto ls (PRmAllD d c nm))
              end).
Proof.
  intros G0 Ho Hd Hb Hf Hfree. pose proof (@rm_next_inv h d st Ho Hf) as H.
  destruct (k_rm_next h st) as [[h' st'] r]. destruct H as [Ho' [G [Hf' Hp]]].
  assert (Hd' : okd h' d) by (eapply okd_grows; eauto).
  assert (Hb' : below h' d c) by (eapply below_grows; eauto).
  destruct r as [y|y|]; cbn in Hp.
  - apply changed_ok; [exact Ho'|eapply grows_trans; eauto|]. apply goto_good; [|exact Hfree].
    cbn. destruct Hp as [Hy Hby]. exact (conj Hd' (conj Hb' (conj Hf' (conj Hby Hy)))).
  - apply changed_ok; [exact Ho'|eapply grows_trans; eauto|]. apply goto_good; [|exact Hfree].
    cbn. exact (conj Hd' (conj Hb' (conj Hf' Hp))).
  - destruct (remove_child_inv d nm Ho') as [Ho'' G'].
    apply changed_ok; [exact Ho''|eapply grows_trans; [exact G0|eapply grows_trans; eauto]|].
    apply goto_good; [|exact Hfree]. cbn. split; [eapply okd_grows; eauto|eapply below_grows; eauto].
Qed.

Lemma seg_good h ls : hord h -> good h ls -> step_ok h (mc_segment ls h).
Proof.
  intros Ho [Hp Hf]. pose proof (proj1 Ho) as H0. unfold mc_segment.
  destruct (l_pc ls) as [w m k|c w m k|d nm tmp|d nm tmp|hp c tmp|d c nm|d c nm|o n|o n|d nm oc|d nm oc|d nm tg|d nm rest
                        |c w m k|o n nc|d c nm|d c nm|d c nm st x|d c nm st y|d c nm|c|] eqn:Epc; cbn in Hp; try tauto.
  - destruct Hp as [Hc Hk]. apply same_ok; [exact Ho|]. apply walk_step_good; assumption.
  - apply same_ok; [exact Ho|]. apply goto_good; [exact Hp|exact Hf].
  - (* Mkdir under the parent's lock *)
    destruct (k_lookup h d nm) as [c|]; [apply same_ok; [exact Ho|apply ret_tmp_good; assumption]|].
    unfold k_alloc. destruct (@insert_fresh h d nm (KDir []) Ho Hp) as [Ho' G]; [intros ch H; injection H as <-; reflexivity|].
    apply changed_ok; [exact Ho'|exact G|]. apply ret_tmp_good; [eapply okd_grows; eauto|exact Hf].
  - (* OpenFile(O_CREATE|O_EXCL) under the parent's lock *)
    destruct (k_lookup h d nm) as [c|] eqn:El.
    + pose proof (lookup_below _ _ Ho El) as Hb.
      destruct (hget h c) as [[| |]|]; try (apply same_ok; [exact Ho|apply goto_good; [split; assumption|exact Hf]]).
      apply same_ok; [exact Ho|apply ret_tmp_good; assumption].
    + unfold k_alloc. destruct (@insert_fresh h d nm (KFile 1) Ho Hp) as [Ho' G]; [intros ch H; discriminate|].
      apply changed_ok; [exact Ho'|exact G|]. apply ret_tmp_good; [eapply okd_grows; eauto|exact Hf].
  - apply same_ok; [exact Ho|apply ret_tmp_good; assumption].
  - apply same_ok; [exact Ho|apply goto_good; [exact Hp|exact Hf]].
  - (* Remove, both locks held *)
    match goal with |- step_ok h (if ?b then _ else _) => destruct b end; [apply same_ok; [exact Ho|apply ret_good; assumption]|].
    destruct (k_lookup h d nm); [|apply same_ok; [exact Ho|apply ret_good; assumption]].
    destruct (remove_child_inv d nm Ho) as [Ho1 G1]. destruct (del_node_inv c Ho1) as [Ho2 G2].
    apply changed_ok; [exact Ho2|eapply grows_trans; eauto|]. apply ret_good; [|exact Hf].
    eapply okd_grows; [|exact H0]. eapply grows_trans; eauto.
  - (* Link: the new parent is locked *)
    destruct Hp as [Hd Hoc]. destruct (hget h oc) as [[|n0|]|] eqn:Eg; try (apply same_ok; [exact Ho|apply ret_good; assumption]).
    apply same_ok; [exact Ho|]. apply goto_good; [|exact Hf]. cbn.
    split; [exact Hd|split; [exact Hoc|unfold k_is_dir; rewrite Eg; reflexivity]].
  - (* Link: parent and file locked *)
    destruct Hp as [Hd [Hoc Hnd]]. destruct (hget h oc) as [[|n0|]|] eqn:Eg; try (apply same_ok; [exact Ho|apply ret_good; assumption]).
    assert (Hb : below h d oc) by (split; [exact Hoc|rewrite Hnd; discriminate]).
    destruct (add_child_inv nm Ho Hb) as [Ho1 G1].
    assert (Hne : oc <> d).
    { intros ->. unfold okd in Hd. rewrite Hd in Hnd. discriminate. }
    assert (Eg1 : hget (k_add_child h d nm oc) oc = Some (KFile n0)) by (rewrite hget_add_child_other by exact Hne; exact Eg).
    apply changed_ok.
    + eapply hord_set_leaf; eauto; [exact I|discriminate].
    + eapply grows_trans; [exact G1|]. eapply grows_hset; eauto. exact I.
    + apply ret_good; [|exact Hf]. eapply okd_grows; [|exact H0].
      eapply grows_trans; [exact G1|]. eapply grows_hset; eauto. exact I.
  - (* Symlink *)
    unfold k_alloc. destruct (@insert_fresh h d nm (KSym tg) Ho Hp) as [Ho' G]; [intros ch H; discriminate|].
    apply changed_ok; [exact Ho'|exact G|]. apply ret_good; [eapply okd_grows; eauto|exact Hf].
  - (* MkdirAll *)
    destruct (@mkall_inv rest h d nm Ho Hp) as [Ho' G].
    apply changed_ok; [exact Ho'|exact G|]. apply ret_good; [eapply okd_grows; eauto|exact Hf].
  - (* the target of a symbolic link has been read *)
    destruct Hp as [Hc Hk]. destruct (w_rest w) as [|x0 tl]; [apply same_ok; [exact Ho|apply ret_good; assumption]|].
    match goal with |- step_ok h (if ?b then _ else _) => destruct b end.
    + apply same_ok; [exact Ho|]. apply goto_good; [|exact Hf]. cbn. split; assumption.
    + match goal with |- step_ok h (match ?e with [] => _ | _ :: _ => _ end) => destruct e end.
      * apply same_ok; [exact Ho|apply ret_good; assumption].
      * apply same_ok; [exact Ho|]. apply goto_good; [|exact Hf]. cbn. split; assumption.
  - (* RemoveAll: the parent is locked *)
    destruct Hp as [Hd Hb].
    match goal with |- step_ok h (if ?b then _ else _) => destruct b end; [apply same_ok; [exact Ho|apply ret_good; assumption]|].
    destruct (k_is_dir h c) eqn:Ed.
    + apply same_ok; [exact Ho|]. apply goto_good; [|exact Hf]. cbn. exact (conj Hd (conj Hb Ed)).
    + destruct (remove_child_inv d nm Ho) as [Ho1 G1].
      apply changed_ok; [exact Ho1|exact G1|]. apply goto_good; [|exact Hf].
      cbn. split; [eapply okd_grows; eauto|eapply below_grows; eauto].
  - (* RemoveAll: is the directory empty ? *)
    destruct Hp as [Hd [Hb Hc]]. destruct (k_kids h c) as [|e es] eqn:Ek.
    + destruct (remove_child_inv d nm Ho) as [Ho1 G1].
      apply changed_ok; [exact Ho1|exact G1|]. apply goto_good; [|exact Hf].
      cbn. split; [eapply okd_grows; eauto|eapply below_grows; eauto].
    + apply same_ok; [exact Ho|]. apply goto_good; [|exact Hf]. cbn. exact (conj Hd (conj Hb (conj I (conj Hb Hc)))).
  - (* RemoveAll: a directory of the recursion is locked *)
    destruct Hp as [Hd [Hb [Hfr [Hbx Hx]]]].
    apply rm_continue; try assumption; [apply grows_refl|].
    cbn. split; [exact Hx|]. split; [|split; [exact Hfr|]].
    + intros nm0 y0 Hin. apply in_sort_kids in Hin. apply (proj2 Ho x nm0 y0). exact Hin.
    + destruct Hbx as [_ Hlt]. specialize (Hlt Hx). destruct st as [|[px ?] ?]; exact Hlt.
  - (* RemoveAll: an unlinked entry is locked for delete() *)
    destruct Hp as [Hd [Hb [Hfr Hby]]].
    destruct (del_node_inv y Ho) as [Ho1 G1].
    destruct (@frames_pop (k_del_node h y) d st) as [Hfr' _]; [eapply frames_ok_grows; eauto|].
    apply rm_continue; try assumption.
    + eapply okd_grows; eauto.
    + eapply below_grows; eauto.
  - (* RemoveAll: the removed node itself *)
    destruct (del_node_inv c Ho) as [Ho1 G1].
    apply changed_ok; [exact Ho1|exact G1|]. apply ret_good; [eapply okd_grows; eauto|exact Hf].
  - apply same_ok; [exact Ho|apply ret_good; assumption].
  - apply same_ok; [exact Ho|]. split; [rewrite Epc; exact I|exact Hf].
Qed.

(* ---- the order on locks, and the discipline ------------------------------------------------------------------------------------------- *)
(* directories by id, then everything else *)
Definition rank (h : cheap) (l : lock) : nat := if k_is_dir h l then l else length h + l.

Lemma rank_dir h d : okd h d -> rank h d = d.
Proof. unfold rank, okd. intros ->. reflexivity. Qed.

Lemma rank_below h d c : okd h d -> below h d c -> rank h d < rank h c.
Proof.
  intros Hd [Hc Hlt]. rewrite (rank_dir Hd). unfold rank. destruct (k_is_dir h c) eqn:E.
  - apply Hlt. reflexivity.
  - pose proof (okd_lt Hd). lia.
Qed.

Lemma frames_le h lo st :
  okd h lo -> frames_ok h lo st ->
  okd h (top_of lo st) /\ lo <= top_of lo st /\ forall f, In f st -> okd h (fst f) /\ fst f <= top_of lo st.
Proof.
  intros Hlo. induction st as [|[x todo] st IH]; cbn.
  - intros _. split; [exact Hlo|]. split; [lia|]. intros f0 [].
  - intros [Hx [_ [Hf Hlt]]]. destruct (IH Hf) as [Ht [Hle Hall]].
    assert (Htop : top_of lo st < x) by (destruct st as [|[px ?] ?]; exact Hlt).
    split; [exact Hx|]. split; [lia|]. intros f0 [<-|Hin]; cbn; [split; [exact Hx|lia]|].
    destruct (Hall f0 Hin) as [A B]. split; [exact A|lia].
Qed.

Lemma pcinv_ascending h p r hd :
  pcinv h p -> pc_request p = Some r -> In hd (pc_holds p) -> rank h (fst hd) < rank h (r_lock r).
Proof.
  destruct p as [w m k|c w m k|d nm tmp|d nm tmp|hp c tmp|d c nm|d c nm|o n|o n|d nm oc|d nm oc|d nm tg|d nm rest
                |c w m k|o n nc|d c nm|d c nm|d c nm st x|d c nm st y|d c nm|c|]; cbn; try tauto.
  - destruct hp as [d|]; cbn; [|tauto]. intros [Hd Hb] H [<-|[]]. injection H as <-. cbn. apply rank_below; assumption.
  - intros [Hd Hb] H [<-|[]]. injection H as <-. cbn. apply rank_below; assumption.
  - intros [Hd [Hoc Hnd]] H [<-|[]]. injection H as <-. cbn. rewrite (rank_dir Hd). unfold rank. rewrite Hnd.
    pose proof (okd_lt Hd). lia.
  - intros [Hd [Hb Hc]] H [<-|[]]. injection H as <-. cbn. apply rank_below; assumption.
  - intros [Hd [Hb [Hf [Hbx Hx]]]] H Hin. injection H as <-. cbn [r_lock].
    destruct (@frames_le h d st Hd Hf) as [Ht [Hle Hall]].
    assert (Hhd : okd h (fst hd) /\ fst hd <= top_of d st).
    { destruct Hin as [<-|Hin]; [cbn; split; [exact Hd|exact Hle]|].
      apply in_rev in Hin. apply in_map_iff in Hin. destruct Hin as [f [<- Hinf]]. cbn. apply Hall. exact Hinf. }
    destruct Hhd as [A B]. rewrite (rank_dir A).
    pose proof (rank_below Ht Hbx) as Hr. rewrite (rank_dir Ht) in Hr. lia.
  - intros [Hd [Hb [Hf Hby]]] H Hin. injection H as <-. cbn [r_lock].
    destruct (@frames_le h d st Hd Hf) as [Ht [Hle Hall]].
    assert (Hhd : okd h (fst hd) /\ fst hd <= top_of d st).
    { destruct Hin as [<-|Hin]; [cbn; split; [exact Hd|exact Hle]|].
      apply in_rev in Hin. apply in_map_iff in Hin. destruct Hin as [f [<- Hinf]]. cbn. apply Hall. exact Hinf. }
    destruct Hhd as [A B]. rewrite (rank_dir A).
    pose proof (rank_below Ht Hby) as Hr. rewrite (rank_dir Ht) in Hr. lia.
  - intros [Hd Hb] H [<-|[]]. injection H as <-. cbn. apply rank_below; assumption.
Qed.

(* ---- the invariant of the concurrent machine ------------------------------------------------------------------------------------------------ *)
Definition GInv (c : mstate) : Prop :=
  hord (c_sh c) /\ Forall (fun t => good (c_sh c) (th_ls t)) (c_th c).

Lemma ginv_step i c : GInv c -> GInv (mc_step i c).
Proof.
  intros [Ho Hall]. unfold mc_step, sched_step.
  destruct (nth_error (c_th c) i) as [t|] eqn:Et; [|split; assumption].
  destruct (mc_request (th_ls t)) as [r|]; [|split; assumption].
  destruct (available mc_holds (c_th c) r); [|split; assumption].
  assert (Hg : good (c_sh c) (th_ls t)).
  { rewrite Forall_forall in Hall. apply Hall. eapply nth_error_In; eauto. }
  pose proof (seg_good Ho Hg) as Hs. destruct (mc_segment (th_ls t) (c_sh c)) as [h' ls'].
  destruct Hs as [Ho' [G Hg']]. cbn [fst snd] in *. cbn [c_sh c_th]. split; [exact Ho'|].
  apply Forall_set_nth; [|exact Hg'].
  eapply Forall_impl; [|exact Hall]. intros a Ha. cbn beta. eapply good_grows; eauto.
Qed.

Lemma ginv_init h0 progs rnds :
  hord h0 -> Forall rfree progs -> GInv (mc_init h0 progs rnds).
Proof.
  intros Ho Hf. split; [exact Ho|]. cbn [c_sh c_th mc_init].
  revert rnds. induction Hf as [|p ps Hp Hps IH]; intros rnds; cbn; constructor.
  - unfold mc_thread. cbn [th_ls]. apply load_good; [exact (proj1 Ho)|exact Hp].
  - apply IH.
Qed.

(* C07_traces: in every state reached by any schedule of Rename-free programs, every thread asks for a
   lock above all those it holds (and a finished thread holds none) *)
Theorem traces_ascending h0 progs rnds sched :
  hord h0 -> Forall rfree progs ->
  let c := mc_run sched (mc_init h0 progs rnds) in
  ascending mc_request mc_holds (rank (c_sh c)) c /\ finished_hold_nothing mc_request mc_holds c.
Proof.
  intros Ho Hf c.
  assert (H : GInv c).
  { unfold c, mc_run. apply (sched_run_invariant mc_request mc_holds mc_segment mc_cur_call GInv).
    - intros i c0. apply ginv_step.
    - apply ginv_init; assumption. }
  destruct H as [_ Hall]. rewrite Forall_forall in Hall. split.
  - intros t r hd Hin Hr Hh. destruct (Hall _ Hin) as [Hp _]. eapply pcinv_ascending; eauto.
  - apply mc_finished_hold_nothing.
Qed.

(* ... hence they never deadlock *)
Theorem traces_no_deadlock h0 progs rnds sched :
  hord h0 -> Forall rfree progs ->
  mc_deadlocked (mc_run sched (mc_init h0 progs rnds)) = false.
Proof.
  intros Ho Hf. destruct (traces_ascending rnds sched Ho Hf) as [Ha Hn].
  unfold mc_deadlocked. eapply deadlock_free_of_order; eauto.
Qed.

(* a decidable version of [hord], for examples *)
Definition hordb (h : cheap) : bool :=
  k_is_dir h 0 &&
  forallb (fun p => forallb (fun e : cname * nat => Nat.ltb (snd e) (length h) && (negb (k_is_dir h (snd e)) || Nat.ltb p (snd e)))
                            (k_kids h p)) (seq 0 (length h)).

Lemma hordb_sound h : hordb h = true -> hord h.
Proof.
  unfold hordb. intros H. apply andb_prop in H. destruct H as [H0 Ha]. split; [exact H0|].
  intros p nm c Hin. destruct (lt_dec p (length h)) as [Hp|Hp].
  - rewrite forallb_forall in Ha. specialize (Ha p). rewrite in_seq in Ha. specialize (Ha (conj (Nat.le_0_l p) Hp)).
    rewrite forallb_forall in Ha. specialize (Ha _ Hin). cbn [snd] in Ha. apply andb_prop in Ha. destruct Ha as [A B].
    apply Nat.ltb_lt in A. split; [exact A|]. intros Hd. rewrite Hd in B. cbn in B. apply Nat.ltb_lt in B. exact B.
  - rewrite kids_out in Hin by lia. destruct Hin.
Qed.
