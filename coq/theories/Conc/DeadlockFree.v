(* C07, concurrent part: deadlock freedom from an ascending lock discipline.

   [Sched.deadlock_free_of_order] is the generic theorem (any machine, any number of threads).
   This file instantiates it for the MemFS machines of MemConc.v. *)
From Avfs Require Import Base Sched MemConc.
Set Implicit Arguments.

(* the generic statement, specialised to the MemFS machines *)
Theorem mc_deadlock_free_of_order (rank : lock -> nat) (c : mstate) :
  ascending mc_request mc_holds rank c ->
  finished_hold_nothing mc_request mc_holds c ->
  mc_deadlocked c = false.
Proof. apply deadlock_free_of_order. Qed.

(* a finished MemFS thread holds nothing, whatever it ran *)
Lemma mc_finished_hold_nothing (c : mstate) : finished_hold_nothing mc_request mc_holds c.
Proof.
  intros t _ H. unfold mc_request, mc_holds in *. destruct (l_pc (th_ls t)); cbn in *; try discriminate; auto.
Qed.
