(* C06, exclusion: n threads call Mkdir p (or OpenFile(p, O_CREATE|O_EXCL), see ExclCreate.v) on one
   shared MemFS whose directory dirname(p) exists (and is not removed meanwhile: the program
   consists of these calls only).  For EVERY n and EVERY schedule: exactly one call succeeds,
   the others answer EEXIST, and the directory holds p exactly once.

   The machines are those of MemConc.v: unlocked walk (one RLock per component, plus one per
   directory entered), then Lock(parent), re-check of the name, insertion.  The proof is an
   invariant over [mc_step]; its heart is that the re-check and the insertion are one segment
   under the parent's write lock. *)
From Avfs Require Import Base Sched MemConc.
Set Implicit Arguments.

(* ---- heap lemmas -------------------------------------------------------------------------------- *)
Lemma hget_hset_same h i n : i < length h -> hget (hset h i n) i = Some n.
Proof.
  revert i; induction h as [|x h IH]; intros [|i] Hi; cbn in *; try lia; auto.
  all: try (apply IH; lia).
Qed.

Lemma hget_hset_other h i j n : i <> j -> hget (hset h i n) j = hget h j.
Proof.
  revert i j; induction h as [|x h IH]; intros [|i] [|j] Hij; cbn; auto; try congruence.
  all: try (apply IH; congruence).
Qed.

Lemma hset_length h i n : length (hset h i n) = length h.
Proof. revert i; induction h as [|x h IH]; intros [|i]; cbn; auto. Qed.

Lemma hget_app_l (h : cheap) (t : cheap) i : i < length h -> hget (h ++ t) i = hget h i.
Proof. intros Hi. unfold hget. apply nth_error_app1. exact Hi. Qed.

Lemma hget_app_last (h : cheap) n : hget (h ++ [n]) (length h) = Some n.
Proof. unfold hget. rewrite nth_error_app2 by lia. rewrite Nat.sub_diag. reflexivity. Qed.

Lemma hget_lt h i n : hget h i = Some n -> i < length h.
Proof. unfold hget. intros H. apply nth_error_Some. congruence. Qed.

Lemma alookup_aset_same (k : cname) (v : nat) m : alookup str_eqb k (aset str_eqb k v m) = Some v.
Proof.
  induction m as [|[k' v'] m IH]; cbn.
  - rewrite str_eqb_refl. reflexivity.
  - destruct (str_eqb k k') eqn:E; cbn; rewrite ?str_eqb_refl; auto. rewrite E. exact IH.
Qed.

Lemma alookup_aset_other (k k2 : cname) (v : nat) m :
  k2 <> k -> alookup str_eqb k2 (aset str_eqb k v m) = alookup str_eqb k2 m.
Proof.
  intros Hne. induction m as [|[k' v'] m IH]; cbn.
  - destruct (str_eqb k2 k) eqn:E; auto. apply str_eqb_eq in E. congruence.
  - destruct (str_eqb k k') eqn:E; cbn.
    + apply str_eqb_eq in E; subst k'.
      destruct (str_eqb k2 k) eqn:E2; auto. apply str_eqb_eq in E2. congruence.
    + destruct (str_eqb k2 k'); auto.
Qed.

Lemma aset_absent (k : cname) (v : nat) m :
  alookup str_eqb k m = None -> aset str_eqb k v m = m ++ [(k, v)].
Proof.
  induction m as [|[k' v'] m IH]; cbn; auto.
  destruct (str_eqb k k') eqn:E; [discriminate|]. intros H. rewrite IH; auto.
Qed.

(* walking a list of directory names from a node, through directories only *)
Fixpoint walk_dirs (h : cheap) (cur : nat) (ds : cpath) : option nat :=
  match ds with
  | [] => Some cur
  | x :: r =>
      match k_lookup h cur x with
      | Some c => if k_is_dir h c then walk_dirs h c r else None
      | None => None
      end
  end.

Lemma walk_dirs_app h cur a b :
  walk_dirs h cur (a ++ b) = match walk_dirs h cur a with Some c => walk_dirs h c b | None => None end.
Proof.
  revert cur; induction a as [|x a IH]; intros cur; cbn; auto.
  destruct (k_lookup h cur x) as [c|]; auto. destruct (k_is_dir h c); auto.
Qed.

Definition is_ok_thread (t : mthread) : bool :=
  match l_res (th_ls t) with [KOk] => true | _ => false end.
Definition count_ok (ths : list mthread) : nat := length (filter is_ok_thread ths).

Lemma count_ok_set_nth ths i t t' :
  nth_error ths i = Some t ->
  count_ok (sched_set_nth ths i t') + (if is_ok_thread t then 1 else 0)
  = count_ok ths + (if is_ok_thread t' then 1 else 0).
Proof.
  unfold count_ok. revert i; induction ths as [|x ths IH]; intros [|i] H; cbn in *; try discriminate.
  - injection H as ->. destruct (is_ok_thread t), (is_ok_thread t'); cbn; lia.
  - specialize (IH _ H). destruct (is_ok_thread x); cbn; lia.
Qed.

Lemma Forall_set_nth {A} (P : A -> Prop) (l : list A) i x :
  Forall P l -> P x -> Forall P (sched_set_nth l i x).
Proof.
  intros Hl Hx. revert i; induction Hl as [|y l Hy Hl IH]; intros [|i]; cbn; constructor; auto.
Qed.

Lemma nth_error_set_nth_same {A} (l : list A) i x y :
  nth_error l i = Some y -> nth_error (sched_set_nth l i x) i = Some x.
Proof. revert i; induction l as [|z l IH]; intros [|i] H; cbn in *; try discriminate; auto. Qed.

Lemma nth_error_set_nth_other {A} (l : list A) i j x :
  i <> j -> nth_error (sched_set_nth l i x) j = nth_error l j.
Proof.
  revert i j; induction l as [|z l IH]; intros [|i] [|j] H; cbn; auto; try congruence.
Qed.

Lemma set_nth_length {A} (l : list A) i x : length (sched_set_nth l i x) = length l.
Proof. revert i; induction l as [|z l IH]; intros [|i]; cbn; auto. Qed.

Section Excl.
  Variables (h0 : cheap) (dirs : cpath) (nm : cname) (d : nat).
  Variable fresh : cnode.                 (* what the successful call allocates *)
  Let p := dirs ++ [nm].

  Hypothesis Hres : walk_dirs h0 0 dirs = Some d.
  Hypothesis Hdir : k_is_dir h0 d = true.
  Hypothesis Habs : k_lookup h0 d nm = None.

  Definition h1 : cheap := k_add_child (h0 ++ [fresh]) d nm (length h0).

  Lemma d_lt : d < length h0.
  Proof. pose proof Hdir as Hd. unfold k_is_dir in Hd. destruct (hget h0 d) eqn:E; [|discriminate]. eapply hget_lt; eauto. Qed.

  Lemma h1_eq : exists ch0, hget h0 d = Some (KDir ch0) /\
                            h1 = hset (h0 ++ [fresh]) d (KDir (aset str_eqb nm (length h0) ch0)).
  Proof.
    pose proof Hdir as Hd. unfold k_is_dir in Hd. destruct (hget h0 d) as [[ch0| |]|] eqn:E; try discriminate.
    exists ch0. split; auto. unfold h1, k_add_child. rewrite hget_app_l by apply d_lt. rewrite E. reflexivity.
  Qed.

  Lemma h1_length : length h1 = S (length h0).
  Proof. destruct h1_eq as [ch0 [_ ->]]. rewrite hset_length, app_length. cbn. lia. Qed.

  Lemma h1_ne_h0 : h1 <> h0.
  Proof. intros E. pose proof h1_length as H. rewrite E in H. lia. Qed.

  Lemma kids_h1_d : k_kids h1 d = k_kids h0 d ++ [(nm, length h0)].
  Proof.
    destruct h1_eq as [ch0 [E ->]]. unfold k_kids.
    rewrite hget_hset_same by (rewrite app_length; pose proof d_lt; cbn; lia).
    rewrite E. apply aset_absent. pose proof Habs as Ha. unfold k_lookup, k_kids in Ha. rewrite E in Ha. exact Ha.
  Qed.

  Lemma hget_h1_other c : c <> d -> c < length h0 -> hget h1 c = hget h0 c.
  Proof.
    intros Hne Hlt. destruct h1_eq as [ch0 [_ ->]].
    rewrite hget_hset_other by congruence. apply hget_app_l. exact Hlt.
  Qed.

  Lemma hget_h1_fresh : hget h1 (length h0) = Some fresh.
  Proof.
    destruct h1_eq as [ch0 [_ ->]]. pose proof d_lt.
    rewrite hget_hset_other by lia. apply hget_app_last.
  Qed.

  Lemma lookup_h1_nm : k_lookup h1 d nm = Some (length h0).
  Proof.
    unfold k_lookup. rewrite kids_h1_d.
    pose proof Habs as Ha. unfold k_lookup in Ha. revert Ha. generalize (k_kids h0 d) as m.
    induction m as [|[k v] m IH]; cbn; intros H.
    - rewrite str_eqb_refl. reflexivity.
    - destruct (str_eqb nm k); [discriminate|]. apply IH. exact H.
  Qed.

  Lemma is_dir_h1 c : k_is_dir h0 c = true -> k_is_dir h1 c = true.
  Proof.
    intros H. destruct (Nat.eq_dec c d) as [->|Hne].
    - destruct h1_eq as [ch0 [_ ->]]. unfold k_is_dir.
      rewrite hget_hset_same; auto. rewrite app_length. pose proof d_lt. cbn. lia.
    - unfold k_is_dir in *. destruct (hget h0 c) eqn:E; [|discriminate].
      rewrite hget_h1_other; auto. rewrite E. exact H. eapply hget_lt; eauto.
  Qed.

  (* a lookup along the path is not disturbed by the insertion *)
  Lemma lookup_h1_stable c x c' :
    k_lookup h0 c x = Some c' -> k_lookup h1 c x = Some c'.
  Proof.
    intros H. destruct (Nat.eq_dec c d) as [->|Hne].
    - unfold k_lookup. rewrite kids_h1_d. unfold k_lookup in H.
      revert H. generalize (k_kids h0 d) as m. induction m as [|[k v] m IH]; cbn; [discriminate|].
      destruct (str_eqb x k); auto.
    - unfold k_lookup, k_kids in *. destruct (hget h0 c) eqn:E; [|discriminate].
      rewrite hget_h1_other; auto. rewrite E. exact H. eapply hget_lt; eauto.
  Qed.

  Definition heap_ok (h : cheap) : Prop := h = h0 \/ h = h1.

  Lemma lookup_stable h c x c' : heap_ok h -> k_lookup h0 c x = Some c' -> k_lookup h c x = Some c'.
  Proof. intros [->| ->]; auto. apply lookup_h1_stable. Qed.

  Lemma is_dir_stable h c : heap_ok h -> k_is_dir h0 c = true -> k_is_dir h c = true.
  Proof. intros [->| ->]; auto. apply is_dir_h1. Qed.

  (* ---- the shape of a thread running [Mkdir p] ------------------------------------------------ *)
  Variable cr : bool.      (* false: Mkdir p;  true: OpenFile(p, O_RDWR|O_CREATE|O_EXCL) *)
  Hypothesis Hfresh : fresh = if cr then KFile 1 else KDir [].

  Definition the_wk : wk := if cr then KCreate None else KMkdir None.
  Definition the_lock : pc := if cr then PCreateW d nm None else PMkdirW d nm None.
  Definition the_call : qcall := if cr then QCreate p else QMkdir p.

  Lemma cr_cases :
    (cr = true /\ the_wk = KCreate None /\ the_lock = PCreateW d nm None /\ fresh = KFile 1) \/
    (cr = false /\ the_wk = KMkdir None /\ the_lock = PMkdirW d nm None /\ fresh = KDir []).
  Proof. unfold the_wk, the_lock. rewrite Hfresh. destruct cr; [left|right]; repeat split; reflexivity. Qed.

  Definition wlk (c : nat) (done rest : cpath) : wst :=
    {| w_cur := c; w_done := done; w_rest := rest; w_sl := 0; w_arg := p |}.
  Definition mk (pcv : pc) (res : list kres) (rnd : list cname) : lst :=
    {| l_pc := pcv; l_todo := []; l_res := res; l_rand := rnd |}.

  Inductive tshape (h : cheap) : lst -> Prop :=
  | TS_walk done rest c rnd :
      done ++ rest = p -> rest <> [] -> walk_dirs h0 0 done = Some c ->
      tshape h (mk (PWalk (wlk c done rest) SLstat the_wk) [] rnd)
  | TS_perm done rest c rnd :
      done ++ rest = p -> rest <> [] -> walk_dirs h0 0 done = Some c ->
      tshape h (mk (PPerm c (wlk c done rest) SLstat the_wk) [] rnd)
  | TS_lock rnd : tshape h (mk the_lock [] rnd)
  | TS_child hp rnd : cr = true -> h = h1 -> hp = None \/ hp = Some d ->
      tshape h (mk (PCreateC hp (length h0) None) [] rnd)
  | TS_ok rnd : h = h1 -> tshape h (mk PIdle [KOk] rnd)
  | TS_exist rnd : h = h1 -> tshape h (mk PIdle [KErr XEEXIST] rnd).

  Lemma tshape_to_h1 h ls : tshape h ls -> tshape h1 ls.
  Proof. intros H; inversion H; subst; econstructor; eauto. Qed.

  Definition ls_ok (ls : lst) : bool := match l_res ls with [KOk] => true | _ => false end.

  (* one granted step of a thread of that shape *)
  Lemma seg_shape h ls :
    heap_ok h -> tshape h ls ->
    let '(h', ls') := mc_segment ls h in
    tshape h' ls' /\
    ((h' = h /\ ls_ok ls' = ls_ok ls) \/ (h = h0 /\ h' = h1 /\ ls_ok ls = false /\ ls_ok ls' = true)).
  Proof.
    intros Hh Hs. inversion Hs as [done rest c rnd Hp Hne Hw|done rest c rnd Hp Hne Hw|rnd|hp rnd Ecr E Ehp|rnd E|rnd E]; subst ls.
    - (* a step of the walk *)
      destruct rest as [|x tl]; [congruence|].
      unfold mc_segment, mk, l_pc, wlk. unfold k_walk_step. cbn [w_rest w_cur w_done w_sl w_arg].
      destruct tl as [|y tl'].
      + (* last component: done = dirs, x = nm, c = d *)
        unfold p in Hp. apply app_inj_tail in Hp. destruct Hp as [-> ->].
        rewrite Hres in Hw. injection Hw as <-.
        destruct Hh as [-> | ->].
        * rewrite Habs. unfold k_wdone.
          destruct cr_cases as [[Ecr [Ewk [Elk Efr]]]|[Ecr [Ewk [Elk Efr]]]]; rewrite Ewk; cbn; rewrite <- Elk;
            (split; [apply TS_lock|]; left; split; reflexivity).
        * rewrite lookup_h1_nm. rewrite hget_h1_fresh. unfold k_wdone.
          destruct cr_cases as [[Ecr [Ewk [Elk Efr]]]|[Ecr [Ewk [Elk Efr]]]]; rewrite Ewk, Efr; cbn.
          -- rewrite hget_h1_fresh, Efr. cbn.
             split; [refine (@TS_child h1 None rnd Ecr eq_refl _); left; reflexivity|]. left; split; reflexivity.
          -- split; [apply TS_exist; reflexivity|]. left; split; reflexivity.
      + (* an inner component: it is one of [dirs] *)
        assert (Hd : exists dirs', dirs = done ++ x :: dirs').
        { unfold p in Hp. clear -Hp. revert dirs Hp. induction done as [|a done IH]; intros ds Hp; cbn in *.
          - destruct ds as [|b ds]; cbn in *; [discriminate|]. injection Hp as -> Hp.
            exists ds. reflexivity.
          - destruct ds as [|b ds]; cbn in *.
            + destruct done; cbn in Hp; discriminate.
            + injection Hp as -> Hp. destruct (IH _ Hp) as [ds' ->]. exists ds'. reflexivity. }
        destruct Hd as [dirs' Hd].
        pose proof Hres as Hr. rewrite Hd in Hr. rewrite walk_dirs_app in Hr. rewrite Hw in Hr.
        cbn [walk_dirs] in Hr. destruct (k_lookup h0 c x) as [c'|] eqn:El; [|discriminate].
        destruct (k_is_dir h0 c') eqn:Ed; [|discriminate].
        rewrite (@lookup_stable h c x c' Hh El).
        pose proof (@is_dir_stable h c' Hh Ed) as Ed'. unfold k_is_dir in Ed'.
        destruct (hget h c') as [[ch| |]|]; try discriminate.
        cbn. split; [|left; split; reflexivity].
        refine (@TS_perm h (done ++ [x]) (y :: tl') c' rnd _ _ _).
        * rewrite <- app_assoc. exact Hp.
        * discriminate.
        * rewrite walk_dirs_app, Hw. cbn. rewrite El, Ed. reflexivity.
    - (* checkPermission of the directory entered *)
      cbn. split; [|left; split; reflexivity]. apply TS_walk; assumption.
    - (* the segment under the parent's write lock: re-check, then insert *)
      unfold mc_segment, mk, l_pc.
      destruct Hh as [-> | ->].
      + destruct cr_cases as [[Ecr [Ewk [Elk Efr]]]|[Ecr [Ewk [Elk Efr]]]]; rewrite Elk; rewrite Habs; unfold k_alloc; cbn.
        * split; [apply TS_ok; unfold h1; rewrite Efr; reflexivity|].
          right. unfold h1. rewrite Efr. repeat split; reflexivity.
        * split; [apply TS_ok; unfold h1; rewrite Efr; reflexivity|].
          right. unfold h1. rewrite Efr. repeat split; reflexivity.
      + destruct cr_cases as [[Ecr [Ewk [Elk Efr]]]|[Ecr [Ewk [Elk Efr]]]]; rewrite Elk; rewrite lookup_h1_nm.
        * rewrite hget_h1_fresh, Efr. cbn.
          split; [refine (@TS_child h1 (Some d) rnd Ecr eq_refl _); right; reflexivity|]. left; split; reflexivity.
        * cbn. split; [apply TS_exist; reflexivity|]. left; split; reflexivity.
    - (* OpenFile found the name taken: lock the existing node, answer EEXIST *)
      cbn. split; [apply TS_exist; assumption|]. left; split; reflexivity.
    - cbn. split; [apply TS_ok; assumption|]. left; split; reflexivity.
    - cbn. split; [apply TS_exist; assumption|]. left; split; reflexivity.
  Qed.

  (* ---- the invariant of the concurrent machine ------------------------------------------------------ *)
  Definition is_h1 (h : cheap) : bool := negb (Nat.eqb (length h) (length h0)).

  Definition Inv (c : mstate) : Prop :=
    heap_ok (c_sh c) /\
    Forall (fun t => tshape (c_sh c) (th_ls t)) (c_th c) /\
    count_ok (c_th c) = (if is_h1 (c_sh c) then 1 else 0).

  Lemma is_h1_h0 : is_h1 h0 = false.
  Proof. unfold is_h1. rewrite Nat.eqb_refl. reflexivity. Qed.
  Lemma is_h1_h1 : is_h1 h1 = true.
  Proof. unfold is_h1. rewrite h1_length. destruct (Nat.eqb_spec (S (length h0)) (length h0)); [lia|reflexivity]. Qed.

  Lemma is_ok_thread_ls t : is_ok_thread t = ls_ok (th_ls t).
  Proof. reflexivity. Qed.

  Lemma inv_step i c : Inv c -> Inv (mc_step i c).
  Proof.
    intros [Hh [Hall Hcnt]]. unfold mc_step, sched_step.
    destruct (nth_error (c_th c) i) as [t|] eqn:Et; [|repeat split; assumption].
    destruct (mc_request (th_ls t)) as [r|]; [|repeat split; assumption].
    destruct (available mc_holds (c_th c) r); [|repeat split; assumption].
    assert (Hs : tshape (c_sh c) (th_ls t)).
    { rewrite Forall_forall in Hall. apply Hall. eapply nth_error_In; eauto. }
    pose proof (seg_shape Hh Hs) as Hseg.
    destruct (mc_segment (th_ls t) (c_sh c)) as [h' ls'].
    destruct Hseg as [Hs' Hcase]. cbn [c_sh c_th].
    set (t' := {| th_ls := ls'; th_trace := th_trace t ++ [(mc_cur_call (th_ls t), r)] |}).
    pose proof (count_ok_set_nth (c_th c) i t' Et) as Hc.
    rewrite !is_ok_thread_ls in Hc. cbn [th_ls t'] in Hc.
    destruct Hcase as [[-> Hok] | [E0 [E1 [Hok Hok']]]].
    - split; [exact Hh|]. split.
      + apply Forall_set_nth; [exact Hall|exact Hs'].
      + rewrite Hok in Hc. apply Nat.add_cancel_r in Hc. cbn [c_sh c_th]. rewrite <- Hcnt. exact Hc.
    - subst h'. split; [right; reflexivity|]. split.
      + apply Forall_set_nth; [|exact Hs'].
        eapply Forall_impl; [|exact Hall]. intros a Ha. cbn beta. exact (tshape_to_h1 Ha).
      + rewrite Hok, Hok' in Hc. rewrite E0, is_h1_h0 in Hcnt. rewrite Hcnt in Hc. cbn [c_sh c_th]. rewrite is_h1_h1.
        rewrite Nat.add_0_r in Hc. exact Hc.
  Qed.

  Definition start (rnds : list (list cname)) : mstate :=
    mc_init h0 (map (fun _ => [the_call]) rnds) rnds.

  Lemma load_mkdir rnd :
    k_load [the_call] [] rnd = mk (PWalk (wlk 0 [] p) SLstat the_wk) [] rnd.
  Proof.
    unfold the_call. destruct cr_cases as [[Ecr [Ewk _]]|[Ecr [Ewk _]]]; rewrite Ecr, Ewk; unfold p, mk, wlk;
      destruct dirs; reflexivity.
  Qed.

  Lemma p_ne : p <> [].
  Proof. unfold p. destruct dirs; discriminate. Qed.

  Lemma inv_start rnds : Inv (start rnds).
  Proof.
    unfold start, mc_init. split; [left; reflexivity|]. cbn [c_sh c_th]. split.
    - induction rnds as [|r rs IH]; cbn; constructor; auto.
      unfold mc_thread. cbn [th_ls]. rewrite load_mkdir.
      refine (@TS_walk h0 [] p 0 _ _ _ _); auto. apply p_ne.
    - rewrite is_h1_h0. induction rnds as [|r rs IH]; cbn; auto.
      unfold count_ok in *. cbn [filter]. unfold is_ok_thread at 1. unfold mc_thread at 1. cbn [th_ls].
      rewrite load_mkdir. cbn. exact IH.
  Qed.

  Lemma inv_run sched rnds : Inv (mc_run sched (start rnds)).
  Proof.
    unfold mc_run. apply (sched_run_invariant mc_request mc_holds mc_segment mc_cur_call Inv).
    - intros i c. apply inv_step.
    - apply inv_start.
  Qed.

  Lemma run_length sched rnds : length (c_th (mc_run sched (start rnds))) = length rnds.
  Proof.
    unfold mc_run.
    apply (sched_run_invariant mc_request mc_holds mc_segment mc_cur_call (fun c => length (c_th c) = length rnds)).
    - intros i c H. unfold sched_step. destruct (nth_error (c_th c) i); auto.
      destruct (mc_request (th_ls t)); auto. destruct (available mc_holds (c_th c) r); auto.
      destruct (mc_segment (th_ls t) (c_sh c)). cbn. rewrite set_nth_length. exact H.
    - unfold start, mc_init. cbn [c_th]. induction rnds as [|r rs IH]; cbn; auto.
  Qed.

  (* MAIN: any number of threads, any schedule *)
  Theorem excl_main rnds sched :
    rnds <> [] ->
    let c := mc_run sched (start rnds) in
    mc_finished c = true ->
    count_ok (c_th c) = 1 /\
    Forall (fun t => l_res (th_ls t) = [KOk] \/ l_res (th_ls t) = [KErr XEEXIST]) (c_th c) /\
    k_kids (c_sh c) d = k_kids h0 d ++ [(nm, length h0)] /\
    hget (c_sh c) (length h0) = Some fresh.
  Proof.
    intros Hne c Hfin. destruct (inv_run sched rnds) as [Hh [Hall Hcnt]]. fold c in Hh, Hall, Hcnt.
    assert (Hdone : Forall (fun t => c_sh c = h1 /\ (l_res (th_ls t) = [KOk] \/ l_res (th_ls t) = [KErr XEEXIST])) (c_th c)).
    { unfold mc_finished, finished in Hfin. rewrite forallb_forall in Hfin.
      rewrite Forall_forall in *. intros t Ht. specialize (Hall _ Ht). specialize (Hfin _ Ht).
      unfold finished_thread in Hfin.
      inversion Hall as [? ? ? ? ? ? ? E|? ? ? ? ? ? ? E|? E|? ? ? ? ? E|? ? E|? ? E]; rewrite <- E in Hfin; cbn in Hfin; try discriminate;
        cbn; auto.
      destruct cr_cases as [[_ [_ [Elk _]]]|[_ [_ [Elk _]]]]; rewrite Elk in Hfin; discriminate. }
    assert (Hlen : length (c_th c) = length rnds) by apply run_length.
    destruct (c_th c) as [|t ts] eqn:Eth.
    { destruct rnds; [congruence|discriminate]. }
    assert (E1 : c_sh c = h1).
    { inversion Hdone as [|? ? [E _] _]. exact E. }
    split; [rewrite Hcnt, E1, is_h1_h1; reflexivity|]. split.
    - eapply Forall_impl; [|exact Hdone]. intros a [_ H]. exact H.
    - rewrite E1. split; [apply kids_h1_d|]. apply hget_h1_fresh.
  Qed.

  (* the only lock held between two steps is the parent's, by a thread about to lock the node
     just created (a younger node): the discipline is ascending, no schedule can deadlock *)
  Lemma tshape_holds h ls hd : tshape h ls -> In hd (mc_holds ls) -> hd = (d, true) /\ mc_request ls = Some {| r_lock := length h0; r_write := true |}.
  Proof.
    intros H; inversion H as [| | |hp rnd Ecr E Ehp| |]; subst; cbn; try tauto.
    - destruct cr_cases as [[_ [_ [Elk _]]]|[_ [_ [Elk _]]]]; rewrite Elk; cbn; tauto.
    - destruct Ehp as [-> | ->]; cbn; [tauto|]. intros [<-|[]]. split; reflexivity.
  Qed.

  Lemma tshape_idle_holds h ls : tshape h ls -> mc_request ls = None -> mc_holds ls = [].
  Proof.
    intros H; inversion H as [| | |hp rnd Ecr E Ehp| |]; subst; cbn; try discriminate; auto.
    destruct cr_cases as [[_ [_ [Elk _]]]|[_ [_ [Elk _]]]]; rewrite Elk; cbn; discriminate.
  Qed.

  Theorem excl_no_deadlock rnds sched : mc_deadlocked (mc_run sched (start rnds)) = false.
  Proof.
    destruct (inv_run sched rnds) as [_ [Hall _]]. rewrite Forall_forall in Hall.
    unfold mc_deadlocked. apply deadlock_free_of_order with (rank := fun l : lock => l).
    - intros t r h Hin Hr Hh. destruct (@tshape_holds _ _ h (Hall _ Hin) Hh) as [-> Hr'].
      rewrite Hr' in Hr. injection Hr as <-. cbn. apply d_lt.
    - intros t Hin Hr. apply (@tshape_idle_holds _ _ (Hall _ Hin) Hr).
  Qed.
End Excl.
