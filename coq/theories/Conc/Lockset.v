(* Lockset.v - lock discipline implies absence of data races (generic theorem).

   Threads are lists of events  Acq l m | Rel l m | Rd x | Wr x | At x  (m in {R,W});
   sync.RWMutex semantics: a W acquisition needs no holder at all, an R
   acquisition needs no W holder; a thread releases only what it holds.
   Every location x carries a *requirement* for plain reads (rreq x) and for
   plain writes (wreq x):   Free | Need l m | Never.
   A thread is disciplined when every plain access happens while the thread
   holds what the requirement names (R is satisfied by R or W, W only by W).

   lockset_sound: in ANY trace of ANY number of disciplined threads that the
   lock semantics allows, two accesses by different threads whose requirements
   name the same lock, at least one in mode W, are separated by a release of
   that lock by the first thread followed by an acquisition by the second
   (one of the two in mode W): the release/acquire edge through which Go's
   memory model orders them.  Nothing is bounded.  No axioms. *)
From Coq Require Import List Arith Lia.
Import ListNotations.

Inductive mode := R | W.

Definition mode_eq_dec (a b : mode) : {a = b} + {a <> b}.
Proof. decide equality. Defined.

(* multiset of holdings as a list; release removes one occurrence *)
Section Remove1.
  Variable A : Type.
  Variable dec : forall a b : A, {a = b} + {a <> b}.
  Fixpoint remove1 (x : A) (l : list A) : list A :=
    match l with
    | [] => []
    | y :: l' => if dec x y then l' else y :: remove1 x l'
    end.

  Lemma remove1_In x y l : In y (remove1 x l) -> In y l.
  Proof.
    induction l as [|z l IH]; cbn; [tauto|].
    destruct (dec x z); cbn; intuition.
  Qed.

  Lemma remove1_In_neq x y l : x <> y -> In y l -> In y (remove1 x l).
  Proof.
    intros Hne; induction l as [|z l IH]; cbn; [tauto|].
    destruct (dec x z) as [->|]; cbn; intuition congruence.
  Qed.
End Remove1.
Arguments remove1 {A} dec x l.

Section Lockset.
  Variables lock loc : Type.
  Variable lock_eq_dec : forall a b : lock, {a = b} + {a <> b}.

  Inductive need := Free | Need (l : lock) (m : mode) | Never.
  Variables rreq wreq : loc -> need.

  Inductive event :=
  | Acq (l : lock) (m : mode)
  | Rel (l : lock) (m : mode)
  | Rd (x : loc)
  | Wr (x : loc)
  | At (x : loc).          (* sync/atomic access: no requirement, never part of a conflict *)

  Definition hold := (lock * mode)%type.
  Definition hold_eq_dec (a b : hold) : {a = b} + {a <> b}.
  Proof. decide equality; try apply mode_eq_dec; apply lock_eq_dec. Defined.
  Arguments hold_eq_dec : simpl never.

  Definition tid := nat.
  Definition thread := list event.
  Definition trace := list (tid * event).


  (* ---------------------------------------------------------------- *)
  (* one thread: the holdings it has, and the discipline               *)

  Definition upd (H : list hold) (e : event) : list hold :=
    match e with
    | Acq l m => (l, m) :: H
    | Rel l m => remove1 hold_eq_dec (l, m) H
    | _ => H
    end.

  Definition sat (H : list hold) (n : need) : Prop :=
    match n with
    | Free => True
    | Need l R => In (l, R) H \/ In (l, W) H
    | Need l W => In (l, W) H
    | Never => False
    end.

  Definition ev_need (e : event) : need :=
    match e with
    | Rd x => rreq x
    | Wr x => wreq x
    | _ => Free
    end.

  Definition ok_ev (H : list hold) (e : event) : Prop :=
    match e with
    | Rel l m => In (l, m) H
    | _ => sat H (ev_need e)
    end.

  Fixpoint disc (H : list hold) (es : thread) : Prop :=
    match es with
    | [] => True
    | e :: es' => ok_ev H e /\ disc (upd H e) es'
    end.

  Definition run (H : list hold) (es : thread) : list hold := fold_left upd es H.

  Definition disciplined (es : thread) : Prop := disc [] es.

  Lemma disc_app H es1 es2 : disc H (es1 ++ es2) <-> disc H es1 /\ disc (run H es1) es2.
  Proof.
    revert H; induction es1 as [|e es1 IH]; intros H; cbn; [tauto|].
    rewrite IH. unfold run. tauto.
  Qed.

  Lemma run_app H es1 es2 : run H (es1 ++ es2) = run (run H es1) es2.
  Proof. unfold run. apply fold_left_app. Qed.

  (* the discipline is closed under prefixes: a thread stopped in the middle
     of a call is still disciplined *)
  Lemma disciplined_prefix es1 es2 : disciplined (es1 ++ es2) -> disciplined es1.
  Proof. unfold disciplined. rewrite disc_app. tauto. Qed.

  (* ---------------------------------------------------------------- *)
  (* all threads together: RWMutex semantics                           *)

  Definition gstate := list (tid * hold).
  Definition ghold_eq_dec (a b : tid * hold) : {a = b} + {a <> b}.
  Proof. decide equality; try apply hold_eq_dec; apply Nat.eq_dec. Defined.
  Arguments ghold_eq_dec : simpl never.

  Definition gupd (s : gstate) (te : tid * event) : gstate :=
    match te with
    | (t, Acq l m) => (t, (l, m)) :: s
    | (t, Rel l m) => remove1 ghold_eq_dec (t, (l, m)) s
    | _ => s
    end.

  Definition step_ok (s : gstate) (te : tid * event) : Prop :=
    match te with
    | (t, Acq l W) => forall t' m', ~ In (t', (l, m')) s
    | (t, Acq l R) => forall t', ~ In (t', (l, W)) s
    | (t, Rel l m) => In (t, (l, m)) s
    | _ => True
    end.

  Fixpoint valid (s : gstate) (tr : trace) : Prop :=
    match tr with
    | [] => True
    | te :: tr' => step_ok s te /\ valid (gupd s te) tr'
    end.

  Definition grun (s : gstate) (tr : trace) : gstate := fold_left gupd tr s.

  Lemma valid_app s tr1 tr2 : valid s (tr1 ++ tr2) <-> valid s tr1 /\ valid (grun s tr1) tr2.
  Proof.
    revert s; induction tr1 as [|te tr1 IH]; intros s; cbn; [tauto|].
    rewrite IH. unfold grun. tauto.
  Qed.

  Lemma grun_app s tr1 tr2 : grun s (tr1 ++ tr2) = grun (grun s tr1) tr2.
  Proof. unfold grun. apply fold_left_app. Qed.

  Lemma grun_cons s te tr : grun s (te :: tr) = grun (gupd s te) tr.
  Proof. reflexivity. Qed.

  (* projection of the interleaved trace on one thread *)
  Fixpoint proj (t : tid) (tr : trace) : thread :=
    match tr with
    | [] => []
    | (t', e) :: tr' => if Nat.eq_dec t' t then e :: proj t tr' else proj t tr'
    end.

  Lemma proj_app t tr1 tr2 : proj t (tr1 ++ tr2) = proj t tr1 ++ proj t tr2.
  Proof.
    induction tr1 as [|[t' e] tr1 IH]; cbn; [reflexivity|].
    destruct (Nat.eq_dec t' t); cbn; now rewrite IH.
  Qed.

  (* the holdings of thread t inside a global state *)
  Fixpoint mine (t : tid) (s : gstate) : list hold :=
    match s with
    | [] => []
    | (t', h) :: s' => if Nat.eq_dec t' t then h :: mine t s' else mine t s'
    end.

  Lemma mine_In t h s : In h (mine t s) <-> In (t, h) s.
  Proof.
    induction s as [|[t' h'] s IH]; cbn; [tauto|].
    destruct (Nat.eq_dec t' t) as [->|Hne]; cbn; rewrite IH; intuition congruence.
  Qed.

  Lemma mine_remove1_same t h s :
    mine t (remove1 ghold_eq_dec (t, h) s) = remove1 hold_eq_dec h (mine t s).
  Proof.
    induction s as [|[t' h'] s IH]; cbn; [reflexivity|].
    destruct (ghold_eq_dec (t, h) (t', h')) as [E|NE].
    - inversion E; subst. destruct (Nat.eq_dec t' t') as [?|]; [|congruence]. cbn.
      destruct (hold_eq_dec h' h'); [reflexivity|congruence].
    - cbn. destruct (Nat.eq_dec t' t) as [->|Hne]; cbn.
      + destruct (hold_eq_dec h h') as [->|]; [congruence|]. now rewrite IH.
      + exact IH.
  Qed.

  Lemma mine_remove1_other t t' h s :
    t' <> t -> mine t (remove1 ghold_eq_dec (t', h) s) = mine t s.
  Proof.
    intros Hne. induction s as [|[t'' h'] s IH]; cbn; [reflexivity|].
    destruct (ghold_eq_dec (t', h) (t'', h')) as [E|NE].
    - inversion E; subst. destruct (Nat.eq_dec t'' t); [congruence|reflexivity].
    - cbn. destruct (Nat.eq_dec t'' t); now rewrite IH.
  Qed.

  (* thread t's share of the global state is what its own events produce *)
  Lemma mine_gupd t t' e s :
    mine t (gupd s (t', e)) = if Nat.eq_dec t' t then upd (mine t s) e else mine t s.
  Proof.
    destruct (Nat.eq_dec t' t) as [E|Hne].
    - subst t'. destruct e; cbn [gupd upd]; try reflexivity.
      + cbn. destruct (Nat.eq_dec t t); [reflexivity|congruence].
      + apply mine_remove1_same.
    - destruct e; cbn [gupd]; try reflexivity.
      + cbn. destruct (Nat.eq_dec t' t); [congruence|reflexivity].
      + now apply mine_remove1_other.
  Qed.

  Lemma mine_grun t tr : forall s, mine t (grun s tr) = run (mine t s) (proj t tr).
  Proof.
    induction tr as [|[t' e] tr IH]; intros s; [reflexivity|].
    change (grun s ((t', e) :: tr)) with (grun (gupd s (t', e)) tr).
    rewrite IH, mine_gupd. cbn [proj].
    destruct (Nat.eq_dec t' t); reflexivity.
  Qed.

  (* ---------------------------------------------------------------- *)
  (* exclusion invariant of the lock semantics                         *)

  Definition excl (s : gstate) : Prop :=
    forall t1 t2 l m1 m2, In (t1, (l, m1)) s -> In (t2, (l, m2)) s -> t1 <> t2 -> m1 = R /\ m2 = R.

  Lemma excl_step s te : excl s -> step_ok s te -> excl (gupd s te).
  Proof.
    intros Hex Hok. destruct te as [t e]. destruct e as [l m|l m|x|x|x]; cbn in *; try exact Hex.
    - intros t1 t2 l0 m1 m2 H1 H2 Hne. cbn in H1, H2.
      destruct H1 as [E1|H1], H2 as [E2|H2].
      + inversion E1; inversion E2; subst; congruence.
      + inversion E1; subst. destruct m1.
        * destruct m2; [tauto|]. exfalso. eapply Hok; eauto.
        * exfalso. eapply Hok; eauto.
      + inversion E2; subst. destruct m2.
        * destruct m1; [tauto|]. exfalso. eapply Hok; eauto.
        * exfalso. eapply Hok; eauto.
      + eapply Hex; eauto.
    - intros t1 t2 l0 m1 m2 H1 H2 Hne. apply remove1_In in H1. apply remove1_In in H2.
      eapply Hex; eauto.
  Qed.

  Lemma excl_run tr : forall s, excl s -> valid s tr -> excl (grun s tr).
  Proof.
    induction tr as [|te tr IH]; intros s Hex Hv; cbn in *; [exact Hex|].
    destruct Hv as [Hok Hv]. unfold grun; cbn [fold_left]. apply IH; [|exact Hv].
    now apply excl_step.
  Qed.

  Lemma excl_nil : excl [].
  Proof. intros t1 t2 l m1 m2 []. Qed.

  (* a holding appears only through an acquisition, disappears only through a release *)
  Lemma gain k tr : forall s, ~ In k s -> In k (grun s tr) ->
    exists tr1 tr2, tr = tr1 ++ (fst k, Acq (fst (snd k)) (snd (snd k))) :: tr2.
  Proof.
    induction tr as [|[t e] tr IH]; intros s Hn Hi; cbn in *; [tauto|].
    unfold grun in Hi; cbn [fold_left] in Hi.
    destruct (ghold_eq_dec k (t, match e with Acq l m => (l, m) | Rel l m => (l, m) | _ => snd k end)) as [E|NE].
    - destruct e as [l m|l m|x|x|x].
      + exists [], tr. subst k. reflexivity.
      + destruct (IH (gupd s (t, Rel l m))) as (tr1 & tr2 & ->); [|exact Hi|].
        * cbn. intros Hc. apply remove1_In in Hc. tauto.
        * exists ((t, Rel l m) :: tr1), tr2. reflexivity.
      + destruct (IH s Hn Hi) as (tr1 & tr2 & ->). exists ((t, Rd x) :: tr1), tr2. reflexivity.
      + destruct (IH s Hn Hi) as (tr1 & tr2 & ->). exists ((t, Wr x) :: tr1), tr2. reflexivity.
      + destruct (IH s Hn Hi) as (tr1 & tr2 & ->). exists ((t, At x) :: tr1), tr2. reflexivity.
    - destruct (IH (gupd s (t, e))) as (tr1 & tr2 & ->); [|exact Hi|].
      + destruct e as [l m|l m|x|x|x]; cbn; try exact Hn.
        * intros [Hc|Hc]; [congruence|tauto].
        * intros Hc. apply remove1_In in Hc. tauto.
      + exists ((t, e) :: tr1), tr2. reflexivity.
  Qed.

  Lemma loss k tr : forall s, In k s -> ~ In k (grun s tr) ->
    exists tr1 tr2, tr = tr1 ++ (fst k, Rel (fst (snd k)) (snd (snd k))) :: tr2.
  Proof.
    induction tr as [|[t e] tr IH]; intros s Hi Hn; cbn in *; [tauto|].
    unfold grun in Hn; cbn [fold_left] in Hn.
    destruct e as [l m|l m|x|x|x].
    - destruct (IH (gupd s (t, Acq l m))) as (tr1 & tr2 & ->); [cbn; tauto|exact Hn|].
      exists ((t, Acq l m) :: tr1), tr2. reflexivity.
    - destruct (ghold_eq_dec (t, (l, m)) k) as [E|NE].
      + exists [], tr. subst k. reflexivity.
      + destruct (IH (gupd s (t, Rel l m))) as (tr1 & tr2 & ->); [|exact Hn|].
        * cbn. now apply remove1_In_neq.
        * exists ((t, Rel l m) :: tr1), tr2. reflexivity.
    - destruct (IH s Hi Hn) as (tr1 & tr2 & ->). exists ((t, Rd x) :: tr1), tr2. reflexivity.
    - destruct (IH s Hi Hn) as (tr1 & tr2 & ->). exists ((t, Wr x) :: tr1), tr2. reflexivity.
    - destruct (IH s Hi Hn) as (tr1 & tr2 & ->). exists ((t, At x) :: tr1), tr2. reflexivity.
  Qed.

  (* ---------------------------------------------------------------- *)
  (* what a disciplined thread holds when it performs an access        *)

  Definition holds_for (H : list hold) (l : lock) (m : mode) (m' : mode) : Prop :=
    In (l, m') H /\ (m = W -> m' = W).

  Lemma sat_holds H l m : sat H (Need l m) -> exists m', holds_for H l m m'.
  Proof.
    destruct m; cbn.
    - intros [Hi|Hi]; [exists R|exists W]; split; auto; discriminate.
    - intros Hi. exists W. split; auto.
  Qed.

  Lemma access_held tr a t e c l m :
    tr = a ++ (t, e) :: c -> disciplined (proj t tr) -> ev_need e = Need l m ->
    exists m', In (t, (l, m')) (grun [] a) /\ (m = W -> m' = W).
  Proof.
    intros -> Hd Hn. unfold disciplined in Hd. rewrite proj_app in Hd. cbn in Hd.
    destruct (Nat.eq_dec t t) as [?|]; [|congruence].
    apply disc_app in Hd. destruct Hd as [_ Hd]. cbn in Hd. destruct Hd as [Hok _].
    assert (Hs : sat (run [] (proj t a)) (Need l m)).
    { destruct e; cbn in Hn; try discriminate; cbn in Hok; rewrite Hn in Hok; exact Hok. }
    apply sat_holds in Hs. destruct Hs as (m' & Hi & Hm). exists m'. split; [|exact Hm].
    apply mine_In. rewrite mine_grun. exact Hi.
  Qed.

  Lemma access_keeps_state s t e : (forall l m, e <> Acq l m) -> (forall l m, e <> Rel l m) -> gupd s (t, e) = s.
  Proof. destruct e; cbn; intros H1 H2; try reflexivity; [destruct (H1 l m)|destruct (H2 l m)]; reflexivity. Qed.

  (* ---------------------------------------------------------------- *)
  (* the theorem                                                        *)

  Theorem lockset_sound : forall tr,
    valid [] tr ->
    (forall t, disciplined (proj t tr)) ->
    forall a t1 e1 b t2 e2 c l m1 m2,
      tr = a ++ (t1, e1) :: b ++ (t2, e2) :: c ->
      t1 <> t2 ->
      ev_need e1 = Need l m1 -> ev_need e2 = Need l m2 ->
      m1 = W \/ m2 = W ->
      exists m1' m2' b1 b2 b3,
        b = b1 ++ (t1, Rel l m1') :: b2 ++ (t2, Acq l m2') :: b3
        /\ (m1' = W \/ m2' = W) /\ (m1 = W -> m1' = W) /\ (m2 = W -> m2' = W).
  Proof.
    intros tr Hv Hd a t1 e1 b t2 e2 c l m1 m2 Htr Hne Hn1 Hn2 Hw.
    (* what t1 holds at e1, what t2 holds at e2 *)
    destruct (access_held tr a t1 e1 (b ++ (t2, e2) :: c) l m1 Htr (Hd t1) Hn1) as (m1' & H1 & Hm1).
    assert (Htr2 : tr = (a ++ (t1, e1) :: b) ++ (t2, e2) :: c) by (rewrite Htr, <- app_assoc; reflexivity).
    destruct (access_held tr _ t2 e2 c l m2 Htr2 (Hd t2) Hn2) as (m2' & H2 & Hm2).
    assert (Hw' : m1' = W \/ m2' = W) by (destruct Hw; [left|right]; auto).
    (* e1 does not change the state *)
    assert (He1 : grun [] (a ++ (t1, e1) :: b) = grun (grun [] a) b).
    { rewrite grun_app, grun_cons.
      rewrite access_keeps_state; [reflexivity| |]; intros l0 m0 E; subst e1; cbn in Hn1; discriminate. }
    rewrite He1 in H2.
    (* validity and exclusion along the trace *)
    subst tr. apply valid_app in Hv. destruct Hv as [Hva Hv]. cbn [valid] in Hv. destruct Hv as [_ Hv].
    rewrite access_keeps_state in Hv;
      [| intros l0 m0 E; subst e1; cbn in Hn1; discriminate | intros l0 m0 E; subst e1; cbn in Hn1; discriminate].
    apply valid_app in Hv. destruct Hv as [Hvb _].
    assert (Hexa : excl (grun [] a)) by (apply excl_run; [apply excl_nil|exact Hva]).
    (* t2 does not hold (l, m2') at e1 *)
    assert (Hn2' : ~ In (t2, (l, m2')) (grun [] a)).
    { intros Hc. destruct (Hexa t1 t2 l m1' m2' H1 Hc Hne) as [E1 E2]. destruct Hw'; congruence. }
    destruct (gain (t2, (l, m2')) b (grun [] a) Hn2' H2) as (b' & b3 & Hb). cbn in Hb.
    (* at that acquisition t1 no longer holds (l, m1') *)
    subst b. apply valid_app in Hvb. destruct Hvb as [Hvb' Hstep]. cbn in Hstep. destruct Hstep as [Hstep _].
    assert (Hn1' : ~ In (t1, (l, m1')) (grun (grun [] a) b')).
    { destruct m2'; cbn in Hstep.
      - destruct Hw' as [->|]; [apply Hstep|discriminate].
      - apply Hstep. }
    destruct (loss (t1, (l, m1')) b' (grun [] a) H1 Hn1') as (b1 & b2 & Hb'). cbn in Hb'.
    exists m1', m2', b1, b2, b3. subst b'. rewrite <- app_assoc. cbn. auto.
  Qed.

  (* ---------------------------------------------------------------- *)
  (* corollaries                                                        *)

  Definition access (e : event) (x : loc) : Prop := e = Rd x \/ e = Wr x.
  Definition guarded_by (x : loc) (l : lock) : Prop := rreq x = Need l R /\ wreq x = Need l W.

  (* No data race on a guarded location: two conflicting plain accesses (same
     location, different threads, at least one write) are ordered through the
     guard; the side that writes releases/acquires it in mode W. *)
  Corollary race_free : forall tr,
    valid [] tr -> (forall t, disciplined (proj t tr)) ->
    forall a t1 e1 b t2 e2 c x l,
      tr = a ++ (t1, e1) :: b ++ (t2, e2) :: c -> t1 <> t2 ->
      guarded_by x l -> access e1 x -> access e2 x -> e1 = Wr x \/ e2 = Wr x ->
      exists m1 m2 b1 b2 b3,
        b = b1 ++ (t1, Rel l m1) :: b2 ++ (t2, Acq l m2) :: b3
        /\ (e1 = Wr x -> m1 = W) /\ (e2 = Wr x -> m2 = W).
  Proof.
    intros tr Hv Hd a t1 e1 b t2 e2 c x l Htr Hne [Hr Hw] A1 A2 Hc.
    assert (N1 : exists m1, ev_need e1 = Need l m1 /\ (e1 = Wr x -> m1 = W) /\ (m1 = W -> e1 = Wr x)).
    { destruct A1 as [->| ->]; cbn; [exists R|exists W]; rewrite ?Hr, ?Hw; repeat split; auto; discriminate. }
    assert (N2 : exists m2, ev_need e2 = Need l m2 /\ (e2 = Wr x -> m2 = W) /\ (m2 = W -> e2 = Wr x)).
    { destruct A2 as [->| ->]; cbn; [exists R|exists W]; rewrite ?Hr, ?Hw; repeat split; auto; discriminate. }
    destruct N1 as (m1 & N1 & W1 & _), N2 as (m2 & N2 & W2 & _).
    assert (Hm : m1 = W \/ m2 = W) by (destruct Hc; [left|right]; auto).
    destruct (lockset_sound tr Hv Hd a t1 e1 b t2 e2 c l m1 m2 Htr Hne N1 N2 Hm)
      as (m1' & m2' & b1 & b2 & b3 & Hb & _ & K1 & K2).
    exists m1', m2', b1, b2, b3. repeat split; auto.
  Qed.

  (* Visibility: a write that precedes a read of the same guarded location by
     another thread is followed by the writer's W-release of the guard, which
     precedes an acquisition of the guard by the reader, which precedes the read.
     (In particular a call that has completed - and so released the guard -
     is visible to every call that starts afterwards.) *)
  Corollary visibility : forall tr,
    valid [] tr -> (forall t, disciplined (proj t tr)) ->
    forall a t1 b t2 c x l,
      tr = a ++ (t1, Wr x) :: b ++ (t2, Rd x) :: c -> t1 <> t2 -> guarded_by x l ->
      exists m2 b1 b2 b3, b = b1 ++ (t1, Rel l W) :: b2 ++ (t2, Acq l m2) :: b3.
  Proof.
    intros tr Hv Hd a t1 b t2 c x l Htr Hne Hg.
    destruct (race_free tr Hv Hd a t1 (Wr x) b t2 (Rd x) c x l Htr Hne Hg)
      as (m1 & m2 & b1 & b2 & b3 & Hb & K1 & _); [right; reflexivity|left; reflexivity|left; reflexivity|].
    rewrite (K1 eq_refl) in Hb. eauto.
  Qed.

  (* A location whose write requirement is Never is not written by a disciplined
     thread at all, hence has no conflicting accesses. *)
  Lemma disc_no_never H es : disc H es -> forall e, In e es -> ev_need e <> Never.
  Proof.
    revert H; induction es as [|e0 es IH]; intros H Hd e Hi; cbn in *; [tauto|].
    destruct Hd as [Hok Hd]. destruct Hi as [->|Hi]; [|eapply IH; eauto].
    intros Hn. destruct e; cbn in *; try discriminate; rewrite Hn in Hok; exact Hok.
  Qed.

  Lemma proj_In t e tr : In (t, e) tr -> In e (proj t tr).
  Proof.
    induction tr as [|[t' e'] tr IH]; cbn; [tauto|].
    intros [E|Hi].
    - inversion E; subst. destruct (Nat.eq_dec t t); [left; reflexivity|congruence].
    - destruct (Nat.eq_dec t' t); [right|]; auto.
  Qed.

  Corollary never_written : forall tr,
    (forall t, disciplined (proj t tr)) ->
    forall t x, wreq x = Never -> ~ In (t, Wr x) tr.
  Proof.
    intros tr Hd t x Hn Hi. apply proj_In in Hi.
    apply (disc_no_never [] (proj t tr) (Hd t) (Wr x) Hi). exact Hn.
  Qed.

  (* A lock that is never acquired in the trace is never held: an access that needs it
     cannot belong to a disciplined thread. *)
  Corollary needs_unacquired : forall tr,
    (forall t, disciplined (proj t tr)) ->
    forall l, (forall t m, ~ In (t, Acq l m) tr) ->
    forall t e m, ev_need e = Need l m -> ~ In (t, e) tr.
  Proof.
    intros tr Hd l Hna t e m Hn Hi.
    apply in_split in Hi. destruct Hi as (a & c & Htr).
    destruct (access_held tr a t e c l m Htr (Hd t) Hn) as (m' & Hh & _).
    destruct (gain (t, (l, m')) a [] (fun H => H) Hh) as (a1 & a2 & Ha). cbn in Ha.
    apply (Hna t m'). rewrite Htr, Ha. apply in_or_app. left. apply in_or_app. right. left. reflexivity.
  Qed.

  (* Two writes whose requirement is the same lock in mode W (e.g. a location
     owned by a view) are ordered likewise: instance of lockset_sound. *)
  Corollary writes_ordered : forall tr,
    valid [] tr -> (forall t, disciplined (proj t tr)) ->
    forall a t1 b t2 c x y l,
      tr = a ++ (t1, Wr x) :: b ++ (t2, Wr y) :: c -> t1 <> t2 ->
      wreq x = Need l W -> wreq y = Need l W ->
      exists b1 b2 b3, b = b1 ++ (t1, Rel l W) :: b2 ++ (t2, Acq l W) :: b3.
  Proof.
    intros tr Hv Hd a t1 b t2 c x y l Htr Hne Hx Hy.
    destruct (lockset_sound tr Hv Hd a t1 (Wr x) b t2 (Wr y) c l W W Htr Hne Hx Hy (or_introl eq_refl))
      as (m1 & m2 & b1 & b2 & b3 & Hb & _ & K1 & K2).
    rewrite (K1 eq_refl), (K2 eq_refl) in Hb. eauto.
  Qed.

End Lockset.

Arguments Free {lock}.
Arguments Never {lock}.
Arguments Need {lock} l m.
Arguments Acq {lock loc} l m.
Arguments Rel {lock loc} l m.
Arguments Rd {lock loc} x.
Arguments Wr {lock loc} x.
Arguments At {lock loc} x.
