(* Lock programs: a thread as its bare sequence of acquisitions and releases (C07, concurrent part).

   An instance of Sched.v with no shared state: enough to decide whether a set of calls, given the
   order in which each takes and releases its locks, can reach a deadlock.  The table
   [lockprog_table] transcribes, for OrefaFS and MemFS calls on the harness tree, the sequences
   that the instrumented code performs when a call runs alone; the check of C07 compares every
   entry with the real code (stream `lockprog`).  The refutations of Properties/C07.v for OrefaFS
   (which has no machine in MemConc.v) are schedules of these programs. *)
From Avfs Require Import Base Sched.
Set Implicit Arguments.

Inductive lop := LAcq (l : lock) (w : bool) | LRel (l : lock) (w : bool).

Record lp_state := { lp_held : list hold; lp_prog : list lop }.

Definition lp_request (s : lp_state) : option req :=
  match lp_prog s with
  | LAcq l w :: _ => Some {| r_lock := l; r_write := w |}
  | _ => None
  end.

Definition lp_holds (s : lp_state) : list hold := lp_held s.

Fixpoint remove_hold (l : lock) (w : bool) (hs : list hold) : list hold :=
  match hs with
  | [] => []
  | (l', w') :: r => if Nat.eqb l l' && Bool.eqb w w' then r else (l', w') :: remove_hold l w r
  end.

(* after an acquisition: perform the releases that follow, up to the next acquisition *)
Fixpoint lp_releases (held : list hold) (p : list lop) : lp_state :=
  match p with
  | LRel l w :: p' => lp_releases (remove_hold l w held) p'
  | _ => {| lp_held := held; lp_prog := p |}
  end.

Definition lp_segment (s : lp_state) (u : unit) : unit * lp_state :=
  match lp_prog s with
  | LAcq l w :: p' => (u, lp_releases (lp_held s ++ [(l, w)]) p')
  | _ => (u, s)
  end.

Definition lp_thread (p : list lop) : thread lp_state :=
  {| th_ls := lp_releases [] p; th_trace := [] |}.

Definition lp_init (ps : list (list lop)) : cstate unit lp_state :=
  {| c_sh := tt; c_th := map lp_thread ps |}.

Definition lp_run (sched : list nat) (c : cstate unit lp_state) : cstate unit lp_state :=
  sched_run lp_request lp_holds lp_segment (fun _ => 0) sched c.

Definition lp_deadlocked (c : cstate unit lp_state) : bool := deadlocked lp_request lp_holds c.

Definition lp_reaches_deadlock (ps : list (list lop)) (sched : list nat) : bool :=
  lp_deadlocked (lp_run sched (lp_init ps)).

(* ---- the table (harness tree: OrefaFS ids 0 = index, 1 = /, 2 = /a, 3 = /a/d, 4 = /a/f, 5 = /b, 6 = /b/g, 7 = /tmp;
        MemFS ids 0 = /, 1 = /a, 2 = /a/d, 3 = /a/f, 4 = /b, 5 = /b/g, 6 = /tmp) ------------------------------- *)
Definition AR l := LAcq l false. Definition AW l := LAcq l true.
Definition rR l := LRel l false. Definition rW l := LRel l true.

Definition orefa_mkdir_a_x := [AW 0; AW 2; rW 2; rW 0].
Definition orefa_create_a_x := [AR 0; rR 0; AW 0; AW 2; rW 2; rW 0].
Definition orefa_remove_a_f := [AW 0; AW 2; AW 4; rW 4; rW 2; rW 0].
Definition orefa_rename_bg_ax := [AR 0; rR 0; AW 2; AW 5; AW 0; rW 0; rW 5; rW 2].
Definition orefa_rename_af_ax := [AR 0; rR 0; AW 2; AW 0; rW 0; rW 2].
Definition orefa_rename_af_bx := [AR 0; rR 0; AW 5; AW 2; AW 0; rW 0; rW 2; rW 5].
Definition orefa_link_af_bx := [AR 0; rR 0; AR 5; rR 5; AR 4; rR 4; AW 4; AW 5; AW 0; rW 0; rW 5; rW 4].
Definition memfs_rename_af_bx :=
  [AR 0; rR 0; AR 1; rR 1; AR 1; rR 1; AR 0; rR 0; AR 4; rR 4; AR 4; rR 4; AW 1; AW 4; rW 4; rW 1].
Definition memfs_rename_bg_ax :=
  [AR 0; rR 0; AR 4; rR 4; AR 4; rR 4; AR 0; rR 0; AR 1; rR 1; AR 1; rR 1; AW 4; AW 1; rW 1; rW 4].

Definition lp_key (s : list nat) : str := map N.of_nat s.

(* key = "<fs> <call>" in ASCII *)
Definition lockprog_table : list (str * list lop) :=
  [ (lp_key [111;114;101;102;97;102;115;32;109;107;100;105;114;32;47;97;47;120], orefa_mkdir_a_x);
    (lp_key [111;114;101;102;97;102;115;32;99;114;101;97;116;101;32;47;97;47;120], orefa_create_a_x);
    (lp_key [111;114;101;102;97;102;115;32;114;101;109;111;118;101;32;47;97;47;102], orefa_remove_a_f);
    (lp_key [111;114;101;102;97;102;115;32;114;101;110;97;109;101;32;47;98;47;103;32;47;97;47;120], orefa_rename_bg_ax);
    (lp_key [111;114;101;102;97;102;115;32;114;101;110;97;109;101;32;47;97;47;102;32;47;97;47;120], orefa_rename_af_ax);
    (lp_key [111;114;101;102;97;102;115;32;114;101;110;97;109;101;32;47;97;47;102;32;47;98;47;120], orefa_rename_af_bx);
    (lp_key [111;114;101;102;97;102;115;32;108;105;110;107;32;47;97;47;102;32;47;98;47;120], orefa_link_af_bx);
    (lp_key [109;101;109;102;115;32;114;101;110;97;109;101;32;47;97;47;102;32;47;98;47;120], memfs_rename_af_bx);
    (lp_key [109;101;109;102;115;32;114;101;110;97;109;101;32;47;98;47;103;32;47;97;47;120], memfs_rename_bg_ax) ].

Definition lockprog_lookup (k : str) : option (list lop) := alookup str_eqb k lockprog_table.

(* ---- refutations ------------------------------------------------------------------------------------------------ *)

(* OrefaFS Rename (node locks, then the index lock) against Mkdir (index lock, then createNode's node lock) *)
Lemma orefa_rename_mkdir_deadlock :
  lp_reaches_deadlock [orefa_rename_bg_ax; orefa_mkdir_a_x] [0; 0; 0; 1] = true.
Proof. vm_compute. reflexivity. Qed.

(* OrefaFS Link (directory tests under read locks, then file, new parent, index lock) against Remove (index, parent, child) *)
Lemma orefa_link_remove_deadlock :
  lp_reaches_deadlock [orefa_link_af_bx; orefa_remove_a_f] [0; 0; 0; 0; 0; 1; 1] = true.
Proof. vm_compute. reflexivity. Qed.

(* two opposite cross-directory OrefaFS Renames: new parent then old parent, in opposite orders *)
Lemma orefa_rename_rename_deadlock :
  lp_reaches_deadlock [orefa_rename_bg_ax; orefa_rename_af_bx] [0; 1; 0; 1] = true.
Proof. vm_compute. reflexivity. Qed.

(* the same shape on MemFS, at the level of lock programs *)
Lemma memfs_rename_rename_deadlock_lp :
  lp_reaches_deadlock [memfs_rename_af_bx; memfs_rename_bg_ax] [0;0;0;0;0;0; 1;1;1;1;1;1; 0; 1] = true.
Proof. vm_compute. reflexivity. Qed.

(* ... and these programs do terminate when run one after the other *)
Lemma lp_sequential_ok :
  forallb (fun ps => negb (lp_deadlocked (complete lp_request lp_holds lp_segment (fun _ => 0) 64 (lp_init ps))) &&
                     finished lp_request (complete lp_request lp_holds lp_segment (fun _ => 0) 64 (lp_init ps)))
          [[orefa_rename_bg_ax; orefa_mkdir_a_x]; [orefa_link_af_bx; orefa_remove_a_f]; [orefa_rename_bg_ax; orefa_rename_af_bx]] = true.
Proof. vm_compute. reflexivity. Qed.
