(* Concrete programs + schedules on the harness' small tree, evaluated by vm_compute: witnesses
   that MemFS is NOT linearizable / CAN deadlock at lock-acquisition granularity.  The same
   (program, schedule) pairs are replayed on the real code by the checks of C06 / C07. *)
From Avfs Require Import Base Sched MemConc Lin.

Definition wname (x : list nat) : cname := map N.of_nat x.
Definition n_a := wname [97]. Definition n_b := wname [98]. Definition n_d := wname [100].
Definition n_f := wname [102]. Definition n_g := wname [103]. Definition n_tmp := wname [116;109;112].
Definition n_x := wname [120]. Definition n_y := wname [121].

(* /a{d/,f} /b{g} /tmp :  0:D[a=1,b=4,tmp=6] 1:D[d=2,f=3] 2:D[] 3:F1 4:D[g=5] 5:F1 6:D[] *)
Definition tree0 : cheap :=
  [KDir [(n_a, 1); (n_b, 4); (n_tmp, 6)]; KDir [(n_d, 2); (n_f, 3)]; KDir []; KFile 1;
   KDir [(n_g, 5)]; KFile 1; KDir []].

Definition no_rand : list (list cname) := [[]; []].

Definition refutes_lin (progs : list (list qcall)) (sched : list nat) : bool :=
  let c := mc_exec tree0 progs no_rand sched in
  mc_finished c && negb (lin_ok tree0 progs no_rand c).

Definition reaches_deadlock (progs : list (list qcall)) (sched : list nat) : bool :=
  mc_deadlocked (mc_exec tree0 progs no_rand sched).

(* Mkdir below a directory that is being removed: both succeed, the new directory is lost *)
Definition w_mkdir_remove := [[QMkdir [n_a; n_d; n_x]]; [QRemove [n_a; n_d]]].
Definition s_mkdir_remove := [1; 0; 0; 0; 1; 1; 1; 1; 0; 0; 0].

(* two Links to one new name: both succeed, one entry is overwritten, its link count stays incremented *)
Definition w_link_link := [[QLink [n_a; n_f] [n_a; n_x]]; [QLink [n_b; n_g] [n_a; n_x]]].
Definition s_link_link := [1; 0; 0; 0; 0; 0; 0; 1; 1; 1; 1; 1; 1; 1; 0; 0].

(* two Renames to one new name (a directory and a file): both succeed, although neither can replace the other *)
Definition w_rename_rename := [[QRename [n_a; n_d] [n_a; n_x]]; [QRename [n_a; n_f] [n_a; n_x]]].
Definition s_rename_rename := [1; 0; 0; 0; 0; 0; 0; 1; 1; 1; 1; 1; 1; 0].

(* Remove and Rename of the same file: both succeed, the removed file is back under the new name *)
Definition w_remove_rename := [[QRemove [n_a; n_f]]; [QRename [n_a; n_f] [n_b; n_x]]].
Definition s_remove_rename := [1; 1; 1; 0; 0; 0; 0; 0; 1; 1; 1; 1; 1].

(* opposite cross-directory Renames: oParent then nParent, taken in opposite orders *)
Definition w_rename_cross := [[QRename [n_a; n_f] [n_b; n_x]]; [QRename [n_b; n_g] [n_a; n_x]]].
Definition s_rename_cross := [1; 1; 1; 1; 1; 1; 0; 0; 0; 0; 0; 0; 0; 1].

Lemma refuted_mkdir_remove : refutes_lin w_mkdir_remove s_mkdir_remove = true.
Proof. vm_compute. reflexivity. Qed.
Lemma refuted_link_link : refutes_lin w_link_link s_link_link = true.
Proof. vm_compute. reflexivity. Qed.
Lemma refuted_rename_rename : refutes_lin w_rename_rename s_rename_rename = true.
Proof. vm_compute. reflexivity. Qed.
Lemma refuted_remove_rename : refutes_lin w_remove_rename s_remove_rename = true.
Proof. vm_compute. reflexivity. Qed.
Lemma deadlock_rename_cross : reaches_deadlock w_rename_cross s_rename_cross = true.
Proof. vm_compute. reflexivity. Qed.

(* the checker is not trivially false: sequential schedules of the same programs are linearizable *)
Lemma lin_ok_sequential :
  forallb (fun progs => let c := mc_exec tree0 progs no_rand [] in mc_finished c && lin_ok tree0 progs no_rand c)
          [w_mkdir_remove; w_link_link; w_rename_rename; w_remove_rename; w_rename_cross] = true.
Proof. vm_compute. reflexivity. Qed.
