(* MemFS namespace calls as machines at lock-acquisition granularity (C06/C07, concurrent part).

   Each call of vfs/memfs/memfs.go is cut at its lock acquisitions: the unlocked path walk
   searchNode is one RLock step per component (plus one RLock of every directory entered, for
   checkPermission), followed by the Lock-protected segment(s) of the call.  Between two
   acquisitions the code is run atomically (Sched.v).  Universe: administrator, Linux, absolute
   clean paths given as component lists, symbolic links with absolute targets.

   The control point [pc] of a thread always names the lock it is about to ask for; [mc_holds]
   gives the locks it holds meanwhile.  The machines mirror the code INCLUDING what it does
   not do (Link, Rename, Symlink and MkdirAll never re-check the new name under the lock;
   nothing re-validates the result of the walk). *)
From Avfs Require Import Base Sched.
Set Implicit Arguments.

Definition cname := str.
Definition cpath := list cname.

Inductive cnode :=
| KDir (ch : list (cname * nat))
| KFile (nlink : Z)
| KSym (target : cpath).

Definition cheap := list cnode.

Definition hget (h : cheap) (i : nat) : option cnode := nth_error h i.

Fixpoint hset (h : cheap) (i : nat) (n : cnode) : cheap :=
  match h, i with
  | [], _ => []
  | _ :: h', O => n :: h'
  | x :: h', S i' => x :: hset h' i' n
  end.

Definition k_kids (h : cheap) (d : nat) : list (cname * nat) :=
  match hget h d with Some (KDir ch) => ch | _ => [] end.

Definition k_lookup (h : cheap) (d : nat) (nm : cname) : option nat := alookup str_eqb nm (k_kids h d).

Definition k_is_dir (h : cheap) (c : nat) : bool :=
  match hget h c with Some (KDir _) => true | _ => false end.

(* dirNode.addChild: children[name] = child *)
Definition k_add_child (h : cheap) (d : nat) (nm : cname) (c : nat) : cheap :=
  match hget h d with
  | Some (KDir ch) => hset h d (KDir (aset str_eqb nm c ch))
  | _ => h
  end.

(* dirNode.removeChild: delete(children, name) *)
Definition k_remove_child (h : cheap) (d : nat) (nm : cname) : cheap :=
  match hget h d with
  | Some (KDir ch) => hset h d (KDir (aremove str_eqb nm ch))
  | _ => h
  end.

(* node.delete() *)
Definition k_del_node (h : cheap) (c : nat) : cheap :=
  match hget h c with
  | Some (KDir _) => hset h c (KDir [])
  | Some (KFile n) => hset h c (KFile (n - 1))
  | Some (KSym _) => hset h c (KSym [])
  | None => h
  end.

Definition k_alloc (h : cheap) (n : cnode) : cheap * nat := (h ++ [n], length h).

(* ---- results ---------------------------------------------------------------- *)
Inductive cerr := XEEXIST | XENOENT | XENOTDIR | XENOTEMPTY | XEINVAL | XEPERM | XELOOP
                | XEFUEL     (* model only: unsupported argument or out of fuel *)
                | XERAND.    (* model only: the stream of temp names is exhausted *)

Definition cerr_eqb (a b : cerr) : bool :=
  match a, b with
  | XEEXIST, XEEXIST | XENOENT, XENOENT | XENOTDIR, XENOTDIR | XENOTEMPTY, XENOTEMPTY
  | XEINVAL, XEINVAL | XEPERM, XEPERM | XELOOP, XELOOP | XEFUEL, XEFUEL | XERAND, XERAND => true
  | _, _ => false
  end.

Inductive kres := KOk | KErr (e : cerr) | KOkName (p : cpath).

Inductive qcall :=
| QMkdir (p : cpath) | QCreate (p : cpath) | QRemove (p : cpath)
| QRename (o n : cpath) | QLink (o n : cpath) | QSymlink (target n : cpath)
| QMkdirAll (p : cpath) | QRemoveAll (p : cpath)
| QCreateTemp (dir : cpath) (pat : cname) | QMkdirTemp (dir : cpath) (pat : cname).

(* ---- the walk (memfs_internal.go searchNode) ------------------------------------ *)
Inductive slm := SLstat | SEval.     (* slmStat behaves as slmEval for what is observed here *)

Record wst := { w_cur : nat; w_done : cpath; w_rest : cpath; w_sl : nat; w_arg : cpath }.

Record kwres := {
  wr_parent : nat;
  wr_child : option nat;
  wr_err : cerr;            (* XEEXIST = FileExists, XENOENT = NoSuchFile / NoSuchDir *)
  wr_last : bool;           (* pi.IsLast() *)
  wr_part : cname;          (* pi.Part() *)
  wr_rest : cpath;          (* what pi.Next() would still yield *)
  wr_path : cpath;          (* pi.Path() *)
  wr_arg : cpath            (* the path given to the call *)
}.

Definition tmpinfo := option (cpath * cname * cpath)%type.   (* dir, pattern, name being tried *)

Inductive wk :=
| KMkdir (tmp : tmpinfo) | KCreate (tmp : tmpinfo)
| KRemove | KRemoveAll
| KRenOld (newp : cpath) | KRenNew (o : kwres)
| KLnkOld (newp : cpath) | KLnkNew (oc : nat)
| KSymlink (target : cpath)
| KMkdirAll
| KStatDir.

Definition rmframe := (nat * list (cname * nat))%type.

Inductive pc :=
| PWalk (w : wst) (m : slm) (k : wk)                (* asks R (w_cur w) *)
| PPerm (c : nat) (w : wst) (m : slm) (k : wk)      (* asks R c *)
| PMkdirW (parent : nat) (nm : cname) (tmp : tmpinfo)
| PCreateW (parent : nat) (nm : cname) (tmp : tmpinfo)
| PCreateC (hp : option nat) (c : nat) (tmp : tmpinfo)
| PRemoveP (parent child : nat) (nm : cname)
| PRemoveC (parent child : nat) (nm : cname)
| PRenO (o n : kwres)
| PRenN (o n : kwres)
| PLnkP (np : nat) (nm : cname) (oc : nat)
| PLnkC (np : nat) (nm : cname) (oc : nat)
| PSymW (parent : nat) (nm : cname) (target : cpath)
| PMkAllW (parent : nat) (nm : cname) (rest : cpath)
| PSymR (c : nat) (w : wst) (m : slm) (k : wk)      (* asks R c: reads the target of the symbolic link c *)
| PRenD (o n : kwres) (nc : nat)                    (* asks W nc: the file or link that Rename replaces *)
| PRmAllP (parent child : nat) (nm : cname)
| PRmAllE (parent child : nat) (nm : cname)         (* asks R child: is the directory empty ? *)
| PRmAllR (parent child : nat) (nm : cname) (stack : list rmframe) (d : nat)   (* asks W d: removeAll(d) starts *)
| PRmAllK (parent child : nat) (nm : cname) (stack : list rmframe) (y : nat)   (* asks W y: delete() of an entry already unlinked *)
| PRmAllD (parent child : nat) (nm : cname)         (* asks W child: delete() of the removed node itself *)
| PStatC (c : nat)
| PIdle.

Record lst := { l_pc : pc; l_todo : list qcall; l_res : list kres; l_rand : list cname }.

Definition k_rd (l : lock) : option req := Some {| r_lock := l; r_write := false |}.
Definition k_wr (l : lock) : option req := Some {| r_lock := l; r_write := true |}.

Definition pc_request (p : pc) : option req :=
  match p with
  | PWalk w _ _ => k_rd (w_cur w)
  | PPerm c _ _ _ => k_rd c
  | PMkdirW d _ _ | PCreateW d _ _ => k_wr d
  | PCreateC _ c _ => k_wr c
  | PRemoveP d _ _ => k_wr d
  | PRemoveC _ c _ => k_wr c
  | PRenO o _ => k_wr (wr_parent o)
  | PRenN _ n => k_wr (wr_parent n)
  | PLnkP d _ _ => k_wr d
  | PLnkC _ _ c => k_wr c
  | PSymW d _ _ | PMkAllW d _ _ => k_wr d
  | PSymR c _ _ _ => k_rd c
  | PRenD _ _ nc => k_wr nc
  | PRmAllP d _ _ => k_wr d
  | PRmAllE _ c _ => k_rd c
  | PRmAllR _ _ _ _ d => k_wr d
  | PRmAllK _ _ _ _ y => k_wr y
  | PRmAllD _ c _ => k_wr c
  | PStatC c => k_rd c
  | PIdle => None
  end.

Definition pc_holds (p : pc) : list hold :=
  match p with
  | PCreateC (Some d) _ _ => [(d, true)]
  | PRemoveC d _ _ => [(d, true)]
  | PRenN o _ => [(wr_parent o, true)]
  | PLnkC d _ _ => [(d, true)]
  | PRenD o n _ => (wr_parent o, true) :: (if Nat.eqb (wr_parent n) (wr_parent o) then [] else [(wr_parent n, true)])
  | PRmAllE d _ _ | PRmAllD d _ _ => [(d, true)]
  | PRmAllR d _ _ st _ | PRmAllK d _ _ st _ => (d, true) :: rev (map (fun f : rmframe => (fst f, true)) st)
  | _ => []
  end.

Definition mc_request (ls : lst) : option req := pc_request (l_pc ls).
Definition mc_holds (ls : lst) : list hold := pc_holds (l_pc ls).
Definition mc_cur_call (ls : lst) : nat := length (l_res ls).

(* ---- starting and finishing calls ---------------------------------------------------- *)
Definition k_w0 (p : cpath) : wst := {| w_cur := 0; w_done := []; w_rest := p; w_sl := 0; w_arg := p |}.

Definition k_start_call (c : qcall) (rnd : list cname) : option pc * list cname :=
  match c with
  | QMkdir ((_ :: _) as p) => (Some (PWalk (k_w0 p) SLstat (KMkdir None)), rnd)
  | QCreate ((_ :: _) as p) => (Some (PWalk (k_w0 p) SLstat (KCreate None)), rnd)
  | QRemove ((_ :: _) as p) => (Some (PWalk (k_w0 p) SLstat KRemove), rnd)
  | QRemoveAll ((_ :: _) as p) => (Some (PWalk (k_w0 p) SLstat KRemoveAll), rnd)
  | QRename ((_ :: _) as o) ((_ :: _) as n) => (Some (PWalk (k_w0 o) SLstat (KRenOld n)), rnd)
  | QLink ((_ :: _) as o) ((_ :: _) as n) => (Some (PWalk (k_w0 o) SLstat (KLnkOld n)), rnd)
  | QSymlink t ((_ :: _) as n) => (Some (PWalk (k_w0 n) SLstat (KSymlink t)), rnd)
  | QMkdirAll ((_ :: _) as p) => (Some (PWalk (k_w0 p) SEval KMkdirAll), rnd)
  | QCreateTemp dir pat =>
      match rnd with
      | r :: rnd' => let p := dir ++ [pat ++ r] in (Some (PWalk (k_w0 p) SLstat (KCreate (Some (dir, pat, p)))), rnd')
      | [] => (None, [])
      end
  | QMkdirTemp dir pat =>
      match rnd with
      | r :: rnd' => let p := dir ++ [pat ++ r] in (Some (PWalk (k_w0 p) SLstat (KMkdir (Some (dir, pat, p)))), rnd')
      | [] => (None, [])
      end
  | _ => (None, rnd)
  end.

(* k_load the next call that starts with a lock request; a call the model does not support
   answers XEFUEL at once *)
Fixpoint k_load (todo : list qcall) (res : list kres) (rnd : list cname) : lst :=
  match todo with
  | [] => {| l_pc := PIdle; l_todo := []; l_res := res; l_rand := rnd |}
  | c :: t =>
      match k_start_call c rnd with
      | (Some p, rnd') => {| l_pc := p; l_todo := t; l_res := res; l_rand := rnd' |}
      | (None, rnd') => k_load t (res ++ [KErr XEFUEL]) rnd'
      end
  end.

Definition k_ret (ls : lst) (r : kres) : lst := k_load (l_todo ls) (l_res ls ++ [r]) (l_rand ls).
Definition k_goto (ls : lst) (p : pc) : lst :=
  {| l_pc := p; l_todo := l_todo ls; l_res := l_res ls; l_rand := l_rand ls |}.

(* vfs.go CreateTemp / MkdirTemp around OpenFile / Mkdir *)
Definition k_ret_tmp (ls : lst) (tmp : tmpinfo) (is_create : bool) (r : kres) : lst :=
  match tmp with
  | None => k_ret ls r
  | Some (dir, pat, p) =>
      match r with
      | KOk => k_ret ls (KOkName p)
      | KErr XEEXIST =>
          match l_rand ls with
          | [] => k_ret ls (KErr XERAND)
          | rr :: rnd' =>
              let p' := dir ++ [pat ++ rr] in
              {| l_pc := PWalk (k_w0 p') SLstat (if is_create then KCreate (Some (dir, pat, p')) else KMkdir (Some (dir, pat, p')));
                 l_todo := l_todo ls; l_res := l_res ls; l_rand := rnd' |}
          end
      | KErr XENOENT =>
          if is_create then k_ret ls r
          else match dir with
               | [] => k_ret ls r
               | _ :: _ => k_goto ls (PWalk (k_w0 dir) SEval KStatDir)
               end
      | _ => k_ret ls r
      end
  end.

Definition k_slmax : nat := 40.   (* memfs_types.go slCountMax *)

Fixpoint cpath_eqb (a b : cpath) : bool :=
  match a, b with
  | [], [] => true
  | x :: a', y :: b' => str_eqb x y && cpath_eqb a' b'
  | _, _ => false
  end.

(* strings.HasPrefix(n, o + "/") on component lists: o is a proper prefix of n *)
Fixpoint k_proper_prefix (o n : cpath) : bool :=
  match o, n with
  | [], _ :: _ => true
  | x :: o', y :: n' => str_eqb x y && k_proper_prefix o' n'
  | _, _ => false
  end.

Fixpoint cpath_prefix (a b : cpath) : bool :=
  match a, b with
  | [], _ => true
  | x :: a', y :: b' => str_eqb x y && cpath_prefix a' b'
  | _ :: _, [] => false
  end.

(* what a call does with the result of a walk *)
Definition k_wdone (ls : lst) (h : cheap) (r : kwres) (k : wk) : lst :=
  let e := wr_err r in
  let noent := cerr_eqb e XENOENT in
  let exists_ := cerr_eqb e XEEXIST in
  match k with
  | KMkdir tmp =>
      if noent && wr_last r then k_goto ls (PMkdirW (wr_parent r) (wr_part r) tmp)
      else k_ret_tmp ls tmp false (KErr e)
  | KCreate tmp =>
      if negb ((exists_ || noent) && wr_last r) then k_ret_tmp ls tmp true (KErr e)
      else if exists_ then
        match wr_child r with
        | Some c => match hget h c with
                    | Some (KSym _) => k_ret_tmp ls tmp true (KErr XEEXIST)
                    | _ => k_goto ls (PCreateC None c tmp)
                    end
        | None => k_ret_tmp ls tmp true (KErr XEFUEL)
        end
      else k_goto ls (PCreateW (wr_parent r) (wr_part r) tmp)
  | KRemove =>
      match wr_child r with
      | Some c => if negb exists_ then k_ret ls (KErr e)
                  else if Nat.eqb c (wr_parent r) then k_ret ls (KErr XEINVAL)
                  else k_goto ls (PRemoveP (wr_parent r) c (wr_part r))
      | None => k_ret ls (KErr e)
      end
  | KRemoveAll =>
      if noent then k_ret ls KOk
      else if negb exists_ then k_ret ls (KErr e)
      else match wr_child r with
           | Some c => if Nat.eqb c (wr_parent r) then k_ret ls (KErr XEINVAL)
                       else k_goto ls (PRmAllP (wr_parent r) c (wr_part r))
           | None => k_ret ls (KErr XEFUEL)
           end
  | KRenOld newp =>
      if negb exists_ then k_ret ls (KErr e)
      else k_goto ls (PWalk (k_w0 newp) SLstat (KRenNew r))
  | KRenNew o =>
      if negb exists_ && negb noent then k_ret ls (KErr e)
      else if noent && negb (wr_last r) then k_ret ls (KErr e)
      else k_goto ls (PRenO o r)
  | KLnkOld newp =>
      match wr_child r with
      | Some c => if negb exists_ then k_ret ls (KErr e)
                  else k_goto ls (PWalk (k_w0 newp) SLstat (KLnkNew c))
      | None => k_ret ls (KErr e)
      end
  | KLnkNew oc =>
      if negb noent then k_ret ls (KErr e)
      else if negb (wr_last r) then k_ret ls (KErr e)
      else k_goto ls (PLnkP (wr_parent r) (wr_part r) oc)
  | KSymlink t =>
      if negb noent || negb (wr_last r) then k_ret ls (KErr e)
      else k_goto ls (PSymW (wr_parent r) (wr_part r) t)
  | KMkdirAll =>
      match wr_child r with
      | Some c =>
          match hget h c with
          | Some (KDir _) => if exists_ then k_ret ls KOk else k_ret ls (KErr e)
          | Some (KFile _) => k_ret ls (KErr XENOTDIR)
          | _ => k_goto ls (PMkAllW (wr_parent r) (wr_part r) (wr_rest r))
          end
      | None => k_goto ls (PMkAllW (wr_parent r) (wr_part r) (wr_rest r))
      end
  | KStatDir =>
      match wr_child r with
      | Some c => if exists_ then k_goto ls (PStatC c) else k_ret ls (KErr XENOENT)
      | None => k_ret ls (KErr XENOENT)
      end
  end.

(* one iteration of the loop of searchNode, under the read lock of the current directory *)
Definition k_walk_step (ls : lst) (h : cheap) (w : wst) (m : slm) (k : wk) : lst :=
  match w_rest w with
  | [] => k_ret ls (KErr XEFUEL)
  | nm :: tl =>
      let last := match tl with [] => true | _ => false end in
      let res c e := {| wr_parent := w_cur w; wr_child := c; wr_err := e; wr_last := last;
                        wr_part := nm; wr_rest := tl; wr_path := w_done w ++ nm :: tl; wr_arg := w_arg w |} in
      match k_lookup h (w_cur w) nm with
      | None => k_wdone ls h (res None XENOENT) k
      | Some c =>
          match hget h c with
          | Some (KDir _) =>
              if last then k_wdone ls h (res (Some c) XEEXIST) k
              else k_goto ls (PPerm c {| w_cur := c; w_done := w_done w ++ [nm]; w_rest := tl; w_sl := w_sl w; w_arg := w_arg w |} m k)
          | Some (KFile _) =>
              if last then k_wdone ls h (res (Some c) XEEXIST) k else k_wdone ls h (res (Some c) XENOTDIR) k
          | Some (KSym tg) =>
              let sl' := S (w_sl w) in
              if Nat.ltb k_slmax sl' then k_wdone ls h (res (Some c) XELOOP) k
              else if last && match m with SLstat => true | SEval => false end then k_wdone ls h (res (Some c) XEEXIST) k
              else k_goto ls (PSymR c {| w_cur := w_cur w; w_done := w_done w; w_rest := w_rest w; w_sl := sl'; w_arg := w_arg w |} m k)
          | None => k_ret ls (KErr XEFUEL)
          end
      end
  end.

(* ---- MkdirAll's creation loop ------------------------------------------------------------------ *)
Fixpoint k_mkall (h : cheap) (dn : nat) (part : cname) (rest : cpath) : cheap :=
  match k_lookup h dn part with
  | Some _ => h
  | None =>
      let '(h1, c) := k_alloc h (KDir []) in
      let h2 := k_add_child h1 dn part c in
      match rest with
      | [] => h2
      | p :: rest' => k_mkall h2 c p rest'
      end
  end.

(* ---- RemoveAll's recursion -------------------------------------------------------------------------- *)
Fixpoint k_insert_kid (x : cname * nat) (l : list (cname * nat)) : list (cname * nat) :=
  match l with
  | [] => [x]
  | y :: l' => if str_ltb (fst y) (fst x) then y :: k_insert_kid x l' else x :: l
  end.
Definition k_sort_kids (l : list (cname * nat)) : list (cname * nat) := fold_right k_insert_kid [] l.

Definition k_heap_size (h : cheap) : nat :=
  fold_right (fun n acc => match n with KDir ch => S (length ch) + acc | _ => S acc end) 0 h.

(* removeAll(x) iterates over the entries of the directories it has locked; [st] is the stack of
   frames (directory, entries still to process), innermost first.  The entry being processed
   stays at the head of its frame until its node has been deleted.  Every step handles one
   entry, so no fuel is needed. *)
Inductive rm_next_r :=
| RmEnter (y : nat)                 (* lock the sub-directory y and recurse *)
| RmDelete (y : nat)                (* the entry is unlinked; lock its node y for delete() *)
| RmTop.                            (* the outermost removeAll has returned *)

Definition k_rm_next (h : cheap) (st : list rmframe) : cheap * list rmframe * rm_next_r :=
  match st with
  | [] => (h, [], RmTop)
  | (x, []) :: st' =>
      match st' with
      | [] => (h, [], RmTop)
      | (px, []) :: _ => (h, [], RmTop)
      | (px, (n, y) :: _) :: _ => (k_remove_child h px n, st', RmDelete y)
      end
  | (x, (n, y) :: _) :: _ =>
      if k_is_dir h y then (h, st, RmEnter y) else (k_remove_child h x n, st, RmDelete y)
  end.

Definition pop_entry (st : list rmframe) : list rmframe :=
  match st with
  | (x, _ :: todo) :: st' => (x, todo) :: st'
  | _ => st
  end.

(* ---- Rename's locked part ---------------------------------------------------------------------------------- *)
Definition k_ren_body (ls : lst) (h : cheap) (o n : kwres) : cheap * lst :=
  match wr_child o with
  | None => (h, k_ret ls (KErr XEFUEL))
  | Some oc =>
      let new_exists := negb (cerr_eqb (wr_err n) XENOENT) in
      let move h0 := k_remove_child (k_add_child h0 (wr_parent n) (wr_part n) oc) (wr_parent o) (wr_part o) in
      match hget h oc with
      | Some (KDir _) =>
          let ndir := match wr_child n with Some nc => k_is_dir h nc | None => false end in
          if ndir && new_exists then
            if match wr_child n with Some nc => Nat.eqb nc oc | None => false end && negb (cpath_eqb (wr_arg o) (wr_arg n))
            then (h, k_ret ls KOk)
            else (h, k_ret ls (KErr XEEXIST))
          else if Nat.eqb oc (wr_parent o) || k_proper_prefix (wr_path o) (wr_path n) then (h, k_ret ls (KErr XEINVAL))
          else if new_exists then (h, k_ret ls (KErr XENOTDIR))
          else (move h, k_ret ls KOk)
      | Some _ =>
          if cpath_eqb (wr_path o) (wr_path n) || match wr_child n with Some nc => Nat.eqb oc nc | None => false end
          then (h, k_ret ls KOk)
          else match wr_child n with
               | None => (move h, k_ret ls KOk)
               | Some nc =>
                   match hget h nc with
                   | Some (KDir _) => (h, k_ret ls (KErr XEEXIST))
                   | Some _ => (h, k_goto ls (PRenD o n nc))
                   | None => (h, k_ret ls (KErr XEFUEL))
                   end
               end
      | None => (h, k_ret ls (KErr XEFUEL))
      end
  end.

(* ---- the segment run when the requested lock is granted ---------------------------------------------------------- *)
Definition mc_segment (ls : lst) (h : cheap) : cheap * lst :=
  match l_pc ls with
  | PWalk w m k => (h, k_walk_step ls h w m k)
  | PPerm _ w m k => (h, k_goto ls (PWalk w m k))
  | PMkdirW d nm tmp =>
      match k_lookup h d nm with
      | Some _ => (h, k_ret_tmp ls tmp false (KErr XEEXIST))
      | None => let '(h1, c) := k_alloc h (KDir []) in (k_add_child h1 d nm c, k_ret_tmp ls tmp false KOk)
      end
  | PCreateW d nm tmp =>
      match k_lookup h d nm with
      | None => let '(h1, c) := k_alloc h (KFile 1) in (k_add_child h1 d nm c, k_ret_tmp ls tmp true KOk)
      | Some c =>
          match hget h c with
          | Some (KSym _) => (h, k_ret_tmp ls tmp true KOk)
          | _ => (h, k_goto ls (PCreateC (Some d) c tmp))
          end
      end
  | PCreateC _ _ tmp => (h, k_ret_tmp ls tmp true (KErr XEEXIST))
  | PRemoveP d c nm => (h, k_goto ls (PRemoveC d c nm))
  | PRemoveC d c nm =>
      if k_is_dir h c && negb (match k_kids h c with [] => true | _ => false end) then (h, k_ret ls (KErr XENOTEMPTY))
      else match k_lookup h d nm with
           | None => (h, k_ret ls (KErr XENOENT))
           | Some _ => (k_del_node (k_remove_child h d nm) c, k_ret ls KOk)
           end
  | PRenO o n =>
      if Nat.eqb (wr_parent n) (wr_parent o) then k_ren_body ls h o n
      else (h, k_goto ls (PRenN o n))
  | PRenN o n => k_ren_body ls h o n
  | PLnkP d nm oc =>
      match hget h oc with
      | Some (KFile _) => (h, k_goto ls (PLnkC d nm oc))
      | _ => (h, k_ret ls (KErr XEPERM))
      end
  | PLnkC d nm oc =>
      match hget h oc with
      | Some (KFile n) => (hset (k_add_child h d nm oc) oc (KFile (n + 1)), k_ret ls KOk)
      | _ => (h, k_ret ls (KErr XEFUEL))
      end
  | PSymW d nm tg => let '(h1, c) := k_alloc h (KSym tg) in (k_add_child h1 d nm c, k_ret ls KOk)
  | PMkAllW d nm rest => (k_mkall h d nm rest, k_ret ls KOk)
  | PSymR c w m k =>
      match w_rest w with
      | [] => (h, k_ret ls (KErr XEFUEL))
      | _ :: tl =>
          let tg := match hget h c with Some (KSym t) => t | _ => [] end in
          (* PathIterator.ReplacePart: an absolute target replaces the path walked so far; the walk goes
             on in the current directory when the new path still starts with the components already
             walked, else from the root.  (An empty target - a deleted link - just drops the part.) *)
          let np := match tg with [] => w_done w ++ tl | _ => tg ++ tl end in
          if cpath_prefix (w_done w) np && Nat.ltb (length (w_done w)) (length np)
          then (h, k_goto ls (PWalk {| w_cur := w_cur w; w_done := w_done w; w_rest := skipn (length (w_done w)) np;
                                       w_sl := w_sl w; w_arg := w_arg w |} m k))
          else match np with
               | [] => (h, k_ret ls (KErr XEFUEL))
               | (_ :: _) as p' => (h, k_goto ls (PWalk {| w_cur := 0; w_done := []; w_rest := p'; w_sl := w_sl w; w_arg := w_arg w |} m k))
               end
      end
  | PRenD o n nc =>
      match wr_child o with
      | Some oc => (k_remove_child (k_add_child (k_del_node h nc) (wr_parent n) (wr_part n) oc) (wr_parent o) (wr_part o), k_ret ls KOk)
      | None => (h, k_ret ls (KErr XEFUEL))
      end
  | PRmAllP d c nm =>
      (* re-check under the parent's lock: the name may be gone or bound to another node by now *)
      if negb (match k_lookup h d nm with Some c' => Nat.eqb c' c | None => false end) then (h, k_ret ls KOk)
      else if k_is_dir h c then (h, k_goto ls (PRmAllE d c nm))
      else (k_remove_child h d nm, k_goto ls (PRmAllD d c nm))
  | PRmAllE d c nm =>
      match k_kids h c with
      | [] => (k_remove_child h d nm, k_goto ls (PRmAllD d c nm))
      | _ :: _ => (h, k_goto ls (PRmAllR d c nm [] c))
      end
  | PRmAllR d c nm st x =>
      match k_rm_next h ((x, k_sort_kids (k_kids h x)) :: st) with
      | (h', st', RmEnter y) => (h', k_goto ls (PRmAllR d c nm st' y))
      | (h', st', RmDelete y) => (h', k_goto ls (PRmAllK d c nm st' y))
      | (h', _, RmTop) => (k_remove_child h' d nm, k_goto ls (PRmAllD d c nm))
      end
  | PRmAllK d c nm st y =>
      match k_rm_next (k_del_node h y) (pop_entry st) with
      | (h', st', RmEnter z) => (h', k_goto ls (PRmAllR d c nm st' z))
      | (h', st', RmDelete z) => (h', k_goto ls (PRmAllK d c nm st' z))
      | (h', _, RmTop) => (k_remove_child h' d nm, k_goto ls (PRmAllD d c nm))
      end
  | PRmAllD d c nm => (k_del_node h c, k_ret ls KOk)
  | PStatC _ => (h, k_ret ls (KErr XENOENT))
  | PIdle => (h, ls)
  end.

(* ---- the concurrent machine ------------------------------------------------------------------------------------------- *)
Definition mthread := thread lst.
Definition mstate := cstate cheap lst.

Definition mc_step : nat -> mstate -> mstate := sched_step mc_request mc_holds mc_segment mc_cur_call.
Definition mc_run : list nat -> mstate -> mstate := sched_run mc_request mc_holds mc_segment mc_cur_call.
Definition mc_complete : nat -> mstate -> mstate := complete mc_request mc_holds mc_segment mc_cur_call.
Definition mc_finished : mstate -> bool := finished mc_request (sstate := cheap).
Definition mc_deadlocked : mstate -> bool := deadlocked mc_request mc_holds (sstate := cheap).
Definition mc_enabled : mstate -> nat -> bool := enabled mc_request mc_holds (sstate := cheap).

Definition mc_thread (prog : list qcall) (rnd : list cname) : mthread :=
  {| th_ls := k_load prog [] rnd; th_trace := [] |}.

Fixpoint k_zip_threads (progs : list (list qcall)) (rnds : list (list cname)) : list mthread :=
  match progs with
  | [] => []
  | p :: ps => mc_thread p (hd [] rnds) :: k_zip_threads ps (tl rnds)
  end.

Definition mc_init (h : cheap) (progs : list (list qcall)) (rnds : list (list cname)) : mstate :=
  {| c_sh := h; c_th := k_zip_threads progs rnds |}.

(* the harness: follow the schedule (disabled elements are skipped), then the lowest enabled thread *)
Definition mc_exec (h : cheap) (progs : list (list qcall)) (rnds : list (list cname)) (sched : list nat) : mstate :=
  mc_complete 4096 (mc_run sched (mc_init h progs rnds)).

Definition mc_results (c : mstate) : list (list kres) := map (fun t => l_res (th_ls t)) (c_th c).

(* ---- snapshot: nodes reachable from the root, each once, pre-order, entries sorted by name ---------------------------- *)
Fixpoint k_dump_go (fuel : nat) (h : cheap) (work seen : list nat) (acc : list (nat * cnode)) : list (nat * cnode) :=
  match fuel with
  | O => rev acc
  | S f =>
      match work with
      | [] => rev acc
      | i :: work' =>
          if existsb (Nat.eqb i) seen then k_dump_go f h work' seen acc
          else match hget h i with
               | Some (KDir ch) =>
                   let ch' := k_sort_kids ch in
                   k_dump_go f h (map snd ch' ++ work') (i :: seen) ((i, KDir ch') :: acc)
               | Some n => k_dump_go f h work' (i :: seen) ((i, n) :: acc)
               | None => k_dump_go f h work' (i :: seen) acc
               end
      end
  end.

Definition k_dump (h : cheap) : list (nat * cnode) := k_dump_go (2 * k_heap_size h + 8) h [0] [] [].

Fixpoint k_index_of (i : nat) (l : list nat) (k : nat) : nat :=
  match l with
  | [] => k
  | x :: l' => if Nat.eqb x i then k else k_index_of i l' (S k)
  end.

(* labels replaced by positions in the k_dump: equal canonical dumps = isomorphic trees,
   hard-link sharing and link counts included *)
Definition k_canon (h : cheap) : list cnode :=
  let d := k_dump h in
  let ids := map fst d in
  map (fun e => match snd e with
                | KDir ch => KDir (map (fun x => (fst x, k_index_of (snd x) ids 0)) ch)
                | n => n
                end) d.
