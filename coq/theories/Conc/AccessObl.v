(* AccessObl.v - the finite obligation over the regenerated summaries.

   Gen_access.v is rewritten from the current Go source on every run; this file is
   re-checked whenever it changes.  The domain is finite and stated: the list
   [Gen_access.summaries] (one entry per function / loop of memfs, orefafs, memidm
   and of the configuration structs they embed).  [Gen_access.known] lists the open
   known findings as (function, field) pairs; an undisciplined access is tolerated
   only for exactly such a pair, and the theorems of Properties/C08.v make no claim
   about a field that occurs in that list. *)
From Coq Require Import List String Bool.
From Avfs Require Import Lockset Discipline Gen_access.
Import ListNotations.
Open Scope list_scope.

Lemma C08_discipline : table_okb tbl known summaries = true.
Proof. vm_compute. reflexivity. Qed.

Lemma C08_summaries_ok : forallb (summary_okb tbl known summaries) summaries = true.
Proof. exact (table_okb_summaries tbl known summaries C08_discipline). Qed.
