(* Extraction of the executable models to OCaml.  ExtrOcamlBasic only:
   bool/option/unit/list/prod/sumbool/sumor mapped to OCaml's, andb/orb inlined;
   N, Z, positive, nat stay the extracted inductive types. *)
From Coq Require Extraction ExtrOcamlBasic.
From Avfs Require Import Base MemIdm Copy.
Extraction Language OCaml.
Extraction "model.ml" idm_init idm_run ref_init ref_run crun
  copy_transcript hash_transcript.
