(* Extraction of the executable models to OCaml.  ExtrOcamlBasic only:
   bool/option/unit/list/prod/sumbool/sumor mapped to OCaml's, andb/orb inlined;
   N, Z, positive, nat stay the extracted inductive types. *)
From Coq Require Extraction ExtrOcamlBasic.
From Avfs Require Import Base MemIdm Copy PathModel PathMatch.
Extraction Language OCaml.
Extraction "model.ml" idm_init idm_run ref_init ref_run crun
  copy_transcript hash_transcript
  clean join split dir base is_abs abs from_slash to_slash volume_name volume_name_len split_abs rel path_match
  pi_new pi_next pi_part pi_left pi_right pi_is_last pi_replace_part pi_parts.
