// Command wrapgen dumps, as JSON, what the Coq table generator (lib/vcheck/wrapgen.py)
// needs from the CURRENT avfs source: the flattened method sets of the avfs.VFS and
// avfs.File interfaces, the FnVFS enumeration, and for every method declared on the
// wrapper types (and a few named functions) its parameters, results and its body as
// canonical source text (go/printer, comments dropped, blank lines removed).
// The classification of body shapes happens in the Python side and fails closed.
//
// usage: wrapgen <avfs-repo-dir>
package main

import (
	"bytes"
	"encoding/json"
	"fmt"
	"go/ast"
	"go/parser"
	"go/printer"
	"go/token"
	"os"
	"path/filepath"
	"sort"
	"strings"
)

type param struct {
	Name string `json:"name"`
	Type string `json:"type"`
}

type swCase struct {
	Ids  []string `json:"ids"` // empty: default
	Body string   `json:"body"`
}

type fn struct {
	File    string   `json:"file"`
	Recv    string   `json:"recv"`
	RecvVar string   `json:"recv_var"`
	Name    string   `json:"name"`
	Params  []param  `json:"params"`
	Results []string `json:"results"`
	Body    string   `json:"body"`
	Switch  []swCase `json:"switch,omitempty"` // when the body is `switch <ident> { ... }`
	SwTag   string   `json:"switch_tag,omitempty"`
}

type dump struct {
	Interfaces map[string][]string `json:"interfaces"` // flattened, sorted method names
	Unresolved []string            `json:"unresolved"` // embedded interfaces that could not be flattened
	FnVFS      []string            `json:"fnvfs"`      // enumeration in declaration order (value = index+1)
	FnVFSOK    bool                `json:"fnvfs_iota_plus_one"`
	Structs    map[string][]string `json:"structs"` // pkg.Type -> embedded field types
	Funcs      []fn                `json:"funcs"`
	Consts     map[string]string   `json:"consts"`
}

var fset = token.NewFileSet()

func src(n ast.Node) string {
	var b bytes.Buffer
	if err := printer.Fprint(&b, fset, n); err != nil {
		panic(err)
	}
	var out []string
	for _, l := range strings.Split(b.String(), "\n") {
		l = strings.Join(strings.Fields(l), " ") // printer alignment is not part of the shape
		if l != "" {
			out = append(out, l)
		}
	}
	return strings.Join(out, "\n")
}

// method sets of the standard-library interfaces avfs.File embeds (Go 1.23).
var stdIfaces = map[string][]string{
	"fs.File":         {"Stat", "Read", "Close"},
	"fs.ReadDirFile":  {"Stat", "Read", "Close", "ReadDir"},
	"io.Reader":       {"Read"},
	"io.ReaderAt":     {"ReadAt"},
	"io.StringWriter": {"WriteString"},
	"io.Writer":       {"Write"},
	"io.WriterAt":     {"WriteAt"},
	"io.WriteSeeker":  {"Write", "Seek"},
	"io.Seeker":       {"Seek"},
	"io.Closer":       {"Close"},
}

func parseDir(dir string, files ...string) []*ast.File {
	var res []*ast.File
	if len(files) == 0 {
		m, _ := filepath.Glob(filepath.Join(dir, "*.go"))
		sort.Strings(m)
		files = m
	} else {
		for i := range files {
			files[i] = filepath.Join(dir, files[i])
		}
	}
	for _, f := range files {
		if strings.HasSuffix(f, "_test.go") {
			continue
		}
		af, err := parser.ParseFile(fset, f, nil, 0) // comments dropped
		if err != nil {
			fmt.Fprintln(os.Stderr, "wrapgen: parse error:", err)
			os.Exit(3)
		}
		res = append(res, af)
	}
	return res
}

func main() {
	if len(os.Args) != 2 {
		fmt.Fprintln(os.Stderr, "usage: wrapgen <avfs-repo-dir>")
		os.Exit(2)
	}
	repo := os.Args[1]
	d := dump{Interfaces: map[string][]string{}, Structs: map[string][]string{}, Consts: map[string]string{}}

	// ---- package avfs: interfaces, FnVFS, FeaturesFn methods
	root := parseDir(repo)
	ifaces := map[string]*ast.InterfaceType{}
	for _, f := range root {
		for _, decl := range f.Decls {
			gd, ok := decl.(*ast.GenDecl)
			if !ok {
				continue
			}
			for _, sp := range gd.Specs {
				if ts, ok := sp.(*ast.TypeSpec); ok {
					if it, ok := ts.Type.(*ast.InterfaceType); ok {
						ifaces[ts.Name.Name] = it
					}
				}
			}
			// the FnVFS enumeration: const ( FnAbs FnVFS = iota + 1; FnChdir; ... )
			if gd.Tok == token.CONST && len(gd.Specs) > 0 {
				first, ok := gd.Specs[0].(*ast.ValueSpec)
				if ok && first.Type != nil && src(first.Type) == "FnVFS" {
					d.FnVFSOK = len(first.Values) == 1 && src(first.Values[0]) == "iota + 1"
					for i, sp := range gd.Specs {
						vs := sp.(*ast.ValueSpec)
						if i > 0 && (vs.Type != nil || len(vs.Values) != 0) {
							d.FnVFSOK = false
						}
						for _, n := range vs.Names {
							d.FnVFS = append(d.FnVFS, n.Name)
						}
					}
				}
			}
		}
	}
	unres := map[string]bool{}
	var flatten func(name string, seen map[string]bool) map[string]bool
	flatten = func(name string, seen map[string]bool) map[string]bool {
		res := map[string]bool{}
		it, ok := ifaces[name]
		if !ok || seen[name] {
			unres[name] = true
			return res
		}
		seen[name] = true
		for _, m := range it.Methods.List {
			if len(m.Names) > 0 {
				for _, n := range m.Names {
					res[n.Name] = true
				}
				continue
			}
			en := src(m.Type)
			if ms, ok := stdIfaces[en]; ok {
				for _, x := range ms {
					res[x] = true
				}
			} else if _, ok := ifaces[en]; ok {
				for x := range flatten(en, seen) {
					res[x] = true
				}
			} else {
				unres[en] = true
			}
		}
		return res
	}
	for _, n := range []string{"VFS", "File"} {
		var ms []string
		for m := range flatten(n, map[string]bool{}) {
			ms = append(ms, m)
		}
		sort.Strings(ms)
		d.Interfaces[n] = ms
	}
	for u := range unres {
		d.Unresolved = append(d.Unresolved, u)
	}
	sort.Strings(d.Unresolved)

	addFuncs := func(pkg string, files []*ast.File, keep func(recv, name string) bool) {
		for _, f := range files {
			fname := filepath.Base(fset.Position(f.Pos()).Filename)
			for _, decl := range f.Decls {
				switch x := decl.(type) {
				case *ast.GenDecl:
					for _, sp := range x.Specs {
						ts, ok := sp.(*ast.TypeSpec)
						if !ok {
							continue
						}
						st, ok := ts.Type.(*ast.StructType)
						if !ok {
							continue
						}
						emb := []string{}
						for _, fl := range st.Fields.List {
							if len(fl.Names) == 0 {
								emb = append(emb, src(fl.Type))
							}
						}
						d.Structs[pkg+"."+ts.Name.Name] = emb
					}
				case *ast.FuncDecl:
					recv, rv := "", ""
					if x.Recv != nil && len(x.Recv.List) == 1 {
						recv = strings.TrimPrefix(src(x.Recv.List[0].Type), "*")
						if len(x.Recv.List[0].Names) == 1 {
							rv = x.Recv.List[0].Names[0].Name
						}
					}
					if !keep(recv, x.Name.Name) || x.Body == nil {
						continue
					}
					e := fn{File: fname, Recv: pkg + "." + recv, RecvVar: rv, Name: x.Name.Name, Results: []string{}, Params: []param{}}
					if recv == "" {
						e.Recv = pkg
					}
					for _, p := range x.Type.Params.List {
						t := src(p.Type)
						if len(p.Names) == 0 {
							e.Params = append(e.Params, param{"_", t})
						}
						for _, n := range p.Names {
							e.Params = append(e.Params, param{n.Name, t})
						}
					}
					if x.Type.Results != nil {
						for _, p := range x.Type.Results.List {
							k := len(p.Names)
							if k == 0 {
								k = 1
							}
							for i := 0; i < k; i++ {
								e.Results = append(e.Results, src(p.Type))
							}
						}
					}
					e.Body = strings.TrimSpace(strings.TrimSuffix(strings.TrimPrefix(src(x.Body), "{"), "}"))
					if len(x.Body.List) == 1 {
						if sw, ok := x.Body.List[0].(*ast.SwitchStmt); ok && sw.Init == nil && sw.Tag != nil {
							e.SwTag = src(sw.Tag)
							for _, c := range sw.Body.List {
								cc := c.(*ast.CaseClause)
								sc := swCase{Ids: []string{}}
								for _, id := range cc.List {
									sc.Ids = append(sc.Ids, src(id))
								}
								var parts []string
								for _, s := range cc.Body {
									parts = append(parts, src(s))
								}
								sc.Body = strings.Join(parts, "\n")
								e.Switch = append(e.Switch, sc)
							}
						}
					}
					d.Funcs = append(d.Funcs, e)
				}
			}
		}
	}
	all := func(string, string) bool { return true }
	addFuncs("avfs", root, func(recv, name string) bool { return recv == "FeaturesFn" })
	addFuncs("rofs", parseDir(filepath.Join(repo, "vfs", "rofs")), all)
	addFuncs("failfs", parseDir(filepath.Join(repo, "vfs", "failfs")), all)
	comp := map[string]bool{"Create": true, "CreateTemp": true, "Glob": true, "MkdirTemp": true, "Open": true,
		"ReadDir": true, "ReadFile": true, "WalkDir": true, "WriteFile": true}
	addFuncs("memfs", parseDir(filepath.Join(repo, "vfs", "memfs"), "memfs.go"), func(recv, name string) bool { return recv == "MemFS" && comp[name] })
	addFuncs("orefafs", parseDir(filepath.Join(repo, "vfs", "orefafs"), "orefafs.go"), func(recv, name string) bool { return recv == "OrefaFS" && comp[name] })

	b, _ := json.MarshalIndent(d, "", " ")
	os.Stdout.Write(b)
	fmt.Println()
}
