module wrapgen

go 1.22
