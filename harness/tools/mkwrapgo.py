#!/usr/bin/env python3
"""Generates harness/cmd/avfscheck/wrap_gen.go (committed): for every method of avfs.VFS and
avfs.File (+ SetFeatures)

  * the recording proxy  recVFS / recFile  put BETWEEN a wrapper and its base: forwards every call
    unchanged and logs (base object id, method, canonical arguments, canonical answer); objects the
    base returns are wrapped in a recording proxy too, so calls on handed-out base objects stay visible;
  * the executors  wrExecVFS / wrExecFile  that perform one textual call on any avfs.VFS / avfs.File
    (a wrapper, the twin base, the base itself) and canonicalise the answer.

Both are mechanical; the spec table below is the single source.  Run:  python3 harness/tools/mkwrapgo.py
"""
import os

# parameter kinds: s string, i int, i64 int64, m fs.FileMode, t time.Time(unix ns), u8 uint8, B []byte,
#                  L buffer of that length, vs variadic strings, feat avfs.Features
# result kinds: err | s_err | s | ss | b | b_err | file_err | vfs_err | names_err | entries_err | bytes_err |
#               fi_err | n_err | i64_err | u8 | int | mode | feat | uptr ; "special" = hand-written below
VFS = [
    ("Abs", ["s"], "s_err"), ("Base", ["s"], "s"), ("Chdir", ["s"], "err"), ("Chmod", ["s", "m"], "err"),
    ("Chown", ["s", "i", "i"], "err"), ("Chtimes", ["s", "t", "t"], "err"), ("Clean", ["s"], "s"),
    ("Create", ["s"], "file_err"), ("CreateTemp", ["s", "s"], "file_err"), ("Dir", ["s"], "s"),
    ("EvalSymlinks", ["s"], "s_err"), ("Features", [], "feat"), ("FromSlash", ["s"], "s"), ("Getwd", [], "s_err"),
    ("Glob", ["s"], "names_err"), ("HasFeature", ["feat"], "b"), ("Idm", [], "special"), ("IsAbs", ["s"], "b"),
    ("IsPathSeparator", ["u8"], "b"), ("Join", ["vs"], "s"), ("Lchown", ["s", "i", "i"], "err"),
    ("Link", ["s", "s"], "err"), ("Lstat", ["s"], "fi_err"), ("Match", ["s", "s"], "b_err"),
    ("Mkdir", ["s", "m"], "err"), ("MkdirAll", ["s", "m"], "err"), ("MkdirTemp", ["s", "s"], "s_err"),
    ("Name", [], "s"), ("OSType", [], "int"), ("Open", ["s"], "file_err"), ("OpenFile", ["s", "i", "m"], "file_err"),
    ("PathSeparator", [], "u8"), ("ReadDir", ["s"], "entries_err"), ("ReadFile", ["s"], "bytes_err"),
    ("Readlink", ["s"], "s_err"), ("Rel", ["s", "s"], "s_err"), ("Remove", ["s"], "err"), ("RemoveAll", ["s"], "err"),
    ("Rename", ["s", "s"], "err"), ("SameFile", ["fi", "fi"], "special"), ("SetIdm", ["idm"], "special"),
    ("SetUMask", ["m"], "err"), ("SetUser", ["user"], "special"), ("SetUserByName", ["s"], "err"),
    ("Split", ["s"], "ss"), ("Stat", ["s"], "fi_err"), ("Sub", ["s"], "vfs_err"), ("Symlink", ["s", "s"], "err"),
    ("TempDir", [], "s"), ("ToSlash", ["s"], "s"), ("ToSysStat", ["fi"], "special"), ("Truncate", ["s", "i64"], "err"),
    ("Type", [], "s"), ("UMask", [], "mode"), ("User", [], "special"), ("WalkDir", ["s", "walkfn"], "special"),
    ("WriteFile", ["s", "B", "m"], "err"),
]
FILE = [
    ("Chdir", [], "err"), ("Chmod", ["m"], "err"), ("Chown", ["i", "i"], "err"), ("Close", [], "err"), ("Fd", [], "uptr"),
    ("Name", [], "s"), ("Read", ["L"], "special"), ("ReadAt", ["L", "i64"], "special"), ("ReadDir", ["i"], "entries_err"),
    ("Readdirnames", ["i"], "names_err"), ("Seek", ["i64", "i"], "i64_err"), ("Stat", [], "fi_err"), ("Sync", [], "err"),
    ("Truncate", ["i64"], "err"), ("Write", ["B"], "n_err"), ("WriteAt", ["B", "i64"], "n_err"), ("WriteString", ["s"], "n_err"),
]
# not recorded by the proxy (side-effect free getters and lexical functions the generic code calls freely)
GETTERS_V = {"Base", "Clean", "Dir", "FromSlash", "IsAbs", "IsPathSeparator", "Join", "Match", "Rel", "Split", "ToSlash",
             "PathSeparator", "TempDir", "OSType", "User", "UMask", "SameFile", "ToSysStat", "Features", "HasFeature",
             "Name", "Type", "Idm"}
GETTERS_F = {"Fd", "Name"}

GOTYPE = {"s": "string", "i": "int", "i64": "int64", "m": "fs.FileMode", "t": "time.Time", "u8": "uint8", "B": "[]byte",
          "L": "[]byte", "vs": "...string", "feat": "avfs.Features", "fi": "fs.FileInfo", "idm": "avfs.IdentityMgr",
          "user": "avfs.UserReader", "walkfn": "fs.WalkDirFunc"}
RESTYPE = {"err": "error", "s_err": "(string, error)", "s": "string", "ss": "(string, string)", "b": "bool",
           "b_err": "(bool, error)", "file_err": "(avfs.File, error)", "vfs_err": "(avfs.VFS, error)",
           "names_err": "([]string, error)", "entries_err": "([]fs.DirEntry, error)", "bytes_err": "([]byte, error)",
           "fi_err": "(fs.FileInfo, error)", "n_err": "(int, error)", "i64_err": "(int64, error)", "u8": "uint8",
           "int": "avfs.OSType", "mode": "fs.FileMode", "feat": "avfs.Features", "uptr": "uintptr"}
SPECIAL_RES = {"Idm": "avfs.IdentityMgr", "SameFile": "bool", "SetIdm": "error", "SetUser": "error",
               "ToSysStat": "avfs.SysStater", "User": "avfs.UserReader", "WalkDir": "error", "Read": "(int, error)",
               "ReadAt": "(int, error)"}


def argtok(kind, name):
    return {"s": "wrTokS(%s)", "i": "strconv.Itoa(%s)", "i64": "strconv.FormatInt(%s, 10)", "m": "strconv.Itoa(int(%s))",
            "t": "wrTimeTok(%s)", "u8": "strconv.Itoa(int(%s))", "B": "wrTokS(string(%s))",
            "L": "strconv.Itoa(len(%s))", "feat": "strconv.FormatUint(uint64(%s), 10)"}[kind] % name


def parse(kind, i):
    a = "a[%d]" % i
    return {"s": "wrStr(%s)" % a, "i": "wrInt(%s)" % a, "i64": "int64(wrInt(%s))" % a, "m": "fs.FileMode(wrInt(%s))" % a,
            "t": "wrTime(%s)" % a, "u8": "uint8(wrInt(%s))" % a, "B": "[]byte(wrStr(%s))" % a,
            "L": "make([]byte, wrInt(%s))" % a, "feat": "avfs.Features(wrInt(%s))" % a}[kind]


def canon(res):
    """Go expression list (val, err) from result variables r0, r1."""
    return {"err": ('"u"', "r0"), "s_err": ("wrValS(r0)", "r1"), "s": ("wrValS(r0)", "nil"),
            "ss": ('wrValS(r0 + "\\x00" + r1)', "nil"), "b": ("wrValB(r0)", "nil"), "b_err": ("wrValB(r0)", "r1"),
            "names_err": ("wrValNames(r0)", "r1"), "entries_err": ("wrValEntries(r0)", "r1"),
            "bytes_err": ("wrValBytes(r0)", "r1"), "fi_err": ("wrValInfo(r0)", "r1"), "n_err": ("wrValI(int64(r0))", "r1"),
            "i64_err": ("wrValI(r0)", "r1"), "u8": ("wrValI(int64(r0))", "nil"), "int": ("wrValI(int64(r0))", "nil"),
            "mode": ("wrValI(int64(r0))", "nil"), "feat": ("wrValI(int64(r0))", "nil"), "uptr": ("wrValI(int64(r0))", "nil")}[res]


def nres(res):
    return 2 if res in ("s_err", "ss", "b_err", "file_err", "vfs_err", "names_err", "entries_err", "bytes_err", "fi_err",
                        "n_err", "i64_err") else 1


out = []
w = out.append
w("// Code generated by harness/tools/mkwrapgo.py; DO NOT EDIT.\n")
w("package main\n")
w('import (\n\t"io/fs"\n\t"strconv"\n\t"time"\n\n\t"github.com/avfs/avfs"\n)\n')
w("var wrVFSMethods = []string{%s}\n" % ", ".join('"%s"' % m[0] for m in VFS + [("SetFeatures",)]))
w("var wrFileMethods = []string{%s}\n" % ", ".join('"%s"' % m[0] for m in FILE))

# ---------------- proxy
for typ, recv, methods, getters in (("recVFS", "p", VFS, GETTERS_V), ("recFile", "p", FILE, GETTERS_F)):
    for name, params, res in methods:
        pn = ["a%d" % i for i in range(len(params))]
        sig = ", ".join("%s %s" % (n, GOTYPE[k]) for n, k in zip(pn, params))
        rt = SPECIAL_RES.get(name) if res == "special" else RESTYPE[res]
        call = "p.b.%s(%s)" % (name, ", ".join(n + ("..." if k == "vs" else "") for n, k in zip(pn, params)))
        w("func (p *%s) %s(%s) %s {" % (typ, name, sig, rt))
        if name in getters:
            w("\treturn %s\n}\n" % call)
            continue
        if "vs" in params:
            args = "wrTokList(a0)"
        else:
            args = "[]string{%s}" % ", ".join(argtok(k, n) for n, k in zip(pn, params) if k not in ("fi", "idm", "user", "walkfn"))
        largs = {"SetIdm": "[]string{wrIdmTok(a0)}", "SetUser": "[]string{\"_\"}", "WalkDir": "[]string{wrTokS(a0)}"}.get(name, args)
        # a panic of the base is logged as its answer and passed on (the model then forwards it like any answer)
        w("\tdefer p.rec.panicLog(p.id, \"%s\", %s)" % (name, largs))
        if res == "special":
            if name == "SetIdm":
                w("\tr0 := %s\n\tp.rec.log(p.id, \"SetIdm\", []string{wrIdmTok(a0)}, wrAnsOf(\"u\", r0, -1))\n\treturn r0\n}\n" % call)
            elif name == "SetUser":
                w("\tr0 := %s\n\tp.rec.log(p.id, \"SetUser\", []string{\"_\"}, wrAnsOf(\"u\", r0, -1))\n\treturn r0\n}\n" % call)
            elif name == "WalkDir":
                w("\tvar seen []string\n\tr0 := p.b.WalkDir(a0, func(path string, d fs.DirEntry, err error) error {\n\t\tseen = append(seen, path)\n\t\treturn a1(path, d, err)\n\t})")
                w("\tp.rec.log(p.id, \"WalkDir\", []string{wrTokS(a0)}, wrAnsOf(wrValNames(seen), r0, -1))\n\treturn r0\n}\n")
            elif name in ("Read", "ReadAt"):
                w("\tr0, r1 := %s\n\tp.rec.log(p.id, \"%s\", %s, wrAnsOf(wrValBytes(a0[:r0]), r1, -1))\n\treturn r0, r1\n}\n" % (call, name, args))
            else:
                raise SystemExit("special " + name)
            continue
        if res in ("file_err", "vfs_err"):
            w("\tr0, r1 := %s" % call)
            w("\tif r1 != nil || wrIsNil(r0) {\n\t\tp.rec.log(p.id, \"%s\", %s, wrAnsOf(\"u\", r1, -1))\n\t\treturn r0, r1\n\t}" % (name, args))
            w("\tq := p.rec.wrap%s(r0)\n\tp.rec.log(p.id, \"%s\", %s, wrAnsOf(\"u\", nil, q.id))\n\treturn q, nil\n}\n"
              % ("File" if res == "file_err" else "VFS", name, args))
            continue
        n = nres(res)
        rv = ", ".join("r%d" % i for i in range(n))
        v, e = canon(res)
        w("\t%s := %s\n\tp.rec.log(p.id, \"%s\", %s, wrAnsOf(%s, %s, -1))\n\treturn %s\n}\n" % (rv, call, name, args, v, e, rv))
w("func (p *recVFS) SetFeatures(f avfs.Features) error { return nil }\n")

# ---------------- executors
for fname, typ, methods in (("wrExecVFS", "avfs.VFS", VFS), ("wrExecFile", "avfs.File", FILE)):
    w("// %s performs the textual call m(a...) on v.  ok=false: unknown method or malformed arguments." % fname)
    w("func %s(env *wrEnv, v %s, m string, a []string) (ans wrAns, obj any, ok bool) {" % (fname, typ))
    w("\tdefer func() {\n\t\tif r := recover(); r != nil {\n\t\t\tif _, bad := r.(wrBadArg); bad {\n\t\t\t\tok = false\n\t\t\t\treturn\n\t\t\t}\n\t\t\tans, obj, ok = wrAns{val: \"u\", err: \"P\" + wrHex(wrPanicText(r)), obj: -1}, nil, true\n\t\t}\n\t}()")
    w("\tswitch m {")
    for name, params, res in methods:
        w("\tcase \"%s\":" % name)
        if "vs" in params:
            w("\t\tr0 := v.Join(wrStrs(a)...)\n\t\treturn wrAnsOf(wrValS(r0), nil, -1), nil, true")
            continue
        need = len([k for k in params if k != "walkfn"])
        w("\t\tif len(a) != %d {\n\t\t\treturn wrAns{}, nil, false\n\t\t}" % need)
        if res == "special":
            if name == "Idm":
                w("\t\treturn wrAnsOf(wrValS(v.Idm().Type()), nil, -1), nil, true")
            elif name == "User":
                w("\t\treturn wrAnsOf(wrValUser(v.User()), nil, -1), nil, true")
            elif name == "SameFile":
                w("\t\treturn wrAnsOf(wrValB(v.SameFile(env.info(wrStr(a[0])), env.info(wrStr(a[1])))), nil, -1), nil, true")
            elif name == "ToSysStat":
                w("\t\tfi := env.info(wrStr(a[0]))\n\t\tif fi == nil {\n\t\t\treturn wrAnsOf(\"u\", nil, -1), nil, true\n\t\t}\n\t\treturn wrAnsOf(wrValSys(v.ToSysStat(fi)), nil, -1), nil, true")
            elif name == "SetIdm":
                w("\t\treturn wrAnsOf(\"u\", v.SetIdm(env.idm(wrInt(a[0]))), -1), nil, true")
            elif name == "SetUser":
                w("\t\treturn wrAnsOf(\"u\", v.SetUser(env.user(wrStr(a[0]))), -1), nil, true")
            elif name == "WalkDir":
                w("\t\tvar seen []string\n\t\tr0 := v.WalkDir(wrStr(a[0]), func(path string, d fs.DirEntry, err error) error {\n\t\t\tseen = append(seen, path)\n\t\t\treturn nil\n\t\t})\n\t\treturn wrAnsOf(wrValNames(seen), r0, -1), nil, true")
            elif name == "Read":
                w("\t\tb := make([]byte, wrInt(a[0]))\n\t\tr0, r1 := v.Read(b)\n\t\treturn wrAnsOf(wrValBytes(b[:r0]), r1, -1), nil, true")
            elif name == "ReadAt":
                w("\t\tb := make([]byte, wrInt(a[0]))\n\t\tr0, r1 := v.ReadAt(b, int64(wrInt(a[1])))\n\t\treturn wrAnsOf(wrValBytes(b[:r0]), r1, -1), nil, true")
            continue
        call = "v.%s(%s)" % (name, ", ".join(parse(k, i) for i, k in enumerate(params)))
        if res in ("file_err", "vfs_err"):
            w("\t\tr0, r1 := %s\n\t\tif r1 != nil || wrIsNil(r0) {\n\t\t\treturn wrAnsOf(\"u\", r1, -1), nil, true\n\t\t}\n\t\treturn wrAnsOf(\"u\", nil, -1), r0, true" % call)
            continue
        n = nres(res)
        rv = ", ".join("r%d" % i for i in range(n))
        v, e = canon(res)
        w("\t\t%s := %s\n\t\treturn wrAnsOf(%s, %s, -1), nil, true" % (rv, call, v, e))
    if fname == "wrExecVFS":
        w("\tcase \"SetFeatures\":\n\t\tif len(a) != 1 {\n\t\t\treturn wrAns{}, nil, false\n\t\t}\n\t\tif sf, is := v.(interface{ SetFeatures(avfs.Features) error }); is {\n\t\t\treturn wrAnsOf(\"u\", sf.SetFeatures(avfs.Features(wrInt(a[0]))), -1), nil, true\n\t\t}\n\t\treturn wrAns{}, nil, false")
    w("\t}\n\treturn wrAns{}, nil, false\n}\n")

path = os.path.join(os.path.dirname(os.path.abspath(__file__)), "..", "cmd", "avfscheck", "wrap_gen.go")
open(path, "w").write("\n".join(out))
print("wrote", os.path.normpath(path))
