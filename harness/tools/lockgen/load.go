// lockgen - regenerates the per-function lock/access summaries of memfs, orefafs and
// memidm (coq/theories/Conc/Gen_access.v) from the CURRENT Go source.
// Standard library only (go/ast, go/types, go/build, source importer).
package main

import (
	"fmt"
	"go/ast"
	"go/build"
	"go/importer"
	"go/parser"
	"go/token"
	"go/types"
	"path/filepath"
	"strings"
)

const rootPath = "github.com/avfs/avfs"

// the packages whose functions are summarised (import path -> short name used in ids)
var analysed = []string{rootPath + "/vfs/memfs", rootPath + "/vfs/orefafs", rootPath + "/idm/memidm"}

type pkgInfo struct {
	path  string
	pkg   *types.Package
	files []*ast.File
	info  *types.Info
}

type loader struct {
	repo   string
	fset   *token.FileSet
	std    types.ImporterFrom
	pkgs   map[string]*pkgInfo
	errors []string
}

func newLoader(repo string) *loader {
	fset := token.NewFileSet()
	return &loader{repo: repo, fset: fset, std: importer.ForCompiler(fset, "source", nil).(types.ImporterFrom), pkgs: map[string]*pkgInfo{}}
}

func (l *loader) Import(path string) (*types.Package, error) { return l.ImportFrom(path, "", 0) }

func (l *loader) ImportFrom(path, dir string, mode types.ImportMode) (*types.Package, error) {
	if path == rootPath || strings.HasPrefix(path, rootPath+"/") {
		if p, ok := l.pkgs[path]; ok {
			return p.pkg, nil
		}
		d := filepath.Join(l.repo, strings.TrimPrefix(path, rootPath))
		bp, err := build.Default.ImportDir(d, 0)
		if err != nil {
			return nil, err
		}
		var files []*ast.File
		for _, f := range bp.GoFiles {
			af, err := parser.ParseFile(l.fset, filepath.Join(d, f), nil, parser.ParseComments)
			if err != nil {
				return nil, err
			}
			files = append(files, af)
		}
		info := &types.Info{
			Types:      map[ast.Expr]types.TypeAndValue{},
			Defs:       map[*ast.Ident]types.Object{},
			Uses:       map[*ast.Ident]types.Object{},
			Selections: map[*ast.SelectorExpr]*types.Selection{},
			Implicits:  map[ast.Node]types.Object{},
			Instances:  map[*ast.Ident]types.Instance{},
		}
		cfg := types.Config{Importer: l, Error: func(e error) { l.errors = append(l.errors, e.Error()) }}
		p, _ := cfg.Check(path, l.fset, files, info)
		if p == nil {
			return nil, fmt.Errorf("type check of %s failed", path)
		}
		l.pkgs[path] = &pkgInfo{path: path, pkg: p, files: files, info: info}
		return p, nil
	}
	return l.std.ImportFrom(path, dir, mode)
}
