package main

import (
	"bufio"
	"encoding/json"
	"flag"
	"fmt"
	"go/ast"
	"go/types"
	"os"
	"sort"
	"strings"
)

func sortStrings(s []string) { sort.Strings(s) }

// ---------------------------------------------------------------- analysis driver

func newAnalyzer(l *loader) *analyzer {
	a := &analyzer{l: l, funcs: map[*types.Func]*funcDecl{}, byName: map[string]*Summary{}, inprog: map[*types.Func]bool{},
		done: map[string]*Summary{}, helpers: map[*types.Named]bool{}, apkgs: map[*types.Package]bool{}}
	for _, p := range analysed {
		a.apkgs[l.pkgs[p].pkg] = true
	}
	if rp, ok := l.pkgs[rootPath]; ok {
		a.rootPkg = rp.pkg
	}
	// root-package structs embedded (by value) in structs of the analysed packages
	for _, p := range analysed {
		sc := l.pkgs[p].pkg.Scope()
		for _, nm := range sc.Names() {
			tn, ok := sc.Lookup(nm).(*types.TypeName)
			if !ok {
				continue
			}
			st, ok := tn.Type().Underlying().(*types.Struct)
			if !ok {
				continue
			}
			for i := 0; i < st.NumFields(); i++ {
				f := st.Field(i)
				if !f.Embedded() {
					continue
				}
				if n, ok := f.Type().(*types.Named); ok && n.Obj().Pkg() == a.rootPkg {
					if _, isStruct := n.Underlying().(*types.Struct); isStruct {
						a.helpers[n] = true
					}
				}
			}
		}
	}
	// functions to analyse
	addPkg := func(pi *pkgInfo, filter func(fd *ast.FuncDecl, fn *types.Func) bool) {
		for _, f := range pi.files {
			for _, d := range f.Decls {
				fd, ok := d.(*ast.FuncDecl)
				if !ok || fd.Body == nil {
					continue
				}
				fn, ok := pi.info.Defs[fd.Name].(*types.Func)
				if !ok {
					continue
				}
				if filter != nil && !filter(fd, fn) {
					continue
				}
				a.funcs[fn] = &funcDecl{decl: fd, pi: pi, fn: fn}
			}
		}
	}
	for _, p := range analysed {
		addPkg(l.pkgs[p], nil)
	}
	if rp, ok := l.pkgs[rootPath]; ok {
		addPkg(rp, func(fd *ast.FuncDecl, fn *types.Func) bool {
			sig := fn.Type().(*types.Signature)
			if sig.Recv() == nil {
				return false
			}
			n, ok := deref(sig.Recv().Type()).(*types.Named)
			return ok && a.helpers[n]
		})
	}
	return a
}

func (a *analyzer) funcName(fn *types.Func) (name, recvTy string) {
	sig := fn.Type().(*types.Signature)
	p := a.pkgShort(fn.Pkg())
	if sig.Recv() != nil {
		if n, ok := deref(sig.Recv().Type()).(*types.Named); ok {
			return p + "." + n.Obj().Name() + "." + fn.Name(), p + "." + n.Obj().Name()
		}
	}
	return p + "." + fn.Name(), ""
}

func (a *analyzer) isHelperMethod(fn *types.Func) bool {
	sig := fn.Type().(*types.Signature)
	if sig.Recv() == nil {
		return false
	}
	n, ok := deref(sig.Recv().Type()).(*types.Named)
	return ok && a.helpers[n]
}

// analyze a function; methods of the configuration structs of package avfs are analysed once per
// type embedding them (qual), because their fields are locations of that type's objects.
func (a *analyzer) analyze(fn *types.Func, qual string) *Summary {
	fd, ok := a.funcs[fn]
	if !ok {
		return nil
	}
	name, recvTy := a.funcName(fn)
	if a.isHelperMethod(fn) {
		if qual == "" {
			qual = "?"
		}
		name = qual + ":" + name
	} else {
		qual = ""
	}
	if s, ok := a.done[name]; ok {
		return s
	}
	sum := &Summary{Name: name, Owner: name, RecvTy: recvTy}
	sum.Pos = fmt.Sprintf("%s", a.l.fset.Position(fd.decl.Pos()))
	a.done[name] = sum
	a.inprog[fn] = true
	sig := fn.Type().(*types.Signature)
	// exported entry point of one of the three packages
	if a.apkgs[fn.Pkg()] && fn.Exported() {
		if sig.Recv() == nil {
			sum.API = true
		} else if n, ok := deref(sig.Recv().Type()).(*types.Named); ok && n.Obj().Exported() {
			sum.API = true
		}
	}
	w := &walker{a: a, fd: fd, sum: sum, ver: map[string]int{}, qual: qual}
	s := &state{env: map[*types.Var]string{}, alias: map[*types.Var][2]string{}, memo: map[string]string{}}
	if fd.decl.Recv != nil && len(fd.decl.Recv.List) == 1 && len(fd.decl.Recv.List[0].Names) == 1 {
		id := fd.decl.Recv.List[0].Names[0]
		if v, ok := fd.pi.info.Defs[id].(*types.Var); ok && id.Name != "_" {
			if _, tr := a.tracked(v.Type()); tr {
				s.env[v] = id.Name
				sum.Recv = id.Name
				sum.Formals = append(sum.Formals, id.Name)
			}
		}
	}
	for _, f := range fd.decl.Type.Params.List {
		for _, id := range f.Names {
			if v, ok := fd.pi.info.Defs[id].(*types.Var); ok && id.Name != "_" {
				if _, tr := a.tracked(v.Type()); tr {
					s.env[v] = id.Name
					sum.Formals = append(sum.Formals, id.Name)
				}
			}
		}
	}
	outs := w.block(fd.decl.Body.List, []*state{s})
	for _, o := range outs {
		// falling off the end: named results (if any) are returned
		var fr []bool
		if fd.decl.Type.Results != nil {
			for _, ob := range w.namedResults(o) {
				fr = append(fr, isFresh(ob))
			}
		}
		w.retFresh = append(w.retFresh, fr)
		w.finish(o, nil)
	}
	seen := map[string]bool{}
	for _, p := range w.finished {
		k := pathKey(p)
		if !seen[k] {
			seen[k] = true
			sum.Paths = append(sum.Paths, p)
		}
	}
	// constructor results
	if sig.Results().Len() > 0 && len(w.retFresh) > 0 {
		sum.retFresh = make([]bool, sig.Results().Len())
		for i := range sum.retFresh {
			all := true
			some := false
			for _, fr := range w.retFresh {
				if i >= len(fr) {
					all = false
					break
				}
				if !fr[i] {
					all = false
				}
				some = true
			}
			sum.retFresh[i] = all && some
		}
	}
	// lock wrapper: a single path of lock operations on formals only
	if len(sum.Paths) == 1 && len(sum.Paths[0]) > 0 {
		lw := true
		for _, it := range sum.Paths[0] {
			if it.Kind != "acq" && it.Kind != "rel" {
				lw = false
			}
		}
		sum.lockWrapper = lw
	}
	delete(a.inprog, fn)
	a.order = append(a.order, sum.Name)
	a.byName[sum.Name] = sum
	for _, ls := range w.loops {
		a.order = append(a.order, ls.Name)
		a.byName[ls.Name] = ls
	}
	return sum
}

// ---------------------------------------------------------------- classes, borrowed requirements

type classInfo struct {
	Class string `json:"class"` // guard:<lock> owned immutable atomic
}

const ownLock = "own"
const unsharedLock = "unshared"

func need(classes map[string]string, acc, field string) (kind, lock, mode string) {
	c, ok := classes[field]
	if !ok {
		return "never", "", ""
	}
	switch {
	case strings.HasPrefix(c, "guard:"):
		lk := strings.TrimPrefix(c, "guard:")
		switch acc {
		case "r":
			return "need", lk, "R"
		case "w":
			return "need", lk, "W"
		}
		return "never", "", ""
	case c == "owned":
		switch acc {
		case "r":
			return "need", ownLock, "R"
		case "w":
			return "need", ownLock, "W"
		}
		return "never", "", ""
	case c == "immutable":
		switch acc {
		case "r":
			return "free", "", ""
		case "w":
			return "need", unsharedLock, "W"
		}
		return "never", "", ""
	case c == "atomic":
		switch acc {
		case "a":
			return "free", "", ""
		case "r":
			return "need", ownLock, "R"
		case "w":
			return "need", unsharedLock, "W"
		}
		return "never", "", ""
	}
	return "never", "", ""
}

type hold struct{ obj, lock, mode string }

func holds(H []hold, obj, lock, mode string) bool {
	for _, h := range H {
		if h.obj == obj && h.lock == lock && (h.mode == "W" || (mode == "R" && h.mode == "R")) {
			return true
		}
	}
	return false
}

func remove1(H []hold, x hold) ([]hold, bool) {
	for i, h := range H {
		if h == x {
			out := append([]hold(nil), H[:i]...)
			return append(out, H[i+1:]...), true
		}
	}
	return H, false
}

type failure struct {
	Fn    string `json:"fn"`
	What  string `json:"what"`
	Pos   string `json:"pos"`
	Known bool   `json:"known"`
}

func (a *analyzer) structOfField(field string) *types.Named {
	if j := strings.Index(field, ":"); j >= 0 {
		field = field[j+1:]
	}
	i := strings.LastIndex(field, ".")
	if i < 0 {
		return nil
	}
	tn := field[:i]
	j := strings.Index(tn, ".")
	if j < 0 {
		return nil
	}
	pk, nm := tn[:j], tn[j+1:]
	for _, pi := range a.l.pkgs {
		if pi.pkg.Name() == pk {
			if o, ok := pi.pkg.Scope().Lookup(nm).(*types.TypeName); ok {
				if n, ok := o.Type().(*types.Named); ok {
					return n
				}
			}
		}
	}
	return nil
}

func (a *analyzer) mutexesOf(n *types.Named) []string {
	var out []string
	st, ok := n.Underlying().(*types.Struct)
	if !ok {
		return nil
	}
	for i := 0; i < st.NumFields(); i++ {
		f := st.Field(i)
		if isMutex(f.Type()) {
			out = append(out, a.typeID(n)+"."+f.Name())
		} else if f.Embedded() {
			if en, tr := a.tracked(f.Type()); tr {
				if _, isPtr := f.Type().Underlying().(*types.Pointer); !isPtr {
					out = append(out, a.mutexesOf(en)...)
				}
			}
		}
	}
	return out
}

func (a *analyzer) embedders(n *types.Named) []*types.Named {
	var out []*types.Named
	for _, pi := range a.l.pkgs {
		sc := pi.pkg.Scope()
		for _, nm := range sc.Names() {
			tn, ok := sc.Lookup(nm).(*types.TypeName)
			if !ok {
				continue
			}
			t, ok := tn.Type().(*types.Named)
			if !ok {
				continue
			}
			st, ok := t.Underlying().(*types.Struct)
			if !ok {
				continue
			}
			for i := 0; i < st.NumFields(); i++ {
				f := st.Field(i)
				if f.Embedded() && types.Identical(f.Type(), n) {
					out = append(out, t)
				}
			}
		}
	}
	return out
}

func (a *analyzer) inferClasses() map[string]string {
	accs := map[string]map[string]bool{}
	lockStat := map[string]map[string]int{}
	for _, nm := range a.order {
		s := a.byName[nm]
		for _, p := range s.Paths {
			var H []hold
			for _, it := range p {
				switch it.Kind {
				case "acq":
					H = append(H, hold{it.Obj, it.Lock, it.Mode})
				case "rel":
					H, _ = remove1(H, hold{it.Obj, it.Lock, it.Mode})
				case "acc":
					if accs[it.Field] == nil {
						accs[it.Field] = map[string]bool{}
						lockStat[it.Field] = map[string]int{}
					}
					accs[it.Field][it.Acc] = true
					for _, h := range H {
						// a lock held only for reading cannot be what guards a store (AddUser holds
						// grpMu.R and usrMu.W around maxUid++: the guard of maxUid is usrMu)
						if h.obj == it.Obj && !(it.Acc == "w" && h.mode != "W") {
							lockStat[it.Field][h.lock]++
						}
					}
				}
			}
		}
	}
	// a field counts as written only if a plain store can reach an object that is not being
	// constructed: stores on formals are followed up the call graph, stores on new objects dropped
	eff := a.effectiveWrites()
	for f, ac := range accs {
		ac["w"] = eff[f]
	}
	classes := map[string]string{}
	for f, ac := range accs {
		n := a.structOfField(strings.TrimSuffix(f, "*"))
		qualT := ""
		if i := strings.Index(f, ":"); i >= 0 {
			qualT = f[:i]
		}
		switch {
		case ac["a"]:
			classes[f] = "atomic"
		case qualT != "" && ownable[qualT] && ac["w"]:
			// configuration of a per-goroutine view
			classes[f] = "owned"
		case qualT != "":
			// configuration of a shared object: nothing guards it, writes are reported
			classes[f] = "immutable"
		case !ac["w"]:
			classes[f] = "immutable"
		default:
			var cands []string
			if n != nil {
				cands = a.mutexesOf(n)
				if len(cands) == 0 {
					for _, e := range a.embedders(n) {
						cands = append(cands, a.mutexesOf(e)...)
					}
				}
			}
			switch len(cands) {
			case 0:
				classes[f] = "immutable" // written but nothing could guard it: the writes are reported
			case 1:
				classes[f] = "guard:" + cands[0]
			default:
				best := cands[0]
				for _, c := range cands[1:] {
					if lockStat[f][c] > lockStat[f][best] {
						best = c
					}
				}
				classes[f] = "guard:" + best
			}
		}
	}
	return classes
}

// one pass of the checker over a summary; grows Borrowed; returns the failures
func (a *analyzer) simulate(s *Summary, classes map[string]string, record bool) (changed bool, fails []failure) {
	formal := map[string]bool{}
	for _, f := range s.Formals {
		formal[f] = true
	}
	borrowed := func(obj, lock, mode, field string) bool {
		for _, b := range s.Borrowed {
			if b.Obj == obj && b.Lock == lock && b.Field == field && (b.Mode == "W" || mode == "R") {
				return true
			}
		}
		return false
	}
	addBorrowed := func(obj, lock, mode, field string) {
		for i, b := range s.Borrowed {
			if b.Obj == obj && b.Lock == lock && b.Field == field {
				if b.Mode == "R" && mode == "W" {
					s.Borrowed[i].Mode = "W"
					changed = true
				}
				return
			}
		}
		s.Borrowed = append(s.Borrowed, Bentry{obj, lock, mode, field})
		changed = true
	}
	heldAnyMode := func(H []hold, obj, lock string) bool {
		for _, h := range H {
			if h.obj == obj && h.lock == lock {
				return true
			}
		}
		return false
	}
	require := func(H []hold, obj, lock, mode, field, pos string) {
		if isFresh(obj) || holds(H, obj, lock, mode) || borrowed(obj, lock, mode, field) {
			return
		}
		// the function holds the lock itself, but only for reading: nothing a caller could provide
		if formal[obj] && !heldAnyMode(H, obj, lock) {
			addBorrowed(obj, lock, mode, field)
			return
		}
		if record {
			fails = append(fails, failure{Fn: s.Owner, What: field, Pos: pos})
		}
	}
	for _, p := range s.Paths {
		var H []hold
		for _, it := range p {
			switch it.Kind {
			case "acq":
				H = append(H, hold{it.Obj, it.Lock, it.Mode})
			case "rel":
				var ok bool
				H, ok = remove1(H, hold{it.Obj, it.Lock, it.Mode})
				if !ok && record {
					fails = append(fails, failure{Fn: s.Owner, What: "release-not-held:" + it.Obj + "." + it.Lock, Pos: it.Pos})
				}
			case "acc":
				if isFresh(it.Obj) {
					continue
				}
				k, lk, m := need(classes, it.Acc, it.Field)
				switch k {
				case "never":
					if record {
						fails = append(fails, failure{Fn: s.Owner, What: it.Field, Pos: it.Pos})
					}
				case "need":
					require(H, it.Obj, lk, m, it.Field, it.Pos)
				}
			case "call":
				c := a.byName[it.Callee]
				if c == nil {
					if record {
						fails = append(fails, failure{Fn: s.Owner, What: "unknown-callee:" + it.Callee, Pos: it.Pos})
					}
					continue
				}
				sg := map[string]string{}
				for _, p := range it.Sigma {
					if _, dup := sg[p[0]]; !dup {
						sg[p[0]] = p[1]
					}
				}
				for _, b := range c.Borrowed {
					act, ok := sg[b.Obj]
					if !ok {
						if record {
							fails = append(fails, failure{Fn: s.Owner, What: b.Field, Pos: it.Pos})
						}
						continue
					}
					require(H, act, b.Lock, b.Mode, b.Field, it.Pos)
				}
			case "unknown":
				if record {
					fails = append(fails, failure{Fn: s.Owner, What: "unknown:" + it.Why, Pos: it.Pos})
				}
			}
		}
		if len(H) != 0 && record {
			fails = append(fails, failure{Fn: s.Owner, What: "unbalanced:" + H[0].obj + "." + H[0].lock, Pos: s.Pos})
		}
	}
	return
}

var ownable = map[string]bool{"memfs.MemFS": true, "memfs.MemIOFS": true}

// ---------------------------------------------------------------- output

func q(s string) string { return `"` + strings.ReplaceAll(s, `"`, `""`) + `"` }

func coqItem(it Item) string {
	switch it.Kind {
	case "acq":
		return fmt.Sprintf("IEv (SAcq %s %s %s)", q(it.Obj), q(it.Lock), it.Mode)
	case "rel":
		return fmt.Sprintf("IEv (SRel %s %s %s)", q(it.Obj), q(it.Lock), it.Mode)
	case "acc":
		a := map[string]string{"r": "ARd", "w": "AWr", "a": "AAt"}[it.Acc]
		return fmt.Sprintf("IEv (SAcc %s %s %s)", a, q(it.Obj), q(it.Field))
	case "call":
		var sg []string
		for _, p := range it.Sigma {
			sg = append(sg, "("+q(p[0])+", "+q(p[1])+")")
		}
		st := "false"
		if it.Star {
			st = "true"
		}
		return fmt.Sprintf("ICall %s %s [%s]", st, q(it.Callee), strings.Join(sg, "; "))
	}
	return "IUnknown " + q(it.Why)
}

type kfEntry struct {
	Property string `json:"property"`
	ID       string `json:"id"`
	Status   string `json:"status"`
	Function string `json:"function"`
	Field    string `json:"field"`
}

func readKF(path string) [][2]string {
	var out [][2]string
	if path == "" {
		return nil
	}
	f, err := os.Open(path)
	if err != nil {
		return nil
	}
	defer f.Close()
	sc := bufio.NewScanner(f)
	sc.Buffer(make([]byte, 1<<20), 1<<20)
	for sc.Scan() {
		line := strings.TrimSpace(sc.Text())
		if !strings.HasPrefix(line, "{") {
			continue
		}
		var e kfEntry
		if json.Unmarshal([]byte(line), &e) != nil {
			continue
		}
		if e.Property == "C08" && (e.Status == "" || e.Status == "open") && e.Function != "" && e.Field != "" {
			out = append(out, [2]string{e.Function, e.Field})
		}
	}
	return out
}

func main() {
	repo := flag.String("repo", "/repo", "avfs source tree")
	out := flag.String("out", "", "Gen_access.v to write")
	js := flag.String("json", "", "side report (JSON)")
	kfp := flag.String("kf", "", "known_findings.jsonl")
	flag.Parse()

	l := newLoader(*repo)
	for _, p := range analysed {
		if _, err := l.Import(p); err != nil {
			fmt.Fprintln(os.Stderr, "lockgen: cannot load", p, err)
			os.Exit(2)
		}
	}
	if len(l.errors) > 0 {
		fmt.Fprintln(os.Stderr, "lockgen: type errors:", strings.Join(l.errors, "; "))
		os.Exit(2)
	}
	a := newAnalyzer(l)
	// deterministic order: by package, file position
	var fns []*funcDecl
	for _, fd := range a.funcs {
		fns = append(fns, fd)
	}
	sort.Slice(fns, func(i, j int) bool {
		pi, pj := l.fset.Position(fns[i].decl.Pos()), l.fset.Position(fns[j].decl.Pos())
		if pi.Filename != pj.Filename {
			return pi.Filename < pj.Filename
		}
		return pi.Offset < pj.Offset
	})
	for _, fd := range fns {
		if !a.isHelperMethod(fd.fn) {
			a.analyze(fd.fn, "")
		}
	}
	a.wrappers()
	classes := a.inferClasses()
	// borrowed requirements: least fixpoint
	for iter := 0; iter < 50; iter++ {
		ch := false
		for _, nm := range a.order {
			c, _ := a.simulate(a.byName[nm], classes, false)
			ch = ch || c
		}
		if !ch {
			break
		}
	}
	known := readKF(*kfp)
	isKnown := func(fn, what string) bool {
		for _, k := range known {
			if k[0] == fn && k[1] == what {
				return true
			}
		}
		return false
	}
	var fails []failure
	seenF := map[string]bool{}
	addFail := func(f failure) {
		k := f.Fn + "|" + f.What
		if seenF[k] {
			return
		}
		seenF[k] = true
		f.Known = isKnown(f.Fn, f.What)
		fails = append(fails, f)
	}
	var emitted []*Summary
	for _, nm := range a.order {
		s := a.byName[nm]
		if s.lockWrapper {
			continue
		}
		emitted = append(emitted, s)
		_, fs := a.simulate(s, classes, true)
		for _, f := range fs {
			addFail(f)
		}
		if s.API {
			for _, b := range s.Borrowed {
				if ownable[s.RecvTy] && b.Obj == s.Recv && b.Lock == ownLock {
					continue
				}
				addFail(failure{Fn: s.Owner, What: b.Field, Pos: strings.TrimPrefix(s.Pos, *repo+"/")})
			}
		}
	}

	// ---- Coq
	var b strings.Builder
	b.WriteString("(* GENERATED by harness/tools/lockgen from the Go source of memfs, orefafs, memidm\n   (and the configuration helper structs of package avfs they embed) - do not edit.\n   Per-function lock/access summaries, field classes, open known findings. *)\n")
	b.WriteString("From Coq Require Import List String.\nFrom Avfs Require Import Lockset Discipline.\nImport ListNotations.\nOpen Scope string_scope.\n\n")
	var fields []string
	for f := range classes {
		fields = append(fields, f)
	}
	sort.Strings(fields)
	b.WriteString("Definition tbl : list (field * cls) := [\n")
	for i, f := range fields {
		c := classes[f]
		cc := ""
		switch {
		case strings.HasPrefix(c, "guard:"):
			cc = "CGuard " + q(strings.TrimPrefix(c, "guard:"))
		case c == "owned":
			cc = "COwned"
		case c == "immutable":
			cc = "CImmutable"
		case c == "atomic":
			cc = "CAtomic"
		}
		sep := ";"
		if i == len(fields)-1 {
			sep = ""
		}
		fmt.Fprintf(&b, "  (%s, %s)%s\n", q(f), cc, sep)
	}
	b.WriteString("].\n\nDefinition known : list (string * field) := [\n")
	for i, k := range known {
		sep := ";"
		if i == len(known)-1 {
			sep = ""
		}
		fmt.Fprintf(&b, "  (%s, %s)%s\n", q(k[0]), q(k[1]), sep)
	}
	b.WriteString("].\n\n")
	var names []string
	npaths, nitems := 0, 0
	for i, s := range emitted {
		id := fmt.Sprintf("s_%04d", i)
		names = append(names, id)
		fmt.Fprintf(&b, "(* %s  %s *)\nDefinition %s : summary := {|\n  s_name := %s; s_owner := %s; s_api := %v; s_recv := %s; s_recvty := %s;\n  s_borrowed := [", s.Name, strings.TrimPrefix(s.Pos, *repo+"/"), id, q(s.Name), q(s.Owner), s.API, q(s.Recv), q(s.RecvTy))
		for j, be := range s.Borrowed {
			if j > 0 {
				b.WriteString("; ")
			}
			fmt.Fprintf(&b, "(%s, %s, %s, %s)", q(be.Obj), q(be.Lock), be.Mode, q(be.Field))
		}
		b.WriteString("];\n  s_paths := [\n")
		for j, p := range s.Paths {
			npaths++
			b.WriteString("    [")
			for k, it := range p {
				nitems++
				if k > 0 {
					b.WriteString("; ")
				}
				b.WriteString(coqItem(it))
			}
			b.WriteString("]")
			if j < len(s.Paths)-1 {
				b.WriteString(";")
			}
			b.WriteString("\n")
		}
		b.WriteString("  ] |}.\n\n")
	}
	b.WriteString("Definition summaries : list summary := [\n  " + strings.Join(names, "; ") + "\n].\n")
	if *out != "" {
		old, _ := os.ReadFile(*out)
		if string(old) != b.String() {
			if err := os.WriteFile(*out, []byte(b.String()), 0o644); err != nil {
				fmt.Fprintln(os.Stderr, "lockgen:", err)
				os.Exit(2)
			}
		}
	}

	// ---- side report
	type sumRep struct {
		Name     string   `json:"name"`
		Owner    string   `json:"owner"`
		API      bool     `json:"api"`
		Paths    int      `json:"paths"`
		Pos      string   `json:"pos"`
		Borrowed []Bentry `json:"borrowed,omitempty"`
	}
	// call graph: which entry points reach which function, which entry points touch which field
	callees := map[string]map[string]bool{}
	touch := map[string]map[string]string{}
	for _, s := range emitted {
		if callees[s.Owner] == nil {
			callees[s.Owner] = map[string]bool{}
			touch[s.Owner] = map[string]string{}
		}
		for _, p := range s.Paths {
			for _, it := range p {
				if it.Kind == "call" {
					if c := a.byName[it.Callee]; c != nil && c.Owner != s.Owner {
						callees[s.Owner][c.Owner] = true
					}
				}
				if it.Kind == "acc" {
					if it.Acc == "w" || touch[s.Owner][it.Field] == "" {
						touch[s.Owner][it.Field] = it.Acc
					}
				}
			}
		}
	}
	reach := func(root string) map[string]bool {
		seen := map[string]bool{root: true}
		st := []string{root}
		for len(st) > 0 {
			x := st[len(st)-1]
			st = st[:len(st)-1]
			for c := range callees[x] {
				if !seen[c] {
					seen[c] = true
					st = append(st, c)
				}
			}
		}
		return seen
	}
	apiReach := map[string][]string{}            // function -> entry points that reach it
	apiTouch := map[string]map[string][]string{} // field -> "r"/"w" -> entry points
	var reps []sumRep
	napi := 0
	for _, s := range emitted {
		reps = append(reps, sumRep{s.Name, s.Owner, s.API, len(s.Paths), strings.TrimPrefix(s.Pos, *repo+"/"), s.Borrowed})
		if !s.API {
			continue
		}
		napi++
		for fn := range reach(s.Owner) {
			apiReach[fn] = append(apiReach[fn], s.Owner)
			for f, acc := range touch[fn] {
				if apiTouch[f] == nil {
					apiTouch[f] = map[string][]string{}
				}
				k := "r"
				if acc == "w" {
					k = "w"
				}
				if !contains(apiTouch[f][k], s.Owner) {
					apiTouch[f][k] = append(apiTouch[f][k], s.Owner)
				}
			}
		}
	}
	for _, v := range apiReach {
		sort.Strings(v)
	}
	sort.Slice(fails, func(i, j int) bool {
		if fails[i].Fn != fails[j].Fn {
			return fails[i].Fn < fails[j].Fn
		}
		return fails[i].What < fails[j].What
	})
	rep := map[string]interface{}{
		"repo": *repo, "summaries": reps, "classes": classes, "failures": fails, "known": known,
		"api_reach": apiReach, "api_touch": apiTouch,
		"stats": map[string]int{"functions": len(emitted), "api": napi, "paths": npaths, "items": nitems, "fields": len(classes), "unknown_items": a.unknowns},
	}
	if *js != "" {
		data, _ := json.MarshalIndent(rep, "", " ")
		_ = os.WriteFile(*js, data, 0o644)
	}
	nunk := 0
	for _, f := range fails {
		if !f.Known {
			nunk++
		}
	}
	fmt.Printf("lockgen: %d summaries (%d entry points), %d paths, %d items, %d fields, %d undisciplined (function, field) pairs of which %d not listed\n",
		len(emitted), napi, npaths, nitems, len(classes), len(fails), nunk)
}

func contains(l []string, x string) bool {
	for _, y := range l {
		if y == x {
			return true
		}
	}
	return false
}

// wrappers: the methods of the public interfaces (avfs.VFS, avfs.IdentityMgr) that a type gets from an
// embedded configuration struct (SetUser, SetIdm, UMask ...) are entry points of that type too.
func (a *analyzer) wrappers() {
	if a.rootPkg == nil {
		return
	}
	var ifaces []*types.Interface
	for _, nm := range []string{"VFS", "IdentityMgr", "File"} {
		if o, ok := a.rootPkg.Scope().Lookup(nm).(*types.TypeName); ok {
			if it, ok := o.Type().Underlying().(*types.Interface); ok {
				ifaces = append(ifaces, it)
			}
		}
	}
	for _, p := range analysed {
		pk := a.l.pkgs[p].pkg
		names := pk.Scope().Names()
		sort.Strings(names)
		for _, nm := range names {
			tn, ok := pk.Scope().Lookup(nm).(*types.TypeName)
			if !ok || !tn.Exported() {
				continue
			}
			T, ok := tn.Type().(*types.Named)
			if !ok {
				continue
			}
			if _, ok := T.Underlying().(*types.Struct); !ok {
				continue
			}
			pt := types.NewPointer(T)
			for _, it := range ifaces {
				if !types.Implements(pt, it) {
					continue
				}
				for i := 0; i < it.NumMethods(); i++ {
					mname := it.Method(i).Name()
					obj, index, _ := types.LookupFieldOrMethod(pt, true, pk, mname)
					fn, ok := obj.(*types.Func)
					if !ok || !a.isHelperMethod(fn) || len(index) != 2 {
						continue // declared by the type itself, or inherited through another analysed struct
					}
					callee := a.analyze(fn, a.typeID(T))
					if callee == nil {
						continue
					}
					fd := a.funcs[fn]
					name := a.typeID(T) + "." + mname
					if _, dup := a.byName[name]; dup {
						continue
					}
					s := &Summary{Name: name, Owner: name, API: true, Recv: "recv", RecvTy: a.typeID(T), Formals: []string{"recv"}, Pos: callee.Pos}
					var sigma [][2]string
					if fd.decl.Recv != nil && len(fd.decl.Recv.List) == 1 && len(fd.decl.Recv.List[0].Names) == 1 {
						sigma = append(sigma, [2]string{fd.decl.Recv.List[0].Names[0].Name, "recv"})
					}
					s.Paths = [][]Item{{Item{Kind: "call", Callee: callee.Name, Sigma: sigma, Pos: callee.Pos}}}
					a.order = append(a.order, name)
					a.byName[name] = s
				}
			}
		}
	}
}

// effectiveWrites: fields stored to on an object that is neither new nor (transitively) a formal
// bound only to new objects; entry points' formals count as shared.
func (a *analyzer) effectiveWrites() map[string]bool {
	type ow struct{ obj, field string }
	wr := map[string]map[ow]bool{} // summary -> (formal, field) stores that depend on the caller
	res := map[string]bool{}
	isFormal := func(s *Summary, o string) bool {
		for _, f := range s.Formals {
			if f == o {
				return true
			}
		}
		return false
	}
	for changed := true; changed; {
		changed = false
		for _, nm := range a.order {
			s := a.byName[nm]
			if wr[nm] == nil {
				wr[nm] = map[ow]bool{}
			}
			note := func(obj, field string) {
				if obj == "" || isFresh(obj) {
					return
				}
				if isFormal(s, obj) && !s.API {
					if !wr[nm][ow{obj, field}] {
						wr[nm][ow{obj, field}] = true
						changed = true
					}
					return
				}
				if !res[field] {
					res[field] = true
					changed = true
				}
			}
			for _, p := range s.Paths {
				for _, it := range p {
					switch it.Kind {
					case "acc":
						if it.Acc == "w" {
							note(it.Obj, it.Field)
						}
					case "call":
						sg := map[string]string{}
						for _, q := range it.Sigma {
							if _, dup := sg[q[0]]; !dup {
								sg[q[0]] = q[1]
							}
						}
						for k := range wr[it.Callee] {
							if act, ok := sg[k.obj]; ok {
								note(act, k.field)
							}
						}
					}
				}
			}
		}
	}
	return res
}
