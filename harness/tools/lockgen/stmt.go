package main

import (
	"fmt"
	"go/ast"
	"go/token"
	"go/types"
)

// ---------------------------------------------------------------- statements

func (w *walker) block(list []ast.Stmt, in []*state) []*state {
	cur := in
	for _, st := range list {
		if len(cur) == 0 {
			return nil
		}
		cur = w.stmt(st, cur)
		if len(cur) > maxStates {
			// fail closed on path explosion
			s := cur[0]
			w.unknown(s, st.Pos(), "too many paths")
			cur = []*state{s}
		}
	}
	return cur
}

func (w *walker) simple(in []*state, f func(s *state)) []*state {
	var out []*state
	for _, s := range in {
		out = append(out, w.forEachChoice(s, f)...)
	}
	return dedupe(out)
}

func (w *walker) stmt(st ast.Stmt, in []*state) []*state {
	switch x := st.(type) {
	case nil:
		return in
	case *ast.EmptyStmt:
		return in
	case *ast.BlockStmt:
		return w.block(x.List, in)
	case *ast.ExprStmt:
		if c, ok := unparen(x.X).(*ast.CallExpr); ok {
			if id, ok := unparen(c.Fun).(*ast.Ident); ok {
				if b, ok := w.info().Uses[id].(*types.Builtin); ok && b.Name() == "panic" {
					outs := w.simple(in, func(s *state) { w.evalArgs(s, c.Args) })
					for _, s := range outs {
						w.finish(s, nil)
					}
					return nil
				}
			}
		}
		return w.simple(in, func(s *state) { w.expr(s, x.X) })
	case *ast.IncDecStmt:
		return w.simple(in, func(s *state) { w.lvalue(s, x.X, true) })
	case *ast.AssignStmt:
		return w.simple(in, func(s *state) { w.assign(s, x.Lhs, x.Rhs, x.Tok) })
	case *ast.DeclStmt:
		gd, ok := x.Decl.(*ast.GenDecl)
		if !ok || gd.Tok != token.VAR {
			return in
		}
		return w.simple(in, func(s *state) {
			for _, sp := range gd.Specs {
				vs := sp.(*ast.ValueSpec)
				var lhs []ast.Expr
				for _, n := range vs.Names {
					lhs = append(lhs, n)
				}
				if len(vs.Values) > 0 {
					w.assign(s, lhs, vs.Values, token.DEFINE)
				} else {
					for _, n := range vs.Names {
						if v := w.varOf(n); v != nil {
							if _, tr := w.a.tracked(v.Type()); tr {
								if _, isPtr := v.Type().Underlying().(*types.Pointer); isPtr {
									s.env[v] = w.newName(v.Name(), false)
								} else if _, isIf := v.Type().Underlying().(*types.Interface); isIf {
									s.env[v] = w.newName(v.Name(), false)
								} else {
									s.env[v] = w.newName(v.Name(), true) // a local struct value
								}
							}
						}
					}
				}
			}
		})
	case *ast.ReturnStmt:
		outs := w.simple(in, func(s *state) {
			var objs []string
			for _, r := range x.Results {
				if c, ok := unparen(r).(*ast.CallExpr); ok && len(x.Results) == 1 {
					objs = w.callResults(s, c)
				} else {
					objs = append(objs, w.expr(s, r))
				}
			}
			if len(x.Results) == 0 {
				objs = w.namedResults(s)
			}
			var fr []bool
			for i, o := range objs {
				fr = append(fr, isFresh(o) || w.isNilResult(x, i))
			}
			w.retFresh = append(w.retFresh, fr)
		})
		for _, s := range outs {
			w.finish(s, nil)
		}
		return nil
	case *ast.DeferStmt:
		return w.simple(in, func(s *state) { w.deferStmt(s, x) })
	case *ast.IfStmt:
		return w.ifStmt(x, in)
	case *ast.SwitchStmt:
		return w.switchStmt(x, in)
	case *ast.TypeSwitchStmt:
		return w.typeSwitchStmt(x, in)
	case *ast.ForStmt:
		var out []*state
		for _, s := range in {
			out = append(out, w.loop(s, x.Init, x.Cond, x.Post, x.Body, nil)...)
		}
		return dedupe(out)
	case *ast.RangeStmt:
		var out []*state
		for _, s := range in {
			out = append(out, w.loop(s, nil, nil, nil, x.Body, x)...)
		}
		return dedupe(out)
	case *ast.BranchStmt:
		if x.Label != nil || len(w.frames) == 0 {
			for _, s := range in {
				w.unknown(s, x.Pos(), "labelled branch or branch outside a loop")
			}
			return in
		}
		fr := w.frames[len(w.frames)-1]
		switch x.Tok {
		case token.BREAK:
			// innermost switch or loop
			fr.breaks = append(fr.breaks, in...)
			return nil
		case token.CONTINUE:
			// innermost loop
			for i := len(w.frames) - 1; i >= 0; i-- {
				if !w.frames[i].isSwitch {
					w.frames[i].continues = append(w.frames[i].continues, in...)
					return nil
				}
			}
		}
		for _, s := range in {
			w.unknown(s, x.Pos(), "branch statement "+x.Tok.String())
		}
		return in
	case *ast.LabeledStmt:
		for _, s := range in {
			w.unknown(s, x.Pos(), "labelled statement")
		}
		return w.stmt(x.Stmt, in)
	case *ast.GoStmt, *ast.SelectStmt, *ast.SendStmt:
		for _, s := range in {
			w.unknown(s, st.Pos(), fmt.Sprintf("statement %T", st))
		}
		return in
	}
	for _, s := range in {
		w.unknown(s, st.Pos(), fmt.Sprintf("statement %T", st))
	}
	return in
}

func (w *walker) isNilResult(r *ast.ReturnStmt, i int) bool {
	if i < len(r.Results) {
		if id, ok := unparen(r.Results[i]).(*ast.Ident); ok && id.Name == "nil" {
			return true
		}
		if tv, ok := w.info().Types[r.Results[i]]; ok && tv.IsNil() {
			return true
		}
		// typed nil conversion (*T)(nil)
		e := stripConv(w, r.Results[i])
		if id, ok := e.(*ast.Ident); ok && id.Name == "nil" {
			return true
		}
	}
	return false
}

func (w *walker) namedResults(s *state) []string {
	var objs []string
	res := w.fd.decl.Type.Results
	if res == nil {
		return nil
	}
	for _, f := range res.List {
		for _, n := range f.Names {
			objs = append(objs, w.expr(s, n))
		}
	}
	return objs
}

// results of a call used as the whole result list of a return
func (w *walker) callResults(s *state, c *ast.CallExpr) []string {
	return w.call(s, c)
}

// a path ends here: run the deferred operations (LIFO) and record it
func (w *walker) finish(s *state, _ []string) {
	for i := len(s.defers) - 1; i >= 0; i-- {
		s.items = append(s.items, s.defers[i]...)
	}
	w.finished = append(w.finished, s.items)
}

func (w *walker) deferStmt(s *state, d *ast.DeferStmt) {
	c := d.Call
	if fl, ok := unparen(c.Fun).(*ast.FuncLit); ok {
		w.evalArgs(s, c.Args)
		if w.dry {
			w.closure(s, fl)
			return
		}
		// runs once, at exit, with the bindings of the variables it captures as they are now
		its, ok := w.inlineClosure(s.clone(), fl)
		if !ok {
			w.unknown(s, fl.Pos(), "deferred function literal with several paths")
			return
		}
		if len(its) > 0 {
			s.defers = append(s.defers, its)
		}
		return
	}
	// evaluate now (receiver and arguments are evaluated at the defer statement), emit at exit
	tmp := s.clone()
	tmp.items = nil
	fn, sel := w.calleeFunc(c.Fun)
	if fn != nil && sel != nil {
		if n, ok := deref(fn.Type().(*types.Signature).Recv().Type()).(*types.Named); ok && isMutex(n) {
			its, ok := w.lockItems(tmp, c, sel, fn.Name())
			s.items = append(s.items, tmp.items...) // reads done while evaluating the receiver
			if ok {
				s.defers = append(s.defers, its)
			}
			return
		}
	}
	w.call(tmp, c)
	// split: items that are reads of arguments happen now; the call item itself is deferred.
	// We keep it simple: everything the deferred call does is emitted at exit.
	s.defers = append(s.defers, tmp.items)
}

// ---------------------------------------------------------------- assignment

func (w *walker) assign(s *state, lhs, rhs []ast.Expr, tok token.Token) {
	if tok != token.ASSIGN && tok != token.DEFINE {
		// op-assignment: x.f op= v
		for _, r := range rhs {
			w.expr(s, r)
		}
		for _, l := range lhs {
			w.lvalue(s, l, true)
		}
		return
	}
	var objs []string
	var srcs []ast.Expr
	if len(rhs) == 1 && len(lhs) > 1 {
		r := unparen(rhs[0])
		switch rx := r.(type) {
		case *ast.CallExpr:
			objs = w.call(s, rx)
		case *ast.TypeAssertExpr:
			objs = []string{w.expr(s, rx.X), ""}
		case *ast.IndexExpr:
			objs = []string{w.expr(s, rx), ""}
		case *ast.UnaryExpr:
			w.expr(s, rx)
		default:
			w.expr(s, r)
		}
		for len(objs) < len(lhs) {
			objs = append(objs, "")
		}
		for range lhs {
			srcs = append(srcs, nil)
		}
		srcs[0] = r
	} else {
		for _, r := range rhs {
			objs = append(objs, w.expr(s, r))
			srcs = append(srcs, r)
		}
	}
	for i, l := range lhs {
		var o string
		var src ast.Expr
		if i < len(objs) {
			o = objs[i]
		}
		if i < len(srcs) {
			src = srcs[i]
		}
		w.bind(s, l, o, src)
	}
}

func aliasable(e ast.Expr) bool {
	switch x := unparen(e).(type) {
	case *ast.Ident:
		return true
	case *ast.TypeAssertExpr:
		return aliasable(x.X)
	case *ast.UnaryExpr:
		if x.Op == token.AND {
			_, ok := unparen(x.X).(*ast.Ident)
			return ok
		}
	}
	return false
}

func (w *walker) bind(s *state, l ast.Expr, obj string, src ast.Expr) {
	id, ok := unparen(l).(*ast.Ident)
	if !ok {
		w.lvalue(s, l, false)
		return
	}
	if id.Name == "_" {
		return
	}
	v := w.varOf(id)
	if v == nil {
		return
	}
	delete(s.alias, v)
	if _, tr := w.a.tracked(v.Type()); tr {
		switch {
		case obj != "" && src != nil && aliasable(src):
			s.env[v] = obj
		case obj != "":
			// a temporary (call result, loaded pointer, element): name it after the variable
			n := w.newName(v.Name(), isFresh(obj))
			for k, m := range s.memo {
				if m == obj {
					s.memo[k] = n
				}
			}
			s.env[v] = n
		default:
			s.env[v] = w.newName(v.Name(), false)
		}
		return
	}
	// slices / maps assigned from a field alias that field
	if src != nil {
		switch v.Type().Underlying().(type) {
		case *types.Slice, *types.Map:
			e := unparen(src)
			if sl, ok := e.(*ast.SliceExpr); ok {
				e = unparen(sl.X)
			}
			if se, ok := e.(*ast.SelectorExpr); ok {
				sel := w.info().Selections[se]
				if sel != nil && sel.Kind() == types.FieldVal {
					tmp := s.clone()
					if fs, ok := w.selField(tmp, se); ok && fs.tracked && fs.obj != "" && !isFresh(fs.obj) {
						s.alias[v] = [2]string{fs.obj, fs.field}
					}
				}
			}
		}
	}
}

// ---------------------------------------------------------------- branches

// objects compared by a condition X == Y / X != Y
func (w *walker) eqObjects(s *state, cond ast.Expr) (a, b string, op token.Token, ok bool) {
	be, isBin := unparen(cond).(*ast.BinaryExpr)
	if !isBin || (be.Op != token.EQL && be.Op != token.NEQ) {
		return
	}
	xi, ok1 := unparen(be.X).(*ast.Ident)
	yi, ok2 := unparen(be.Y).(*ast.Ident)
	if !ok1 || !ok2 {
		return
	}
	xv, yv := w.varOf(xi), w.varOf(yi)
	if xv == nil || yv == nil {
		return
	}
	if _, tr := w.a.tracked(xv.Type()); !tr {
		return
	}
	if _, tr := w.a.tracked(yv.Type()); !tr {
		return
	}
	xo, ok1 := s.env[xv]
	yo, ok2 := s.env[yv]
	if !ok1 || !ok2 {
		return
	}
	return xo, yo, be.Op, true
}

func (w *walker) ifStmt(x *ast.IfStmt, in []*state) []*state {
	cur := in
	if x.Init != nil {
		cur = w.stmt(x.Init, cur)
	}
	cur = w.simple(cur, func(s *state) { w.expr(s, x.Cond) })
	var out []*state
	for _, s := range cur {
		th, el := s.clone(), s.clone()
		if a, b, op, ok := w.eqObjects(s, x.Cond); ok {
			if op == token.EQL {
				th.rename(a, b)
			} else {
				el.rename(a, b)
			}
		}
		out = append(out, w.block(x.Body.List, []*state{th})...)
		if x.Else != nil {
			out = append(out, w.stmt(x.Else, []*state{el})...)
		} else {
			out = append(out, el)
		}
	}
	return dedupe(out)
}

func (w *walker) switchStmt(x *ast.SwitchStmt, in []*state) []*state {
	cur := in
	if x.Init != nil {
		cur = w.stmt(x.Init, cur)
	}
	if x.Tag != nil {
		cur = w.simple(cur, func(s *state) { w.expr(s, x.Tag) })
	}
	var out []*state
	for _, s := range cur {
		hasDefault := false
		// the case expressions are evaluated in order until one matches: emit them cumulatively
		acc := s.clone()
		for _, cl := range x.Body.List {
			cc := cl.(*ast.CaseClause)
			if cc.List == nil {
				hasDefault = true
			}
			for _, e := range cc.List {
				w.expr(acc, e)
			}
			b := acc.clone()
			fr := &frame{isSwitch: true}
			w.frames = append(w.frames, fr)
			res := w.caseBody(cc.Body, b)
			w.frames = w.frames[:len(w.frames)-1]
			out = append(out, res...)
			out = append(out, fr.breaks...)
		}
		if !hasDefault {
			out = append(out, acc)
		}
	}
	return dedupe(out)
}

// body of a case clause: a trailing or inner "break" leaves the switch
func (w *walker) caseBody(body []ast.Stmt, s *state) []*state {
	for _, st := range body {
		if b, ok := st.(*ast.BranchStmt); ok && b.Tok == token.FALLTHROUGH {
			w.unknown(s, b.Pos(), "fallthrough")
		}
	}
	return w.block(body, []*state{s})
}

func (w *walker) typeSwitchStmt(x *ast.TypeSwitchStmt, in []*state) []*state {
	cur := in
	if x.Init != nil {
		cur = w.stmt(x.Init, cur)
	}
	var subject ast.Expr
	switch a := x.Assign.(type) {
	case *ast.ExprStmt:
		subject = unparen(a.X).(*ast.TypeAssertExpr).X
	case *ast.AssignStmt:
		subject = unparen(a.Rhs[0]).(*ast.TypeAssertExpr).X
	}
	var out []*state
	for _, s0 := range cur {
		for _, s := range w.forEachChoice(s0, func(c *state) {}) {
			obj := w.expr(s, subject)
			hasDefault := false
			for _, cl := range x.Body.List {
				cc := cl.(*ast.CaseClause)
				if cc.List == nil {
					hasDefault = true
				}
				b := s.clone()
				if v, ok := w.info().Implicits[cc].(*types.Var); ok {
					if _, tr := w.a.tracked(v.Type()); tr {
						if obj != "" {
							b.env[v] = obj
						} else {
							b.env[v] = w.newName(v.Name(), false)
						}
					}
				}
				fr := &frame{isSwitch: true}
				w.frames = append(w.frames, fr)
				res := w.caseBody(cc.Body, b)
				w.frames = w.frames[:len(w.frames)-1]
				out = append(out, res...)
				out = append(out, fr.breaks...)
			}
			if !hasDefault {
				out = append(out, s)
			}
		}
	}
	return dedupe(out)
}

// ---------------------------------------------------------------- loops

// variables assigned anywhere inside the nodes
func (w *walker) assignedVars(nodes ...ast.Node) map[*types.Var]bool {
	res := map[*types.Var]bool{}
	mark := func(e ast.Expr) {
		if id, ok := unparen(e).(*ast.Ident); ok {
			if v := w.varOf(id); v != nil {
				res[v] = true
			}
		}
	}
	for _, n := range nodes {
		if n == nil || isNilNode(n) {
			continue
		}
		ast.Inspect(n, func(m ast.Node) bool {
			switch y := m.(type) {
			case *ast.AssignStmt:
				for _, l := range y.Lhs {
					mark(l)
				}
			case *ast.IncDecStmt:
				mark(y.X)
			case *ast.RangeStmt:
				if y.Key != nil {
					mark(y.Key)
				}
				if y.Value != nil {
					mark(y.Value)
				}
			case *ast.ValueSpec:
				for _, nm := range y.Names {
					mark(nm)
				}
			case *ast.CaseClause:
				if v, ok := w.info().Implicits[y].(*types.Var); ok {
					res[v] = true
				}
			}
			return true
		})
	}
	return res
}

func isNilNode(n ast.Node) bool {
	switch x := n.(type) {
	case ast.Stmt:
		return x == nil
	case ast.Expr:
		return x == nil
	}
	return false
}

func (w *walker) loop(s0 *state, init ast.Stmt, cond ast.Expr, post ast.Stmt, body *ast.BlockStmt, rng *ast.RangeStmt) []*state {
	if w.dry {
		// inside a closure: just walk the body once
		st := []*state{s0}
		if init != nil {
			st = w.stmt(init, st)
		}
		if rng != nil {
			st = w.simple(st, func(s *state) { w.expr(s, rng.X) })
		}
		if cond != nil {
			st = w.simple(st, func(s *state) { w.expr(s, cond) })
		}
		w.frames = append(w.frames, &frame{})
		out := w.block(body.List, st)
		fr := w.frames[len(w.frames)-1]
		w.frames = w.frames[:len(w.frames)-1]
		out = append(out, fr.breaks...)
		out = append(out, fr.continues...)
		return out
	}
	pre := []*state{s0}
	if init != nil {
		pre = w.stmt(init, pre)
	}
	if rng != nil {
		pre = w.simple(pre, func(s *state) { w.expr(s, rng.X) })
	}
	var exits []*state
	for _, base := range pre {
		exits = append(exits, w.loopFrom(base, cond, post, body, rng)...)
	}
	return exits
}

// loopFrom: a loop entered in state base.  If every complete iteration leaves some variable bound
// to an object created in that iteration (dn = vfs.createDir(dn, ...)), the first iteration is peeled:
// it runs with the value the variable had before the loop, the later ones with a fresh object.
func (w *walker) loopFrom(base *state, cond ast.Expr, post ast.Stmt, body *ast.BlockStmt, rng *ast.RangeStmt) []*state {
	nfin, nret, nloops, nl, nunk := len(w.finished), len(w.retFresh), len(w.loops), w.nloop, w.a.unknowns
	exits, ends, assigned := w.loopOnce(base, cond, post, body, rng, nil)
	cands := map[*types.Var]bool{}
	for v := range assigned {
		if _, tr := w.a.tracked(v.Type()); !tr || len(ends) == 0 {
			continue
		}
		all := true
		for _, e := range ends {
			if !isFresh(e.env[v]) {
				all = false
			}
		}
		if all {
			cands[v] = true
		}
	}
	if len(cands) == 0 {
		return exits
	}
	// roll back and redo with the first iteration peeled
	w.finished, w.retFresh, w.loops, w.nloop, w.a.unknowns = w.finished[:nfin], w.retFresh[:nret], w.loops[:nloops], nl, nunk
	exits = nil
	first := []*state{base.clone()}
	if cond != nil || rng != nil {
		x := base.clone()
		if cond != nil {
			exits = append(exits, w.simple([]*state{x}, func(s *state) { w.expr(s, cond) })...)
		} else {
			exits = append(exits, x)
		}
	}
	if cond != nil {
		first = w.simple(first, func(s *state) { w.expr(s, cond) })
	}
	fr := &frame{}
	w.frames = append(w.frames, fr)
	ends1 := w.block(body.List, first)
	ends1 = append(ends1, fr.continues...)
	if post != nil {
		ends1 = w.stmt(post, ends1)
	}
	w.frames = w.frames[:len(w.frames)-1]
	exits = append(exits, fr.breaks...)
	for _, e := range dedupe(ends1) {
		ex2, ends2, _ := w.loopOnce(e, cond, post, body, rng, cands)
		for _, e2 := range ends2 {
			for v := range cands {
				if !isFresh(e2.env[v]) {
					for _, x := range ex2 {
						w.unknown(x, body.Pos(), "loop variable "+v.Name()+" is not always a new object")
					}
				}
			}
		}
		exits = append(exits, ex2...)
	}
	return dedupe(exits)
}

func (w *walker) loopOnce(base *state, cond ast.Expr, post ast.Stmt, body *ast.BlockStmt, rng *ast.RangeStmt, freshStart map[*types.Var]bool) ([]*state, []*state, map[*types.Var]bool) {
	var assigned map[*types.Var]bool
	if rng != nil {
		assigned = w.assignedVars(body, rng)
	} else {
		var pn ast.Node
		if post != nil {
			pn = post
		}
		assigned = w.assignedVars(body, pn)
	}
	w.nloop++
	ls := &Summary{Name: fmt.Sprintf("%s#loop%d", w.sum.Name, w.nloop), Owner: w.sum.Owner, isLoop: true, Pos: w.pos(body.Pos())}
	known := map[string]bool{}
	for v, n := range base.env {
		if !assigned[v] {
			known[n] = true
		}
	}
	rebind := func(s *state) {
		for v := range assigned {
			if _, tr := w.a.tracked(v.Type()); tr {
				s.env[v] = w.newName(v.Name(), freshStart[v])
			}
			delete(s.alias, v)
		}
		s.memo = map[string]string{}
	}
	// the star call is placed before the (partial) last iteration
	callItem := Item{Kind: "call", Star: true, Callee: ls.Name, Pos: w.pos(body.Pos())}
	b := base.clone()
	callIdx := len(b.items)
	b.items = append(b.items, callItem)
	mark := len(b.items)
	rebind(b)
	ndef := len(b.defers)

	// ranging over a map or slice field reads it at every step of the iteration, not only once
	rangeRead := func(s *state) {
		if rng != nil && pureSelector(rng.X) {
			w.expr(s, rng.X)
		}
	}
	rangeRead(b)
	fr := &frame{}
	w.frames = append(w.frames, fr)
	nfinBefore := len(w.finished)
	start := []*state{b}
	if cond != nil {
		start = w.simple(start, func(s *state) { w.expr(s, cond) })
	}
	ends := w.block(body.List, start)
	ends = append(ends, fr.continues...)
	if post != nil {
		ends = w.stmt(post, ends)
	}
	w.frames = w.frames[:len(w.frames)-1]

	// loop iterations (complete passes through the body)
	seen := map[string]bool{}
	for _, e := range ends {
		p := append([]Item(nil), e.items[mark:]...)
		if len(e.defers) != ndef {
			p = append(p, Item{Kind: "unknown", Why: "defer inside a loop at " + w.pos(body.Pos())})
			w.a.unknowns++
		}
		k := pathKey(p)
		if !seen[k] {
			seen[k] = true
			ls.Paths = append(ls.Paths, p)
		}
	}
	// formals of the loop summary: objects that exist outside the body
	used := map[string]bool{}
	collect := func(p []Item) {
		for _, it := range p {
			if it.Obj != "" {
				used[it.Obj] = true
			}
			for _, sg := range it.Sigma {
				used[sg[1]] = true
			}
		}
	}
	for _, p := range ls.Paths {
		collect(p)
	}
	var sigma [][2]string
	for n := range used {
		if known[n] || w.isFormal(n) || existedBefore(base, n) {
			ls.Formals = append(ls.Formals, n)
		}
	}
	sortStrings(ls.Formals)
	for _, n := range ls.Formals {
		sigma = append(sigma, [2]string{n, n})
	}
	callItem.Sigma = sigma
	w.loops = append(w.loops, ls)

	fix := func(its []Item) {
		if callIdx < len(its) && its[callIdx].Kind == "call" && its[callIdx].Callee == ls.Name {
			its[callIdx].Sigma = sigma
		}
	}
	// paths that returned from inside the body
	for i := nfinBefore; i < len(w.finished); i++ {
		fix(w.finished[i])
	}
	var exits []*state
	for _, k := range fr.breaks {
		fix(k.items)
		exits = append(exits, k)
	}
	if cond != nil || rng != nil {
		x := base.clone()
		x.items = append(x.items, callItem)
		rebind(x)
		rangeRead(x)
		if cond != nil {
			for _, c := range w.simple([]*state{x}, func(s *state) { w.expr(s, cond) }) {
				exits = append(exits, c)
			}
		} else {
			exits = append(exits, x)
		}
	}
	return dedupe(exits), ends, assigned
}

func existedBefore(base *state, n string) bool {
	for _, it := range base.items {
		if it.Obj == n {
			return true
		}
		for _, sg := range it.Sigma {
			if sg[1] == n {
				return true
			}
		}
	}
	for _, v := range base.env {
		if v == n {
			return true
		}
	}
	for _, v := range base.memo {
		if v == n {
			return true
		}
	}
	return false
}

func (w *walker) isFormal(n string) bool {
	for _, f := range w.sum.Formals {
		if f == n {
			return true
		}
	}
	return false
}

func pathKey(p []Item) string {
	k := ""
	for _, it := range p {
		k += it.key() + ";"
	}
	return k
}

// pureSelector: x, x.f, x.f.g ... (re-evaluating it has no effect other than the reads)
func pureSelector(e ast.Expr) bool {
	switch x := unparen(e).(type) {
	case *ast.Ident:
		return true
	case *ast.SelectorExpr:
		return pureSelector(x.X)
	}
	return false
}
