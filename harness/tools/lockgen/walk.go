package main

import (
	"fmt"
	"go/ast"
	"go/token"
	"go/types"
	"sort"
	"strings"
)

// ---------------------------------------------------------------- data

type Item struct {
	Kind   string      `json:"k"` // acq rel acc call unknown
	Obj    string      `json:"o,omitempty"`
	Lock   string      `json:"l,omitempty"`
	Mode   string      `json:"m,omitempty"` // R W
	Acc    string      `json:"a,omitempty"` // r w a
	Field  string      `json:"f,omitempty"`
	Star   bool        `json:"star,omitempty"`
	Callee string      `json:"g,omitempty"`
	Sigma  [][2]string `json:"s,omitempty"`
	Why    string      `json:"why,omitempty"`
	Pos    string      `json:"pos,omitempty"`
}

func (it Item) key() string {
	return fmt.Sprintf("%s|%s|%s|%s|%s|%s|%v|%s|%v|%s", it.Kind, it.Obj, it.Lock, it.Mode, it.Acc, it.Field, it.Star, it.Callee, it.Sigma, it.Why)
}

type Bentry struct {
	Obj, Lock, Mode, Field string
}

type Summary struct {
	Name     string
	Owner    string
	API      bool
	Recv     string
	RecvTy   string
	Formals  []string
	Borrowed []Bentry
	Paths    [][]Item
	Pos      string

	retFresh    []bool
	lockWrapper bool
	isLoop      bool
}

type funcDecl struct {
	decl *ast.FuncDecl
	pi   *pkgInfo
	fn   *types.Func
}

type analyzer struct {
	l        *loader
	funcs    map[*types.Func]*funcDecl
	byName   map[string]*Summary
	order    []string
	inprog   map[*types.Func]bool
	done     map[string]*Summary
	helpers  map[*types.Named]bool // root-package structs embedded in analysed structs
	apkgs    map[*types.Package]bool
	rootPkg  *types.Package
	notes    []string
	unknowns int
}

type state struct {
	items  []Item
	defers [][]Item
	env    map[*types.Var]string
	alias  map[*types.Var][2]string
	memo   map[string]string
}

func (s *state) clone() *state {
	c := &state{items: append([]Item(nil), s.items...), env: map[*types.Var]string{}, alias: map[*types.Var][2]string{}, memo: map[string]string{}}
	for _, d := range s.defers {
		c.defers = append(c.defers, append([]Item(nil), d...))
	}
	for k, v := range s.env {
		c.env[k] = v
	}
	for k, v := range s.alias {
		c.alias[k] = v
	}
	for k, v := range s.memo {
		c.memo[k] = v
	}
	return c
}

func (s *state) key() string {
	var b strings.Builder
	for _, it := range s.items {
		b.WriteString(it.key())
		b.WriteByte(';')
	}
	b.WriteString("#D")
	for _, d := range s.defers {
		for _, it := range d {
			b.WriteString(it.key())
			b.WriteByte(';')
		}
		b.WriteByte('/')
	}
	b.WriteString("#E")
	var es []string
	for k, v := range s.env {
		es = append(es, fmt.Sprintf("%s@%d=%s", k.Name(), k.Pos(), v))
	}
	for k, v := range s.alias {
		es = append(es, fmt.Sprintf("A%s@%d=%s.%s", k.Name(), k.Pos(), v[0], v[1]))
	}
	sort.Strings(es)
	b.WriteString(strings.Join(es, ","))
	return b.String()
}

// rename an object everywhere in the state (two names proved to denote one object)
func (s *state) rename(from, to string) {
	if from == to || from == "" {
		return
	}
	ren := func(its []Item) {
		for i := range its {
			if its[i].Obj == from {
				its[i].Obj = to
			}
			for j := range its[i].Sigma {
				if its[i].Sigma[j][1] == from {
					its[i].Sigma[j][1] = to
				}
			}
		}
	}
	ren(s.items)
	for _, d := range s.defers {
		ren(d)
	}
	for k, v := range s.env {
		if v == from {
			s.env[k] = to
		}
	}
	for k, v := range s.alias {
		if v[0] == from {
			s.alias[k] = [2]string{to, v[1]}
		}
	}
	for k, v := range s.memo {
		if v == from {
			s.memo[k] = to
		}
	}
}

type frame struct {
	isSwitch  bool
	breaks    []*state
	continues []*state
}

type walker struct {
	a        *analyzer
	fd       *funcDecl
	sum      *Summary
	finished [][]Item
	retFresh [][]bool
	frames   []*frame
	ver      map[string]int
	nloop    int
	loops    []*Summary

	pick       []int
	pickIdx    int
	pickCounts []int
	dry        bool   // dry walk of a closure body
	qual       string // inside a method of an embedded configuration struct: the type that embeds it
}

const maxStates = 400

// ---------------------------------------------------------------- helpers on types

func deref(t types.Type) types.Type {
	if p, ok := t.Underlying().(*types.Pointer); ok {
		return p.Elem()
	}
	return t
}

func (a *analyzer) pkgShort(p *types.Package) string {
	if p == nil {
		return "?"
	}
	return p.Name()
}

// tracked: the named struct / interface types whose values are "objects"
func (a *analyzer) tracked(t types.Type) (*types.Named, bool) {
	if t == nil {
		return nil, false
	}
	t = deref(t)
	n, ok := t.(*types.Named)
	if !ok {
		return nil, false
	}
	if n.Obj() == nil || n.Obj().Pkg() == nil {
		return nil, false
	}
	if a.apkgs[n.Obj().Pkg()] {
		switch u := n.Underlying().(type) {
		case *types.Interface:
			return n, true
		case *types.Struct:
			// plain data without methods or mutex (Options ...) belongs to the caller: not an object
			if n.NumMethods() > 0 {
				return n, true
			}
			for i := 0; i < u.NumFields(); i++ {
				if isMutex(u.Field(i).Type()) {
					return n, true
				}
			}
		}
		return nil, false
	}
	if a.helpers[n] {
		return n, true
	}
	return nil, false
}

func (a *analyzer) typeID(n *types.Named) string {
	return a.pkgShort(n.Obj().Pkg()) + "." + n.Obj().Name()
}

func isMutex(t types.Type) bool {
	n, ok := t.(*types.Named)
	if !ok || n.Obj().Pkg() == nil {
		return false
	}
	return n.Obj().Pkg().Path() == "sync" && (n.Obj().Name() == "RWMutex" || n.Obj().Name() == "Mutex")
}

func (w *walker) pos(p token.Pos) string {
	ps := w.a.l.fset.Position(p)
	f := ps.Filename
	if i := strings.Index(f, w.a.l.repo); i == 0 {
		f = strings.TrimPrefix(f[len(w.a.l.repo):], "/")
	}
	return fmt.Sprintf("%s:%d", f, ps.Line)
}

func (w *walker) info() *types.Info { return w.fd.pi.info }

func (w *walker) newName(base string, fresh bool) string {
	w.ver[base]++
	n := fmt.Sprintf("%s.%d", base, w.ver[base])
	if fresh {
		n = "%" + n
	}
	return n
}

func isFresh(o string) bool { return strings.HasPrefix(o, "%") }

func (w *walker) emit(s *state, it Item) {
	if it.Kind == "unknown" {
		w.a.unknowns++
	}
	s.items = append(s.items, it)
}

func (w *walker) unknown(s *state, p token.Pos, why string) {
	w.emit(s, Item{Kind: "unknown", Why: why + " at " + w.pos(p), Pos: w.pos(p)})
}

func (w *walker) choose(n int) int {
	idx := w.pickIdx
	w.pickIdx++
	w.pickCounts = append(w.pickCounts, n)
	if idx < len(w.pick) && w.pick[idx] < n {
		return w.pick[idx]
	}
	return 0
}

// run f once per combination of the dispatch choices met while running it
func (w *walker) forEachChoice(s *state, f func(c *state)) []*state {
	var outs []*state
	choice := []int{}
	for iter := 0; iter < 64; iter++ {
		w.pick, w.pickIdx, w.pickCounts = choice, 0, nil
		c := s.clone()
		f(c)
		outs = append(outs, c)
		counts := w.pickCounts
		next := make([]int, len(counts))
		copy(next, choice)
		i := len(counts) - 1
		for i >= 0 {
			next[i]++
			if next[i] < counts[i] {
				break
			}
			next[i] = 0
			i--
		}
		if i < 0 {
			break
		}
		choice = next
	}
	w.pick, w.pickIdx, w.pickCounts = nil, 0, nil
	return outs
}

func dedupe(in []*state) []*state {
	seen := map[string]bool{}
	var out []*state
	for _, s := range in {
		k := s.key()
		if !seen[k] {
			seen[k] = true
			out = append(out, s)
		}
	}
	return out
}

// ---------------------------------------------------------------- field selection

type fieldSel struct {
	obj      string // object the field belongs to ("" = untracked base)
	field    string // field id  pkg.Struct.field
	ftype    types.Type
	isMutex  bool
	embedded bool // selection of an embedded (by value) tracked struct: same object, no access
	tracked  bool // base is a tracked object
}

// selField resolves X.f (f a field) and evaluates X (as a read).
func (w *walker) selField(s *state, e *ast.SelectorExpr) (fieldSel, bool) {
	sel := w.info().Selections[e]
	if sel == nil || sel.Kind() != types.FieldVal {
		return fieldSel{}, false
	}
	base := w.expr(s, e.X)
	_, baseTracked := w.a.tracked(sel.Recv())
	t := sel.Recv()
	var res fieldSel
	res.obj = base
	res.tracked = baseTracked
	idx := sel.Index()
	var prevNamed *types.Named
	for i, ix := range idx {
		dt := deref(t)
		st, ok := dt.Underlying().(*types.Struct)
		if !ok {
			return fieldSel{}, false
		}
		f := st.Field(ix)
		declName := "?"
		if n, ok := dt.(*types.Named); ok {
			declName = w.a.typeID(n)
			if w.a.helpers[n] {
				// configuration struct of package avfs: the location is named after the type embedding it
				if w.qual != "" {
					declName = w.qual + ":" + declName
				} else if prevNamed != nil {
					declName = w.a.typeID(prevNamed) + ":" + declName
				} else {
					declName = "?:" + declName
				}
			}
		}
		if i < len(idx)-1 {
			// intermediate embedded field
			if _, isPtr := f.Type().Underlying().(*types.Pointer); isPtr {
				w.unknown(s, e.Pos(), "selection through an embedded pointer")
			}
			if _, tr := w.a.tracked(f.Type()); !tr && baseTracked {
				// embedded struct of an untracked type inside a tracked object: treat as a leaf field
				res.field = declName + "." + f.Name()
				res.ftype = f.Type()
				return res, true
			}
			if n, ok := dt.(*types.Named); ok {
				prevNamed = n
			}
			t = f.Type()
			continue
		}
		res.field = declName + "." + f.Name()
		res.ftype = f.Type()
		res.isMutex = isMutex(f.Type())
		if f.Embedded() {
			if _, isPtr := f.Type().Underlying().(*types.Pointer); !isPtr {
				if _, tr := w.a.tracked(f.Type()); tr {
					res.embedded = true
				}
			}
		}
	}
	return res, true
}

func (w *walker) access(s *state, p token.Pos, obj, field, acc string) {
	if obj == "" || isFresh(obj) {
		return
	}
	w.emit(s, Item{Kind: "acc", Obj: obj, Field: field, Acc: acc, Pos: w.pos(p)})
	if acc == "w" {
		delete(s.memo, obj+"|"+field)
	}
}

// all fields of a tracked struct (flattened through embedded tracked structs)
func (a *analyzer) flatFields(n *types.Named) []string { return a.flatFieldsQ(n, "") }

func (a *analyzer) flatFieldsQ(n *types.Named, qual string) []string {
	var out []string
	st, ok := n.Underlying().(*types.Struct)
	if !ok {
		return nil
	}
	for i := 0; i < st.NumFields(); i++ {
		f := st.Field(i)
		if f.Embedded() {
			if en, tr := a.tracked(f.Type()); tr {
				if _, isPtr := f.Type().Underlying().(*types.Pointer); !isPtr {
					q := ""
					if a.helpers[en] {
						q = a.typeID(n) + ":"
					}
					out = append(out, a.flatFieldsQ(en, q)...)
					continue
				}
			}
		}
		if isMutex(f.Type()) {
			continue
		}
		out = append(out, qual+a.typeID(n)+"."+f.Name())
	}
	return out
}

// ---------------------------------------------------------------- expressions

func unparen(e ast.Expr) ast.Expr {
	for {
		p, ok := e.(*ast.ParenExpr)
		if !ok {
			return e
		}
		e = p.X
	}
}

func (w *walker) varOf(id *ast.Ident) *types.Var {
	if o, ok := w.info().Uses[id]; ok {
		if v, ok := o.(*types.Var); ok {
			return v
		}
	}
	if o, ok := w.info().Defs[id]; ok {
		if v, ok := o.(*types.Var); ok {
			return v
		}
	}
	return nil
}

// expr evaluates e for its reads and returns the object it denotes ("" if none).
func (w *walker) expr(s *state, e ast.Expr) string {
	if e == nil {
		return ""
	}
	switch x := e.(type) {
	case *ast.Ident:
		v := w.varOf(x)
		if v == nil {
			return ""
		}
		if al, ok := s.alias[v]; ok {
			w.access(s, x.Pos(), al[0], al[1], "r")
			return ""
		}
		if _, tr := w.a.tracked(v.Type()); tr {
			if n, ok := s.env[v]; ok {
				return n
			}
			if v.Pkg() != nil && v.Parent() == v.Pkg().Scope() {
				return "global:" + v.Name()
			}
			n := w.newName(v.Name(), false)
			s.env[v] = n
			return n
		}
		return ""
	case *ast.ParenExpr:
		return w.expr(s, x.X)
	case *ast.BasicLit:
		return ""
	case *ast.FuncLit:
		w.closure(s, x)
		return ""
	case *ast.CompositeLit:
		for _, el := range x.Elts {
			if kv, ok := el.(*ast.KeyValueExpr); ok {
				if _, isField := kv.Key.(*ast.Ident); !isField {
					w.expr(s, kv.Key)
				}
				w.expr(s, kv.Value)
			} else {
				w.expr(s, el)
			}
		}
		if _, tr := w.a.tracked(w.info().TypeOf(x)); tr {
			return w.newName("lit", true)
		}
		return ""
	case *ast.StarExpr:
		o := w.expr(s, x.X)
		if n, tr := w.a.tracked(w.info().TypeOf(x)); tr && o != "" {
			// struct copy: reads every field
			for _, f := range w.a.flatFields(n) {
				w.access(s, x.Pos(), o, f, "r")
			}
			return w.newName("copy", true)
		}
		return ""
	case *ast.UnaryExpr:
		if x.Op == token.AND {
			inner := unparen(x.X)
			if _, ok := inner.(*ast.CompositeLit); ok {
				return w.expr(s, inner)
			}
			if id, ok := inner.(*ast.Ident); ok {
				return w.expr(s, id)
			}
			if se, ok := inner.(*ast.SelectorExpr); ok {
				if fs, ok := w.selField(s, se); ok && fs.tracked && !fs.embedded {
					w.unknown(s, x.Pos(), "address of field "+fs.field+" taken")
					return ""
				} else if ok && fs.embedded {
					return fs.obj
				}
				return ""
			}
			w.expr(s, inner)
			return ""
		}
		if x.Op == token.ARROW {
			w.unknown(s, x.Pos(), "channel receive")
		}
		w.expr(s, x.X)
		return ""
	case *ast.BinaryExpr:
		w.expr(s, x.X)
		w.expr(s, x.Y)
		return ""
	case *ast.KeyValueExpr:
		w.expr(s, x.Key)
		w.expr(s, x.Value)
		return ""
	case *ast.TypeAssertExpr:
		return w.expr(s, x.X)
	case *ast.SelectorExpr:
		if fs, ok := w.selField(s, x); ok {
			if fs.isMutex {
				w.unknown(s, x.Pos(), "mutex "+fs.field+" used outside a Lock/Unlock call")
				return ""
			}
			if fs.embedded {
				return fs.obj
			}
			if !fs.tracked {
				// field of an untracked struct (options, path iterator ...): a plain value;
				// if it is itself an object it is one we know nothing about
				if _, tr := w.a.tracked(fs.ftype); tr {
					return w.newName("ext", false)
				}
				return ""
			}
			w.access(s, x.Pos(), fs.obj, fs.field, "r")
			if _, tr := w.a.tracked(fs.ftype); tr {
				if fs.obj == "" || isFresh(fs.obj) {
					return w.newName(shortField(fs.field), false)
				}
				k := fs.obj + "|" + fs.field
				if n, ok := s.memo[k]; ok {
					return n
				}
				n := w.newName(fs.obj+"."+shortField(fs.field), false)
				s.memo[k] = n
				return n
			}
			return ""
		}
		sel := w.info().Selections[x]
		if sel != nil && (sel.Kind() == types.MethodVal || sel.Kind() == types.MethodExpr) {
			w.expr(s, x.X)
			if fn, ok := sel.Obj().(*types.Func); ok {
				if _, an := w.a.funcs[fn]; an {
					w.unknown(s, x.Pos(), "method value "+fn.Name()+" of an analysed type not called directly")
				}
			}
			return ""
		}
		// package-qualified identifier
		return ""
	case *ast.IndexExpr:
		if tv, ok := w.info().Types[x.Index]; ok && tv.IsType() {
			return w.expr(s, x.X) // generic instantiation
		}
		w.expr(s, x.Index)
		w.expr(s, x.X)
		if _, tr := w.a.tracked(w.info().TypeOf(x)); tr {
			return w.newName("elem", false)
		}
		return ""
	case *ast.IndexListExpr:
		return w.expr(s, x.X)
	case *ast.SliceExpr:
		w.expr(s, x.Low)
		w.expr(s, x.High)
		w.expr(s, x.Max)
		w.expr(s, x.X)
		return ""
	case *ast.CallExpr:
		rs := w.call(s, x)
		if len(rs) > 0 {
			return rs[0]
		}
		return ""
	case *ast.ArrayType, *ast.MapType, *ast.FuncType, *ast.InterfaceType, *ast.StructType, *ast.ChanType, *ast.Ellipsis:
		return ""
	}
	w.unknown(s, e.Pos(), fmt.Sprintf("expression %T", e))
	return ""
}

func shortField(f string) string {
	if i := strings.LastIndex(f, "."); i >= 0 {
		return f[i+1:]
	}
	return f
}

// closure: the body of a function literal must not touch shared state (we do not know when it runs)
func (w *walker) closure(s *state, fl *ast.FuncLit) {
	sub := &walker{a: w.a, fd: w.fd, sum: w.sum, ver: w.ver, dry: true}
	st := s.clone()
	st.items = nil
	st.defers = nil
	outs := sub.block(fl.Body.List, []*state{st})
	bad := false
	check := func(its []Item) {
		if len(its) > 0 {
			bad = true
		}
	}
	for _, o := range outs {
		check(o.items)
	}
	for _, f := range sub.finished {
		check(f)
	}
	if bad {
		w.unknown(s, fl.Pos(), "function literal touches locks or fields of shared objects")
	}
}

// inlineClosure: the body of a function literal that runs exactly once at a known point (called
// immediately, or deferred): its items, if it has a single path; ok=false otherwise.
func (w *walker) inlineClosure(s *state, fl *ast.FuncLit) ([]Item, bool) {
	sub := &walker{a: w.a, fd: w.fd, sum: w.sum, ver: w.ver, qual: w.qual, nloop: w.nloop}
	st := s.clone()
	st.items = nil
	st.defers = nil
	outs := sub.block(fl.Body.List, []*state{st})
	for _, o := range outs {
		sub.finish(o, nil)
	}
	w.nloop = sub.nloop
	w.loops = append(w.loops, sub.loops...)
	seen := map[string]bool{}
	var paths [][]Item
	for _, p := range sub.finished {
		k := pathKey(p)
		if !seen[k] {
			seen[k] = true
			paths = append(paths, p)
		}
	}
	switch len(paths) {
	case 0:
		return nil, true
	case 1:
		if len(outs) == 1 {
			for v, n := range outs[0].env {
				s.env[v] = n
			}
		}
		return paths[0], true
	}
	return nil, false
}

// lvalue: the write performed by assigning to e (reads needed to evaluate e are emitted too)
func (w *walker) lvalue(s *state, e ast.Expr, alsoRead bool) {
	switch x := unparen(e).(type) {
	case *ast.Ident:
		if x.Name == "_" {
			return
		}
		v := w.varOf(x)
		if v != nil {
			if al, ok := s.alias[v]; ok {
				_ = al
				delete(s.alias, v) // the variable is rebound: no longer an alias
			}
		}
		return
	case *ast.SelectorExpr:
		if fs, ok := w.selField(s, x); ok {
			if fs.isMutex || fs.embedded {
				w.unknown(s, x.Pos(), "assignment to a mutex or an embedded struct")
				return
			}
			if fs.tracked {
				if alsoRead {
					w.access(s, x.Pos(), fs.obj, fs.field, "r")
				}
				w.access(s, x.Pos(), fs.obj, fs.field, "w")
			}
			return
		}
		w.expr(s, x.X)
		return
	case *ast.IndexExpr:
		w.expr(s, x.Index)
		w.lvalueContainer(s, x.X)
		return
	case *ast.SliceExpr:
		w.expr(s, x.Low)
		w.expr(s, x.High)
		w.expr(s, x.Max)
		w.lvalueContainer(s, x.X)
		return
	case *ast.StarExpr:
		o := w.expr(s, x.X)
		if _, tr := w.a.tracked(w.info().TypeOf(x)); tr && o != "" && !isFresh(o) {
			w.unknown(s, x.Pos(), "store through a pointer to a shared object")
		}
		return
	}
	w.unknown(s, e.Pos(), fmt.Sprintf("assignment target %T", e))
}

// the container of an element / slice store: writing an element of X.f mutates X.f
func (w *walker) lvalueContainer(s *state, e ast.Expr) {
	switch x := unparen(e).(type) {
	case *ast.SelectorExpr:
		if fs, ok := w.selField(s, x); ok {
			if fs.tracked && !fs.isMutex && !fs.embedded {
				w.access(s, x.Pos(), fs.obj, fs.field, "w")
			}
			return
		}
		w.expr(s, x)
	case *ast.Ident:
		v := w.varOf(x)
		if v != nil {
			if al, ok := s.alias[v]; ok {
				w.access(s, x.Pos(), al[0], al[1], "w")
			}
		}
	case *ast.IndexExpr:
		w.expr(s, x.Index)
		w.lvalueContainer(s, x.X)
	case *ast.SliceExpr:
		w.expr(s, x.Low)
		w.expr(s, x.High)
		w.expr(s, x.Max)
		w.lvalueContainer(s, x.X)
	default:
		w.expr(s, e)
	}
}

// ---------------------------------------------------------------- calls

func stripConv(w *walker, e ast.Expr) ast.Expr {
	for {
		e = unparen(e)
		c, ok := e.(*ast.CallExpr)
		if !ok || len(c.Args) != 1 {
			return e
		}
		if tv, ok := w.info().Types[c.Fun]; ok && tv.IsType() {
			e = c.Args[0]
			continue
		}
		return e
	}
}

func (w *walker) calleeFunc(fun ast.Expr) (*types.Func, *ast.SelectorExpr) {
	fun = unparen(fun)
	switch f := fun.(type) {
	case *ast.IndexExpr:
		return w.calleeFunc(f.X)
	case *ast.IndexListExpr:
		return w.calleeFunc(f.X)
	case *ast.Ident:
		if o, ok := w.info().Uses[f].(*types.Func); ok {
			return o, nil
		}
	case *ast.SelectorExpr:
		if sel := w.info().Selections[f]; sel != nil {
			if sel.Kind() == types.MethodVal {
				if o, ok := sel.Obj().(*types.Func); ok {
					return o, f
				}
			}
			return nil, nil
		}
		if o, ok := w.info().Uses[f.Sel].(*types.Func); ok {
			return o, nil
		}
	}
	return nil, nil
}

func (w *walker) evalArgs(s *state, args []ast.Expr) []string {
	var objs []string
	for _, a := range args {
		objs = append(objs, w.expr(s, a))
	}
	return objs
}

// call evaluates a call and returns the objects of its results.
func (w *walker) call(s *state, c *ast.CallExpr) []string {
	// conversion
	if tv, ok := w.info().Types[c.Fun]; ok && tv.IsType() {
		objs := w.evalArgs(s, c.Args)
		if len(objs) == 1 {
			return objs
		}
		return nil
	}
	// builtins
	if id, ok := unparen(c.Fun).(*ast.Ident); ok {
		if b, ok := w.info().Uses[id].(*types.Builtin); ok {
			switch b.Name() {
			case "copy":
				if len(c.Args) == 2 {
					w.lvalueContainer(s, c.Args[0])
					w.expr(s, c.Args[1])
				}
			case "delete":
				if len(c.Args) == 2 {
					w.expr(s, c.Args[1])
					w.lvalueContainer(s, c.Args[0])
				}
			case "new":
				if _, tr := w.a.tracked(w.info().TypeOf(c)); tr {
					return []string{w.newName("new", true)}
				}
			case "clear":
				for _, a := range c.Args {
					w.lvalueContainer(s, a)
				}
			default:
				w.evalArgs(s, c.Args)
			}
			return nil
		}
	}
	// immediately invoked function literal
	if fl, ok := unparen(c.Fun).(*ast.FuncLit); ok {
		w.evalArgs(s, c.Args)
		if w.dry {
			w.closure(s, fl)
			return nil
		}
		its, ok := w.inlineClosure(s, fl)
		if !ok {
			w.unknown(s, fl.Pos(), "function literal with several paths called in place")
			return nil
		}
		for _, it := range its {
			w.emit(s, it)
		}
		return nil
	}
	fn, sel := w.calleeFunc(c.Fun)
	if fn == nil {
		// call of a function value
		w.expr(s, c.Fun)
		w.evalArgs(s, c.Args)
		return w.resultObjs(c, nil)
	}
	if fn.Pkg() != nil && fn.Pkg().Path() == "sync/atomic" {
		return w.atomicCall(s, c, fn)
	}
	sig := fn.Type().(*types.Signature)
	// method
	if sel != nil {
		selection := w.info().Selections[sel]
		recvT := sig.Recv().Type()
		// sync mutex operations
		if n, ok := deref(recvT).(*types.Named); ok && isMutex(n) {
			w.lockOp(s, c, sel, fn.Name())
			return nil
		}
		// interface method
		if it, ok := selection.Recv().Underlying().(*types.Interface); ok {
			_ = it
			robj := w.expr(s, sel.X)
			named, tr := w.a.tracked(selection.Recv())
			if !tr {
				w.evalArgs(s, c.Args)
				return w.resultObjs(c, nil)
			}
			impls := w.a.implementations(named, fn.Name())
			if len(impls) == 0 {
				w.evalArgs(s, c.Args)
				w.unknown(s, c.Pos(), "interface method "+fn.Name()+" without implementation")
				return nil
			}
			k := w.choose(len(impls))
			args := w.evalArgs(s, c.Args)
			return w.staticCall(s, c, impls[k], "", robj, args)
		}
		// concrete method, possibly promoted through embedded structs
		if _, an := w.a.funcs[fn]; an {
			robj := w.recvObject(s, sel, selection)
			args := w.evalArgs(s, c.Args)
			return w.staticCall(s, c, fn, w.helperQual(selection, fn), robj, args)
		}
		// method of a type we do not analyse (fs.FileMode, PathIterator, Errors ...)
		if fs, ok := w.selFieldOfRecv(s, sel); ok {
			if fs.tracked && !fs.embedded && !fs.isMutex {
				_, ptrRecv := recvT.Underlying().(*types.Pointer)
				_, fieldIsPtr := fs.ftype.Underlying().(*types.Pointer)
				if ptrRecv && !fieldIsPtr {
					// pointer-receiver method on an addressable field may modify it
					w.access(s, sel.Pos(), fs.obj, fs.field, "w")
				}
			}
		}
		w.evalArgs(s, c.Args)
		return w.resultObjs(c, nil)
	}
	// plain function
	if _, an := w.a.funcs[fn]; an {
		args := w.evalArgs(s, c.Args)
		return w.staticCall(s, c, fn, "", "", args)
	}
	w.evalArgs(s, c.Args)
	return w.resultObjs(c, nil)
}

// selFieldOfRecv evaluates the receiver expression of a method call; if it is a field selection
// returns it (the read has been emitted).
func (w *walker) selFieldOfRecv(s *state, sel *ast.SelectorExpr) (fieldSel, bool) {
	if se, ok := unparen(sel.X).(*ast.SelectorExpr); ok {
		if fs, ok := w.selField(s, se); ok {
			if fs.tracked && !fs.embedded && !fs.isMutex {
				w.access(s, se.Pos(), fs.obj, fs.field, "r")
			}
			return fs, true
		}
	}
	w.expr(s, sel.X)
	return fieldSel{}, false
}

// receiver object of a (possibly promoted) method call: embedded structs are part of the outer object
func (w *walker) recvObject(s *state, sel *ast.SelectorExpr, selection *types.Selection) string {
	o := w.expr(s, sel.X)
	t := selection.Recv()
	idx := selection.Index()
	for i := 0; i < len(idx)-1; i++ {
		st, ok := deref(t).Underlying().(*types.Struct)
		if !ok {
			break
		}
		f := st.Field(idx[i])
		if _, isPtr := f.Type().Underlying().(*types.Pointer); isPtr {
			w.unknown(s, sel.Pos(), "method promoted through an embedded pointer")
		}
		t = f.Type()
	}
	return o
}

func (w *walker) resultObjs(c *ast.CallExpr, fresh []bool) []string {
	t := w.info().TypeOf(c)
	var out []string
	add := func(i int, ty types.Type) {
		if _, tr := w.a.tracked(ty); tr {
			fr := i < len(fresh) && fresh[i]
			out = append(out, w.newName("res", fr))
		} else {
			out = append(out, "")
		}
	}
	if tup, ok := t.(*types.Tuple); ok {
		for i := 0; i < tup.Len(); i++ {
			add(i, tup.At(i).Type())
		}
	} else if t != nil {
		add(0, t)
	}
	return out
}

func (w *walker) lockOp(s *state, c *ast.CallExpr, sel *ast.SelectorExpr, method string) {
	its, ok := w.lockItems(s, c, sel, method)
	if !ok {
		return
	}
	for _, it := range its {
		w.emit(s, it)
	}
}

func (w *walker) lockItems(s *state, c *ast.CallExpr, sel *ast.SelectorExpr, method string) ([]Item, bool) {
	se, ok := unparen(sel.X).(*ast.SelectorExpr)
	if !ok {
		w.unknown(s, c.Pos(), "lock operation on something that is not a struct field")
		return nil, false
	}
	sl := w.info().Selections[se]
	if sl == nil || sl.Kind() != types.FieldVal {
		w.unknown(s, c.Pos(), "lock operation on something that is not a struct field")
		return nil, false
	}
	// evaluate base without treating the mutex as a value
	base := w.expr(s, se.X)
	_, baseTracked := w.a.tracked(sl.Recv())
	if !baseTracked || base == "" {
		w.unknown(s, c.Pos(), "lock of an object that is not tracked")
		return nil, false
	}
	// find declaring struct of the mutex field
	t := sl.Recv()
	lockID := ""
	idx := sl.Index()
	for i, ix := range idx {
		dt := deref(t)
		st, ok := dt.Underlying().(*types.Struct)
		if !ok {
			break
		}
		f := st.Field(ix)
		if i == len(idx)-1 {
			if n, ok := dt.(*types.Named); ok {
				lockID = w.a.typeID(n) + "." + f.Name()
			}
		}
		t = f.Type()
	}
	if lockID == "" {
		w.unknown(s, c.Pos(), "cannot name the mutex")
		return nil, false
	}
	it := Item{Obj: base, Lock: lockID, Pos: w.pos(c.Pos())}
	switch method {
	case "Lock":
		it.Kind, it.Mode = "acq", "W"
	case "RLock":
		it.Kind, it.Mode = "acq", "R"
	case "Unlock":
		it.Kind, it.Mode = "rel", "W"
	case "RUnlock":
		it.Kind, it.Mode = "rel", "R"
	default:
		w.unknown(s, c.Pos(), "mutex method "+method)
		return nil, false
	}
	return []Item{it}, true
}

func (w *walker) atomicCall(s *state, c *ast.CallExpr, fn *types.Func) []string {
	if len(c.Args) == 0 {
		return nil
	}
	a0 := stripConv(w, c.Args[0])
	handled := false
	if u, ok := a0.(*ast.UnaryExpr); ok && u.Op == token.AND {
		if se, ok := unparen(u.X).(*ast.SelectorExpr); ok {
			if fs, ok := w.selField(s, se); ok && fs.tracked {
				if fs.obj != "" && !isFresh(fs.obj) {
					w.emit(s, Item{Kind: "acc", Obj: fs.obj, Field: fs.field, Acc: "a", Pos: w.pos(c.Pos())})
				}
				handled = true
			}
		}
	} else if se, ok := a0.(*ast.SelectorExpr); ok {
		if fs, ok := w.selField(s, se); ok && fs.tracked {
			// a pointer field: the pointer is read, the pointee accessed atomically
			w.access(s, se.Pos(), fs.obj, fs.field, "r")
			if fs.obj != "" && !isFresh(fs.obj) {
				w.emit(s, Item{Kind: "acc", Obj: fs.obj, Field: fs.field + "*", Acc: "a", Pos: w.pos(c.Pos())})
			}
			handled = true
		}
	}
	if !handled {
		w.expr(s, c.Args[0])
	}
	for _, a := range c.Args[1:] {
		w.expr(s, a)
	}
	return nil
}

// staticCall: call of an analysed function with the given receiver / argument objects
// helperQual: for a method of a configuration struct of package avfs, the type that directly embeds it
func (w *walker) helperQual(selection *types.Selection, fn *types.Func) string {
	sig := fn.Type().(*types.Signature)
	if sig.Recv() == nil {
		return ""
	}
	rn, ok := deref(sig.Recv().Type()).(*types.Named)
	if !ok || !w.a.helpers[rn] {
		return ""
	}
	t := selection.Recv()
	idx := selection.Index()
	var prev *types.Named
	for i := 0; i < len(idx)-1; i++ {
		dt := deref(t)
		st, ok := dt.Underlying().(*types.Struct)
		if !ok {
			break
		}
		if n, ok := dt.(*types.Named); ok {
			prev = n
		}
		t = st.Field(idx[i]).Type()
	}
	if prev != nil {
		return w.a.typeID(prev)
	}
	if w.qual != "" {
		return w.qual
	}
	return "?"
}

func (w *walker) staticCall(s *state, c *ast.CallExpr, fn *types.Func, qual, robj string, args []string) []string {
	callee := w.a.analyze(fn, qual)
	if callee == nil {
		w.unknown(s, c.Pos(), "recursive or unanalysable callee "+fn.Name())
		return w.resultObjs(c, nil)
	}
	fd := w.a.funcs[fn]
	var sigma [][2]string
	used := map[string]bool{}
	addSig := func(formal, actual string) {
		if formal == "" || formal == "_" || actual == "" {
			return
		}
		sigma = append(sigma, [2]string{formal, actual})
	}
	if fd.decl.Recv != nil && len(fd.decl.Recv.List) == 1 && len(fd.decl.Recv.List[0].Names) == 1 {
		addSig(fd.decl.Recv.List[0].Names[0].Name, robj)
	}
	sig := fn.Type().(*types.Signature)
	ai := 0
	for _, fld := range fd.decl.Type.Params.List {
		names := fld.Names
		if len(names) == 0 {
			ai++
			continue
		}
		for _, nm := range names {
			if ai < len(args) {
				pt := sig.Params().At(minInt(ai, sig.Params().Len()-1)).Type()
				if _, tr := w.a.tracked(pt); tr {
					addSig(nm.Name, args[ai])
				}
			}
			ai++
		}
	}
	_ = used
	if callee.lockWrapper && len(callee.Paths) == 1 {
		// Lock()/Unlock() style wrappers are inlined (their effect is the lock operation itself)
		m := map[string]string{}
		for _, p := range sigma {
			m[p[0]] = p[1]
		}
		for _, it := range callee.Paths[0] {
			o, ok := m[it.Obj]
			if !ok {
				w.unknown(s, c.Pos(), "lock wrapper "+callee.Name+" called on an unknown object")
				return nil
			}
			it.Obj = o
			it.Pos = w.pos(c.Pos())
			w.emit(s, it)
		}
		return nil
	}
	w.emit(s, Item{Kind: "call", Callee: callee.Name, Sigma: sigma, Pos: w.pos(c.Pos())})
	// a callee may write fields: forget the pointers loaded from fields it (transitively) writes
	wr := w.a.writesOf(callee, map[string]bool{})
	for k := range s.memo {
		f := k[strings.Index(k, "|")+1:]
		if wr == nil || wr[f] {
			delete(s.memo, k)
		}
	}
	return w.resultObjs(c, callee.retFresh)
}

func minInt(a, b int) int {
	if a < b {
		return a
	}
	return b
}

func (a *analyzer) implementations(iface *types.Named, method string) []*types.Func {
	it, ok := iface.Underlying().(*types.Interface)
	if !ok {
		return nil
	}
	var out []*types.Func
	seen := map[*types.Func]bool{}
	scope := iface.Obj().Pkg().Scope()
	names := scope.Names()
	sort.Strings(names)
	for _, nm := range names {
		tn, ok := scope.Lookup(nm).(*types.TypeName)
		if !ok {
			continue
		}
		n, ok := tn.Type().(*types.Named)
		if !ok {
			continue
		}
		if _, ok := n.Underlying().(*types.Struct); !ok {
			continue
		}
		pt := types.NewPointer(n)
		if !types.Implements(pt, it) {
			continue
		}
		ms := types.NewMethodSet(pt)
		sel := ms.Lookup(iface.Obj().Pkg(), method)
		if sel == nil {
			continue
		}
		f, ok := sel.Obj().(*types.Func)
		if !ok || seen[f] {
			continue
		}
		seen[f] = true
		out = append(out, f)
	}
	return out
}

// fields a summary may write, callees included; nil = unknown (still being analysed)
func (a *analyzer) writesOf(s *Summary, seen map[string]bool) map[string]bool {
	if seen[s.Name] {
		return map[string]bool{}
	}
	seen[s.Name] = true
	if _, done := a.byName[s.Name]; !done && !s.isLoop {
		return nil
	}
	out := map[string]bool{}
	for _, p := range s.Paths {
		for _, it := range p {
			switch it.Kind {
			case "acc":
				if it.Acc == "w" {
					out[it.Field] = true
				}
			case "call":
				c := a.byName[it.Callee]
				if c == nil {
					return nil
				}
				sub := a.writesOf(c, seen)
				if sub == nil {
					return nil
				}
				for f := range sub {
					out[f] = true
				}
			}
		}
	}
	return out
}
