module verifharness

go 1.22

require github.com/avfs/avfs v0.0.0

<<<<<<< HEAD
replace github.com/avfs/avfs => /tmp/rw-wrap
=======
replace github.com/avfs/avfs => /tmp/rw-basepath
>>>>>>> agent/basepath
