module verifharness

go 1.22

require github.com/avfs/avfs v0.0.0

replace github.com/avfs/avfs => /tmp/rw-fileio
