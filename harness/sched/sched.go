//go:build verif

// Package sched is the deterministic scheduler of the verification harness.
//
// Goroutines ("threads") run lists of calls on a shared file system built with the
// instrumented RWMutex (package vsync, injected by the overlay).  Exactly one thread
// runs at any time.  A thread parks before every lock acquisition; the scheduler then
// picks, among the threads whose requested lock is available (RWMutex exclusion,
// decided by the scheduler's own table of holders), the one that runs next.  One STEP
// of a thread = acquire the requested lock and run up to its next request (or to the
// end of its program).  A SCHEDULE is the list of thread ids chosen step by step.
//
// DEADLOCK is reported exactly when some thread is not finished and every unfinished
// thread is parked on a lock that is held in a conflicting mode - never by a timeout.
package sched

import (
	"fmt"
	"runtime"
	"strings"

	"github.com/avfs/avfs/zzverif/vsync"
)

// Acq is one acquisition of a lock trace.
type Acq struct {
	Lock  int
	Write bool
}

func (a Acq) String() string {
	if a.Write {
		return fmt.Sprintf("W%d", a.Lock)
	}
	return fmt.Sprintf("R%d", a.Lock)
}

type held struct {
	m     *vsync.RWMutex
	write bool
}

const (
	stNew = iota
	stParked
	stDone
)

// Thread is one goroutine of a program.
type Thread struct {
	ID    int
	Calls []func() string // each returns the printed result of the call
	Rand  []string        // this thread's stream of "random" temp-name parts

	randPos  int
	LastRand string
	resume   chan bool
	state    int
	req      held
	reqCall  int
	reqID    int
	held     []held
	curCall  int
	Results  []string
	Traces   [][]Acq
	Inv      []int // step in which the first lock of the call was granted (-1: none yet)
	Resp     []int // step in which the call returned (-1: not returned)
	Events   []string // acquisitions "A<mode><lock>" and releases "r<mode><lock>" in program order
}

type event struct {
	t    *Thread
	kind int // 0 park, 1 done, 2 exited after abort
}

// Namer gives stable identities to locks. It is called by the scheduler goroutine
// while every thread is parked.
type Namer interface {
	Name(m *vsync.RWMutex) int
	// Sync is called after every step, so that nodes created by the step are numbered
	// before any later step creates more.
	Sync()
}

// S is one execution.
type S struct {
	Threads  []*Thread
	namer    Namer
	cur      *Thread
	events   chan event
	aborting bool
	step     int
	Schedule []int // the choices actually made (complete schedule of the execution)
	Deadlock bool
	Blocked  []string // for a deadlock: what each live thread waits for and holds
}

// New prepares an execution of the given threads.
func New(namer Namer, threads []*Thread) *S {
	s := &S{Threads: threads, namer: namer, events: make(chan event)}
	for i, t := range threads {
		t.ID = i
		t.resume = make(chan bool)
		n := len(t.Calls)
		t.Results = make([]string, n)
		t.Traces = make([][]Acq, n)
		t.Inv = make([]int, n)
		t.Resp = make([]int, n)
		for j := 0; j < n; j++ {
			t.Results[j] = "noreturn"
			t.Inv[j], t.Resp[j] = -1, -1
		}
	}
	return s
}

// ---- vsync.Scheduler ------------------------------------------------------------

// Before parks the running thread until the scheduler grants the lock.
func (s *S) Before(m *vsync.RWMutex, write bool) {
	t := s.cur
	if t == nil || s.aborting {
		return
	}
	t.req = held{m, write}
	t.reqCall = t.curCall
	t.state = stParked
	s.events <- event{t, 0}
	if ok := <-t.resume; !ok {
		runtime.Goexit()
	}
}

// After records a release.
func (s *S) After(m *vsync.RWMutex, write bool) {
	t := s.cur
	if t == nil || s.aborting {
		return
	}
	for i := len(t.held) - 1; i >= 0; i-- {
		if t.held[i].m == m && t.held[i].write == write {
			t.held = append(t.held[:i], t.held[i+1:]...)
			t.Events = append(t.Events, "r"+Acq{s.namer.Name(m), write}.String())
			return
		}
	}
	panic(fmt.Sprintf("sched: thread %d releases a lock it does not hold", t.ID))
}

// NextRandom hands out the next element of the running thread's stream.
func (s *S) NextRandom() (string, bool) {
	t := s.cur
	if t == nil {
		return "", false
	}
	var r string
	if t.randPos < len(t.Rand) {
		r = t.Rand[t.randPos]
	} else {
		r = fmt.Sprintf("x%dx%d", t.ID, t.randPos)
	}
	t.randPos++
	t.LastRand = r
	return r, true
}

// ---- thread body ------------------------------------------------------------------

func (s *S) body(t *Thread) {
	finished := false
	defer func() {
		if !finished { // runtime.Goexit after an abort
			s.events <- event{t, 2}
		}
	}()
	if ok := <-t.resume; !ok {
		runtime.Goexit()
	}
	for i, c := range t.Calls {
		t.curCall = i
		res := safeCall(c)
		if res == goexit {
			return
		}
		t.Results[i] = res
		t.Resp[i] = s.step
		if t.Inv[i] < 0 {
			t.Inv[i] = s.step
		}
	}
	finished = true
	t.state = stDone
	s.events <- event{t, 1}
}

const goexit = "\x00goexit"

func safeCall(c func() string) (res string) {
	normal := false
	defer func() {
		if normal {
			return
		}
		if r := recover(); r != nil {
			msg := fmt.Sprint(r)
			if i := strings.IndexByte(msg, '\n'); i >= 0 {
				msg = msg[:i]
			}
			res = "panic"
			_ = msg
			return
		}
		res = goexit // Goexit in progress: the deferred functions keep running, the value is not used
	}()
	res = c()
	normal = true
	return res
}

// ---- scheduler ----------------------------------------------------------------------

func (s *S) available(t *Thread) bool {
	for _, u := range s.Threads {
		for _, h := range u.held {
			if h.m == t.req.m && (h.write || t.req.write) {
				return false
			}
		}
	}
	return true
}

// Enabled lists the threads that can take a step now.
func (s *S) Enabled() []int {
	var en []int
	for _, t := range s.Threads {
		if t.state == stParked && s.available(t) {
			en = append(en, t.ID)
		}
	}
	return en
}

func (s *S) wait(t *Thread) {
	ev := <-s.events
	if ev.t != t {
		panic("sched: event from a thread that should not be running")
	}
	s.cur = nil
	s.namer.Sync()
	if ev.kind == 0 {
		t.reqID = s.namer.Name(t.req.m)
	}
}

// Start runs every thread up to its first lock request (thread-local code only).
func (s *S) Start() {
	vsync.Install(s)
	s.step = -1
	for _, t := range s.Threads {
		go s.body(t)
		s.cur = t
		t.resume <- true
		s.wait(t)
	}
	s.step = 0
}

// Step lets thread id acquire its requested lock and run to its next request. It
// returns false (and does nothing) when the thread is not enabled.
func (s *S) Step(id int) bool {
	if id < 0 || id >= len(s.Threads) {
		return false
	}
	t := s.Threads[id]
	if t.state != stParked || !s.available(t) {
		return false
	}
	t.held = append(t.held, t.req)
	c := t.reqCall
	t.Traces[c] = append(t.Traces[c], Acq{t.reqID, t.req.write})
	t.Events = append(t.Events, "A"+Acq{t.reqID, t.req.write}.String())
	if t.Inv[c] < 0 {
		t.Inv[c] = s.step
	}
	s.Schedule = append(s.Schedule, id)
	s.cur = t
	t.resume <- true
	s.wait(t)
	s.step++
	return true
}

// AllDone reports whether every thread has finished its program.
func (s *S) AllDone() bool {
	for _, t := range s.Threads {
		if t.state != stDone {
			return false
		}
	}
	return true
}

// Run executes: at every step choose(enabled, last) picks the next thread among the
// enabled ones (last = thread of the previous step, -1 at the start).  It ends when all
// threads are done or on a deadlock, and always leaves no goroutine behind.
func (s *S) Run(choose func(enabled []int, last int) int) {
	s.Start()
	last := -1
	for {
		en := s.Enabled()
		if len(en) == 0 {
			break
		}
		id := choose(en, last)
		if !s.Step(id) {
			panic("sched: chooser picked a thread that is not enabled")
		}
		last = id
	}
	s.Finish()
}

// Finish decides deadlock, aborts what is still parked and removes the hook.
func (s *S) Finish() {
	if !s.AllDone() {
		s.Deadlock = true
		for _, t := range s.Threads {
			if t.state == stParked {
				var hs []string
				for _, h := range t.held {
					hs = append(hs, Acq{s.namer.Name(h.m), h.write}.String())
				}
				s.Blocked = append(s.Blocked, fmt.Sprintf("t%d:c%d:wants=%s:holds=%s", t.ID, t.reqCall,
					Acq{t.reqID, t.req.write}, strings.Join(hs, ",")))
			}
		}
		s.aborting = true
		for _, t := range s.Threads {
			if t.state == stParked {
				s.cur = t
				t.resume <- false
				<-s.events
				t.state = stDone
			}
		}
		s.cur = nil
	}
	vsync.Install(nil)
}

// FollowSchedule is the chooser of a replay: the elements of the schedule are consumed in
// order, an element naming a thread that is not enabled is skipped; when the schedule is
// exhausted the lowest enabled thread runs.
func FollowSchedule(schedule []int) func(enabled []int, last int) int {
	pos := 0
	return func(enabled []int, last int) int {
		for pos < len(schedule) {
			c := schedule[pos]
			pos++
			for _, e := range enabled {
				if e == c {
					return c
				}
			}
		}
		return enabled[0]
	}
}
